(** C11, part 3: the LRU cache over the pointer map.

    Every cache operation closes every iterator it opens and leaves at most
    [cap] live entries, so after every operation of every history the nodes
    reachable from head number at most [cap + 1]. *)
From Coq Require Import List ZArith Arith Bool Lia.
From GL Require Import lib.IMapBase model.IMap model.Chain spec.OMap model.IMapLRU
  proofs.C10_Assoc proofs.C10_Cells proofs.C10_Next proofs.C10_R2 proofs.C10_ChainSim
  proofs.C10_Heap proofs.C10_L1 proofs.C10_Repr proofs.C10_Main proofs.C11_Chain proofs.C11_CacheSim.
Import ListNotations.
Open Scope Z_scope.

(** * [mstep] *)

Lemma mstep_ok_inv {M} (step : M -> op -> M * out) m x m' y :
  mstep step m x = Ok (m', y) -> step m x = (m', y) /\ is_stop y = false.
Proof.
  unfold mstep. destruct (step m x) as [m0 y0]. destruct y0; intros H; try discriminate H;
    injection H as <- <-; auto.
Qed.

Lemma mstep_ok_intro {M} (step : M -> op -> M * out) m x m' y :
  step m x = (m', y) -> is_stop y = false -> mstep step m x = Ok (m', y).
Proof. unfold mstep. intros -> H. destruct y; try discriminate H; reflexivity. Qed.

Definition names (o : omap) : list Z := map fst (opos o).

Lemma o_step_ok_names o x :
  is_stop (snd (o_step o x)) = false -> (forall i, x <> ONewIter i) -> op_ok (names o) x.
Proof.
  intros Hs Hn. destruct x as [k v|k|k| | |i|i|i|i]; cbn [op_ok]; try exact I.
  - exfalso. apply (Hn i). reflexivity.
  - cbn [o_step] in Hs. destruct (alookup i (opos o)) as [p|] eqn:E; [|discriminate Hs].
    apply alookup_in in E. apply (in_map fst) in E. exact E.
  - cbn [o_step] in Hs. destruct (alookup i (opos o)) as [p|] eqn:E; [|discriminate Hs].
    apply alookup_in in E. apply (in_map fst) in E. exact E.
  - cbn [o_step] in Hs. destruct (alookup i (opos o)) as [p|] eqn:E; [|discriminate Hs].
    apply alookup_in in E. apply (in_map fst) in E. exact E.
Qed.

(** * The pointer model follows the specification on every call the cache makes *)

Lemma R_mstep ch m o x o' y : R m o -> op_ok (names o) x -> mstep o_step o x = Ok (o', y) ->
  exists m', mstep (i_step ch) m x = Ok (m', y) /\ R m' o'.
Proof.
  intros HR Hok H. apply mstep_ok_inv in H. destruct H as [Ho Hs].
  destruct (imap_step_sim ch m o x HR Hok) as (m' & Hi & HR'). rewrite Ho in Hi, HR'. cbn [fst snd] in *.
  exists m'. split; [|exact HR']. apply mstep_ok_intro; [|exact Hs]. unfold i_step. rewrite Hi. reflexivity.
Qed.

Lemma R_Hstep ch it m o x o' y : basic it x -> R m o -> mstep o_step o x = Ok (o', y) ->
  exists m', mstep (i_step ch) m x = Ok (m', y) /\ R m' o'.
Proof.
  intros Hb HR H. apply (R_mstep ch m o x o' y HR); [|exact H].
  apply o_step_ok_names.
  - apply mstep_ok_inv in H. destruct H as [-> Hs]. exact Hs.
  - intros i ->. exact Hb.
Qed.

Lemma R_Hnew ch it m o o' y : ~ In it (names o) -> R m o -> mstep o_step o (ONewIter it) = Ok (o', y) ->
  exists m', mstep (i_step ch) m (ONewIter it) = Ok (m', y) /\ R m' o'.
Proof. intros Hf HR H. apply (R_mstep ch m o _ o' y HR); [exact Hf|exact H]. Qed.

(** * The specification under the cache code *)

Lemma o_len_app es e : o_len (es ++ [e]) = (o_len es + (if e_live e then 1 else 0))%nat.
Proof. unfold o_len. rewrite filter_app, app_length. cbn [filter]. destruct (e_live e); reflexivity. Qed.

Lemma o_len_kill_le k es : (o_len (map (kill k) es) <= o_len es)%nat.
Proof.
  unfold o_len. induction es as [|e t IH]; cbn [map filter]; [lia|].
  unfold kill at 1. destruct (live_with k e) eqn:E; cbn [e_live].
  - apply live_with_iff in E. destruct E as [-> _]. cbn [length]. lia.
  - destruct (e_live e); cbn [length]; lia.
Qed.

Lemma o_len_kill_lt k es e : In e es -> live_with k e = true -> (o_len (map (kill k) es) < o_len es)%nat.
Proof.
  unfold o_len. induction es as [|e0 t IH]; cbn [In map filter]; [tauto|]. intros [->|Hin] Hl.
  - unfold kill at 1. rewrite Hl. cbn [e_live]. apply live_with_iff in Hl. destruct Hl as [-> _]. cbn [length].
    pose proof (o_len_kill_le k t) as Hle. unfold o_len in Hle. lia.
  - specialize (IH Hin Hl). unfold kill at 1. destruct (live_with k e0) eqn:E; cbn [e_live].
    + apply live_with_iff in E. destruct E as [-> _]. cbn [length]. lia.
    + destruct (e_live e0); cbn [length]; lia.
Qed.

Lemma o_find_kill k es : o_find (map (kill k) es) k = None.
Proof.
  apply o_find_none. intros e He. apply in_map_iff in He. destruct He as (e0 & <- & _).
  unfold kill. destruct (live_with k e0) eqn:E; [reflexivity|exact E].
Qed.

Lemma o_find_in es k e : o_find es k = Some e -> In e es /\ live_with k e = true.
Proof. unfold o_find. apply find_some. Qed.

Lemma dead_all_len es : dead_range es 0 (length es) -> o_len es = 0%nat.
Proof.
  unfold o_len. induction es as [|e t IH]; intros H; [reflexivity|]. cbn [filter].
  rewrite (H 0%nat e); [|cbn [length]; lia|reflexivity]. apply IH.
  intros j e' Hj He'. apply (H (S j)); [cbn [length]; lia|exact He'].
Qed.

Lemma first_live_pos es : (0 < o_len es)%nat -> exists j e, first_live es 0 = Some (j, e).
Proof.
  intros H. destruct (first_live es 0) as [[j e]|] eqn:E; [eauto|].
  apply first_live_none_inv, dead_all_len in E. lia.
Qed.

Lemma kill_dead_range k es a b : dead_range es a b -> dead_range (map (kill k) es) a b.
Proof. apply dead_range_kill. Qed.

Lemma mstep_o o x : is_stop (snd (o_step o x)) = false -> mstep o_step o x = Ok (o_step o x).
Proof. intros H. destruct (o_step o x) as [o' y] eqn:E. apply mstep_ok_intro; [exact E|exact H]. Qed.

(* GetOrCreate over the specification: always succeeds, opens nothing, keeps Len <= cap,
   never shortens the entry list and extends it when the create function succeeds *)
Lemma o_getorcreate cap o k v ok :
  exists o' out, lc_getorcreate o_step cap o k v ok = Ok (o', out) /\ opos o' = opos o /\
    ((o_len (entries o) <= cap)%nat -> (o_len (entries o') <= cap)%nat) /\
    (length (entries o) <= length (entries o'))%nat /\
    (ok = true -> (length (entries o) < length (entries o'))%nat) /\ out <> CStop.
Proof.
  unfold lc_getorcreate. rewrite mstep_o by reflexivity. cbn [o_step bind].
  destruct (o_find (entries o) k) as [e|] eqn:Ef; cbn [option_map].
  - (* hit: Remove; Add *)
    rewrite mstep_o by reflexivity. cbn [o_step bind entries opos].
    rewrite mstep_o by (cbn [o_step entries]; rewrite o_find_kill; reflexivity).
    cbn [o_step entries opos]. rewrite o_find_kill. cbn [bind].
    eexists. eexists. split; [reflexivity|]. cbn [entries opos]. split; [reflexivity|].
    destruct (o_find_in _ _ _ Ef) as [Hin Hl]. pose proof (o_len_kill_lt k _ e Hin Hl) as Hlt.
    rewrite o_len_app, app_length, map_length. cbn [e_live length]. repeat split; intros; try lia; discriminate.
  - destruct ok.
    + rewrite mstep_o by (cbn [o_step]; rewrite Ef; reflexivity). cbn [o_step]. rewrite Ef. cbn [bind].
      rewrite mstep_o by reflexivity. cbn [o_step bind entries opos].
      set (es1 := entries o ++ [mkEntry k v true]).
      assert (Hl1 : o_len es1 = S (o_len (entries o))) by (unfold es1; rewrite o_len_app; cbn [e_live]; lia).
      assert (Hn1 : length es1 = S (length (entries o))) by (unfold es1; rewrite app_length; cbn [length]; lia).
      destruct (Nat.ltb_spec cap (o_len es1)) as [Hlt|Hge].
      * rewrite mstep_o by reflexivity. cbn [o_step bind entries opos].
        destruct (first_live_pos es1) as (j & e & Efl); [lia|]. rewrite Efl. cbn [option_map snd].
        rewrite mstep_o by reflexivity. cbn [o_step bind entries opos].
        rewrite mstep_o by reflexivity. cbn [o_step bind entries opos].
        eexists. eexists. split; [reflexivity|]. cbn [entries opos]. split; [reflexivity|].
        destruct (first_live_inv _ _ _ _ Efl) as (_ & Hn & Hlv & _).
        assert (Hlw : live_with (e_key e) e = true) by (apply live_with_iff; auto).
        pose proof (o_len_kill_lt (e_key e) es1 e (nth_error_In _ _ Hn) Hlw) as Hk.
        rewrite map_length. repeat split; intros; try lia; discriminate.
      * eexists. eexists. split; [reflexivity|]. cbn [entries opos]. split; [reflexivity|].
        repeat split; intros; try lia; discriminate.
    + eexists. eexists. split; [reflexivity|]. repeat split; intros; try lia; discriminate.
Qed.

Lemma o_remove_op o k :
  exists o' out, lc_remove o_step o k = Ok (o', out) /\ opos o' = opos o /\
    (o_len (entries o') <= o_len (entries o))%nat /\ length (entries o') = length (entries o) /\ out <> CStop.
Proof.
  unfold lc_remove. rewrite mstep_o by reflexivity. cbn [o_step bind].
  destruct (o_find (entries o) k) as [e|]; cbn [option_map].
  - rewrite mstep_o by reflexivity. cbn [o_step bind]. eexists. eexists. split; [reflexivity|].
    cbn [entries opos]. split; [reflexivity|]. split; [apply o_len_kill_le|]. split; [apply map_length|discriminate].
  - eexists. eexists. split; [reflexivity|]. repeat split; auto; discriminate.
Qed.

(* the loop of Clear over the specification: with [it] at position [p], everything before [p] dead *)
Lemma o_clear_loop it : forall fuel o removed p,
  NoDup (map fst (opos o)) ->
  alookup it (opos o) = Some p -> dead_range (entries o) 0 p -> (o_len (entries o) < fuel)%nat ->
  exists o' n p', lc_clear_loop o_step fuel o it removed = Ok (o', n) /\
    o_len (entries o') = 0%nat /\ length (entries o') = length (entries o) /\
    opos o' = aset it p' (opos o) /\ first_live (entries o') p' = None.
Proof.
  induction fuel as [|f IH]; intros o removed p Hnd Hp Hd Hf; [lia|].
  cbn [lc_clear_loop].
  rewrite mstep_o by (cbn [o_step]; rewrite Hp; reflexivity). cbn [o_step]. rewrite Hp. cbn [bind].
  destruct (first_live (entries o) p) as [[j e]|] eqn:Efl.
  - rewrite mstep_o by (cbn [o_step]; rewrite Hp, Efl; reflexivity). cbn [o_step]. rewrite Hp, Efl. cbn [bind].
    rewrite mstep_o by reflexivity. cbn [o_step bind entries opos].
    destruct (first_live_inv _ _ _ _ Efl) as (Hpj & Hn & Hlv & Hdj).
    assert (Hlw : live_with (e_key e) e = true) by (apply live_with_iff; auto).
    pose proof (o_len_kill_lt (e_key e) _ e (nth_error_In _ _ Hn) Hlw) as Hk.
    destruct (IH (mkOMap (map (kill (e_key e)) (entries o)) (aset it (S j) (opos o))) (S removed) (S j))
      as (o' & n & p' & Hrun & H0 & Hlen & Hpos & Hnone).
    + cbn [opos]. rewrite aset_keys. exact Hnd.
    + cbn [opos]. apply alookup_aset_same. apply alookup_in in Hp. apply (in_map fst) in Hp. exact Hp.
    + cbn [entries]. intros i e' Hi He'.
      destruct (Nat.eq_dec i j) as [->|Hne].
      * rewrite nth_error_map, Hn in He'. cbn [option_map] in He'. injection He' as <-.
        unfold kill. rewrite Hlw. reflexivity.
      * apply (kill_dead_range (e_key e) (entries o) 0 j) with (j := i); [|lia|exact He'].
        eapply dead_range_split; [exact Hd|exact Hdj].
    + cbn [entries]. lia.
    + exists o', n, p'. split; [exact Hrun|]. split; [exact H0|]. cbn [entries opos] in Hlen, Hpos.
      split; [rewrite Hlen; apply map_length|]. split; [rewrite Hpos; apply aset_aset|exact Hnone].
  - exists o, removed, p. split; [reflexivity|]. split.
    + apply dead_all_len. eapply dead_range_split; [exact Hd|]. apply first_live_none_inv. exact Efl.
    + split; [reflexivity|]. split; [|exact Efl]. symmetry. apply aset_id; assumption.
Qed.

Lemma clear_fuel_o o : clear_fuel o_step o = S (S (o_len (entries o))).
Proof. reflexivity. Qed.

(* Clear over the specification: empties the map and closes its iterator *)
Lemma o_clear o it : NoDup (names o) -> ~ In it (names o) ->
  exists o' n, lc_clear o_step o it = Ok (o', CCleared n) /\ opos o' = opos o /\ o_len (entries o') = 0%nat /\ length (entries o') = length (entries o).
Proof.
  intros Hnd Hni. unfold lc_clear. rewrite clear_fuel_o.
  rewrite mstep_o by reflexivity. cbn [o_step bind].
  destruct (o_clear_loop it (S (S (o_len (entries o)))) (mkOMap (entries o) ((it, 0%nat) :: opos o)) 0%nat 0%nat)
    as (o' & n & p' & Hrun & H0 & Hlen & Hpos & _).
  - cbn [opos map fst]. constructor; assumption.
  - cbn [opos alookup]. rewrite Z.eqb_refl. reflexivity.
  - intros j e Hj. lia.
  - cbn [entries]. lia.
  - rewrite Hrun. cbn [bind]. cbn [opos entries] in Hpos, Hlen.
    rewrite aset_cons_same, aset_notin in Hpos by exact Hni.
    rewrite mstep_o by (cbn [o_step]; rewrite Hpos; cbn [alookup]; rewrite Z.eqb_refl; reflexivity).
    cbn [o_step]. rewrite Hpos. cbn [alookup]. rewrite Z.eqb_refl. cbn [bind].
    eexists. eexists. split; [reflexivity|]. cbn [opos entries].
    rewrite aremove_cons_same, aremove_notin by exact Hni. auto.
Qed.

(* Clear as it was before the fix: the iterator stays open, at the end of the entries *)
Lemma o_clear_legacy o it : NoDup (names o) -> ~ In it (names o) ->
  exists o' n p', IMapLRULegacy.lc_clear_legacy o_step o it = Ok (o', CCleared n) /\ opos o' = (it, p') :: opos o /\ first_live (entries o') p' = None /\ o_len (entries o') = 0%nat /\ length (entries o') = length (entries o).
Proof.
  intros Hnd Hni. unfold IMapLRULegacy.lc_clear_legacy. rewrite clear_fuel_o.
  rewrite mstep_o by reflexivity. cbn [o_step bind].
  destruct (o_clear_loop it (S (S (o_len (entries o)))) (mkOMap (entries o) ((it, 0%nat) :: opos o)) 0%nat 0%nat)
    as (o' & n & p' & Hrun & H0 & Hlen & Hpos & Hnone).
  - cbn [opos map fst]. constructor; assumption.
  - cbn [opos alookup]. rewrite Z.eqb_refl. reflexivity.
  - intros j e Hj. lia.
  - cbn [entries]. lia.
  - rewrite Hrun. cbn [bind]. cbn [opos entries] in Hpos, Hlen.
    rewrite aset_cons_same, aset_notin in Hpos by exact Hni.
    exists o', n, p'. auto.
Qed.

(** * One cache operation on the pointer model *)

Definition lru_inv (cap : nat) (s : @lru imap) : Prop :=
  exists o, R (l_map s) o /\ opos o = [] /\ (o_len (entries o) <= cap)%nat.

Lemma lru_inv_init cap : lru_inv cap (mkLru i_new 0).
Proof. exists o_new. split; [apply R_init|]. split; [reflexivity|cbn; lia]. Qed.

Lemma lru_step_inv ch cap s x : lru_inv cap s ->
  lru_inv cap (fst (lc_step (i_step ch) cap s x)) /\ snd (lc_step (i_step ch) cap s x) <> CStop.
Proof.
  intros (o & HR & Hpos & Hlen). destruct s as [m n]. cbn [l_map l_clears] in *.
  assert (Hgo : forall m' n' out o', lc_do (i_step ch) cap (mkLru m n) x = Ok (mkLru m' n', out) ->
                  R m' o' -> opos o' = [] -> (o_len (entries o') <= cap)%nat -> out <> CStop ->
                  lru_inv cap (fst (lc_step (i_step ch) cap (mkLru m n) x)) /\ snd (lc_step (i_step ch) cap (mkLru m n) x) <> CStop).
  { intros m' n' out o' E HR' Hp' Hl' Hout. unfold lc_step. rewrite E. cbn [fst snd]. split; [|exact Hout].
    exists o'. auto. }
  destruct x as [k v ok|k|]; cbn [lc_do l_map l_clears] in *.
  - destruct (o_getorcreate cap o k v ok) as (o' & out & Ho & Hp' & Hl' & _ & _ & Hout).
    destruct (getorcreate_sim (i_step ch) o_step R n (R_Hstep ch n) cap m o k v ok o' out HR Ho) as (m' & Hm & HR').
    apply (Hgo m' n out o'); [rewrite Hm; reflexivity|exact HR'|congruence|auto|exact Hout].
  - destruct (o_remove_op o k) as (o' & out & Ho & Hp' & Hl' & _ & Hout).
    destruct (remove_sim (i_step ch) o_step R n (R_Hstep ch n) m o k o' out HR Ho) as (m' & Hm & HR').
    apply (Hgo m' n out o'); [rewrite Hm; reflexivity|exact HR'|congruence|lia|exact Hout].
  - destruct (o_clear o n) as (o' & cnt & Ho & Hp' & Hl' & _).
    { unfold names. rewrite Hpos. constructor. }
    { unfold names. rewrite Hpos. intros []. }
    destruct (clear_sim (i_step ch) o_step R n (fun o => ~ In n (names o)) (R_Hstep ch n) (R_Hnew ch n) m o o' _
                ltac:(unfold names; rewrite Hpos; intros []) HR Ho) as (m' & Hm & HR').
    apply (Hgo m' (n + 1) (CCleared cnt) o'); [rewrite Hm; reflexivity|exact HR'|congruence|lia|discriminate].
Qed.

Lemma lru_run_inv ch cap : forall ops s, lru_inv cap s ->
  Forall (fun r => lru_inv cap (snd r) /\ fst r <> CStop) (lc_run (i_step ch) cap s ops).
Proof.
  induction ops as [|x t IH]; intros s Hs; cbn [lc_run]; [constructor|].
  pose proof (lru_step_inv ch cap s x Hs) as [H1 H2].
  destruct (lc_step (i_step ch) cap s x) as [s' out]. cbn [fst snd] in *.
  constructor; [cbn [fst snd]; auto|apply IH; exact H1].
Qed.

(** * The theorems *)

Definition lru_states (ch : nat -> option nat) (cap : nat) (ops : list cop) : list (cout * @lru imap) :=
  lc_run (i_step ch) cap (mkLru i_new 0) ops.

Lemma lru_inv_facts cap s : lru_inv cap s ->
  iters (l_map s) = [] /\ count_deleted (l_map s) = 0%nat /\ (i_len (l_map s) <= cap)%nat /\ length (i_chain (l_map s)) = (i_len (l_map s) + 1)%nat /\ head_ok (l_map s) = true.
Proof.
  intros (o & HR & Hpos & Hlen).
  assert (Hit : iters (l_map s) = []).
  { pose proof (R_open _ _ HR) as Ho. rewrite Hpos in Ho. destruct (iters (l_map s)); [reflexivity|discriminate]. }
  pose proof (R_pinned_le_iters _ _ HR) as Hp. rewrite Hit in Hp. cbn [length] in Hp.
  split; [exact Hit|]. split; [lia|]. split; [rewrite (R_len _ _ HR); exact Hlen|].
  split; [rewrite (R_chain_length _ _ HR); lia|apply (R_head_on_chain _ _ HR)].
Qed.

Theorem lru_no_open_iters : forall cap ch ops r, In r (lru_states ch cap ops) ->
  iters (l_map (snd r)) = [] /\ count_deleted (l_map (snd r)) = 0%nat /\ fst r <> CStop.
Proof.
  intros cap ch ops r Hin.
  pose proof (proj1 (Forall_forall _ _) (lru_run_inv ch cap ops _ (lru_inv_init cap)) r Hin) as [Hi Hs].
  destruct (lru_inv_facts _ _ Hi) as (H1 & H2 & _). auto.
Qed.

Theorem lru_retention : forall cap ch ops r, In r (lru_states ch cap ops) ->
  (length (i_chain (l_map (snd r))) <= cap + 1)%nat.
Proof.
  intros cap ch ops r Hin.
  pose proof (proj1 (Forall_forall _ _) (lru_run_inv ch cap ops _ (lru_inv_init cap)) r Hin) as [Hi _].
  destruct (lru_inv_facts _ _ Hi) as (_ & _ & H3 & H4 & _). lia.
Qed.

Theorem lru_exact : forall cap ch ops r, In r (lru_states ch cap ops) ->
  length (i_chain (l_map (snd r))) = (i_len (l_map (snd r)) + 1)%nat /\ (i_len (l_map (snd r)) <= cap)%nat /\ head_ok (l_map (snd r)) = true.
Proof.
  intros cap ch ops r Hin.
  pose proof (proj1 (Forall_forall _ _) (lru_run_inv ch cap ops _ (lru_inv_init cap)) r Hin) as [Hi _].
  destruct (lru_inv_facts _ _ Hi) as (_ & _ & H3 & H4 & H5). auto.
Qed.

(** * Three levels at once: the chain state is exposed *)

Lemma step3 ch s c o x : (exists zs, repr s c zs) -> R2 c o -> op_ok (map fst (opos o)) x ->
  exists s' c', i_do ch s x = Ok (s', snd (o_step o x)) /\ c_do c x = Ok (c', snd (o_step o x)) /\
                (exists zs', repr s' c' zs') /\ R2 c' (fst (o_step o x)).
Proof.
  intros (zs & Hrepr) HR2 Hok.
  pose proof (cinv_of_R2 _ _ HR2) as Hc.
  assert (Hgen : x <> OFirst ->
     exists c', c_do c x = Ok (c', snd (o_step o x)) /\ R2 c' (fst (o_step o x)) /\ cinv c').
  { intros _. destruct (c_do_sim c o x HR2 Hok) as (c' & H1 & H2). exists c'. split; [exact H1|].
    split; [exact H2|]. eapply cinv_of_R2. exact H2. }
  destruct x as [k v|k|k| | |i|i|i|i]; cbn [i_do].
  - destruct Hgen as (c' & Hdo & HR' & Hc'); [discriminate|]. pose proof Hdo as Hdo0. cbn [c_do] in Hdo.
    destruct (sim1_add s c zs k v (ch (allocs s)) c' _ Hrepr Hc' Hdo) as (s' & zs' & Hi & Hr').
    exists s', c'. eauto.
  - destruct Hgen as (c' & Hdo & HR' & Hc'); [discriminate|]. pose proof Hdo as Hdo0. cbn [c_do] in Hdo.
    destruct (sim1_remove s c zs k c' _ Hrepr Hc Hc' Hdo) as (s' & zs' & Hi & Hr').
    exists s', c'. eauto.
  - destruct Hgen as (c' & Hdo & HR' & Hc'); [discriminate|]. pose proof Hdo as Hdo0. cbn [c_do] in Hdo.
    destruct (sim1_get s c zs k c' _ Hrepr Hc Hdo) as (Hi & ->).
    exists s, c. eauto.
  - destruct Hgen as (c' & Hdo & HR' & Hc'); [discriminate|]. pose proof Hdo as Hdo0. cbn [c_do] in Hdo.
    injection Hdo as <- Hout. exists s, c. rewrite (sim1_len s c zs Hrepr), Hout. eauto.
  - clear Hgen. cbn [op_ok] in Hok.
    pose proof (trel_keys _ _ _ (r2_iters _ _ HR2)) as Hk2.
    pose proof (trel_keys _ _ _ (rp_iters _ _ _ Hrepr)) as Hk1.
    cbn [c_do]. unfold i_first, c_first. unfold akeys. rewrite Hk1. set (name := fresh_name (map fst (citers c))).
    assert (Hfresh : ~ In name (map fst (citers c))) by apply fresh_name_notin.
    assert (Hfresh' : ~ In name (map fst (opos o))) by (rewrite <- Hk2; exact Hfresh).
    destruct (sim_iterator c o name HR2 Hfresh) as (c1 & Hc1 & HR1).
    set (o1 := mkOMap (entries o) ((name, 0%nat) :: opos o)) in *.
    pose proof (cinv_of_R2 _ _ HR1) as Hci1.
    destruct (sim1_iterator s c zs name c1 _ Hrepr Hci1 Hc1) as (s1 & zs1 & Hi1 & Hr1).
    rewrite Hi1, Hc1. cbn [bind].
    assert (Hp1 : alookup name (opos o1) = Some 0%nat) by (cbn; rewrite Z.eqb_refl; reflexivity).
    destruct (sim_itnext c1 o1 name 0%nat HR1 Hp1) as (c2 & Hc2 & HR2').
    pose proof (cinv_of_R2 _ _ HR2') as Hci2.
    destruct (sim1_itnext s1 c1 zs1 name c2 _ Hr1 Hci1 Hci2 Hc2) as (s2 & zs2 & Hi2 & Hr2).
    rewrite Hi2, Hc2. cbn [bind].
    cbn [o_step] in HR2', Hi2, Hc2 |- *. rewrite Hp1 in HR2', Hi2, Hc2 |- *. cbn [entries o1] in HR2', Hi2, Hc2 |- *.
    destruct (first_live (entries o) 0) as [[j e]|] eqn:Ef; cbn [fst snd] in HR2', Hi2, Hc2 |- *.
    + cbn [opos o1] in HR2'. rewrite aset_cons_same, aset_notin in HR2' by exact Hfresh'.
      destruct (sim_close c2 _ name (S j) HR2') as (c3 & Hc3 & HR3); [cbn; rewrite Z.eqb_refl; reflexivity|].
      pose proof (cinv_of_R2 _ _ HR3) as Hci3.
      destruct (sim1_close s2 c2 zs2 name c3 _ Hr2 Hci2 Hci3 Hc3) as (s3 & zs3 & Hi3 & Hr3).
      rewrite Hi3, Hc3. cbn [bind]. exists s3, c3. split; [reflexivity|]. split; [reflexivity|].
      split; [eauto|].
      cbn [entries opos] in HR3. rewrite aremove_cons_same, aremove_notin in HR3 by exact Hfresh'.
      destruct o. exact HR3.
    + destruct (sim_close c2 o1 name 0%nat HR2' Hp1) as (c3 & Hc3 & HR3).
      pose proof (cinv_of_R2 _ _ HR3) as Hci3.
      destruct (sim1_close s2 c2 zs2 name c3 _ Hr2 Hci2 Hci3 Hc3) as (s3 & zs3 & Hi3 & Hr3).
      rewrite Hi3, Hc3. cbn [bind]. exists s3, c3. split; [reflexivity|]. split; [reflexivity|].
      split; [eauto|].
      cbn [entries opos o1] in HR3. rewrite aremove_cons_same, aremove_notin in HR3 by exact Hfresh'.
      destruct o. exact HR3.
  - destruct Hgen as (c' & Hdo & HR' & Hc'); [discriminate|]. pose proof Hdo as Hdo0. cbn [c_do] in Hdo.
    destruct (sim1_iterator s c zs i c' _ Hrepr Hc' Hdo) as (s' & zs' & Hi & Hr').
    exists s', c'. eauto.
  - destruct Hgen as (c' & Hdo & HR' & Hc'); [discriminate|]. pose proof Hdo as Hdo0. cbn [c_do] in Hdo.
    destruct (sim1_hasnext s c zs i c' _ Hrepr Hc Hc' Hdo) as (s' & zs' & Hi & Hr').
    exists s', c'. eauto.
  - destruct Hgen as (c' & Hdo & HR' & Hc'); [discriminate|]. pose proof Hdo as Hdo0. cbn [c_do] in Hdo.
    destruct (sim1_itnext s c zs i c' _ Hrepr Hc Hc' Hdo) as (s' & zs' & Hi & Hr').
    exists s', c'. eauto.
  - destruct Hgen as (c' & Hdo & HR' & Hc'); [discriminate|]. pose proof Hdo as Hdo0. cbn [c_do] in Hdo.
    destruct (sim1_close s c zs i c' _ Hrepr Hc Hc' Hdo) as (s' & zs' & Hi & Hr').
    exists s', c'. eauto.
Qed.
