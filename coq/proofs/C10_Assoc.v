(** Association-list lemmas (tables of iterators, the Go map [vals]) and
    generic facts about [run] / [wf_from] used by the C10/C11 proofs. *)
From Coq Require Import List ZArith Arith Bool Lia.
From GL Require Import lib.IMapBase.
Import ListNotations.
Open Scope Z_scope.

Section Assoc.
Context {V : Type}.
Implicit Types (l : list (Z * V)) (k : Z) (v : V).

Lemma alookup_in k v l : alookup k l = Some v -> In (k, v) l.
Proof.
  induction l as [|[k' v'] t IH]; cbn [alookup]; [discriminate|].
  destruct (Z.eqb_spec k' k) as [->|Hne]; [intros [= ->]; left; reflexivity|].
  intros H. right. apply IH. exact H.
Qed.

Lemma alookup_none k l : alookup k l = None <-> ~ In k (map fst l).
Proof.
  induction l as [|[k' v'] t IH]; cbn [alookup map fst In]; [tauto|].
  destruct (Z.eqb_spec k' k) as [->|Hne].
  - split; [discriminate|]. intros H. exfalso. apply H. left. reflexivity.
  - rewrite IH. tauto.
Qed.

Lemma alookup_some_in k l : In k (map fst l) -> exists v, alookup k l = Some v.
Proof.
  intros H. destruct (alookup k l) as [v|] eqn:E; [eexists; reflexivity|].
  apply alookup_none in E. contradiction.
Qed.

Lemma in_alookup k v l : NoDup (map fst l) -> In (k, v) l -> alookup k l = Some v.
Proof.
  induction l as [|[k' v'] t IH]; cbn [alookup map fst In]; [tauto|].
  intros Hnd [Heq|Hin].
  - injection Heq as -> ->. rewrite Z.eqb_refl. reflexivity.
  - inversion Hnd as [|? ? Hni Hnd']; subst.
    destruct (Z.eqb_spec k' k) as [->|Hne].
    + exfalso. apply Hni. apply (in_map fst) in Hin. exact Hin.
    + apply IH; assumption.
Qed.

Lemma aset_keys k v l : map fst (aset k v l) = map fst l.
Proof.
  unfold aset. rewrite map_map. apply map_ext_in. intros [k' v'] _. cbn [fst].
  destruct (Z.eqb_spec k' k) as [->|]; reflexivity.
Qed.

Lemma aset_notin k v l : ~ In k (map fst l) -> aset k v l = l.
Proof.
  induction l as [|[k' v'] t IH]; cbn [aset map fst In]; [reflexivity|]. intros H.
  destruct (Z.eqb_spec k' k) as [->|Hne]; [exfalso; apply H; left; reflexivity|].
  f_equal. apply IH. tauto.
Qed.

Lemma aremove_notin k l : ~ In k (map fst l) -> aremove k l = l.
Proof.
  induction l as [|[k' v'] t IH]; cbn [aremove filter map fst In]; [reflexivity|]. intros H.
  destruct (Z.eqb_spec k' k) as [->|Hne]; [exfalso; apply H; left; reflexivity|].
  cbn [negb]. f_equal. apply IH. tauto.
Qed.

Lemma aremove_keys k l : map fst (aremove k l) = filter (fun x => negb (x =? k)) (map fst l).
Proof.
  induction l as [|[k' v'] t IH]; cbn [aremove filter map fst]; [reflexivity|].
  destruct (k' =? k); cbn [negb map fst]; [exact IH|f_equal; exact IH].
Qed.

Lemma aremove_not_in k l : ~ In k (map fst (aremove k l)).
Proof.
  rewrite aremove_keys. intros H. apply filter_In in H. destruct H as [_ H].
  rewrite Z.eqb_refl in H. discriminate.
Qed.

Lemma aremove_in_keys k k' l : In k' (map fst (aremove k l)) -> In k' (map fst l).
Proof. rewrite aremove_keys. intros H. apply filter_In in H. tauto. Qed.

Lemma aremove_nodup k l : NoDup (map fst l) -> NoDup (map fst (aremove k l)).
Proof. rewrite aremove_keys. apply NoDup_filter. Qed.

Lemma alookup_aset_same k v l : In k (map fst l) -> alookup k (aset k v l) = Some v.
Proof.
  induction l as [|[k' v'] t IH]; cbn [aset alookup map fst In]; [tauto|]. intros H.
  destruct (Z.eqb_spec k' k) as [->|Hne]; cbn [alookup fst].
  - rewrite Z.eqb_refl. reflexivity.
  - destruct (Z.eqb_spec k' k); [contradiction|]. apply IH. tauto.
Qed.

Lemma alookup_aset_other k k' v l : k' <> k -> alookup k' (aset k v l) = alookup k' l.
Proof.
  intros Hne. induction l as [|[k2 v2] t IH]; cbn [aset alookup map fst]; [reflexivity|].
  destruct (Z.eqb_spec k2 k) as [->|Hne2]; cbn [alookup].
  - destruct (Z.eqb_spec k k'); [congruence|]. exact IH.
  - destruct (Z.eqb_spec k2 k'); [reflexivity|exact IH].
Qed.

Lemma aset_aset k v v' l : aset k v' (aset k v l) = aset k v' l.
Proof.
  unfold aset. rewrite map_map. apply map_ext. intros [k2 v2]. cbn [fst].
  destruct (Z.eqb_spec k2 k) as [->|Hne]; cbn [fst]; [rewrite Z.eqb_refl; reflexivity|].
  destruct (Z.eqb_spec k2 k); [contradiction|reflexivity].
Qed.

Lemma aset_id k v l : NoDup (map fst l) -> alookup k l = Some v -> aset k v l = l.
Proof.
  induction l as [|[k' v'] t IH]; cbn [aset alookup map fst]; [reflexivity|]. intros Hnd H.
  inversion Hnd as [|? ? Hni Hnd']; subst.
  destruct (Z.eqb_spec k' k) as [->|Hne].
  - injection H as ->. f_equal. apply aset_notin. exact Hni.
  - f_equal. apply IH; assumption.
Qed.

Lemma aremove_cons_same k v l : aremove k ((k, v) :: l) = aremove k l.
Proof. cbn [aremove filter fst]. rewrite Z.eqb_refl. reflexivity. Qed.

Lemma aset_cons_same k v v' l : aset k v' ((k, v) :: l) = (k, v') :: aset k v' l.
Proof. cbn [aset map fst]. rewrite Z.eqb_refl. reflexivity. Qed.

End Assoc.

(** two tables with the same names, related pointwise *)
Section Two.
Context {A B : Type} (R : A -> B -> Prop).

Definition trel (la : list (Z * A)) (lb : list (Z * B)) : Prop :=
  Forall2 (fun a b => fst a = fst b /\ R (snd a) (snd b)) la lb.

Lemma trel_keys la lb : trel la lb -> map fst la = map fst lb.
Proof. induction 1 as [|a b ta tb [H _] _ IH]; cbn [map]; [reflexivity|]. rewrite H, IH. reflexivity. Qed.

Lemma trel_lookup la lb k a : trel la lb -> alookup k la = Some a ->
  exists b, alookup k lb = Some b /\ R a b.
Proof.
  induction 1 as [|[ka va] [kb vb] ta tb [H HR] _ IH]; cbn [alookup]; [discriminate|].
  cbn [fst snd] in H, HR. subst kb. destruct (ka =? k); [|exact IH].
  intros [= ->]. exists vb. split; [reflexivity|exact HR].
Qed.

Lemma trel_cons k a b la lb : R a b -> trel la lb -> trel ((k, a) :: la) ((k, b) :: lb).
Proof. intros H Ht. constructor; [split; [reflexivity|exact H]|exact Ht]. Qed.

Lemma trel_aremove k la lb : trel la lb -> trel (aremove k la) (aremove k lb).
Proof.
  induction 1 as [|[ka va] [kb vb] ta tb [H HR] _ IH]; cbn [aremove filter fst]; [constructor|].
  cbn [fst snd] in H, HR. subst kb. destruct (ka =? k); cbn [negb]; [exact IH|].
  constructor; [split; [reflexivity|exact HR]|exact IH].
Qed.

Lemma trel_aset k a b la lb : R a b -> trel la lb -> trel (aset k a la) (aset k b lb).
Proof.
  intros Hab. induction 1 as [|[ka va] [kb vb] ta tb [H HR] _ IH]; cbn [aset map fst]; [constructor|].
  cbn [fst snd] in H, HR. subst kb. constructor; [|exact IH].
  destruct (ka =? k); cbn [fst snd]; split; auto.
Qed.

Lemma trel_aset_l k a la lb :
  (forall b, alookup k lb = Some b -> R a b) -> NoDup (map fst lb) -> trel la lb -> trel (aset k a la) lb.
Proof.
  intros Hab Hnd Ht. revert Hab Hnd.
  induction Ht as [|[ka va] [kb vb] ta tb [H HR] _ IH]; intros Hab Hnd; cbn [aset map fst]; [constructor|].
  cbn [fst snd] in H, HR. subst kb. cbn [map fst] in Hnd. inversion Hnd as [|? ? Hni Hnd']; subst.
  constructor.
  - destruct (Z.eqb_spec ka k) as [->|Hne]; cbn [fst snd]; split; auto.
    apply Hab. cbn [alookup]. rewrite Z.eqb_refl. reflexivity.
  - apply IH; [|exact Hnd']. intros b Hb. apply Hab. cbn [alookup].
    destruct (Z.eqb_spec ka k) as [->|Hne]; [|exact Hb].
    exfalso. apply Hni. apply alookup_in in Hb. apply (in_map fst) in Hb. exact Hb.
Qed.

Lemma trel_impl (R' : A -> B -> Prop) la lb :
  (forall a b, R a b -> R' a b) -> trel la lb -> Forall2 (fun a b => fst a = fst b /\ R' (snd a) (snd b)) la lb.
Proof. intros H Ht. induction Ht as [|a b ta tb [H1 H2] _ IH]; constructor; auto. Qed.

End Two.

(** * [fresh_name] *)

Lemma fresh_name_gt names x : In x names -> x < fresh_name names.
Proof.
  induction names as [|y t IH]; cbn [fresh_name fold_right In]; [tauto|].
  intros [->|H]; [lia|]. specialize (IH H). unfold fresh_name in IH. lia.
Qed.

Lemma fresh_name_notin names : ~ In (fresh_name names) names.
Proof. intros H. apply fresh_name_gt in H. lia. Qed.

(** * [memZ] *)

Lemma memZ_in x l : memZ x l = true <-> In x l.
Proof.
  unfold memZ. rewrite existsb_exists. split.
  - intros (y & Hy & E). apply Z.eqb_eq in E. subst. exact Hy.
  - intros H. exists x. split; [exact H|apply Z.eqb_refl].
Qed.

Lemma memZ_false x l : memZ x l = false <-> ~ In x l.
Proof. rewrite <- memZ_in. destruct (memZ x l); split; congruence. Qed.
