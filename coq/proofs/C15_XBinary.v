(** C15: lemmas about the xbinary model (model/XBinary.v): varint round trip,
    predicted size, buffer-length behaviour of the encoders, fixed-width round
    trips, byte strings, ObjectsWriter = Marshal, streams of items. *)
From Coq Require Import List NArith ZArith Arith Lia Bool.
From Coq Require Import ZifyBool ZifyN ZifyNat.
From GL Require Import model.XBinary.
Import ListNotations.
Open Scope N_scope.
Ltac Zify.zify_post_hook ::= Z.div_mod_to_equations.

(** * Bit-level facts *)

Lemma land127 v : N.land v 127 = v mod 128.
Proof. change 127 with (N.ones 7). rewrite N.land_ones. reflexivity. Qed.

Lemma shr7 v : N.shiftr v 7 = v / 128.
Proof. rewrite N.shiftr_div_pow2. reflexivity. Qed.

Lemma testbit_above x s n : x < 2^s -> s <= n -> N.testbit x n = false.
Proof.
  intros Hx Hn. destruct (N.eq_dec x 0) as [->|Hx0]; [apply N.bits_0|].
  apply N.bits_above_log2. apply N.lt_le_trans with s; [|exact Hn].
  apply N.log2_lt_pow2; lia.
Qed.

(* res | (x << s) = res + x * 2^s when res has no bit at or above s *)
Lemma lor_disjoint res x s : res < 2^s -> N.lor res (N.shiftl x s) = res + x * 2^s.
Proof.
  intros H. rewrite N.shiftl_mul_pow2.
  rewrite <- N.lxor_lor, N.add_nocarry_lxor; try reflexivity.
  all: apply N.bits_inj_0; intros n; rewrite N.land_spec;
    destruct (N.lt_ge_cases n s) as [Hn|Hn].
  all: try (rewrite N.mul_pow2_bits_low by lia; apply andb_false_r).
  all: rewrite (testbit_above res s n H Hn); reflexivity.
Qed.

Lemma lor128 x : x < 128 -> N.lor 128 x = 128 + x.
Proof.
  intros H. rewrite N.lor_comm. change 128 with (N.shiftl 1 7) at 1.
  change 128 with (2^7) in H. rewrite (lor_disjoint x 1 7 H). lia.
Qed.

Lemma pow128_succ n : 128 ^ N.of_nat (S n) = 128 * 128 ^ N.of_nat n.
Proof.
  replace (N.of_nat (S n)) with (N.succ (N.of_nat n)) by lia.
  apply N.pow_succ_r'.
Qed.

Lemma pow128_pos n : 0 < 128 ^ n.
Proof. apply N.neq_0_lt_0. apply N.pow_nonzero. discriminate. Qed.

Lemma two64_pow : two64 = 2^64.
Proof. reflexivity. Qed.

(* x << s on 64 bits is exact when nothing is shifted out *)
Lemma shl64_exact x s : x * 2^s < 2^64 -> shl64 x s = x * 2^s.
Proof.
  intros H. unfold shl64. destruct (N.leb_spec 64 s) as [Hs|Hs].
  - assert (Hp : 2^64 <= 2^s) by (apply N.pow_le_mono_r; lia).
    destruct (N.eq_dec x 0) as [->|Hx]; [reflexivity|]. nia.
  - rewrite N.shiftl_mul_pow2. apply N.mod_small. exact H.
Qed.

(** * Variable-length uint: decode (encode v) = v *)

Lemma dec_enc fuel : forall v res shft idx rest,
  fuel <> O -> v < 128 ^ (N.of_nat fuel) -> res < 2^shft -> res + v * 2^shft < 2^64 ->
  unmarshal_uint_go (enc_uint_go fuel v ++ rest) res shft idx
  = DOk (idx + length (enc_uint_go fuel v))%nat (res + v * 2^shft).
Proof.
  induction fuel as [|f IH]; intros v res shft idx rest Hf Hv Hres Hb.
  - congruence.
  - cbn [enc_uint_go]. destruct (N.ltb_spec 127 v) as [Hgt|Hle].
    + cbn [app unmarshal_uint_go length].
      assert (Hm : v mod 128 < 128) by (apply N.mod_lt; lia).
      rewrite land127, lor128 by assumption.
      rewrite land127.
      replace ((128 + v mod 128) mod 128) with (v mod 128) by lia.
      destruct (N.leb_spec (128 + v mod 128) 127) as [Hc|Hc]; [lia|].
      assert (Hdm : v = 128 * (v / 128) + v mod 128) by (apply N.div_mod; lia).
      assert (Hpow : 2^(shft+7) = 2^shft * 128) by (rewrite N.pow_add_r; reflexivity).
      assert (Hsmall : v mod 128 * 2^shft < 2^64) by nia.
      rewrite (shl64_exact _ _ Hsmall).
      rewrite <- N.shiftl_mul_pow2, lor_disjoint by assumption.
      rewrite shr7.
      assert (Hv' : v / 128 < 128 ^ N.of_nat f).
      { rewrite pow128_succ in Hv. apply N.div_lt_upper_bound; lia. }
      assert (Hq : 1 <= v / 128) by (apply N.div_le_lower_bound; lia).
      rewrite IH.
      * f_equal; [lia | rewrite Hpow; nia].
      * intros ->. cbn in Hv'. lia.
      * exact Hv'.
      * rewrite Hpow. nia.
      * rewrite Hpow. nia.
    + cbn [app unmarshal_uint_go length].
      rewrite land127, (N.mod_small v 128) by lia.
      destruct (N.leb_spec v 127) as [_|Hc]; [|lia].
      assert (Hsmall : v * 2^shft < 2^64) by lia.
      rewrite (shl64_exact _ _ Hsmall).
      rewrite <- N.shiftl_mul_pow2, lor_disjoint by assumption.
      f_equal; [lia | rewrite ?N.shiftl_mul_pow2; lia].
Qed.

Lemma lt_two64_pow128 v : v < 2^64 -> v < 128 ^ N.of_nat 10.
Proof. intros H. eapply N.lt_le_trans; [exact H|]. vm_compute. discriminate. Qed.

Theorem uint_roundtrip : forall v rest, v < 2^64 ->
  unmarshal_uint (enc_uint v ++ rest) = DOk (length (enc_uint v)) v.
Proof.
  intros v rest H. unfold unmarshal_uint, enc_uint. rewrite dec_enc.
  - f_equal. lia.
  - discriminate.
  - apply lt_two64_pow128, H.
  - cbn. lia.
  - cbn. lia.
Qed.

(** * Length of the encoding *)

(* k bytes exactly when 128^(k-1) <= v < 128^k (k = 1: v < 128) *)
Lemma enc_len fuel : forall v k,
  (k <= fuel)%nat -> v < 128 ^ N.of_nat (S k) -> (k = O \/ 128 ^ N.of_nat k <= v) ->
  length (enc_uint_go (S fuel) v) = S k.
Proof.
  induction fuel as [|f IH]; intros v k Hk Hhi Hlo.
  - assert (k = O) by lia. subst k. cbn [enc_uint_go].
    change (128 ^ N.of_nat 1) with 128 in Hhi.
    destruct (N.ltb_spec 127 v); [lia|reflexivity].
  - cbn [enc_uint_go]. destruct (N.ltb_spec 127 v) as [Hgt|Hle].
    + cbn [length]. rewrite shr7. destruct k as [|k'].
      * change (128 ^ N.of_nat 1) with 128 in Hhi. lia.
      * f_equal. apply IH.
        -- lia.
        -- rewrite pow128_succ in Hhi. apply N.div_lt_upper_bound; lia.
        -- destruct Hlo as [Hlo|Hlo]; [discriminate|].
           destruct k' as [|k'']; [left; reflexivity|right].
           rewrite pow128_succ in Hlo. apply N.div_le_lower_bound; lia.
    + destruct k as [|k']; [reflexivity|].
      destruct Hlo as [Hlo|Hlo]; [discriminate|].
      rewrite pow128_succ in Hlo. pose proof (pow128_pos (N.of_nat k')). lia.
Qed.

Lemma enc_uint_len v k :
  (k <= 9)%nat -> v < 128 ^ N.of_nat (S k) -> (k = O \/ 128 ^ N.of_nat k <= v) ->
  length (enc_uint v) = S k.
Proof. intros. unfold enc_uint. apply enc_len; assumption. Qed.

(* the table with explicit numerals (used for both the hand-written and the
   generated WritableUintSize) *)
Lemma enc_uint_length_table : forall v, v < 2^64 ->
  let L := length (enc_uint v) in
  (v < 128 -> L = 1%nat) /\
  (128 <= v < 16384 -> L = 2%nat) /\
  (16384 <= v < 2097152 -> L = 3%nat) /\
  (2097152 <= v < 268435456 -> L = 4%nat) /\
  (268435456 <= v < 34359738368 -> L = 5%nat) /\
  (34359738368 <= v < 4398046511104 -> L = 6%nat) /\
  (4398046511104 <= v < 562949953421312 -> L = 7%nat) /\
  (562949953421312 <= v < 72057594037927936 -> L = 8%nat) /\
  (72057594037927936 <= v < 9223372036854775808 -> L = 9%nat) /\
  (9223372036854775808 <= v -> L = 10%nat).
Proof.
  intros v Hv L. subst L.
  repeat split; intros H.
  - apply (enc_uint_len v 0); [lia| exact H | left; reflexivity].
  - apply (enc_uint_len v 1); [lia| apply H | right; apply H].
  - apply (enc_uint_len v 2); [lia| apply H | right; apply H].
  - apply (enc_uint_len v 3); [lia| apply H | right; apply H].
  - apply (enc_uint_len v 4); [lia| apply H | right; apply H].
  - apply (enc_uint_len v 5); [lia| apply H | right; apply H].
  - apply (enc_uint_len v 6); [lia| apply H | right; apply H].
  - apply (enc_uint_len v 7); [lia| apply H | right; apply H].
  - apply (enc_uint_len v 8); [lia| apply H | right; apply H].
  - apply (enc_uint_len v 9); [lia| | right; apply H].
    eapply N.lt_le_trans; [exact Hv|]. vm_compute. discriminate.
Qed.

(* picks the row of the table that matches a goal [length (enc_uint v) = K] or
   [K = length (enc_uint v)] under bounds on v in the context *)
Ltac pick_size_row T :=
  cbv zeta in T;
  destruct T as (R1 & R2 & R3 & R4 & R5 & R6 & R7 & R8 & R9 & R10);
  first [ apply R1; lia | apply R2; lia | apply R3; lia | apply R4; lia | apply R5; lia
        | apply R6; lia | apply R7; lia | apply R8; lia | apply R9; lia | apply R10; lia
        | symmetry;
          first [ apply R1; lia | apply R2; lia | apply R3; lia | apply R4; lia | apply R5; lia
                | apply R6; lia | apply R7; lia | apply R8; lia | apply R9; lia | apply R10; lia ] ].

Lemma enc_uint_length_bounds v : v < 2^64 -> (1 <= length (enc_uint v) <= 10)%nat.
Proof.
  intros Hv. pose proof (enc_uint_length_table v Hv) as T. cbv zeta in T.
  destruct T as (R1 & R2 & R3 & R4 & R5 & R6 & R7 & R8 & R9 & R10).
  destruct (N.lt_ge_cases v 128); [rewrite R1 by lia; lia|].
  destruct (N.lt_ge_cases v 16384); [rewrite R2 by lia; lia|].
  destruct (N.lt_ge_cases v 2097152); [rewrite R3 by lia; lia|].
  destruct (N.lt_ge_cases v 268435456); [rewrite R4 by lia; lia|].
  destruct (N.lt_ge_cases v 34359738368); [rewrite R5 by lia; lia|].
  destruct (N.lt_ge_cases v 4398046511104); [rewrite R6 by lia; lia|].
  destruct (N.lt_ge_cases v 562949953421312); [rewrite R7 by lia; lia|].
  destruct (N.lt_ge_cases v 72057594037927936); [rewrite R8 by lia; lia|].
  destruct (N.lt_ge_cases v 9223372036854775808); [rewrite R9 by lia; lia|].
  rewrite R10 by lia. lia.
Qed.

Theorem uint_size : forall v, v < 2^64 -> length (enc_uint v) = writable_uint_size v.
Proof.
  intros v Hv. pose proof (enc_uint_length_table v Hv) as T.
  unfold writable_uint_size.
  change bit7 with 128. change bit14 with 16384. change bit21 with 2097152.
  change bit28 with 268435456. change bit35 with 34359738368.
  change bit42 with 4398046511104. change bit49 with 562949953421312.
  change bit56 with 72057594037927936. change bit63 with 9223372036854775808.
  repeat match goal with
         | |- context [if ?a <=? ?b then _ else _] => destruct (N.leb_spec a b)
         end; pick_size_row T.
Qed.
(** * MarshalUint and the length of the destination buffer *)

Lemma enc_go_nonempty fuel v : fuel <> O -> enc_uint_go fuel v <> [].
Proof.
  destruct fuel as [|f]; [congruence|]. intros _. cbn [enc_uint_go].
  destruct (127 <? v); discriminate.
Qed.

Lemma marshal_uint_go_spec fuel : forall v room,
  fuel <> O -> v < 128 ^ N.of_nat fuel ->
  marshal_uint_go fuel v room =
  if (room <? length (enc_uint_go fuel v))%nat
  then (WErr, firstn room (enc_uint_go fuel v))
  else (WOk, enc_uint_go fuel v).
Proof.
  induction fuel as [|f IH]; intros v room Hf Hv; [congruence|].
  cbn [marshal_uint_go enc_uint_go]. destruct room as [|r].
  - destruct (127 <? v); reflexivity.
  - destruct (N.ltb_spec 127 v) as [Hgt|Hle].
    + rewrite shr7.
      assert (Hv' : v / 128 < 128 ^ N.of_nat f).
      { rewrite pow128_succ in Hv. apply N.div_lt_upper_bound; lia. }
      assert (Hq : 1 <= v / 128) by (apply N.div_le_lower_bound; lia).
      assert (Hf' : f <> O) by (intros ->; cbn in Hv'; lia).
      rewrite (IH (v / 128) r Hf' Hv'). cbn [length firstn].
      change (S r <? S (length (enc_uint_go f (v / 128))))%nat
        with (r <? length (enc_uint_go f (v / 128)))%nat.
      destruct (r <? length (enc_uint_go f (v / 128)))%nat; reflexivity.
    + reflexivity.
Qed.

Theorem marshal_uint_buffer : forall v room, v < 2^64 ->
  marshal_uint v room =
  if (room <? length (enc_uint v))%nat then (WErr, firstn room (enc_uint v))
  else (WOk, enc_uint v).
Proof.
  intros v room Hv. unfold marshal_uint, enc_uint.
  apply marshal_uint_go_spec; [discriminate | apply lt_two64_pow128, Hv].
Qed.

(* the returned int: the predicted size, or 0 with the error *)
Corollary marshal_uint_n : forall v room, v < 2^64 ->
  w_n (marshal_uint v room) =
  if (room <? writable_uint_size v)%nat then O else writable_uint_size v.
Proof.
  intros v room Hv. rewrite (marshal_uint_buffer v room Hv), <- (uint_size v Hv).
  destruct (room <? length (enc_uint v))%nat; reflexivity.
Qed.

Lemma ow_uint_enc v : v < 2^64 -> ow_uint v = enc_uint v.
Proof.
  intros Hv. unfold ow_uint. rewrite (marshal_uint_buffer v 10 Hv).
  pose proof (enc_uint_length_bounds v Hv) as Hb.
  destruct (Nat.ltb_spec 10 (length (enc_uint v))) as [Hlt|Hge]; [lia|].
  unfold w_n. cbn [fst snd]. apply firstn_all.
Qed.

(* encoded bytes are bytes *)
Lemma enc_go_wf fuel : forall v, wf_bytes (enc_uint_go fuel v) = true.
Proof.
  induction fuel as [|f IH]; intros v; [reflexivity|].
  cbn [enc_uint_go]. destruct (N.ltb_spec 127 v) as [Hgt|Hle].
  - cbn [wf_bytes forallb]. fold (wf_bytes (enc_uint_go f (N.shiftr v 7))). rewrite IH.
    rewrite land127. assert (Hm : v mod 128 < 128) by (apply N.mod_lt; lia).
    rewrite lor128 by assumption. unfold wf_byte.
    destruct (N.ltb_spec (128 + v mod 128) 256); [reflexivity|lia].
  - cbn. unfold wf_byte. destruct (N.ltb_spec v 256); [reflexivity|lia].
Qed.

Lemma enc_uint_wf v : wf_bytes (enc_uint v) = true.
Proof. apply enc_go_wf. Qed.

(** * Fixed width *)

Lemma put_be_length k v : length (put_be k v) = k.
Proof. induction k as [|k IH]; [reflexivity|]. cbn [put_be length]. rewrite IH. reflexivity. Qed.

Lemma pow256 k : 256 ^ N.of_nat k = 2 ^ (8 * N.of_nat k).
Proof. rewrite N.pow_mul_r. reflexivity. Qed.

Lemma get_put_be k : forall v, get_be (put_be k v) = v mod 2 ^ (8 * N.of_nat k).
Proof.
  induction k as [|k IH]; intros v.
  - cbn. rewrite N.mod_1_r. reflexivity.
  - cbn [put_be get_be]. rewrite put_be_length, IH, N.lor_comm.
    rewrite lor_disjoint by (apply N.mod_lt; apply N.pow_nonzero; discriminate).
    rewrite N.shiftr_div_pow2.
    replace (8 * N.of_nat (S k)) with (8 * N.of_nat k + 8) by lia.
    rewrite N.pow_add_r. change (2^8) with 256.
    assert (Hp : 2 ^ (8 * N.of_nat k) <> 0) by (apply N.pow_nonzero; discriminate).
    rewrite (N.mod_mul_r v _ 256 Hp) by discriminate. lia.
Qed.

Lemma put_be_wf k v : wf_bytes (put_be k v) = true.
Proof.
  induction k as [|k IH]; [reflexivity|]. cbn [put_be wf_bytes forallb].
  fold (wf_bytes (put_be k v)). rewrite IH. unfold wf_byte.
  assert (H : N.shiftr v (8 * N.of_nat k) mod 256 < 256) by (apply N.mod_lt; discriminate).
  destruct (N.ltb_spec (N.shiftr v (8 * N.of_nat k) mod 256) 256); [reflexivity|lia].
Qed.

(* Marshal/Unmarshal of uint16/32/64 (k = 2/4/8; the statement holds for every k) *)
Theorem fixed_roundtrip : forall k v rest, v < 2 ^ (8 * N.of_nat k) ->
  marshal_fixed k v k = (WOk, put_be k v) /\
  length (put_be k v) = k /\
  unmarshal_fixed k (put_be k v ++ rest) = DOk k v.
Proof.
  intros k v rest Hv. split; [|split].
  - unfold marshal_fixed. rewrite Nat.ltb_irrefl. reflexivity.
  - apply put_be_length.
  - unfold unmarshal_fixed. rewrite app_length, put_be_length.
    destruct (Nat.ltb_spec (k + length rest) k) as [Hlt|_]; [lia|].
    rewrite firstn_app, put_be_length, Nat.sub_diag, firstn_O, app_nil_r.
    rewrite firstn_all2 by (rewrite put_be_length; lia). rewrite get_put_be.
    rewrite N.mod_small by exact Hv. reflexivity.
Qed.

Theorem fixed_short_buffer_fails : forall k v room,
  marshal_fixed k v room = if (room <? k)%nat then (WErr, []) else (WOk, put_be k v).
Proof. reflexivity. Qed.

Theorem byte_roundtrip : forall v rest,
  marshal_byte v 1 = (WOk, [v]) /\ marshal_byte v 0 = (WErr, []) /\
  unmarshal_byte ([v] ++ rest) = DOk 1 v.
Proof. intros v rest. repeat split. Qed.
(** * Machine integers in their exact range *)

Lemma to_uint64_exact z : (0 <= z < two64Z)%Z -> to_uint64 z = Z.to_N z.
Proof. intros H. unfold to_uint64. rewrite Z.mod_small by exact H. reflexivity. Qed.

Lemma to_int64_exact u : u < two63 -> to_int64 u = Z.of_N u.
Proof. intros H. unfold to_int64. destruct (N.ltb_spec u two63); [reflexivity|lia]. Qed.

Lemma wrap64_exact z : (0 <= z < two63Z)%Z -> wrap64 z = z.
Proof.
  intros H. unfold wrap64. unfold two63Z in H.
  rewrite to_uint64_exact by (unfold two64Z; lia).
  rewrite to_int64_exact by (unfold two63; lia). lia.
Qed.

(** * UnmarshalUint: position and value bounds *)

Lemma unmarshal_uint_go_bounds : forall buf res shft idx,
  match unmarshal_uint_go buf res shft idx with
  | DOk n _ => (idx < n <= idx + length buf)%nat
  | DErr => True
  | DPanic => False
  end.
Proof.
  induction buf as [|b tl IH]; intros res shft idx; cbn [unmarshal_uint_go].
  - exact I.
  - destruct (b <=? 127).
    + cbn [length]. lia.
    + specialize (IH (N.lor res (shl64 (N.land b 127) shft)) (shft + 7) (S idx)).
      destruct (unmarshal_uint_go tl _ _ _); cbn [length]; [lia|exact I|exact IH].
Qed.

Lemma unmarshal_uint_bounds buf :
  match unmarshal_uint buf with
  | DOk n _ => (1 <= n <= length buf)%nat
  | DErr => True
  | DPanic => False
  end.
Proof.
  pose proof (unmarshal_uint_go_bounds buf 0 0 O) as H. unfold unmarshal_uint.
  destruct (unmarshal_uint_go buf 0 0 O); [lia|exact I|exact H].
Qed.

Lemma lor_lt_pow2 a b n : a < 2^n -> b < 2^n -> N.lor a b < 2^n.
Proof.
  intros Ha Hb. destruct (N.eq_dec n 0) as [->|Hn].
  - change (2^0) with 1 in *. assert (a = 0) by lia. assert (b = 0) by lia. subst. reflexivity.
  - destruct (N.eq_dec (N.lor a b) 0) as [->|Hz]; [apply pow128_pos || (apply N.neq_0_lt_0, N.pow_nonzero; discriminate)|].
    apply N.log2_lt_pow2; [lia|]. rewrite N.log2_lor.
    assert (La : N.log2 a < n).
    { destruct (N.eq_dec a 0) as [->|Ha0]; [cbn; lia|]. apply N.log2_lt_pow2; lia. }
    assert (Lb : N.log2 b < n).
    { destruct (N.eq_dec b 0) as [->|Hb0]; [cbn; lia|]. apply N.log2_lt_pow2; lia. }
    lia.
Qed.

Lemma shl64_lt x s : shl64 x s < 2^64.
Proof.
  unfold shl64. destruct (64 <=? s); [reflexivity|].
  apply N.mod_lt. discriminate.
Qed.

Lemma unmarshal_uint_go_value : forall buf res shft idx n v,
  res < 2^64 -> unmarshal_uint_go buf res shft idx = DOk n v -> v < 2^64.
Proof.
  induction buf as [|b tl IH]; intros res shft idx n v Hres H; cbn [unmarshal_uint_go] in H.
  - discriminate.
  - assert (Hr : N.lor res (shl64 (N.land b 127) shft) < 2^64)
      by (apply lor_lt_pow2; [exact Hres|apply shl64_lt]).
    destruct (b <=? 127).
    + injection H as _ <-. exact Hr.
    + eapply IH; [exact Hr|exact H].
Qed.

Lemma unmarshal_uint_value buf n v : unmarshal_uint buf = DOk n v -> v < 2^64.
Proof. apply unmarshal_uint_go_value. reflexivity. Qed.

(** * UnmarshalBytes in terms of UnmarshalUint *)

Lemma unmarshal_bytes_spec buf extra nb idx uln :
  (Z.of_nat (length buf) < two63Z)%Z ->
  unmarshal_uint buf = DOk idx uln -> (idx <= length buf)%nat ->
  unmarshal_bytes buf extra nb =
  if N.of_nat (length buf - idx) <? uln then DErr
  else DOk (idx + N.to_nat uln)
           (mkView idx (firstn (N.to_nat uln) (skipn idx buf)) (negb nb)).
Proof.
  intros Hlen Hu Hidx. unfold unmarshal_bytes. rewrite Hu.
  unfold two63Z in Hlen.
  assert (Hrem : sub64 (Z.of_nat (length buf)) (Z.of_nat idx) = Z.of_nat (length buf - idx)).
  { unfold sub64. rewrite wrap64_exact by (unfold two63Z; lia). lia. }
  rewrite Hrem. rewrite to_uint64_exact by (unfold two64Z; lia).
  replace (Z.to_N (Z.of_nat (length buf - idx))) with (N.of_nat (length buf - idx)) by lia.
  destruct (N.ltb_spec (N.of_nat (length buf - idx)) uln) as [Hlt|Hge]; [reflexivity|].
  rewrite to_int64_exact by (unfold two63; lia).
  assert (Hhi : add64 (Z.of_nat idx) (Z.of_N uln) = Z.of_nat (idx + N.to_nat uln)).
  { unfold add64. rewrite wrap64_exact by (unfold two63Z; lia). lia. }
  rewrite Hhi. unfold go_slice. rewrite app_length.
  destruct (Z.ltb_spec (Z.of_nat idx) 0) as [H1|_]; [lia|].
  destruct (Z.ltb_spec (Z.of_nat (idx + N.to_nat uln)) (Z.of_nat idx)) as [H2|_]; [lia|].
  destruct (Z.ltb_spec (Z.of_nat (length buf + length extra)) (Z.of_nat (idx + N.to_nat uln))) as [H3|_]; [lia|].
  cbn [orb]. rewrite !Nat2Z.id.
  replace (Z.to_nat (Z.of_nat (idx + N.to_nat uln) - Z.of_nat idx)) with (N.to_nat uln) by lia.
  rewrite skipn_app, firstn_app.
  replace (N.to_nat uln - length (skipn idx buf))%nat with O by (rewrite skipn_length; lia).
  rewrite firstn_O, app_nil_r. reflexivity.
Qed.

(** * Byte strings: round trip, size, short buffers *)

Theorem bytes_roundtrip : forall l rest extra nb,
  (Z.of_nat (length (ow_bytes l ++ rest)) < two63Z)%Z ->
  unmarshal_bytes (ow_bytes l ++ rest) extra nb =
  DOk (length (ow_bytes l))
      (mkView (length (enc_uint (N.of_nat (length l)))) l (negb nb)).
Proof.
  intros l rest extra nb Hlen.
  assert (Hl : N.of_nat (length l) < 2^64).
  { unfold ow_bytes in Hlen. rewrite !app_length in Hlen. unfold two63Z in Hlen.
    change (2^64) with 18446744073709551616. lia. }
  unfold ow_bytes in *. rewrite (ow_uint_enc _ Hl) in *.
  set (hdr := enc_uint (N.of_nat (length l))) in *.
  rewrite <- !app_assoc in *.
  assert (Hu : unmarshal_uint (hdr ++ l ++ rest) = DOk (length hdr) (N.of_nat (length l)))
    by (apply uint_roundtrip; exact Hl).
  rewrite (unmarshal_bytes_spec _ extra nb _ _ Hlen Hu) by (rewrite app_length; lia).
  rewrite !app_length.
  destruct (N.ltb_spec (N.of_nat (length hdr + (length l + length rest) - length hdr))
                       (N.of_nat (length l))) as [Hlt|_]; [lia|].
  rewrite Nat2N.id. f_equal. f_equal.
  rewrite skipn_app, Nat.sub_diag, skipn_all, skipn_O, app_nil_l.
  rewrite firstn_app, Nat.sub_diag, firstn_O, app_nil_r. apply firstn_all.
Qed.

Theorem bytes_size : forall l, N.of_nat (length l) < 2^64 ->
  length (ow_bytes l) = writable_bytes_size l /\
  marshal_bytes l (writable_bytes_size l) = (WOk, ow_bytes l).
Proof.
  intros l Hl. unfold writable_bytes_size, ow_bytes, marshal_bytes.
  rewrite (ow_uint_enc _ Hl), app_length, <- (uint_size _ Hl).
  split; [reflexivity|].
  rewrite (marshal_uint_buffer _ _ Hl).
  destruct (Nat.ltb_spec (length (enc_uint (N.of_nat (length l))) + length l)
                         (length (enc_uint (N.of_nat (length l))))) as [Hlt|_]; [lia|].
  destruct (Nat.ltb_spec (length (enc_uint (N.of_nat (length l))) + length l
                          - length (enc_uint (N.of_nat (length l)))) (length l)) as [Hlt|_]; [lia|].
  reflexivity.
Qed.

(* every buffer length: below the predicted size MarshalBytes fails (returning
   0) having stored at most the length prefix, otherwise it stores exactly the
   ObjectsWriter bytes *)
Theorem bytes_buffer : forall l room, N.of_nat (length l) < 2^64 ->
  marshal_bytes l room =
  if (room <? writable_bytes_size l)%nat
  then (WErr, firstn room (enc_uint (N.of_nat (length l))))
  else (WOk, ow_bytes l).
Proof.
  intros l room Hl. unfold writable_bytes_size, ow_bytes, marshal_bytes.
  rewrite (ow_uint_enc _ Hl), <- (uint_size _ Hl), (marshal_uint_buffer _ _ Hl).
  set (hdr := enc_uint (N.of_nat (length l))).
  destruct (Nat.ltb_spec room (length hdr)) as [H1|H1].
  - destruct (Nat.ltb_spec room (length hdr + length l)) as [_|H2]; [reflexivity|lia].
  - destruct (Nat.ltb_spec (room - length hdr) (length l)) as [H2|H2];
      destruct (Nat.ltb_spec room (length hdr + length l)) as [H3|H3]; try lia.
    + rewrite firstn_all2 by lia. reflexivity.
    + reflexivity.
Qed.

Corollary bytes_short_buffer_fails : forall l room, N.of_nat (length l) < 2^64 ->
  (room < writable_bytes_size l)%nat ->
  fst (marshal_bytes l room) = WErr /\ w_n (marshal_bytes l room) = O.
Proof.
  intros l room Hl Hr. rewrite (bytes_buffer l room Hl).
  destruct (Nat.ltb_spec room (writable_bytes_size l)); [split; reflexivity|lia].
Qed.

(** * Items: ObjectsWriter = Marshal, and decode (encode i) = i *)

Lemma wf_lt (a b : N) : (a <? b) = true -> a < b.
Proof. intros H. apply N.ltb_lt. exact H. Qed.

Theorem marshal_item_buffer : forall i room, item_wf i = true ->
  ((room < length (encode_item i))%nat ->
     fst (marshal_item i room) = WErr /\ w_n (marshal_item i room) = O) /\
  ((length (encode_item i) <= room)%nat -> marshal_item i room = (WOk, encode_item i)).
Proof.
  intros i room Hwf.
  assert (Hfixed : forall k v,
    ((room < length (ow_fixed k v))%nat ->
       fst (marshal_fixed k v room) = WErr /\ w_n (marshal_fixed k v room) = O) /\
    ((length (ow_fixed k v) <= room)%nat -> marshal_fixed k v room = (WOk, ow_fixed k v))).
  { intros k v. unfold ow_fixed, marshal_fixed. rewrite put_be_length.
    destruct (Nat.ltb_spec room k); split; intros; try lia; try reflexivity.
    split; reflexivity. }
  assert (Hbytes : forall l, N.of_nat (length l) < two63 ->
    ((room < length (ow_bytes l))%nat ->
       fst (marshal_bytes l room) = WErr /\ w_n (marshal_bytes l room) = O) /\
    ((length (ow_bytes l) <= room)%nat -> marshal_bytes l room = (WOk, ow_bytes l))).
  { intros l Hl. assert (Hl' : N.of_nat (length l) < 2^64)
      by (unfold two63 in Hl; change (2^64) with 18446744073709551616; lia).
    destruct (bytes_size l Hl') as [Hsz _]. rewrite Hsz, (bytes_buffer l room Hl').
    destruct (Nat.ltb_spec room (writable_bytes_size l)); split; intros; try lia; try reflexivity.
    split; reflexivity. }
  destruct i as [v|v|v|v|v|l|l]; cbn [item_wf marshal_item encode_item] in *.
  - unfold ow_byte, marshal_byte. cbn [length].
    destruct (Nat.ltb_spec room 1); split; intros; try lia; try reflexivity. split; reflexivity.
  - apply Hfixed.
  - apply Hfixed.
  - apply Hfixed.
  - apply wf_lt in Hwf. rewrite two64_pow in Hwf.
    rewrite (ow_uint_enc v Hwf), (marshal_uint_buffer v room Hwf).
    destruct (Nat.ltb_spec room (length (enc_uint v))); split; intros; try lia; try reflexivity.
    split; reflexivity.
  - apply Hbytes, wf_lt, Hwf.
  - apply Hbytes, wf_lt, Hwf.
Qed.

Theorem item_roundtrip : forall i rest extra, item_wf i = true ->
  (Z.of_nat (length (encode_item i ++ rest)) < two63Z)%Z ->
  decode_item (kind_of i) (encode_item i ++ rest) extra = DOk (length (encode_item i)) i.
Proof.
  intros i rest extra Hwf Hlen.
  destruct i as [v|v|v|v|v|l|l]; cbn [item_wf kind_of decode_item encode_item] in *.
  - reflexivity.
  - apply wf_lt in Hwf. unfold ow_fixed.
    destruct (fixed_roundtrip 2 v rest Hwf) as (_ & -> & ->). reflexivity.
  - apply wf_lt in Hwf. unfold ow_fixed.
    destruct (fixed_roundtrip 4 v rest Hwf) as (_ & -> & ->). reflexivity.
  - apply wf_lt in Hwf. unfold ow_fixed.
    destruct (fixed_roundtrip 8 v rest Hwf) as (_ & -> & ->). reflexivity.
  - apply wf_lt in Hwf. rewrite two64_pow in Hwf.
    rewrite (ow_uint_enc v Hwf), (uint_roundtrip v rest Hwf). reflexivity.
  - rewrite (bytes_roundtrip l rest extra false Hlen). reflexivity.
  - unfold unmarshal_string. rewrite (bytes_roundtrip l rest extra false Hlen). reflexivity.
Qed.

Theorem stream_roundtrip : forall items rest extra,
  Forall (fun i => item_wf i = true) items ->
  (Z.of_nat (length (concat (map encode_item items) ++ rest)) < two63Z)%Z ->
  decode_items (map kind_of items) (concat (map encode_item items) ++ rest) extra
  = Some (items, rest).
Proof.
  induction items as [|i t IH]; intros rest extra Hwf Hlen.
  - reflexivity.
  - inversion Hwf as [|? ? Hi Ht]; subst.
    cbn [map concat decode_items] in *. rewrite <- app_assoc in *.
    rewrite (item_roundtrip i _ extra Hi Hlen).
    rewrite skipn_app, Nat.sub_diag, skipn_all, skipn_O, app_nil_l.
    rewrite IH; [reflexivity|exact Ht|].
    rewrite app_length in Hlen. lia.
Qed.

(* the Marshal functions, called one after the other on one buffer that is
   exactly as long as the predicted sizes say, produce the ObjectsWriter bytes *)
Theorem marshal_stream_eq_writer : forall items room,
  Forall (fun i => item_wf i = true) items ->
  (length (concat (map encode_item items)) <= room)%nat ->
  marshal_items items room = Some (concat (map encode_item items)).
Proof.
  induction items as [|i t IH]; intros room Hwf Hroom.
  - reflexivity.
  - inversion Hwf as [|? ? Hi Ht]; subst. cbn [map concat marshal_items] in *.
    rewrite app_length in Hroom.
    destruct (marshal_item_buffer i room Hi) as [_ Hok]. rewrite Hok by lia.
    rewrite IH; [reflexivity|exact Ht|lia].
Qed.
