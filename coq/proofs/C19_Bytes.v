(** C19: the token-level view of messages is faithful to the byte level.

    ExtractObject runs strings.Split(err.Error(), "\x1bjson") on bytes; the
    model works on token lists.  For every well-formed token list
    ([msg_wf]: a Text contains no complete marker, a JSON encoding contains no
    ESC byte, and what follows a Text that contains ESC does not start with
    one of 'j' 's' 'o' 'n') the left-most non-overlapping byte-level split of
    the rendered message is the rendering of the token-level split, and the
    messages [message] builds from well-formed texts are well-formed (the
    ": " separators prevent a marker from forming across a boundary). *)
From Coq Require Import List NArith Bool Arith Lia.
From GL Require Import model.Errors.
Import ListNotations.
Open Scope N_scope.

(** * The scanner on one token *)

Lemma frev_rev (l : bytes) : frev l = rev l.
Proof. unfold frev. symmetry. apply rev_alt. Qed.

(* a complete marker at the front: one segment ends *)
Lemma scan_marker (rr cur : bytes) :
  split_bytes_aux (marker_bytes ++ rr) 0 cur = rev cur :: split_bytes_aux rr 0 [].
Proof. rewrite <- frev_rev. reflexivity. Qed.

Lemma starts_with_marker_head (b : N) (s : bytes) :
  (27 =? b) = false -> starts_with marker_bytes (b :: s) = false.
Proof. intros H. cbn [starts_with marker_bytes]. rewrite H. reflexivity. Qed.

(* bytes without ESC are copied to the current segment *)
Lemma scan_no_esc (s rr cur : bytes) :
  no_esc s = true ->
  split_bytes_aux (s ++ rr) 0 cur = split_bytes_aux rr 0 (rev s ++ cur).
Proof.
  revert cur. induction s as [|b s IH]; intros cur H; [reflexivity|].
  cbn [no_esc forallb] in H. apply andb_true_iff in H as [Hb Hs].
  apply negb_true_iff in Hb. rewrite N.eqb_sym in Hb.
  cbn [app split_bytes_aux]. rewrite (starts_with_marker_head b (s ++ rr) Hb).
  rewrite (IH (b :: cur) Hs). cbn [rev]. rewrite <- app_assoc. reflexivity.
Qed.

Definition safe_head (rr : bytes) : bool :=
  match rr with [] => true | b :: _ => negb (cont_byte b) end.

Lemma cont_byte_false (b : N) :
  cont_byte b = false ->
  (106 =? b) = false /\ (115 =? b) = false /\ (111 =? b) = false /\ (110 =? b) = false.
Proof.
  unfold cont_byte. intros H.
  apply orb_false_iff in H as [H H4]. apply orb_false_iff in H as [H H3].
  apply orb_false_iff in H as [H1 H2]. auto.
Qed.

(* no marker starts inside [s] and runs over its end *)
Lemma no_spanning (s rr : bytes) :
  s <> [] -> starts_with marker_bytes s = false -> safe_head rr = true ->
  starts_with marker_bytes (s ++ rr) = false.
Proof.
  intros Hne Hs Hrr.
  assert (Hr : rr = [] \/ exists b rr', rr = b :: rr' /\ cont_byte b = false).
  { destruct rr as [|b rr']; [left; reflexivity|right]. exists b, rr'. split; [reflexivity|].
    cbn [safe_head] in Hrr. apply negb_true_iff in Hrr. exact Hrr. }
  destruct s as [|b0 [|b1 [|b2 [|b3 [|b4 s5]]]]]; [congruence| | | | |].
  5:{ (* five or more bytes: the pattern is exhausted inside s *)
      cbn [app starts_with marker_bytes] in *. exact Hs. }
  all: destruct Hr as [->|(b & rr' & -> & Hb)];
    [cbn [app starts_with marker_bytes andb]; rewrite ?andb_false_r; reflexivity|].
  all: destruct (cont_byte_false b Hb) as (H106 & H115 & H111 & H110).
  all: cbn [app starts_with marker_bytes].
  all: rewrite ?H106, ?H115, ?H111, ?H110; cbn [andb]; rewrite ?andb_false_r; reflexivity.
Qed.

(* a Text without a complete marker is copied to the current segment, if no
   marker can run over its end *)
Lemma scan_text (s rr cur : bytes) :
  no_occurrence s = true -> safe_head rr = true ->
  split_bytes_aux (s ++ rr) 0 cur = split_bytes_aux rr 0 (rev s ++ cur).
Proof.
  revert cur. induction s as [|b s IH]; intros cur H Hrr; [reflexivity|].
  cbn [no_occurrence] in H. apply andb_true_iff in H as [Hb Hs].
  apply negb_true_iff in Hb.
  pose proof (no_spanning (b :: s) rr ltac:(discriminate) Hb Hrr) as Hn.
  cbn [app] in Hn. cbn [app split_bytes_aux]. rewrite Hn.
  rewrite (IH (b :: cur) Hs Hrr). cbn [rev]. rewrite <- app_assoc. reflexivity.
Qed.

(** * The scanner on a token list *)

Definition prepend (cur : bytes) (l : list bytes) : list bytes :=
  match l with
  | s :: ss => (rev cur ++ s) :: ss
  | [] => [rev cur]
  end.

Lemma split_marker_nonempty' (m : msg) : exists s ss, split_marker m = s :: ss.
Proof.
  induction m as [|t r (s & ss & IH)]; [exists [], []; reflexivity|].
  destruct t; cbn [split_marker]; rewrite ?IH; eauto.
Qed.

Lemma render_cons (t : tok) (m : msg) : render (t :: m) = render_tok t ++ render m.
Proof. reflexivity. Qed.

Lemma placeholder_no_esc (t : tok) :
  match t with ClassText _ | StatusPrefix _ => no_esc (render_tok t) = true | _ => True end.
Proof. destruct t as [s| |o|c|k]; try exact I; [destruct c|destruct k]; reflexivity. Qed.

Lemma starts_safe_head (y : tok) (r : msg) :
  starts_safe y = true -> safe_head (render (y :: r)) = true.
Proof.
  unfold starts_safe. rewrite render_cons.
  destruct (render_tok y) as [|b s]; [discriminate|]. intros H. exact H.
Qed.

(* one non-marker token is copied to the current segment *)
Lemma scan_token (t : tok) (r : msg) (cur : bytes) :
  is_marker t = false -> tok_wf t = true ->
  match t, r with Text s, y :: _ => no_esc s || starts_safe y | _, _ => true end = true ->
  split_bytes_aux (render (t :: r)) 0 cur =
  split_bytes_aux (render r) 0 (rev (render_tok t) ++ cur).
Proof.
  intros Hm Hwf Hadj. rewrite render_cons.
  destruct t as [s| |o|c|k]; [|discriminate Hm| | |].
  - cbn [render_tok]. destruct s as [|b s]; [discriminate Hwf|]. cbn [tok_wf] in Hwf.
    destruct r as [|y r'].
    + apply scan_text; [exact Hwf|reflexivity].
    + apply orb_true_iff in Hadj as [Hne|Hy].
      * apply scan_no_esc. exact Hne.
      * apply scan_text; [exact Hwf|]. apply starts_safe_head. exact Hy.
  - apply scan_no_esc. exact Hwf.
  - apply scan_no_esc. exact (placeholder_no_esc (ClassText c)).
  - apply scan_no_esc. exact (placeholder_no_esc (StatusPrefix k)).
Qed.

Lemma scan_msg (m : msg) (cur : bytes) :
  forallb tok_wf m = true -> adjacent_ok m = true ->
  split_bytes_aux (render m) 0 cur = prepend cur (map render (split_marker m)).
Proof.
  revert cur. induction m as [|t r IH]; intros cur Hwf Hadj.
  - cbn [render flat_map split_bytes_aux split_marker map prepend]. rewrite frev_rev, app_nil_r. reflexivity.
  - cbn [forallb] in Hwf. apply andb_true_iff in Hwf as [Ht Hr].
    cbn [adjacent_ok] in Hadj. apply andb_true_iff in Hadj as [Ha Hadj].
    destruct (split_marker_nonempty' r) as (s & ss & Hs).
    destruct (is_marker t) eqn:Hm.
    + destruct t; try discriminate Hm.
      rewrite render_cons. cbn [render_tok]. rewrite scan_marker.
      rewrite (IH [] Hr Hadj). cbn [split_marker]. rewrite Hs.
      cbn [map prepend rev app render flat_map]. rewrite app_nil_r. reflexivity.
    + rewrite (scan_token t r cur Hm Ht Ha), (IH _ Hr Hadj).
      assert (Hsp : split_marker (t :: r) = (t :: s) :: ss)
        by (destruct t; try discriminate Hm; cbn [split_marker]; rewrite Hs; reflexivity).
      rewrite Hsp, Hs. cbn [map prepend]. rewrite render_cons.
      rewrite rev_app_distr, rev_involutive, <- app_assoc. reflexivity.
Qed.

(** the byte-level split of a rendered well-formed message is the rendering of its token-level split *)
Theorem levels_agree (m : msg) :
  msg_wf m = true -> split_bytes (render m) = map render (split_marker m).
Proof.
  intros H. unfold msg_wf in H. apply andb_true_iff in H as [Hwf Hadj].
  unfold split_bytes. rewrite (scan_msg m [] Hwf Hadj).
  destruct (split_marker_nonempty' m) as (s & ss & Hs). rewrite Hs. reflexivity.
Qed.

(* what ExtractObject hands to json.Unmarshal *)
Corollary middle_agrees (m : msg) :
  msg_wf m = true -> middle_bytes (render m) = option_map render (middle_tokens m).
Proof.
  intros H. unfold middle_bytes, middle_tokens. rewrite (levels_agree m H).
  destruct (split_marker m) as [|a [|b [|c [|d l]]]]; reflexivity.
Qed.

(** * Messages built from well-formed texts are well-formed *)

Lemma adjacent_ok_app (a b : msg) :
  adjacent_ok a = true -> adjacent_ok b = true ->
  match b with [] => true | y :: _ => starts_safe y end = true ->
  adjacent_ok (a ++ b) = true.
Proof.
  intros Ha Hb Hy. induction a as [|t a IH]; [exact Hb|].
  cbn [adjacent_ok] in Ha. apply andb_true_iff in Ha as [H1 H2].
  cbn [app adjacent_ok]. rewrite (IH H2), andb_true_r.
  destruct a as [|t' a']; [|exact H1].
  cbn [app]. destruct t as [s| |o|c|k]; try reflexivity.
  destruct b as [|y b']; [reflexivity|]. rewrite Hy. apply orb_true_r.
Qed.

Lemma msg_wf_wrap (t m : msg) :
  msg_wf t = true -> msg_wf m = true -> msg_wf (t ++ sep :: m) = true.
Proof.
  unfold msg_wf. intros Ht Hm.
  apply andb_true_iff in Ht as [Ht1 Ht2]. apply andb_true_iff in Hm as [Hm1 Hm2].
  apply andb_true_iff. split.
  - rewrite forallb_app. cbn [forallb]. rewrite Ht1, Hm1. reflexivity.
  - apply adjacent_ok_app; [exact Ht2| |reflexivity].
    cbn [adjacent_ok]. rewrite Hm2. destruct m; reflexivity.
Qed.

Theorem message_wf (e : err) : err_wf e = true -> msg_wf (message e) = true.
Proof.
  induction e as [c|t|c t|k m|t e IH|t e IH|o e IH|t0 ps]; cbn [err_wf message]; intros H.
  - reflexivity.
  - exact H.
  - exact H.
  - unfold msg_wf in *. cbn [forallb adjacent_ok tok_wf]. exact H.
  - apply andb_true_iff in H as [Ht He]. apply msg_wf_wrap; auto.
  - apply andb_true_iff in H as [Ht _]. exact Ht.
  - apply andb_true_iff in H as [Ho He]. specialize (IH He).
    unfold msg_wf in *. apply andb_true_iff in IH as [H1 H2].
    cbn [forallb adjacent_ok tok_wf sep no_occurrence starts_with marker_bytes].
    rewrite Ho, H1, H2. destruct (message e); reflexivity.
  - (* a layer with several operands has no separators of its own: well-formedness of the whole text is demanded *)
    apply andb_true_iff in H as [Ht _]. exact Ht.
Qed.

(** ExtractObject's byte-level search on the real message finds exactly what
    the token-level model says, for every error value built from well-formed texts *)
Corollary extract_bytes_agrees (e : err) :
  err_wf e = true ->
  middle_bytes (render (message e)) = option_map render (middle_tokens (message e)).
Proof. intros H. apply middle_agrees, message_wf, H. Qed.
