(** Correspondence run for C03: one case = one operation sequence as one backend
    (the in-memory store or the Redis client over miniredis) executed it.  Every
    observed result is compared with the contract (spec/KV.v) and with the model
    of that backend (model/InmemKV.v, model/RedisKV.v); see run/KVRun.v for the
    version bijection and the treatment of time.  The harness runs the same
    sequence on both backends and emits one case per backend. *)
From Coq Require Import List ZArith NArith Arith Bool.
From GL Require Import spec.KV model.InmemKV model.RedisSrv model.RedisKV run.KVRun.
Import ListNotations.

(* the 300-byte value of the harness's alphabet (sent by name) *)
Definition V300 : value := repeat 120%N 300.

Record case := mkCase { k_id : N; k_be : backend; k_tol : Z; k_obs : list obs }.

Definition check_case (c : case) : bool :=
  match check_obs (k_tol c) (c_init (k_be c)) (k_obs c) 0 with
  | None => true
  | Some _ => false
  end.

Definition mismatches (cs : list case) : list N :=
  map k_id (filter (fun c => negb (check_case c)) cs).

(* for replay: (case id, index of the first step that does not match, per step: operation, observed,
   contract's answer, model's answer) *)
Definition explain (c : case) :=
  (k_id c, check_obs (k_tol c) (c_init (k_be c)) (k_obs c) 0,
   explain_obs (k_tol c) (c_init (k_be c)) (k_obs c)).
