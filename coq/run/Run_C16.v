(** Correspondence run for C16 (the xbinary decoders on arbitrary bytes).

    A case names a set of inputs (explicit byte strings, all 256 one-byte
    extensions of a prefix, or one run-length coded string), the bytes between
    len and cap of the slice handed to the decoders, and the flattened results
    of all nine decoder variants on every input, in order (see run/XBinObs.v:
    byte, uint16, uint32, uint64, uint, bytes newBuf=false/true, string
    newBuf=false/true; each [status; n; value...], status 2 = panic). *)
From Coq Require Import List NArith ZArith Bool.
From GL Require Import lib.ObsHash model.XBinary run.XBinObs.
Import ListNotations.
Open Scope N_scope.

Inductive bspec :=
| BList (l : list (list N))
| BExt (prefix : list N)                 (* prefix ++ [b] for b = 0..255 *)
| BRle (runs : list (N * N)).

Definition inputs_of (s : bspec) : list (list N) :=
  match s with
  | BList l => l
  | BExt p => map (fun b => p ++ [b]) (nrange 0 256)
  | BRle runs => [expand runs]
  end.

Record case := mkCase { c_id : N; c_in : bspec; c_extra : list N; c_obs : obs }.

Definition model_obs (s : bspec) (extra : list N) : list N :=
  flat_map (fun b => ser_decode_all b extra) (inputs_of s).

Definition check_case (c : case) : bool := obs_match (model_obs (c_in c) (c_extra c)) (c_obs c).

Definition mismatches (cs : list case) : list N :=
  map c_id (filter (fun c => negb (check_case c)) cs).

Definition explain (c : case) : N * obs * obs :=
  (c_id c, obs_digest (model_obs (c_in c) (c_extra c)), c_obs c).
