(** Serialisation of the xbinary model's results into the number lists compared
    by the correspondence runs of C15 and C16 (layout mirrored by the harness
    package harness/internal/xbobs).

      Marshal call into a buffer of [room] bytes pre-filled with [fill]:
          [status; n; buffer after the call (room numbers)]    status 1 ok, 0 error
      scalar decoder:   [status; n; value]                     status 1 ok, 0 error, 2 panic
      bytes/string decoder:
                        [status; n; place; len; data...]
          place = 0 for an empty result, 1 for a fresh copy, 2+offset for a
          sub-slice of the input starting at [offset]
    Imports models only. *)
From Coq Require Import List NArith ZArith Bool.
From GL Require Import lib.ObsHash model.XBinary.
Import ListNotations.
Open Scope N_scope.

Definition st_w (s : wres) : N := match s with WOk => 1 | WErr => 0 | WFuel => 3 end.

Definition ser_marshal (r : wres * list N) (room : nat) (fill : N) : list N :=
  st_w (fst r) :: nn (w_n r) :: snd r ++ repeat fill (room - length (snd r)).

Definition ser_dec_scalar (r : dres N) : list N :=
  match r with
  | DOk n v => [1; nn n; v]
  | DErr => [0; 0; 0]
  | DPanic => [2; 0; 0]
  end.

Definition place (v : bview) : N :=
  match v_data v with
  | [] => 0
  | _ => if v_alias v then 2 + nn (v_off v) else 1
  end.

Definition ser_dec_bytes (r : dres bview) : list N :=
  match r with
  | DOk n v => 1 :: nn n :: place v :: nn (length (v_data v)) :: v_data v
  | DErr => [0; 0; 0; 0]
  | DPanic => [2; 0; 0; 0]
  end.

(* Unmarshal<kind>(buf[, newBuf]) on a slice with the bytes [extra] between len and cap *)
Definition ser_decode (k : kind) (buf extra : list N) (newBuf : bool) : list N :=
  match k with
  | KByte => ser_dec_scalar (unmarshal_byte buf)
  | KU16 => ser_dec_scalar (unmarshal_fixed 2 buf)
  | KU32 => ser_dec_scalar (unmarshal_fixed 4 buf)
  | KU64 => ser_dec_scalar (unmarshal_fixed 8 buf)
  | KUint => ser_dec_scalar (unmarshal_uint buf)
  | KBytes => ser_dec_bytes (unmarshal_bytes buf extra newBuf)
  | KString => ser_dec_bytes (unmarshal_string buf extra newBuf)
  end.

(* all nine decoder variants on one input *)
Definition ser_decode_all (buf extra : list N) : list N :=
  ser_decode KByte buf extra false ++ ser_decode KU16 buf extra false
  ++ ser_decode KU32 buf extra false ++ ser_decode KU64 buf extra false
  ++ ser_decode KUint buf extra false
  ++ ser_decode KBytes buf extra false ++ ser_decode KBytes buf extra true
  ++ ser_decode KString buf extra false ++ ser_decode KString buf extra true.

Definition ser_val (i : item) : list N :=
  match i with
  | IByte v | IU16 v | IU32 v | IU64 v | IUint v => [v]
  | IBytes l | IString l => nn (length l) :: l
  end.
