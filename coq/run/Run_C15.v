(** Correspondence run for C15 (xbinary encoders/decoders/size functions).

    A case names inputs (items of the seven kinds, destination buffer lengths,
    the fill byte of the destination buffers, the bytes that follow the
    encoding when it is decoded again, the bytes between len and cap) and
    carries what the implementation did, flattened to numbers (see
    run/XBinObs.v).  [model_obs] computes the same list from the model.

    Per item:
      [Writable*Size]                      (uint, bytes, string only)
      for every room: Marshal<kind>(v, buf[:room]) -> [status; n; buffer after]
      ObjectsWriter.Write<kind>(v) into a bytes.Buffer -> [n; len; bytes]
      Unmarshal<kind>(those bytes ++ tail) -> decoder result
      (bytes/string: newBuf=false then newBuf=true)
    Per stream of items:
      ObjectsWriter output of all items -> [n; len; bytes]
      Marshal of all items one after the other into one buffer of [room] bytes
          -> [1; n] per item, then [len; bytes]
      decoding loop over (bytes ++ tail) by kinds -> [1; n; value] per item,
          then the number of bytes left *)
From Coq Require Import List NArith ZArith Bool.
From GL Require Import lib.ObsHash model.XBinary run.XBinObs.
Import ListNotations.
Open Scope N_scope.

(* items as printed by the harness: byte strings are run-length coded *)
Inductive sitem :=
| SScalar (k : kind) (v : N)
| SBytes (str : bool) (body : list (N * N)).

Definition mk_scalar (k : kind) (v : N) : item :=
  match k with
  | KByte => IByte v | KU16 => IU16 v | KU32 => IU32 v | KU64 => IU64 v
  | _ => IUint v
  end.

Definition item_of (s : sitem) : item :=
  match s with
  | SScalar k v => mk_scalar k v
  | SBytes true body => IString (expand body)
  | SBytes false body => IBytes (expand body)
  end.

Inductive ispec :=
| IRange (k : kind) (lo cnt : N)        (* scalars lo .. lo+cnt-1 of kind k *)
| IList (l : list sitem).

Definition items_of (s : ispec) : list item :=
  match s with
  | IRange k lo cnt => map (mk_scalar k) (nrange lo (N.to_nat cnt))
  | IList l => map item_of l
  end.

Inductive input :=
| InItems (items : ispec) (rooms : list N) (fill : N) (tail extra : list N)
| InStream (items : list sitem) (room : N) (tail extra : list N).

Record case := mkCase { c_id : N; c_in : input; c_obs : obs }.

Definition ser_size (i : item) : list N :=
  match i with
  | IUint v => [nn (writable_uint_size v)]
  | IBytes l => [nn (writable_bytes_size l)]
  | IString l => [nn (writable_string_size l)]
  | _ => []
  end.

Definition is_bytes_kind (k : kind) : bool :=
  match k with KBytes | KString => true | _ => false end.

Definition ser_item (rooms : list N) (fill : N) (tail extra : list N) (i : item) : list N :=
  let e := encode_item i in
  ser_size i
  ++ flat_map (fun room => ser_marshal (marshal_item i (N.to_nat room)) (N.to_nat room) fill) rooms
  ++ nn (length e) :: nn (length e) :: e
  ++ ser_decode (kind_of i) (e ++ tail) extra false
  ++ (if is_bytes_kind (kind_of i) then ser_decode (kind_of i) (e ++ tail) extra true else []).

Fixpoint ser_marshal_seq (items : list item) (room : nat) (acc : list N) : list N :=
  match items with
  | [] => nn (length acc) :: acc
  | i :: t =>
      let r := marshal_item i room in
      match fst r with
      | WOk => 1 :: nn (w_n r) :: ser_marshal_seq t (room - w_n r) (acc ++ snd r)
      | s => [st_w s; 0]
      end
  end.

Fixpoint ser_decode_seq (ks : list kind) (buf extra : list N) : list N :=
  match ks with
  | [] => [nn (length buf)]
  | k :: t =>
      match decode_item k buf extra with
      | DOk n i => 1 :: nn n :: ser_val i ++ ser_decode_seq t (skipn n buf) extra
      | DErr => [0]
      | DPanic => [2]
      end
  end.

Definition ser_stream (items : list item) (room : N) (tail extra : list N) : list N :=
  let e := concat (map encode_item items) in
  nn (length e) :: nn (length e) :: e
  ++ ser_marshal_seq items (N.to_nat room) []
  ++ ser_decode_seq (map kind_of items) (e ++ tail) extra.

Definition model_obs (i : input) : list N :=
  match i with
  | InItems items rooms fill tail extra => flat_map (ser_item rooms fill tail extra) (items_of items)
  | InStream items room tail extra => ser_stream (map item_of items) room tail extra
  end.

Definition check_case (c : case) : bool := obs_match (model_obs (c_in c)) (c_obs c).

Definition mismatches (cs : list case) : list N :=
  map c_id (filter (fun c => negb (check_case c)) cs).

(* for replay: id, what the model says, what the implementation did *)
Definition explain (c : case) : N * obs * obs :=
  (c_id c, obs_digest (model_obs (c_in c)), c_obs c).
