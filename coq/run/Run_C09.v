(** Correspondence run for C09.

    (a) controlled runs: the harness drives 2..4 goroutines one action at a time
        (start a call / let a blocked create function return) and waits for
        quiescence after each.  For each action it sends the LTS labels it
        inferred from what it saw, what it saw (delete callbacks in order,
        create callbacks entered, calls returned with their results), two hook
        readings (resident entries, in-flight table size) and the state of
        every goroutine at the quiescent point (idle / blocked inside the create
        function / parked inside GetOrCreate / stuck).  Here the labels must be
        accepted by the LTS of model/ECacheConc.v ([step] is defined), the
        events the LTS produces must be the observed ones, and at the quiescent
        point every thread of the model must be exactly where its goroutine is,
        a parked goroutine corresponding to a [PWait] on a channel that is *not*
        closed (so parked(impl) = cannot-move(model)).
    (b) free-running runs: a history (invoke / return stamps from one atomic
        counter, results, create results, the global order of delete callbacks)
        and a linearisation order found by an untrusted search in the harness.
        Here the order is verified against the reference LRU (spec/LRU.v): it
        is a permutation of the calls, it respects real-time order, and the
        reference LRU replayed in that order returns what the calls returned,
        calls the create function exactly where the implementation did and
        produces the observed sequence of delete callbacks.

    Instantiation: keys and values are [Z]; key mapping [pk mod m]. *)
From Coq Require Import List ZArith NArith Arith Bool.
From GL Require Import spec.LRU model.ECache model.ECacheConc.
Import ListNotations.

Definition kmapZ (m : Z) (pk : Z) : Z := if (m =? 0)%Z then pk else (pk mod m)%Z.

Definition res_eqb (a b : lru_res Z) : bool :=
  match a, b with
  | RVal x, RVal y => Z.eqb x y
  | RErr, RErr => true
  | RBool x, RBool y => Bool.eqb x y
  | RCount x, RCount y => Nat.eqb x y
  | _, _ => false
  end.

Fixpoint list_eqb {A} (f : A -> A -> bool) (a b : list A) : bool :=
  match a, b with
  | [], [] => true
  | x :: s, y :: t => f x y && list_eqb f s t
  | _, _ => false
  end.

Definition zz_eqb (a b : Z * Z) : bool := Z.eqb (fst a) (fst b) && Z.eqb (snd a) (snd b).
Definition nz_eqb (a b : nat * Z) : bool := Nat.eqb (fst a) (fst b) && Z.eqb (snd a) (snd b).
Definition nr_eqb (a b : nat * lru_res Z) : bool := Nat.eqb (fst a) (fst b) && res_eqb (snd a) (snd b).

(** * (a) controlled runs *)

Inductive qst := QIdle | QCreate | QWait | QStuck.

Record action := mkAct {
  a_labels : list (label Z Z);
  a_dels : list (Z * Z);            (* delete callbacks, in order *)
  a_enters : list (nat * Z);        (* create callbacks entered: thread, pk *)
  a_rets : list (nat * lru_res Z);  (* calls returned, sorted by thread *)
  a_items : nat;                    (* hook: p.items.Len() *)
  a_infl : nat;                     (* hook: len(p.inflight) *)
  a_q : list qst                    (* goroutine states, thread 0, 1, ... *)
}.

Fixpoint ev_dels (e : list (cev Z Z)) : list (Z * Z) :=
  match e with
  | [] => []
  | CDel pk v :: t => (pk, v) :: ev_dels t
  | _ :: t => ev_dels t
  end.
Fixpoint ev_enters (e : list (cev Z Z)) : list (nat * Z) :=
  match e with
  | [] => []
  | CEnter t pk :: r => (t, pk) :: ev_enters r
  | _ :: r => ev_enters r
  end.
Fixpoint ev_rets (e : list (cev Z Z)) : list (nat * lru_res Z) :=
  match e with
  | [] => []
  | CRet t x :: r => (t, x) :: ev_rets r
  | _ :: r => ev_rets r
  end.

Fixpoint insert_by_tid (x : nat * lru_res Z) (l : list (nat * lru_res Z)) :=
  match l with
  | [] => [x]
  | y :: t => if (fst x <=? fst y)%nat then x :: l else y :: insert_by_tid x t
  end.
Definition sort_by_tid (l : list (nat * lru_res Z)) := fold_right insert_by_tid [] l.

Definition q_matches (s : cstate Z Z Z) (t : nat) (q : qst) : bool :=
  match q, cs_pc s t with
  | QIdle, PIdle => true
  | QCreate, PCreating _ _ => true
  | QWait, PWait _ ch => negb (chan_closed s ch)
  | _, _ => false
  end.

Fixpoint q_all (s : cstate Z Z Z) (t : nat) (qs : list qst) : bool :=
  match qs with
  | [] => true
  | q :: r => q_matches s t q && negb (can_move s t) && q_all s (S t) r
  end.

Definition check_action (m : Z) (s : cstate Z Z Z) (a : action) : option (cstate Z Z Z) :=
  match run_trace Z.eqb (kmapZ m) s (a_labels a) with
  | None => None
  | Some (s', evs) =>
      if list_eqb zz_eqb (ev_dels evs) (a_dels a)
         && list_eqb nz_eqb (ev_enters evs) (a_enters a)
         && list_eqb nr_eqb (sort_by_tid (ev_rets evs)) (a_rets a)
         && Nat.eqb (om_len (cs_items s')) (a_items a)
         && Nat.eqb (length (cs_inflight s')) (a_infl a)
         && q_all s' 0 (a_q a)
      then Some s' else None
  end.

(* index of the first action that is not accepted *)
Fixpoint check_actions (m : Z) (s : cstate Z Z Z) (l : list action) (i : nat) : option nat * cstate Z Z Z :=
  match l with
  | [] => (None, s)
  | a :: t =>
      match check_action m s a with
      | None => (Some i, s)
      | Some s' => check_actions m s' t (S i)
      end
  end.

Definition subset_zz (a b : list (Z * Z)) : bool :=
  forallb (fun x => existsb (zz_eqb x) b) a.

(* every driven run ends with all calls returned and a Clear: created = deleted *)
Definition check_ctl (cap : nat) (m : Z) (l : list action) : bool :=
  match check_actions m (cs_init cap) l 0 with
  | (Some _, _) => false
  | (None, s) =>
      Nat.eqb (length (cs_created s)) (length (cs_deleted s))
      && subset_zz (cs_created s) (cs_deleted s) && subset_zz (cs_deleted s) (cs_created s)
  end.

(** * (b) linearisation witnesses of free-running histories *)

Record hop := mkHop {
  h_inv : Z; h_ret : Z;            (* stamps of the invocation and of the response *)
  h_op : lru_op Z Z;               (* OGet pk res: res = what the create function answered, if it was called *)
  h_crt : bool;                    (* the create function was called by this call *)
  h_res : lru_res Z                (* what the call returned *)
}.

Definition ev_creates (e : list (lru_ev Z Z)) : nat :=
  length (filter (fun x => match x with EvCreate _ _ => true | _ => false end) e).

Fixpoint replay (cap : nat) (m : Z) (ops : list hop) (w : list nat) (l : lru_state Z Z Z)
                (maxinv : Z) (dels : list (Z * Z)) : option (list (Z * Z)) :=
  match w with
  | [] => Some dels
  | i :: r =>
      match nth_error ops i with
      | None => None
      | Some h =>
          if (h_ret h <? maxinv)%Z then None     (* an earlier call of the order was invoked after this one returned *)
          else
            let '(l', (res, evs)) := lru_step Z.eqb (kmapZ m) (fun _ => 0%Z) cap l (h_op h) in
            if res_eqb res (h_res h) && Nat.eqb (ev_creates evs) (if h_crt h then 1 else 0)
            then replay cap m ops r l' (Z.max maxinv (h_inv h)) (dels ++ deleted evs)
            else None
      end
  end.

Fixpoint nodup_nat (l : list nat) : bool :=
  match l with
  | [] => true
  | x :: t => negb (existsb (Nat.eqb x) t) && nodup_nat t
  end.

Definition check_lin (cap : nat) (m : Z) (ops : list hop) (dels : list (Z * Z)) (w : list nat) : bool :=
  Nat.eqb (length w) (length ops) && nodup_nat w
  && forallb (fun h => (h_inv h <? h_ret h)%Z) ops
  && match replay cap m ops w [] (-1)%Z [] with
     | Some d => list_eqb zz_eqb d dels
     | None => false
     end.

(** * wire format (flat integer lists, decoded here; see Run_C08.v for why)

    controlled action:
      labels   1 t o pk (o: 1 GetOrCreate, 2 Remove, 3 Clear) | 2 t SecA | 3 t v CreateRet (v = 0: failed)
               | 4 t SecB | 5 t Wake | 6 t SecRemove | 7 t SecClear | 8 t Return | 9 end of labels
      then     n  pk v ... (n delete callbacks)   n  t pk ... (n creates entered)
               n  t c x ... (n returns; c x = 1 v | 2 0 | 3 b | 4 n)
               items inflight   q ... (one per thread: 0 idle, 1 in create, 2 parked, 3 stuck)
    free-running history:
      n  then n times: inv ret o pk v crt c x   (o pk v: 1 pk v GetOrCreate (v: create result, 0 none/failed) |
                                                 2 pk 0 Remove | 3 0 0 Clear)
      n  pk v ... (delete callbacks in global order)   then the witness order (indices) *)
Open Scope Z_scope.

Definition dec_cop (o pk : Z) : option (cop Z) :=
  match o with
  | 1 => Some (CGet pk)
  | 2 => Some (CRemove pk)
  | 3 => Some CClear
  | _ => None
  end.

Fixpoint dec_labels (l : list Z) : option (list (label Z Z) * list Z) :=
  match l with
  | 9 :: r => Some ([], r)
  | 1 :: t :: o :: pk :: r =>
      match dec_cop o pk, dec_labels r with
      | Some c, Some (ls, r') => Some (LInvoke (Z.to_nat t) c :: ls, r')
      | _, _ => None
      end
  | 3 :: t :: v :: r =>
      match dec_labels r with
      | Some (ls, r') => Some (LCreateRet (Z.to_nat t) (if v =? 0 then None else Some v) :: ls, r')
      | None => None
      end
  | c :: t :: r =>
      match dec_labels r with
      | Some (ls, r') =>
          let n := Z.to_nat t in
          match c with
          | 2 => Some (LSecA n :: ls, r')
          | 4 => Some (LSecB n :: ls, r')
          | 5 => Some (LWake n :: ls, r')
          | 6 => Some (LSecRemove n :: ls, r')
          | 7 => Some (LSecClear n :: ls, r')
          | 8 => Some (LReturn n :: ls, r')
          | _ => None
          end
      | None => None
      end
  | _ => None
  end.

Definition dec_res (c x : Z) : option (lru_res Z) :=
  match c with
  | 1 => Some (RVal x)
  | 2 => Some RErr
  | 3 => Some (RBool (x =? 1))
  | 4 => Some (RCount (Z.to_nat x))
  | _ => None
  end.

Fixpoint take_zz (n : nat) (l : list Z) : option (list (Z * Z) * list Z) :=
  match n, l with
  | O, _ => Some ([], l)
  | S k, a :: b :: r =>
      match take_zz k r with Some (xs, r') => Some ((a, b) :: xs, r') | None => None end
  | _, _ => None
  end.

Fixpoint take_rets (n : nat) (l : list Z) : option (list (nat * lru_res Z) * list Z) :=
  match n, l with
  | O, _ => Some ([], l)
  | S k, t :: c :: x :: r =>
      match dec_res c x, take_rets k r with
      | Some y, Some (xs, r') => Some ((Z.to_nat t, y) :: xs, r')
      | _, _ => None
      end
  | _, _ => None
  end.

Definition dec_q (x : Z) : qst :=
  match x with 0 => QIdle | 1 => QCreate | 2 => QWait | _ => QStuck end.

Definition dec_action (l : list Z) : option action :=
  match dec_labels l with
  | Some (ls, n1 :: r1) =>
      match take_zz (Z.to_nat n1) r1 with
      | Some (dels, n2 :: r2) =>
          match take_zz (Z.to_nat n2) r2 with
          | Some (ents, n3 :: r3) =>
              match take_rets (Z.to_nat n3) r3 with
              | Some (rets, items :: infl :: qs) =>
                  Some (mkAct ls dels (map (fun p => (Z.to_nat (fst p), snd p)) ents) rets
                              (Z.to_nat items) (Z.to_nat infl) (map dec_q qs))
              | _ => None
              end
          | _ => None
          end
      | _ => None
      end
  | _ => None
  end.

Fixpoint take_hops (n : nat) (l : list Z) : option (list hop * list Z) :=
  match n, l with
  | O, _ => Some ([], l)
  | S k, inv :: ret :: o :: pk :: v :: crt :: c :: x :: r =>
      let op := match o with
                | 1 => Some (OGet pk (if v =? 0 then None else Some v))
                | 2 => Some (ORemove pk)
                | 3 => Some OClear
                | _ => None
                end in
      match op, dec_res c x, take_hops k r with
      | Some op, Some y, Some (xs, r') => Some (mkHop inv ret op (crt =? 1) y :: xs, r')
      | _, _, _ => None
      end
  | _, _ => None
  end.

Definition dec_free (l : list Z) : option (list hop * list (Z * Z) * list nat) :=
  match l with
  | n :: r =>
      match take_hops (Z.to_nat n) r with
      | Some (ops, nd :: r1) =>
          match take_zz (Z.to_nat nd) r1 with
          | Some (dels, w) => Some (ops, dels, map Z.to_nat w)
          | None => None
          end
      | _ => None
      end
  | _ => None
  end.

Inductive case :=
| CaseCtl (id : N) (cap : nat) (m : Z) (acts : list (list Z))
| CaseFree (id : N) (cap : nat) (m : Z) (h : list Z).

Definition c_id (c : case) : N :=
  match c with CaseCtl id _ _ _ => id | CaseFree id _ _ _ => id end.

Fixpoint all_some {A} (l : list (option A)) : option (list A) :=
  match l with
  | [] => Some []
  | Some x :: t => option_map (cons x) (all_some t)
  | None :: _ => None
  end.

Definition check_case (c : case) : bool :=
  match c with
  | CaseCtl _ cap m acts =>
      match all_some (map dec_action acts) with
      | Some l => check_ctl cap m l
      | None => false
      end
  | CaseFree _ cap m h =>
      match dec_free h with
      | Some (ops, dels, w) => check_lin cap m ops dels w
      | None => false
      end
  end.

Definition mismatches (cs : list case) : list N :=
  map c_id (filter (fun c => negb (check_case c)) cs).

(* for replay.  Controlled run: the decoded actions, the index of the first action
   the model does not accept, and what the model produces for that action's labels
   (events; resident entries, in-flight table size).  Free run: the decoded history. *)
Inductive explanation :=
| ExCtl (acts : list (option action)) (first_bad : option nat)
        (model_says : option (list (cev Z Z) * nat * nat))
| ExFree (h : option (list hop * list (Z * Z) * list nat)) (ok : bool).

Definition explain (c : case) : explanation :=
  match c with
  | CaseCtl _ cap m acts =>
      let d := map dec_action acts in
      match all_some d with
      | None => ExCtl d None None
      | Some l =>
          match check_actions m (cs_init cap) l 0 with
          | (None, _) => ExCtl d None None
          | (Some i, s) =>
              ExCtl d (Some i)
                (match nth_error l i with
                 | Some a =>
                     match run_trace Z.eqb (kmapZ m) s (a_labels a) with
                     | Some (s', evs) => Some (evs, om_len (cs_items s'), length (cs_inflight s'))
                     | None => None
                     end
                 | None => None
                 end)
          end
      end
  | CaseFree _ cap m h => ExFree (dec_free h) (check_case c)
  end.
