(** Correspondence run for C20: evaluates the zip model (model/Zip.v) on the
    trees / archives / path strings the Go harness (harness/cmd/c20) gave to the
    real ZipFolder, UnzipToFolder and path/filepath functions, and compares

    - tree cases: for each (filter, recursive) run, the outcome class of
      ZipFolder and, after UnzipToFolder of the produced archive, the complete
      content of the snapshot directory (an ancestor of the destination):
      every path with its kind and content id, and the error class;
    - hostile archives (written with archive/zip directly): the same for
      UnzipToFolder alone, starting from a pre-populated snapshot directory;
    - lexical cases: filepath.Clean / Join / Rel / Split against clean / join /
      rel / split_dir, and "drop one trailing slash" against ensure_dir_name.

    Encoding: every case carries a table of segments (byte lists); paths are
    lists of indices into it ([ipath]).  Contents are small ids (the harness
    maps sha256 digests to ids; an unknown digest gets an id the model never
    produces). *)
From Coq Require Import List NArith Bool Arith.
From GL Require Import model.Zip.
Import ListNotations.

Definition ipath := list nat.

Definition dec (tab : list seg) (p : ipath) : list seg := map (fun i => nth i tab []) p.

Definition node_eqb (a b : node) : bool :=
  match a, b with
  | Dir, Dir => true
  | File x, File y => N.eqb x y
  | _, _ => false
  end.

Definition onode_eqb (a b : option node) : bool :=
  match a, b with
  | None, None => true
  | Some x, Some y => node_eqb x y
  | _, _ => false
  end.

(* strings.HasSuffix on bytes *)
Definition has_suffix (suf s : list N) : bool :=
  let n := length s - length suf in
  (length suf <=? length s) && seg_eqb (skipn n s) suf.

Inductive fkind := FNil | FSuffix (suf : list N) | FRejectAll.

Definition filt_of (k : fkind) : option (rpath -> bool) :=
  match k with
  | FNil => None
  | FSuffix s => Some (fun p => has_suffix s (render p))
  | FRejectAll => Some (fun _ => false)
  end.

(** observation of one UnzipToFolder call: [u_par] resolved absolute path of
    the snapshot directory, [u_dest] the destDir string as passed, content of
    the snapshot directory before / after (paths relative to it), error class
    0 = nil, 1 = error without an OS error inside (the containment
    rejection), 2 = error wrapping an OS error, 3 = panic *)
Record uobs := mkU {
  u_par : ipath; u_dest : ipath;
  u_before : list (ipath * node); u_res : N; u_after : list (ipath * node) }.

Record zrun := mkZ { z_filter : fkind; z_rec : bool; z_res : N; z_unzip : option uobs }.

Record lexobs := mkL { l_a : ipath; l_b : ipath; l_clean : ipath; l_join : ipath; l_rel : option ipath;
                       l_splitdir : ipath; l_ensure : ipath }.

Inductive body :=
| BTree (src : ipath) (files : list (ipath * N)) (runs : list zrun)
| BHostile (entries : list (ipath * bool * N)) (u : uobs)
| BLex (l : list lexobs).

Record case := mkCase { c_id : N; c_tab : list seg; c_body : body }.

(* all non-empty prefixes of [p] *)
Fixpoint prefixes_from (pre rest : list seg) : list (list seg) :=
  match rest with
  | [] => []
  | s :: r => (pre ++ [s]) :: prefixes_from (pre ++ [s]) r
  end.

Definition mk_fs (par : list seg) (l : list (list seg * node)) : fsys :=
  map (fun e => (par ++ fst e, snd e)) l ++ map (fun p => (p, Dir)) (prefixes_from [] par).

Fixpoint assoc (l : list (list seg * node)) (p : list seg) : option node :=
  match l with
  | [] => None
  | (k, v) :: r => if path_eqb k p then Some v else assoc r p
  end.

(* the model's file system equals the observed content of the snapshot directory *)
Definition fs_matches (par : list seg) (fs : fsys) (obs : list (list seg * node)) : bool :=
  forallb (fun e => onode_eqb (fs_get fs (par ++ fst e)) (Some (snd e))) obs
  && forallb (fun kv =>
       let k := fst kv in
       if is_prefix k par then onode_eqb (fs_get fs k) (Some Dir)
       else is_prefix par k && onode_eqb (fs_get fs k) (assoc obs (skipn (length par) k))) fs.

Definition ures_code (r : ures) : N :=
  match r with UOk => 0 | URejected => 1 | UOsErr => 2 end%N.

Definition dec_nodes (tab : list seg) (l : list (ipath * node)) : list (list seg * node) :=
  map (fun e => (dec tab (fst e), snd e)) l.

Definition check_unzip (tab : list seg) (ar : list entry) (u : uobs) : bool :=
  let par := dec tab (u_par u) in
  let r := unzip (dec tab (u_dest u)) ar (mk_fs par (dec_nodes tab (u_before u))) in
  N.eqb (ures_code (snd r)) (u_res u) && fs_matches par (fst r) (dec_nodes tab (u_after u)).

(* [src]: the srcDir string exactly as the harness passed it (absolute or
   relative to the working directory it set, clean or not) *)
Definition check_zrun (tab : list seg) (src : rpath) (t : tree) (z : zrun) : bool :=
  match zip_folder src (filt_of (z_filter z)) (z_rec z) t with
  | ZOk es =>
      N.eqb (z_res z) 0 &&
      match z_unzip z with Some u => check_unzip tab es u | None => false end
  | ZErr => N.eqb (z_res z) 1
  | ZPanic => N.eqb (z_res z) 2
  end.

Definition opath_eqb (a b : option rpath) : bool :=
  match a, b with
  | None, None => true
  | Some x, Some y => path_eqb x y
  | _, _ => false
  end.

Definition check_lex (tab : list seg) (o : lexobs) : bool :=
  let a := dec tab (l_a o) in
  let b := dec tab (l_b o) in
  path_eqb (clean_str a) (dec tab (l_clean o))
  && path_eqb (join a b) (dec tab (l_join o))
  && opath_eqb (rel a b) (option_map (dec tab) (l_rel o))
  && path_eqb (split_dir a) (dec tab (l_splitdir o))
  && path_eqb (ensure_dir_name a) (dec tab (l_ensure o)).

Definition mk_entry (tab : list seg) (e : ipath * bool * N) : entry :=
  mkE (dec tab (fst (fst e))) (snd (fst e)) (snd e).

Definition check_case (c : case) : bool :=
  let tab := c_tab c in
  match c_body c with
  | BTree src files runs =>
      let t := map (fun f => (dec tab (fst f), snd f)) files in
      forallb (check_zrun tab (dec tab src) t) runs
  | BHostile entries u => check_unzip tab (map (mk_entry tab) entries) u
  | BLex l => forallb (check_lex tab) l
  end.

Definition mismatches (cs : list case) : list N :=
  map c_id (filter (fun c => negb (check_case c)) cs).

(** for replay: what the model says.  Paths are shown relative to the snapshot
    directory where they lie below it (flag true), absolute otherwise. *)
Definition show_fs (par : list seg) (fs : fsys) : list (bool * list seg * option node) :=
  map (fun kv =>
         let k := fst kv in
         if is_prefix par k then (true, skipn (length par) k, fs_get fs k)
         else (false, k, fs_get fs k)) fs.

Inductive explained :=
| ETree (runs : list (zres * option (N * list (bool * list seg * option node))))
| EHostile (res : N) (fs : list (bool * list seg * option node))
| ELex (l : list (rpath * rpath * option rpath * bool)).

Definition explain_unzip (tab : list seg) (ar : list entry) (u : uobs)
  : N * list (bool * list seg * option node) :=
  let par := dec tab (u_par u) in
  let r := unzip (dec tab (u_dest u)) ar (mk_fs par (dec_nodes tab (u_before u))) in
  (ures_code (snd r), show_fs par (fst r)).

Definition explain (c : case) : N * bool * explained :=
  let tab := c_tab c in
  (c_id c, check_case c,
   match c_body c with
   | BTree src files runs =>
       let t := map (fun f => (dec tab (fst f), snd f)) files in
       ETree (map (fun z =>
                let zr := zip_folder (dec tab src) (filt_of (z_filter z)) (z_rec z) t in
                (zr, match zr, z_unzip z with
                     | ZOk es, Some u => Some (explain_unzip tab es u)
                     | _, _ => None
                     end)) runs)
   | BHostile entries u =>
       let r := explain_unzip tab (map (mk_entry tab) entries) u in
       EHostile (fst r) (snd r)
   | BLex l =>
       ELex (map (fun o => let a := dec tab (l_a o) in let b := dec tab (l_b o) in
                           (clean_str a, join a b, rel a b, check_lex tab o)) l)
   end).
