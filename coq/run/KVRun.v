(** Shared part of the correspondence runs of C03 and C06: one observed trace of
    a kvs.Storage backend is checked, step by step, against the contract
    (spec/KV.v) AND against the model of that backend (model/InmemKV.v or
    model/RedisKV.v).

    Versions.  The implementation's version strings arrive as small numbers
    (the harness interns the strings of one trace).  They are matched with the
    version numbers of the reference through a bijection built along the trace:
    the first joint occurrence binds, every later occurrence must agree, in both
    directions.  A successful write of the reference always carries a version
    that is not bound yet, so an implementation that re-uses a version string
    for a new write breaks the bijection: that is the freshness check.

    Time.  Every step carries the measured interval [t0,t1] of the call on the
    reference clock (ns) and [skew] = reference clock minus the client's clock
    (0 for the in-memory store; the accumulated FastForward of miniredis for the
    Redis client, whose time.Now() does not move with the server's clock).
    Expiration instants in operations are in the client's frame.  If an
    expiration instant of a stored record lies within [tol] of the interval, the
    call may have seen that record either way: the instants [t0-tol] and [e+1]
    for every such [e] are tried, and the first one on which contract and model
    both reproduce the observed result is taken (afterwards the records that
    were expired at that instant are dropped from the contract state for good).
    For a WaitForVersionChange the interval is the one in which its result was
    decided: the instant at which its context ended for the context's error
    (the record must still be there, unchanged, then), the interval of the call
    for ErrNotExist and nil.

    Imports models and specs only. *)
From Coq Require Import List ZArith NArith Arith Bool.
From GL Require Import spec.KV model.InmemKV model.RedisSrv model.RedisKV.
Import ListNotations.

(** ** sorting keys (ListKeys promises no order; the harness sorts, so do we) *)
Fixpoint key_leb (a b : key) : bool :=
  match a, b with
  | [], _ => true
  | _ :: _, [] => false
  | x :: a', y :: b' => if N.ltb x y then true else if N.ltb y x then false else key_leb a' b'
  end.

Fixpoint insert_key (k : key) (l : list key) : list key :=
  match l with
  | [] => [k]
  | x :: t => if key_leb k x then k :: l else x :: insert_key k t
  end.

Definition sort_keys (l : list key) : list key := fold_right insert_key [] l.

Fixpoint keys_eqb (a b : list key) : bool :=
  match a, b with
  | [], [] => true
  | x :: a', y :: b' => key_eqb x y && keys_eqb a' b'
  | _, _ => false
  end.

(** ** the version bijection: pairs (implementation id, reference version) *)
Definition binding := list (nat * nat).

Fixpoint ref_of (i : nat) (b : binding) : option nat :=
  match b with
  | [] => None
  | (i', v) :: t => if Nat.eqb i i' then Some v else ref_of i t
  end.

Fixpoint impl_of (v : nat) (b : binding) : option nat :=
  match b with
  | [] => None
  | (i, v') :: t => if Nat.eqb v v' then Some i else impl_of v t
  end.

Definition bind (i v : nat) (b : binding) : option binding :=
  match ref_of i b, impl_of v b with
  | Some v', _ => if Nat.eqb v' v then Some b else None
  | None, Some _ => None
  | None, None => Some ((i, v) :: b)
  end.

(* a version the caller passes in (CasByVersion, WaitForVersionChange): an id never
   bound is a string the storage never issued: reference version 0 *)
Definition to_ref (i : nat) (b : binding) : nat :=
  match ref_of i b with Some v => v | None => O end.

(** ** comparing one reference result with the observed one *)
Definition exp_match (slack : Z) (eref eimpl : option Z) : bool :=
  match eref, eimpl with
  | None, None => true
  | Some a, Some b => (Z.leb 0 (a - b) && Z.leb (a - b) slack)%Z
  | _, _ => false
  end.

Definition match_orec (slack : Z) (r i : orec) (b : binding) : option binding :=
  let '(k, v, n, e) := r in
  let '(k', v', n', e') := i in
  if key_eqb k k' && key_eqb v v' && exp_match slack e e' then bind n' n b else None.

Fixpoint match_orecs (slack : Z) (r i : list (option orec)) (b : binding) : option binding :=
  match r, i with
  | [], [] => Some b
  | None :: r', None :: i' => match_orecs slack r' i' b
  | Some x :: r', Some y :: i' =>
      match match_orec slack x y b with
      | Some b' => match_orecs slack r' i' b'
      | None => None
      end
  | _, _ => None
  end.

Definition match_out (slack : Z) (r i : out) (b : binding) : option binding :=
  match r, i with
  | OVer n, OVer n' => bind n' n b
  | OExist n, OExist n' => bind n' n b
  | ORec x, ORec y => match_orec slack x y b
  | ORecs x, ORecs y => match_orecs slack x y b
  | OOk, OOk | ONotExist, ONotExist | OConflict, OConflict | OCtx, OCtx => Some b
  | OKeys x, OKeys y => if keys_eqb (sort_keys x) (sort_keys y) then Some b else None
  | _, _ => None
  end.

(* a long PutMany batch is sent as a short pattern and a repeat count *)
Definition rep_recs {A : Type} (n : nat) (l : list A) : list A := concat (repeat l n).

(** ** observed steps *)
Inductive xop :=
| XOp (o : op)                      (* versions inside are implementation ids, expirations in the client's frame *)
| XWait (k : key) (v : nat).        (* WaitForVersionChange(ctx with a short deadline, k, v) *)

Record obs := mkObs { o_t0 : Z; o_t1 : Z; o_skew : Z; o_op : xop; o_out : out }.

(* a tight run of Puts (no expiration) over the keys [ks] in turn, all inside the interval [t0,t1]:
   the version ids the implementation returned, as runs (first id, how many consecutive ids) *)
Fixpoint tight_puts_from (i : nat) (t0 t1 skew : Z) (ks : list key) (v : value) (ids : list nat) : list obs :=
  match ids with
  | [] => []
  | id :: r =>
      let k := nth (Nat.modulo i (length ks)) ks [] in
      mkObs t0 t1 skew (XOp (Put k v None)) (ORec (k, v, id, None)) :: tight_puts_from (S i) t0 t1 skew ks v r
  end.

Definition tight_puts (t0 t1 skew : Z) (ks : list key) (v : value) (runs : list (nat * nat)) : list obs :=
  tight_puts_from 0 t0 t1 skew ks v (flat_map (fun bl => seq (fst bl) (snd bl)) runs).

Definition shift_exp (d : Z) (e : option Z) : option Z := option_map (fun t => t + d)%Z e.

(* the operation as the reference sees it: versions through the bijection, expirations moved by [d] *)
Definition ref_op (d : Z) (b : binding) (o : op) : op :=
  match o with
  | Create k v e => Create k v (shift_exp d e)
  | Put k v e => Put k v (shift_exp d e)
  | PutMany rs => PutMany (map (fun r => let '(k, v, e) := r in (k, v, shift_exp d e)) rs)
  | CasByVersion k v e n => CasByVersion k v (shift_exp d e) (to_ref n b)
  | _ => o
  end.

(* expiration instants of stored records inside the window *)
Definition cands (tol t0 t1 : Z) (l : list (key * rec)) : list Z :=
  (t0 - tol)%Z ::
  flat_map (fun kr => match exp (snd kr) with
                      | Some e => if (Z.leb (t0 - tol) e && Z.leb e (t1 + tol))%Z then [e + 1]%Z else []
                      | None => []
                      end) l.

Inductive backend := BInmem | BRedis.

Inductive mstate := MI (s : imem) | MR (s : rstate).

Definition m_init (b : backend) : mstate :=
  match b with BInmem => MI im_new | BRedis => MR rk_new end.

(* the model at reference time [t]; the client's clock is [t - skew] *)
Definition m_step (m : mstate) (t skew : Z) (o : op) : mstate * out :=
  match m with
  | MI s => let '(s', x) := im_step s t o in (MI s', x)
  | MR s => let '(s', x) := rk_step s (t - skew) t o in (MR s', x)
  end.

Definition m_wait (m : mstate) (t skew : Z) (k : key) (v : nat) : mstate * option out :=
  match m with
  | MI s => let '(s', x) := im_wait_check t k v s in (MI s', x)
  | MR s =>
      let '(s', x) := run_prog (t - skew) t 0
                        (rk_wait_poll k v (fun r => Ret (match r with Some o => o | None => OCtx end))) s in
      (MR s', match x with OCtx => None | o => Some o end)
  end.

Record cstate := mkC { c_spec : state; c_bs : binding; c_mod : mstate; c_bm : binding }.

Definition c_init (b : backend) : cstate := mkC init [] (m_init b) [].

(* one observed step at the candidate instant [t]: Some successor iff contract and model both agree with it *)
Definition try_at (c : cstate) (x : obs) (t : Z) : option cstate :=
  match o_op x with
  | XOp o =>
      let '(s', so) := step (c_spec c) t (ref_op (o_skew x) (c_bs c) o) in
      let '(m', mo) := m_step (c_mod c) t (o_skew x) (ref_op 0 (c_bm c) o) in
      match match_out (o_skew x) so (o_out x) (c_bs c), match_out 0 mo (o_out x) (c_bm c) with
      | Some bs, Some bm => Some (mkC (mkSt (purge t (recs s')) (next s')) bs m' bm)
      | _, _ => None
      end
  | XWait k v =>
      let so := match wait_now (c_spec c) t k (to_ref v (c_bs c)) with Some o => o | None => OCtx end in
      let '(m', mo) := m_wait (c_mod c) t (o_skew x) k (to_ref v (c_bm c)) in
      let mo := match mo with Some o => o | None => OCtx end in
      match match_out 0 so (o_out x) (c_bs c), match_out 0 mo (o_out x) (c_bm c) with
      | Some bs, Some bm => Some (mkC (mkSt (purge t (recs (c_spec c))) (next (c_spec c))) bs m' bm)
      | _, _ => None
      end
  end.

Fixpoint first_some {A B} (f : A -> option B) (l : list A) : option B :=
  match l with
  | [] => None
  | a :: t => match f a with Some b => Some b | None => first_some f t end
  end.

Definition check_step (tol : Z) (c : cstate) (x : obs) : option cstate :=
  (* XWait: the harness passes the interval in which the result was decided: the deadline of the
     context (t0 = t1) for the context's error, the interval of the call for ErrNotExist / nil *)
  first_some (try_at c x) (cands tol (o_t0 x) (o_t1 x) (recs (c_spec c))).

(* index (from 0) of the first step that cannot be matched *)
Fixpoint check_obs (tol : Z) (c : cstate) (l : list obs) (i : nat) : option nat :=
  match l with
  | [] => None
  | x :: t =>
      match check_step tol c x with
      | Some c' => check_obs tol c' t (S i)
      | None => Some i
      end
  end.

(* for replay: what contract and model answer at [t0] along the observed trace *)
Fixpoint explain_obs (tol : Z) (c : cstate) (l : list obs) : list (xop * out * (out * out)) :=
  match l with
  | [] => []
  | x :: t =>
      let so := match o_op x with
                | XOp o => snd (step (c_spec c) (o_t0 x) (ref_op (o_skew x) (c_bs c) o))
                | XWait k v => match wait_now (c_spec c) (o_t1 x) k (to_ref v (c_bs c)) with Some o => o | None => OCtx end
                end in
      let mo := match o_op x with
                | XOp o => snd (m_step (c_mod c) (o_t0 x) (o_skew x) (ref_op 0 (c_bm c) o))
                | XWait k v => match snd (m_wait (c_mod c) (o_t1 x) (o_skew x) k (to_ref v (c_bm c))) with Some o => o | None => OCtx end
                end in
      (o_op x, o_out x, (so, mo)) ::
      match check_step tol c x with
      | Some c' => explain_obs tol c' t
      | None => []
      end
  end.
