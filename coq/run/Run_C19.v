(** Correspondence run for C19: evaluates the model of errors/errors.go and
    errors/grpc.go (model/Errors.v, hand-written copy of the tables) on the
    error values the Go harness built through the real API and compares every
    projected observable: Is for all twelve classes, GRPCStatusCode,
    FromGRPCError, ExtractObject, before GRPCWrap, after it, after a status
    round trip and after crossing the boundary without GRPCWrap; whether
    EmbedObject panicked; whether GRPCWrap returned its argument.

    The token-level message of every case is also rendered to bytes and split
    like strings.Split does; both levels must agree (validated abstraction). *)
From Coq Require Import List NArith Bool.
From GL Require Import model.Errors.
Import ListNotations.

Inductive leaf :=
| LSentinel (c : class)
| LPlain (t : msg)
| LStatus (k : code) (m : msg).     (* status.Error(k, m): nil for OK *)

Definition leaf_err (l : leaf) : option err :=
  match l with
  | LSentinel c => Some (Sentinel c)
  | LPlain t => Some (Plain t)
  | LStatus k m => status_error k m
  end.

(* what the harness observes of one (possibly nil) error value *)
Record obs := mkObs {
  o_nil : bool;             (* err == nil *)
  o_is : list class;        (* the classes c, in declaration order, with Is(err, c) *)
  o_code : code;            (* GRPCStatusCode(err) *)
  o_from : option class;    (* FromGRPCError(err); None is nil *)
  o_ext : option obj        (* ExtractObject(err, &o): the re-marshalled o, None for false *)
}.

Record case := mkCase {
  c_id : N;
  c_leaf : leaf;
  c_ctx : ctx;              (* outermost frame first *)
  c_built : bool;           (* false: an EmbedObject call panicked (the rest is then ignored) *)
  c_e : obs;                (* e, as built *)
  c_w : obs;                (* w = GRPCWrap(e) *)
  c_same : bool;            (* w == e *)
  c_idem : bool;            (* GRPCWrap(w) == w *)
  c_msgkept : bool;         (* FromGRPCErrorMsg(w) == FromGRPCErrorMsg(e) *)
  c_t : obs;                (* t = status.Convert(w).Err() and the protobuf wire round trip of it *)
  c_tsame : bool;           (* t has the code and the message of w *)
  c_u : obs                 (* status.Convert(e).Err(): the boundary crossed without GRPCWrap *)
}.

Definition TB := std_tables.

Definition observe (e : option err) : obs :=
  mkObs (match e with None => true | Some _ => false end)
        (filter (Is_o TB e) all_classes)
        (grpc_status_code_o TB e)
        (from_grpc_o TB e)
        (extract_o e).

Definition class_list_eqb (a b : list class) : bool :=
  Nat.eqb (length a) (length b) && forallb (fun p => class_eqb (fst p) (snd p)) (combine a b).

Definition oobj_eqb (a b : option obj) : bool :=
  match a, b with
  | None, None => true
  | Some x, Some y => bytes_eqb x y
  | _, _ => false
  end.

Definition obs_eqb (a b : obs) : bool :=
  Bool.eqb (o_nil a) (o_nil b) && class_list_eqb (o_is a) (o_is b)
  && code_eqb (o_code a) (o_code b) && oclass_eqb (o_from a) (o_from b)
  && oobj_eqb (o_ext a) (o_ext b).

(* None: EmbedObject panics; Some None: the nil error *)
Definition model_err (c : case) : option (option err) :=
  match leaf_err (c_leaf c) with
  | None => match c_ctx c with [] => Some None | _ => None end
  | Some l => match build (c_ctx c) l with None => None | Some e => Some (Some e) end
  end.

(* GRPCWrap returns its argument itself (same pointer) *)
Definition as_is (e : option err) : bool :=
  match e with
  | None => true
  | Some e' => negb (code_eqb (status_code e') Unknown)
  end.

Fixpoint msg_eqb (a b : msg) : bool :=
  match a, b with
  | [], [] => true
  | x :: a', y :: b' =>
      match x, y with
      | Text s, Text s' => bytes_eqb s s'
      | Marker, Marker => true
      | Json o, Json o' => bytes_eqb o o'
      | ClassText c, ClassText c' => class_eqb c c'
      | StatusPrefix k, StatusPrefix k' => code_eqb k k'
      | _, _ => false
      end && msg_eqb a' b'
  | _, _ => false
  end.

Definition same_status (a b : option err) : bool :=
  match a, b with
  | None, None => true
  | Some x, Some y =>
      code_eqb (status_code x) (status_code y)
      && msg_eqb (snd (from_error x)) (snd (from_error y))
  | _, _ => false
  end.

(* the token level agrees with the byte level on the message of e *)
Definition levels_agree (e : option err) : bool :=
  match e with
  | None => true
  | Some e' =>
      let m := message e' in
      msg_wf m
      && (if list_eq_dec (list_eq_dec N.eq_dec)
               (split_bytes (render m)) (map render (split_marker m))
          then true else false)
  end.

Definition check_case (c : case) : bool :=
  match model_err c with
  | None => negb (c_built c)
  | Some e =>
      let w := grpc_wrap_o TB e in
      let t := transport_o w in
      c_built c
      && obs_eqb (observe e) (c_e c)
      && obs_eqb (observe w) (c_w c)
      && Bool.eqb (as_is e) (c_same c)
      && Bool.eqb (as_is w) (c_idem c)
      && Bool.eqb (msg_eqb (grpc_msg_o w) (grpc_msg_o e)) (c_msgkept c)
      && obs_eqb (observe t) (c_t c)
      && Bool.eqb (same_status t w) (c_tsame c)
      && obs_eqb (observe (transport_o e)) (c_u c)
      && levels_agree e && levels_agree w
  end.

Definition mismatches (cs : list case) : list N :=
  map c_id (filter (fun c => negb (check_case c)) cs).

(* the property itself, evaluated on what the implementation did (not on the
   model): for a chain of wraps/embeds around a class that has a code, the
   wrapped error and the transported one are of exactly that class *)
Definition spec_verdict (c : case) : bool :=
  match c_leaf c, c_built c with
  | LSentinel cl, true =>
      match to_code TB cl with
      | Some _ => class_list_eqb (o_is (c_w c)) [cl] && class_list_eqb (o_is (c_t c)) [cl]
                  && c_idem c
                  && oobj_eqb (o_ext (c_w c)) (o_ext (c_e c))
      | None => true
      end
  | _, _ => true
  end.

(* for replay: what the model says *)
Record explained := mkExplained {
  x_id : N; x_ok : bool; x_spec : bool; x_panics : bool;
  x_e : obs; x_w : obs; x_same : bool; x_idem : bool; x_t : obs; x_u : obs;
  x_levels : bool
}.

Definition explain (c : case) : explained :=
  match model_err c with
  | None => mkExplained (c_id c) (check_case c) (spec_verdict c) true
              (observe None) (observe None) true true (observe None) (observe None) true
  | Some e =>
      let w := grpc_wrap_o TB e in
      mkExplained (c_id c) (check_case c) (spec_verdict c) false
        (observe e) (observe w) (as_is e) (as_is w) (observe (transport_o w))
        (observe (transport_o e)) (levels_agree e && levels_agree w)
  end.
