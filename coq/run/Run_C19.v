(** Correspondence run for C19: evaluates the model of errors/errors.go and
    errors/grpc.go (model/Errors.v, hand-written copy of the tables) on the
    error values the Go harness built through the real API and compares every
    projected observable: Is for all twelve classes, GRPCStatusCode,
    FromGRPCError, ExtractObject, before GRPCWrap, after it, after a status
    round trip and after crossing the boundary without GRPCWrap; whether
    EmbedObject panicked; whether GRPCWrap returned its argument.

    Two modes.  By default ([c_exact = false]) a case fails only on the
    observables the property C19 names, evaluated on what the implementation
    did ([check_property]): for a chain around a class that has a code,
    Is(GRPCWrap(e), c') holds for that class and for no other, also after the
    status round trip; GRPCWrap(GRPCWrap(e)) is indistinguishable from
    GRPCWrap(e) by class, code and extracted object; an object that is
    extractable before GRPCWrap is the one extracted afterwards and on the
    other side, and embedding into a chain of plain texts round-trips; every
    non-OK status code maps back to a class (never nil).  Behaviour outside
    Error values are wrapping trees: a context frame [FMulti] is a layer with
    several operands (fmt.Errorf with several %w verbs, errors.Join, a custom
    Unwrap() []error type) and carries its side operands as model values; the
    class checks apply when the sentinel in the hole is the only class of the
    tree and no side operand is a status error ([ctx_one_class]).  Texts and
    objects of up to 1 MB arrive as (byte, repeat count) ([rep]).  Behaviour outside
    the statement (Is before GRPCWrap, classes without a code, message texts,
    EmbedObject panics on marker texts / second embeds, whether GRPCWrap
    returns its argument, the value of the marker) is not compared.

    With the harness flag --exact ([c_exact = true]) every observable must in
    addition be exactly what the model (hand-written tables) computes
    ([check_exact]), and the token-level message of every case is rendered to
    bytes and split like strings.Split does; both levels must agree. *)
From Coq Require Import List NArith Bool.
From GL Require Import model.Errors.
Import ListNotations.

(* long texts and objects are sent as (byte, repeat count): [rep b n] is n times the byte b *)
Definition rep (b n : N) : bytes := N.iter n (cons b) [].

Inductive leaf :=
| LSentinel (c : class)
| LPlain (t : msg)
| LStatus (k : code) (m : msg)      (* status.Error(k, m): nil for OK *)
| LIsLeaf (c : class) (t : msg).    (* a value of another type whose Is method answers for the sentinel c
                                       (syscall.ENOENT, a custom type) *)

Definition leaf_err (l : leaf) : option err :=
  match l with
  | LSentinel c => Some (Sentinel c)
  | LPlain t => Some (Plain t)
  | LStatus k m => status_error k m
  | LIsLeaf c t => Some (IsLeaf c t)
  end.

(* what the harness observes of one (possibly nil) error value *)
Record obs := mkObs {
  o_nil : bool;             (* err == nil *)
  o_is : list class;        (* the classes c, in declaration order, with Is(err, c) *)
  o_code : code;            (* GRPCStatusCode(err) *)
  o_from : option class;    (* FromGRPCError(err); None is nil *)
  o_ext : option obj        (* ExtractObject(err, &o): the re-marshalled o, None for false *)
}.

Record case := mkCase {
  c_id : N;
  c_exact : bool;           (* harness flag --exact: compare every observable with the model *)
  c_coded : list class;     (* the keys of errorsToCode in the tree under test (read from the source by
                               the harness on every run; the model's list when it cannot be read) *)
  c_leaf : leaf;
  c_ctx : ctx;              (* outermost frame first; an FMulti frame (fmt.Errorf with several %w, errors.Join,
                               a custom Unwrap() []error type) carries its side operands as model values *)
  c_built : bool;           (* false: an EmbedObject call panicked (the rest is then ignored) *)
  c_e : obs;                (* e, as built *)
  c_w : obs;                (* w = GRPCWrap(e) *)
  c_same : bool;            (* w == e *)
  c_idem : bool;            (* GRPCWrap(w) == w *)
  c_w2 : obs;               (* GRPCWrap(w) *)
  c_msgkept : bool;         (* FromGRPCErrorMsg(w) == FromGRPCErrorMsg(e) *)
  c_t : obs;                (* t = status.Convert(w).Err() and the protobuf wire round trip of it *)
  c_tsame : bool;           (* t has the code and the message of w *)
  c_u : obs                 (* status.Convert(e).Err(): the boundary crossed without GRPCWrap *)
}.

Definition TB := std_tables.

(* the keys of errorsToCode in the hand-written copy *)
Definition std_coded : list class :=
  filter (fun c => match to_code TB c with Some _ => true | None => false end) all_classes.

Definition observe (e : option err) : obs :=
  mkObs (match e with None => true | Some _ => false end)
        (filter (Is_o TB e) all_classes)
        (grpc_status_code_o TB e)
        (from_grpc_o TB e)
        (extract_o e).

Definition class_list_eqb (a b : list class) : bool :=
  Nat.eqb (length a) (length b) && forallb (fun p => class_eqb (fst p) (snd p)) (combine a b).

Definition oobj_eqb (a b : option obj) : bool :=
  match a, b with
  | None, None => true
  | Some x, Some y => bytes_eqb x y
  | _, _ => false
  end.

Definition obs_eqb (a b : obs) : bool :=
  Bool.eqb (o_nil a) (o_nil b) && class_list_eqb (o_is a) (o_is b)
  && code_eqb (o_code a) (o_code b) && oclass_eqb (o_from a) (o_from b)
  && oobj_eqb (o_ext a) (o_ext b).

(* None: EmbedObject panics; Some None: the nil error *)
Definition model_err (c : case) : option (option err) :=
  match leaf_err (c_leaf c) with
  | None => match c_ctx c with [] => Some None | _ => None end
  | Some l => match build (c_ctx c) l with None => None | Some e => Some (Some e) end
  end.

(* GRPCWrap returns its argument itself (same pointer) *)
Definition as_is (e : option err) : bool :=
  match e with
  | None => true
  | Some e' => negb (code_eqb (status_code e') Unknown)
  end.

Fixpoint msg_eqb (a b : msg) : bool :=
  match a, b with
  | [], [] => true
  | x :: a', y :: b' =>
      match x, y with
      | Text s, Text s' => bytes_eqb s s'
      | Marker, Marker => true
      | Json o, Json o' => bytes_eqb o o'
      | ClassText c, ClassText c' => class_eqb c c'
      | StatusPrefix k, StatusPrefix k' => code_eqb k k'
      | _, _ => false
      end && msg_eqb a' b'
  | _, _ => false
  end.

Definition same_status (a b : option err) : bool :=
  match a, b with
  | None, None => true
  | Some x, Some y =>
      code_eqb (status_code x) (status_code y)
      && msg_eqb (snd (from_error x)) (snd (from_error y))
  | _, _ => false
  end.

Fixpoint segs_eqb (a b : list bytes) : bool :=
  match a, b with
  | [], [] => true
  | x :: a', y :: b' => bytes_eqb x y && segs_eqb a' b'
  | _, _ => false
  end.

(* the token level agrees with the byte level on the message of e *)
Definition levels_agree (e : option err) : bool :=
  match e with
  | None => true
  | Some e' =>
      let m := message e' in
      msg_wf m
      && segs_eqb (split_bytes (render m)) (map render (split_marker m))
  end.

Definition check_exact (c : case) : bool :=
  match model_err c with
  | None => negb (c_built c)
  | Some e =>
      let w := grpc_wrap_o TB e in
      let t := transport_o w in
      c_built c
      && obs_eqb (observe e) (c_e c)
      && obs_eqb (observe w) (c_w c)
      && Bool.eqb (as_is e) (c_same c)
      && Bool.eqb (as_is w) (c_idem c)
      && obs_eqb (observe (grpc_wrap_o TB w)) (c_w2 c)
      && Bool.eqb (msg_eqb (grpc_msg_o w) (grpc_msg_o e)) (c_msgkept c)
      && obs_eqb (observe t) (c_t c)
      && Bool.eqb (same_status t w) (c_tsame c)
      && obs_eqb (observe (transport_o e)) (c_u c)
      && levels_agree e && levels_agree w
  end.

(** the property itself, evaluated on what the implementation did; the model
    is only used to say which texts are plain (no ESC byte, so that no marker constant containing ESC occurs in them) *)
Definition plain_msg (m : msg) : bool :=
  forallb (fun t => match t with Text s => no_esc s | Marker => false | _ => true end) m.

Definition plain_ctx (x : ctx) : bool :=
  forallb (fun f => match f with
                    | FWrap t => plain_msg t
                    | FGlue t => plain_msg t
                    | FEmbed _ => true
                    | FMulti t0 b t a => plain_msg (t0 ++ ops_msg b) && plain_msg (t ++ ops_msg a)
                    end) x.

(* the texts the property's clause on embedded objects quantifies over: "arbitrary message texts (including ones
   containing JSON, colons and the embed marker's neighbours)" - no text contains a complete marker, none forms
   across a junction (all texts of the built value are well-formed tokens), pieces of the marker (a lone ESC,
   "\x1bjso", "json") are allowed; the side operands bring no class and no status error into the tree.  These are the
   hypotheses of C19_embed_survives. *)
Definition neighbour_ctx (c : case) : bool :=
  ctx_marker_free (c_ctx c) && ctx_sides_ok (c_ctx c)
  && match model_err c with Some (Some e) => err_wf e | Some None => true | None => false end.

(* exactly one class per tree: every side operand of every layer is free of
   status errors and the only class errors.Is can find in it is cl itself
   (two different classes in one tree make the result of GRPCStatusCode
   depend on Go's map iteration order: outside the statement) *)
Definition side_one_class (cl : class) (s : err) : bool :=
  match inner_status s with
  | None => forallb (class_eqb cl) (classes_of s)
  | Some _ => false
  end.

Definition ctx_one_class (cl : class) (x : ctx) : bool :=
  forallb (fun f => match f with
                    | FMulti _ b _ a => forallb (fun p => side_one_class cl (fst p)) (b ++ a)
                    | _ => true
                    end) x.

(* indistinguishable by class, code and extracted object *)
Definition obs_core_eqb (a b : obs) : bool :=
  Bool.eqb (o_nil a) (o_nil b) && class_list_eqb (o_is a) (o_is b)
  && code_eqb (o_code a) (o_code b) && oobj_eqb (o_ext a) (o_ext b).

Definition is_some_class (o : option class) : bool :=
  match o with Some _ => true | None => false end.

Definition check_property (c : case) : bool :=
  match c_leaf c with
  | LSentinel cl =>
      if negb (existsb (class_eqb cl) (c_coded c)) then true   (* a class without a code: outside the statement *)
      else if negb (ctx_one_class cl (c_ctx c)) then true      (* a second class or a status error in the tree: outside *)
      else
          if c_built c then
            (* the class, and no other class, after GRPCWrap and on the other side *)
            negb (o_nil (c_w c)) && class_list_eqb (o_is (c_w c)) [cl]
            && negb (o_nil (c_t c)) && class_list_eqb (o_is (c_t c)) [cl]
            (* idempotent *)
            && obs_core_eqb (c_w2 c) (c_w c)
            (* what was extractable stays extractable, with the same object *)
            && match o_ext (c_e c) with
               | Some o => oobj_eqb (o_ext (c_w c)) (Some o) && oobj_eqb (o_ext (c_t c)) (Some o)
               | None => true
               end
            (* one object embedded into a chain of texts without a complete marker is extractable *)
            && (if plain_ctx (c_ctx c) || neighbour_ctx c
                then match ctx_embeds (c_ctx c) with
                     | [o] => oobj_eqb (o_ext (c_e c)) (Some o)
                     | _ => true
                     end
                else true)
          else
            (* EmbedObject may refuse texts with markers and second embeds, not a
               first embed into plain texts *)
            negb ((plain_ctx (c_ctx c) || neighbour_ctx c) && Nat.leb (length (ctx_embeds (c_ctx c))) 1)
  | LStatus k _ =>
      (* every non-OK code maps back to a class, never to nil - and to exactly one: the classes the status error
         is a member of according to Is are that class and no other (in a chain; a layer with several operands may
         bring classes of its own) *)
      if c_built c && negb (code_eqb k OK) then
        is_some_class (o_from (c_e c))
        && (if ctx_linear (c_ctx c)
            then match o_from (c_e c) with
                 | Some cl => class_list_eqb (o_is (c_e c)) [cl]
                 | None => true
                 end
            else true)
      else true
  | LPlain _ => true
  | LIsLeaf _ _ => true     (* not a chain around the sentinel itself: compared in the exact mode only *)
  end.

Definition check_case (c : case) : bool :=
  check_property c && (if c_exact c then check_exact c else true).

Definition mismatches (cs : list case) : list N :=
  map c_id (filter (fun c => negb (check_case c)) cs).

Definition spec_verdict (c : case) : bool := check_property c.

(* for replay: what the model says *)
Record explained := mkExplained {
  x_id : N; x_ok : bool; x_spec : bool; x_exact_ok : bool; x_panics : bool;
  x_e : obs; x_w : obs; x_same : bool; x_idem : bool; x_t : obs; x_u : obs;
  x_levels : bool;
  x_observed : case         (* what the implementation did *)
}.

Definition explain (c : case) : explained :=
  match model_err c with
  | None => mkExplained (c_id c) (check_case c) (spec_verdict c) (check_exact c) true
              (observe None) (observe None) true true (observe None) (observe None) true c
  | Some e =>
      let w := grpc_wrap_o TB e in
      mkExplained (c_id c) (check_case c) (spec_verdict c) (check_exact c) false
        (observe e) (observe w) (as_is e) (as_is w) (observe (transport_o w))
        (observe (transport_o e)) (levels_agree e && levels_agree w) c
  end.
