(** Correspondence run for C06: one case = one operation sequence, with records
    that expire, as one backend executed it (see harness/cmd/c06).  Every step
    carries the measured interval of the call; run/KVRun.v checks the observed
    result against the contract (virtual expiry, spec/KV.v) and against the model
    of the backend (lazy expiry in model/InmemKV.v, TTLs in model/RedisKV.v),
    accepting either outcome when an expiration instant lies within the
    tolerance of the call.  WaitForVersionChange is judged at the instant it
    returned: ErrNotExist iff the record is absent/expired then, nil iff its
    version differs, the context's error iff it is still there unchanged. *)
From Coq Require Import List ZArith NArith Arith Bool.
From GL Require Import spec.KV model.InmemKV model.RedisSrv model.RedisKV run.KVRun.
Import ListNotations.

Definition V300 : value := repeat 120%N 300.

Record case := mkCase { k_id : N; k_be : backend; k_tol : Z; k_obs : list obs }.

Definition check_case (c : case) : bool :=
  match check_obs (k_tol c) (c_init (k_be c)) (k_obs c) 0 with
  | None => true
  | Some _ => false
  end.

Definition mismatches (cs : list case) : list N :=
  map k_id (filter (fun c => negb (check_case c)) cs).

Definition explain (c : case) :=
  (k_id c, check_obs (k_tol c) (c_init (k_be c)) (k_obs c) 0,
   explain_obs (k_tol c) (c_init (k_be c)) (k_obs c)).
