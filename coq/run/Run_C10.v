(** Correspondence run for C10: evaluates, on the history the Go implementation
    ran, the pointer model L1 (allocating fresh nodes), L1 again with the
    opposite pool policy (always re-use the most recently pooled node -- a
    *test* of choice-insensitivity, which is a theorem), the chain L2 and the
    specification OMap, and compares every output with what the
    implementation returned and, through the verif hook [VerifWalk], the
    number of nodes reachable from head, the number in Deleted state, the sum
    of refCnt and the structural consistency flag. *)
From Coq Require Import List ZArith Arith Bool NArith.
From GL Require Import lib.IMapBase model.IMap model.Chain spec.OMap.
Import ListNotations.

Record step := St { s_op : op; s_out : out; s_nodes : nat; s_del : nat; s_ref : Z; s_hok : bool }.
Record case := mkCase { c_id : N; c_steps : list step }.

Definition walk_ok (a : imap) (s : step) : bool :=
  Nat.eqb (length (i_chain a)) (s_nodes s) && Nat.eqb (count_deleted a) (s_del s)
  && Z.eqb (sum_ref a) (s_ref s) && Bool.eqb (head_ok a) (s_hok s).

Definition is_nil {A} (l : list A) : bool := match l with [] => true | _ => false end.

(* implementation vs L1 (the model of the code) *)
Fixpoint check_l1 (ch : nat -> option nat) (a : imap) (l : list step) : bool :=
  match l with
  | [] => true
  | s :: t =>
      let '(a', x) := i_step ch a (s_op s) in
      out_eqb x (s_out s) &&
      (if is_stop x then is_nil t else walk_ok a' s && check_l1 ch a' t)
  end.

(* implementation vs L2 *)
Fixpoint check_l2 (c : chain) (l : list step) : bool :=
  match l with
  | [] => true
  | s :: t =>
      let '(c', x) := c_step c (s_op s) in
      out_eqb x (s_out s) &&
      (if is_stop x then is_nil t
       else Nat.eqb (length (cells c')) (s_nodes s) && Nat.eqb (c_pinned c') (s_del s)
            && Z.eqb (c_sum_ref c') (s_ref s) && check_l2 c' t)
  end.

(* implementation vs specification: API results only *)
Fixpoint check_spec (o : omap) (l : list step) : bool :=
  match l with
  | [] => true
  | s :: t =>
      let '(o', x) := o_step o (s_op s) in
      out_eqb x (s_out s) && (if is_stop x then is_nil t else check_spec o' t)
  end.

Definition spec_verdict (c : case) : bool := check_spec o_new (c_steps c).

Definition check_case (c : case) : bool :=
  check_l1 always_fresh i_new (c_steps c)
  && check_l1 always_reuse i_new (c_steps c)
  && check_l2 c_new (c_steps c)
  && spec_verdict c.

Definition mismatches (cs : list case) : list N :=
  map c_id (filter (fun c => negb (check_case c)) cs).

(* for replay: per operation what the implementation returned and what L1, L2 and the
   specification say, then the model's view of the walk after the last operation *)
Definition explain (c : case) :=
  let ops := map s_op (c_steps c) in
  (combine (combine (combine (combine ops (map s_out (c_steps c)))
     (outs (i_step always_fresh) i_new ops)) (outs c_step c_new ops)) (outs o_step o_new ops),
   let a := final (i_step always_fresh) i_new ops in
   (length (i_chain a), count_deleted a, sum_ref a, head_ok a),
   (check_l1 always_fresh i_new (c_steps c), check_l1 always_reuse i_new (c_steps c),
    check_l2 c_new (c_steps c), spec_verdict c)).
