(** Trace validation shared by Run_C01 and Run_C04: the event trace a run of the real
    kvs/distlock produced under the gating storage is replayed on model/LockLTS.v.
    Every label must be enabled ([step] = Some _); every snapshot taken at a quiescent
    point of the implementation (token and counter of every Locker through the verif hook,
    presence of the record in the storage, the set of goroutines that are inside a call
    and parked) must equal what the model state says. *)
From Coq Require Import List Arith Bool NArith.
From GL Require Import model.LockLTS.
Import ListNotations.

Inductive ev :=
| E (l : label)
| Snap (lks : list (bool * bool)) (recp : bool) (blocked : list nat)
(* summary of a free-running (un-gated) stress run: successful acquisitions, Unlock calls that
   returned, and the largest number of goroutines that were between "acquire returned" and
   "Unlock called" at the same instant (critical-section counter kept by the harness) *)
| Free (acq rel maxin : N)
(* summary of a free-running "renewal race" run with a very short lease (every Unlock aimed at the
   background lease refresh): a lease may lapse under load there, which is outside C01's premise,
   so overlaps are not part of the summary; judged in Coq: every acquisition was released (no
   Unlock panicked).  The residue checks of that stream are direct observations of the harness. *)
| FreeShort (acq rel : N).

Record case := mkCase {
  c_id : N;
  c_nt : nat;               (* goroutines 0..nt-1 *)
  c_prov : list nat;        (* provider of Locker i; its length is the number of Lockers *)
  c_complete : bool;        (* the harness drove the run to the end of every program *)
  c_evs : list ev
}.

Definition lprov_of (c : case) : lockerId -> provId := fun L => nth L (c_prov c) 0.

Fixpoint list_nat_eqb (a b : list nat) : bool :=
  match a, b with
  | [], [] => true
  | x :: a', y :: b' => Nat.eqb x y && list_nat_eqb a' b'
  | _, _ => false
  end.

Fixpoint lks_ok (s : state) (i : nat) (l : list (bool * bool)) : bool :=
  match l with
  | [] => true
  | (tk, cn) :: l' =>
      Bool.eqb (token (lk s i)) tk && Bool.eqb (cntr (lk s i)) cn && lks_ok s (S i) l'
  end.

Definition snap_ok (nt : nat) (s : state) (lks : list (bool * bool)) (recp : bool) (bl : list nat) : bool :=
  lks_ok s 0 lks
  && Bool.eqb (match rec s with Some _ => true | None => false end) recp
  && list_nat_eqb (filter (blockedb s) (seq 0 nt)) bl.

(** the summary of a free-running stress run is in order: never two goroutines inside the
    critical section, every acquisition released.  This is a predicate over what the harness
    counted, not a replay on the model: the stream explores schedules the gate cannot produce
    (real parallelism inside the storage), it supports the correspondence and is not part of
    any theorem. *)
Definition free_ok (acq rel maxin : N) : bool := N.leb maxin 1 && N.eqb acq rel.

(** result: final state, or the index of the first event the model rejects *)
Fixpoint replay (nt : nat) (s : state) (evs : list ev) (i : nat) : state + nat :=
  match evs with
  | [] => inl s
  | E l :: r => match step s l with Some s' => replay nt s' r (S i) | None => inr i end
  | Snap lks recp bl :: r => if snap_ok nt s lks recp bl then replay nt s r (S i) else inr i
  | Free a rl m :: r => if free_ok a rl m then replay nt s r (S i) else inr i
  | FreeShort a rl :: r => if N.eqb a rl then replay nt s r (S i) else inr i
  end.

Definition pc_idle (p : pc) : bool := match p with Idle => true | _ => false end.

Definition all_idle (nt : nat) (s : state) : bool :=
  forallb (fun t => pc_idle (pc_of s t)) (seq 0 nt).

Definition none_held (nl : nat) (s : state) : bool :=
  forallb (fun L => negb (is_held (lk s L))) (seq 0 nl).

(** at most one Locker held in every state of the replay (the model side of C01, evaluated) *)
Fixpoint max_holders (nl : nat) (s : state) (evs : list ev) (m : nat) : nat :=
  let m' := Nat.max m (holders_in s (seq 0 nl)) in
  match evs with
  | [] => m'
  | E l :: r => match step s l with Some s' => max_holders nl s' r m' | None => m' end
  | Snap _ _ _ :: r => max_holders nl s r m'
  | Free _ _ _ :: r => max_holders nl s r m'
  | FreeShort _ _ :: r => max_holders nl s r m'
  end.

Definition check_trace (c : case) : bool :=
  match replay (c_nt c) (init (lprov_of c)) (c_evs c) 0 with
  | inl s => if c_complete c then all_idle (c_nt c) s else true
  | inr _ => false
  end.

(** for replay output: index of the rejected event (or the length when only the final
    condition fails), the event itself, and the largest number of holders the model saw *)
Definition explain_trace (c : case) : option (nat * option ev) * nat :=
  (match replay (c_nt c) (init (lprov_of c)) (c_evs c) 0 with
   | inl s => if c_complete c && negb (all_idle (c_nt c) s) then Some (length (c_evs c), None) else None
   | inr i => Some (i, nth_error (c_evs c) i)
   end,
   max_holders (length (c_prov c)) (init (lprov_of c)) (c_evs c) 0).
