(** Correspondence run for C17: evaluates the allocator model (model/Blocks.v)
    and the set specification (spec/AllocSet.v) on the operation sequences the
    Go implementation ran, and compares
    - the result of NewBlocks (segments, count, available / ErrInvalid / panic),
    - every call result (index, error class, window offset and length, counters),
    - Available() after every call,
    - Available() of a second allocator opened on the same bytes after every
      call, and - where the harness recovered it - the set of allocated indices
      of an allocator opened on a copy of the bytes (recovered through FreeBlock);
      both against the model's NewBlocks on the model's bytes at that point:
      after a Grow of the storage under the live allocator ([OGrow]) the second
      allocator sees more segments than the live one (or fails under fit),
    - at the end the content of the blocks the user wrote (first byte, last
      byte, sum of all bytes), read back through Block().
    Concurrent cases carry what 8 goroutines ended up holding; the check is the
    set bookkeeping a sequential history must satisfy. *)
From Coq Require Import List ZArith NArith Bool.
From GL Require Import model.Blocks spec.AllocSet.
Import ListNotations.
Open Scope Z_scope.

Definition err_eqb (a b : err) : bool :=
  match a, b with
  | EInvalid, EInvalid | ENotExist, ENotExist | EExhausted, EExhausted
  | EClosed, EClosed | EOther, EOther => true
  | _, _ => false
  end.

Definition out_eqb (a b : out) : bool :=
  match a, b with
  | OutOk, OutOk | OutPanic, OutPanic | OutOfFuel, OutOfFuel => true
  | OutIdx x, OutIdx y => x =? y
  | OutErr x, OutErr y => err_eqb x y
  | OutN x, OutN y => x =? y
  | OutSlice o l, OutSlice o' l' => (o =? o') && (l =? l')
  | _, _ => false
  end.

Fixpoint zlist_eqb (a b : list Z) : bool :=
  match a, b with
  | [], [] => true
  | x :: s, y :: t => (x =? y) && zlist_eqb s t
  | _, _ => false
  end.

(* what NewBlocks did *)
Inductive ctor_obs := COk (segs count avail : Z) | CErr (e : err) | CPanic.

(* one observed call *)
Record ostep := mkStep {
  s_op : op;
  s_out : out;                  (* what the call returned *)
  s_avail : Z;                  (* Available() afterwards *)
  s_ravail : Z;                 (* Available() of a second allocator opened on the same bytes; -1 = NewBlocks failed *)
  s_rset : option (list (Z * Z)) (* allocated indices recovered from an allocator opened on a copy of the bytes,
                                    as ascending maximal ranges (first, last) *)
}.

(* a block read back at the end through Block(idx) *)
Record fread := mkRead { f_idx : Z; f_first : N; f_last : N; f_sum : N (* sum of all bytes of the block *) }.

Record seqcase := mkSeq {
  q_page : Z; q_bs : Z; q_size : Z; q_fit : bool;
  q_init : list (Z * Z * N);    (* initial content: runs (offset, length, byte) over a zero storage *)
  q_ctor : ctor_obs;
  q_steps : list ostep;
  q_final : list fread
}.

Record conccase := mkConc {
  k_page : Z; k_bs : Z; k_size : Z; k_fit : bool;
  k_count : Z;                  (* Count() *)
  k_held : list (list Z);       (* per goroutine: indices it holds at the end *)
  k_arranged : Z; k_freed : Z;  (* successful ArrangeBlock / FreeBlock calls in total *)
  k_avail : Z;                  (* Available() at the end *)
  k_ravail : Z; k_rset : list (Z * Z); (* reopened on the final bytes (ranges) *)
  k_viol : list N               (* what the goroutines saw go wrong while running (must be empty):
                                   1 index handed out while still held, 2 content of a held block changed,
                                   3 FreeBlock of a held block failed, 4 index out of range, 5 unexpected error,
                                   6 ErrExhausted although goroutines*hold < Count(), 7 panic,
                                   8 Block() of an arranged index failed, 9 recovering the set / reopening failed *)
}.

(* short alias used by the generated case files *)
Definition st := mkStep.

Inductive case := CSeq (id : N) (c : seqcase) | CConc (id : N) (c : conccase).

Definition case_id (c : case) : N := match c with CSeq i _ => i | CConc i _ => i end.

Definition init_buffer (size : Z) (runs : list (Z * Z * N)) : buffer :=
  fold_left (fun b r => let '(o, l, v) := r in fill (Z.to_nat l) b o v) runs (zero_buffer size).

(* the allocated indices read off the header bytes, ascending: the same list as
   [alloc_list], computed header byte by header byte (cheap on large geometries) *)
Fixpoint bits_of (n : nat) (j : N) (v : N) (base : Z) : list Z :=
  match n with
  | O => []
  | S n' => (if bit_is_clear v j then [] else [base + Z.of_N j]) ++ bits_of n' (j + 1)%N v base
  end.

Fixpoint hdr_scan (n : nat) (buf : buffer) (addr idx0 : Z) : list Z :=
  match n with
  | O => []
  | S n' =>
      let v := bget buf addr in
      (if (v =? 0)%N then [] else bits_of 8 0 v idx0) ++ hdr_scan n' buf (addr + 1) (idx0 + 8)
  end.

Fixpoint seg_scan (n : nat) (buf : buffer) (bs : Z) (s : Z) : list Z :=
  match n with
  | O => []
  | S n' => hdr_scan (Z.to_nat bs) buf (s * ((8 * bs + 1) * bs)) (s * (8 * bs)) ++ seg_scan n' buf bs (s + 1)
  end.

Definition alloc_scan (b : blocks) : list Z :=
  seg_scan (Z.to_nat (segments b)) (bts b) (blkSize b) 0.

(* the marks behind the live segments, inside the storage ([hidden_list]), header byte by header byte *)
Fixpoint hid_scan (n : nat) (buf : buffer) (bs : Z) (s : Z) : list Z :=
  match n with
  | O => []
  | S n' =>
      let a := s * ((8 * bs + 1) * bs) in
      hdr_scan (Z.to_nat (Z.min bs (bsize buf - a))) buf a (s * (8 * bs)) ++ hid_scan n' buf bs (s + 1)
  end.

Definition hidden_scan (b : blocks) : list Z :=
  let bs := blkSize b in
  hid_scan (Z.to_nat (bsize (bts b) / ((8 * bs + 1) * bs) + 1 - segments b)) (bts b) bs (segments b).

Definition spec_of (b : blocks) : aspec :=
  mkSpec (blkSize b) (segments b) (alloc_scan b) (bsize (bts b)) (hidden_scan b).

(* does the allocator cover its storage (no room behind the live segments that a reopen would use)? *)
Definition covers (fit : bool) (b : blocks) : bool :=
  let ss := (8 * blkSize b + 1) * blkSize b in
  (segments b =? bsize (bts b) / ss) && (negb fit || (bsize (bts b) mod ss =? 0)).

(* what a second NewBlocks on the model's bytes gives *)
Definition view (page : Z) (fit : bool) (b : blocks) : option blocks :=
  if covers fit b then Some b
  else match new_blocks page (blkSize b) (bts b) fit with CtorOk b2 => Some b2 | _ => None end.

(* Available() of the second allocator minus Available() of the live one; None = NewBlocks fails.
   Constant between two operations that change size or segments (Grow, reopen). *)
Definition view_delta (page : Z) (fit : bool) (b : blocks) : option Z :=
  match view page fit b with Some b2 => Some (available b2 - available b) | None => None end.

Definition changes_view (o : op) : bool :=
  match o with OGrow _ | OReopen => true | _ => false end.

(* an ascending list as maximal ranges (first, last) *)
Fixpoint ranges_of (l : list Z) : list (Z * Z) :=
  match l with
  | [] => []
  | x :: t =>
      match ranges_of t with
      | (lo, hi) :: r => if lo =? x + 1 then (x, hi) :: r else (x, x) :: (lo, hi) :: r
      | [] => [(x, x)]
      end
  end.

Fixpoint ranges_eqb (a b : list (Z * Z)) : bool :=
  match a, b with
  | [], [] => true
  | (x, y) :: s, (x', y') :: t => (x =? x') && (y =? y') && ranges_eqb s t
  | _, _ => false
  end.

(* does the recovered set agree with the headers of the model's bytes? *)
Definition rset_matches (b : blocks) (r : list (Z * Z)) : bool :=
  ranges_eqb r (ranges_of (if blocks_count b <=? 600 then alloc_list b else alloc_scan b)).

Fixpoint check_steps (page : Z) (fit : bool) (b : blocks) (sp : aspec) (d : option Z) (l : list ostep)
  : bool * blocks :=
  match l with
  | [] => (true, b)
  | s :: t =>
      let '(b', mo) := step page fit b (s_op s) in
      let '(sp', so) := sp_step fit sp (s_op s) in
      let d' := if changes_view (s_op s) then view_delta page fit b' else d in
      if out_eqb mo (s_out s) && out_eqb so (s_out s)
         && (available b' =? s_avail s)
         && (s_ravail s =? match d' with Some x => available b' + x | None => -1 end)
         && match s_rset s with
            | None => true
            | Some r =>
                (* the set was recovered from an allocator opened on a copy of the bytes *)
                match sp_reopen fit sp', view page fit b' with
                | (spr, OutOk), Some b2 => ranges_eqb r (ranges_of (sp_alloc spr)) && rset_matches b2 r
                | _, _ => false
                end
            end
      then check_steps page fit b' sp' d' t
      else (false, b')
  end.

Fixpoint sum_bytes (n : nat) (buf : buffer) (off : Z) (acc : N) : N :=
  match n with
  | O => acc
  | S n' => sum_bytes n' buf (off + 1) (acc + bget buf off)%N
  end.

Definition check_read (b : blocks) (r : fread) : bool :=
  let o := block_off b (f_idx r) in
  (0 <=? f_idx r) && (f_idx r <? blocks_count b)
  && (bget (bts b) o =? f_first r)%N
  && (bget (bts b) (o + blkSize b - 1) =? f_last r)%N
  && (sum_bytes (Z.to_nat (blkSize b)) (bts b) o 0 =? f_sum r)%N.

Definition check_seq (c : seqcase) : bool :=
  match new_blocks (q_page c) (q_bs c) (init_buffer (q_size c) (q_init c)) (q_fit c), q_ctor c with
  | CtorOk b, COk segs cnt av =>
      (segments b =? segs) && (blocks_count b =? cnt) && (available b =? av)
      && (if blocks_count b <=? 600 then zlist_eqb (alloc_scan b) (alloc_list b) else true)
      && (let '(ok, bf) := check_steps (q_page c) (q_fit c) b (spec_of b)
                             (view_delta (q_page c) (q_fit c) b) (q_steps c) in
          ok && forallb (check_read bf) (q_final c))
  | CtorErr e, CErr e' => err_eqb e e' && match q_steps c with [] => true | _ => false end
  | CtorPanic, CPanic => match q_steps c with [] => true | _ => false end
  | _, _ => false
  end.

Definition check_conc (c : conccase) : bool :=
  match new_blocks (k_page c) (k_bs c) (zero_buffer (k_size c)) (k_fit c) with
  | CtorOk b =>
      let all := concat (k_held c) in
      let set := fold_left (fun acc i => as_add i acc) all [] in
      (blocks_count b =? k_count c)
      && match k_viol c with [] => true | _ => false end
      && (Nat.eqb (length set) (length all))                         (* nobody holds an index twice / no two holders *)
      && forallb (fun i => (0 <=? i) && (i <? k_count c)) all
      && (k_arranged c - k_freed c =? Z.of_nat (length all))
      && (k_avail c =? k_count c - Z.of_nat (length all))
      && (k_ravail c =? k_avail c)
      && ranges_eqb (k_rset c) (ranges_of set)
  | _ => false
  end.

Definition check_case (c : case) : bool :=
  match c with
  | CSeq _ q => check_seq q
  | CConc _ k => check_conc k
  end.

Definition mismatches (cs : list case) : list N :=
  map case_id (filter (fun c => negb (check_case c)) cs).

(* for replay: the result of the constructor, and per call: the operation, what the
   implementation returned, what model and spec say, and the model's Available *)
Definition explain (c : case) : option (Z * Z * Z) * list (op * out * out * out * Z) :=
  match c with
  | CSeq _ q =>
      match new_blocks (q_page q) (q_bs q) (init_buffer (q_size q) (q_init q)) (q_fit q) with
      | CtorOk b =>
          let ops := map s_op (q_steps q) in
          let fix go (b : blocks) (sp : aspec) (l : list ostep) :=
            match l with
            | [] => []
            | s :: t =>
                let '(b', mo) := step (q_page q) (q_fit q) b (s_op s) in
                let '(sp', so) := sp_step (q_fit q) sp (s_op s) in
                (s_op s, s_out s, mo, so, available b') :: go b' sp' t
            end in
          (Some (segments b, blocks_count b, available b),
           go b (spec_of b) (q_steps q))
      | _ => (None, [])
      end
  | CConc _ _ => (None, [])
  end.
