(** Correspondence run for C07: trace validation of scripted runs of the real
    WaitForVersionChange against the waiter LTS (model/WaitLTS.v).

    A script step is one call made by the harness (start a waiter, cancel a
    waiter's context, one storage method, let time pass).  After every step the
    harness waits until the waiter goroutines are quiescent (finished or blocked
    in select, twice in a row) and records
      - which calls returned what during the step,
      - which calls are blocked in select,
      - the waiter table (verif hook): key -> (channel identity, count),
      - the raw record map (verif hook): key -> version.
    Here the step is applied to the LTS ([step], labels Start/CtxDone/Mut/Tick),
    then the internal labels (LCheck, Wake*, CancelSec, ExpirySec) are fired
    until none is enabled, and the resulting state must agree with all four
    observations: returned(impl) = newly Done(model), parked(impl) = the threads
    that cannot move(model), table(impl) = table(model), records(impl) =
    records(model).  Version strings and channel identities of the
    implementation are tags; they are matched to the model's ids by a bijection
    built along the trace (first occurrence binds).  The whole run is
    [run_case c = Some _]: the observed trace is accepted by the LTS. *)
From Coq Require Import List ZArith NArith Bool Arith.
From GL Require Import model.WaitLTS.
Import ListNotations.

(** * bijections between implementation tags and model ids *)
Definition bij := list (N * N).

Definition tr (b : bij) (x : N) : option N :=
  option_map snd (find (fun p => N.eqb (fst p) x) b).

Definition bind (b : bij) (x y : N) : option bij :=
  match find (fun p => N.eqb (fst p) x) b with
  | Some (_, y') => if N.eqb y' y then Some b else None
  | None =>
      match find (fun p => N.eqb (snd p) y) b with
      | Some _ => None
      | None => Some ((x, y) :: b)
      end
  end.

(** * observed script steps *)
Inductive sop :=
| SStart (k : key) (vtag : N) (precancelled : bool)  (* thread id = number of waiters started before *)
| SCancel (t : tid)
| SMut (o : mop) (out : mout)    (* versions inside are implementation tags *)
| STick (dt : Z).

Record obs := mkObs {
  o_ret : list (tid * res);
  o_parked : list tid;
  o_tbl : list (key * (N * Z));
  o_store : list (key * N) }.

(** a script step: one action followed by a quiescence wait, or a *burst*: several
    actions issued back-to-back (ordered = true: by one goroutine, each call
    returned before the next was made; ordered = false: by one goroutine each,
    released together) without waiting in between, then one quiescence wait *)
Inductive sstep :=
| mkStep (o : sop) (ob : obs)
| mkBurst (ordered : bool) (acts : list sop) (ob : obs).

Definition s_obs (x : sstep) : obs :=
  match x with mkStep _ ob | mkBurst _ _ ob => ob end.

(** the polling waiter (Redis): the script is the same kind of thing, but the
    only observation is who returned what, and it is checked one-sidedly *)
Inductive pop :=
| QStart (k : key) (vtag : N)
| QCancel (t : tid)
| QWrite (k : key) (vtag : N)      (* any successful write of key k; the stored version's tag *)
| QDelete (k : key).
Record qstep := mkQStep { p_op : pop; p_ret : list (tid * res) }.

(** free-running stress: one record per call of WaitForVersionChange: the version
    it was given, the states (Some version / None = absent) its key may have had
    between invocation and return according to the writers' history, whether its
    context was cancelled before it returned, and what it returned *)
Record srec := mkSRec { sr_v : N; sr_cands : list (option N); sr_cancelled : bool; sr_res : res }.

(** tight free-running race rounds (in-memory): a few calls start while a writer
    writes its key once or twice; no context is cancelled and no record has an
    expiry before the snapshot.  One record per sampled round, taken through the
    hook after the writer's last call returned:
      rr_cur     the raw record of the key (version tag) or None,
      rr_count   the count of the key's waiter-table entry (0 = no entry),
      rr_pending the version tags given to the calls that had not returned,
      rr_rets    the calls that returned (with the states the key had during the round) *)
Record rround := mkRR { rr_cur : option N; rr_count : Z; rr_pending : list N; rr_rets : list srec }.

Inductive case :=
| CaseMem (id : N) (keys : list key) (steps : list sstep)
| CasePoll (id : N) (steps : list qstep) (still_waiting : list tid)
| CaseStress (id : N) (recs : list srec)
| CaseRace (id : N) (rounds : list rround).

Definition c_id (c : case) : N :=
  match c with CaseMem id _ _ => id | CasePoll id _ _ => id | CaseStress id _ => id | CaseRace id _ => id end.

(** * the in-memory check *)
Definition res_eqb (a b : res) : bool :=
  match a, b with RNil, RNil | RNotExist, RNotExist | RCtx, RCtx => true | _, _ => false end.

Fixpoint first_enabled (s : st) (ts : list tid) : option label :=
  match ts with
  | [] => None
  | t :: tl => match enabled_of s t with l :: _ => Some l | [] => first_enabled s tl end
  end.

(** fire internal labels until none is enabled; None = out of fuel (livelock) *)
Fixpoint saturate (fuel : nat) (s : st) (acc : list label) : option (st * list label) :=
  match first_enabled s (seq 0 (length (thr s))) with
  | None => Some (s, rev acc)
  | Some l =>
      match fuel with
      | O => None
      | S f => match step s l with Some s' => saturate f s' (l :: acc) | None => None end
      end
  end.

Fixpoint done_list (l : list thread) (i : tid) : list (tid * res) :=
  match l with
  | [] => []
  | th :: tl => match t_pc th with
                | PDone r => (i, r) :: done_list tl (S i)
                | _ => done_list tl (S i)
                end
  end.

Fixpoint parked_list (l : list thread) (i : tid) : list tid :=
  match l with
  | [] => []
  | th :: tl => match t_pc th with
                | PParked _ _ _ _ => i :: parked_list tl (S i)
                | _ => parked_list tl (S i)
                end
  end.

Definition newly_done (before after : st) : list (tid * res) :=
  filter (fun p => negb (existsb (fun q => Nat.eqb (fst q) (fst p)) (done_list (thr before) 0)))
         (done_list (thr after) 0).

Fixpoint ret_eqb (a b : list (tid * res)) : bool :=
  match a, b with
  | [], [] => true
  | (t, r) :: a', (t', r') :: b' => Nat.eqb t t' && res_eqb r r' && ret_eqb a' b'
  | _, _ => false
  end.

Fixpoint nats_eqb (a b : list nat) : bool :=
  match a, b with
  | [], [] => true
  | x :: a', y :: b' => Nat.eqb x y && nats_eqb a' b'
  | _, _ => false
  end.

Definition assoc {A} (k : nat) (l : list (nat * A)) : option A :=
  option_map snd (find (fun p => Nat.eqb (fst p) k) l).

Definition mem (k : nat) (l : list nat) : bool := existsb (Nat.eqb k) l.

(** table(impl) = table(model) on the script's keys, channels through the bijection *)
Fixpoint tbl_match (s : st) (cb : bij) (keys : list key) (o : list (key * (N * Z))) : option bij :=
  match keys with
  | [] => Some cb
  | k :: tl =>
      match tbl s k, assoc k o with
      | None, None => tbl_match s cb tl o
      | Some (c, n), Some (tag, n') =>
          if Z.eqb n n' then
            match bind cb tag (N.of_nat c) with
            | Some cb' => tbl_match s cb' tl o
            | None => None
            end
          else None
      | _, _ => None
      end
  end.

(** records(impl) = records(model) on the script's keys, versions through the bijection *)
Fixpoint store_match (s : st) (vb : bij) (keys : list key) (o : list (key * N)) : option bij :=
  match keys with
  | [] => Some vb
  | k :: tl =>
      match store s k, assoc k o with
      | None, None => store_match s vb tl o
      | Some r, Some tag =>
          match bind vb tag (r_ver r) with
          | Some vb' => store_match s vb' tl o
          | None => None
          end
      | _, _ => None
      end
  end.

Definition tr_mop (vb : bij) (o : mop) : option mop :=
  match o with
  | OCas k vtag e => option_map (fun v => OCas k v e) (tr vb vtag)
  | _ => Some o
  end.

Fixpoint vers_match (vb : bij) (m o : list (option N)) : option bij :=
  match m, o with
  | [], [] => Some vb
  | None :: m', None :: o' => vers_match vb m' o'
  | Some v :: m', Some tag :: o' =>
      match bind vb tag v with Some vb' => vers_match vb' m' o' | None => None end
  | _, _ => None
  end.

(** result of a storage method: model vs observed *)
Definition out_match (vb : bij) (m o : mout) : option bij :=
  match m, o with
  | MOk v, MOk tag => bind vb tag v
  | MExist v, MExist tag => bind vb tag v
  | MNotExist, MNotExist | MConflict, MConflict | MDone, MDone => Some vb
  | MVers a, MVers b => vers_match vb a b
  | MKeys a, MKeys b =>
      if Nat.eqb (length a) (length b) && forallb (fun k => mem k b) a && forallb (fun k => mem k a) b
      then Some vb else None
  | _, _ => None
  end.

Definition apply_sop (s : st) (vb : bij) (o : sop) : option (st * bij * list label) :=
  match o with
  | SStart k vtag pre =>
      match tr vb vtag with
      | None => None
      | Some v =>
          let t := length (thr s) in
          match step s (Start t k v) with
          | None => None
          | Some s1 =>
              if pre then
                match step s1 (CtxDone t) with
                | Some s2 => Some (s2, vb, [Start t k v; CtxDone t])
                | None => None
                end
              else Some (s1, vb, [Start t k v])
          end
      end
  | SCancel t =>
      match step s (CtxDone t) with Some s1 => Some (s1, vb, [CtxDone t]) | None => None end
  | SMut o out =>
      match tr_mop vb o with
      | None => None
      | Some o' =>
          match step s (Mut o'), out_match vb (snd (mut_step s o')) out with
          | Some s1, Some vb' => Some (s1, vb', [Mut o'])
          | _, _ => None
          end
      end
  | STick dt =>
      match step s (Tick dt) with Some s1 => Some (s1, vb, [Tick dt]) | None => None end
  end.

Definition sat_fuel : nat := 300.

Record vstate := mkV { v_st : st; v_vb : bij; v_cb : bij; v_trace : list label }.

(** unknown version: tag 0 <-> model version 0 (never produced: nextver starts at 1) *)
Definition vinit : vstate := mkV init [(0%N, 0%N)] [] [].

(** the quiescent model state [s2] reached from [s] agrees with the observation *)
Definition obs_match (keys : list key) (s s2 : st) (vb1 cb : bij) (o : obs) : option (bij * bij) :=
  if ret_eqb (newly_done s s2) (o_ret o)
     && nats_eqb (parked_list (thr s2) 0) (o_parked o)
     && forallb (fun p => mem (fst p) keys) (o_tbl o)
     && forallb (fun p => mem (fst p) keys) (o_store o)
     && negb (dblclose s2)
  then
    match tbl_match s2 cb keys (o_tbl o) with
    | None => None
    | Some cb' =>
        match store_match s2 vb1 keys (o_store o) with
        | None => None
        | Some vb' => Some (vb', cb')
        end
    end
  else None.

(** ** bursts: search for an interleaving that explains the observation

    Between the quiescent point before a burst and the one after it the
    implementation performed the burst's actions and any number of steps of the
    calls, interleaved by the scheduler.  The validator does not predict the
    interleaving: it searches ALL of them (depth first) and accepts iff one ends
    in a quiescent model state that agrees with the observation.

    Nodes of the search: (model state, version bijection, actions not yet applied).
    Moves: - an action that is not yet applied ([ordered]: only the first one;
             otherwise any of them, starts of calls in their issue order because
             the call ids are assigned at issue time), through [apply_sop], i.e.
             with its observed result checked;
           - for every call, every label of [enabled_of], a wake-up label fused
             with the locked section that follows it ([WakeChan t; LCheck t],
             [WakeCtx t; CancelSec t], [WakeExpiry t; ExpirySec t]).  Fusing loses
             nothing: a wake-up label changes nothing but the pc of its own call,
             no label of anybody else reads that pc, and what enables a wake-up (a
             closed channel, a done context, a due timer) stays true, so in any
             trace it can be moved right up to the next label of its call, which
             exists in a run that ends in a quiescent state.
    A branch is cut as soon as a call has returned something the observation does
    not contain (results are final).  [fuel] bounds the depth only (every branch
    of a burst of n actions with m calls is shorter than 2 + n + 2 * m * (n + 2)).
    The fused search is only the fast path: before a burst is rejected the search
    is repeated with [mac = single], every label on its own ([explain_burst_gen] in [check_step]). *)
Fixpoint first_some {A B} (f : A -> option B) (l : list A) : option B :=
  match l with
  | [] => None
  | x :: tl => match f x with Some y => Some y | None => first_some f tl end
  end.

Definition all_enabled (s : st) : list label := flat_map (enabled_of s) (seq 0 (length (thr s))).

Definition macro_of (l : label) : list label :=
  match l with
  | WakeChan t => [WakeChan t; LCheck t]
  | WakeCtx t => [WakeCtx t; CancelSec t]
  | WakeExpiry t => [WakeExpiry t; ExpirySec t]
  | _ => [l]
  end.

Definition is_start (o : sop) : bool := match o with SStart _ _ _ => true | _ => false end.

(** unordered burst: any pending action may be next, except a start behind another pending start *)
Fixpoint picks_u (seen : bool) (pre : list sop) (l : list sop) : list (sop * list sop) :=
  match l with
  | [] => []
  | x :: tl =>
      (if is_start x && seen then [] else [(x, rev_append pre tl)])
      ++ picks_u (seen || is_start x) (x :: pre) tl
  end.

Definition picks (ordered : bool) (l : list sop) : list (sop * list sop) :=
  if ordered then match l with [] => [] | x :: tl => [(x, tl)] end else picks_u false [] l.

Definition ret_mem (p : tid * res) (l : list (tid * res)) : bool :=
  existsb (fun q => Nat.eqb (fst q) (fst p) && res_eqb (snd q) (snd p)) l.

Definition rets_possible (s0 s : st) (o : obs) : bool :=
  forallb (fun p => ret_mem p (o_ret o)) (newly_done s0 s).

Fixpoint search {X} (fuel : nat) (mac : label -> list label) (ordered : bool) (alive : st -> bool)
    (accept : st -> bij -> option X)
    (s : st) (vb : bij) (pend : list sop) (acc : list label) : option (st * X * list label) :=
  match fuel with
  | O => None
  | S f =>
      if alive s then
        let en := all_enabled s in
        match pend, en with
        | [], [] => match accept s vb with Some x => Some (s, x, rev acc) | None => None end
        | _, _ =>
            match first_some (fun p =>
                     match apply_sop s vb (fst p) with
                     | Some (s1, vb1, ls1) => search f mac ordered alive accept s1 vb1 (snd p) (rev_append ls1 acc)
                     | None => None
                     end) (picks ordered pend) with
            | Some r => Some r
            | None =>
                first_some (fun l =>
                     let m := mac l in
                     match run s m with
                     | Some s1 => search f mac ordered alive accept s1 vb pend (rev_append m acc)
                     | None => None
                     end) en
            end
        end
      else None
  end.

Definition burst_fuel : nat := 200.
Definition single (l : label) : list label := [l].

(** first with fused wake-ups (few interleavings); if that finds nothing, once more label
    by label, where at every node EVERY pending action and EVERY enabled label of EVERY
    call is tried: a burst is rejected only if no interleaving at all explains it *)
Definition explain_burst_gen {X} (f1 f2 : nat) (ordered : bool) (alive : st -> bool)
    (accept : st -> bij -> option X) (s : st) (vb : bij) (acts : list sop) : option (st * X * list label) :=
  match search f1 macro_of ordered alive accept s vb acts [] with
  | Some r => Some r
  | None => search f2 single ordered alive accept s vb acts []
  end.


Definition check_step_gen (f1 f2 : nat) (keys : list key) (v : vstate) (x : sstep) : option vstate :=
  let s := v_st v in
  match x with
  | mkStep op o =>
      match apply_sop s (v_vb v) op with
      | None => None
      | Some (s1, vb1, ls1) =>
          match saturate sat_fuel s1 [] with
          | None => None
          | Some (s2, ls2) =>
              match obs_match keys s s2 vb1 (v_cb v) o with
              | Some (vb', cb') => Some (mkV s2 vb' cb' (v_trace v ++ ls1 ++ ls2))
              | None => None
              end
          end
      end
  | mkBurst ordered acts o =>
      match explain_burst_gen f1 f2 ordered (fun s2 => rets_possible s s2 o)
                              (fun s2 vb1 => obs_match keys s s2 vb1 (v_cb v) o) s (v_vb v) acts with
      | Some (s2, (vb', cb'), ls) => Some (mkV s2 vb' cb' (v_trace v ++ ls))
      | None => None
      end
  end.

Definition check_step := check_step_gen burst_fuel (2 * burst_fuel).

Fixpoint check_steps (keys : list key) (v : vstate) (l : list sstep) : option vstate :=
  match l with
  | [] => Some v
  | x :: tl => match check_step keys v x with Some v' => check_steps keys v' tl | None => None end
  end.

(** no waiter left => nothing left in the table (on the keys of the script) *)
Definition final_ok (keys : list key) (s : st) : bool :=
  match parked_list (thr s) 0 with
  | [] => forallb (fun k => match tbl s k with None => true | Some _ => false end) keys
  | _ => true
  end.

Definition run_mem (keys : list key) (steps : list sstep) : option vstate :=
  match check_steps keys vinit steps with
  | Some v =>
      (* the trace built along the way is accepted by the LTS from [init] *)
      match run init (v_trace v) with
      | Some _ => if final_ok keys (v_st v) then Some v else None
      | None => None
      end
  | None => None
  end.

(** * the polling check (Redis): soundness of every return, one-sided

    The harness settles after every step, but a poll may be late, so a return
    observed after step j is accepted iff a poll at the state after some step
    i in [start of the call, j] yields it ([RCtx]: the cancel came before).
    The set of candidate states is kept per waiter as "results possible so far". *)
Import Poll.

Record pw := mkPW { w_k : key; w_v : N; w_cancelled : bool; w_poss : list res; w_done : bool }.

(** what one poll of (k, v) at server state [s] returns, by the LTS itself: a
    probe thread at the loop head takes [PPoll]; None = it goes to sleep *)
Definition poll_outcome (s : pst) (k : key) (v : N) : option res :=
  match pstep (mkPSt (srv s) (pnow s) [mkPThr (QPoll k v 2%Z) false]) (PPoll 0) with
  | Some s' => match ppc_of s' 0 with Some (QDone r) => Some r | _ => None end
  | None => None
  end.

(** after a change of the server state, every open waiter may poll it *)
Definition refresh (s : pst) (ws : list pw) : list pw :=
  map (fun w =>
         if w_done w then w else
         match poll_outcome s (w_k w) (w_v w) with
         | Some r => mkPW (w_k w) (w_v w) (w_cancelled w) (r :: w_poss w) false
         | None => w
         end) ws.

Definition res_mem (r : res) (l : list res) : bool := existsb (res_eqb r) l.

Fixpoint mark_done (ws : list pw) (rets : list (tid * res)) : option (list pw) :=
  match rets with
  | [] => Some ws
  | (t, r) :: tl =>
      match nth_error ws t with
      | Some w =>
          if negb (w_done w) && (res_mem r (w_poss w) || (res_eqb r RCtx && w_cancelled w))
          then mark_done (upd_nth ws t (mkPW (w_k w) (w_v w) (w_cancelled w) (w_poss w) true)) tl
          else None
      | None => None
      end
  end.

Definition apply_pop (s : pst) (vb : bij) (ws : list pw) (o : pop) : option (pst * bij * list pw) :=
  match o with
  | QStart k vtag =>
      match tr vb vtag with
      | Some v => Some (s, vb, ws ++ [mkPW k v false [] false])
      | None => None
      end
  | QCancel t =>
      match nth_error ws t with
      | Some w => Some (s, vb, upd_nth ws t (mkPW (w_k w) (w_v w) true (w_poss w) (w_done w)))
      | None => None
      end
  | QWrite k vtag =>
      (* a successful write installs a version never seen before *)
      match tr vb vtag with
      | Some _ => None
      | None =>
          let v := N.succ (fold_right N.max 0%N (map snd vb)) in
          match bind vb vtag v, pstep s (PSrv k (Some (mkRcd v None))) with
          | Some vb', Some s' => Some (s', vb', ws)
          | _, _ => None
          end
      end
  | QDelete k =>
      match pstep s (PSrv k None) with Some s' => Some (s', vb, ws) | None => None end
  end.

Fixpoint check_psteps (s : pst) (vb : bij) (ws : list pw) (l : list qstep) : option (list pw) :=
  match l with
  | [] => Some ws
  | x :: tl =>
      match apply_pop s vb ws (p_op x) with
      | None => None
      | Some (s1, vb1, ws1) =>
          let ws2 := refresh s1 ws1 in
          match mark_done ws2 (p_ret x) with
          | Some ws3 => check_psteps s1 vb1 ws3 tl
          | None => None
          end
      end
  end.

(** waiters that have not returned at the end (after the settle time, before
    the final cancel-all) must be ones that had no reason to return *)
Definition run_poll (steps : list qstep) (waiting : list tid) : option (list pw) :=
  match check_psteps pinit [(0%N, 0%N)] [] steps with
  | Some ws =>
      if forallb (fun t => match nth_error ws t with
                           | Some w => negb (w_done w) && match w_poss w with [] => true | _ => false end
                           | None => false
                           end) waiting
      then Some ws else None
  | None => None
  end.

(** * stress: the result of every call is one the property allows *)
Definition srec_ok (x : srec) : bool :=
  match sr_res x with
  | RNil => existsb (fun c => match c with Some v' => negb (N.eqb v' (sr_v x)) | None => false end) (sr_cands x)
  | RNotExist => existsb (fun c => match c with None => true | Some _ => false end) (sr_cands x)
  | RCtx => sr_cancelled x
  end.

(** * race rounds: the state behind [C07_wait_no_lost_wakeup], read through the hook

    In every reachable state an entry (c, n) of the waiter table has n >= 1 calls
    registered on it, and each of them is parked for the version of the record
    that is stored under the key now, or has a done context, or had a timer
    (theorem [C07_entry_waiters_current]).  In a race round nothing is cancelled
    and nothing expires before the snapshot, so: the count is at most the number
    of calls that have not returned and were given the current version, and there
    is no entry at all when the record is absent.  A count above that is a call
    that registered (and parks) for a version that is no longer current: it
    missed the write. *)
Definition rround_ok (r : rround) : bool :=
  forallb srec_ok (rr_rets r) &&
  match rr_cur r with
  | Some cur =>
      Z.leb 0 (rr_count r) &&
      Z.leb (rr_count r) (Z.of_nat (length (filter (N.eqb cur) (rr_pending r))))
  | None => Z.eqb (rr_count r) 0
  end.

(** * the check *)
Definition check_case (c : case) : bool :=
  match c with
  | CaseStress _ recs => forallb srec_ok recs
  | CaseRace _ rounds => forallb rround_ok rounds
  | CaseMem _ keys steps => match run_mem keys steps with Some _ => true | None => false end
  | CasePoll _ steps waiting => match run_poll steps waiting with Some _ => true | None => false end
  end.

Definition mismatches (cs : list case) : list N :=
  map c_id (filter (fun c => negb (check_case c)) cs).

(** * replay: what the model says *)
Record view := mkView {
  vw_ok : bool;                         (* this step agreed with the observation *)
  vw_labels : list label;               (* labels the model fired for this step *)
  vw_ret : list (tid * res);
  vw_parked : list tid;
  vw_tbl : list (key * option (chan * Z));
  vw_store : list (key * option N);
  vw_observed : option obs }.          (* at the step that disagrees: what the implementation did *)

Definition view_of (keys : list key) (s s2 : st) (ok : bool) (ls : list label) (ob : option obs) : view :=
  mkView ok ls (newly_done s s2) (parked_list (thr s2) 0)
         (map (fun k => (k, tbl s2 k)) keys)
         (map (fun k => (k, option_map r_ver (store s2 k))) keys) ob.

(** every quiescent state the model can reach by the burst (all interleavings, no pruning
    by the observation), as views; at most [cap] of them *)
Fixpoint outcomes (fuel : nat) (mac : label -> list label) (ordered : bool) (s : st) (vb : bij)
    (pend : list sop) (acc : list label) : list (st * list label) :=
  match fuel with
  | O => []
  | S f =>
      let en := all_enabled s in
      match pend, en with
      | [], [] => [(s, rev acc)]
      | _, _ =>
          flat_map (fun p =>
              match apply_sop s vb (fst p) with
              | Some (s1, vb1, ls1) => outcomes f mac ordered s1 vb1 (snd p) (rev_append ls1 acc)
              | None => []
              end) (picks ordered pend)
          ++
          flat_map (fun l =>
              let m := mac l in
              match run s m with
              | Some s1 => outcomes f mac ordered s1 vb pend (rev_append m acc)
              | None => []
              end) en
      end
  end.

Definition same_view (a b : view) : bool :=
  ret_eqb (vw_ret a) (vw_ret b) && nats_eqb (vw_parked a) (vw_parked b) &&
  nats_eqb (map (fun p => match snd p with Some (c, n) => S c | None => 0 end) (vw_tbl a))
           (map (fun p => match snd p with Some (c, n) => S c | None => 0 end) (vw_tbl b)) &&
  nats_eqb (map (fun p => match snd p with Some v => S (N.to_nat v) | None => 0 end) (vw_store a))
           (map (fun p => match snd p with Some v => S (N.to_nat v) | None => 0 end) (vw_store b)).

Fixpoint dedup_views (l : list view) (acc : list view) : list view :=
  match l with
  | [] => rev acc
  | x :: tl => if existsb (same_view x) acc then dedup_views tl acc else dedup_views tl (x :: acc)
  end.

Fixpoint explain_steps (keys : list key) (v : vstate) (l : list sstep) : list view :=
  match l with
  | [] => []
  | x :: tl =>
      let s := v_st v in
      match x with
      | mkStep op o =>
          match apply_sop s (v_vb v) op with
          | None => [mkView false [] [] [] [] [] (Some o)]
          | Some (s1, _, ls1) =>
              match saturate sat_fuel s1 [] with
              | None => [mkView false ls1 [] [] [] [] (Some o)]
              | Some (s2, ls2) =>
                  match check_step keys v x with
                  | Some v' => view_of keys s s2 true (ls1 ++ ls2) None :: explain_steps keys v' tl
                  | None => [view_of keys s s2 false (ls1 ++ ls2) (Some o)]
                  end
              end
          end
      | mkBurst ordered acts o =>
          match check_step keys v x with
          | Some v' =>
              view_of keys s (v_st v') true (skipn (length (v_trace v)) (v_trace v')) None :: explain_steps keys v' tl
          | None =>
              (* no interleaving explains the observation: the observation, then what the model can reach *)
              mkView false [] [] [] [] [] (Some o) ::
              firstn 12 (dedup_views (map (fun p => view_of keys s (fst p) false (snd p) None)
                                          (outcomes burst_fuel macro_of ordered s (v_vb v) acts [])) [])
          end
      end
  end.

Definition explain (c : case) : N * bool * list view :=
  match c with
  | CaseMem id keys steps => (id, check_case c, explain_steps keys vinit steps)
  | CasePoll id _ _ => (id, check_case c, [])
  | CaseStress id _ => (id, check_case c, [])
  | CaseRace id _ => (id, check_case c, [])
  end.
