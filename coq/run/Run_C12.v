(** Correspondence run for C12.

    (a) [HeapCase]: a script of heap operations that the Go side ran on a private
        [futures] value under the real container/heap (hook VerifHeapOps); after
        every step the (id, idx) dump of the slice, the returned future and the set
        of stray indices must equal what the model [THeap] computes.
    (b) [LiveCase]: what a live run of Call/Cancel observed (time stamps in ns on the
        monotonic clock); only one-sided facts are checked, and the lock-held
        snapshots must satisfy the executable form of the proved invariants. *)
From Coq Require Import List ZArith NArith Bool.
From GL Require Import model.THeap model.TPool spec.TimerObs.
Import ListNotations.
Open Scope Z_scope.

(** * (a) heap scripts *)

Record hstep := mkHS { hs_op : hop; hs_slots : list (fid * Z); hs_stray : list fid; hs_out : hop_out }.

Definition slot_eqb (a b : fid * Z) : bool := N.eqb (fst a) (fst b) && Z.eqb (snd a) (snd b).

Fixpoint list_eqb {A} (eqb : A -> A -> bool) (x y : list A) : bool :=
  match x, y with
  | [], [] => true
  | a :: x', b :: y' => eqb a b && list_eqb eqb x' y'
  | _, _ => false
  end.

Definition hop_out_eqb (a b : hop_out) : bool :=
  match a, b with
  | HSkip, HSkip | HNone, HNone => true
  | HOut x l, HOut y m => N.eqb x y && Bool.eqb l m
  | _, _ => false
  end.

Fixpoint check_hsteps (h : fheap) (needs_order : bool) (l : list hstep) : bool :=
  match l with
  | [] => true
  | s :: t =>
      let '(h', o) := hop_step h (hs_op s) in
      (* after HFix/HInit on an arbitrary slice order is re-established too, but a script
         that used HFix may pass through unordered states only inside the call *)
      list_eqb slot_eqb (dump h') (hs_slots s)
      && hop_out_eqb o (hs_out s)
      && match hs_stray s with [] => true | _ => false end
      && idx_ok_b h' && negb (bad h')
      && (if needs_order then heap_ordered_b h' else true)
      && check_hsteps h' needs_order t
  end.

(** * wire format: the harness prints everything as [Z] literals (shards open [Z_scope]) *)


(* operations *)
Definition P (x t : Z) : hop := HPush (zid x) t.
Definition RA (k : Z) : hop := HRemoveAt k.
Definition RI (x : Z) : hop := HRemoveId (zid x).
Definition PO : hop := HPop.
Definition FX (k t : Z) : hop := HFix k t.
Definition IH : hop := HInit.

Fixpoint unflatten (l : list Z) : list (fid * Z) :=
  match l with
  | x :: i :: t => (zid x, i) :: unflatten t
  | _ => []
  end.

(* slots: id0; idx0; id1; idx1; ...   out: -2 = not applicable, -1 = nothing returned, else
   the id of the returned future and whether it still had its function *)
Definition HS (o : hop) (slots : list Z) (stray : list Z) (out : Z) (outlive : bool) : hstep :=
  mkHS o (unflatten slots) (map zid stray)
       (if out =? -2 then HSkip else if out =? -1 then HNone else HOut (zid out) outlive).

(** * cases *)

Inductive case :=
| HeapCase (id : N) (ordered : bool) (steps : list hstep)
| LiveCase (id : N) (c : lcase).

Definition c_id (c : case) : N := match c with HeapCase i _ _ => i | LiveCase i _ => i end.

Definition check_case (c : case) : bool :=
  match c with
  | HeapCase _ o steps => check_hsteps empty_heap o steps
  | LiveCase _ lc => check_live lc
  end.

Definition mismatches (cs : list case) : list N :=
  map c_id (filter (fun c => negb (check_case c)) cs).

(* for replay: the model's dump / output after every step, or the per-future verdicts *)
Fixpoint explain_hsteps (h : fheap) (l : list hstep) : list (list (fid * Z) * hop_out * bool) :=
  match l with
  | [] => []
  | s :: t => let '(h', o) := hop_step h (hs_op s) in (dump h', o, bad h') :: explain_hsteps h' t
  end.

Inductive explanation :=
| ExHeap (model : list (list (fid * Z) * hop_out * bool))
| ExLive (bad_futures : list fid) (bad_snapshots : list Z).

Definition explain (c : case) : explanation :=
  match c with
  | HeapCase _ _ steps => ExHeap (explain_hsteps empty_heap steps)
  | LiveCase _ lc =>
      ExLive (map lf_id (filter (fun f => negb (fut_ok f)) (lc_futs lc)))
             (map ls_t0 (filter (fun s => negb (snap_ok lc s)) (lc_snaps lc)))
  end.
