(** Correspondence run for C01: every observed run of the real lock under the gating,
    fault-injecting storage must be a trace of model/LockLTS.v (with the snapshots agreeing),
    and the model must never see two held Lockers along it.  The harness's own
    critical-section overlap detector reports independently (DirectViolation). *)
From Coq Require Import List Arith Bool NArith.
From GL Require Import model.LockLTS run.Run_LockTrace.
Import ListNotations.

Definition case := Run_LockTrace.case.

Definition check_case (c : case) : bool :=
  check_trace c
  && Nat.leb (max_holders (length (c_prov c)) (init (lprov_of c)) (c_evs c) 0) 1.

Definition mismatches (cs : list case) : list N :=
  map c_id (filter (fun c => negb (check_case c)) cs).

Definition explain (c : case) := (c_id c, explain_trace c).
