(** Correspondence run for C11.

    [MapCase]: a map history (as in C10); after every operation the number of
    nodes the hook found reachable from head must equal Len + 1 + pinned,
    where Len comes from the specification and pinned from the model (L1 and
    L2 must agree on it), must not exceed Len + 1 + number of open iterators,
    and must be exactly Len + 1 whenever no iterator is open.

    [LruCase]: a history of cache calls run on the real lru.ECache; the model
    (cache over L1 with pool re-use, over L1 allocating fresh, over L2 and
    over the specification) is evaluated on the recorded prefix: results and
    node counts must agree and every count must be <= cap + 1.  (For the rest
    of a long history the harness itself enforces the theorem's bound
    nodes <= cap + 1.) *)
From Coq Require Import List ZArith Arith Bool NArith.
From GL Require Import lib.IMapBase model.IMap model.Chain spec.OMap model.IMapLRU.
Import ListNotations.

Record mstp := Ms { m_op : op; m_nodes : nat; m_del : nat; m_ref : Z }.
Record lstp := Ls { l_op : cop; l_out : cout; l_nodes : nat; l_del : nat; l_ref : Z }.

Inductive case :=
| MapCase (id : N) (steps : list mstp)
| LruCase (id : N) (cap : nat) (steps : list lstp).

Definition c_id (c : case) : N := match c with MapCase i _ => i | LruCase i _ _ => i end.

Fixpoint check_map (a : imap) (c : chain) (o : omap) (l : list mstp) : bool :=
  match l with
  | [] => true
  | s :: t =>
      let '(a', xa) := i_step always_fresh a (m_op s) in
      let '(c', xc) := c_step c (m_op s) in
      let '(o', xo) := o_step o (m_op s) in
      out_eqb xa xo && out_eqb xc xo && negb (is_stop xo) &&
      (let len := o_len (entries o') in
       let open := length (opos o') in
       Nat.eqb (count_deleted a') (c_pinned c')
       && Nat.eqb (m_del s) (c_pinned c')
       && Nat.eqb (m_nodes s) (len + 1 + c_pinned c')
       && Nat.eqb (length (i_chain a')) (m_nodes s)
       && Z.eqb (m_ref s) (Z.of_nat open)
       && Z.eqb (sum_ref a') (m_ref s)
       && (c_pinned c' <=? open)%nat
       && (if Nat.eqb open 0 then Nat.eqb (m_nodes s) (len + 1) else true))
      && check_map a' c' o' t
  end.

Definition lru_nodes (s : @lru imap) : nat := length (i_chain (l_map s)).

Definition is_nil_iters (m : imap) : bool := match iters m with [] => true | _ => false end.

Fixpoint check_lru (cap : nat)
    (a b : @lru imap) (c : @lru chain) (o : @lru omap) (l : list lstp) : bool :=
  match l with
  | [] => true
  | s :: t =>
      let '(a', xa) := lc_step (i_step always_reuse) cap a (l_op s) in
      let '(b', xb) := lc_step (i_step always_fresh) cap b (l_op s) in
      let '(c', xc) := lc_step c_step cap c (l_op s) in
      let '(o', xo) := lc_step o_step cap o (l_op s) in
      cout_eqb xa (l_out s) && cout_eqb xb (l_out s) && cout_eqb xc (l_out s) && cout_eqb xo (l_out s)
      && Nat.eqb (lru_nodes a') (l_nodes s) && Nat.eqb (lru_nodes b') (l_nodes s)
      && Nat.eqb (length (cells (l_map c'))) (l_nodes s)
      && Nat.eqb (l_nodes s) (o_len (entries (l_map o')) + 1)
      && (l_nodes s <=? cap + 1)%nat
      && Nat.eqb (l_del s) 0 && Z.eqb (l_ref s) 0
      && Nat.eqb (count_deleted (l_map a')) 0 && Z.eqb (sum_ref (l_map a')) 0
      && is_nil_iters (l_map a')
      && check_lru cap a' b' c' o' t
  end.

Definition check_case (c : case) : bool :=
  match c with
  | MapCase _ steps => check_map i_new c_new o_new steps
  | LruCase _ cap steps =>
      check_lru cap (mkLru i_new 0%Z) (mkLru i_new 0%Z) (mkLru c_new 0%Z) (mkLru o_new 0%Z) steps
  end.

Definition mismatches (cs : list case) : list N :=
  map c_id (filter (fun c => negb (check_case c)) cs).

Definition explain (c : case) :=
  match c with
  | MapCase _ steps =>
      let ops := map m_op steps in
      let a := final (i_step always_fresh) i_new ops in
      inl (outs (i_step always_fresh) i_new ops, outs o_step o_new ops,
           (length (i_chain a), count_deleted a, sum_ref a))
  | LruCase _ cap steps =>
      inr (map (fun r => (fst r, lru_nodes (snd r)))
             (lc_run (i_step always_reuse) cap (mkLru i_new 0%Z) (map l_op steps)),
           map fst (lc_run o_step cap (mkLru o_new 0%Z) (map l_op steps)))
  end.
