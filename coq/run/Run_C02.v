(** Correspondence run for C02: one case = one concurrent history recorded on a
    backend (invocation and response of every call stamped from one atomic
    counter) together with a linearisation proposed by the harness's untrusted
    search.  [check_case] verifies the proposal with [Lin.valid_lin] against the
    contract (spec/KV.v): the proposed order is a permutation of the history,
    respects real time, and replayed sequentially on the contract it produces
    exactly the observed results -- versions matched through the bijection of
    run/KVRun.v, which also makes a re-used version string fail.  No witness (the
    harness sends the empty list) means no linearisation was found: the history
    itself is the violation.  C02 histories use no expirations (instant 0). *)
From Coq Require Import List ZArith NArith Arith Bool.
From GL Require Import lib.Lin spec.KV run.KVRun.
Import ListNotations.

Definition V300 : value := repeat 120%N 300.

(* the contract as an executable acceptance check over implementation version ids *)
Definition chk_kv (sb : state * binding) (o : op) (r : out) : option (state * binding) :=
  let '(s, b) := sb in
  let '(s', so) := step s 0%Z (ref_op 0%Z b o) in
  match match_out 0%Z so r b with
  | Some b' => Some (s', b')
  | None => None
  end.

Definition hop := opr op out.
Definition mkHop (inv ret : nat) (o : op) (r : out) : hop := mkOpr inv ret o r.

Record case := mkCase { k_id : N; k_hist : list hop; k_wit : list nat }.

Definition check_case (c : case) : bool := valid_lin chk_kv (init, []) (k_hist c) (k_wit c).

Definition mismatches (cs : list case) : list N :=
  map k_id (filter (fun c => negb (check_case c)) cs).

(* for replay: the proposed order with, per operation, the observed result and the contract's answer *)
Fixpoint explain_lin (sb : state * binding) (l : list hop) : list (op * out * out) :=
  match l with
  | [] => []
  | x :: t =>
      let so := snd (step (fst sb) 0%Z (ref_op 0%Z (snd sb) (Lin.o_op x))) in
      (Lin.o_op x, Lin.o_res x, so) ::
      match chk_kv sb (Lin.o_op x) (Lin.o_res x) with
      | Some sb' => explain_lin sb' t
      | None => []
      end
  end.

Definition explain (c : case) :=
  (k_id c, check_case c,
   match pick (k_hist c) (k_wit c) with
   | Some l => explain_lin (init, []) l
   | None => []
   end).
