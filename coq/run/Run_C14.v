(** Correspondence run for C14: evaluates the ring-buffer model on the same
    operation sequences the Go implementation ran and compares every output
    and, through the verif hook, the number of non-zero slots of the backing
    array (all written values are non-zero, so it must equal Len). *)
From Coq Require Import List ZArith Arith Bool NArith.
From GL Require Import model.RingBuf spec.Queue.
Import ListNotations.

Definition out_eqb (a b : out) : bool :=
  match a, b with
  | OutOk, OutOk | OutExhausted, OutExhausted | OutEOF, OutEOF
  | OutPanic, OutPanic | OutOfFuel, OutOfFuel => true
  | OutVal x, OutVal y => Z.eqb x y
  | OutVals x, OutVals y => if list_eq_dec Z.eq_dec x y then true else false
  | OutN x, OutN y => Nat.eqb x y
  | _, _ => false
  end.

(* one observed step: the operation, what the implementation returned, and the
   number of non-zero slots of its backing array afterwards *)
Record step := mkStep { s_op : op; s_out : out; s_nz : nat }.
Record case := mkCase { c_id : N; c_cap : nat; c_steps : list step }.

Fixpoint check_steps (b : rb) (q : queue) (l : list step) : bool :=
  match l with
  | [] => true
  | s :: t =>
      let '(b', mo) := rb_step b (s_op s) in
      let '(q', so) := q_step q (s_op s) in
      out_eqb mo (s_out s) && out_eqb so (s_out s)
      && Nat.eqb (nonzero_slots b') (s_nz s)
      && Nat.eqb (length (qitems q')) (s_nz s)
      && check_steps b' q' t
  end.

Definition check_case (c : case) : bool :=
  check_steps (new_rb (c_cap c)) (new_q (c_cap c)) (c_steps c).

Definition mismatches (cs : list case) : list N :=
  map c_id (filter (fun c => negb (check_case c)) cs).

(* for replay: what the model and the spec say for the case's operations *)
Definition explain (c : case) : list (op * out * out * out) :=
  let ops := map s_op (c_steps c) in
  let mo := fst (rb_run (new_rb (c_cap c)) ops) in
  let so := fst (q_run (new_q (c_cap c)) ops) in
  combine (combine (combine ops (map s_out (c_steps c))) mo) so.
