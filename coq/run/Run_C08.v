(** Correspondence run for C08: evaluates the sequential cache model
    (model/ECache.v) and the reference LRU (spec/LRU.v) on the call sequences the
    Go implementation ran, and compares, call by call, the returned value and
    every create / delete callback invocation with its arguments, in order.

    Instantiation: primary keys and inner keys are [Z]; the key mapping is
    [pk mod m] ([m = 0]: identity, i.e. lru.Cache); values are pairs
    [(value id, expiry instant)] (the instant is 0 and unused for Cache/ECache). *)
From Coq Require Import List ZArith NArith Arith Bool.
From GL Require Import spec.LRU model.ECache.
Import ListNotations.

Definition val : Type := (Z * Z)%type.
Definition kmapZ (m : Z) (pk : Z) : Z := if (m =? 0)%Z then pk else (pk mod m)%Z.
Definition expZ (v : val) : Z := snd v.

Definition val_eqb (a b : val) : bool := (fst a =? fst b)%Z && (snd a =? snd b)%Z.
Definition oval_eqb (a b : option val) : bool :=
  match a, b with
  | Some x, Some y => val_eqb x y
  | None, None => true
  | _, _ => false
  end.

Definition res_eqb (a b : lru_res val) : bool :=
  match a, b with
  | RVal x, RVal y => val_eqb x y
  | RErr, RErr => true
  | RBool x, RBool y => Bool.eqb x y
  | RCount x, RCount y => Nat.eqb x y
  | _, _ => false
  end.

Definition ev_eqb (a b : lru_ev Z val) : bool :=
  match a, b with
  | EvCreate p r, EvCreate q s => (p =? q)%Z && oval_eqb r s
  | EvDelete p v, EvDelete q w => (p =? q)%Z && val_eqb v w
  | _, _ => false
  end.

Fixpoint list_eqb {A} (f : A -> A -> bool) (a b : list A) : bool :=
  match a, b with
  | [], [] => true
  | x :: s, y :: t => f x y && list_eqb f s t
  | _, _ => false
  end.

Definition out_eqb (a b : lru_out Z val) : bool :=
  res_eqb (fst a) (fst b) && list_eqb ev_eqb (snd a) (snd b).

(** Wire format.  Coq spends its time parsing and elaborating the case files, so
    a step is sent as a flat list of integers and decoded here:
      operation   1 pk v            GetOrCreate pk; the create function would answer v (0: fail)
                  2 pk              Remove pk
                  3                 Clear
                  4 pk now v1 e1 v2 e2   ExpirableCache.GetOrCreate at instant now; scripted items (v, expiry)
      result      1 v | 5 v e       value (expiry 0 | e);  2 error;  3 b  Remove's Boolean;  4 n  Clear's count
      callbacks   1 pk v | 5 pk v e   create called with pk, answered v (0: failed)
                  2 pk v | 6 pk v e   delete callback (pk, v)
    A step that does not decode counts as a mismatch. *)
Open Scope Z_scope.

Definition mkval (v e : Z) : option val := if v =? 0 then None else Some (v, e).

Definition dec_op (l : list Z) : option (lru_op Z val * list Z) :=
  match l with
  | 1 :: pk :: v :: t => Some (OGet pk (mkval v 0), t)
  | 2 :: pk :: t => Some (ORemove pk, t)
  | 3 :: t => Some (OClear, t)
  | 4 :: pk :: now :: v1 :: e1 :: v2 :: e2 :: t => Some (OEGet pk now (mkval v1 e1) (mkval v2 e2), t)
  | _ => None
  end.

Definition dec_res (l : list Z) : option (lru_res val * list Z) :=
  match l with
  | 1 :: v :: t => Some (RVal (v, 0), t)
  | 5 :: v :: e :: t => Some (RVal (v, e), t)
  | 2 :: t => Some (RErr, t)
  | 3 :: b :: t => Some (RBool (b =? 1), t)
  | 4 :: n :: t => Some (RCount (Z.to_nat n), t)
  | _ => None
  end.

Fixpoint dec_evs (l : list Z) : option (list (lru_ev Z val)) :=
  match l with
  | [] => Some []
  | 1 :: pk :: v :: t => option_map (cons (EvCreate pk (mkval v 0))) (dec_evs t)
  | 5 :: pk :: v :: e :: t => option_map (cons (EvCreate pk (mkval v e))) (dec_evs t)
  | 2 :: pk :: v :: t => option_map (cons (EvDelete pk (v, 0))) (dec_evs t)
  | 6 :: pk :: v :: e :: t => option_map (cons (EvDelete pk (v, e))) (dec_evs t)
  | _ => None
  end.

Definition dec_step (l : list Z) : option (lru_op Z val * lru_out Z val) :=
  match dec_op l with
  | Some (o, l1) =>
      match dec_res l1 with
      | Some (r, l2) =>
          match dec_evs l2 with
          | Some evs => Some (o, (r, evs))
          | None => None
          end
      | None => None
      end
  | None => None
  end.

Record case := mkCase { c_id : N; c_cap : nat; c_mod : Z; c_steps : list (list Z) }.

Fixpoint check_steps (m : Z) (cap : nat) (c : ecache (PK:=Z) (K:=Z) (V:=val))
                     (l : lru_state Z Z val) (st : list (list Z)) : bool :=
  match st with
  | [] => true
  | w :: t =>
      match dec_step w with
      | None => false
      | Some (o, obs) =>
          let '(c', mo, oof) := ec_step Z.eqb (kmapZ m) expZ c o in
          let '(l', so) := lru_step Z.eqb (kmapZ m) expZ cap l o in
          negb oof && out_eqb mo obs && out_eqb so obs
          && check_steps m cap c' l' t
      end
  end.

Definition check_case (c : case) : bool :=
  check_steps (c_mod c) (c_cap c) (ec_new (c_cap c)) [] (c_steps c).

Definition mismatches (cs : list case) : list N :=
  map c_id (filter (fun c => negb (check_case c)) cs).

(* for replay: (operation, observed) as decoded, then model, then spec *)
Definition explain (c : case) :=
  let st := map dec_step (c_steps c) in
  let ops := flat_map (fun x => match x with Some (o, _) => [o] | None => [] end) st in
  let mo := fst (fst (ec_run Z.eqb (kmapZ (c_mod c)) expZ (ec_new (c_cap c)) ops)) in
  let so := fst (lru_run Z.eqb (kmapZ (c_mod c)) expZ (c_cap c) [] ops) in
  (st, mo, so).
