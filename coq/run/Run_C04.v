(** Correspondence run for C04: runs with cancellation, shutdown and re-acquisition, no
    faults, each driven to quiescence.  The trace must be accepted by model/LockLTS.v, the
    parked sets must agree at every quiescent point (a goroutine the implementation has
    parked while the model says it can move is a lost wake-up), and at the end: every
    program finished, no Locker held, no record, token present and counter 0 on every
    Locker of a live provider (the model side of quiescent_clean, evaluated). *)
From Coq Require Import List Arith Bool NArith.
From GL Require Import model.LockLTS run.Run_LockTrace.
Import ListNotations.

Definition case := Run_LockTrace.case.

Definition clean_locker (s : state) (L : lockerId) : bool :=
  down s (lprov s L) || (token (lk s L) && negb (cntr (lk s L))).

Definition final_clean (c : case) (s : state) : bool :=
  let nl := length (c_prov c) in
  if all_idle (c_nt c) s && none_held nl s then
    match rec s with None => true | Some _ => false end
    && forallb (clean_locker s) (seq 0 nl)
  else negb (c_complete c).

Definition check_case (c : case) : bool :=
  check_trace c
  && match replay (c_nt c) (init (lprov_of c)) (c_evs c) 0 with
     | inl s => final_clean c s
     | inr _ => false
     end.

Definition mismatches (cs : list case) : list N :=
  map c_id (filter (fun c => negb (check_case c)) cs).

Definition explain (c : case) := (c_id c, explain_trace c).
