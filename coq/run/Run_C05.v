(** Correspondence run for C05: the storage calls (Create / CasByVersion / Delete /
    Get) that crossed the harness's gate around the real in-memory store, with
    their results, versions, ExpiresAt and timestamps, plus the local actions
    the harness infers from them (timer fire = ExpiresAt - TTL of the CAS,
    re-arm = return of the CAS, ...), are validated against the timed LTS of
    model/LeaseLTS.v: every label must be enabled at its instant and every
    result must be the one the model computes; and at every instant at which the
    holder is alive the lease must be in force ([lease_ok]). *)
From Coq Require Import List ZArith Bool NArith.
From GL Require Import model.LeaseLTS.
Import ListNotations.
Open Scope Z_scope.

(* one observed event: instant (ns since the start of the scenario), label, result *)
Record ev := mkEv { e_t : Z; e_l : label; e_r : res }.

(* c_need_acq: the scenario ends with the death of the holder; the contender parked in
   LockWithCtx (contender 2; contender 1 is the one polling TryLock) must acquire afterwards *)
Record case := mkCase { c_id : N; c_ttl : Z; c_need_acq : bool; c_evs : list ev }.

Definition res_eqb (a b : res) : bool :=
  match a, b with
  | RNone, RNone | RExist, RExist | RNotExist, RNotExist | RConflict, RConflict
  | RErr, RErr | RDeleted, RDeleted => true
  | RCreated x, RCreated y => x =? y
  | RCasOk x, RCasOk y => x =? y
  | RRec v e, RRec v' e' => (v =? v') && (e =? e')
  | _, _ => false
  end.

(* measured timing of the run: the largest lateness of a due renewal, the largest
   latency issue -> answer processed, the longest series of lost renewals *)
Record meas := mkMeas { m_dl : Z; m_ep : Z; m_k : Z }.

Definition holder_active (s : state) : bool :=
  match hs s with HAcquiring _ | HCreated _ | HHeld => true | _ => false end.

Definition measure (s : state) (l : label) (m : meas) : meas :=
  if holder_active s then
    match l, hs s, tst s with
    | StCreate, HAcquiring i, _ => mkMeas (m_dl m) (Z.max (m_ep m) (now s - i)) (m_k m)
    | AcqArm, HCreated i, _ => mkMeas (m_dl m) (Z.max (m_ep m) (now s - i)) (m_k m)
    | TimerFire, _, TArmed a d => mkMeas (Z.max (m_dl m) (now s - (a + d))) (m_ep m) (m_k m)
    | StCas f, _, TFired i due =>
        mkMeas (Z.max (m_dl m) (now s - due)) (Z.max (m_ep m) (now s - i))
               (match f with FReqLost => Z.max (m_k m) (fails s + 1) | _ => m_k m end)
    | Rearm, _, TApplied i _ => mkMeas (m_dl m) (Z.max (m_ep m) (now s - i)) (m_k m)
    | RetryArm, _, TLost i => mkMeas (m_dl m) (Z.max (m_ep m) (now s - i)) (m_k m)
    | Unlock _, _, TArmed a d | Die, _, TArmed a d =>
        (* a renewal that is overdue when the tenure ends counts with the lateness it reached *)
        mkMeas (Z.max (m_dl m) (now s - (a + d))) (m_ep m) (m_k m)
    | Unlock _, _, TFired i due | Die, _, TFired i due =>
        mkMeas (Z.max (m_dl m) (now s - due)) (Z.max (m_ep m) (now s - i)) (m_k m)
    | Unlock _, _, TApplied i _ | Die, _, TApplied i _ => mkMeas (m_dl m) (Z.max (m_ep m) (now s - i)) (m_k m)
    | Unlock _, _, TLost i | Die, _, TLost i => mkMeas (m_dl m) (Z.max (m_ep m) (now s - i)) (m_k m)
    | _, _, _ => m
    end
  else m.

(* failure codes: 1 time runs backwards, 2 label not enabled in the model, 3 the model
   computes another result, 4 the lease of the live holder is not in force *)
Record verdict := mkV { v_fail : option (nat * Z); v_meas : meas; v_final : state }.

Definition lease_fine (s : state) : bool := negb (alive s) || lease_ok s.

Fixpoint go (TTL : Z) (s : state) (m : meas) (idx : nat) (evs : list ev) : verdict :=
  match evs with
  | [] => mkV None m s
  | e :: t =>
      let dt := e_t e - now s in
      if dt <? 0 then mkV (Some (idx, 1)) m s else
      let s1 := set_now s (e_t e) in
      if negb (lease_fine s1) then mkV (Some (idx, 4)) m s1 else
      match step TTL s1 (e_l e) with
      | None => mkV (Some (idx, 2)) m s1
      | Some (s2, r) =>
          if negb (res_eqb r (e_r e)) then mkV (Some (idx, 3)) m s1 else
          let m' := measure s1 (e_l e) m in
          if negb (lease_fine s2) then mkV (Some (idx, 4)) m' s2 else
          go TTL s2 m' (S idx) t
      end
  end.

Fixpoint acquired_after_death (dead : bool) (evs : list ev) : bool :=
  match evs with
  | [] => false
  | e :: t =>
      match e_l e, e_r e with
      | Die, _ => acquired_after_death true t
      | ContenderTry n _, RCreated _ => (dead && (n =? 2)) || acquired_after_death dead t
      | _, _ => acquired_after_death dead t
      end
  end.

Definition verdict_of (c : case) : verdict := go (c_ttl c) init (mkMeas 0 0 0) 0 (c_evs c).

Definition check_case (c : case) : bool :=
  match v_fail (verdict_of c) with
  | Some _ => false
  | None => negb (c_need_acq c) || acquired_after_death false (c_evs c)
  end.

Definition mismatches (cs : list case) : list N :=
  map c_id (filter (fun c => negb (check_case c)) cs).

(* for replay: (first failing event index, code), measured lateness / latency / lost
   series, whether the arithmetic premise of lease_kept held for them, the state of the
   model at the failure (or at the end), and whether the death scenario ended with an
   acquisition *)
Definition explain (c : case) :=
  let v := verdict_of c in
  (v_fail v, v_meas v,
   lease_premiseb (c_ttl c) (m_dl (v_meas v)) (m_ep (v_meas v)) (m_k (v_meas v)),
   v_final v, acquired_after_death false (c_evs c)).

(* the premise of the theorem evaluated on the measured timing of a case *)
Definition premise_held (c : case) : bool :=
  let v := verdict_of c in
  lease_premiseb (c_ttl c) (m_dl (v_meas v)) (m_ep (v_meas v)) (m_k (v_meas v)).
