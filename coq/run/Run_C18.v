(** Correspondence run for C18: evaluates the mixer model (and, where it
    applies, the merge specification) on the same sources, selector and call
    pattern the Go implementation ran, and compares the result of every call.

    A case carries a linear call sequence with the observed results and/or a
    complete ternary call tree (every pattern over HasNext/Next/Reset up to a
    depth) whose observed results are packed, one hex digit per node in
    pre-order, 15 digits per primitive 63-bit integer (first digit = least
    significant; primitive integers only because their literals are an order
    of magnitude cheaper to read than [N] literals - nothing is proved about
    them, they are only unpacked here). *)
From Coq Require Import List ZArith Bool NArith Uint63.
From GL Require Import model.Mixer spec.Merge.
Import ListNotations.
Open Scope Z_scope.

(** * Case format *)

Record srcd := mkS { sd_items : list (Z * bool); sd_rst : bool }.

(* an honest, resettable source (WrapIntSlice) *)
Definition W (l : list Z) : srcd := mkS (wrap_items l) true.

Definition step := (call * out)%type.
Definition sH (b : bool) : step := (CHasNext, OHas b).
Definition sN (v : Z) (ok : bool) : step := (CNext, ONext v ok).
Definition sR (r : rres) : step := (CReset, OReset r).
Definition sP (c : call) : step := (c, OPanic).

Record case := mkCase {
  c_id : N; c_sel : sel; c_s1 : srcd; c_s2 : srcd;
  c_exact : bool;               (* also compare what lies outside the property's premises *)
  c_steps : list step;          (* linear pattern with observed results *)
  c_depth : nat; c_tree : list int   (* call tree: depth (0 = none) and packed results *)
}.

(** * Comparison of observables *)

Definition rres_eqb (a b : rres) : bool :=
  match a, b with
  | ROk, ROk | RUnimpl, RUnimpl | RDataLoss, RDataLoss | ROther, ROther => true
  | _, _ => false
  end.

Definition out_eqb (a b : out) : bool :=
  match a, b with
  | OHas x, OHas y => Bool.eqb x y
  | ONext v1 k1, ONext v2 k2 => Z.eqb v1 v2 && Bool.eqb k1 k2
  | OReset x, OReset y => rres_eqb x y
  | OPanic, OPanic => true
  | _, _ => false
  end.

(* one hex digit per result; 13 = a model result outside the code (the harness
   writes 15 for an implementation result outside the code, 14 for a panic) *)
Definition out_code (o : out) : N :=
  match o with
  | OHas false => 0%N | OHas true => 1%N
  | ONext v true => if (0 <=? v) && (v <=? 11) then Z.to_N (v + 1) else 13%N
  | ONext v false => if v =? 0 then 0%N else 13%N
  | OReset ROk => 0%N | OReset RUnimpl => 1%N | OReset RDataLoss => 2%N | OReset ROther => 3%N
  | OPanic => 14%N
  end.

Definition to_src (s : srcd) : src := src_of (sd_items s) (sd_rst s).

(** What is compared.

    Within the premises of the property - list-backed sources whose Next is ok
    whenever HasNext was true, except possibly for a vanished last element (the
    imparity iterator.go describes), and Reset only while both sources can be
    reset - every result is compared with the model and with the specification
    (proved equal there, [mixer_refines_merge_general]).

    Outside them the code's behaviour is not something the property (or the
    documentation) fixes: a Reset that fails because a source is no Reseter
    must fail ([Reset] documents an error), but what the mixer returns
    afterwards, and what it does with a source whose Next fails in the middle,
    is only compared when the case asks for it ([c_exact], harness flag
    --exact): then every result must be exactly the model's. *)

Definition in_premises (c : case) : bool :=
  tail_ok (sd_items (c_s1 c)) && tail_ok (sd_items (c_s2 c)).

Definition spec_start (c : case) : option mspec :=
  if in_premises c
  then Some (spec_init (live_items (sd_items (c_s1 c))) (live_items (sd_items (c_s2 c))))
  else None.

Definition both_rst (c : case) : bool := sd_rst (c_s1 c) && sd_rst (c_s2 c).

Definition spec_do (sf : Z -> Z -> bool) (br : bool) (s : option mspec) (cl : call)
  : option (mspec * out) :=
  match s with
  | None => None
  | Some s0 =>
      match cl with
      | CReset => if br then Some (spec_step sf s0 cl) else None
      | _ => Some (spec_step sf s0 cl)
      end
  end.

Definition spec_agrees (r : option (mspec * out)) (o : out) : bool :=
  match r with None => true | Some (_, so) => out_eqb so o end.

Definition failed_reset (o : out) : bool :=
  match o with OReset ROk => false | OReset _ => true | _ => false end.

Fixpoint check_steps (sf : Z -> Z -> bool) (br ex : bool) (m : mixer) (s : option mspec)
                     (l : list step) : bool :=
  match l with
  | [] => true
  | (cl, o) :: t =>
      let '(m', mo) := mx_step sf m cl in
      let r := spec_do sf br s cl in
      if negb ex && failed_reset mo then failed_reset o   (* nothing is compared after it *)
      else out_eqb mo o && spec_agrees r o && check_steps sf br ex m' (option_map fst r) t
  end.

(* number of nodes of the complete call tree of depth [d] *)
Fixpoint tree_size (d : nat) : nat :=
  match d with O => O | S d' => (3 * (1 + tree_size d'))%nat end.

(* the packed digits: current chunk, digits left in it, further chunks *)
Record digits := mkDg { dg_cur : int; dg_left : nat; dg_rest : list int }.

Definition digits_of (l : list int) : digits := mkDg 0%uint63 O l.

Definition next_digit (s : digits) : int * digits :=
  match dg_left s with
  | S k => ((dg_cur s land 15)%uint63, mkDg (dg_cur s >> 4)%uint63 k (dg_rest s))
  | O =>
      match dg_rest s with
      | [] => (0%uint63, s)
      | c :: t => ((c land 15)%uint63, mkDg (c >> 4)%uint63 14 t)
      end
  end.

(* [out_code] as a primitive integer (the codes are < 16) *)
Definition out_digit (o : out) : int := Uint63.of_Z (Z.of_N (out_code o)).

Definition digit_N (d : int) : N := Z.to_N (Uint63.to_Z d).

Definition is_failure_digit (d : int) : bool := ((1 <=? d) && (d <=? 3))%uint63.

Fixpoint skip_digits (n : nat) (s : digits) : digits :=
  match n with O => s | S n' => skip_digits n' (snd (next_digit s)) end.

(* pre-order walk over the complete call tree of depth [d]; consumes one digit
   of [code] per node; (all equal so far, remaining digits) *)
Fixpoint walk (d : nat) (sf : Z -> Z -> bool) (br ex : bool) (m : mixer) (s : option mspec)
              (code : digits) : bool * digits :=
  match d with
  | O => (true, code)
  | S d' =>
      let visit (cl : call) (acc : bool * digits) : bool * digits :=
        let '(good, code) := acc in
        if good then
          let '(m', mo) := mx_step sf m cl in
          let r := spec_do sf br s cl in
          let '(dg, code') := next_digit code in
          if negb ex && failed_reset mo then
            (is_failure_digit dg, skip_digits (tree_size d') code')
          else if Uint63.eqb (out_digit mo) dg &&
                  match r with None => true | Some (_, so) => Uint63.eqb (out_digit so) dg end
          then walk d' sf br ex m' (option_map fst r) code'
          else (false, code)
        else acc in
      visit CReset (visit CNext (visit CHasNext (true, code)))
  end.

Definition check_case (c : case) : bool :=
  let sf := sel_fn (c_sel c) in
  let m := mx_init (to_src (c_s1 c)) (to_src (c_s2 c)) in
  if negb (c_exact c) && negb (in_premises c) then true
  else
    check_steps sf (both_rst c) (c_exact c) m (spec_start c) (c_steps c)
    && fst (walk (c_depth c) sf (both_rst c) (c_exact c) m (spec_start c) (digits_of (c_tree c))).

Definition mismatches (cs : list case) : list N :=
  map c_id (filter (fun c => negb (check_case c)) cs).

(** * For replay: what model and specification say *)

Fixpoint explain_steps (sf : Z -> Z -> bool) (br : bool) (m : mixer) (s : option mspec)
                       (l : list step) : list (call * out * out * option out) :=
  match l with
  | [] => []
  | (cl, o) :: t =>
      let '(m', mo) := mx_step sf m cl in
      let r := spec_do sf br s cl in
      (cl, o, mo, option_map snd r) :: explain_steps sf br m' (option_map fst r) t
  end.

(* the nodes of the tree where implementation and model/spec differ:
   (path to the node, observed digit, model result, spec result) *)
Fixpoint explain_walk (d : nat) (sf : Z -> Z -> bool) (br ex : bool) (m : mixer) (s : option mspec)
                      (path : list call) (code : digits)
  : list (list call * N * out * option out) * digits :=
  match d with
  | O => ([], code)
  | S d' =>
      let visit (cl : call) (acc : list (list call * N * out * option out) * digits) :=
        let '(found, code) := acc in
        let '(m', mo) := mx_step sf m cl in
        let r := spec_do sf br s cl in
        let '(dg, code') := next_digit code in
        if negb ex && failed_reset mo then
          (found ++ (if is_failure_digit dg then [] else [(path ++ [cl], digit_N dg, mo, None)]),
           skip_digits (tree_size d') code')
        else
          let here :=
            if Uint63.eqb (out_digit mo) dg &&
               match r with None => true | Some (_, so) => Uint63.eqb (out_digit so) dg end
            then [] else [(path ++ [cl], digit_N dg, mo, option_map snd r)] in
          let '(sub, code'') := explain_walk d' sf br ex m' (option_map fst r) (path ++ [cl]) code' in
          (found ++ here ++ sub, code'') in
      visit CReset (visit CNext (visit CHasNext ([], code)))
  end.

Definition explain (c : case) :=
  let sf := sel_fn (c_sel c) in
  let m := mx_init (to_src (c_s1 c)) (to_src (c_s2 c)) in
  (explain_steps sf (both_rst c) m (spec_start c) (c_steps c),
   firstn 5 (fst (explain_walk (c_depth c) sf (both_rst c) (c_exact c) m (spec_start c) [] (digits_of (c_tree c))))).
