(** Correspondence run for C13: arrival patterns against the live pool.

    Every case carries the observations of a live run ([lcase], spec/TimerObs.v: the
    one-sided facts and the executable invariants on lock-held snapshots, among them
    F0 "non-empty heap => a worker exists" and burst_bounded "watchers <= maxWorkers")
    plus what C13 is about:
      - lateness of every callback (start - fireT): at most [late_bound] when all
        callbacks are prompt;
      - wind-down: with nothing pending the worker count falls, never rises, and reaches
        0 within 3 * idle + 1 s after the last activity;
      - restart: a Call after wind-down is served.
      - progress on snapshots: the head of the queue is never seen due for longer than
        [late_bound] (spec/TimerObs.v, snap_progress_ok).
    [RearmCase]: the "tight re-arm behind a distant future" stream (a distant future keeps
    the worker heading for a long sleep while 1..4 callers schedule due futures one right
    after the other): sampled iterations as [lfut]s, the distant futures, a future that did
    not start within the bound (if any, with the lock-held snapshot taken at that moment),
    and the per-iteration facts folded over all iterations.
    [ParamsCase]: the premises of the theorems of Properties/C13.v read through the hook
    VerifPool: 0 <= idleTimeout, 1 <= maxWorkers, 1 <= cap(wakeCh).
    The timing bounds are >= 100 x the quiet-system values; the harness sends a case that
    exceeds one only after it persisted over three runs of the scenario while the
    machine's canary was quiet. *)
From Coq Require Import List ZArith NArith Bool.
From GL Require Import model.THeap model.TPool spec.TimerObs.
Import ListNotations.
Open Scope Z_scope.

Definition late_bound : Z := 1000000000.   (* 1 s *)

Record pcase := mkPC {
  p_live : lcase;
  p_idle : Z;                  (* ns; 0 = package default (30 s), wind-down not measured *)
  p_prompt : bool;             (* every callback returns at once *)
  p_wind : Z;                  (* ns from the last activity to "no worker, nothing pending"; -1 not measured; -2 not reached *)
  p_wseq : list Z;             (* distinct consecutive worker counts seen while winding down *)
  p_restart : Z;               (* -1 not tried, 0 the future scheduled after wind-down did not run, 1 it ran *)
  p_restart_lag : Z
}.

Definition lateness_ok (c : pcase) : bool :=
  if p_prompt c then
    forallb (fun f => forallb (fun s => s - lf_fire f <=? late_bound) (lf_starts f)) (lc_futs (p_live c))
  else true.

Fixpoint non_increasing (l : list Z) : bool :=
  match l with
  | a :: ((b :: _) as t) => (b <=? a) && non_increasing t
  | _ => true
  end.

Definition wind_ok (c : pcase) : bool :=
  if p_wind c =? -1 then true
  else (0 <=? p_wind c) && (p_wind c <=? 3 * p_idle c + 1000000000)
       && non_increasing (p_wseq c)
       && forallb (fun w => (0 <=? w) && (w <=? lc_maxw (p_live c))) (p_wseq c).

Definition restart_ok (c : pcase) : bool :=
  if p_restart c =? -1 then true
  else (p_restart c =? 1) && (0 <? p_restart_lag c) && (p_restart_lag c <=? late_bound).

Definition progress_ok (c : pcase) : bool :=
  if p_prompt c then forallb (snap_progress_ok late_bound) (lc_snaps (p_live c)) else true.

Definition check_pcase (c : pcase) : bool :=
  check_live (p_live c) && lateness_ok c && wind_ok c && restart_ok c && progress_ok c.

(** * tight re-arm behind a distant future *)
Record rcase := mkRC {
  r_live : lcase;               (* distant futures, sampled iterations, stalled futures; snapshots *)
  r_calls : Z;                  (* futures scheduled by the callers that must start *)
  r_started : Z;                (* of those, seen started by their caller within the bound *)
  r_callbacks : Z;              (* callbacks of those futures that ran in total *)
  r_min_margin : Z;             (* min over iterations of start - (instant before Call + d) *)
  r_max_late : Z;               (* max over iterations of start - (instant after Call + d) *)
  r_cancelled : Z;              (* near heads cancelled at once (Cancel returned before call + d) *)
  r_cancel_slow : Z;            (* near heads whose Cancel returned later than that *)
  r_cancelled_started : Z       (* callbacks of near heads that ran: at most the slow ones *)
}.

Definition check_rcase (c : rcase) : bool :=
  let lc := r_live c in
  forallb fut_ok (lc_futs lc) && nodup_b (map lf_id (lc_futs lc))
  && forallb (snap_state_ok lc) (lc_snaps lc)
  && forallb (fun s => forallb (absent_ok s) (lc_futs lc)) (lc_snaps lc)
  && forallb (snap_progress_ok late_bound) (lc_snaps lc)
  && (r_started c =? r_calls c)                       (* every one started ... *)
  && (r_callbacks c <=? r_calls c)                    (* ... at most once *)
  && ((r_started c =? 0) || (0 <? r_min_margin c))    (* never early *)
  && (r_max_late c <=? late_bound)
  && (r_cancelled_started c <=? r_cancel_slow c).     (* cancel effective *)

(** * premises of the theorems *)
Definition check_params (idle_ maxw_ wcap_ : Z) : bool :=
  (0 <=? idle_) && (1 <=? maxw_) && (1 <=? wcap_).

Inductive case :=
| PoolCase (id : N) (c : pcase)
| RearmCase (id : N) (c : rcase)
| ParamsCase (id : N) (idle_ maxw_ wcap_ : Z).

Definition c_id (c : case) : N :=
  match c with PoolCase i _ | RearmCase i _ | ParamsCase i _ _ _ => i end.
Definition check_case (c : case) : bool :=
  match c with
  | PoolCase _ p => check_pcase p
  | RearmCase _ r => check_rcase r
  | ParamsCase _ i m w => check_params i m w
  end.

Definition mismatches (cs : list case) : list N :=
  map c_id (filter (fun c => negb (check_case c)) cs).

(* for replay: which part failed; the worst lateness *)
Record explanation := mkEx {
  ex_bad_futures : list fid; ex_bad_snapshots : list Z; ex_no_progress_snapshots : list Z;
  ex_lateness_ok : bool; ex_max_lateness : Z; ex_wind_ok : bool; ex_restart_ok : bool;
  ex_counts_ok : bool; ex_params_ok : bool }.

Definition max_lateness (lc : lcase) : Z :=
  fold_left Z.max (flat_map (fun f => map (fun s => s - lf_fire f) (lf_starts f)) (lc_futs lc)) 0.

Definition explain (c : case) : explanation :=
  match c with
  | PoolCase _ p =>
      let lc := p_live p in
      mkEx (map lf_id (filter (fun f => negb (fut_ok f)) (lc_futs lc)))
           (map ls_t0 (filter (fun s => negb (snap_ok lc s)) (lc_snaps lc)))
           (map ls_t0 (filter (fun s => negb (snap_progress_ok late_bound s)) (lc_snaps lc)))
           (lateness_ok p) (max_lateness lc) (wind_ok p) (restart_ok p) true true
  | RearmCase _ r =>
      let lc := r_live r in
      mkEx (map lf_id (filter (fun f => negb (fut_ok f)) (lc_futs lc)))
           (map ls_t0 (filter (fun s => negb (snap_state_ok lc s)) (lc_snaps lc)))
           (map ls_t0 (filter (fun s => negb (snap_progress_ok late_bound s)) (lc_snaps lc)))
           (r_max_late r <=? late_bound) (Z.max (max_lateness lc) (r_max_late r)) true true
           ((r_started r =? r_calls r) && (r_callbacks r <=? r_calls r)
            && ((r_started r =? 0) || (0 <? r_min_margin r)) && (r_cancelled_started r <=? r_cancel_slow r))
           true
  | ParamsCase _ i m w => mkEx [] [] [] true 0 true true true (check_params i m w)
  end.
