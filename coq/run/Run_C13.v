(** Correspondence run for C13: arrival patterns against the live pool.

    Every case carries the observations of a live run ([lcase], spec/TimerObs.v: the
    one-sided facts and the executable invariants on lock-held snapshots, among them
    F0 "non-empty heap => a worker exists" and burst_bounded "watchers <= maxWorkers")
    plus what C13 is about:
      - lateness of every callback (start - fireT): at most [late_bound] when all
        callbacks are prompt;
      - wind-down: with nothing pending the worker count falls, never rises, and reaches
        0 within 3 * idle + 1 s after the last activity;
      - restart: a Call after wind-down is served.
    The three timing bounds are >= 100 x the quiet-system values; the harness sends a
    case that exceeds one only after it persisted over three runs of the scenario. *)
From Coq Require Import List ZArith NArith Bool.
From GL Require Import model.THeap model.TPool spec.TimerObs.
Import ListNotations.
Open Scope Z_scope.

Definition late_bound : Z := 1000000000.   (* 1 s *)

Record pcase := mkPC {
  p_live : lcase;
  p_idle : Z;                  (* ns; 0 = package default (30 s), wind-down not measured *)
  p_prompt : bool;             (* every callback returns at once *)
  p_wind : Z;                  (* ns from the last activity to "no worker, nothing pending"; -1 not measured; -2 not reached *)
  p_wseq : list Z;             (* distinct consecutive worker counts seen while winding down *)
  p_restart : Z;               (* -1 not tried, 0 the future scheduled after wind-down did not run, 1 it ran *)
  p_restart_lag : Z
}.

Definition lateness_ok (c : pcase) : bool :=
  if p_prompt c then
    forallb (fun f => forallb (fun s => s - lf_fire f <=? late_bound) (lf_starts f)) (lc_futs (p_live c))
  else true.

Fixpoint non_increasing (l : list Z) : bool :=
  match l with
  | a :: ((b :: _) as t) => (b <=? a) && non_increasing t
  | _ => true
  end.

Definition wind_ok (c : pcase) : bool :=
  if p_wind c =? -1 then true
  else (0 <=? p_wind c) && (p_wind c <=? 3 * p_idle c + 1000000000)
       && non_increasing (p_wseq c)
       && forallb (fun w => (0 <=? w) && (w <=? lc_maxw (p_live c))) (p_wseq c).

Definition restart_ok (c : pcase) : bool :=
  if p_restart c =? -1 then true
  else (p_restart c =? 1) && (0 <? p_restart_lag c) && (p_restart_lag c <=? late_bound).

Definition check_pcase (c : pcase) : bool :=
  check_live (p_live c) && lateness_ok c && wind_ok c && restart_ok c.

Inductive case := PoolCase (id : N) (c : pcase).

Definition c_id (c : case) : N := match c with PoolCase i _ => i end.
Definition check_case (c : case) : bool := match c with PoolCase _ p => check_pcase p end.

Definition mismatches (cs : list case) : list N :=
  map c_id (filter (fun c => negb (check_case c)) cs).

(* for replay: which part failed; the worst lateness *)
Record explanation := mkEx {
  ex_bad_futures : list fid; ex_bad_snapshots : list Z;
  ex_lateness_ok : bool; ex_max_lateness : Z; ex_wind_ok : bool; ex_restart_ok : bool }.

Definition explain (c : case) : explanation :=
  match c with
  | PoolCase _ p =>
      let lc := p_live p in
      mkEx (map lf_id (filter (fun f => negb (fut_ok f)) (lc_futs lc)))
           (map ls_t0 (filter (fun s => negb (snap_ok lc s)) (lc_snaps lc)))
           (lateness_ok p)
           (fold_left Z.max (flat_map (fun f => map (fun s => s - lf_fire f) (lf_starts f)) (lc_futs lc)) 0)
           (wind_ok p) (restart_ok p)
  end.
