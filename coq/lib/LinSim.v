(** Companions of lib/Lin.v used by C02.

    * [linearizable_sim]: linearizability is preserved along a forward
      simulation between two sequential specifications (same operations, same
      results): what is linearizable w.r.t. an implementation model is
      linearizable w.r.t. everything that model refines.
    * [xstep]: the system of [Lin.sstep] extended with silent steps ([XTau]: a
      thread works on something that is not the linearisation point of its
      operation; only the global event counter moves).  Every history it can
      produce is linearizable ([x_linearizable]); an implementation whose
      operations take several steps is shown linearizable by mapping each of
      its steps to one [xstep] (the linearisation point to [EAtom], all other
      internal steps to [XTau]).
    * counting lemmas that carry statements about sequential histories over to
      the concurrent histories they linearise. *)
From Coq Require Import List Arith Bool Lia Permutation.
From GL Require Import lib.Lin.
Import ListNotations.

Section Sim.
Context {S1 S2 O R : Type}.
Variable acc1 : S1 -> O -> R -> S1 -> Prop.
Variable acc2 : S2 -> O -> R -> S2 -> Prop.
Variable rel : S1 -> S2 -> Prop.
Hypothesis sim_step : forall s1 s2 o r s1', rel s1 s2 -> acc1 s1 o r s1' ->
  exists s2', acc2 s2 o r s2' /\ rel s1' s2'.

Lemma legal_sim : forall l s1 s2 sf1, rel s1 s2 -> legal acc1 s1 l sf1 ->
  exists sf2, legal acc2 s2 l sf2 /\ rel sf1 sf2.
Proof.
  induction l as [|x t IH]; intros s1 s2 sf1 Hr Hl; inversion Hl; subst.
  - exists s2. split; [constructor|exact Hr].
  - destruct (sim_step _ _ _ _ _ Hr H2) as [s2' [Ha Hr']].
    destruct (IH _ _ _ Hr' H4) as [sf2 [Hl2 Hrf]].
    exists sf2. split; [econstructor; eauto|exact Hrf].
Qed.

Theorem linearizable_sim : forall s1 s2 h, rel s1 s2 -> linearizable acc1 s1 h -> linearizable acc2 s2 h.
Proof.
  intros s1 s2 h Hr [l [sf [Hp [Hrt Hl]]]].
  destruct (legal_sim _ _ _ _ Hr Hl) as [sf2 [Hl2 _]].
  exists l, sf2. auto.
Qed.
End Sim.

Section Weaken.
Context {S O R : Type}.
Variable acc1 acc2 : S -> O -> R -> S -> Prop.
Hypothesis incl_acc : forall s o r s', acc1 s o r s' -> acc2 s o r s'.

Lemma legal_weaken : forall l s sf, legal acc1 s l sf -> legal acc2 s l sf.
Proof.
  induction l as [|x t IH]; intros s sf H; inversion H; subst; [constructor|].
  econstructor; eauto.
Qed.

Lemma linearizable_weaken : forall s h, linearizable acc1 s h -> linearizable acc2 s h.
Proof.
  intros s h [l [sf [Hp [Hrt Hl]]]]. exists l, sf. split; [exact Hp|]. split; [exact Hrt|].
  apply legal_weaken. exact Hl.
Qed.
End Weaken.

Section Restrict.
Context {S O R : Type}.
Variable acc : S -> O -> R -> S -> Prop.
Variable good : opr O R -> Prop.
Variable acc' : S -> O -> R -> S -> Prop.
(* a step of [acc] on a good operation record is a step of [acc'] *)
Hypothesis restrict_acc : forall s x s', good x -> acc s (o_op x) (o_res x) s' -> acc' s (o_op x) (o_res x) s'.

Lemma legal_restrict : forall l s sf, (forall x, In x l -> good x) -> legal acc s l sf -> legal acc' s l sf.
Proof.
  induction l as [|x t IH]; intros s sf Hg H; inversion H; subst; [constructor|].
  econstructor.
  - apply restrict_acc; [apply Hg; left; reflexivity|eassumption].
  - apply IH; [|assumption]. intros y Hy. apply Hg. right. exact Hy.
Qed.

Lemma linearizable_restrict : forall s h, (forall x, In x h -> good x) ->
  linearizable acc s h -> linearizable acc' s h.
Proof.
  intros s h Hg [l [sf [Hp [Hrt Hl]]]]. exists l, sf. split; [exact Hp|]. split; [exact Hrt|].
  apply legal_restrict; [|exact Hl].
  intros x Hx. apply Hg. eapply Permutation_in; eauto.
Qed.
End Restrict.

(** ** [Lin.sstep] with silent steps *)
Section Tau.
Context {S O R : Type}.
Variable acc : S -> O -> R -> S -> Prop.

Inductive xevent :=
| XE (e : event O R)
| XTau.

Definition tick (y : sys S O R) : sys S O R :=
  mkSys (shared y) (threads y) (Datatypes.S (clock y)) (done y) (order y).

Inductive xstep : sys S O R -> xevent -> sys S O R -> Prop :=
| x_base : forall y e y', sstep acc y e y' -> xstep y (XE e) y'
| x_tau : forall y, xstep y XTau (tick y).

Inductive xreach : sys S O R -> list xevent -> sys S O R -> Prop :=
| xreach_nil : forall y, xreach y [] y
| xreach_snoc : forall y tr y' e y'', xreach y tr y' -> xstep y' e y'' -> xreach y (tr ++ [e]) y''.

Lemma inv_ok_tick : forall s0 y, inv_ok acc s0 y -> inv_ok acc s0 (tick y).
Proof.
  intros s0 y [IL IB IN IT II IP IR ID]. constructor; cbn [tick shared threads clock done order]; auto.
  - intros e He. destruct (IB e He). lia.
  - intros t inv o Ht. specialize (II _ _ _ Ht). lia.
Qed.

Lemma inv_ok_xstep : forall s0 y e y', inv_ok acc s0 y -> xstep y e y' -> inv_ok acc s0 y'.
Proof.
  intros s0 y e y' I H. destruct H as [y e y' H|y].
  - eapply inv_ok_step; eauto.
  - apply inv_ok_tick. exact I.
Qed.

Lemma inv_ok_xreach : forall s0 tr y, xreach (sys_init s0) tr y -> inv_ok acc s0 y.
Proof.
  intros s0 tr y H. remember (sys_init s0) as y0 eqn:E. induction H as [|y0 tr y' e y'' H IH Hs]; subst.
  - apply inv_ok_init.
  - eapply inv_ok_xstep; [apply IH; reflexivity|exact Hs].
Qed.

(* the statement of [Lin.atomic_linearizable] for any state satisfying the invariant *)
Lemma inv_ok_linearizable : forall s0 y, inv_ok acc s0 y -> quiescent y ->
  exists l, Permutation l (done y) /\ rt_ordered l /\ legal acc s0 l (shared y).
Proof.
  intros s0 y [IL IB IN IT II IP IR ID] Hq.
  exists (completed (order y)). split; [apply Permutation_sym; exact ID|]. split.
  - apply (rt_completed _ 0 IR).
  - apply legal_completed; [|exact IL].
    intros e He Hnone. specialize (IP e He Hnone). rewrite Hq in IP. discriminate.
Qed.

Theorem x_linearizable : forall s0 tr y, xreach (sys_init s0) tr y -> quiescent y ->
  exists l, Permutation l (done y) /\ rt_ordered l /\ legal acc s0 l (shared y).
Proof. intros s0 tr y Hr Hq. apply inv_ok_linearizable; [eapply inv_ok_xreach; eauto|exact Hq]. Qed.

End Tau.

(** ** counting over permutations *)
Lemma perm_filter_length : forall {A} (f : A -> bool) l l', Permutation l l' ->
  length (filter f l) = length (filter f l').
Proof.
  intros A f l l' H. induction H as [|x l l' H IH|x y l|l l' l'' H1 IH1 H2 IH2]; cbn [filter].
  - reflexivity.
  - destruct (f x); cbn [length]; congruence.
  - destruct (f x), (f y); reflexivity.
  - congruence.
Qed.

Lemma filter_length_le1 : forall {A} (f : A -> bool) l,
  (forall l1 x l2, l = l1 ++ x :: l2 -> f x = true -> forall y, In y l2 -> f y = false) ->
  length (filter f l) <= 1.
Proof.
  intros A f l. induction l as [|a t IH]; intros H; cbn [filter]; [cbn; lia|].
  destruct (f a) eqn:Ea.
  - assert (Ht : filter f t = []).
    { assert (Hall : forall y, In y t -> f y = false) by (apply (H [] a t eq_refl Ea)).
      clear -Hall. induction t as [|b t IH]; [reflexivity|]. cbn [filter].
      rewrite (Hall b (or_introl eq_refl)). apply IH. intros y Hy. apply Hall. right. exact Hy. }
    rewrite Ht. cbn. lia.
  - apply IH. intros l1 x l2 E Hx y Hy. apply (H (a :: l1) x l2); [cbn; f_equal; exact E|exact Hx|exact Hy].
Qed.

(** ** a sequential history has one linearisation: itself *)
Section Sequential.
Context {O R : Type}.

(* every call returned before the next one was invoked *)
Fixpoint sequential (h : list (opr O R)) : Prop :=
  match h with
  | [] => True
  | x :: t => (forall y, In y t -> precedes x y) /\ sequential t
  end.

Lemma sequential_unique : forall h l, sequential h -> Permutation l h -> rt_ordered l -> l = h.
Proof.
  induction h as [|x t IH]; intros l Hs Hp Hrt.
  - apply Permutation_sym in Hp. apply Permutation_nil in Hp. exact Hp.
  - destruct l as [|a l']; [apply Permutation_nil in Hp; discriminate|].
    cbn [sequential rt_ordered] in Hs, Hrt. destruct Hs as [Hx Hs], Hrt as [Ha Hrt].
    assert (Hax : a = x).
    { assert (Hin : In a (x :: t)) by (eapply Permutation_in; [exact Hp|left; reflexivity]).
      destruct Hin as [E|Hin]; [auto|].
      assert (Hxl : In x (a :: l')) by (eapply Permutation_in; [apply Permutation_sym; exact Hp|left; reflexivity]).
      destruct Hxl as [E|Hxl]; [auto|]. exfalso. exact (Ha x Hxl (Hx a Hin)). }
    subst a. f_equal. apply IH; [exact Hs|eapply Permutation_cons_inv; exact Hp|exact Hrt].
Qed.

Lemma legal_in : forall {S} (acc : S -> O -> R -> S -> Prop) l s sf x, legal acc s l sf -> In x l ->
  exists s1 s2, acc s1 (o_op x) (o_res x) s2.
Proof.
  intros S acc. induction l as [|a t IH]; intros s sf x Hl Hx; [destruct Hx|].
  inversion Hl; subst. destruct Hx as [<-|Hx]; [eauto|]. eapply IH; eauto.
Qed.
End Sequential.
