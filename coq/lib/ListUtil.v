(** Generic list lemmas (stdlib only): [nth] through [firstn]/[skipn]/[app],
    splitting lemmas, extensionality by [nth], and counting by a boolean
    predicate.  Nothing here is specific to one property. *)
From Coq Require Import List Arith Lia.
Import ListNotations.

Section ListUtil.
Context {A : Type}.
Implicit Types (l : list A) (d : A).

(** ** [nth] through [skipn] / [firstn] / [app] *)

Lemma nth_nil_any : forall i d, nth i (@nil A) d = d.
Proof. intros [|i] d; reflexivity. Qed.

Lemma nth_skipn_add : forall m l i d, nth i (skipn m l) d = nth (m + i) l d.
Proof.
  induction m as [|m IH]; intros l i d.
  - reflexivity.
  - destruct l as [|x t].
    + cbn [skipn Nat.add]. rewrite !nth_nil_any. reflexivity.
    + cbn [skipn Nat.add nth]. apply IH.
Qed.

Lemma nth_firstn_lt : forall m l i d, i < m -> nth i (firstn m l) d = nth i l d.
Proof.
  induction m as [|m IH]; intros l i d Hi.
  - lia.
  - destruct l as [|x t].
    + reflexivity.
    + destruct i as [|i]; cbn [firstn nth].
      * reflexivity.
      * apply IH. lia.
Qed.

Lemma nth_app_lt : forall l1 l2 i d, i < length l1 -> nth i (l1 ++ l2) d = nth i l1 d.
Proof. intros l1 l2 i d Hi. apply app_nth1. exact Hi. Qed.

Lemma nth_app_ge : forall l1 l2 i d,
  length l1 <= i -> nth i (l1 ++ l2) d = nth (i - length l1) l2 d.
Proof. intros l1 l2 i d Hi. apply app_nth2. lia. Qed.

Lemma nth_repeat_any : forall (a : A) n i, nth i (repeat a n) a = a.
Proof.
  intros a n; induction n as [|n IH]; intros [|i]; cbn [repeat nth]; auto.
Qed.

(** ** Lengths *)

Lemma length_skipn : forall m l, length (skipn m l) = length l - m.
Proof.
  induction m as [|m IH]; intros l.
  - cbn [skipn]. lia.
  - destruct l as [|x t]; cbn [skipn length].
    + reflexivity.
    + apply IH.
Qed.

Lemma length_firstn : forall m l, length (firstn m l) = Nat.min m (length l).
Proof.
  induction m as [|m IH]; intros l.
  - reflexivity.
  - destruct l as [|x t]; cbn [firstn length].
    + reflexivity.
    + rewrite IH. reflexivity.
Qed.

(** ** Splitting and composing [firstn] / [skipn] *)

Lemma firstn_ge_all : forall m l, length l <= m -> firstn m l = l.
Proof.
  induction m as [|m IH]; intros l Hm.
  - destruct l as [|x t]; [reflexivity | cbn [length] in Hm; lia].
  - destruct l as [|x t]; [reflexivity|].
    cbn [firstn]. f_equal. apply IH. cbn [length] in Hm. lia.
Qed.

Lemma skipn_ge_nil : forall m l, length l <= m -> skipn m l = [].
Proof.
  induction m as [|m IH]; intros l Hm.
  - destruct l as [|x t]; [reflexivity | cbn [length] in Hm; lia].
  - destruct l as [|x t]; [reflexivity|].
    cbn [skipn]. apply IH. cbn [length] in Hm. lia.
Qed.

Lemma firstn_nil_any : forall m, firstn m (@nil A) = [].
Proof. intros [|m]; reflexivity. Qed.

Lemma skipn_nil_any : forall m, skipn m (@nil A) = [].
Proof. intros [|m]; reflexivity. Qed.

Lemma firstn_skipn_add : forall a l b,
  firstn a l ++ firstn b (skipn a l) = firstn (a + b) l.
Proof.
  induction a as [|a IH]; intros l b.
  - reflexivity.
  - destruct l as [|x t].
    + cbn [skipn]. rewrite !firstn_nil_any. reflexivity.
    + cbn [firstn skipn Nat.add app]. f_equal. apply IH.
Qed.

Lemma skipn_skipn_add : forall a l b, skipn b (skipn a l) = skipn (a + b) l.
Proof.
  induction a as [|a IH]; intros l b.
  - reflexivity.
  - destruct l as [|x t].
    + cbn [skipn Nat.add]. rewrite !skipn_nil_any. reflexivity.
    + cbn [skipn Nat.add]. apply IH.
Qed.

Lemma split3 : forall l a b, a <= b ->
  l = firstn a l ++ firstn (b - a) (skipn a l) ++ skipn b l.
Proof.
  intros l a b Hab.
  rewrite <- (firstn_skipn a l) at 1. f_equal.
  rewrite <- (firstn_skipn (b - a) (skipn a l)) at 1. f_equal.
  rewrite skipn_skipn_add. f_equal. lia.
Qed.

(** ** Extensionality *)

Lemma list_eq_nth : forall l1 l2 d,
  length l1 = length l2 ->
  (forall i, i < length l1 -> nth i l1 d = nth i l2 d) ->
  l1 = l2.
Proof. intros l1 l2 d Hlen Hnth. apply (nth_ext l1 l2 d d Hlen Hnth). Qed.

(** ** Counting *)

Definition count (f : A -> bool) l : nat := length (filter f l).

Lemma count_app : forall f l1 l2, count f (l1 ++ l2) = count f l1 + count f l2.
Proof.
  intros f l1 l2. unfold count. rewrite filter_app, app_length. reflexivity.
Qed.

Lemma count_all : forall f l d,
  (forall i, i < length l -> f (nth i l d) = true) -> count f l = length l.
Proof.
  intros f l d; induction l as [|x t IH]; intros Hall.
  - reflexivity.
  - unfold count in *. cbn [filter].
    pose proof (Hall 0 ltac:(cbn [length]; lia)) as H0. cbn [nth] in H0.
    rewrite H0. cbn [length]. f_equal. apply IH.
    intros i Hi. apply (Hall (S i)). cbn [length]. lia.
Qed.

Lemma count_none : forall f l d,
  (forall i, i < length l -> f (nth i l d) = false) -> count f l = 0.
Proof.
  intros f l d; induction l as [|x t IH]; intros Hall.
  - reflexivity.
  - unfold count in *. cbn [filter].
    pose proof (Hall 0 ltac:(cbn [length]; lia)) as H0. cbn [nth] in H0.
    rewrite H0. apply IH.
    intros i Hi. apply (Hall (S i)). cbn [length]. lia.
Qed.

Lemma count_split3 : forall f l a b, a <= b ->
  count f l =
  count f (firstn a l) + count f (firstn (b - a) (skipn a l)) + count f (skipn b l).
Proof.
  intros f l a b Hab.
  rewrite (split3 l a b Hab) at 1. rewrite !count_app. lia.
Qed.

(** ** [Forall] through [firstn] / [skipn] *)

Lemma Forall_skipn : forall (P : A -> Prop) m l, Forall P l -> Forall P (skipn m l).
Proof.
  intros P; induction m as [|m IH]; intros l Hl.
  - exact Hl.
  - destruct l as [|x t]; [constructor|].
    cbn [skipn]. apply IH. inversion Hl; assumption.
Qed.

Lemma Forall_firstn : forall (P : A -> Prop) m l, Forall P l -> Forall P (firstn m l).
Proof.
  intros P; induction m as [|m IH]; intros l Hl.
  - constructor.
  - destruct l as [|x t]; [constructor|].
    cbn [firstn]. inversion Hl as [|y t' Hx Ht]; subst.
    constructor; [assumption | apply IH; assumption].
Qed.

End ListUtil.
