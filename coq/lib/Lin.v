(** Linearizability (Herlihy & Wing) for complete histories, an executable
    checker for a proposed linearisation, and the "one atomic step per
    operation" theorem.

    * An operation record [opr] carries the stamps of its invocation and of its
      response (taken from one global counter), the operation and its result.
    * The sequential specification is a relation [acc s o r s']: in state [s]
      operation [o] may answer [r] and leave [s'] (a relation, because a
      specification may leave choices open: which fresh version, which instant).
    * [linearizable acc s0 h]: some permutation of [h] respects real time (an
      operation that returned before another was invoked comes first) and is a
      legal sequential history from [s0].
    * [valid_lin chk s0 h w] checks a witness [w] (positions of [h] in the
      proposed order) against an executable specification [chk]; it is sound
      ([valid_lin_sound]).  The search for [w] needs no trust.
    * [atomic_linearizable]: in a system where every operation is
      Invoke . one atomic step on the shared state . Return, every reachable
      history is linearizable, the witness being the order of the atomic steps. *)
From Coq Require Import List Arith Bool Lia Permutation.
Import ListNotations.

Section Lin.
Context {S O R : Type}.

Record opr := mkOpr { o_inv : nat; o_ret : nat; o_op : O; o_res : R }.

Definition history := list opr.

Variable acc : S -> O -> R -> S -> Prop.

Inductive legal : S -> list opr -> S -> Prop :=
| legal_nil : forall s, legal s [] s
| legal_cons : forall s x s' t s'',
    acc s (o_op x) (o_res x) s' -> legal s' t s'' -> legal s (x :: t) s''.

(* [a] returned before [b] was invoked *)
Definition precedes (a b : opr) : Prop := o_ret a < o_inv b.

(* no element is preceded (in real time) by an element that comes after it *)
Fixpoint rt_ordered (l : list opr) : Prop :=
  match l with
  | [] => True
  | x :: t => (forall y, In y t -> ~ precedes y x) /\ rt_ordered t
  end.

Definition linearizable (s0 : S) (h : history) : Prop :=
  exists l sf, Permutation l h /\ rt_ordered l /\ legal s0 l sf.

(** ** Executable witness checker *)

Variable chk : S -> O -> R -> option S.
Hypothesis chk_acc : forall s o r s', chk s o r = Some s' -> acc s o r s'.

Fixpoint legalb (s : S) (l : list opr) : bool :=
  match l with
  | [] => true
  | x :: t => match chk s (o_op x) (o_res x) with
              | Some s' => legalb s' t
              | None => false
              end
  end.

Fixpoint rt_orderedb (l : list opr) : bool :=
  match l with
  | [] => true
  | x :: t => forallb (fun y => negb (o_ret y <? o_inv x)) t && rt_orderedb t
  end.

Fixpoint memb (i : nat) (l : list nat) : bool :=
  match l with
  | [] => false
  | j :: t => (i =? j) || memb i t
  end.

Fixpoint nodupb (l : list nat) : bool :=
  match l with
  | [] => true
  | i :: t => negb (memb i t) && nodupb t
  end.

Fixpoint pick (h : history) (w : list nat) : option (list opr) :=
  match w with
  | [] => Some []
  | i :: t => match nth_error h i, pick h t with
              | Some x, Some l => Some (x :: l)
              | _, _ => None
              end
  end.

(* [w]: the positions of [h] (from 0) in the order of the proposed linearisation *)
Definition valid_lin (s0 : S) (h : history) (w : list nat) : bool :=
  (length w =? length h) && nodupb w &&
  match pick h w with
  | Some l => rt_orderedb l && legalb s0 l
  | None => false
  end.

Lemma legalb_legal : forall l s, legalb s l = true -> exists sf, legal s l sf.
Proof.
  induction l as [|x t IH]; intros s H.
  - exists s. constructor.
  - cbn [legalb] in H. destruct (chk s (o_op x) (o_res x)) as [s'|] eqn:E; [|discriminate].
    destruct (IH s' H) as [sf Hsf]. exists sf. econstructor; eauto.
Qed.

Lemma rt_orderedb_ok : forall l, rt_orderedb l = true -> rt_ordered l.
Proof.
  induction l as [|x t IH]; intros H; cbn [rt_orderedb rt_ordered] in *.
  - exact I.
  - apply andb_prop in H. destruct H as [H1 H2]. split; [|auto].
    intros y Hy Hp. rewrite forallb_forall in H1. specialize (H1 y Hy).
    unfold precedes in Hp. apply negb_true_iff in H1. apply Nat.ltb_ge in H1. lia.
Qed.

Lemma memb_In : forall i l, memb i l = true <-> In i l.
Proof.
  induction l as [|j t IH]; cbn [memb In].
  - split; [discriminate|tauto].
  - rewrite orb_true_iff, Nat.eqb_eq, IH. split; intros [H|H]; auto.
Qed.

Lemma nodupb_NoDup : forall l, nodupb l = true -> NoDup l.
Proof.
  induction l as [|i t IH]; intros H; cbn [nodupb] in H.
  - constructor.
  - apply andb_prop in H. destruct H as [H1 H2]. constructor; [|auto].
    intros Hin. apply memb_In in Hin. rewrite Hin in H1. discriminate.
Qed.

Lemma pick_lt : forall h w l, pick h w = Some l -> forall i, In i w -> i < length h.
Proof.
  induction w as [|j t IH]; intros l H i Hi; [destruct Hi|].
  cbn [pick] in H. destruct (nth_error h j) as [x|] eqn:E; [|discriminate].
  destruct (pick h t) as [l'|] eqn:E'; [|discriminate].
  destruct Hi as [<-|Hi].
  - apply nth_error_Some. congruence.
  - eapply IH; eauto.
Qed.

Lemma pick_map : forall h d w l, pick h w = Some l -> l = map (fun i => nth i h d) w.
Proof.
  induction w as [|j t IH]; intros l H; cbn [pick] in H.
  - injection H as <-. reflexivity.
  - destruct (nth_error h j) as [x|] eqn:E; [|discriminate].
    destruct (pick h t) as [l'|] eqn:E'; [|discriminate].
    injection H as <-. cbn [map]. f_equal; [|auto].
    symmetry. apply nth_error_nth. exact E.
Qed.

Lemma map_nth_seq : forall (h : history) d, map (fun i => nth i h d) (seq 0 (length h)) = h.
Proof.
  intros h d. induction h as [|x t IH]; [reflexivity|].
  cbn [length seq map nth]. f_equal.
  rewrite <- seq_shift, map_map. exact IH.
Qed.

Lemma perm_seq : forall w n, NoDup w -> length w = n -> (forall i, In i w -> i < n) ->
  Permutation w (seq 0 n).
Proof.
  intros w n Hnd Hlen Hlt.
  apply NoDup_Permutation; [exact Hnd|apply seq_NoDup|].
  intros i. split; intros Hi.
  - apply in_seq. specialize (Hlt i Hi). lia.
  - assert (Hincl : incl (seq 0 n) w).
    { apply NoDup_length_incl; [exact Hnd|rewrite seq_length; lia|].
      intros j Hj. apply in_seq. specialize (Hlt j Hj). lia. }
    apply Hincl. exact Hi.
Qed.

Theorem valid_lin_sound : forall s0 h w, valid_lin s0 h w = true -> linearizable s0 h.
Proof.
  intros s0 h w H. unfold valid_lin in H.
  apply andb_prop in H. destruct H as [H H3].
  apply andb_prop in H. destruct H as [H1 H2].
  destruct (pick h w) as [l|] eqn:E; [|discriminate].
  apply andb_prop in H3. destruct H3 as [H3 H4].
  apply Nat.eqb_eq in H1.
  destruct (legalb_legal _ _ H4) as [sf Hsf].
  exists l, sf. split; [|split; [apply rt_orderedb_ok; exact H3|exact Hsf]].
  destruct h as [|d h'].
  - destruct w; [|discriminate]. cbn in E. injection E as <-. constructor.
  - rewrite (pick_map _ d _ _ E).
    apply (Permutation_trans (l' := map (fun i => nth i (d :: h') d) (seq 0 (length (d :: h'))))).
    + apply Permutation_map. apply perm_seq; [apply nodupb_NoDup; exact H2|exact H1|].
      eapply pick_lt; eauto.
    + rewrite map_nth_seq. apply Permutation_refl.
Qed.

(** ** One atomic step per operation

    Threads are numbers.  A thread is idle, or has invoked an operation, or has
    executed the ONE atomic step of its operation (which fixes the result) and
    has not returned yet.  Stamps are positions in the trace (a global counter,
    as the harness takes them). *)

Inductive tstate :=
| Idle
| Invoked (inv : nat) (o : O)
| Took (id inv : nat) (o : O) (r : R).

Inductive event :=
| EInv (t : nat) (o : O)      (* thread t calls operation o *)
| EAtom (t : nat) (r : R)     (* the atomic step of t's operation; the result r is fixed here *)
| ERet (t : nat).             (* the call returns *)

(* ghost record of an operation whose atomic step has happened *)
Record entry := mkE { e_id : nat; e_tid : nat; e_inv : nat; e_op : O; e_res : R; e_ret : option nat }.

Record sys := mkSys {
  shared : S;
  threads : nat -> tstate;
  clock : nat;                (* number of events so far *)
  done : history;             (* the observable history: completed operations, in the order of their responses *)
  order : list entry          (* ghost: the operations in the order of their atomic steps *)
}.

Definition upd (f : nat -> tstate) (t : nat) (x : tstate) : nat -> tstate :=
  fun u => if u =? t then x else f u.

Definition patch (id ret : nat) (l : list entry) : list entry :=
  map (fun e => if e_id e =? id then mkE (e_id e) (e_tid e) (e_inv e) (e_op e) (e_res e) (Some ret) else e) l.

Inductive sstep : sys -> event -> sys -> Prop :=
| s_inv : forall y t o, threads y t = Idle ->
    sstep y (EInv t o)
      (mkSys (shared y) (upd (threads y) t (Invoked (Datatypes.S (clock y)) o)) (Datatypes.S (clock y))
             (done y) (order y))
| s_atom : forall y t inv o r s', threads y t = Invoked inv o -> acc (shared y) o r s' ->
    sstep y (EAtom t r)
      (mkSys s' (upd (threads y) t (Took (Datatypes.S (clock y)) inv o r)) (Datatypes.S (clock y))
             (done y) (order y ++ [mkE (Datatypes.S (clock y)) t inv o r None]))
| s_ret : forall y t id inv o r, threads y t = Took id inv o r ->
    sstep y (ERet t)
      (mkSys (shared y) (upd (threads y) t Idle) (Datatypes.S (clock y))
             (done y ++ [mkOpr inv (Datatypes.S (clock y)) o r])
             (patch id (Datatypes.S (clock y)) (order y))).

Inductive reach : sys -> list event -> sys -> Prop :=
| reach_nil : forall y, reach y [] y
| reach_snoc : forall y tr y' e y'', reach y tr y' -> sstep y' e y'' -> reach y (tr ++ [e]) y''.

Definition sys_init (s0 : S) : sys := mkSys s0 (fun _ => Idle) 0 [] [].

(* every invoked operation has returned *)
Definition quiescent (y : sys) : Prop := forall t, threads y t = Idle.

(* the sequential history of the atomic steps, response stamps filled in where known *)
Definition completed (l : list entry) : list opr :=
  flat_map (fun e => match e_ret e with
                     | Some r => [mkOpr (e_inv e) r (e_op e) (e_res e)]
                     | None => []
                     end) l.

Inductive legal_e : S -> list entry -> S -> Prop :=
| legal_e_nil : forall s, legal_e s [] s
| legal_e_cons : forall s x s' t s'',
    acc s (e_op x) (e_res x) s' -> legal_e s' t s'' -> legal_e s (x :: t) s''.

(* real time, with the largest invocation stamp seen so far as accumulator: an operation
   returns after the invocation of everything that took effect before it *)
Fixpoint rt_inv (m : nat) (l : list entry) : Prop :=
  match l with
  | [] => True
  | b :: t => (forall rb, e_ret b = Some rb -> m < rb) /\ rt_inv (Nat.max m (e_inv b)) t
  end.

Record inv_ok (s0 : S) (y : sys) : Prop := {
  i_legal : legal_e s0 (order y) (shared y);
  i_bound : forall e, In e (order y) -> e_id e <= clock y /\ e_inv e <= clock y;
  i_nodup : NoDup (map e_id (order y));
  i_took : forall t id inv o r, threads y t = Took id inv o r -> In (mkE id t inv o r None) (order y);
  i_invoked : forall t inv o, threads y t = Invoked inv o -> inv <= clock y;
  i_pending : forall e, In e (order y) -> e_ret e = None ->
                threads y (e_tid e) = Took (e_id e) (e_inv e) (e_op e) (e_res e);
  i_rt : rt_inv 0 (order y);
  i_done : Permutation (done y) (completed (order y))
}.

Lemma legal_e_app : forall l s s' x s'',
  legal_e s l s' -> acc s' (e_op x) (e_res x) s'' -> legal_e s (l ++ [x]) s''.
Proof.
  induction l as [|a t IH]; intros s s' x s'' H Ha.
  - inversion H; subst. cbn. econstructor; [eauto|constructor].
  - inversion H; subst. cbn. econstructor; eauto.
Qed.

Lemma legal_e_patch : forall id c l s s', legal_e s l s' -> legal_e s (patch id c l) s'.
Proof.
  induction l as [|a t IH]; intros s s' H; inversion H; subst; cbn.
  - constructor.
  - econstructor; [|apply IH; eauto].
    destruct (e_id a =? id); cbn; assumption.
Qed.

Lemma in_patch : forall id c l e, In e (patch id c l) ->
  exists e0, In e0 l /\
    ((e_id e0 <> id /\ e = e0) \/
     (e_id e0 = id /\ e = mkE (e_id e0) (e_tid e0) (e_inv e0) (e_op e0) (e_res e0) (Some c))).
Proof.
  intros id c l e H. unfold patch in H. apply in_map_iff in H. destruct H as [e0 [He Hin]].
  exists e0. split; [exact Hin|].
  destruct (e_id e0 =? id) eqn:E.
  - right. apply Nat.eqb_eq in E. auto.
  - left. apply Nat.eqb_neq in E. auto.
Qed.

Lemma in_patch_other : forall id c l e, In e l -> e_id e <> id -> In e (patch id c l).
Proof.
  intros id c l e H Hne. unfold patch. apply in_map_iff. exists e. split; [|exact H].
  apply Nat.eqb_neq in Hne. rewrite Hne. reflexivity.
Qed.

Lemma map_id_patch : forall id c l, map e_id (patch id c l) = map e_id l.
Proof.
  intros id c l. unfold patch. rewrite map_map. apply map_ext.
  intros a. destruct (e_id a =? id); reflexivity.
Qed.

Lemma nodup_id_eq : forall l e1 e2, NoDup (map e_id l) -> In e1 l -> In e2 l -> e_id e1 = e_id e2 -> e1 = e2.
Proof.
  induction l as [|a t IH]; intros e1 e2 Hnd H1 H2 Heq; [destruct H1|].
  cbn in Hnd. inversion Hnd as [|? ? Hnot Hnd']; subst.
  destruct H1 as [<-|H1], H2 as [<-|H2]; auto.
  - exfalso. apply Hnot. rewrite Heq. apply in_map. exact H2.
  - exfalso. apply Hnot. rewrite <- Heq. apply in_map. exact H1.
Qed.

Lemma completed_app : forall l1 l2, completed (l1 ++ l2) = completed l1 ++ completed l2.
Proof. intros. unfold completed. apply flat_map_app. Qed.

Lemma completed_cons : forall a l, completed (a :: l) = completed [a] ++ completed l.
Proof. intros a l. exact (completed_app [a] l). Qed.

Lemma patch_absent : forall id c l, ~ In id (map e_id l) -> patch id c l = l.
Proof.
  induction l as [|a t IH]; intros H; [reflexivity|].
  cbn in *. destruct (e_id a =? id) eqn:E.
  - apply Nat.eqb_eq in E. exfalso. apply H. auto.
  - f_equal. apply IH. tauto.
Qed.

Lemma completed_patch : forall id c l e0, NoDup (map e_id l) -> In e0 l -> e_id e0 = id -> e_ret e0 = None ->
  Permutation (completed (patch id c l)) (mkOpr (e_inv e0) c (e_op e0) (e_res e0) :: completed l).
Proof.
  induction l as [|a t IH]; intros e0 Hnd Hin Hid Hret; [destruct Hin|].
  cbn in Hnd. inversion Hnd as [|? ? Hnot Hnd']; subst.
  destruct Hin as [->|Hin].
  - cbn [patch map]. rewrite Nat.eqb_refl. fold (patch (e_id e0) c t).
    rewrite (patch_absent _ _ _ Hnot).
    unfold completed at 1 2. cbn [flat_map e_ret e_inv e_op e_res]. rewrite Hret. cbn [app].
    apply Permutation_refl.
  - assert (Hne : e_id a <> e_id e0).
    { intros E. apply Hnot. rewrite E. apply in_map. exact Hin. }
    cbn [patch map]. apply Nat.eqb_neq in Hne. rewrite Hne. fold (patch (e_id e0) c t).
    rewrite (completed_cons a (patch (e_id e0) c t)).
    rewrite (completed_cons a (t)).
    eapply Permutation_trans; [apply Permutation_app_head; apply (IH e0); auto|].
    apply Permutation_sym. apply Permutation_middle.
Qed.

Lemma rt_inv_mono : forall l m m', m' <= m -> rt_inv m l -> rt_inv m' l.
Proof.
  induction l as [|b t IH]; intros m m' Hle H; [exact I|].
  cbn [rt_inv] in *. destruct H as [H1 H2]. split.
  - intros rb Hrb. specialize (H1 rb Hrb). lia.
  - eapply IH; [|exact H2]. lia.
Qed.

Lemma rt_inv_app_none : forall l m x, rt_inv m l -> e_ret x = None -> rt_inv m (l ++ [x]).
Proof.
  induction l as [|b t IH]; intros m x H Hx; cbn [app rt_inv] in *.
  - split; [|exact I]. intros rb Hrb. congruence.
  - destruct H as [H1 H2]. split; [exact H1|]. apply IH; assumption.
Qed.

Lemma rt_inv_patch : forall id c l m, rt_inv m l -> m <= c -> (forall e, In e l -> e_inv e <= c) ->
  rt_inv m (patch id (Datatypes.S c) l).
Proof.
  induction l as [|b t IH]; intros m H Hm Hb; [exact I|].
  cbn [patch map]. fold (patch id (Datatypes.S c) t). cbn [rt_inv] in *. destruct H as [H1 H2].
  assert (Hbb : e_inv b <= c) by (apply Hb; left; reflexivity).
  destruct (e_id b =? id); cbn [e_ret e_inv].
  - split.
    + intros rb Hrb. injection Hrb as <-. lia.
    + apply IH; [exact H2|lia|]. intros e He. apply Hb. right. exact He.
  - split; [exact H1|].
    apply IH; [exact H2|lia|]. intros e He. apply Hb. right. exact He.
Qed.

Lemma NoDup_app_snoc : forall (l : list nat) x, NoDup l -> ~ In x l -> NoDup (l ++ [x]).
Proof.
  induction l as [|a t IH]; intros x Hnd Hx; cbn.
  - constructor; [intros []|constructor].
  - inversion Hnd as [|? ? Ha Ht]; subst. constructor.
    + intros Hin. apply in_app_or in Hin. destruct Hin as [Hin|[<-|[]]]; [auto|].
      apply Hx. left. reflexivity.
    + apply IH; [exact Ht|]. intros Hin. apply Hx. right. exact Hin.
Qed.

Lemma inv_ok_init : forall s0, inv_ok s0 (sys_init s0).
Proof.
  intros s0. constructor; cbn.
  - constructor.
  - intros e [].
  - constructor.
  - intros t id inv o r H. discriminate.
  - intros t inv o H. discriminate.
  - intros e [].
  - exact I.
  - constructor.
Qed.

Lemma inv_ok_step : forall s0 y e y', inv_ok s0 y -> sstep y e y' -> inv_ok s0 y'.
Proof.
  intros s0 y e y' I Hs. destruct I as [IL IB IN IT II IP IR ID].
  inversion Hs as [y0 t o Ht | y0 t inv o r s' Ht Hacc | y0 t id inv o r Ht]; subst y0; subst.
  - (* invocation *)
    constructor; cbn [shared threads clock done order].
    + exact IL.
    + intros e0 He. destruct (IB e0 He). lia.
    + exact IN.
    + intros t' id inv o' r Hth. unfold upd in Hth. destruct (t' =? t); [discriminate|]. eauto.
    + intros t' inv o' Hth. unfold upd in Hth. destruct (t' =? t) eqn:E.
      * injection Hth as <- <-. lia.
      * specialize (II _ _ _ Hth). lia.
    + intros e0 He Hr. specialize (IP e0 He Hr). unfold upd.
      destruct (e_tid e0 =? t) eqn:E; [|exact IP].
      apply Nat.eqb_eq in E. rewrite E in IP. congruence.
    + exact IR.
    + exact ID.
  - (* the atomic step *)
    constructor; cbn [shared threads clock done order].
    + eapply legal_e_app; eauto.
    + intros e0 He. apply in_app_or in He. destruct He as [He|[<-|[]]].
      * destruct (IB e0 He). lia.
      * cbn. specialize (II _ _ _ Ht). lia.
    + rewrite map_app. cbn [map e_id]. apply NoDup_app_snoc; [exact IN|].
      intros Hin. apply in_map_iff in Hin. destruct Hin as [e0 [He0 Hin]].
      destruct (IB e0 Hin). lia.
    + intros t' id inv' o' r' Hth. unfold upd in Hth. destruct (t' =? t) eqn:E.
      * apply Nat.eqb_eq in E. subst t'. injection Hth as <- <- <- <-.
        apply in_or_app. right. left. reflexivity.
      * apply in_or_app. left. eauto.
    + intros t' inv' o' Hth. unfold upd in Hth. destruct (t' =? t); [discriminate|].
      specialize (II _ _ _ Hth). lia.
    + intros e0 He Hr. apply in_app_or in He. destruct He as [He|[<-|[]]].
      * specialize (IP e0 He Hr). unfold upd.
        destruct (e_tid e0 =? t) eqn:E; [|exact IP].
        apply Nat.eqb_eq in E. rewrite E in IP. congruence.
      * cbn. unfold upd. rewrite Nat.eqb_refl. reflexivity.
    + apply rt_inv_app_none; [exact IR|reflexivity].
    + rewrite completed_app. cbn. rewrite app_nil_r. exact ID.
  - (* the response *)
    pose proof (IT _ _ _ _ _ Ht) as Hin.
    constructor; cbn [shared threads clock done order].
    + apply legal_e_patch. exact IL.
    + intros e0 He. apply in_patch in He. destruct He as [e1 [He1 [[_ ->]|[_ ->]]]];
        destruct (IB e1 He1); cbn; lia.
    + rewrite map_id_patch. exact IN.
    + intros t' id' inv' o' r' Hth. unfold upd in Hth. destruct (t' =? t) eqn:E; [discriminate|].
      pose proof (IT _ _ _ _ _ Hth) as Hin'.
      apply in_patch_other; [exact Hin'|]. cbn. intros Heq. subst id'.
      assert (Hsame := nodup_id_eq _ _ _ IN Hin Hin' eq_refl).
      injection Hsame as -> _ _ _. rewrite Nat.eqb_refl in E. discriminate.
    + intros t' inv' o' Hth. unfold upd in Hth. destruct (t' =? t); [discriminate|].
      specialize (II _ _ _ Hth). lia.
    + intros e0 He Hr. apply in_patch in He. destruct He as [e1 [He1 [[Hne ->]|[_ ->]]]]; [|discriminate].
      specialize (IP e1 He1 Hr). unfold upd.
      destruct (e_tid e1 =? t) eqn:E; [|exact IP].
      apply Nat.eqb_eq in E. rewrite E in IP. rewrite Ht in IP. injection IP as -> _ _ _. congruence.
    + apply rt_inv_patch; [exact IR|lia|]. intros e0 He. destruct (IB e0 He). lia.
    + eapply Permutation_trans; [apply Permutation_app_tail; exact ID|].
      eapply Permutation_trans; [apply Permutation_app_comm|]. cbn [app].
      apply Permutation_sym.
      apply (completed_patch id (Datatypes.S (clock y)) (order y) _ IN Hin eq_refl eq_refl).
Qed.

Lemma inv_ok_reach : forall s0 tr y, reach (sys_init s0) tr y -> inv_ok s0 y.
Proof.
  intros s0 tr y H. remember (sys_init s0) as y0 eqn:E. induction H as [|y0 tr y' e y'' H IH Hs]; subst.
  - apply inv_ok_init.
  - eapply inv_ok_step; [apply IH; reflexivity|exact Hs].
Qed.

(* when every entry has its response stamp *)
Lemma legal_completed : forall l s s', (forall e, In e l -> e_ret e <> None) ->
  legal_e s l s' -> legal s (completed l) s'.
Proof.
  induction l as [|a t IH]; intros s s' Hall H; inversion H; subst.
  - constructor.
  - rewrite (completed_cons a (t)).
    unfold completed at 1. cbn [flat_map].
    destruct (e_ret a) as [r|] eqn:E; [|exfalso; eapply Hall; [left; reflexivity|exact E]].
    cbn [app]. econstructor; [cbn; eassumption|].
    apply IH; [|assumption]. intros e He. apply Hall. right. exact He.
Qed.

Lemma rt_completed : forall l m, rt_inv m l ->
  (forall y, In y (completed l) -> m < o_ret y) /\ rt_ordered (completed l).
Proof.
  induction l as [|b t IH]; intros m H; cbn [rt_inv] in H.
  - split; [intros y []|exact I].
  - destruct H as [H1 H2]. destruct (IH _ H2) as [IH1 IH2].
    rewrite (completed_cons b (t)).
    unfold completed at 1 3. cbn [flat_map].
    destruct (e_ret b) as [rb|] eqn:E; cbn [app].
    + split.
      * intros y [<-|Hy]; [cbn; auto|]. specialize (IH1 y Hy). lia.
      * cbn [rt_ordered]. split; [|exact IH2].
        intros y Hy Hp. unfold precedes in Hp. cbn in Hp. specialize (IH1 y Hy). lia.
    + split; [|exact IH2]. intros y Hy. specialize (IH1 y Hy). lia.
Qed.

(** Every history a system of this shape can produce is linearizable (stated
    at quiescent states, where the history is complete; the linearisation is
    the order of the atomic steps and ends in the current shared state). *)
Theorem atomic_linearizable : forall s0 tr y,
  reach (sys_init s0) tr y -> quiescent y ->
  exists l, Permutation l (done y) /\ rt_ordered l /\ legal s0 l (shared y).
Proof.
  intros s0 tr y Hr Hq. destruct (inv_ok_reach _ _ _ Hr) as [IL IB IN IT II IP IR ID].
  exists (completed (order y)). split; [apply Permutation_sym; exact ID|]. split.
  - apply (rt_completed _ 0 IR).
  - apply legal_completed; [|exact IL].
    intros e He Hnone. specialize (IP e He Hnone). rewrite Hq in IP. discriminate.
Qed.

Corollary atomic_linearizable' : forall s0 tr y,
  reach (sys_init s0) tr y -> quiescent y -> linearizable s0 (done y).
Proof.
  intros s0 tr y Hr Hq. destruct (atomic_linearizable _ _ _ Hr Hq) as [l [H1 [H2 H3]]].
  exists l, (shared y). auto.
Qed.

End Lin.

Arguments opr : clear implicits.
Arguments history : clear implicits.
Arguments event : clear implicits.
Arguments sys : clear implicits.
Arguments entry : clear implicits.
Arguments tstate : clear implicits.
