(** GoLitePtr: additions to the GoLite target library for stage 7 of the
    translator (container/iterable/map.go): Go maps as association-list values,
    a loop whose fuel is the number of heap objects, and the stepping lemmas /
    tactics for code that walks a pointer structure of heap objects.  TRUSTED
    (the definitions; the lemmas are checked): see notes/TRANSLATOR.md, Stage 7.

    - a Go map [map[K]V] with K, V integers / pointers / type parameters is the
      VALUE [gomap = list (Z * Z)] (the first binding of a key is the current
      one; [mapset] removes the older ones, so a list built by the translated
      operations has at most one binding per key).  Go maps are references;
      the translated code may hold a map only in one place (a field of a
      record that is itself threaded by value), so the value model is exact as
      long as the map is not aliased.  The nil map and the empty map are not
      distinguished (a write to a nil map panics in Go: not modelled).
    - [iter_objs body s]: a [for] loop that follows pointers and mentions no
      slice; its fuel is the number of arrays in the heap plus one (a walk over
      distinct objects cannot be longer).  The theorems over the generated code
      prove that it suffices.

    Stdlib only, no axioms. *)
From Coq Require Import List ZArith Lia Bool.
From GL Require Import lib.GoLite.
Import ListNotations.
Open Scope Z_scope.

(** * Go maps *)

Definition gomap := list (Z * Z).

(* make(map[K]V), and the zero value *)
Definition mapnew : gomap := [].

Fixpoint mapfind (k : Z) (m : gomap) : option Z :=
  match m with
  | [] => None
  | (k', v) :: t => if k' =? k then Some v else mapfind k t
  end.

(* v, ok := m[k] *)
Definition mapget (k : Z) (m : gomap) : Z * bool :=
  match mapfind k m with Some v => (v, true) | None => (0, false) end.

(* delete(m, k) *)
Definition mapdel (k : Z) (m : gomap) : gomap := filter (fun p => negb (fst p =? k)) m.

(* m[k] = v *)
Definition mapset (k v : Z) (m : gomap) : gomap := (k, v) :: mapdel k m.

(* len(m) *)
Definition maplen (m : gomap) : Z := Z.of_nat (length m).

(** * A loop over heap objects *)

Definition iter_objs {S R} (body : S -> M (step S R)) (s : S) : M R :=
  fun h => iter (Datatypes.S (length h)) body s h.

Lemma iter_objs_eq {S R} (body : S -> M (step S R)) s h :
  iter_objs body s h = iter (Datatypes.S (length h)) body s h.
Proof. reflexivity. Qed.

(** * Lemmas: maps *)

Lemma mapfind_mapdel_same k m : mapfind k (mapdel k m) = None.
Proof.
  induction m as [|[k' v] t IH]; [reflexivity|]. cbn [mapdel filter fst].
  destruct (Z.eqb_spec k' k) as [E|E]; cbn [negb]; [exact IH|].
  cbn [mapfind]. destruct (Z.eqb_spec k' k); [contradiction|exact IH].
Qed.

Lemma mapfind_mapdel_other k k' m : k' <> k -> mapfind k' (mapdel k m) = mapfind k' m.
Proof.
  intros Hne. induction m as [|[k0 v] t IH]; [reflexivity|]. cbn [mapdel filter fst].
  destruct (Z.eqb_spec k0 k) as [E|E]; cbn [negb mapfind].
  - subst k0. destruct (Z.eqb_spec k k'); [congruence|exact IH].
  - destruct (Z.eqb_spec k0 k'); [reflexivity|exact IH].
Qed.

Lemma mapdel_absent k m : mapfind k m = None -> mapdel k m = m.
Proof.
  induction m as [|[k' v] t IH]; [reflexivity|]. cbn [mapfind mapdel filter fst].
  destruct (Z.eqb_spec k' k); [discriminate|]. cbn [negb]. intros H. f_equal. apply IH. exact H.
Qed.

Lemma mapget_mapset_same k v m : mapget k (mapset k v m) = (v, true).
Proof. unfold mapget, mapset. cbn [mapfind]. rewrite Z.eqb_refl. reflexivity. Qed.

Lemma mapget_mapset_other k k' v m : k' <> k -> mapget k' (mapset k v m) = mapget k' m.
Proof.
  intros Hne. unfold mapget, mapset. cbn [mapfind].
  destruct (Z.eqb_spec k k'); [congruence|]. rewrite mapfind_mapdel_other by exact Hne. reflexivity.
Qed.

(** * Lemmas: a nil / non-nil object pointer *)

Section PtrSteps.
Context {B : Type}.

Lemma bind_fld_store_nil p k v (kk : unit -> M B) h : p <= 0 -> bind (fld_store p k v) kk h = GoPanic.
Proof. intros Hp. unfold bind, fld_store. destruct (Z.leb_spec p 0); [reflexivity|lia]. Qed.

End PtrSteps.
