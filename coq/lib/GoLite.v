(** GoLite: the small hand-written library the Go-to-Gallina translator
    (harness/cmd/go2coq) targets.  TRUSTED: the definitions of this file are the
    semantics given to the translated subset of Go (notes/TRANSLATOR.md).

    - outcomes [Ok a | GoPanic | NoFuel] and a state monad [M] over a heap of
      arrays ([list (list Z)]);
    - machine integers are [Z] with explicit wrap functions ([u8] .. [u64],
      [i8] .. [i64]); shifts with Go semantics (a count >= width gives 0);
    - slices are descriptors [(array id, offset, len, cap)]; index and slice
      expressions check bounds exactly as Go does and yield [GoPanic];
    - [copy], [make], the loop combinator [iter] on explicit fuel;
    - library calls of the translated sources: encoding/binary.BigEndian
      ([be_put]/[be_get]), the casts of cast/bytes_string.go (identity).

    The second half are the characterising lemmas used by the proofs over
    generated code (coqgen/*_GenFn.v) and a few stepping tactics.  Stdlib only,
    no axioms. *)
From Coq Require Import List ZArith Lia Bool.
From Coq Require Import ZifyBool.
Import ListNotations.
Open Scope Z_scope.

(** * Auxiliary list lemmas (nat indices) *)

Lemma nth_skipn_aux {A} : forall m (l : list A) i d, nth i (skipn m l) d = nth (m + i) l d.
Proof.
  induction m as [|m IH]; intros l i d; [reflexivity|].
  destruct l as [|x t]; cbn [skipn Nat.add nth]; [destruct i; reflexivity|apply IH].
Qed.

Lemma nth_firstn_aux {A} : forall m (l : list A) i d, (i < m)%nat -> nth i (firstn m l) d = nth i l d.
Proof.
  induction m as [|m IH]; intros l i d Hi; [lia|].
  destruct l as [|x t]; [reflexivity|].
  destruct i as [|i]; cbn [firstn nth]; [reflexivity|apply IH; lia].
Qed.

Lemma skipn_skipn {A} : forall a b (l : list A), skipn a (skipn b l) = skipn (b + a) l.
Proof.
  intros a b. revert a. induction b as [|b IH]; intros a l; [reflexivity|].
  destruct l as [|x t]; cbn [skipn Nat.add]; [destruct a; reflexivity|apply IH].
Qed.

Lemma firstn_add_aux {A} : forall a b (l : list A),
  firstn (a + b) l = firstn a l ++ firstn b (skipn a l).
Proof.
  induction a as [|a IH]; intros b l; [reflexivity|].
  destruct l as [|x t]; cbn [Nat.add firstn skipn app]; [destruct b; reflexivity|].
  f_equal. apply IH.
Qed.

Lemma nth_ext_aux (l1 l2 : list Z) :
  length l1 = length l2 ->
  (forall i, (i < length l1)%nat -> nth i l1 0 = nth i l2 0) -> l1 = l2.
Proof. intros H1 H2. apply (nth_ext l1 l2 0 0 H1 H2). Qed.

Lemma skipn_nth_aux {A} : forall (h : list A) a d, (a < length h)%nat ->
  skipn a h = nth a h d :: skipn (S a) h.
Proof.
  induction h as [|x t IH]; intros a d Ha; cbn [length] in Ha; [lia|].
  destruct a as [|a]; [reflexivity|]. cbn [skipn nth]. apply IH. lia.
Qed.

(** * Outcomes and the monad *)

Inductive outcome (A : Type) : Type :=
| Ok (a : A)
| GoPanic
| NoFuel.
Arguments Ok {A} a.
Arguments GoPanic {A}.
Arguments NoFuel {A}.

Definition heap := list (list Z).
Definition M (A : Type) : Type := heap -> outcome (A * heap).

Definition ret {A} (a : A) : M A := fun h => Ok (a, h).
Definition bind {A B} (m : M A) (k : A -> M B) : M B :=
  fun h => match m h with
           | Ok (a, h') => k a h'
           | GoPanic => GoPanic
           | NoFuel => NoFuel
           end.
Definition gopanic {A} : M A := fun _ => GoPanic.

Notation "x <- m ;; k" := (bind m (fun x => k))
  (at level 61, m at next level, right associativity).
Notation "' p <- m ;; k" := (bind m (fun p => k))
  (at level 61, p pattern, m at next level, right associativity).

(* errors: only nil / non-nil matters *)
Inductive error := ENil | Err.
Definition is_nil (e : error) : bool := match e with ENil => true | Err => false end.

(** * Machine integers *)

Definition u8 (x : Z) : Z := x mod 256.
Definition u16 (x : Z) : Z := x mod 65536.
Definition u32 (x : Z) : Z := x mod 4294967296.
Definition u64 (x : Z) : Z := x mod 18446744073709551616.
Definition i8 (x : Z) : Z := (x + 128) mod 256 - 128.
Definition i16 (x : Z) : Z := (x + 32768) mod 65536 - 32768.
Definition i32 (x : Z) : Z := (x + 2147483648) mod 4294967296 - 2147483648.
Definition i64 (x : Z) : Z :=
  (x + 9223372036854775808) mod 18446744073709551616 - 9223372036854775808.

(* x << s at a type with wrap function [w] and [bits] bits; s >= 0 (the
   translator only accepts unsigned or constant shift counts) *)
Definition shl (w : Z -> Z) (bits : Z) (x s : Z) : Z :=
  if bits <=? s then 0 else w (Z.shiftl x s).
(* x >> s: arithmetic on Z is exact for both signed and unsigned x *)
Definition shr (x s : Z) : Z := Z.shiftr x s.

(* x / y and x % y (truncated) with the run-time panic on y = 0 *)
Definition godiv (w : Z -> Z) (x y : Z) : M Z :=
  if y =? 0 then gopanic else ret (w (Z.quot x y)).
Definition gorem (w : Z -> Z) (x y : Z) : M Z :=
  if y =? 0 then gopanic else ret (w (Z.rem x y)).

(** * Lists indexed by Z *)

Definition zlen {A} (l : list A) : Z := Z.of_nat (length l).
Definition znth (l : list Z) (i : Z) : Z := nth (Z.to_nat i) l 0.
(* l[lo : lo+n] *)
Definition zsub (l : list Z) (lo n : Z) : list Z :=
  firstn (Z.to_nat n) (skipn (Z.to_nat lo) l).
(* overwrite l[at : at+len d] with d *)
Definition zsplice (l : list Z) (at_ : Z) (d : list Z) : list Z :=
  firstn (Z.to_nat at_) l ++ d ++ skipn (Z.to_nat at_ + length d) l.

(** * Heap and slices *)

Record gslice := mkSl { s_arr : nat; s_off : Z; s_len : Z; s_cap : Z }.

Definition nil_slice : gslice := mkSl 0 0 0 0.

Definition arr_get (h : heap) (a : nat) : list Z := nth a h [].
Definition arr_set (h : heap) (a : nat) (l : list Z) : heap :=
  firstn a h ++ l :: skipn (S a) h.

(* the visible elements / the elements up to cap *)
Definition sl_get (h : heap) (s : gslice) : list Z :=
  zsub (arr_get h (s_arr s)) (s_off s) (s_len s).
Definition sl_cap (h : heap) (s : gslice) : list Z :=
  zsub (arr_get h (s_arr s)) (s_off s) (s_cap s).
(* overwrite s[at : at+len d] *)
Definition sl_put (h : heap) (s : gslice) (at_ : Z) (d : list Z) : heap :=
  arr_set h (s_arr s) (zsplice (arr_get h (s_arr s)) (s_off s + at_) d).

(* a descriptor that denotes a Go slice in heap h *)
Definition wf_slice (h : heap) (s : gslice) : Prop :=
  (s_arr s < length h)%nat /\ 0 <= s_off s /\ 0 <= s_len s <= s_cap s /\
  s_off s + s_cap s <= zlen (arr_get h (s_arr s)) /\
  s_cap s < 9223372036854775808.

(* s[i] *)
Definition load (s : gslice) (i : Z) : M Z := fun h =>
  if (0 <=? i) && (i <? s_len s)
  then Ok (znth (arr_get h (s_arr s)) (s_off s + i), h)
  else GoPanic.

(* s[i] = v *)
Definition store (s : gslice) (i v : Z) : M unit := fun h =>
  if (0 <=? i) && (i <? s_len s) then Ok (tt, sl_put h s i [v]) else GoPanic.

(* s[lo:hi]; Go: 0 <= lo <= hi <= cap(s) or panic *)
Definition reslice (s : gslice) (lo hi : Z) : M gslice := fun h =>
  if (0 <=? lo) && (lo <=? hi) && (hi <=? s_cap s)
  then Ok (mkSl (s_arr s) (s_off s + lo) (hi - lo) (s_cap s - lo), h)
  else GoPanic.

(* copy(dst, src): min(len) elements, memmove semantics; returns the count *)
Definition gocopy (dst src : gslice) : M Z := fun h =>
  let n := Z.min (s_len dst) (s_len src) in
  Ok (n, sl_put h dst 0 (firstn (Z.to_nat n) (sl_get h src))).

(* make([]T, n): a fresh zeroed array at the end of the heap *)
Definition gomake (n : Z) : M gslice := fun h =>
  if (n <? 0) || (9223372036854775808 <=? n) then GoPanic
  else Ok (mkSl (length h) 0 n n, h ++ [repeat 0 (Z.to_nat n)]).

(** * Loops *)

Inductive step (S R : Type) : Type := Next (s : S) | Done (r : R).
Arguments Next {S R} s.
Arguments Done {S R} r.

(* how a statement block ends: it falls through with the assigned variables
   or it executed a return *)
Inductive ctl (S R : Type) : Type := Fall (s : S) | Return (r : R).
Arguments Fall {S R} s.
Arguments Return {S R} r.

Fixpoint iter {S R} (fuel : nat) (body : S -> M (step S R)) (s : S) : M R :=
  match fuel with
  | O => fun _ => NoFuel
  | Datatypes.S f =>
      bind (body s) (fun x => match x with
                              | Next s' => iter f body s'
                              | Done r => ret r
                              end)
  end.

(** * Library calls *)

(* encoding/binary.BigEndian.PutUintNN(b, v): _ = b[k-1] (bounds check), then
   b[i] = byte(v >> (8*(k-1-i))) *)
Fixpoint be_bytes (k : nat) (v : Z) : list Z :=
  match k with
  | O => []
  | S k' => (Z.shiftr v (8 * Z.of_nat k')) mod 256 :: be_bytes k' v
  end.
Definition be_put (k : nat) (b : gslice) (v : Z) : M unit := fun h =>
  if Z.of_nat k <=? s_len b then Ok (tt, sl_put h b 0 (be_bytes k v)) else GoPanic.

(* encoding/binary.BigEndian.UintNN(b) *)
Fixpoint be_val (l : list Z) : Z :=
  match l with
  | [] => 0
  | x :: t => Z.lor (Z.shiftl x (8 * zlen t)) (be_val t)
  end.
Definition be_get (k : nat) (b : gslice) : M Z := fun h =>
  if Z.of_nat k <=? s_len b then Ok (be_val (firstn k (sl_get h b)), h) else GoPanic.

(* cast.StringToByteArray / cast.ByteArrayToString: a string is modelled as the
   slice of its bytes; the casts are the identity *)
Definition cast_id (s : gslice) : gslice := s.

(** * Lemmas: monad *)

Lemma bind_ret_l {A B} (a : A) (k : A -> M B) h : bind (ret a) k h = k a h.
Proof. reflexivity. Qed.

Lemma bind_assoc {A B C} (m : M A) (k : A -> M B) (k' : B -> M C) h :
  bind (bind m k) k' h = bind m (fun a => bind (k a) k') h.
Proof. unfold bind. destruct (m h) as [[a h']| |]; reflexivity. Qed.

Lemma bind_ok {A B} (m : M A) (k : A -> M B) h a h' :
  m h = Ok (a, h') -> bind m k h = k a h'.
Proof. intros E. unfold bind. rewrite E. reflexivity. Qed.

Lemma iter_S {S R} f (body : S -> M (step S R)) s :
  iter (Datatypes.S f) body s =
  bind (body s) (fun x => match x with Next s' => iter f body s' | Done r => ret r end).
Proof. reflexivity. Qed.

(* invariant rule: a loop whose body preserves Inv, decreases a measure on Next
   and establishes Post on Done terminates without panic within the fuel *)
Lemma iter_inv {S R} (body : S -> M (step S R))
      (Inv : S -> heap -> Prop) (Post : R -> heap -> Prop) (mu : S -> heap -> nat) :
  (forall s h, Inv s h ->
     match body s h with
     | Ok (Next s', h') => Inv s' h' /\ (mu s' h' < mu s h)%nat
     | Ok (Done r, h') => Post r h'
     | _ => False
     end) ->
  forall fuel s h, Inv s h -> (mu s h < fuel)%nat ->
  exists r h', iter fuel body s h = Ok (r, h') /\ Post r h'.
Proof.
  intros Hb fuel. induction fuel as [|f IH]; intros s h Hi Hm; [lia|].
  rewrite iter_S. unfold bind. specialize (Hb s h Hi).
  destruct (body s h) as [[[s'|r] h']| |]; try contradiction.
  - destruct Hb as [Hi' Hlt]. apply IH; [exact Hi'|lia].
  - exists r, h'. split; [reflexivity|exact Hb].
Qed.

(** * Lemmas: machine integers *)

Lemma u8_small x : 0 <= x < 256 -> u8 x = x.
Proof. intros H. unfold u8. apply Z.mod_small. lia. Qed.
Lemma u16_small x : 0 <= x < 65536 -> u16 x = x.
Proof. intros H. unfold u16. apply Z.mod_small. lia. Qed.
Lemma u32_small x : 0 <= x < 4294967296 -> u32 x = x.
Proof. intros H. unfold u32. apply Z.mod_small. lia. Qed.
Lemma u64_small x : 0 <= x < 18446744073709551616 -> u64 x = x.
Proof. intros H. unfold u64. apply Z.mod_small. lia. Qed.
Lemma i64_small x : -9223372036854775808 <= x < 9223372036854775808 -> i64 x = x.
Proof. intros H. unfold i64. rewrite Z.mod_small; lia. Qed.
Lemma i32_small x : -2147483648 <= x < 2147483648 -> i32 x = x.
Proof. intros H. unfold i32. rewrite Z.mod_small; lia. Qed.

Lemma u8_range x : 0 <= u8 x < 256.
Proof. unfold u8. apply Z.mod_pos_bound. lia. Qed.
Lemma u64_range x : 0 <= u64 x < 18446744073709551616.
Proof. unfold u64. apply Z.mod_pos_bound. lia. Qed.
Lemma i64_range x : -9223372036854775808 <= i64 x < 9223372036854775808.
Proof.
  unfold i64.
  pose proof (Z.mod_pos_bound (x + 9223372036854775808) 18446744073709551616 ltac:(lia)).
  lia.
Qed.

Lemma shl_u64_range x s : 0 <= shl u64 64 x s < 18446744073709551616.
Proof. unfold shl. destruct (64 <=? s); [lia|apply u64_range]. Qed.

(* bit operations as arithmetic *)
Lemma zland_ones_mod x n : 0 <= n -> Z.land x (2 ^ n - 1) = x mod 2 ^ n.
Proof.
  intros Hn. replace (2 ^ n - 1) with (Z.ones n) by (rewrite Z.ones_equiv; lia).
  apply Z.land_ones. exact Hn.
Qed.

Lemma zland127 x : Z.land x 127 = x mod 128.
Proof. exact (zland_ones_mod x 7 ltac:(lia)). Qed.
Lemma zland255 x : Z.land x 255 = x mod 256.
Proof. exact (zland_ones_mod x 8 ltac:(lia)). Qed.

Lemma zshiftr_div x n : 0 <= n -> Z.shiftr x n = x / 2 ^ n.
Proof. intros Hn. apply Z.shiftr_div_pow2. exact Hn. Qed.
Lemma zshiftl_mul x n : 0 <= n -> Z.shiftl x n = x * 2 ^ n.
Proof. intros Hn. apply Z.shiftl_mul_pow2. exact Hn. Qed.

Lemma ztestbit_above x s n : 0 <= x < 2 ^ s -> 0 <= s <= n -> Z.testbit x n = false.
Proof.
  intros Hx Hs. destruct (Z.eq_dec x 0) as [->|Hne]; [apply Z.bits_0|].
  apply Z.bits_above_log2; [lia|]. apply Z.lt_le_trans with s; [|lia].
  apply Z.log2_lt_pow2; lia.
Qed.

(* lor of disjoint bit ranges is addition *)
Lemma zlor_disjoint a x s : 0 <= a < 2 ^ s -> 0 <= s ->
  Z.lor a (x * 2 ^ s) = a + x * 2 ^ s.
Proof.
  intros Ha Hs. rewrite <- Z.shiftl_mul_pow2 by lia.
  rewrite <- Z.lxor_lor, Z.add_nocarry_lxor; try reflexivity.
  all: apply Z.bits_inj_0; intros n; rewrite Z.land_spec;
    destruct (Z.lt_ge_cases n 0) as [Hn0|Hn0];
    [rewrite Z.testbit_neg_r by lia; reflexivity|];
    destruct (Z.lt_ge_cases n s) as [Hn|Hn];
    [rewrite Z.shiftl_spec_low by lia; apply andb_false_r
    |rewrite (ztestbit_above a s n) by lia; reflexivity].
Qed.

Lemma zlor_pow2_small k x : 0 <= k -> 0 <= x < 2 ^ k -> Z.lor (2 ^ k) x = 2 ^ k + x.
Proof.
  intros Hk Hx. rewrite Z.lor_comm, Z.add_comm.
  replace (2 ^ k) with (1 * 2 ^ k) by lia. apply zlor_disjoint; lia.
Qed.
Lemma zlor128 x : 0 <= x < 128 -> Z.lor 128 x = 128 + x.
Proof. exact (zlor_pow2_small 7 x ltac:(lia)). Qed.

Lemma zlor_range a b n : 0 <= n -> 0 <= a < 2 ^ n -> 0 <= b < 2 ^ n -> 0 <= Z.lor a b < 2 ^ n.
Proof.
  intros Hn Ha Hb. split; [apply Z.lor_nonneg; lia|].
  destruct (Z.eq_dec a 0) as [->|Hna]; [rewrite Z.lor_0_l; lia|].
  destruct (Z.eq_dec b 0) as [->|Hnb]; [rewrite Z.lor_0_r; lia|].
  assert (H0 : 0 < Z.lor a b).
  { assert (0 <= Z.lor a b) by (apply Z.lor_nonneg; lia).
    destruct (Z.eq_dec (Z.lor a b) 0) as [E|E]; [|lia].
    apply Z.lor_eq_0_iff in E. lia. }
  apply Z.log2_lt_pow2; [lia|]. rewrite Z.log2_lor by lia.
  apply Z.max_lub_lt; apply Z.log2_lt_pow2; lia.
Qed.

(* N <-> Z bit operations (the hand models of xbinary use N) *)
Lemma N2Z_land a b : Z.of_N (N.land a b) = Z.land (Z.of_N a) (Z.of_N b).
Proof. destruct a, b; reflexivity. Qed.
Lemma N2Z_lor a b : Z.of_N (N.lor a b) = Z.lor (Z.of_N a) (Z.of_N b).
Proof. destruct a, b; reflexivity. Qed.
Lemma N2Z_shiftl a n : Z.of_N (N.shiftl a n) = Z.shiftl (Z.of_N a) (Z.of_N n).
Proof.
  rewrite Z.shiftl_mul_pow2 by lia. rewrite N.shiftl_mul_pow2.
  rewrite N2Z.inj_mul, N2Z.inj_pow. reflexivity.
Qed.
Lemma N2Z_shiftr a n : Z.of_N (N.shiftr a n) = Z.shiftr (Z.of_N a) (Z.of_N n).
Proof.
  rewrite Z.shiftr_div_pow2 by lia. rewrite N.shiftr_div_pow2.
  rewrite N2Z.inj_div, N2Z.inj_pow. reflexivity.
Qed.

(** * Lemmas: Z-indexed lists *)

Lemma zlen_nonneg {A} (l : list A) : 0 <= zlen l.
Proof. unfold zlen. lia. Qed.

Lemma zlen_app {A} (l1 l2 : list A) : zlen (l1 ++ l2) = zlen l1 + zlen l2.
Proof. unfold zlen. rewrite app_length. lia. Qed.

Lemma length_zsub l lo n :
  0 <= lo -> 0 <= n -> lo + n <= zlen l -> length (zsub l lo n) = Z.to_nat n.
Proof.
  unfold zsub, zlen. intros H1 H2 H3. rewrite firstn_length, skipn_length. lia.
Qed.

Lemma zlen_zsub l lo n :
  0 <= lo -> 0 <= n -> lo + n <= zlen l -> zlen (zsub l lo n) = n.
Proof. intros. unfold zlen at 1. rewrite length_zsub by assumption. lia. Qed.

Lemma length_zsplice l at_ d :
  0 <= at_ -> at_ + zlen d <= zlen l -> length (zsplice l at_ d) = length l.
Proof.
  unfold zsplice, zlen. intros H1 H2.
  rewrite !app_length, firstn_length, skipn_length. lia.
Qed.

Lemma zsub_zsub l lo n lo' n' :
  0 <= lo -> 0 <= lo' -> 0 <= n' -> lo' + n' <= n ->
  zsub (zsub l lo n) lo' n' = zsub l (lo + lo') n'.
Proof.
  unfold zsub. intros H1 H2 H3 H4.
  rewrite skipn_firstn_comm, firstn_firstn, skipn_skipn.
  f_equal; [lia|]. f_equal. lia.
Qed.

Lemma zsub_all l : zsub l 0 (zlen l) = l.
Proof. unfold zsub, zlen. cbn [Z.to_nat skipn]. rewrite Nat2Z.id. apply firstn_all. Qed.

Lemma zsub_0_firstn l n : zsub l 0 n = firstn (Z.to_nat n) l.
Proof. reflexivity. Qed.

Lemma znth_zsub l lo n i :
  0 <= lo -> 0 <= i < n -> znth (zsub l lo n) i = znth l (lo + i).
Proof.
  unfold znth, zsub. intros H1 H2.
  rewrite nth_firstn_aux. 2: lia.
  rewrite nth_skipn_aux. f_equal. lia.
Qed.

Lemma zsub_split l lo n k : 0 <= lo -> 0 <= k <= n ->
  zsub l lo n = zsub l lo k ++ zsub l (lo + k) (n - k).
Proof.
  unfold zsub. intros H1 H2.
  replace (Z.to_nat n) with (Z.to_nat k + Z.to_nat (n - k))%nat by lia.
  rewrite firstn_add_aux. f_equal. rewrite skipn_skipn. f_equal. f_equal. lia.
Qed.

(* reading back after a splice *)
Lemma zsub_zsplice_same l at_ d :
  0 <= at_ -> at_ + zlen d <= zlen l -> zsub (zsplice l at_ d) at_ (zlen d) = d.
Proof.
  unfold zsub, zsplice, zlen. intros H1 H2.
  rewrite skipn_app, skipn_all2 by (rewrite firstn_length; lia).
  rewrite firstn_length. replace (Z.to_nat at_ - _)%nat with 0%nat by lia.
  cbn [app skipn]. rewrite Nat2Z.id. rewrite firstn_app, firstn_all.
  replace (length d - length d)%nat with 0%nat by lia. cbn [firstn]. apply app_nil_r.
Qed.

(* pointwise view of sub-list and splice *)
Lemma nth_zsub l lo n i : 0 <= lo -> 0 <= n ->
  nth i (zsub l lo n) 0 = if (i <? Z.to_nat n)%nat then nth (Z.to_nat lo + i) l 0 else 0.
Proof.
  intros H1 H2. unfold zsub. destruct (Nat.ltb_spec i (Z.to_nat n)) as [Hi|Hi].
  - rewrite nth_firstn_aux by lia. apply nth_skipn_aux.
  - apply nth_overflow. rewrite firstn_length. lia.
Qed.

Lemma nth_zsplice l at_ d i : 0 <= at_ -> at_ + zlen d <= zlen l ->
  nth i (zsplice l at_ d) 0 =
  if (i <? Z.to_nat at_)%nat then nth i l 0
  else if (i <? Z.to_nat at_ + length d)%nat then nth (i - Z.to_nat at_) d 0
  else nth i l 0.
Proof.
  unfold zsplice, zlen. intros H1 H2.
  destruct (Nat.ltb_spec i (Z.to_nat at_)) as [Hi|Hi].
  - rewrite app_nth1 by (rewrite firstn_length; lia). apply nth_firstn_aux. lia.
  - rewrite app_nth2 by (rewrite firstn_length; lia). rewrite firstn_length.
    replace (Nat.min (Z.to_nat at_) (length l)) with (Z.to_nat at_) by lia.
    destruct (Nat.ltb_spec i (Z.to_nat at_ + length d)) as [Hj|Hj].
    + rewrite app_nth1 by lia. reflexivity.
    + rewrite app_nth2 by lia. rewrite nth_skipn_aux. f_equal. lia.
Qed.

(* a splice inside a window, seen through the window *)
Lemma zsub_zsplice_within l lo n at_ d :
  0 <= lo -> 0 <= at_ -> at_ + zlen d <= n -> lo + n <= zlen l ->
  zsub (zsplice l (lo + at_) d) lo n = zsplice (zsub l lo n) at_ d.
Proof.
  intros H1 H2 H3 H4. pose proof (zlen_nonneg d) as Hd.
  assert (L1 : length (zsplice l (lo + at_) d) = length l) by (apply length_zsplice; lia).
  assert (Z1 : zlen (zsplice l (lo + at_) d) = zlen l) by (unfold zlen; rewrite L1; reflexivity).
  assert (L2 : length (zsub l lo n) = Z.to_nat n) by (apply length_zsub; lia).
  assert (Z2 : zlen (zsub l lo n) = n) by (apply zlen_zsub; lia).
  apply nth_ext_aux.
  - rewrite length_zsub by lia. rewrite length_zsplice by lia. lia.
  - intros i Hi. rewrite length_zsub in Hi by lia.
    rewrite nth_zsub by lia. rewrite nth_zsplice by lia.
    rewrite nth_zsplice by lia.
    rewrite !nth_zsub by lia. unfold zlen in *.
    repeat match goal with |- context [(?a <? ?b)%nat] => destruct (Nat.ltb_spec a b) end;
      try lia; try reflexivity; f_equal; lia.
Qed.

(* a window disjoint from the splice is unchanged *)
Lemma zsub_zsplice_disjoint l lo n at_ d :
  0 <= lo -> 0 <= n -> 0 <= at_ -> at_ + zlen d <= zlen l ->
  lo + n <= at_ \/ at_ + zlen d <= lo ->
  zsub (zsplice l at_ d) lo n = zsub l lo n.
Proof.
  intros H1 H2 H3 H4 H5. unfold zsub, zsplice, zlen in *. destruct H5 as [H5|H5].
  - rewrite skipn_app. rewrite firstn_app.
    rewrite skipn_length, firstn_length.
    replace (Z.to_nat n - _)%nat with 0%nat by lia.
    cbn [firstn]. rewrite app_nil_r.
    rewrite skipn_firstn_comm, firstn_firstn. f_equal. lia.
  - rewrite app_assoc, skipn_app.
    rewrite skipn_all2 by (rewrite app_length, firstn_length; lia).
    cbn [app]. rewrite app_length, firstn_length, skipn_skipn. f_equal. f_equal. lia.
Qed.

Lemma zsplice_nil l at_ : zsplice l at_ [] = l.
Proof. unfold zsplice. cbn [app length]. rewrite Nat.add_0_r. apply firstn_skipn. Qed.

(* two adjacent splices are one *)
Lemma zsplice_zsplice_adj l at_ d1 d2 :
  0 <= at_ -> at_ + zlen d1 <= zlen l ->
  zsplice (zsplice l at_ d1) (at_ + zlen d1) d2 = zsplice l at_ (d1 ++ d2).
Proof.
  intros H1 H2. unfold zsplice, zlen in *.
  replace (Z.to_nat (at_ + Z.of_nat (length d1))) with (Z.to_nat at_ + length d1)%nat by lia.
  rewrite (app_assoc (firstn _ l) d1).
  rewrite firstn_app.
  rewrite firstn_all2 by (rewrite app_length, firstn_length; lia).
  rewrite app_length, firstn_length.
  replace (Z.to_nat at_ + length d1 - _)%nat with 0%nat by lia. cbn [firstn]. rewrite app_nil_r.
  rewrite <- !app_assoc. f_equal. f_equal. f_equal.
  rewrite app_assoc, skipn_app.
  rewrite skipn_all2 by (rewrite app_length, firstn_length; lia). cbn [app].
  rewrite !app_length, firstn_length, skipn_skipn. f_equal. lia.
Qed.

(** * Lemmas: heap *)

Lemma arr_get_set_same h a l : (a < length h)%nat -> arr_get (arr_set h a l) a = l.
Proof.
  intros H. unfold arr_get, arr_set.
  rewrite app_nth2 by (rewrite firstn_length; lia).
  rewrite firstn_length. replace (a - Nat.min a (length h))%nat with 0%nat by lia. reflexivity.
Qed.

Lemma arr_get_set_other h a b l : (a < length h)%nat -> a <> b ->
  arr_get (arr_set h a l) b = arr_get h b.
Proof.
  intros Ha H. unfold arr_get, arr_set.
  destruct (Nat.lt_ge_cases b a) as [Hlt|Hge].
  - rewrite app_nth1 by (rewrite firstn_length; lia). apply nth_firstn_aux. lia.
  - rewrite app_nth2 by (rewrite firstn_length; lia). rewrite firstn_length.
    replace (b - Nat.min a (length h))%nat with (S (b - S a)) by lia.
    cbn [nth]. rewrite nth_skipn_aux. f_equal. lia.
Qed.

Lemma length_arr_set h a l : (a < length h)%nat -> length (arr_set h a l) = length h.
Proof.
  intros H. unfold arr_set. rewrite app_length, firstn_length. cbn [length].
  rewrite skipn_length. lia.
Qed.

Lemma sl_get_len h s : wf_slice h s -> zlen (sl_get h s) = s_len s.
Proof. intros (Ha & Ho & Hl & Hc & _). unfold sl_get. apply zlen_zsub; lia. Qed.

Lemma sl_cap_len h s : wf_slice h s -> zlen (sl_cap h s) = s_cap s.
Proof. intros (Ha & Ho & Hl & Hc & _). unfold sl_cap. apply zlen_zsub; lia. Qed.

Lemma sl_get_cap h s : wf_slice h s -> sl_get h s = firstn (Z.to_nat (s_len s)) (sl_cap h s).
Proof.
  intros (Ha & Ho & Hl & Hc & _). unfold sl_get, sl_cap, zsub.
  rewrite firstn_firstn. f_equal. lia.
Qed.

(* sl_put keeps the shape of the heap *)
Lemma sl_put_length h s at_ d : wf_slice h s -> length (sl_put h s at_ d) = length h.
Proof. intros (Ha & _). unfold sl_put. apply length_arr_set. exact Ha. Qed.

Lemma sl_put_arr_len h s at_ d a : wf_slice h s ->
  0 <= at_ -> at_ + zlen d <= s_cap s ->
  zlen (arr_get (sl_put h s at_ d) a) = zlen (arr_get h a).
Proof.
  intros (Ha & Ho & Hl & Hc & _) H1 H2. unfold sl_put.
  destruct (Nat.eq_dec (s_arr s) a) as [<-|Hne].
  - rewrite arr_get_set_same by exact Ha. unfold zlen. rewrite length_zsplice; unfold zlen in *; lia.
  - rewrite arr_get_set_other by assumption. reflexivity.
Qed.

Lemma wf_slice_put h s at_ d s' : wf_slice h s ->
  0 <= at_ -> at_ + zlen d <= s_cap s -> wf_slice h s' -> wf_slice (sl_put h s at_ d) s'.
Proof.
  intros W H1 H2 (Ha & Ho & Hl & Hc & Hm). unfold wf_slice.
  rewrite sl_put_length by exact W. rewrite sl_put_arr_len by assumption. tauto.
Qed.

(* the written slice, read back *)
Lemma sl_get_put_same h s at_ d : wf_slice h s ->
  0 <= at_ -> at_ + zlen d <= s_len s ->
  sl_get (sl_put h s at_ d) s = zsplice (sl_get h s) at_ d.
Proof.
  intros (Ha & Ho & Hl & Hc & _) H1 H2. unfold sl_get, sl_put.
  rewrite arr_get_set_same by exact Ha. apply zsub_zsplice_within; lia.
Qed.

Lemma sl_cap_put_same h s at_ d : wf_slice h s ->
  0 <= at_ -> at_ + zlen d <= s_cap s ->
  sl_cap (sl_put h s at_ d) s = zsplice (sl_cap h s) at_ d.
Proof.
  intros (Ha & Ho & Hl & Hc & _) H1 H2. unfold sl_cap, sl_put.
  rewrite arr_get_set_same by exact Ha. apply zsub_zsplice_within; lia.
Qed.

(* a slice over another array is not affected *)
Lemma sl_get_put_other h s at_ d s' : wf_slice h s -> s_arr s <> s_arr s' ->
  sl_get (sl_put h s at_ d) s' = sl_get h s'.
Proof.
  intros (Ha & _) Hne. unfold sl_get, sl_put. rewrite arr_get_set_other by assumption. reflexivity.
Qed.

Lemma sl_put_nil h s at_ : wf_slice h s -> sl_put h s at_ [] = h.
Proof.
  intros (Ha & _). unfold sl_put. rewrite zsplice_nil. unfold arr_set, arr_get.
  rewrite <- (firstn_skipn (s_arr s) h) at 4.
  rewrite (skipn_nth_aux h (s_arr s) []) by exact Ha. reflexivity.
Qed.

Lemma sl_put_put_adj h s at_ d1 d2 : wf_slice h s ->
  0 <= at_ -> at_ + zlen d1 <= s_cap s ->
  sl_put (sl_put h s at_ d1) s (at_ + zlen d1) d2 = sl_put h s at_ (d1 ++ d2).
Proof.
  intros (Ha & Ho & Hl & Hc & _) H1 H2. unfold sl_put.
  rewrite arr_get_set_same by exact Ha.
  rewrite Z.add_assoc, zsplice_zsplice_adj by lia.
  unfold arr_set. rewrite firstn_app, firstn_firstn, firstn_length.
  replace (s_arr s - _)%nat with 0%nat by lia. cbn [firstn]. rewrite app_nil_r.
  replace (Nat.min (s_arr s) (s_arr s)) with (s_arr s) by lia. f_equal. f_equal.
  rewrite skipn_app, firstn_length.
  rewrite skipn_all2 by (rewrite firstn_length; lia).
  replace (S (s_arr s) - Nat.min (s_arr s) (length h))%nat with 1%nat by lia. reflexivity.
Qed.

Lemma sl_put_put_adj' h s at_ d1 o d2 : wf_slice h s ->
  0 <= at_ -> at_ + zlen d1 <= s_cap s -> o = at_ + zlen d1 ->
  sl_put (sl_put h s at_ d1) s o d2 = sl_put h s at_ (d1 ++ d2).
Proof. intros W H1 H2 ->. apply sl_put_put_adj; assumption. Qed.

(* sub-slices *)
Lemma reslice_ok s lo hi h : 0 <= lo <= hi -> hi <= s_cap s ->
  reslice s lo hi h = Ok (mkSl (s_arr s) (s_off s + lo) (hi - lo) (s_cap s - lo), h).
Proof.
  intros H1 H2. unfold reslice.
  destruct (Z.leb_spec 0 lo); [|lia]. destruct (Z.leb_spec lo hi); [|lia].
  destruct (Z.leb_spec hi (s_cap s)); [|lia]. reflexivity.
Qed.

Lemma reslice_panic s lo hi h : ~ (0 <= lo <= hi /\ hi <= s_cap s) -> reslice s lo hi h = GoPanic.
Proof.
  intros H. unfold reslice.
  destruct (Z.leb_spec 0 lo); destruct (Z.leb_spec lo hi); destruct (Z.leb_spec hi (s_cap s));
    cbn [andb]; try reflexivity. lia.
Qed.

Lemma wf_reslice h s lo hi : wf_slice h s -> 0 <= lo <= hi -> hi <= s_cap s ->
  wf_slice h (mkSl (s_arr s) (s_off s + lo) (hi - lo) (s_cap s - lo)).
Proof. intros (Ha & Ho & Hl & Hc & Hm) H1 H2. unfold wf_slice. cbn [s_arr s_off s_len s_cap]. lia. Qed.

Lemma sl_get_reslice h s lo hi : wf_slice h s -> 0 <= lo <= hi -> hi <= s_cap s ->
  sl_get h (mkSl (s_arr s) (s_off s + lo) (hi - lo) (s_cap s - lo)) = zsub (sl_cap h s) lo (hi - lo).
Proof.
  intros (Ha & Ho & Hl & Hc & _) H1 H2. unfold sl_get, sl_cap. cbn [s_arr s_off s_len].
  rewrite zsub_zsub by lia. reflexivity.
Qed.

Lemma sl_get_reslice_len h s lo hi : wf_slice h s -> 0 <= lo <= hi -> hi <= s_len s ->
  sl_get h (mkSl (s_arr s) (s_off s + lo) (hi - lo) (s_cap s - lo)) = zsub (sl_get h s) lo (hi - lo).
Proof.
  intros (Ha & Ho & Hl & Hc & _) H1 H2. unfold sl_get. cbn [s_arr s_off s_len].
  rewrite zsub_zsub by lia. reflexivity.
Qed.

Lemma sl_put_reslice h s lo hi cp at_ d :
  sl_put h (mkSl (s_arr s) (s_off s + lo) hi cp) at_ d = sl_put h s (lo + at_) d.
Proof. unfold sl_put. cbn [s_arr s_off]. rewrite Z.add_assoc. reflexivity. Qed.

(* a write through any descriptor of the same array region *)
Lemma sl_put_eq h s s' at_ at' d : s_arr s = s_arr s' -> s_off s + at_ = s_off s' + at' ->
  sl_put h s at_ d = sl_put h s' at' d.
Proof. intros Ha Ho. unfold sl_put. rewrite Ha, Ho. reflexivity. Qed.

(* load / store / copy *)
Lemma load_ok s i h : 0 <= i < s_len s -> wf_slice h s ->
  load s i h = Ok (znth (sl_get h s) i, h).
Proof.
  intros Hi (Ha & Ho & Hl & Hc & _). unfold load.
  destruct (Z.leb_spec 0 i); [|lia]. destruct (Z.ltb_spec i (s_len s)); [|lia]. cbn [andb].
  unfold sl_get. rewrite znth_zsub by lia. reflexivity.
Qed.

Lemma load_panic s i h : ~ (0 <= i < s_len s) -> load s i h = GoPanic.
Proof.
  intros Hi. unfold load.
  destruct (Z.leb_spec 0 i); destruct (Z.ltb_spec i (s_len s)); cbn [andb]; try reflexivity. lia.
Qed.

Lemma store_ok s i v h : 0 <= i < s_len s -> store s i v h = Ok (tt, sl_put h s i [v]).
Proof.
  intros Hi. unfold store.
  destruct (Z.leb_spec 0 i); [|lia]. destruct (Z.ltb_spec i (s_len s)); [|lia]. reflexivity.
Qed.

Lemma store_panic s i v h : ~ (0 <= i < s_len s) -> store s i v h = GoPanic.
Proof.
  intros Hi. unfold store.
  destruct (Z.leb_spec 0 i); destruct (Z.ltb_spec i (s_len s)); cbn [andb]; try reflexivity. lia.
Qed.

(* one step of a program: [bind (prim ..) k h] *)
Section Steps.
Context {B : Type}.

Lemma bind_load s i (k : Z -> M B) h : 0 <= i < s_len s -> wf_slice h s ->
  bind (load s i) k h = k (znth (sl_get h s) i) h.
Proof. intros Hi W. unfold bind. rewrite load_ok by assumption. reflexivity. Qed.

Lemma bind_store s i v (k : unit -> M B) h : 0 <= i < s_len s ->
  bind (store s i v) k h = k tt (sl_put h s i [v]).
Proof. intros Hi. unfold bind. rewrite store_ok by assumption. reflexivity. Qed.

Lemma bind_reslice s lo hi (k : gslice -> M B) h : 0 <= lo <= hi -> hi <= s_cap s ->
  bind (reslice s lo hi) k h = k (mkSl (s_arr s) (s_off s + lo) (hi - lo) (s_cap s - lo)) h.
Proof. intros H1 H2. unfold bind. rewrite reslice_ok by assumption. reflexivity. Qed.

Lemma bind_gocopy dst src (k : Z -> M B) h :
  bind (gocopy dst src) k h =
  k (Z.min (s_len dst) (s_len src))
    (sl_put h dst 0 (firstn (Z.to_nat (Z.min (s_len dst) (s_len src))) (sl_get h src))).
Proof. reflexivity. Qed.

Lemma bind_gomake n (k : gslice -> M B) h : 0 <= n < 9223372036854775808 ->
  bind (gomake n) k h = k (mkSl (length h) 0 n n) (h ++ [repeat 0 (Z.to_nat n)]).
Proof.
  intros Hn. unfold bind, gomake.
  destruct (Z.ltb_spec n 0); [lia|]. destruct (Z.leb_spec 9223372036854775808 n); [lia|]. reflexivity.
Qed.

Lemma bind_be_put n b v (k : unit -> M B) h : Z.of_nat n <= s_len b ->
  bind (be_put n b v) k h = k tt (sl_put h b 0 (be_bytes n v)).
Proof. intros Hn. unfold bind, be_put. destruct (Z.leb_spec (Z.of_nat n) (s_len b)); [reflexivity|lia]. Qed.

Lemma bind_be_get n b (k : Z -> M B) h : Z.of_nat n <= s_len b ->
  bind (be_get n b) k h = k (be_val (firstn n (sl_get h b))) h.
Proof. intros Hn. unfold bind, be_get. destruct (Z.leb_spec (Z.of_nat n) (s_len b)); [reflexivity|lia]. Qed.

Lemma bind_godiv w x y (k : Z -> M B) h : y <> 0 ->
  bind (godiv w x y) k h = k (w (Z.quot x y)) h.
Proof. intros Hy. unfold bind, godiv. destruct (Z.eqb_spec y 0); [contradiction|reflexivity]. Qed.

Lemma bind_gorem w x y (k : Z -> M B) h : y <> 0 ->
  bind (gorem w x y) k h = k (w (Z.rem x y)) h.
Proof. intros Hy. unfold bind, gorem. destruct (Z.eqb_spec y 0); [contradiction|reflexivity]. Qed.

Lemma bind_godiv_zero w x (k : Z -> M B) h : bind (godiv w x 0) k h = GoPanic.
Proof. reflexivity. Qed.

Lemma bind_gorem_zero w x (k : Z -> M B) h : bind (gorem w x 0) k h = GoPanic.
Proof. reflexivity. Qed.

End Steps.

(* a fresh array: the old slices are untouched, the new one holds zeros *)
Lemma wf_slice_grow h l s : wf_slice h s -> wf_slice (h ++ [l]) s.
Proof.
  intros (Ha & Ho & Hl & Hc & Hm). unfold wf_slice, arr_get in *.
  rewrite app_length, app_nth1 by exact Ha. cbn [length]. repeat split; try lia.
Qed.

Lemma sl_get_grow h l s : wf_slice h s -> sl_get (h ++ [l]) s = sl_get h s.
Proof. intros (Ha & _). unfold sl_get, arr_get. rewrite app_nth1 by exact Ha. reflexivity. Qed.

Lemma arr_get_new h l : arr_get (h ++ [l]) (length h) = l.
Proof. unfold arr_get. rewrite app_nth2 by lia. rewrite Nat.sub_diag. reflexivity. Qed.

Lemma wf_slice_new h n : 0 <= n < 9223372036854775808 ->
  wf_slice (h ++ [repeat 0 (Z.to_nat n)]) (mkSl (length h) 0 n n).
Proof.
  intros Hn. unfold wf_slice. cbn [s_arr s_off s_len s_cap]. rewrite arr_get_new.
  unfold zlen. rewrite app_length, repeat_length. cbn [length]. lia.
Qed.

Lemma wf_slice_fresh h l n : zlen l = n -> n < 9223372036854775808 ->
  wf_slice (h ++ [l]) (mkSl (length h) 0 n n).
Proof.
  intros Hl Hn. unfold wf_slice. cbn [s_arr s_off s_len s_cap]. rewrite arr_get_new.
  rewrite app_length. cbn [length]. unfold zlen in *. lia.
Qed.

(* writing a whole fresh array *)
Lemma sl_put_new h n d : zlen d = n -> 0 <= n ->
  sl_put (h ++ [repeat 0 (Z.to_nat n)]) (mkSl (length h) 0 n n) 0 d = h ++ [d].
Proof.
  intros Hd Hn. unfold sl_put. cbn [s_arr s_off]. rewrite arr_get_new.
  unfold arr_set. rewrite firstn_app, Nat.sub_diag, firstn_all. cbn [firstn]. rewrite app_nil_r.
  f_equal. rewrite skipn_all2 by (rewrite app_length; cbn [length]; lia).
  f_equal. unfold zsplice. cbn [Z.add Z.to_nat firstn app Nat.add].
  rewrite skipn_all2 by (rewrite repeat_length; unfold zlen in Hd; lia). apply app_nil_r.
Qed.

(** * Stepping tactics for goals [prog h = ...] over generated code *)

(* side conditions: arithmetic over slice fields and list lengths *)
Ltac go_side := first [assumption | cbn [s_arr s_off s_len s_cap] in *; lia].

(* remove integer wraps whose argument is provably in range *)
Ltac go_unwrap :=
  repeat match goal with
         | |- context [i64 ?x] => rewrite (i64_small x) by go_side
         | |- context [u64 ?x] => rewrite (u64_small x) by go_side
         | |- context [u8 ?x] => rewrite (u8_small x) by go_side
         | |- context [u16 ?x] => rewrite (u16_small x) by go_side
         | |- context [u32 ?x] => rewrite (u32_small x) by go_side
         | |- context [i32 ?x] => rewrite (i32_small x) by go_side
         end.

(* the same in the hypotheses (conditions recorded by the case splits) *)
Ltac go_unwrap_hyps :=
  repeat match goal with
         | H : context [i64 ?x] |- _ => rewrite (i64_small x) in H by go_side
         | H : context [u64 ?x] |- _ => rewrite (u64_small x) in H by go_side
         | H : context [u8 ?x] |- _ => rewrite (u8_small x) in H by go_side
         | H : context [u16 ?x] |- _ => rewrite (u16_small x) in H by go_side
         | H : context [u32 ?x] |- _ => rewrite (u32_small x) in H by go_side
         | H : context [i32 ?x] |- _ => rewrite (i32_small x) in H by go_side
         end.

(* one symbolic-execution step on a goal that mentions [bind prim k h] *)
Ltac go_step_base :=
  match goal with
  | |- context [bind (bind ?m ?k) ?k' ?h] => rewrite (bind_assoc m k k' h)
  | |- context [bind (ret ?a) ?k ?h] => rewrite (bind_ret_l a k h)
  | |- context [bind (load ?s ?i) ?k ?h] => rewrite (bind_load s i k h) by go_side
  | |- context [bind (store ?s ?i ?v) ?k ?h] => rewrite (bind_store s i v k h) by go_side
  | |- context [bind (reslice ?s ?lo ?hi) ?k ?h] => rewrite (bind_reslice s lo hi k h) by go_side
  | |- context [bind (gocopy ?d ?s) ?k ?h] => rewrite (bind_gocopy d s k h)
  | |- context [bind (gomake ?n) ?k ?h] => rewrite (bind_gomake n k h) by go_side
  | |- context [bind (be_put ?n ?b ?v) ?k ?h] => rewrite (bind_be_put n b v k h) by go_side
  | |- context [bind (be_get ?n ?b) ?k ?h] => rewrite (bind_be_get n b k h) by go_side
  | |- context [bind (godiv ?w ?x ?y) ?k ?h] => rewrite (bind_godiv w x y k h) by go_side
  | |- context [bind (gorem ?w ?x ?y) ?k ?h] => rewrite (bind_gorem w x y k h) by go_side
  end.
Ltac go_step := go_step_base.

(* case split on the first condition of the goal *)
Ltac go_if :=
  match goal with |- context [if ?c then _ else _] => destruct c eqn:? end.

(* run a loop-free piece of generated code symbolically: primitive steps, one
   case split per condition, beta/iota/zeta in between; branches whose
   conditions contradict each other are closed by lia *)
Ltac go_run :=
  repeat first [ go_step | go_if; cbn [s_arr s_off s_len s_cap] in *; go_unwrap_hyps; try lia | progress cbv beta iota zeta
               | progress cbn [s_arr s_off s_len s_cap] in * | progress go_unwrap ].

(* a call of a generated function whose behaviour is given by the equation E:
   [callee args h = Ok (a, h')] *)
Ltac go_call E := rewrite (bind_ok _ _ _ _ _ E).

(* express a write through a sub-slice descriptor as a write through [base] *)
Ltac go_rebase base :=
  repeat match goal with
         | |- context [sl_put ?hh (mkSl ?a ?o ?l ?c) ?at_ ?d] =>
             rewrite (sl_put_eq hh (mkSl a o l c) base at_ (o - s_off base + at_) d)
               by (cbn [s_arr s_off]; lia)
         end.

(* two adjacent writes through the same descriptor become one *)
Ltac go_join W :=
  match goal with
  | |- context [sl_put (sl_put ?h0 ?s ?a ?d1) ?s ?o ?d2] =>
      rewrite (sl_put_put_adj' h0 s a d1 o d2 W) by (unfold zlen; rewrite ?repeat_length, ?map_length; cbn [length]; lia)
  end.

(** * Objects: records by id (for pointers to structs)

    A pointer to a struct declared as an object type (go2coq --object S) is a
    [Z]: 0 is nil, p > 0 is the array number p-1 of the heap, which holds the
    fields of the pointee in declaration order (every field is a [Z]: an
    integer, a bool as 0/1, a pointer id, an opaque handle).  [obj_new n]
    allocates a zeroed object at the end of the heap.  A nil dereference is
    [GoPanic]. *)

Definition obj_arr (p : Z) : nat := Z.to_nat (p - 1).

Definition fld_load (p : Z) (k : nat) : M Z := fun h =>
  if p <=? 0 then GoPanic else Ok (nth k (arr_get h (obj_arr p)) 0, h).

Definition fld_store (p : Z) (k : nat) (v : Z) : M unit := fun h =>
  if p <=? 0 then GoPanic
  else Ok (tt, arr_set h (obj_arr p) (zsplice (arr_get h (obj_arr p)) (Z.of_nat k) [v])).

Definition obj_new (n : nat) : M Z := fun h => Ok (Z.of_nat (length h) + 1, h ++ [repeat 0 n]).

(* append(s, v) for one element: in place when there is spare capacity
   (len < cap), else a fresh array holding the elements and v.  Go's growth
   policy gives the fresh array some extra capacity; here it has none, which
   only changes when a later append reallocates (not observable without
   keeping the old slice value). *)
Definition goappend (s : gslice) (v : Z) : M gslice := fun h =>
  if s_len s <? s_cap s
  then Ok (mkSl (s_arr s) (s_off s) (s_len s + 1) (s_cap s), sl_put h (mkSl (s_arr s) (s_off s) (s_len s + 1) (s_cap s)) (s_len s) [v])
  else Ok (mkSl (length h) 0 (s_len s + 1) (s_len s + 1), h ++ [sl_get h s ++ [v]]).

(* bools stored in object fields *)
Definition b2z (b : bool) : Z := if b then 1 else 0.
Definition z2b (z : Z) : bool := negb (z =? 0).

Section ObjSteps.
Context {B : Type}.

Lemma bind_fld_load p k (kk : Z -> M B) h : 0 < p ->
  bind (fld_load p k) kk h = kk (nth k (arr_get h (obj_arr p)) 0) h.
Proof. intros Hp. unfold bind, fld_load. destruct (Z.leb_spec p 0); [lia|reflexivity]. Qed.

Lemma bind_fld_store p k v (kk : unit -> M B) h : 0 < p ->
  bind (fld_store p k v) kk h =
  kk tt (arr_set h (obj_arr p) (zsplice (arr_get h (obj_arr p)) (Z.of_nat k) [v])).
Proof. intros Hp. unfold bind, fld_store. destruct (Z.leb_spec p 0); [lia|reflexivity]. Qed.

Lemma bind_fld_load_nil k (kk : Z -> M B) h p : p <= 0 -> bind (fld_load p k) kk h = GoPanic.
Proof. intros Hp. unfold bind, fld_load. destruct (Z.leb_spec p 0); [reflexivity|lia]. Qed.

Lemma bind_obj_new n (kk : Z -> M B) h :
  bind (obj_new n) kk h = kk (Z.of_nat (length h) + 1) (h ++ [repeat 0 n]).
Proof. reflexivity. Qed.

Lemma bind_goappend_inplace s v (kk : gslice -> M B) h : s_len s < s_cap s ->
  bind (goappend s v) kk h =
  kk (mkSl (s_arr s) (s_off s) (s_len s + 1) (s_cap s))
     (sl_put h (mkSl (s_arr s) (s_off s) (s_len s + 1) (s_cap s)) (s_len s) [v]).
Proof. intros Hc. unfold bind, goappend. destruct (Z.ltb_spec (s_len s) (s_cap s)); [reflexivity|lia]. Qed.

Lemma bind_goappend_fresh s v (kk : gslice -> M B) h : s_cap s <= s_len s ->
  bind (goappend s v) kk h =
  kk (mkSl (length h) 0 (s_len s + 1) (s_len s + 1)) (h ++ [sl_get h s ++ [v]]).
Proof. intros Hc. unfold bind, goappend. destruct (Z.ltb_spec (s_len s) (s_cap s)); [lia|reflexivity]. Qed.

End ObjSteps.

Ltac go_step_obj :=
  match goal with
  | |- context [bind (fld_load ?p ?f) ?k ?h] => rewrite (bind_fld_load p f k h) by go_side
  | |- context [bind (fld_store ?p ?f ?v) ?k ?h] => rewrite (bind_fld_store p f v k h) by go_side
  | |- context [bind (obj_new ?n) ?k ?h] => rewrite (bind_obj_new n k h)
  end.
Ltac go_step ::= first [go_step_base | go_step_obj].
