(** Serialised observations for the correspondence runs of C15/C16.

    Model and harness both flatten what they observed for a case into a list
    of numbers with a fixed layout.  Short lists are shipped verbatim in the
    case ([ObsList]) and compared exactly; long ones (exhaustive sweeps, long
    byte strings) are shipped as length + 63-bit multiplicative hash
    ([ObsHash]); the same hash is computed by the harness (package xbobs).
    Because the multiplier is odd, two lists of equal length that differ in
    exactly one position (by less than 2^63) always hash differently.
    The hash runs on Coq's primitive 63-bit integers (kernel primitives, used
    for evaluation only: no lemma of the Uint63 library is used anywhere). *)
From Coq Require Import List NArith ZArith Bool Uint63.
Import ListNotations.
Open Scope N_scope.

Definition n2i (x : N) : int := Uint63.of_Z (Z.of_N x).       (* x mod 2^63 *)

Definition hash_step (h : int) (x : N) : int :=
  (h * 1099511628211 + n2i x + 1)%uint63.
Definition hash_list (l : list N) : int := fold_left hash_step l 1469598103934665603%uint63.

Inductive obs :=
| ObsList (l : list N)
| ObsHash (n : N) (h : N).

Fixpoint nlist_eqb (a b : list N) : bool :=
  match a, b with
  | [], [] => true
  | x :: a', y :: b' => (x =? y) && nlist_eqb a' b'
  | _, _ => false
  end.

Definition obs_match (model : list N) (o : obs) : bool :=
  match o with
  | ObsList l => nlist_eqb model l
  | ObsHash n h => (N.of_nat (length model) =? n) && Uint63.eqb (hash_list model) (n2i h)
  end.

(* what [explain] prints: short lists verbatim, long ones as their digest *)
Definition obs_digest (model : list N) : obs :=
  if Nat.leb (length model) 600 then ObsList model
  else ObsHash (N.of_nat (length model)) (Z.to_N (Uint63.to_Z (hash_list model))).

Definition b2n (b : bool) : N := if b then 1 else 0.
Definition nn (n : nat) : N := N.of_nat n.

(* run-length coded byte strings: (byte, count) *)
Definition expand (runs : list (N * N)) : list N :=
  flat_map (fun r => repeat (fst r) (N.to_nat (snd r))) runs.

(* lo, lo+1, ..., lo+cnt-1 *)
Fixpoint nrange (lo : N) (cnt : nat) : list N :=
  match cnt with
  | O => []
  | S c => lo :: nrange (lo + 1) c
  end.
