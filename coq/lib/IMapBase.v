(** Vocabulary shared by the three layers of the ordered-map development
    (C10, C11): the result monad with the outcomes [Panic] (nil dereference /
    explicit panic in the Go code) and [NoFuel] (model artefact), the
    operations and outputs of [iterable.Map] and its iterators, association
    lists standing for Go maps, the syntactic well-formedness of a history and
    the generic [run].  Keys, values and iterator names are [Z].

    No proofs in this file. *)
From Coq Require Import List ZArith Arith Bool.
Import ListNotations.
Open Scope Z_scope.

(** * Result monad *)

Inductive res (A : Type) : Type :=
| Ok (a : A)
| Panic
| NoFuel.
Arguments Ok {A} a.
Arguments Panic {A}.
Arguments NoFuel {A}.

Definition bind {A B : Type} (r : res A) (f : A -> res B) : res B :=
  match r with
  | Ok a => f a
  | Panic => Panic
  | NoFuel => NoFuel
  end.

Notation "x <- r ;; k" := (bind r (fun x => k))
  (at level 61, r at next level, right associativity).
Notation "' p <- r ;; k" := (bind r (fun p => k))
  (at level 61, p pattern, r at next level, right associativity).

(* dereference of a possibly-nil pointer *)
Definition deref {A : Type} (o : option A) : res A :=
  match o with Some a => Ok a | None => Panic end.

(** * Node states: rlLast = 0 (the trailing sentinel), rlOk, rlDeleted *)

Inductive nstate := StLast | StOk | StDeleted.

Definition nstate_eqb (a b : nstate) : bool :=
  match a, b with
  | StLast, StLast | StOk, StOk | StDeleted, StDeleted => true
  | _, _ => false
  end.

(** * Operations and outputs of the map API *)

Inductive op :=
| OAdd (k v : Z)
| ORemove (k : Z)
| OGet (k : Z)
| OLen
| OFirst
| ONewIter (i : Z)      (* it_i := m.Iterator() *)
| OHasNext (i : Z)
| ONext (i : Z)
| OClose (i : Z).

Inductive out :=
| OutUnit                       (* Add ok, Remove, Close *)
| OutErr                        (* Add: key exists *)
| OutGet (r : option Z)         (* Get: value, ok *)
| OutLen (n : nat)
| OutFirst (r : option Z)       (* First: key when ok *)
| OutBool (b : bool)            (* HasNext *)
| OutNext (r : option (Z * Z))  (* Next: (key, value) when ok; key/value are not observed when !ok *)
| OutPanic
| OutNoFuel.

Definition out_eqb (a b : out) : bool :=
  match a, b with
  | OutUnit, OutUnit | OutErr, OutErr | OutPanic, OutPanic | OutNoFuel, OutNoFuel => true
  | OutGet None, OutGet None | OutFirst None, OutFirst None | OutNext None, OutNext None => true
  | OutGet (Some x), OutGet (Some y) => x =? y
  | OutFirst (Some x), OutFirst (Some y) => x =? y
  | OutNext (Some (k1, v1)), OutNext (Some (k2, v2)) => (k1 =? k2) && (v1 =? v2)
  | OutLen x, OutLen y => Nat.eqb x y
  | OutBool x, OutBool y => Bool.eqb x y
  | _, _ => false
  end.

Definition is_stop (o : out) : bool :=
  match o with OutPanic | OutNoFuel => true | _ => false end.

(** * Association lists (Go maps; iterator tables) *)

Section Assoc.
Context {V : Type}.

Fixpoint alookup (k : Z) (l : list (Z * V)) : option V :=
  match l with
  | [] => None
  | (k', v) :: t => if k' =? k then Some v else alookup k t
  end.

Definition aremove (k : Z) (l : list (Z * V)) : list (Z * V) :=
  filter (fun p => negb (fst p =? k)) l.

Definition aset (k : Z) (v : V) (l : list (Z * V)) : list (Z * V) :=
  map (fun p => if fst p =? k then (k, v) else p) l.

Definition akeys (l : list (Z * V)) : list Z := map fst l.

End Assoc.

(* a name that no open iterator carries: used for the iterator [First] opens *)
Definition fresh_name (names : list Z) : Z :=
  fold_right (fun x acc => Z.max (x + 1) acc) 0 names.

(** * Well-formed histories: an iterator is used only between its creation and
      its [Close]; a name is not re-bound while open.  (A history may leave
      any number of iterators open for ever.) *)

Definition memZ (x : Z) (l : list Z) : bool := existsb (Z.eqb x) l.

Fixpoint wf_from (open : list Z) (h : list op) : bool :=
  match h with
  | [] => true
  | o :: t =>
      match o with
      | ONewIter i => negb (memZ i open) && wf_from (i :: open) t
      | OHasNext i | ONext i => memZ i open && wf_from open t
      | OClose i => memZ i open && wf_from (filter (fun x => negb (x =? i)) open) t
      | _ => wf_from open t
      end
  end.

Definition wf_hist (h : list op) : Prop := wf_from [] h = true.

(** * Running a machine on a history: outputs in order; a [Panic]/[NoFuel]
      output ends the run (the Go program is dead). *)

Section Run.
Context {S : Type} (step : S -> op -> S * out).

Fixpoint run (s : S) (h : list op) : list out * S :=
  match h with
  | [] => ([], s)
  | o :: t =>
      let '(s', x) := step s o in
      if is_stop x then ([x], s')
      else let '(xs, sf) := run s' t in (x :: xs, sf)
  end.

Definition outs (s : S) (h : list op) : list out := fst (run s h).
Definition final (s : S) (h : list op) : S := snd (run s h).

End Run.
