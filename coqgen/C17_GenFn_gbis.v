(** C17, translator tie: GetBlocksInSegment as translated from the Go source on
    this run (Gen_blocks.v; os.Getpagesize() is the parameter [pageSize]) =
    [get_blocks_in_segment] wherever the segment size fits an int; beyond, the
    code (since a2fad47) answers -1 where the model, which computes in
    unbounded Z, does not. *)
From Coq Require Import List ZArith NArith Lia Bool.
From Coq Require Import ZifyBool.
From GL Require Import lib.GoLite model.Blocks.
From GLGEN Require Import BL_GenVocab Gen_blocks.
Import ListNotations.
Open Scope Z_scope.
Ltac Zify.zify_post_hook ::= Z.div_mod_to_equations.

Theorem gen_GetBlocksInSegment_refines : forall page bs h,
  0 < page < 9223372036854775808 -> -9223372036854775808 <= bs < 9223372036854775808 ->
  (bs * 8 + 1) * bs < 9223372036854775808 ->
  Gen.GetBlocksInSegment page bs h = Ok (get_blocks_in_segment page bs, h).
Proof.
  intros page bs h Hp Hb Hs. unfold Gen.GetBlocksInSegment, get_blocks_in_segment.
  destruct (Z.leb_spec bs 0) as [Hle|Hpos]; [reflexivity|].
  assert (Hb8 : bs < 1152921504606846976) by nia.
  pose proof (rem_range bs page ltac:(lia)) as Hr.
  pose proof (quot_le_iff (bs * 8 + 1) bs 9223372036854775807 ltac:(lia) ltac:(lia) ltac:(lia)) as Hq.
  assert (Hq' : -9223372036854775808 <= Z.quot 9223372036854775807 bs < 9223372036854775808)
    by (pose proof (quot_facts 9223372036854775807 bs ltac:(lia)); lia).
  Time (go_run; unfold ret; try reflexivity; lia).
Qed.

(* the guard added by a2fad47: a block size whose segment would not fit an int
   is rejected *)
Theorem gen_GetBlocksInSegment_guard : forall page bs h,
  0 < page < 9223372036854775808 -> 0 < bs < 9223372036854775808 ->
  9223372036854775808 <= (bs * 8 + 1) * bs ->
  Gen.GetBlocksInSegment page bs h = Ok (-1, h).
Proof.
  intros page bs h Hp Hb Hs. unfold Gen.GetBlocksInSegment.
  pose proof (rem_range bs page ltac:(lia)) as Hr.
  assert (Hq' : -9223372036854775808 <= Z.quot 9223372036854775807 bs < 9223372036854775808)
    by (pose proof (quot_facts 9223372036854775807 bs ltac:(lia)); lia).
  destruct (Z.ltb_spec 576460752303423487 bs) as [Hbig|Hsmall].
  - go_run; unfold ret; try reflexivity; lia.
  - pose proof (quot_le_iff (bs * 8 + 1) bs 9223372036854775807 ltac:(lia) ltac:(lia) ltac:(lia)) as Hq.
    go_run; unfold ret; try reflexivity; lia.
Qed.


Example gen_ex_gbis :
  Gen.GetBlocksInSegment 4096 2 [] = Ok (17, []) /\
  Gen.GetBlocksInSegment 4096 3 [] = Ok (-1, []) /\
  Gen.GetBlocksInSegment 4096 8192 [] = Ok (65537, []) /\
  Gen.GetBlocksInSegment 4096 4611686018427387904 [] = Ok (-1, []).
Proof. vm_compute. repeat split; reflexivity. Qed.
