(** C12 tie, stage 8: the [futures] methods as they appear in coqgen/Gen_heap.v
    (the file that also holds the translation of the standard library's
    container/heap, devirtualised to [futures]) refine [f_len / f_less / f_swap /
    f_push / f_pop] of model/THeap.v.  Same statements and proof scripts as
    C12_GenFn_less / _swap / _push / _pop.v, over the other generated module; here
    [time.Time] is [Z] and [Before] is [<?] in the generated code itself (--timeint),
    so [futures_Less] has no comparison parameter. *)
Set Warnings "-notation-overridden,-parsing".
From Coq Require Import List ZArith NArith Bool Lia.
From GL Require Import lib.GoLite model.THeap proofs.C12_THeap.
From GLGEN Require Import TM_GenVocab Gen_heap.
Import ListNotations.
Open Scope Z_scope.

Theorem gen_len D h fs m : rel D h fs m -> Gen.futures_Len fs = f_len m.
Proof. intros R. unfold Gen.futures_Len. exact (rel_len _ _ _ _ R). Qed.

Theorem gen_less D h fs m i j : rel D h fs m -> incl (arr m) D ->
  in_range m i = true -> in_range m j = true ->
  Gen.futures_Less fs i j h = Ok (f_less m i j, h).
Proof.
  intros R S Hi Hj. apply (proj1 (in_range_iff _ _ _ _ _ R)) in Hi. apply (proj1 (in_range_iff _ _ _ _ _ R)) in Hj.
  enough (P : post (Gen.futures_Less fs i j h) (fun b h' => b = f_less m i j /\ h' = h)).
  { destruct (post_elim _ _ P) as (b & h' & E & -> & ->). exact E. }
  unfold Gen.futures_Less. obj_run. obj_done. split; reflexivity.
Qed.

Theorem gen_swap D h fs m i j : rel D h fs m -> incl (arr m) D ->
  in_range m i = true -> in_range m j = true ->
  post (Gen.futures_Swap fs i j h) (fun _ h' => rel D h' fs (f_swap m i j)).
Proof.
  intros R S Hi Hj. pose proof Hi as Hi'. pose proof Hj as Hj'.
  apply (proj1 (in_range_iff _ _ _ _ _ R)) in Hi. apply (proj1 (in_range_iff _ _ _ _ _ R)) in Hj.
  rel_facts R. unfold f_len in L.
  unfold Gen.futures_Swap. obj_run. obj_done.
  eapply rel_ext; [eassumption|].
  unfold f_swap. rewrite Hi', Hj'. cbn [andb]. cbv zeta.
  unfold m_idx, m_slot; cbn [arr hs bad].
  destruct (Z.eq_dec i j) as [->|Hij];
    rewrite ?aget_aset_same by (rewrite ?aset_length; lia);
    rewrite ?(aget_aset_other _ j i) by lia;
    rewrite ?aget_aset_same by (rewrite ?aset_length; lia);
    apply meq_refl.
Qed.

Theorem gen_swap_panic D h fs m i j : rel D h fs m -> incl (arr m) D ->
  in_range m i && in_range m j = false -> Gen.futures_Swap fs i j h = GoPanic.
Proof.
  intros R S Hr. rel_facts R. unfold in_range in Hr. rewrite <- L in Hr.
  unfold Gen.futures_Swap.
  destruct (Z.leb_spec 0 i); destruct (Z.ltb_spec i (s_len fs)); destruct (Z.leb_spec 0 j);
    destruct (Z.ltb_spec j (s_len fs)); cbn [andb] in Hr; try discriminate Hr; panic_run; reflexivity.
Qed.

Theorem gen_push D h fs m x : rel D h fs m -> incl (arr m) D -> In x D ->
  s_len fs + 1 < 9223372036854775808 ->
  post (Gen.futures_Push fs (ptr x) h) (fun fs' h' => rel D h' fs' (f_push m x)).
Proof.
  intros R S Hx Hm. rel_facts R.
  unfold Gen.futures_Push, Gen.futures_Len.
  obj_run; obj_done; (eapply rel_ext; [eassumption|]); unfold f_push; rewrite <- L; apply meq_refl.
Qed.

Theorem gen_pop D h fs m : rel D h fs m -> incl (arr m) D -> arr m <> [] ->
  post (Gen.futures_Pop fs h)
       (fun r h' => snd r = ptr (snd (f_pop m)) /\ rel D h' (fst r) (fst (f_pop m))).
Proof.
  intros R S Hne. rel_facts R.
  assert (Hn : 1 <= s_len fs). { rewrite L. unfold f_len. destruct (arr m); [contradiction|cbn [length]; lia]. }
  rewrite (pop_spec m Hne). cbv zeta. cbn [fst snd].
  replace (anth (arr m) (length (arr m) - 1)) with (aget (arr m) (s_len fs - 1))
    by (rewrite aget_anth; f_equal; unfold f_len in L; lia).
  unfold Gen.futures_Pop, Gen.futures_Len. obj_run. obj_done. cbn [fst snd]. split; [reflexivity|].
  eapply rel_ext; [eassumption|]. split; [|intros y; split; reflexivity].
  cbn [arr m_idx m_take m_slot]. unfold aset. apply firstn_aset_last. unfold f_len in L. lia.
Qed.

Theorem gen_pop_panic D h fs m : rel D h fs m -> arr m = [] -> Gen.futures_Pop fs h = GoPanic.
Proof.
  intros R He. rel_facts R. unfold f_len in L. rewrite He in L. cbn [length] in L.
  unfold Gen.futures_Pop, Gen.futures_Len. panic_run. reflexivity.
Qed.

Definition gen_heap_method_ties := (gen_len, gen_less, gen_swap, gen_swap_panic, gen_push, gen_pop, gen_pop_panic).
Print Assumptions gen_heap_method_ties.
