(** C15, translator tie, variable-length uint: the generated loops of
    MarshalUint / UnmarshalUint (Gen_xbinary_fn.v, harness/cmd/go2coq) refine
    [marshal_uint] / [unmarshal_uint] of coq/model/XBinary.v. *)
From Coq Require Import List NArith ZArith Arith Lia Bool.
From Coq Require Import ZifyBool ZifyN ZifyNat.
From GL Require Import lib.GoLite model.XBinary proofs.C15_XBinary.
From GLGEN Require Import XB_GenVocab Gen_xbinary_fn.
Import ListNotations.
Open Scope Z_scope.
Ltac Zify.zify_post_hook ::= Z.div_mod_to_equations.

(* what the loop of MarshalUint does from the state (v, idx), by induction on
   the fuel of the model; the fuel of the generated loop only has to exceed the
   room that is left *)

Lemma gen_MarshalUint_loop : forall mf buf f v idx h,
  wf_slice h buf -> 0 <= idx <= s_len buf -> 0 <= v ->
  (Z.to_nat (s_len buf - idx) < f)%nat ->
  fst (marshal_uint_go mf (Z.to_N v) (Z.to_nat (s_len buf - idx))) <> WFuel ->
  iter f (Gen.MarshalUint_loop1 buf) (v, idx) h =
  let r := marshal_uint_go mf (Z.to_N v) (Z.to_nat (s_len buf - idx)) in
  Ok ((match fst r with WOk => idx + zlen (snd r) | _ => 0 end, err_of (fst r)),
      sl_put h buf idx (zs (snd r))).
Proof.
  induction mf as [|mf IH]; intros buf f v idx h W Hidx Hv Hf Hne.
  - cbn in Hne. congruence.
  - destruct f as [|f]; [lia|]. rewrite iter_S. unfold Gen.MarshalUint_loop1 at 1.
    cbn [marshal_uint_go] in *.
    pose proof W as (Wa & Wo & Wl & Wc & Wm).
    destruct (Z.to_nat (s_len buf - idx)) as [|room] eqn:Eroom; go_run;
    lazymatch goal with
         | |- iter _ _ _ _ = _ =>
             (* a continuation byte was stored; the rest by induction *)
             go_unwrap;
             assert (Hv' : 0 <= shr v 7)
               by (unfold shr; rewrite Z.shiftr_div_pow2 by lia; apply Z.div_pos; lia);
             assert (Er : Z.to_nat (s_len buf - (idx + 1)) = room) by lia;
             match goal with |- iter _ _ _ ?h' = _ =>
               assert (W' : wf_slice h' buf)
                 by (apply wf_slice_put; [exact W|lia|unfold zlen; cbn [length]; lia|exact W])
             end;
             specialize (IH buf f (shr v 7) (idx + 1) _ W' ltac:(lia) Hv' ltac:(lia));
             rewrite Er, Z_to_N_shr7 in IH by exact Hv;
             destruct (marshal_uint_go mf (N.shiftr (Z.to_N v) 7) room) as [st bs] eqn:Em;
             cbn [fst snd] in *; rewrite IH by exact Hne; cbn [zs map]; fold (zs bs);
             rewrite <- cont_byte by exact Hv;
             match goal with |- context [sl_put (sl_put h buf idx [?x]) buf (idx + 1) ?d] =>
               replace (idx + 1) with (idx + zlen [x]) by reflexivity;
               rewrite (sl_put_put_adj h buf idx [x] d W) by (unfold zlen; cbn [length]; lia)
             end;
             cbn [app]; f_equal; f_equal; f_equal;
             destruct st; try reflexivity; unfold zlen; cbn [length]; lia
         | |- _ =>
             (* the loop ended here: buffer exhausted, or the last byte stored *)
             unfold ret; go_unwrap; cbn [fst snd err_of zs map];
             rewrite ?(sl_put_nil h buf idx W); rewrite ?u8_small, ?Z2N.id by lia;
             unfold zlen; cbn [length]; reflexivity
         end.
Qed.

Theorem gen_MarshalUint_refines : forall h buf v, wf_slice h buf -> 0 <= v < 2^64 ->
  Gen.MarshalUint v buf h = wr_result (marshal_uint (Z.to_N v) (Z.to_nat (s_len buf))) h buf.
Proof.
  intros h buf v W Hv. pose proof W as (Wa & Wo & Wl & Wc & Wm).
  assert (HvN : (Z.to_N v < 2^64)%N) by (change (2^64)%N with 18446744073709551616%N; lia).
  pose proof (marshal_uint_no_fuel (Z.to_N v) (Z.to_nat (s_len buf)) HvN) as Hne.
  unfold Gen.MarshalUint. cbv beta iota zeta.
  match goal with |- iter ?f _ _ _ = _ =>
    pose proof (gen_MarshalUint_loop 10 buf f v 0 h W ltac:(lia) ltac:(lia)) as L
  end.
  rewrite Z.sub_0_r in L. fold (marshal_uint (Z.to_N v) (Z.to_nat (s_len buf))) in L.
  rewrite L by (try exact Hne; lia). unfold wr_result, w_n.
  destruct (marshal_uint (Z.to_N v) (Z.to_nat (s_len buf))) as [st bs]. cbn [fst snd].
  repeat f_equal. destruct st; try reflexivity; rewrite zlen_zs; lia.
Qed.

Print Assumptions gen_MarshalUint_refines.

(* the loop of UnmarshalUint from the state (res, idx, shft); rest is the
   unread input.  The shift counter is a uint in Go and an unbounded N in the
   model: they agree as long as 7*len(buf) < 2^64. *)

Lemma gen_UnmarshalUint_loop : forall rest buf f res idx shft h,
  wf_slice h buf -> byte_list (sl_get h buf) ->
  0 <= idx <= s_len buf -> rest = skipn (Z.to_nat idx) (ns (sl_get h buf)) ->
  0 <= res -> 0 <= shft -> shft + 7 * (s_len buf - idx) < 18446744073709551616 ->
  (length rest < f)%nat ->
  iter f (Gen.UnmarshalUint_loop1 buf) (res, idx, shft) h =
  rd_result (unmarshal_uint_go rest (Z.to_N res) (Z.to_N shft) (Z.to_nat idx)) h.
Proof.
  induction rest as [|b tl IH]; intros buf f res idx shft h W Hb Hidx Hrest Hres Hshft Hsh Hf;
    pose proof W as (Wa & Wo & Wl & Wc & Wm); pose proof (sl_get_len h buf W) as L;
    (destruct f as [|f]; [cbn [length] in Hf; lia|]); rewrite iter_S;
    unfold Gen.UnmarshalUint_loop1 at 1; cbn [unmarshal_uint_go]; symmetry in Hrest.
  - (* no input left *)
    apply skipn_nil_len in Hrest. rewrite length_ns in Hrest. unfold zlen in L.
    go_run; unfold ret, rd_result; reflexivity.
  - apply skipn_cons_nth in Hrest. destruct Hrest as (Hn & Htl & Hlt).
    rewrite nth_ns in Hn. rewrite length_ns in Hlt. unfold zlen in L.
    assert (Hz : znth (sl_get h buf) idx = Z.of_N b).
    { unfold znth. rewrite <- Hn. rewrite Z2N.id; [reflexivity|].
      apply (byte_list_znth (sl_get h buf) idx Hb). unfold zlen. lia. }
    assert (Hacc : forall bz, bz = Z.of_N b ->
              Z.lor res (shl u64 64 (u64 (Z.land bz 127)) shft) =
              Z.of_N (N.lor (Z.to_N res) (shl64 (N.land b 127) (Z.to_N shft)))).
    { intros bz ->. rewrite acc_byte by lia. rewrite N2Z.id. reflexivity. }
    go_run;
    lazymatch goal with
    | |- iter _ _ _ _ = _ =>
        go_unwrap; rewrite (Hacc _ Hz);
        rewrite (IH buf f _ (idx + 1) (shft + 7) h W Hb) by (cbn [length] in Hf; first [lia | rewrite <- Htl; f_equal; lia]);
        rewrite N2Z.id; do 2 f_equal; lia
    | |- _ =>
        unfold ret, rd_result; go_unwrap; rewrite (Hacc _ Hz); repeat f_equal; lia
    end.
Qed.

Theorem gen_UnmarshalUint_refines : forall h buf,
  wf_slice h buf -> byte_list (sl_get h buf) -> 7 * s_len buf < 18446744073709551616 ->
  Gen.UnmarshalUint buf h = rd_result (unmarshal_uint (ns (sl_get h buf))) h.
Proof.
  intros h buf W Hb Hlen. pose proof W as (Wa & Wo & Wl & Wc & Wm).
  pose proof (sl_get_len h buf W) as L. unfold zlen in L.
  unfold Gen.UnmarshalUint, unmarshal_uint. cbv beta iota zeta.
  match goal with |- iter ?f _ _ _ = _ =>
    apply (gen_UnmarshalUint_loop (ns (sl_get h buf)) buf f 0 0 0 h W Hb); try lia; try reflexivity
  end.
  rewrite length_ns. lia.
Qed.

Print Assumptions gen_UnmarshalUint_refines.
