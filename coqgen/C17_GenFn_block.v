(** C17, translator tie: Blocks.Block as translated from the Go source on this
    run (Gen_blocks.v; the Buffer interface value is an opaque handle and bts.Buffer is the
    function parameter [bts_Buffer]): the
    bounds test, the panic on blksInSegm = 0 and the offset handed to the
    storage = [block_off]. *)
From Coq Require Import List ZArith NArith Lia Bool.
From Coq Require Import ZifyBool.
From GL Require Import lib.GoLite model.Blocks.
From GLGEN Require Import BL_GenVocab Gen_blocks.
Import ListNotations.
Open Scope Z_scope.
Ltac Zify.zify_post_hook ::= Z.div_mod_to_equations.

(* the generated record carries the model's geometry *)
Definition blk_rel (g : Gen.Blocks) (b : blocks) : Prop :=
  Gen.Blocks_blkSize g = blkSize b /\ Gen.Blocks_blksInSegm g = blksInSegm b /\
  Gen.Blocks_segments g = segments b.


Theorem gen_Block_refines : forall (f : Z -> Z -> Z -> M (gslice * error)) g b idx h,
  blk_rel g b -> geom_ok b -> -9223372036854775808 <= idx < 9223372036854775808 ->
  Gen.Blocks_Block f g idx h =
  if blksInSegm b =? 0 then GoPanic
  else if (segments b <=? Z.quot idx (blksInSegm b)) || (idx <? 0) then Ok ((nil_slice, Err), h)
  else f (Gen.Blocks_bts g) (block_off b idx) (blkSize b) h.
Proof.
  intros f g b idx h (Es & Ei & Eg) (H1 & H2 & H3 & H4 & H5) Hi.
  unfold Gen.Blocks_Block, block_off. rewrite Es, Ei, Eg.
  destruct (Z.eqb_spec (blksInSegm b) 0) as [E0|E0]; [rewrite E0; reflexivity|].
  destruct (quot_facts idx (blksInSegm b) ltac:(lia)) as [Qp Qn].
  assert (Hq : -9223372036854775808 <= (Z.quot idx (blksInSegm b)) < 9223372036854775808) by lia.
  destruct ((segments b <=? (Z.quot idx (blksInSegm b))) || (idx <? 0)) eqn:Ec.
  - go_run; reflexivity.
  - destruct (geom_bounds (segments b) (blksInSegm b) (blkSize b) (Z.quot idx (blksInSegm b)) idx
                (Z.rem idx (blksInSegm b))) as (G1 & G2 & G3 & G4 & G5); try lia.
    go_run. reflexivity.
Qed.


Example gen_ex_block :
  let g := Gen.mk_Blocks 2 16 3 0 5 48 in
  let probe := fun (hd offs size : Z) (h : heap) => Ok ((mkSl 0 offs size size, ENil), h) in
  Gen.Blocks_Block probe g 17 [] = Ok ((mkSl 0 38 2 2, ENil), []) /\
  Gen.Blocks_Block probe g 48 [] = Ok ((nil_slice, Err), []) /\
  Gen.Blocks_Block probe (Gen.mk_Blocks 2 0 3 0 5 0) 1 [] = GoPanic.
Proof. vm_compute. repeat split; reflexivity. Qed.
