(** C08 tie, stage 11 (a): [ExpirableCache.GetOrCreate] of
    /repo/container/lru/expirable.go (coqgen/Gen_expirable.v, translated over the
    stage-9 [ECache_GetOrCreate] / [ECache_Remove] of the Gen_ecache.v snapshot)
    against [ec_eget] / the [OEGet] step of model/ECache.v, and the stage-9
    headline extended to histories WITH [OEGet].

    The two [GetOrCreate] calls of the wrapper share ONE create function value.
    It is stateful: [create_spec2 cc2]: [cc2 r1 r2] answers [r1] as long as the
    log of the current operation holds no create event, then [r2] (the model's
    "next unused scripted answer"); [lit_create2] implements it by reading the
    log array back.  [gen_GetOrCreate_at] is [gen_GetOrCreate_refines]
    (C08_GenFn_goc.v, same proof script) under the assumption on the create
    function at the one log where it is called. *)
Set Warnings "-notation-overridden,-parsing".
From Coq Require Import List ZArith NArith Arith Bool Lia.
From GL Require Import lib.IMapBase model.IMap spec.OMap spec.LRU model.ECache
  proofs.C10_Next proofs.C10_ChainSim proofs.C10_Main proofs.C11_Chain proofs.C11_LRU
  proofs.C08_ECache proofs.C08_LRU proofs.C08_Corollaries.
From GL Require Import lib.GoLite lib.GoLitePtr.
From GLGEN Require Import IM_GenVocab Gen_imap C10_GenFn_node C10_GenFn_walk C10_GenFn C10_GenFn_run C11_GenFn.
From GLGEN Require Import EC_GenVocab Gen_ecache C08_GenFn_small C08_GenFn_goc C08_GenFn_clear C08_GenFn_run.
From GLGEN Require Gen_expirable.
Import ListNotations.
Open Scope Z_scope.

Module GX := Gen_expirable.Gen.

Definition is_create (e : lru_ev Z Z) : bool := match e with EvCreate _ _ => true | _ => false end.

(* the stateful create function: the first creation of an operation answers r1, a later one r2 *)
Definition create_spec2 (cc2 : option Z -> option Z -> Z -> Z -> M (Z * error)) : Prop :=
  forall r1 r2 hc pk evs pl mh,
    cc2 r1 r2 hc pk (gheap (enc_evs evs) pl mh) =
    let res := if existsb is_create evs then r2 else r1 in
    Ok (match res with Some v => (v, ENil) | None => (0, Err) end,
        gheap (enc_evs evs ++ enc_ev (EvCreate pk res)) pl mh).

Definition expires_spec (expires : Z -> Z) (item_expires : Z -> M Z) : Prop :=
  forall v h, item_expires v h = Ok (expires v, h).

Definition lit_create2 (r1 r2 : option Z) (hc pk : Z) : M (Z * error) := fun h =>
  lit_create (if existsb is_create (dec_evs (read_log h)) then r2 else r1) hc pk h.

Lemma lit_create2_spec : create_spec2 lit_create2.
Proof.
  intros r1 r2 hc pk evs pl mh. unfold lit_create2. change (read_log (gheap (enc_evs evs) pl mh)) with (enc_evs evs).
  rewrite dec_enc_evs. reflexivity.
Qed.

Definition lit_expires (expires : Z -> Z) (v : Z) : M Z := ret (expires v).
Lemma lit_expires_spec expires : expires_spec expires (lit_expires expires).
Proof. intros v h. reflexivity. Qed.

Section EGet.

Variable pool_Put : Z -> Z -> M unit.
Variable pool_Get : option nat -> Z -> M Z.
Hypothesis Hput : put_spec pool_Put.
Hypothesis Hget : get_spec pool_Get.

Variable kmap : Z -> Z.
Variable expires : Z -> Z.
Variable keymap_call : Z -> Z -> M Z.
Variable delete_call : Z -> Z -> Z -> M unit.
Variable cc2 : option Z -> option Z -> Z -> Z -> M (Z * error).
Variable item_expires : Z -> M Z.
Variable pair_mk : Z -> Z -> Z.
Variable pair_pk pair_v : Z -> Z.
Variable chan_make : M Z.
Variable chan_close chan_recv : Z -> M unit.
Hypothesis Hkey : keymap_spec kmap keymap_call.
Hypothesis Hdel : delete_spec delete_call.
Hypothesis Hcre2 : create_spec2 cc2.
Hypothesis Hexp : expires_spec expires item_expires.
Hypothesis Hpair : pair_spec pair_mk pair_pk pair_v.
Hypothesis Hchan : chan_spec chan_make chan_close.

Variables HC HD HK : Z.
Hypothesis HD_nz : HD <> 0.

Notation dec := (C08_GenFn_small.dec pair_pk pair_v).
Notation gp := (C08_GenFn_small.gp HC HD HK).

Ltac gp_cbn :=
  unfold C08_GenFn_small.gp, Gen.set_ECache_items, Gen.set_ECache_inflight in *;
  cbn [Gen.ECache_maxSize Gen.ECache_items Gen.ECache_inflight Gen.ECache_createNewF
       Gen.ECache_onDeleteF Gen.ECache_mapToInnerKeyF] in *.

Lemma dec_mk pk v : dec (pair_mk pk v) = (pk, v).
Proof. unfold C08_GenFn_small.dec. destruct (Hpair pk v) as [-> ->]. reflexivity. Qed.

(* gen_GetOrCreate_refines for a create function [cc] that is only known at the log [lg] of the call *)
Theorem gen_GetOrCreate_at (cc : Z -> Z -> M (Z * error)) lg c cap s o pk res B :
  (forall pl mh, cc HC pk (gheap lg pl mh) =
     Ok (match res with Some v => (v, ENil) | None => (0, Err) end, gheap (lg ++ enc_ev (EvCreate pk res)) pl mh)) ->
  cinv B s o -> B + 18 <= 2 ^ 62 ->
  let '(c', (r, evs)) := ec_get Z.eqb kmap (mkEC (bm dec (entries o)) cap) pk res in
  exists s' o' v e,
    Gen.ECache_GetOrCreate keymap_call pool_Put (pool_Get c) pair_v chan_make chan_recv cc chan_close
        pair_mk delete_call pair_pk (gp cap s) pk (sheap lg s) =
      Ok ((gp cap s', v, e), sheap (lg ++ enc_evs evs) s') /\
    cinv (B + 18) s' o' /\ bm dec (entries o') = ec_items c' /\ r = res_of v e /\
    (length (entries o') <= length (entries o) + 1)%nat.
Proof.
  intros Hat (HR & Wi & Ho) Hb. destruct Hchan as ((c0 & Hmk) & Hcl).
  unfold ec_get, sec_lookup. cbn [ec_items ec_cap]. rewrite B_get.
  unfold Gen.ECache_GetOrCreate. gp_cbn. rewrite (bind_ok _ _ _ _ _ (Hkey HK pk _)).
  rewrite iter_S. unfold Gen.ECache_GetOrCreate_loop1 at 1. gp_cbn.
  set (k := kmap pk) in *.
  destruct (MC_get pool_Put pool_Get Hput Hget lg s o k B HR Wi ltac:(lia)) as (s1 & r & E1 & Hg1 & Hr & HR1 & W1).
  rewrite bind_assoc, (bind_ok _ _ _ _ _ E1). destruct r as [v0 ok]. cbn [fst snd] in Hr. cbv beta iota zeta.
  assert (Hgm : gmap s1 = gmap s) by (unfold gstate in Hg1; congruence).
  destruct (o_find (entries o) k) as [e0|] eqn:Ef; cbn [option_map] in *.
  - (* hit: Remove, Add *)
    destruct ok; [|discriminate]. injection Hr as ->. rewrite <- Hgm.
    destruct (MC_remove pool_Put pool_Get Hput Hget lg s1 o k (B + 3) HR1 W1 ltac:(lia)) as (s2 & E2 & _ & _ & HR2 & W2).
    rewrite bind_assoc, (bind_ok _ _ _ _ _ E2). cbv beta iota zeta. gp_cbn.
    destruct (MC_add pool_Put pool_Get Hput Hget lg c s2 _ k (OMap.e_val e0) (B + 3 + 3) HR2 W2 ltac:(lia)) as (s3 & e3 & E3 & HR3 & W3).
    rewrite bind_assoc, (bind_ok _ _ _ _ _ E3). cbv beta iota zeta. gp_cbn. rewrite bind_ret_l. cbv beta iota zeta.
    cbn [o_step entries fst] in HR3. rewrite o_find_kill in HR3. cbn [fst entries opos] in HR3.
    unfold ret. eexists s3, _, _, _. split; [unfold enc_evs; cbn [map concat]; rewrite app_nil_r; reflexivity|].
    split; [split; [exact HR3|split; [eapply winv_mono; [|exact W3]; lia|exact Ho]]|].
    split; [|split; [reflexivity|cbn [entries]; rewrite app_length, map_length; cbn [length]; lia]].
    cbn [entries ec_items]. rewrite B_remove, <- (B_add_absent dec _ k (OMap.e_val e0)) by apply o_find_kill. reflexivity.
  - (* miss *)
    destruct ok; [discriminate|]. cbv beta iota zeta. cbn [mapget mapfind negb].
    rewrite bind_assoc, (bind_ok _ _ _ _ _ (Hmk _)). cbv beta iota zeta. gp_cbn. cbn [mapset mapdel filter].
    unfold sheap at 1. rewrite bind_assoc, (bind_ok _ _ _ _ _ (Hat _ _)).
    fold (sheap (lg ++ enc_ev (EvCreate pk res)) s1). set (lg1 := lg ++ enc_ev (EvCreate pk res)).
    destruct res as [v|]; cbv beta iota zeta.
    + (* created *)
      rewrite bind_assoc, (bind_ok _ _ _ _ _ (Hcl _ _)). cbv beta iota zeta. gp_cbn.
      cbn [mapdel filter fst negb]. rewrite Z.eqb_refl. cbn [negb is_nil]. rewrite <- Hgm.
      destruct (MC_add pool_Put pool_Get Hput Hget lg1 c s1 o k (pair_mk pk v) (B + 3) HR1 W1 ltac:(lia)) as (s2 & e2 & E2 & HR2 & W2).
      rewrite bind_assoc, (bind_ok _ _ _ _ _ E2). cbv beta iota zeta. gp_cbn.
      cbn [o_step] in HR2. rewrite Ef in HR2. cbn [fst] in HR2.
      set (es2 := entries o ++ [mkEntry k (pair_mk pk v) true]) in *.
      rewrite (MC_len pool_Put pool_Get Hput Hget s2 _ (B + 3 + 3) HR2 W2 ltac:(lia)). cbn [entries].
      unfold sec_insert. rewrite <- (dec_mk pk v), (B_add_absent dec _ k _ Ef). fold es2. rewrite B_len.
      destruct (Nat.ltb_spec cap (o_len es2)) as [Hlt|Hge].
      * (* evict the oldest *)
        destruct (Z.ltb_spec (Z.of_nat cap) (Z.of_nat (o_len es2))); [|lia].
        destruct (MC_first pool_Put pool_Get Hput Hget lg1 s2 _ (B + 3 + 3) HR2 W2 ltac:(lia)) as (s3 & k1 & ok1 & E3 & Hf & HR3 & W3).
        rewrite bind_assoc, (bind_ok _ _ _ _ _ E3). cbv beta iota zeta. gp_cbn. cbn [entries] in Hf.
        destruct (first_live_pos es2 ltac:(lia)) as (j & e1 & Efl). rewrite Efl in Hf. cbn [option_map snd] in Hf.
        destruct ok1; [|discriminate]. injection Hf as ->.
        destruct (first_live_found _ _ _ Efl) as (e' & Efd).
        rewrite B_first, Efl. cbn [option_map snd]. rewrite B_get, Efd. cbn [option_map].
        destruct (MC_get pool_Put pool_Get Hput Hget lg1 s3 _ (OMap.e_key e1) (B + 3 + 3 + 3) HR3 W3 ltac:(lia)) as (s4 & r4 & E4 & Hg4 & Hr4 & HR4 & W4).
        rewrite bind_assoc, (bind_ok _ _ _ _ _ E4). destruct r4 as [v4 ok4]. cbn [fst snd entries] in Hr4. rewrite Efd in Hr4.
        cbn [option_map] in Hr4. destruct ok4; [|discriminate]. injection Hr4 as ->. cbv beta iota zeta.
        assert (Hgm4 : gmap s4 = gmap s3) by (unfold gstate in Hg4; congruence). rewrite <- Hgm4.
        destruct (MC_remove pool_Put pool_Get Hput Hget lg1 s4 _ (OMap.e_key e1) (B + 3 + 3 + 3 + 3) HR4 W4 ltac:(lia)) as (s5 & E5 & _ & _ & HR5 & W5).
        rewrite bind_assoc, (bind_ok _ _ _ _ _ E5). cbv beta iota zeta. gp_cbn.
        destruct (Z.eqb_spec HD 0); [contradiction|]. cbn [negb].
        unfold sheap at 1. rewrite bind_assoc, (bind_ok _ _ _ _ _ (Hdel HD _ _ _ _ _)). rewrite bind_ret_l. cbv beta iota zeta.
        unfold ret. eexists s5, _, _, _. split.
        { unfold lg1, enc_evs, dels_ev, C08_GenFn_small.dec. cbn [map concat fst snd]. rewrite app_nil_r, <- app_assoc. reflexivity. }
        split; [split; [exact HR5|split; [eapply winv_mono; [|exact W5]; lia|exact Ho]]|].
        split; [|split; [reflexivity|cbn [entries]; unfold es2; rewrite map_length, app_length; cbn [length]; lia]].
        cbn [entries ec_items fst]. rewrite B_remove. reflexivity.
      * destruct (Z.ltb_spec (Z.of_nat cap) (Z.of_nat (o_len es2))); [lia|]. rewrite bind_ret_l. cbv beta iota zeta.
        unfold ret. eexists s2, _, _, _. split; [unfold lg1, enc_evs, dels_ev; cbn [map concat]; rewrite app_nil_r; reflexivity|].
        split; [split; [exact HR2|split; [eapply winv_mono; [|exact W2]; lia|exact Ho]]|].
        split; [reflexivity|split; [reflexivity|cbn [entries]; unfold es2; rewrite app_length; cbn [length]; lia]].
    + (* the create function failed *)
      rewrite bind_assoc, (bind_ok _ _ _ _ _ (Hcl _ _)). cbv beta iota zeta. gp_cbn.
      cbn [mapdel filter fst negb]. rewrite Z.eqb_refl. cbn [negb is_nil]. rewrite bind_ret_l. cbv beta iota zeta.
      unfold ret. eexists s1, o, _, _. split; [unfold lg1, enc_evs; cbn [map concat]; rewrite app_nil_r, Hgm; reflexivity|].
      split; [split; [exact HR1|split; [eapply winv_mono; [|exact W1]; lia|exact Ho]]|].
      split; [reflexivity|split; [reflexivity|lia]].
Qed.

(** * ExpirableCache.GetOrCreate = the OEGet step *)

Lemma ec_get_shape cap it pk res :
  let '(c', (r, evs)) := ec_get Z.eqb kmap (mkEC it cap) pk res in
  ec_cap c' = cap /\ existsb is_create evs = (match evs with [] => false | _ => true end).
Proof.
  unfold ec_get. cbn [ECache.ec_items ECache.ec_cap]. destruct (sec_lookup _ _ _ _) as [[v it']|]; [split; reflexivity|].
  destruct res as [v|]; [|split; reflexivity]. destruct (sec_insert _ _ _ _ _ _) as [it' d]. split; reflexivity.
Qed.

Lemma no_create_dels (d : list (Z * Z)) : existsb is_create (dels_ev d) = false.
Proof. induction d as [|x d IH]; [reflexivity|exact IH]. Qed.

Theorem gen_EGet_refines c cap s o pk now r1 r2 B : cinv B s o -> B + 42 <= 2 ^ 62 ->
  let '(c', (r, evs)) := ec_eget Z.eqb kmap expires (mkEC (bm dec (entries o)) cap) pk now r1 r2 in
  exists s' o' v e,
    GX.ExpirableCache_GetOrCreate now keymap_call pool_Put (pool_Get c) pair_v chan_make chan_recv (cc2 r1 r2) chan_close
        pair_mk delete_call pair_pk item_expires (gp cap s) pk (sheap [] s) =
      Ok ((gp cap s', v, e), sheap (enc_evs evs) s') /\
    cinv (B + 42) s' o' /\ bm dec (entries o') = ec_items c' /\ ec_cap c' = cap /\ r = res_of v e /\
    (length (entries o') <= length (entries o) + 3)%nat.
Proof.
  intros Ci Hb. unfold ec_eget.
  (* the first lookup: the log is empty, the create function answers r1 *)
  assert (Hat1 : forall pl mh, cc2 r1 r2 HC pk (gheap [] pl mh) =
            Ok (match r1 with Some v => (v, ENil) | None => (0, Err) end, gheap ([] ++ enc_ev (EvCreate pk r1)) pl mh)).
  { intros pl mh. exact (Hcre2 r1 r2 HC pk [] pl mh). }
  pose proof (gen_GetOrCreate_at (cc2 r1 r2) [] c cap s o pk r1 B Hat1 Ci ltac:(lia)) as G1.
  pose proof (ec_get_shape cap (bm dec (entries o)) pk r1) as Sh1.
  destruct (ec_get Z.eqb kmap (mkEC (bm dec (entries o)) cap) pk r1) as [c1 [rr1 ev1]].
  destruct Sh1 as (Hcap1 & Hcr1).
  destruct G1 as (s1 & o1 & v1 & e1 & E1 & Ci1 & Hb1 & Hr1 & Hl1). cbn [app] in E1.
  unfold GX.ExpirableCache_GetOrCreate. cbv zeta.
  rewrite (bind_ok _ _ _ _ _ E1). cbv beta iota zeta.
  assert (Ci1' : cinv (B + 42) s1 o1).
  { destruct Ci1 as (A1 & A2 & A3). split; [exact A1|split; [eapply winv_mono; [|exact A2]; lia|exact A3]]. }
  destruct e1; cbn [is_nil negb]; cbn [res_of] in Hr1; subst rr1.
  2:{ (* the first GetOrCreate failed *)
      unfold ret. exists s1, o1, v1, Err. split; [reflexivity|]. split; [exact Ci1'|].
      split; [exact Hb1|]. split; [exact Hcap1|]. split; [reflexivity|lia]. }
  rewrite (bind_ok _ _ _ _ _ (Hexp v1 _)). cbv beta iota zeta.
  destruct (expires v1 <? now) eqn:Ex.
  2:{ unfold ret. exists s1, o1, v1, ENil. split; [reflexivity|]. split; [exact Ci1'|].
      split; [exact Hb1|]. split; [exact Hcap1|]. split; [reflexivity|lia]. }
  (* expired: Remove, then GetOrCreate again *)
  assert (Ec1 : c1 = mkEC (bm dec (entries o1)) cap) by (destruct c1; cbn [ECache.ec_items ECache.ec_cap] in *; subst; reflexivity).
  rewrite Ec1. unfold ec_remove. cbn [ECache.ec_items ECache.ec_cap].
  pose proof (gen_Remove_refines pool_Put pool_Get Hput Hget kmap keymap_call delete_call pair_pk pair_v Hkey Hdel
                HC HD HK HD_nz (enc_evs ev1) cap s1 o1 pk (B + 18) Ci1 ltac:(lia)) as G2.
  destruct (sec_remove Z.eqb kmap (bm dec (entries o1)) pk) as [[it2 b2] d2].
  destruct G2 as (s2 & o2 & E2 & Ci2 & Hb2 & _ & Hl2).
  rewrite (bind_ok _ _ _ _ _ E2). cbv beta iota zeta.
  set (res' := match ev1 with [] => r1 | _ => r2 end).
  rewrite <- enc_evs_app in E2 |- *.
  assert (Hat2 : forall pl mh, cc2 r1 r2 HC pk (gheap (enc_evs (ev1 ++ dels_ev d2)) pl mh) =
            Ok (match res' with Some v => (v, ENil) | None => (0, Err) end,
                gheap (enc_evs (ev1 ++ dels_ev d2) ++ enc_ev (EvCreate pk res')) pl mh)).
  { intros pl mh. rewrite (Hcre2 r1 r2 HC pk (ev1 ++ dels_ev d2) pl mh). cbv zeta.
    rewrite existsb_app, no_create_dels, orb_false_r, Hcr1. unfold res'. destruct ev1; reflexivity. }
  subst it2.
  pose proof (gen_GetOrCreate_at (cc2 r1 r2) (enc_evs (ev1 ++ dels_ev d2)) c cap s2 o2 pk res' (B + 18 + 6) Hat2 Ci2 ltac:(lia)) as G3.
  pose proof (ec_get_shape cap (bm dec (entries o2)) pk res') as Sh3.
  destruct (ec_get Z.eqb kmap (mkEC (bm dec (entries o2)) cap) pk res') as [c3 [rr3 ev3]].
  destruct Sh3 as (Hcap3 & _).
  destruct G3 as (s3 & o3 & v3 & e3 & E3 & Ci3 & Hb3 & Hr3 & Hl3).
  rewrite (bind_ok _ _ _ _ _ E3). cbv beta iota zeta. unfold ret.
  exists s3, o3, v3, e3. split; [rewrite <- enc_evs_app, <- app_assoc; reflexivity|].
  split; [replace (B + 42) with (B + 18 + 6 + 18) by lia; exact Ci3|].
  split; [exact Hb3|]. split; [exact Hcap3|]. split; [exact Hr3|lia].
Qed.

End EGet.


(** * Run level: histories WITH OEGet *)

Lemma ec_step_noeget {K PK V : Type} keqb (kmap : PK -> K) (e1 e2 : V -> Z) c (op : lru_op PK V) :
  match op with OEGet _ _ _ _ => False | _ => True end ->
  ec_step keqb kmap e1 c op = ec_step keqb kmap e2 c op.
Proof. destruct op; intros H; [reflexivity|reflexivity|reflexivity|destruct H]. Qed.

Section Run11.

Variable pool_Put : Z -> Z -> M unit.
Variable pool_Get : option nat -> Z -> M Z.
Hypothesis Hput : put_spec pool_Put.
Hypothesis Hget : get_spec pool_Get.

Variable kmap : Z -> Z.
Variable expires : Z -> Z.
Variable keymap_call : Z -> Z -> M Z.
Variable delete_call : Z -> Z -> Z -> M unit.
Variable create_call : option Z -> Z -> Z -> M (Z * error).
Variable cc2 : option Z -> option Z -> Z -> Z -> M (Z * error).
Variable item_expires : Z -> M Z.
Variable pair_mk : Z -> Z -> Z.
Variable pair_pk pair_v : Z -> Z.
Variable chan_make : M Z.
Variable chan_close chan_recv : Z -> M unit.
Hypothesis Hkey : keymap_spec kmap keymap_call.
Hypothesis Hdel : delete_spec delete_call.
Hypothesis Hcre : create_spec create_call.
Hypothesis Hcre2 : create_spec2 cc2.
Hypothesis Hexp : expires_spec expires item_expires.
Hypothesis Hpair : pair_spec pair_mk pair_pk pair_v.
Hypothesis Hchan : chan_spec chan_make chan_close.

Variables HC HD HK : Z.
Hypothesis HD_nz : HD <> 0.
Hypothesis HC_nz : HC <> 0.

Notation dec := (C08_GenFn_small.dec pair_pk pair_v).
Notation gp := (C08_GenFn_small.gp HC HD HK).
Notation gstep9 := (gen_step pool_Put pool_Get keymap_call delete_call create_call pair_mk pair_pk pair_v chan_make chan_close chan_recv).

(* one API call: OEGet runs the generated ExpirableCache.GetOrCreate (clock reading [now], the
   stateful create function on the scripted answers r1, r2), the others as in stage 9 *)
Definition gen_step_full (ch : nat -> option nat) (t : nat) (p : Gen.ECache) (o : lru_op Z Z) (h : heap)
  : outcome ((Gen.ECache * lru_out Z Z) * heap) :=
  match o with
  | OEGet pk now r1 r2 =>
      match GX.ExpirableCache_GetOrCreate now keymap_call pool_Put (pool_Get (ch t)) pair_v chan_make chan_recv (cc2 r1 r2)
              chan_close pair_mk delete_call pair_pk item_expires p pk (clear_log h) with
      | Ok ((p', v, e), h') => Ok ((p', (res_of v e, dec_evs (read_log h'))), h')
      | GoPanic => GoPanic
      | NoFuel => NoFuel
      end
  | _ => gstep9 ch t p o h
  end.

Fixpoint gen_run_full (ch : nat -> option nat) (t : nat) (p : Gen.ECache) (ops : list (lru_op Z Z)) (h : heap)
  : option (list (lru_out Z Z) * Gen.ECache * heap) :=
  match ops with
  | [] => Some ([], p, h)
  | o :: tl =>
      match gen_step_full ch t p o h with
      | Ok ((p', x), h') =>
          match gen_run_full ch (S t) p' tl h' with
          | Some (xs, pf, hf) => Some (x :: xs, pf, hf)
          | None => None
          end
      | _ => None
      end
  end.

Definition W3 (o : OMap.omap) : Z := 9 * Z.of_nat (length (entries o)) + 42.

Theorem gen_step_full_refines ch t lg cap s o op B : cinv B s o -> B + W3 o <= 2 ^ 62 ->
  let '(c', x, oof) := ec_step Z.eqb kmap expires (mkEC (bm dec (entries o)) cap) op in
  oof = false ->
  exists s' o',
    gen_step_full ch t (gp cap s) op (sheap lg s) = Ok ((gp cap s', x), sheap (enc_evs (snd x)) s') /\
    cinv (B + W3 o) s' o' /\ c' = mkEC (bm dec (entries o')) cap /\
    (length (entries o') <= length (entries o) + 3)%nat.
Proof.
  intros Ci Hb. unfold W3 in *.
  assert (Hmono : forall B1 B2 s1 o1, B1 <= B2 -> cinv B1 s1 o1 -> cinv B2 s1 o1).
  { intros B1 B2 s1 o1 Hle (A1 & A2 & A3). split; [exact A1|split; [eapply winv_mono; [|exact A2]; lia|exact A3]]. }
  destruct op as [pk res|pk| |pk now r1 r2].
  1-3: match goal with |- context [ec_step _ _ _ _ ?op] =>
         rewrite (ec_step_noeget Z.eqb kmap expires (fun _ => 0) _ op I);
         pose proof (gen_step_refines pool_Put pool_Get Hput Hget kmap keymap_call delete_call create_call pair_mk pair_pk pair_v
                       chan_make chan_close chan_recv Hkey Hdel Hcre Hpair Hchan HC HD HK HD_nz ch t lg cap s o op B Ci I
                       ltac:(unfold W; lia)) as G;
         destruct (ec_step Z.eqb kmap (fun _ : Z => 0) (mkEC (bm dec (entries o)) cap) op) as [[c' x] oof];
         intros Hoof; destruct (G Hoof) as (s' & o' & E & Ci' & Ec & Hl); exists s', o';
         (split; [exact E|]); (split; [apply (Hmono (B + W o)); [unfold W; lia|exact Ci']|]); (split; [exact Ec|lia])
       end.
  (* OEGet *)
  cbn [ec_step gen_step_full]. rewrite clear_log_sheap.
  pose proof (gen_EGet_refines pool_Put pool_Get Hput Hget kmap expires keymap_call delete_call cc2 item_expires pair_mk pair_pk pair_v
                chan_make chan_close chan_recv Hkey Hdel Hcre2 Hexp Hpair Hchan HC HD HK HD_nz (ch t) cap s o pk now r1 r2 B Ci
                ltac:(lia)) as G.
  destruct (ec_eget Z.eqb kmap expires (mkEC (bm dec (entries o)) cap) pk now r1 r2) as [c' [r evs]]. intros _.
  destruct G as (s' & o' & v & e & E & Ci' & Hb' & Hcap & -> & Hl). exists s', o'. rewrite E, read_log_sheap.
  cbn [snd fst]. rewrite dec_enc_evs.
  split; [reflexivity|]. split; [apply (Hmono (B + 42)); [lia|exact Ci']|].
  split; [destruct c'; cbn [ECache.ec_items ECache.ec_cap] in *; subst; reflexivity|exact Hl].
Qed.

Theorem gen_run_full_refines ch cap : forall ops t lg s o B,
  cinv B s o ->
  snd (ec_run Z.eqb kmap expires (mkEC (bm dec (entries o)) cap) ops) = false ->
  B + Z.of_nat (length ops) * (9 * (Z.of_nat (length (entries o)) + 3 * Z.of_nat (length ops)) + 42) <= 2 ^ 62 ->
  exists sf of Bf lgf,
    gen_run_full ch t (gp cap s) ops (sheap lg s) =
      Some (fst (fst (ec_run Z.eqb kmap expires (mkEC (bm dec (entries o)) cap) ops)), gp cap sf, sheap lgf sf) /\
    cinv Bf sf of /\
    snd (fst (ec_run Z.eqb kmap expires (mkEC (bm dec (entries o)) cap) ops)) = mkEC (bm dec (entries of)) cap.
Proof.
  induction ops as [|op tl IH]; intros t lg s o B Ci Hoof Hb.
  - cbn [ec_run gen_run_full fst snd]. exists s, o, B, lg. auto.
  - cbn [ec_run gen_run_full]. cbn [ec_run] in Hoof. cbn [length] in Hb.
    pose proof (gen_step_full_refines ch t lg cap s o op B Ci) as G. unfold W3 in G.
    destruct (ec_step Z.eqb kmap expires (mkEC (bm dec (entries o)) cap) op) as [[c' x] oof].
    destruct (ec_run Z.eqb kmap expires c' tl) as [[xs cf] oof'] eqn:Er. cbn [fst snd] in *.
    apply orb_false_elim in Hoof. destruct Hoof as [-> ->].
    destruct G as (s' & o' & E & Ci' & -> & Hl); [nia|reflexivity|]. rewrite E.
    destruct (IH (S t) (enc_evs (snd x)) s' o' (B + (9 * Z.of_nat (length (entries o)) + 42)) Ci') as (sf & of & Bf & lgf & E' & Cf & Hf).
    + rewrite Er. reflexivity.
    + nia.
    + rewrite Er in E', Hf. cbn [fst snd] in E', Hf. rewrite E'. exists sf, of, Bf, lgf. auto.
Qed.

(* the program: c, _ := NewECache(cap, ..) (what NewCache / NewExpirableCache wrap); then the calls *)
Definition gen_run_cache_full (ch : nat -> option nat) (cap : nat) (ops : list (lru_op Z Z))
  : option (list (lru_out Z Z) * Gen.ECache * heap) :=
  match Gen.NewECache (Z.of_nat cap) HK HC HD (gheap [] [] []) with
  | Ok ((p, _), h) => gen_run_full ch 0 p ops h
  | _ => None
  end.

(** the stage-9 headline for ALL histories: GetOrCreate / Remove / Clear and ExpirableCache.GetOrCreate *)
Theorem gen_ecache_refines_lru_full ch cap ops : (1 <= cap)%nat -> Z.of_nat (length ops) < 2 ^ 28 ->
  option_map (fun r => fst (fst r)) (gen_run_cache_full ch cap ops) = Some (fst (lru_run Z.eqb kmap expires cap [] ops)).
Proof.
  intros Hc Hlen. unfold gen_run_cache_full.
  rewrite (gen_NewECache_refines pair_pk pair_v HC HD HK [] cap Hc HC_nz).
  assert (Hrf : forall a b : Z, reflect (a = b) (a =? b)) by (intros a b; apply Z.eqb_spec).
  pose proof (@ecache_never_out_of_fuel Z Z Z Z.eqb Hrf kmap expires cap ops) as Hoof.
  destruct (gen_run_full_refines ch cap ops 0%nat [] i_new o_new 0 cinv_init Hoof) as (sf & of & Bf & lgf & E & Cf & Hf).
  - cbn [entries o_new length]. change (2 ^ 28) with 268435456 in Hlen. rewrite two62'. nia.
  - change (mkEC (bm dec (entries o_new)) cap) with (@ec_new Z Z Z cap) in E. rewrite E.
    rewrite (@ecache_refines_lru Z Z Z Z.eqb Hrf kmap expires cap ops). reflexivity.
Qed.

End Run11.

(** * Closed form and an example by vm_compute *)

Definition lit_cache_run_full (kmap expires : Z -> Z) (ch : nat -> option nat) (cap : nat) (ops : list (lru_op Z Z)) :=
  gen_run_cache_full lit_Put lit_Get (lit_keymap kmap) lit_delete lit_create lit_create2 (lit_expires expires)
    lit_pair_mk lit_pair_pk lit_pair_v lit_chan_make lit_chan_close lit_chan_recv 1 2 3 ch cap ops.

Theorem gen_ecache_refines_lru_full_lit : forall kmap expires ch cap ops,
  (1 <= cap)%nat -> Z.of_nat (length ops) < 2 ^ 28 ->
  option_map (fun r => fst (fst r)) (lit_cache_run_full kmap expires ch cap ops) =
  Some (fst (lru_run Z.eqb kmap expires cap [] ops)).
Proof.
  intros kmap expires ch cap ops. unfold lit_cache_run_full.
  apply (gen_ecache_refines_lru_full lit_Put lit_Get lit_put_spec lit_get_spec kmap expires (lit_keymap kmap) lit_delete lit_create
           lit_create2 (lit_expires expires) lit_pair_mk lit_pair_pk lit_pair_v lit_chan_make lit_chan_close lit_chan_recv
           (lit_keymap_spec kmap) lit_delete_spec lit_create_spec lit_create2_spec (lit_expires_spec expires) lit_pair_spec lit_chan_spec 1 2 3); lia.
Qed.

(* an item expires at its own value: a fresh hit, a stale hit (re-created with the FIRST scripted answer), a
   fresh creation, a creation that is already stale (re-created with the SECOND answer), a failing re-creation *)
Definition ex_ops_full : list (lru_op Z Z) :=
  [LRU.OGet 1 (Some 101); OEGet 1 50 (Some 7) (Some 8); OEGet 1 200 (Some 207) (Some 208); OEGet 2 0 (Some 300) (Some 301);
   OEGet 3 1000 (Some 5) (Some 2006); OEGet 4 1000 (Some 6) None; LRU.ORemove 3; OClear].

Example gen_ex_expirable :
  option_map (fun r => fst (fst r)) (lit_cache_run_full (fun pk => pk) (fun v => v) always_reuse 2 ex_ops_full) =
  Some [(RVal 101, [EvCreate 1 (Some 101)]);
        (RVal 101, []);
        (RVal 207, [EvDelete 1 101; EvCreate 1 (Some 207)]);
        (RVal 300, [EvCreate 2 (Some 300)]);
        (RVal 2006, [EvCreate 3 (Some 5); EvDelete 1 207; EvDelete 3 5; EvCreate 3 (Some 2006)]);
        (RErr, [EvCreate 4 (Some 6); EvDelete 2 300; EvDelete 4 6; EvCreate 4 None]);
        (RBool true, [EvDelete 3 2006]);
        (RCount 0, [])] /\
  option_map (fun r => fst (fst r)) (lit_cache_run_full (fun pk => pk) (fun v => v) always_fresh 2 ex_ops_full) =
  Some (fst (lru_run Z.eqb (fun pk => pk) (fun v => v) 2 [] ex_ops_full)).
Proof. vm_compute. split; reflexivity. Qed.

Print Assumptions gen_EGet_refines.
Print Assumptions gen_step_full_refines.
Print Assumptions gen_ecache_refines_lru_full.
Print Assumptions gen_ecache_refines_lru_full_lit.
Print Assumptions gen_ex_expirable.
