(** What "total" means for a decoder result of the generated code of
    xbinary/xbinary.go (coqgen/C16_GenFn*.v).  Nothing here depends on generated
    code. *)
From Coq Require Import List ZArith Lia Bool.
From Coq Require Import ZifyBool.
From GL Require Import lib.GoLite.
Import ListNotations.
Open Scope Z_scope.
Ltac Zify.zify_post_hook ::= Z.div_mod_to_equations.

(* the shape of a total decoder result; [P n v h'] is what holds on success *)

Definition dec_total {V} (h : heap) (len : Z) (P : Z -> V -> heap -> Prop)
           (o : outcome ((Z * V * error) * heap)) : Prop :=
  exists n v e h', o = Ok ((n, v, e), h') /\
    ((e = Err /\ n = 0 /\ h' = h) \/ (e = ENil /\ 1 <= n <= len /\ P n v h')).

Definition scalar (w : Z) (h : heap) : Z -> Z -> heap -> Prop :=
  fun _ v h' => h' = h /\ 0 <= v < 2 ^ w.

Ltac total_done :=
  unfold ret; do 4 eexists; split; [reflexivity|];
  first [ left; repeat split; reflexivity | right; split; [reflexivity|split; [lia|]] ].

Lemma be_val_range l : Forall (fun b => 0 <= b < 256) l -> 0 <= be_val l < 2 ^ (8 * zlen l).
Proof.
  induction 1 as [|b t Hb _ IH]; [cbn; lia|].
  cbn [be_val]. unfold zlen in *. cbn [length].
  replace (8 * Z.of_nat (S (length t))) with (8 + 8 * Z.of_nat (length t)) by lia.
  rewrite Z.pow_add_r by lia. rewrite Z.shiftl_mul_pow2 by lia.
  rewrite Z.lor_comm. rewrite zlor_disjoint by lia. change (2 ^ 8) with 256. nia.
Qed.

Lemma firstn_bytes k l : Forall (fun b => 0 <= b < 256) l -> Forall (fun b => 0 <= b < 256) (firstn k l).
Proof.
  revert l. induction k as [|k IH]; intros l H; [constructor|].
  destruct H as [|b t Hb Ht]; [constructor|]. cbn [firstn]. constructor; [exact Hb|apply IH; exact Ht].
Qed.

(* the returned slice: a Go slice in the final heap holding buf[n-len(res) : n];
   the sub-slice of buf itself (heap unchanged) when newBuf is false, a fresh
   array (the old heap is a prefix of the new one) when newBuf is true *)

Definition bytes_ok (h : heap) (buf : gslice) (newBuf : bool) : Z -> gslice -> heap -> Prop :=
  fun n res h' =>
    wf_slice h' res /\ 0 <= s_len res <= n /\
    sl_get h' res = zsub (sl_get h buf) (n - s_len res) (s_len res) /\
    (if newBuf
     then s_arr res = length h /\ h' = h ++ [sl_get h' res]
     else h' = h /\ s_arr res = s_arr buf /\ s_off res = s_off buf + (n - s_len res)).
