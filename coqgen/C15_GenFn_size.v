(** C15, translator tie, the size functions (WritableUintSize, WritebleBytesSize,
    WritableStringSize) as translated by harness/cmd/go2coq = the model's. *)
From Coq Require Import List NArith ZArith Arith Lia Bool.
From Coq Require Import ZifyBool ZifyN ZifyNat.
From GL Require Import lib.GoLite model.XBinary proofs.C15_XBinary.
From GLGEN Require Import XB_GenVocab Gen_xbinary_fn.
Import ListNotations.
Open Scope Z_scope.
Ltac Zify.zify_post_hook ::= Z.div_mod_to_equations.

Theorem gen_WritableUintSize_refines : forall v, 0 <= v < 2 ^ 64 ->
  Gen.WritableUintSize v = Z.of_nat (writable_uint_size (Z.to_N v)).
Proof.
  intros v Hv. change (2 ^ 64) with 18446744073709551616 in Hv.
  unfold Gen.WritableUintSize, writable_uint_size.
  change bit7 with 128%N. change bit14 with 16384%N. change bit21 with 2097152%N.
  change bit28 with 268435456%N. change bit35 with 34359738368%N. change bit42 with 4398046511104%N.
  change bit49 with 562949953421312%N. change bit56 with 72057594037927936%N.
  change bit63 with 9223372036854775808%N.
  repeat (go_if; try lia); reflexivity.
Qed.

Theorem gen_WritebleBytesSize_refines : forall h buf, wf_slice h buf ->
  s_len buf + 10 < 9223372036854775808 ->   (* otherwise the int addition overflows *)
  Gen.WritebleBytesSize buf = Z.of_nat (writable_bytes_size (ns (sl_get h buf))).
Proof.
  intros h buf W Hov. pose proof W as (Wa & Wo & Wl & Wc & Wm).
  pose proof (sl_get_len h buf W) as L. unfold zlen in L.
  unfold Gen.WritebleBytesSize, writable_bytes_size. rewrite length_ns.
  rewrite (u64_small (s_len buf)) by lia.
  rewrite gen_WritableUintSize_refines by (change (2^64) with 18446744073709551616; lia).
  replace (Z.to_N (s_len buf)) with (N.of_nat (length (sl_get h buf))) by lia.
  assert (Hs : (writable_uint_size (N.of_nat (length (sl_get h buf))) <= 10)%nat).
  { unfold writable_uint_size.
    repeat match goal with |- context [if ?c then _ else _] => destruct c end; clear; lia. }
  rewrite i64_small by lia. lia.
Qed.

Theorem gen_WritableStringSize_refines : forall h v, wf_slice h v ->
  s_len v + 10 < 9223372036854775808 ->
  Gen.WritableStringSize v = Z.of_nat (writable_string_size (ns (sl_get h v))).
Proof. intros. unfold Gen.WritableStringSize, cast_id, writable_string_size. apply gen_WritebleBytesSize_refines; assumption. Qed.
