(** C19, informational (NOT part of the per-run obligations of bin/check C19):
    the hand-written copy [std_tables] that Properties/C19.v instantiates and
    that the --exact correspondence mode uses behaves like the tables of the
    Go source.  A table change that keeps the property (for instance giving
    ErrClosed a code of its own) makes this file fail without being a
    violation; it then tells that std_tables needs updating. *)
From Coq Require Import List NArith Bool.
From GLGEN Require Import Gen_errors.
From GL Require Import model.Errors proofs.C19_Errors.
Import ListNotations.

(** the classes that have a code, and the ones that travel as the default code *)
Theorem gen_classes_with_code :
  filter (fun c => is_some (to_code gen_tables c)) all_classes =
  [ErrExist; ErrNotExist; ErrInvalid; ErrNotAuthorized; ErrDataLoss; ErrInternal;
   ErrConflict; ErrExhausted; ErrUnimplemented; ErrCanceled].
Proof. vm_compute. reflexivity. Qed.

(** the hand-written copy used by Properties/C19.v and by the correspondence
    run behaves like the tables of the Go source: same class for every code,
    same effective code for every class (row order and rows that repeat a
    default do not matter), hence the same model functions on every error *)
Theorem gen_tables_equiv_model : tables_equiv gen_tables std_tables = true.
Proof. vm_compute. reflexivity. Qed.

Theorem gen_model_behaviour :
  forall e : err, uniform e = true ->
    grpc_status_code gen_tables e = grpc_status_code std_tables e /\
    from_grpc gen_tables e = from_grpc std_tables e /\
    (forall c, Is gen_tables e c = Is std_tables e c) /\
    grpc_wrap gen_tables e = grpc_wrap std_tables e.
Proof. exact (equiv_behaviour gen_tables std_tables gen_tables_equiv_model). Qed.

Print Assumptions gen_classes_with_code.
Print Assumptions gen_tables_equiv_model.
Print Assumptions gen_model_behaviour.
