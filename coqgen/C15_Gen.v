(** C15, translator tie: the size table of xbinary.WritableUintSize as it is
    written in the Go source today ([Gen.WritableUintSize] and the [Gen.bitNN]
    constants of Gen_xbinary.v, regenerated from /repo by harness/cmd/gen15 on
    every run) predicts exactly the number of bytes MarshalUint writes.  An
    off-by-one in a threshold, a wrong shift count in a constant or a swapped
    branch of the if-tree breaks this proof. *)
From Coq Require Import List NArith Arith Lia Bool.
From Coq Require Import ZifyBool ZifyN ZifyNat.
From GL Require Import model.XBinary proofs.C15_XBinary.
From GLGEN Require Import Gen_xbinary.
Import ListNotations.
Open Scope N_scope.

Theorem gen_size_correct : forall v, v < 2^64 ->
  Gen.WritableUintSize v = length (enc_uint v).
Proof.
  intros v Hv. pose proof (enc_uint_length_table v Hv) as T.
  change (2^64) with 18446744073709551616 in Hv.
  unfold Gen.WritableUintSize. Gen.gen_const_values.
  repeat match goal with
         | |- context [if ?c then _ else _] => destruct c eqn:?
         end; pick_size_row T.
Qed.
Print Assumptions gen_size_correct.

(* the generated table and the hand-written transcription in model/XBinary.v
   are the same function *)
Theorem gen_size_eq_model : forall v, v < 2^64 ->
  Gen.WritableUintSize v = writable_uint_size v.
Proof.
  intros v Hv. rewrite (gen_size_correct v Hv). apply uint_size. exact Hv.
Qed.
Print Assumptions gen_size_eq_model.

(* non-vacuity: values on both sides of every threshold *)
Example gen_size_examples :
  map Gen.WritableUintSize
      [0; 127; 128; 16383; 16384; 2097151; 2097152; 268435455; 268435456;
       34359738367; 34359738368; 4398046511103; 4398046511104; 562949953421311;
       562949953421312; 72057594037927935; 72057594037927936;
       9223372036854775807; 9223372036854775808; 18446744073709551615]
  = [1; 1; 2; 2; 3; 3; 4; 4; 5; 5; 6; 6; 7; 7; 8; 8; 9; 9; 10; 10]%nat.
Proof. vm_compute. reflexivity. Qed.
