(** C11, translator tie: the retention bound of the ordered map over the code
    GENERATED from /repo/container/iterable/map.go (Gen_imap.v), transported
    along the representation relation from [C11_chain_length] /
    [C11_pinned_le_iters] (proofs/C11_Chain.v).

    [gwalk] is what the verif hook VerifWalk does, on the GoLite heap: follow
    the field [next] (offset 2) from [im.head] until nil (fuel: the number of node arrays plus one); [gdeleted] counts the
    visited objects whose [state] (offset 0) is rlDeleted (2).  After every
    well-formed history (shorter than 2^60 calls), under every pool oracle:
    nodes reachable from head = len(im.vals) + 1 + pinned, and pinned <= the
    number of open iterators. *)
(* model/IMap.v and lib/GoLite.v both define the monadic notation; GoLite's wins here *)
Set Warnings "-notation-overridden,-parsing".
From Coq Require Import List ZArith Arith Bool Lia.
From GL Require Import lib.IMapBase model.IMap proofs.C10_Main proofs.C11_Chain.
From GL Require Import lib.GoLite lib.GoLitePtr.
From GLGEN Require Import IM_GenVocab Gen_imap C10_GenFn_node C10_GenFn_walk C10_GenFn C10_GenFn_run.
Import ListNotations.
Open Scope Z_scope.

Fixpoint gwalk (fuel : nat) (gh : heap) (p : Z) : list Z :=
  match fuel with
  | O => []
  | S f => if p <=? 0 then [] else p :: gwalk f gh (nth 2 (arr_get gh (obj_arr p)) 0)
  end.

Definition gdeleted (gh : heap) (l : list Z) : nat :=
  length (filter (fun p => nth 0 (arr_get gh (obj_arr p)) 0 =? 2) l).

Lemma gwalk_nil f gh : gwalk f gh 0 = [].
Proof. destruct f; reflexivity. Qed.

Lemma gwalk_gheap lg pl mh : closed mh -> forall f x, (x < length mh)%nat ->
  gwalk f (gheap lg pl mh) (ptr x) = map ptr (walk f mh x).
Proof.
  intros C. induction f as [|f IH]; intros x Hx; [reflexivity|]. cbn [gwalk walk].
  pose proof (ptr_pos x) as Hp. destruct (Z.leb_spec (ptr x) 0) as [H|_]; [lia|].
  rewrite obj_arr_ptr, arr_get_gheap, nth_error_nd by exact Hx. cbn [nth enc map]. f_equal.
  destruct (C x Hx) as [_ Cn]. destruct (n_next (nd mh x)) as [y|]; cbn [optr inb] in *.
  - apply IH. exact Cn.
  - apply gwalk_nil.
Qed.

Lemma walk_in_range f mh x y : In y (walk f mh x) -> (y < length mh)%nat.
Proof.
  revert x. induction f as [|f IH]; intros x; [intros []|]. cbn [walk].
  destruct (nth_error mh x) as [n|] eqn:E; [|intros []].
  intros [<-|H]; [apply nth_error_Some; congruence|].
  destruct (n_next n) as [z|]; [exact (IH z H)|destruct H].
Qed.

Lemma gdeleted_gheap lg pl mh l : (forall y, In y l -> (y < length mh)%nat) ->
  gdeleted (gheap lg pl mh) (map ptr l) =
  length (filter (fun n => nstate_eqb (n_st n) StDeleted)
            (flat_map (fun x => match nth_error mh x with Some n => [n] | None => [] end) l)).
Proof.
  unfold gdeleted. induction l as [|x t IH]; intros H; [reflexivity|].
  assert (Hx : (x < length mh)%nat) by (apply H; left; reflexivity).
  cbn [map filter flat_map]. rewrite obj_arr_ptr, arr_get_gheap, nth_error_nd by exact Hx. cbn [nth enc app].
  cbn [filter].
  specialize (IH (fun y Hy => H y (or_intror Hy))).
  destruct (n_st (nd mh x)); cbn [st_code nstate_eqb Z.eqb Pos.eqb length]; rewrite IH; reflexivity.
Qed.

Theorem gen_chain_bound : forall ops ch, wf_hist ops -> Z.of_nat (length ops) < 2 ^ 60 ->
  exists im its al gh,
    gen_final_map [] lit_Put lit_Get ch ops = Some ((im, its, al), gh) /\
    let chain := gwalk (length gh - 1) gh (Gen.Map_head im) in
    length chain = (Z.to_nat (Gen.Map_Len im) + 1 + gdeleted gh chain)%nat /\
    (gdeleted gh chain <= length its)%nat.
Proof.
  intros ops ch Hwf Hlen.
  destruct (gen_final_map_refines [] lit_Put lit_Get lit_put_spec lit_get_spec ops ch Hwf Hlen) as (E & W).
  fold (reach ch ops) in E, W. set (s := reach ch ops) in *.
  exists (gmap s), (enc_its (iters s)), (allocs s), (sheap [] s). split; [exact E|].
  destruct W as (((C & Hhd & _) & _) & _).
  cbv zeta. unfold sheap. rewrite length_gheap. cbn [Nat.sub].
  change (Gen.Map_head (gmap s)) with (ptr (head s)). rewrite gen_Len_refines, Nat2Z.id.
  rewrite (gwalk_gheap _ _ _ C) by exact Hhd. change (walk (S (length (heap_of s))) (heap_of s) (head s)) with (i_chain s).
  rewrite map_length, gdeleted_gheap by (intros y Hy; exact (walk_in_range _ _ _ _ Hy)).
  change (length (filter _ (flat_map _ (i_chain s)))) with (count_deleted s).
  split; [apply chain_length; exact Hwf|].
  unfold enc_its. rewrite map_length. apply pinned_le_iters. exact Hwf.
Qed.

Example gen_ex_chain :
  match gen_final_map [] lit_Put lit_Get always_reuse
          [OAdd 1 11; OAdd 2 12; OAdd 3 13; ONewIter 7; ONewIter 8; ONext 8; ORemove 1; ORemove 2] with
  | Some ((im, its, _), gh) =>
      let chain := gwalk (length gh - 1) gh (Gen.Map_head im) in
      (length chain, Gen.Map_Len im, gdeleted gh chain, length its) = (4%nat, 1, 2%nat, 2%nat)
  | None => False
  end.
Proof. vm_compute. reflexivity. Qed.

Print Assumptions gen_chain_bound.
Print Assumptions gen_ex_chain.
