(** C10/C11, translator tie, group "all": the exported methods of
    [iterable.Map] and of its iterator (/repo/container/iterable/map.go as
    translated on this run, Gen_imap.v) against model/IMap.v, and the D1
    witness run through the generated code.

    [gmap s]: the generated [Map] record of the model state [s] ([vals] as the
    association list of pointers, head/last as pointers, the pool handle 0);
    the heap is [gheap lg (pool s) (heap_of s)].  [swf s]: no dangling ids.
    The iterator methods are stated on the walking state ([core]) of the model,
    as [i_hasnext] / [i_itnext] / [i_close] are [i_getvalue] / [i_next] /
    [i_release] on the pointer found in the iterator table. *)
(* model/IMap.v and lib/GoLite.v both define the monadic notation; GoLite's wins here *)
Set Warnings "-notation-overridden,-parsing".
From Coq Require Import List ZArith Arith Bool Lia.
From GL Require Import lib.IMapBase model.IMap.
From GL Require Import lib.GoLite lib.GoLitePtr.
From GLGEN Require Import IM_GenVocab Gen_imap C10_GenFn_node C10_GenFn_walk.
Import ListNotations.
Open Scope Z_scope.

Definition encv (vs : list (Z * nat)) : gomap := map (fun kv => (fst kv, ptr (snd kv))) vs.
Definition gmap (s : imap) : Gen.Map := gm (encv (vals s)) (head s) (ptr (last s)).
Definition sheap (lg : list Z) (s : imap) : heap := gheap lg (pool s) (heap_of s).

Definition vals_in (len : nat) (vs : list (Z * nat)) : Prop := Forall (fun kv => (snd kv < len)%nat) vs.
Definition swf (s : imap) : Prop :=
  cwf (heap_of s, head s, pool s) /\ (last s < length (heap_of s))%nat /\ vals_in (length (heap_of s)) (vals s).

Lemma mapfind_encv k vs : mapfind k (encv vs) = option_map ptr (alookup k vs).
Proof.
  induction vs as [|[k' x] t IH]; [reflexivity|]. cbn [encv map fst snd mapfind alookup].
  destruct (k' =? k); [reflexivity|exact IH].
Qed.

Lemma mapget_encv k vs :
  mapget k (encv vs) = match alookup k vs with Some x => (ptr x, true) | None => (0, false) end.
Proof. unfold mapget. rewrite mapfind_encv. destruct (alookup k vs); reflexivity. Qed.

Lemma mapdel_encv k vs : mapdel k (encv vs) = encv (aremove k vs).
Proof.
  induction vs as [|[k' x] t IH]; [reflexivity|]. cbn [encv map fst snd mapdel aremove filter].
  destruct (k' =? k); cbn [negb]; [exact IH|]. cbn [map fst snd]. f_equal. exact IH.
Qed.

Lemma alookup_in len k vs x : vals_in len vs -> alookup k vs = Some x -> (x < len)%nat.
Proof.
  induction 1 as [|[k' y] t Hy Ht IH]; [discriminate|]. cbn [alookup].
  destruct (k' =? k); [intros [= <-]; exact Hy|exact IH].
Qed.

Lemma maplen_encv vs : maplen (encv vs) = Z.of_nat (length vs).
Proof. unfold maplen, encv. rewrite map_length. reflexivity. Qed.

(* outputs *)
Definition enc_err (o : out) : error := match o with OutErr => Err | _ => ENil end.
Definition enc_get (o : out) : Z * bool := match o with OutGet (Some v) => (v, true) | _ => (0, false) end.

Ltac gmap_cbn :=
  unfold gmap, sheap, gm, Gen.set_Map_head, Gen.set_Map_last, Gen.set_Map_vals, Gen.set_Map_pool,
    Gen.set_mapIterator_ptr in *;
  cbn [Gen.Map_vals Gen.Map_head Gen.Map_last Gen.Map_pool Gen.mapIterator_ptr
       heap_of vals head last pool iters allocs] in *.

Theorem gen_Len_refines s : Gen.Map_Len (gmap s) = Z.of_nat (i_len s).
Proof. unfold Gen.Map_Len, i_len. gmap_cbn. apply maplen_encv. Qed.

Theorem gen_NewMap_refines lg : Gen.NewMap (gheap lg [] []) = Ok (gmap i_new, sheap lg i_new).
Proof. unfold Gen.NewMap. gmap_cbn. im_run0. reflexivity. Qed.

Theorem gen_Get_refines lg s k : swf s ->
  Gen.Map_Get (gmap s) k (sheap lg s) = lift (i_get s k) (fun r => Ok (enc_get (snd r), sheap lg (fst r))).
Proof.
  intros ((C & Hhd & Hpl) & Hl & Hv). unfold Gen.Map_Get, i_get. gmap_cbn. rewrite mapget_encv.
  destruct (alookup k (vals s)) as [x|] eqn:E; [|reflexivity].
  pose proof (alookup_in _ _ _ _ Hv E) as Hx. im_run0. reflexivity.
Qed.

Section Exported.

Variable lg : list Z.   (* the log array: untouched by the map code *)

Variable pool_Put : Z -> Z -> M unit.
Variable pool_Get : option nat -> Z -> M Z.
Hypothesis Hput : put_spec pool_Put.
Hypothesis Hget : get_spec pool_Get.

Ltac im_put :=
  match goal with
  | |- context [bind (pool_Put 0 (ptr ?x)) ?k (gheap ?lg0 ?pl ?H)] =>
      rewrite (bind_ok (pool_Put 0 (ptr x)) k (gheap lg0 pl H) tt _ (Hput lg0 pl H x))
  end.

Theorem gen_Remove_refines s k : swf s ->
  Gen.Map_Remove pool_Put (gmap s) k (sheap lg s) =
  lift (i_remove s k) (fun r => Ok (gmap (fst r), sheap lg (fst r))).
Proof.
  intros ((C & Hhd & Hpl) & Hl & Hv). unfold Gen.Map_Remove, i_remove. gmap_cbn. rewrite mapget_encv.
  destruct (alookup k (vals s)) as [x|] eqn:E; [|reflexivity].
  pose proof (alookup_in _ _ _ _ Hv E) as Hx. cbv beta iota zeta.
  pose proof (gen_delete_refines lg (pool s) (heap_of s) x C Hx) as Ed. call_with Ed.
  destruct (n_delete (heap_of s) x) as [[h2 nh]| |] eqn:Edm; cbn [lift IMapBase.bind fst snd]; try reflexivity.
  destruct (n_delete_pres _ _ _ _ C Hx Edm) as [[C2 S2] Inh]. pose proof (proj1 S2) as L2.
  assert (Hx2 : (x < length h2)%nat) by (rewrite L2; exact Hx).
  destruct nh as [nh|]; im_run0; gmap_cbn; im_run0.
  all: destruct (n_ref (nd h2 x) =? 0) eqn:Er; im_run0; try im_put; gmap_cbn; rewrite mapdel_encv; reflexivity.
Qed.

Lemma pool_get_pres mh pl c x mh' pl' : closed mh -> lt_all (length mh) pl ->
  pool_get mh pl c = (x, mh', pl') ->
  closed mh' /\ (x < length mh')%nat /\ (length mh <= length mh')%nat /\ lt_all (length mh') pl' /\
  (In x pl \/ x = length mh).
Proof.
  intros C Hpl. unfold pool_get.
  assert (F : (length mh, mh ++ [zero_node], pl) = (x, mh', pl') ->
    closed mh' /\ (x < length mh')%nat /\ (length mh <= length mh')%nat /\ lt_all (length mh') pl' /\
    (In x pl \/ x = length mh)).
  { intros [= <- <- <-]. rewrite app_length. cbn [length]. split; [apply closed_app; exact C|].
    split; [lia|]. split; [lia|]. split; [|right; reflexivity].
    eapply Forall_impl; [|exact Hpl]. cbn. intros; lia. }
  destruct c as [n|]; [|exact F]. destruct (nth_error pl n) as [z|] eqn:En; [|exact F].
  intros [= <- <- <-]. split; [exact C|]. split.
  - apply nth_error_In in En. exact (proj1 (Forall_forall _ _) Hpl _ En).
  - split; [lia|]. split; [|left; apply nth_error_In in En; exact En].
    clear En F. revert n. induction Hpl as [|a t Ha Ht IH]; intros [|n]; cbn [remove_nth]; try constructor; auto; try apply IH; try exact Ht.
Qed.

(* [~ In (last s) (pool s)]: the trailing element is on the list, not in the pool *)
Theorem gen_Add_refines s k v c : swf s -> ~ In (last s) (pool s) ->
  Gen.Map_Add (pool_Get c) (gmap s) k v (sheap lg s) =
  lift (i_add s k v c) (fun r => Ok ((gmap (fst r), enc_err (snd r)), sheap lg (fst r))).
Proof.
  intros ((C & Hhd & Hpl) & Hl & Hv) Hlp. unfold Gen.Map_Add, i_add. gmap_cbn. rewrite mapget_encv.
  destruct (alookup k (vals s)) as [x|] eqn:E; [reflexivity|]. cbv beta iota zeta.
  pose proof (Hget c lg (pool s) (heap_of s)) as Eg.
  destruct (pool_get (heap_of s) (pool s) c) as [[new h1] pl1] eqn:Ep.
  destruct (pool_get_pres _ _ _ _ _ _ C Hpl Ep) as (C1 & Hn & Hle & Hpl1 & Hold).
  assert (Hnl : new <> last s) by (destruct Hold as [Hi| ->]; [intros ->; exact (Hlp Hi)|lia]).
  call_with Eg. cbv beta iota zeta.
  pose proof (gen_putVal_refines lg pl1 h1 (last s) k v new C1 ltac:(lia) Hn Hnl) as Ev. call_with Ev.
  destruct (n_putval h1 (last s) k v new) as [[h2 r]| |] eqn:Evm; cbn [lift IMapBase.bind fst snd]; try reflexivity.
  destruct (n_putval_pres h1 (last s) k v new h2 r C1 ltac:(lia) Hn Evm) as ([C2 S2] & -> & Hprev). pose proof (proj1 S2) as L2.
  assert (Hn2 : (new < length h2)%nat) by (rewrite L2; exact Hn).
  gmap_cbn. im_run0. gmap_cbn. unfold mapset. rewrite mapdel_encv.
  assert (Ea : aremove k (vals s) = vals s).
  { clear - E. induction (vals s) as [|[k' y] t IH]; [reflexivity|]. cbn [alookup aremove filter fst] in *.
    destruct (k' =? k); [discriminate|]. cbn [negb]. f_equal. apply IH. exact E. }
  rewrite Ea. reflexivity.
Qed.

Theorem gen_Iterator_refines s name B : swf s -> refs_in B (heap_of s) -> B <= 2 ^ 62 ->
  Gen.Map_Iterator (gmap s) (sheap lg s) =
  lift (i_iterator s name) (fun r => Ok (Gen.mk_mapIterator (ptr (head s)), sheap lg (fst r))).
Proof.
  rewrite two62. intros ((C & Hhd & Hpl) & Hl & Hv) R HB. pose proof (R _ Hhd) as Rh.
  unfold Gen.Map_Iterator, i_iterator. gmap_cbn. im_run0.
  rewrite (i64_small (n_ref (nd (heap_of s) (head s)) + 1)) by lia. reflexivity.
Qed.

(* the iterator methods, on the walking state of the model *)
Theorem gen_Close_refines vs lst mh hd pl p B :
  cwf (mh, hd, pl) -> (p < length mh)%nat -> refs_in B mh -> B <= 2 ^ 62 ->
  Gen.mapIterator_Close pool_Put (gm vs hd lst) (Gen.mk_mapIterator (ptr p)) (gheap lg pl mh) =
  lift (i_release (mh, hd, pl) p)
       (fun c' => Ok ((gm vs (snd (fst c')) lst, Gen.mk_mapIterator 0, ENil), gheap lg (snd c') (fst (fst c')))).
Proof.
  intros W Hp R HB. pose proof (gen_release_refines lg pool_Put Hput vs lst mh hd pl p B W Hp R HB) as Er.
  unfold Gen.mapIterator_Close. gmap_cbn. call_with Er.
  destruct (i_release (mh, hd, pl) p) as [[[h2 hd2] pl2]| |]; reflexivity.
Qed.

Definition hn_rel (vs : gomap) (lst : Z) (r : res (core * nat))
    (o : outcome ((Gen.Map * Gen.mapIterator * bool) * heap)) : Prop :=
  match r with
  | IMapBase.Ok (c', p') =>
      o = Ok ((gm vs (snd (fst c')) lst, Gen.mk_mapIterator (ptr p'),
               negb (nstate_eqb (n_st (nd (fst (fst c')) p')) StLast)), gheap lg (snd c') (fst (fst c')))
  | IMapBase.Panic => o = GoPanic
  | IMapBase.NoFuel => True
  end.

Lemma i_getvalue_pres mh hd pl p lo hi c' p' :
  cwf (mh, hd, pl) -> (p < length mh)%nat -> rng2 lo hi p mh ->
  i_getvalue (mh, hd, pl) p = IMapBase.Ok (c', p') ->
  cwf c' /\ length (fst (fst c')) = length mh /\ (p' < length mh)%nat /\ rng2 lo hi p' (fst (fst c')).
Proof.
  intros W Hp R. unfold i_getvalue. cbn [fst]. rewrite get_ok by exact Hp. cbn [IMapBase.bind].
  destruct (nstate_eqb (n_st (nd mh p)) StDeleted).
  - apply i_next_pres; assumption.
  - intros [= <- <-]. cbn [fst]. auto.
Qed.

Theorem gen_HasNext_refines vs lst mh hd pl p lo hi :
  cwf (mh, hd, pl) -> (p < length mh)%nat -> rng2 lo hi p mh -> - 2 ^ 62 <= lo -> hi <= 2 ^ 62 ->
  hn_rel vs lst (i_getvalue (mh, hd, pl) p)
    (Gen.mapIterator_HasNext pool_Put (gm vs hd lst) (Gen.mk_mapIterator (ptr p)) (gheap lg pl mh)).
Proof.
  intros W Hp R Hlo Hhi.
  pose proof (gen_getValue_refines lg pool_Put Hput vs lst mh hd pl p lo hi W Hp R Hlo Hhi) as G.
  pose proof (i_getvalue_pres mh hd pl p lo hi) as P.
  unfold Gen.mapIterator_HasNext. gmap_cbn.
  destruct (i_getvalue (mh, hd, pl) p) as [[[[h2 hd2] pl2] p2]| |]; cbn [wk_rel hn_rel fst snd] in *; [| |exact I].
  - destruct (P _ _ W Hp R eq_refl) as (W2 & L2 & Hp2 & R2). cbn [fst] in L2.
    assert (Hp2' : (p2 < length h2)%nat) by (rewrite L2; exact Hp2).
    call_with G. gmap_cbn. im_run0. destruct (n_st (nd h2 p2)); reflexivity.
  - call_with G. reflexivity.
Qed.

(* Next: getValue, read the entry, step with next (what [i_itnext] does on the walking state) *)
Definition nxt_rel (vs : gomap) (lst : Z) (c : core) (p : nat)
    (o : outcome ((Gen.Map * Gen.mapIterator * Gen.MapEntry * bool) * heap)) : Prop :=
  match i_getvalue c p with
  | IMapBase.Ok (c1, p1) =>
      match i_next (fuel_of (fst (fst c1))) c1 p1 with
      | IMapBase.Ok (c2, p2) =>
          o = Ok ((gm vs (snd (fst c2)) lst, Gen.mk_mapIterator (ptr p2),
                   Gen.mk_MapEntry (n_key (nd (fst (fst c1)) p1)) (n_val (nd (fst (fst c1)) p1)),
                   negb (nstate_eqb (n_st (nd (fst (fst c1)) p1)) StLast)), gheap lg (snd c2) (fst (fst c2)))
      | IMapBase.Panic => o = GoPanic
      | IMapBase.NoFuel => True
      end
  | IMapBase.Panic => o = GoPanic
  | IMapBase.NoFuel => True
  end.

Theorem gen_Next_refines vs lst mh hd pl p lo hi :
  cwf (mh, hd, pl) -> (p < length mh)%nat -> rng2 lo hi p mh -> - 2 ^ 62 <= lo -> hi <= 2 ^ 62 ->
  nxt_rel vs lst (mh, hd, pl) p
    (Gen.mapIterator_Next pool_Put (gm vs hd lst) (Gen.mk_mapIterator (ptr p)) (gheap lg pl mh)).
Proof.
  intros W Hp R Hlo Hhi.
  pose proof (gen_getValue_refines lg pool_Put Hput vs lst mh hd pl p lo hi W Hp R Hlo Hhi) as G.
  pose proof (i_getvalue_pres mh hd pl p lo hi) as P.
  unfold Gen.mapIterator_Next, nxt_rel. gmap_cbn.
  destruct (i_getvalue (mh, hd, pl) p) as [[[[h1 hd1] pl1] p1]| |]; cbn [wk_rel fst snd] in *; [| |exact I].
  - destruct (P _ _ W Hp R eq_refl) as (W1 & L1 & Hp1 & R1). cbn [fst] in L1, R1.
    assert (Hp1' : (p1 < length h1)%nat) by (rewrite L1; exact Hp1).
    pose proof (gen_next_refines lg pool_Put Hput vs lst h1 hd1 pl1 p1 lo hi W1 Hp1' R1 Hlo Hhi) as N.
    call_with G. gmap_cbn. im_run0.
    destruct (i_next (fuel_of h1) (h1, hd1, pl1) p1) as [[[[h2 hd2] pl2] p2]| |]; cbn [wk_rel fst snd] in *; [| |exact I].
    + call_with N. gmap_cbn. destruct (n_st (nd h1 p1)); reflexivity.
    + call_with N. reflexivity.
  - call_with G. reflexivity.
Qed.

End Exported.

(** * The D1 witness through the generated code: Add 1; Add 2; it := Iterator();
      Remove 1; it.Close(); First() -- with the literal pool, both oracles *)

Definition d1_gen (c : option nat) : M (Z * bool) :=
  im <- Gen.NewMap ;;
  '(im, _) <- Gen.Map_Add (lit_Get c) im 1 11 ;;
  '(im, _) <- Gen.Map_Add (lit_Get c) im 2 12 ;;
  it <- Gen.Map_Iterator im ;;
  im <- Gen.Map_Remove lit_Put im 1 ;;
  '(im, it, _) <- Gen.mapIterator_Close lit_Put im it ;;
  '(im, k, ok) <- Gen.Map_First lit_Put im ;;
  ret (k, ok).

Example gen_ex_d1 :
  (match d1_gen None (gheap [] [] []) with Ok (r, _) => Some r | _ => None end) = Some (2, true) /\
  (match d1_gen (Some 0%nat) (gheap [] [] []) with Ok (r, _) => Some r | _ => None end) = Some (2, true).
Proof. vm_compute. split; reflexivity. Qed.

Print Assumptions gen_Len_refines.
Print Assumptions gen_NewMap_refines.
Print Assumptions gen_Get_refines.
Print Assumptions gen_Remove_refines.
Print Assumptions gen_Add_refines.
Print Assumptions gen_Iterator_refines.
Print Assumptions gen_Close_refines.
Print Assumptions gen_HasNext_refines.
Print Assumptions gen_Next_refines.
Print Assumptions gen_ex_d1.
