(** C12 tie, stage 8: the generated [heap.Push], [heap.Pop], [heap.Remove],
    [heap.Fix] and [heap.Init] (coqgen/Gen_heap.v, translated from the toolchain's
    container/heap) refine [heap_push], [heap_pop], [heap_remove], [heap_fix],
    [heap_init] of model/THeap.v under [rel D h fs m] and [incl (arr m) D]. *)
Set Warnings "-notation-overridden,-parsing".
From Coq Require Import List ZArith NArith Bool Lia.
From GL Require Import lib.GoLite model.THeap proofs.C12_THeap.
From GLGEN Require Import TM_GenVocab Gen_heap C12_GenFn_heapm C12_GenFn_heapfn.
Import ListNotations.
Open Scope Z_scope.

(** * the model's operations without their [let '(..) := ..] *)

Definition down_then_up (m : fheap) (i n : Z) : fheap :=
  let d := down m i n in if negb (snd d) then up (fuel_of (fst d)) (fst d) i else fst d.

Lemma heap_pop_eq m :
  heap_pop m = f_pop (fst (down (f_swap m 0 (f_len m - 1)) 0 (f_len m - 1))).
Proof. unfold heap_pop. cbv zeta. destruct (down (f_swap m 0 (f_len m - 1)) 0 (f_len m - 1)). reflexivity. Qed.

Lemma heap_remove_eq m i :
  heap_remove m i =
  f_pop (if negb (f_len m - 1 =? i) then down_then_up (f_swap m i (f_len m - 1)) i (f_len m - 1) else m).
Proof.
  unfold heap_remove, down_then_up. cbv zeta.
  destruct (negb (f_len m - 1 =? i)); [|reflexivity].
  destruct (down (f_swap m i (f_len m - 1)) i (f_len m - 1)). reflexivity.
Qed.

Lemma heap_fix_eq m i : heap_fix m i = down_then_up m i (f_len m).
Proof. unfold heap_fix, down_then_up. cbv zeta. destruct (down m i (f_len m)). reflexivity. Qed.

Lemma down_f_len m i n : 0 <= i -> 0 <= n <= f_len m -> f_len (fst (down m i n)) = f_len m.
Proof. intros Hi Hn. unfold f_len. rewrite (sh_len _ _ _ (down_shuffle m i n Hi Hn)). reflexivity. Qed.

Lemma up_f_len m j : in_range m j = true -> f_len (up (fuel_of m) m j) = f_len m.
Proof.
  intros Hj. destruct (in_range_nat _ _ Hj) as (H0 & Hl & _). unfold f_len.
  rewrite (sh_len (length (arr m)) m); [reflexivity|].
  apply up_shuffle; unfold fuel_of; lia.
Qed.

Lemma incl_pop m D : incl (arr m) D -> incl (arr (fst (f_pop m))) D.
Proof.
  intros S. destruct (arr m) as [|a l] eqn:E.
  - unfold f_pop. rewrite E. cbn [fst arr mark_bad]. rewrite E. exact S.
  - assert (Hne : arr m <> []) by (rewrite E; discriminate).
    rewrite (pop_spec m Hne). cbn [fst arr]. intros y Hy. apply S. rewrite <- E. apply In_removelast. exact Hy.
Qed.

(** * down, then up when nothing moved (the common part of Remove and Fix) *)

Lemma gen_down_then_up D h fs m i n :
  rel D h fs m -> incl (arr m) D -> in_range m i = true -> 0 <= n <= f_len m ->
  post ((_t1 <- Gen.heap_down fs i n ;;
         if negb _t1 then (_ <- Gen.heap_up fs i ;; ret tt) else ret tt) h)
       (fun _ h' => rel D h' fs (down_then_up m i n) /\ incl (arr (down_then_up m i n)) D).
Proof.
  intros R S Hi Hn. rel_facts R. destruct (in_range_nat _ _ Hi) as (Hi0 & Hil & _).
  assert (Hi63 : 0 <= i < 9223372036854775808) by (unfold f_len in *; lia).
  unfold down_then_up. cbv zeta.
  eapply post_bind; [exact (gen_down_refines D h fs m i n R S Hi63 Hn)|].
  intros b h1 (-> & R1 & S1).
  destruct (negb (snd (down m i n))).
  - assert (Hi1 : in_range (fst (down m i n)) i = true).
    { unfold in_range. rewrite (down_f_len m i n) by lia. exact Hi. }
    eapply post_bind; [exact (gen_up_refines D h1 fs _ i R1 S1 Hi1)|].
    intros u h2 (R2 & S2). fin.
  - fin.
Qed.

(** * heap.Push *)

Theorem gen_heap_Push_refines D h fs m x :
  rel D h fs m -> incl (arr m) D -> In x D -> s_len fs + 1 < 9223372036854775808 ->
  post (Gen.heap_Push fs (ptr x) h)
       (fun fs' h' => rel D h' fs' (heap_push m x) /\ incl (arr (heap_push m x)) D).
Proof.
  intros R S Hx Hm. rel_facts R.
  unfold Gen.heap_Push, heap_push. cbv zeta.
  eapply post_bind; [exact (gen_push D h fs m x R S Hx Hm)|].
  intros fs1 h1 R1. cbv beta in R1.
  assert (L1 : f_len (f_push m x) = f_len m + 1).
  { unfold f_len, f_push. cbn [arr]. rewrite app_length. cbn [length]. lia. }
  rewrite (gen_len D h1 fs1 _ R1), L1. rewrite i64_small by lia.
  assert (S1 : incl (arr (f_push m x)) D) by (exact (incl_app m x D S Hx)).
  assert (Hj : in_range (f_push m x) (f_len m + 1 - 1) = true) by (apply in_range_intro; lia).
  eapply post_bind; [exact (gen_up_refines D h1 fs1 _ _ R1 S1 Hj)|].
  intros u h2 (R2 & S2). fin.
Qed.

(** * heap.Pop *)

Theorem gen_heap_Pop_refines D h fs m :
  rel D h fs m -> incl (arr m) D -> arr m <> [] ->
  post (Gen.heap_Pop fs h)
       (fun r h' => snd r = ptr (snd (heap_pop m)) /\ rel D h' (fst r) (fst (heap_pop m)) /\
                    incl (arr (fst (heap_pop m))) D).
Proof.
  intros R S Hne. rel_facts R.
  assert (Hl : 1 <= f_len m) by (unfold f_len; destruct (arr m); [contradiction|cbn [length]; lia]).
  rewrite heap_pop_eq. unfold Gen.heap_Pop. cbv zeta.
  rewrite (gen_len D h fs m R). rewrite i64_small by lia.
  set (n := f_len m - 1).
  assert (R0 : in_range m 0 = true) by (apply in_range_intro; lia).
  assert (Rn : in_range m n = true) by (apply in_range_intro; unfold n; lia).
  eapply post_bind; [exact (gen_swap D h fs m 0 n R S R0 Rn)|].
  intros u h1 R1. cbv beta in R1.
  assert (S1 : incl (arr (f_swap m 0 n)) D) by (apply incl_swap; exact S).
  assert (Hn1 : 0 <= n <= f_len (f_swap m 0 n)) by (rewrite swap_f_len; unfold n; lia).
  eapply post_bind; [exact (gen_down_refines D h1 fs _ 0 n R1 S1 ltac:(lia) Hn1)|].
  intros b h2 (_ & R2 & S2).
  assert (Hne2 : arr (fst (down (f_swap m 0 n) 0 n)) <> []).
  { pose proof (down_f_len (f_swap m 0 n) 0 n ltac:(lia) Hn1) as E. rewrite swap_f_len in E.
    unfold f_len in E. destruct (arr (fst (down (f_swap m 0 n) 0 n))); [cbn [length] in E; unfold f_len in Hl; lia|discriminate]. }
  eapply post_bind; [exact (gen_pop D h2 fs _ R2 S2 Hne2)|].
  intros [fs' r] h3 (E3 & R3). cbn [fst snd] in *. unfold ret, post. cbn [fst snd].
  split; [exact E3|]. split; [exact R3|]. apply incl_pop. exact S2.
Qed.

(** * heap.Remove *)

Theorem gen_heap_Remove_refines D h fs m i :
  rel D h fs m -> incl (arr m) D -> in_range m i = true ->
  post (Gen.heap_Remove fs i h)
       (fun r h' => snd r = ptr (snd (heap_remove m i)) /\ rel D h' (fst r) (fst (heap_remove m i)) /\
                    incl (arr (fst (heap_remove m i))) D).
Proof.
  intros R S Hi. rel_facts R. destruct (in_range_nat _ _ Hi) as (Hi0 & Hil & _).
  assert (Hl : 1 <= f_len m) by (unfold f_len; lia).
  rewrite heap_remove_eq. unfold Gen.heap_Remove. cbv zeta.
  rewrite (gen_len D h fs m R). rewrite i64_small by lia.
  set (n := f_len m - 1).
  assert (Rn : in_range m n = true) by (apply in_range_intro; unfold n; lia).
  (* the tail [return h.Pop()] on a related state of the same length *)
  assert (Tail : forall h1 m1, rel D h1 fs m1 -> incl (arr m1) D -> f_len m1 = f_len m ->
            post (('(h0, _t1) <- Gen.futures_Pop fs ;; ret (h0, _t1)) h1)
                 (fun r h' => snd r = ptr (snd (f_pop m1)) /\ rel D h' (fst r) (fst (f_pop m1)) /\
                              incl (arr (fst (f_pop m1))) D)).
  { intros h1 m1 R1 S1 L1.
    assert (Hne1 : arr m1 <> []) by (unfold f_len in L1, Hl; destruct (arr m1); [cbn [length] in L1; lia|discriminate]).
    eapply post_bind; [exact (gen_pop D h1 fs m1 R1 S1 Hne1)|].
    intros [fs' r] h3 (E3 & R3). cbn [fst snd] in *. unfold ret, post. cbn [fst snd].
    split; [exact E3|]. split; [exact R3|]. apply incl_pop. exact S1. }
  destruct (negb (n =? i)) eqn:C.
  - apply negb_true_iff, Z.eqb_neq in C.
    eapply post_bind; [exact (gen_swap D h fs m i n R S Hi Rn)|].
    intros u h1 R1. cbv beta in R1.
    assert (S1 : incl (arr (f_swap m i n)) D) by (apply incl_swap; exact S).
    assert (Hi1 : in_range (f_swap m i n) i = true) by (rewrite in_range_swap; exact Hi).
    assert (Hn1 : 0 <= n <= f_len (f_swap m i n)) by (rewrite swap_f_len; unfold n; lia).
    (* as in [gen_down_then_up], with the tail in place of [ret tt] *)
    unfold down_then_up. cbv zeta.
    assert (Hi63 : 0 <= i < 9223372036854775808) by (unfold f_len in *; lia).
    eapply post_bind; [exact (gen_down_refines D h1 fs _ i n R1 S1 Hi63 Hn1)|].
    intros b h2 (-> & R2 & S2).
    pose proof (down_f_len (f_swap m i n) i n ltac:(lia) Hn1) as L2. rewrite swap_f_len in L2.
    destruct (negb (snd (down (f_swap m i n) i n))).
    + assert (Hi2 : in_range (fst (down (f_swap m i n) i n)) i = true).
      { unfold in_range. rewrite L2. exact Hi. }
      mstep. eapply post_bind; [exact (gen_up_refines D h2 fs _ i R2 S2 Hi2)|].
      intros u2 h3 (R3 & S3). apply Tail; [exact R3|exact S3|].
      rewrite (up_f_len _ i Hi2). exact L2.
    + apply Tail; assumption.
  - apply Tail; [exact R|exact S|reflexivity].
Qed.

(** * heap.Fix *)

Theorem gen_heap_Fix_refines D h fs m i :
  rel D h fs m -> incl (arr m) D -> in_range m i = true ->
  post (Gen.heap_Fix fs i h)
       (fun _ h' => rel D h' fs (heap_fix m i) /\ incl (arr (heap_fix m i)) D).
Proof.
  intros R S Hi. rel_facts R.
  rewrite heap_fix_eq. unfold Gen.heap_Fix. rewrite (gen_len D h fs m R).
  apply (gen_down_then_up D h fs m i (f_len m) R S Hi). unfold f_len. lia.
Qed.

(** * heap.Init *)

Lemma gen_init_loop D fs n : forall f gf h m i,
  rel D h fs m -> incl (arr m) D -> f_len m = n -> -1 <= i < n ->
  (Z.to_nat (i + 1) < f)%nat -> (f <= gf)%nat ->
  post (iter gf (Gen.heap_Init_loop1 fs n) i h)
       (fun _ h' => rel D h' fs (init_loop f m i n) /\ incl (arr (init_loop f m i n)) D).
Proof.
  induction f as [|f IH]; intros gf h m i R S Ln Hi Hf Hg; [lia|].
  destruct gf as [|gf]; [lia|].
  rel_facts R.
  rewrite iter_S. unfold Gen.heap_Init_loop1 at 1. cbv beta zeta. cbn [init_loop].
  rewrite (Z.geb_leb i 0).
  destruct (Z.leb_spec 0 i) as [Hpos|Hneg].
  - assert (Hi63 : 0 <= i < 9223372036854775808) by lia.
    mstep. eapply post_bind; [exact (gen_down_refines D h fs m i n R S Hi63 ltac:(lia))|].
    intros b h1 (_ & R1 & S1). mstep. rewrite i64_small by lia.
    apply IH; [exact R1|exact S1|rewrite down_f_len by lia; exact Ln|lia|lia|lia].
  - mstep. fin.
Qed.

Theorem gen_heap_Init_refines D h fs m :
  rel D h fs m -> incl (arr m) D ->
  post (Gen.heap_Init fs h)
       (fun _ h' => rel D h' fs (heap_init m) /\ incl (arr (heap_init m)) D).
Proof.
  intros R S. rel_facts R.
  unfold Gen.heap_Init, heap_init. cbv zeta. rewrite (gen_len D h fs m R).
  assert (Hq : 0 <= Z.quot (f_len m) 2 <= f_len m).
  { pose proof (Z.quot_pos (f_len m) 2 ltac:(lia) ltac:(lia)).
    pose proof (Z.quot_rem' (f_len m) 2). pose proof (Z.rem_bound_pos (f_len m) 2 ltac:(lia) ltac:(lia)). lia. }
  rewrite (i64_small (Z.quot (f_len m) 2)) by lia. rewrite i64_small by lia.
  eapply post_bind.
  - apply (gen_init_loop D fs (f_len m) (fuel_of m) _ h m _ R S eq_refl); unfold fuel_of, f_len in *; lia.
  - intros i' h' (R' & S'). fin.
Qed.

Definition gen_heap_op_ties := (gen_heap_Push_refines, gen_heap_Pop_refines, gen_heap_Remove_refines, gen_heap_Fix_refines, gen_heap_Init_refines).
Print Assumptions gen_heap_op_ties.
