(** C17, translator tie, last part: the headline of property C17 restated over
    the code translated from container/bytes/blocks.go on this run
    (Gen_blocks.v, harness/cmd/go2coq).

    [gen_step] maps one operation of the shared alphabet [op] (model/Blocks.v)
    to the generated method, on the heap representation of stage 5: the
    storage is array [A] of the heap ([brel]), bts.Buffer / bts.Size are
    [hb_Buffer A] / [hb_Size A], the allocator is a [Gen.Blocks] record
    ([grel]).  ArrangeBlock, FreeBlock, Block and NewBlocks (reopen = NewBlocks
    over the same array) are the generated functions.  Glue, written here:
    - the user writing into the window Block returned ([user_fill]: for k :=
      range w { w[k] = v }, [user_poke]: w[k] = v) with GoLite [store]s;
    - the one-line accessors Count / Available / Segments (not in the
      translated set): reads of the record fields, Count with the int
      multiplication wrapped;
    - the mapping of Go results to the observation type [out].  GoLite has
      one non-nil error value, so the *class* of an error (ErrInvalid /
      ErrNotExist / ErrExhausted) is not observable on this side:
      observations are compared modulo [forget_err].

    [gen_step_refines]: one operation of the generated code gives the
    observation of the model's [step] and related states; [gen_run_refines]:
    sequences; [gen_blocks_refine_allocset]: composed with
    C17_blocks_refine_allocset (proofs/C17_Blocks.v), the outputs of the
    generated code are those of the allocation-set specification
    (spec/AllocSet.v); [gen_blocks_refine_allocset_gen] states it from the
    decision of the generated NewBlocks for every Go-int block size (no
    hypothesis on the model's constructor), [gen_blocks_refine_allocset_heap]
    for any heap array of bytes (no model buffer in the hypotheses).
    Companions for every state of a run: [gen_arrange_fresh_run],
    [gen_no_double_allocation], [gen_blocks_disjoint],
    [gen_available_accounting], [gen_reopen_same].

    Hypotheses the run needs beyond the model's invariant: the stage-5
    hypotheses [geom_ok], [geom_ok2], [counters_ok] of the per-function ties.
    They are not assumed along the run: [rinv] (reachable in the model, hint
    inside the storage, 8*size+8 < 2^31 so that the int32 counter cannot wrap,
    the allocator covers its storage) implies them ([rinv_hyps]) and is
    preserved by every step ([rinv_step]).

    NOT covered on this side: [OGrow] (bts.Grow under the live allocator).
    [gen_step] has no Grow - the storage of the stage-5 heap representation is
    one fixed array [A] that the generated methods index; Grow of inmem.go
    allocates another array - and [op_ok (OGrow _)] is [False]: every theorem
    of this file is about Grow-free histories ([Forall op_ok ops]).  Histories
    with Grow are covered by the hand-written model (proofs/C17_Blocks.v,
    proofs/C17_Grow.v) and the correspondence run. *)
From Coq Require Import List ZArith NArith Lia Bool FMapPositive.
From Coq Require Import ZifyBool ZifyN.
From GL Require Import lib.GoLite model.Blocks spec.AllocSet proofs.C17_Bytes proofs.C17_Geometry
  proofs.C17_Count proofs.C17_Inv proofs.C17_Grow proofs.C17_Blocks.
From GLGEN Require Import BL_GenVocab Gen_blocks C17_GenFn_gbis C17_GenFn C17_GenFn_block C17_GenFn_alloc C17_GenFn_init.
Import ListNotations.
Open Scope Z_scope.
Ltac Zify.zify_post_hook ::= Z.div_mod_to_equations.

(** * Observations: the error class is not visible in GoLite *)

Definition forget_err (x : out) : out :=
  match x with OutErr _ => OutErr EOther | _ => x end.

(** * Glue: bts.Size, the user's writes, the accessors *)

(* func (ib *inmemBtsBuf) Size() int64: the length of the storage array *)
Definition hb_Size (A : nat) (_ : Z) : M Z := fun h => Ok (zlen (arr_get h A), h).

(* for k := range w { w[k] = v }: n elements are left, k is the current one *)
Fixpoint gfill (n : nat) (w : gslice) (k v : Z) : M unit :=
  match n with
  | O => ret tt
  | S n' => _ <- store w k v ;; gfill n' w (k + 1) v
  end.

(* the byte value of the model's operations is an N; a Go byte is u8 of it *)
Definition user_fill (w : gslice) (v : N) : M unit :=
  gfill (Z.to_nat (s_len w)) w 0 (u8 (Z.of_N v)).
Definition user_poke (w : gslice) (k : Z) (v : N) : M unit := store w k (u8 (Z.of_N v)).

(* func (bks *Blocks) Count() int { return bks.segments * bks.blksInSegm } etc. *)
Definition glue_Count (g : Gen.Blocks) : Z := i64 (Gen.Blocks_segments g * Gen.Blocks_blksInSegm g).
Definition glue_Available (g : Gen.Blocks) : Z := i64 (Gen.Blocks_available g).
Definition glue_Segments (g : Gen.Blocks) : Z := Gen.Blocks_segments g.

(** * One call, a sequence of calls *)

Section GenRun.

Variable page : Z.      (* os.Getpagesize() *)
Variable fit : bool.    (* the flag every (re)open passes to NewBlocks *)
Variable A : nat.       (* the heap array that is the storage *)
Variable hd : Z.        (* the Buffer handle *)

Definition gen_step (g : Gen.Blocks) (o : op) (h : heap) : Gen.Blocks * out * heap :=
  let obs {T} (r : outcome (T * heap)) (k : T -> heap -> Gen.Blocks * out * heap) :=
    match r with
    | Ok (a, h') => k a h'
    | GoPanic => (g, OutPanic, h)
    | NoFuel => (g, OutOfFuel, h)
    end in
  let err := OutErr EOther in
  match o with
  | OArrange =>
      obs (Gen.Blocks_ArrangeBlock (hb_Buffer A) g h)
          (fun '(g', i, e) h' => (g', if is_nil e then OutIdx i else err, h'))
  | OFree idx =>
      obs (Gen.Blocks_FreeBlock (hb_Buffer A) g idx h)
          (fun '(g', e) h' => (g', if is_nil e then OutOk else err, h'))
  | OBlock idx =>
      obs (Gen.Blocks_Block (hb_Buffer A) g idx h)
          (fun '(w, e) h' => (g, if is_nil e then OutSlice (s_off w) (s_len w) else err, h'))
  | OWrite idx v =>
      obs (Gen.Blocks_Block (hb_Buffer A) g idx h)
          (fun '(w, e) h' =>
             if is_nil e then obs (user_fill w v h') (fun _ h'' => (g, OutOk, h''))
             else (g, err, h'))
  | OPoke idx k v =>
      obs (Gen.Blocks_Block (hb_Buffer A) g idx h)
          (fun '(w, e) h' =>
             if is_nil e then obs (user_poke w k v h') (fun _ h'' => (g, OutOk, h''))
             else (g, err, h'))
  | OReopen =>
      obs (Gen.NewBlocks page (hb_Size A) (hb_Buffer A) (Gen.Blocks_blkSize g) hd fit h)
          (fun '(g', e) h' => if is_nil e then (g', OutOk, h') else (g, err, h'))
  | OAvail => (g, OutN (glue_Available g), h)
  | OCount => (g, OutN (glue_Count g), h)
  | OSegments => (g, OutN (glue_Segments g), h)
  | OGrow _ => (g, OutOfFuel, h)   (* no Grow on this side: excluded by [op_ok] *)
  end.

Fixpoint gen_run (g : Gen.Blocks) (ops : list op) (h : heap) : list out * Gen.Blocks * heap :=
  match ops with
  | [] => ([], g, h)
  | o :: t => let '(g', x, h') := gen_step g o h in
              let '(xs, gf, hf) := gen_run g' t h' in (x :: xs, gf, hf)
  end.

(* the arguments are Go ints *)
Definition int_ok (x : Z) : Prop := -9223372036854775808 <= x < 9223372036854775808.
Definition op_ok (o : op) : Prop :=
  match o with
  | OFree i | OBlock i | OWrite i _ => int_ok i
  | OPoke i k _ => int_ok i /\ int_ok k
  | OGrow _ => False   (* histories over the generated code are Grow-free *)
  | _ => True
  end.

Lemma op_ok_no_grow : forall o, op_ok o -> is_grow o = false.
Proof. intros o H. destruct o; try reflexivity. destruct H. Qed.

(** * The invariant of the run and the stage-5 hypotheses *)

Definition rinv (b : blocks) : Prop :=
  reachable page fit b /\ freeIdx b <= bsize (bts b) /\ 8 * bsize (bts b) + 8 < 2147483648 /\
  tight fit b.

Lemma rinv_facts : forall b, rinv b ->
  let bs := blkSize b in
  0 < bs /\ blksInSegm b = 8 * bs /\ 1 <= segments b /\
  segments b * ((8 * bs + 1) * bs) <= bsize (bts b) /\ bsize (bts b) < 268435455 /\
  0 <= segments b * (8 * bs) <= 8 * bsize (bts b) /\ bs <= bsize (bts b) /\
  segments b <= bsize (bts b) /\ (8 * bs + 1) * bs <= bsize (bts b) /\
  0 <= segments b * (8 * bs + 1) <= bsize (bts b).
Proof.
  intros b (R & Hf & Hs & HT) bs. pose proof (reachable_inv _ _ _ R) as I.
  pose proof (inv_bs_pos _ _ _ I) as Hbs. fold bs in Hbs.
  pose proof (inv_segs _ _ _ I) as Hsg. pose proof (inv_segs_fit _ _ _ I) as Hfit. fold bs in Hfit.
  unfold ssz in Hfit.
  assert (M1 : 1 * ((8 * bs + 1) * bs) <= segments b * ((8 * bs + 1) * bs)) by (apply Z.mul_le_mono_nonneg_r; nia).
  assert (M2 : segments b * (8 * bs) <= segments b * ((8 * bs + 1) * bs)) by (apply Z.mul_le_mono_nonneg_l; nia).
  assert (M3 : segments b * 1 <= segments b * ((8 * bs + 1) * bs)) by (apply Z.mul_le_mono_nonneg_l; nia).
  assert (M4 : segments b * (8 * bs + 1) <= segments b * ((8 * bs + 1) * bs)) by (apply Z.mul_le_mono_nonneg_l; nia).
  assert (M5 : 0 <= segments b * (8 * bs)) by (apply Z.mul_nonneg_nonneg; lia).
  assert (M6 : 0 <= segments b * (8 * bs + 1)) by (apply Z.mul_nonneg_nonneg; lia).
  assert (M7 : bs <= (8 * bs + 1) * bs) by nia.
  split; [exact Hbs|]. split; [exact (inv_bis _ _ _ I)|]. split; [exact Hsg|]. split; [exact Hfit|].
  repeat split; lia.
Qed.

(* the hypotheses of the per-function ties hold in every state of the run *)
Lemma rinv_hyps : forall b, rinv b -> geom_ok b /\ geom_ok2 b /\ counters_ok b.
Proof.
  intros b RI. pose proof (rinv_facts b RI) as (F1 & F2 & F3 & F4 & F5 & F6 & F7 & F8 & F9 & F10).
  destruct RI as (R & Hf & Hs & HT). pose proof (reachable_inv _ _ _ R) as I.
  set (bs := blkSize b) in *.
  assert (E1 : segments b * (blksInSegm b + 1) = segments b * (8 * bs + 1)) by (rewrite F2; reflexivity).
  assert (E2 : (blksInSegm b + 1) * blkSize b = (8 * bs + 1) * bs) by (rewrite F2; reflexivity).
  split; [|split].
  - unfold geom_ok. fold bs. rewrite E1, F2.
    replace ((segments b * (8 * bs + 1) + 1) * bs) with (segments b * ((8 * bs + 1) * bs) + bs) by ring.
    repeat split; lia.
  - unfold geom_ok2. rewrite E2. fold bs. rewrite F2. repeat split; lia.
  - unfold counters_ok. pose proof (available_range _ _ _ I) as Ha.
    destruct (count_abs _ _ _ I) as (_ & Hc & _). fold bs in Hc. rewrite Hc in Ha.
    destruct (inv_hint _ _ _ I) as [H0 _]. repeat split; lia.
Qed.

(* where ArrangeBlock leaves the hint when it finds everything full *)
Lemma arrange_loop_exh_hint : forall fuel b s fidx b',
  arrange_loop fuel b s fidx = (b', ArrErr EExhausted) ->
  (segments b <= s /\ freeIdx b' = fidx) \/ (s < segments b /\ freeIdx b' = segments b * segm_size b).
Proof.
  induction fuel as [|f IH]; intros b s fidx b' H; cbn [arrange_loop] in H;
    destruct (Z.ltb_spec s (segments b)) as [Hlt|Hge].
  - discriminate.
  - injection H as <-. left. split; [exact Hge|reflexivity].
  - destruct (blkSize b =? 0); [discriminate|].
    destruct (buf_slice (bts b) (fidx - Z.rem fidx (blkSize b)) (blkSize b)) as [[base len]|]; [|discriminate].
    destruct (scan_hdr (Z.to_nat len) (bts b) base len (Z.rem fidx (blkSize b)) fidx); try discriminate.
    destruct (IH _ _ _ _ H) as [(H1 & H2)|(H1 & H2)]; right; (split; [exact Hlt|]).
    + rewrite H2. f_equal. lia.
    + exact H2.
  - injection H as <-. left. split; [exact Hge|reflexivity].
Qed.

Lemma step_bsize : forall b o, inv page fit b -> is_grow o = false ->
  bsize (bts (fst (step page fit b o))) = bsize (bts b).
Proof.
  intros b o I Hng. pose proof (inv_bs_pos _ _ _ I) as Hbs.
  destruct o as [|idx|idx|idx v|idx k v| | | | |n]; cbn [step is_grow] in *; try reflexivity; try discriminate.
  - destruct (arrange_spec _ _ _ I) as [(s1 & p1 & j & _ & _ & _ & _ & _ & E)|(f' & _ & _ & _ & E)];
      cbv zeta in E; rewrite E; cbn [fst arranged with_free bts]; [apply bsize_bset|reflexivity].
  - rewrite (free_spec _ _ _ idx I).
    destruct (negb ((0 <=? idx) && (idx <? blocks_count b))); [reflexivity|].
    destruct (is_alloc b idx); [|reflexivity]. cbn [fst freed bts]. apply bsize_bset.
  - unfold write_block. destruct (block b idx); try reflexivity. cbn [fst bts]. apply bsize_fill.
  - unfold poke_block. destruct (block b idx); try reflexivity.
    destruct ((k <? 0) || (len <=? k)); [reflexivity|]. cbn [fst bts]. apply bsize_bset.
  - pose proof (ssz_pos _ Hbs) as Hss. pose proof (inv_segs _ _ _ I) as Hsegs.
    assert (Hnn : 0 <= bsize (bts b)) by (pose proof (inv_segs_fit _ _ _ I); nia).
    destruct (new_blocks page (blkSize b) (bts b) fit) as [b'|e|] eqn:E; cbn [fst]; try reflexivity.
    destruct (new_blocks_inv _ _ _ _ _ (inv_page _ _ _ I) Hnn E) as (-> & _). reflexivity.
Qed.

Lemma step_hint_le : forall b o, inv page fit b -> freeIdx b <= bsize (bts b) ->
  freeIdx (fst (step page fit b o)) <= bsize (bts b).
Proof.
  intros b o I Hf. pose proof (inv_bs_pos _ _ _ I) as Hbs. pose proof (inv_segs_fit _ _ _ I) as Hfit.
  destruct o as [|idx|idx|idx v|idx k v| | | | |n]; cbn [step]; try exact Hf.
  - destruct (arrange_spec _ _ _ I) as [(s1 & p1 & j & Hs1 & Hp1 & _ & _ & _ & E)|(f' & _ & _ & _ & E)];
      cbv zeta in E; rewrite E; cbn [fst arranged with_free freeIdx].
    + destruct (hdr_in_buffer _ _ _ s1 p1 Hbs Hfit Hs1 Hp1) as (_ & H & _). lia.
    + unfold arrange in E. destruct (segm_size b =? 0); [discriminate|].
      destruct (arrange_loop_exh_hint _ _ _ _ _ E) as [(_ & H)|(_ & H)]; cbn [with_free freeIdx] in H.
      * lia.
      * rewrite H, (segm_size_ssz b (inv_bis _ _ _ I)). exact Hfit.
  - rewrite (free_spec _ _ _ idx I).
    destruct (negb ((0 <=? idx) && (idx <? blocks_count b))); [exact Hf|].
    destruct (is_alloc b idx); [|exact Hf]. cbn [fst freed freeIdx].
    match goal with |- (if ?a <? ?f then _ else _) <= _ => destruct (Z.ltb_spec a f); lia end.
  - unfold write_block. destruct (block b idx); exact Hf.
  - unfold poke_block. destruct (block b idx); try exact Hf.
    destruct ((k <? 0) || (len <=? k)); exact Hf.
  - pose proof (ssz_pos _ Hbs) as Hss. pose proof (inv_segs _ _ _ I) as Hsegs.
    assert (Hnn : 0 <= bsize (bts b)) by nia.
    destruct (new_blocks page (blkSize b) (bts b) fit) as [b'|e|] eqn:E; cbn [fst]; try exact Hf.
    destruct (new_blocks_inv _ _ _ _ _ (inv_page _ _ _ I) Hnn E) as (-> & _). cbn [opened freeIdx]. lia.
  - destruct (n <? bsize (bts b)); exact Hf.
Qed.

(* the invariant of the run is preserved by every operation of the model *)
Theorem rinv_step : forall b o, rinv b -> op_ok o -> rinv (fst (step page fit b o)).
Proof.
  intros b o (R & Hf & Hs & HT) Hok. pose proof (reachable_inv _ _ _ R) as I.
  pose proof (op_ok_no_grow o Hok) as Hng.
  split; [exact (reachable_step page fit b o R)|]. rewrite (step_bsize b o I Hng).
  split; [exact (step_hint_le b o I Hf)|]. split; [exact Hs|exact (step_tight page fit b o I HT Hng)].
Qed.

(** * The glue against the model's user writes *)

Lemma u8_of_N : forall v, u8 (Z.of_N v) = Z.of_N (N.land v 255).
Proof.
  intros v. unfold u8. change 255%N with (N.ones 8). rewrite N.land_ones.
  rewrite N2Z.inj_mod. reflexivity.
Qed.

(* [window_store] of C17_GenFn_alloc.v for any value: a cell holds the value modulo 256 *)
Lemma window_store_any h buf base len cap pos x : brel A h buf -> 0 <= base -> 0 <= pos < len ->
  base + len <= bsize buf ->
  brel A (sl_put h (mkSl A base len cap) pos [Z.of_N (N.land x 255)]) (bset buf (base + pos) x).
Proof.
  intros (Ha & Hl & Hs & Hb) H0 Hp Hin. unfold brel, sl_put. cbn [s_arr s_off].
  rewrite length_arr_set by exact Ha. rewrite arr_get_set_same by exact Ha. rewrite bsize_bset.
  split; [exact Ha|]. split.
  { unfold zlen in *. rewrite length_zsplice by (unfold zlen; cbn [length]; lia). exact Hl. }
  split; [exact Hs|]. intros off Ho. rewrite znth_zsplice1 by (unfold zlen in *; lia).
  destruct (Z.eqb_spec off (base + pos)) as [->|Hne].
  - rewrite bget_bset_same. reflexivity.
  - rewrite bget_bset_other by lia. apply Hb. exact Ho.
Qed.

Lemma gfill_spec : forall n h buf base len cap k v, brel A h buf -> 0 <= base -> 0 <= k ->
  k + Z.of_nat n = len -> base + len <= bsize buf ->
  exists h', gfill n (mkSl A base len cap) k (Z.of_N (N.land v 255)) h = Ok (tt, h') /\
             brel A h' (fill n buf (base + k) v).
Proof.
  induction n as [|n IH]; intros h buf base len cap k v B H0 Hk Hn Hin; cbn [gfill fill].
  - exists h. split; [reflexivity|exact B].
  - unfold bind. rewrite store_ok by (cbn [s_len]; lia).
    pose proof (window_store_any h buf base len cap k v B H0 ltac:(lia) Hin) as B'.
    destruct (IH _ _ base len cap (k + 1) v B' H0 ltac:(lia) ltac:(lia) ltac:(rewrite bsize_bset; exact Hin))
      as (h' & E & B''). exists h'. split; [exact E|]. replace (base + k + 1) with (base + (k + 1)) by lia. exact B''.
Qed.

(* Block over the heap storage, against the model's [block] *)
Lemma gen_Block_hb : forall h g b idx, grel hd A h g b -> geom_ok b -> int_ok idx ->
  Gen.Blocks_Block (hb_Buffer A) g idx h =
  match block b idx with
  | SliceOk o l => Ok ((mkSl A o l (bsize (bts b) - o), ENil), h)
  | SliceErr _ => Ok ((nil_slice, Err), h)
  | SlicePanic => GoPanic
  end.
Proof.
  intros h g b idx (E1 & E2 & E3 & E4 & E5 & E6 & B) G Hi.
  rewrite (gen_Block_refines (hb_Buffer A) g b idx h) by (try assumption; repeat split; assumption).
  unfold block. destruct (blksInSegm b =? 0); [reflexivity|].
  destruct ((segments b <=? Z.quot idx (blksInSegm b)) || (idx <? 0)); [reflexivity|].
  rewrite (hb_buffer_spec A _ h (bts b) _ _ B).
  destruct (buf_slice (bts b) (block_off b idx) (blkSize b)) as [[o l]|]; reflexivity.
Qed.

(** * One operation *)

Theorem gen_step_refines : forall h g b o, page < 9223372036854775808 ->
  grel hd A h g b -> rinv b -> op_ok o ->
  exists g' h', gen_step g o h = (g', forget_err (snd (step page fit b o)), h') /\
                grel hd A h' g' (fst (step page fit b o)).
Proof.
  intros h g b o Hpg R RI Hok.
  destruct (rinv_hyps b RI) as (G & G2 & C).
  pose proof (rinv_facts b RI) as (F1 & F2 & F3 & F4 & F5 & F6 & F7 & F8 & F9 & F10). cbv zeta in *.
  pose proof RI as (HR & Hfl & Hsm & HT). pose proof (reachable_inv _ _ _ HR) as I.
  destruct o as [|idx|idx|idx v|idx k v| | | | |n]; cbn [gen_step step op_ok] in *.
  - (* ArrangeBlock *)
    pose proof (gen_ArrangeBlock_refines_hb A hd h g b R G G2 C) as T.
    destruct (arrange_exhausted_iff_full page fit b HR) as (Hout & _).
    destruct (arrange b) as [b' [i|e| |]]; cbn [fst snd] in *.
    + destruct T as (g' & h' & E & R'). rewrite E. exists g', h'. split; [reflexivity|exact R'].
    + destruct T as (g' & E & R'). rewrite E. exists g', h. split; [reflexivity|exact R'].
    + destruct Hout as [(i & Hx)|Hx]; discriminate.
    + contradiction.
  - (* FreeBlock *)
    pose proof (gen_FreeBlock_refines_hb A hd h g b idx R G C Hok) as T.
    rewrite (free_spec _ _ _ idx I) in *.
    destruct (negb ((0 <=? idx) && (idx <? blocks_count b))); cbn [fst snd] in *.
    { rewrite T. exists g, h. split; [reflexivity|exact R]. }
    destruct (is_alloc b idx); cbn [fst snd] in *.
    + destruct T as (g' & h' & E & R'). rewrite E. exists g', h'. split; [reflexivity|exact R'].
    + rewrite T. exists g, h. split; [reflexivity|exact R].
  - (* Block *)
    rewrite (gen_Block_hb h g b idx R G Hok). exists g, h. split; [|exact R].
    destruct (block b idx) as [o l|e|]; reflexivity.
  - (* the user fills Block(idx) *)
    rewrite (gen_Block_hb h g b idx R G Hok). unfold write_block, block.
    destruct (blksInSegm b =? 0); [exists g, h; split; [reflexivity|exact R]|].
    destruct ((segments b <=? Z.quot idx (blksInSegm b)) || (idx <? 0)); [exists g, h; split; [reflexivity|exact R]|].
    destruct (buf_slice (bts b) (block_off b idx) (blkSize b)) as [[o l]|] eqn:Es;
      [|exists g, h; split; [reflexivity|exact R]].
    destruct R as (E1 & E2 & E3 & E4 & E5 & E6 & B).
    destruct (window_facts A h (bts b) _ (blkSize b) o l B ltac:(lia) Es) as (Eo & W0 & W1 & W2 & W3 & W).
    cbn [is_nil fst snd]. unfold user_fill. cbn [s_len]. rewrite u8_of_N.
    destruct (gfill_spec (Z.to_nat l) h (bts b) o l (bsize (bts b) - o) 0 v B W0 ltac:(lia) ltac:(lia) W2)
      as (h' & E & B'). rewrite E. rewrite Z.add_0_r in B'.
    exists g, h'. split; [reflexivity|]. unfold grel. cbn [blkSize blksInSegm segments freeIdx available bts].
    do 6 (split; [assumption|]). exact B'.
  - (* the user writes one byte of Block(idx) *)
    destruct Hok as (Hoi & Hok).
    rewrite (gen_Block_hb h g b idx R G Hoi). unfold poke_block, block.
    destruct (blksInSegm b =? 0); [exists g, h; split; [reflexivity|exact R]|].
    destruct ((segments b <=? Z.quot idx (blksInSegm b)) || (idx <? 0)); [exists g, h; split; [reflexivity|exact R]|].
    destruct (buf_slice (bts b) (block_off b idx) (blkSize b)) as [[o l]|] eqn:Es;
      [|exists g, h; split; [reflexivity|exact R]].
    pose proof R as (E1 & E2 & E3 & E4 & E5 & E6 & B).
    destruct (window_facts A h (bts b) _ (blkSize b) o l B ltac:(lia) Es) as (Eo & W0 & W1 & W2 & W3 & W).
    cbn [is_nil fst snd]. unfold user_poke.
    destruct ((k <? 0) || (l <=? k)) eqn:Ek; cbn [fst snd].
    + rewrite store_panic by (cbn [s_len]; lia). exists g, h. split; [reflexivity|exact R].
    + rewrite store_ok by (cbn [s_len]; lia). rewrite u8_of_N.
      exists g, (sl_put h (mkSl A o l (bsize (bts b) - o)) k [Z.of_N (N.land v 255)]). split; [reflexivity|].
      unfold grel. cbn [blkSize blksInSegm segments freeIdx available bts].
      do 6 (split; [assumption|]). apply window_store_any; try assumption; lia.
  - (* reopen: NewBlocks over the same array *)
    pose proof R as (E1 & E2 & E3 & E4 & E5 & E6 & B). rewrite E1.
    pose proof (gen_NewBlocks_refines_hb A hd page (blkSize b) fit h (bts b) B
                  ltac:(pose proof (inv_page _ _ _ I); lia) ltac:(lia)
                  ltac:(replace (blkSize b * 8 + 1) with (8 * blkSize b + 1) by ring; lia) Hsm) as T.
    unfold hb_Size.
    destruct (new_blocks page (blkSize b) (bts b) fit) as [b'|e|]; cbn [fst snd].
    + destruct T as (g' & E & R'). rewrite E. exists g', h. split; [reflexivity|exact R'].
    + destruct T as (g' & E). rewrite E. exists g, h. split; [reflexivity|exact R].
    + rewrite T. exists g, h. split; [reflexivity|exact R].
  - (* Available *)
    exists g, h. split; [|exact R]. destruct R as (E1 & E2 & E3 & E4 & E5 & E6 & B).
    destruct C as (_ & C2). unfold glue_Available. rewrite E5, i64_small by lia. reflexivity.
  - (* Count *)
    exists g, h. split; [|exact R]. destruct R as (E1 & E2 & E3 & E4 & E5 & E6 & B).
    unfold glue_Count, blocks_count. rewrite E3, E2, F2, i64_small by lia. reflexivity.
  - (* Segments *)
    exists g, h. split; [|exact R]. destruct R as (E1 & E2 & E3 & E4 & E5 & E6 & B).
    unfold glue_Segments. rewrite E3. reflexivity.
  - (* Grow: not on this side *)
    destruct Hok.
Qed.

Theorem gen_run_refines : forall ops h g b, page < 9223372036854775808 ->
  grel hd A h g b -> rinv b -> Forall op_ok ops ->
  exists gf hf, gen_run g ops h = (map forget_err (fst (run page fit b ops)), gf, hf) /\
                grel hd A hf gf (snd (run page fit b ops)) /\ rinv (snd (run page fit b ops)).
Proof.
  induction ops as [|o t IH]; intros h g b Hpg R RI Hok.
  - exists g, h. split; [reflexivity|]. split; [exact R|exact RI].
  - inversion Hok as [|? ? Ho Ht]; subst. cbn [gen_run run].
    destruct (gen_step_refines h g b o Hpg R RI Ho) as (g' & h' & E & R'). rewrite E.
    pose proof (rinv_step b o RI Ho) as RI'.
    destruct (step page fit b o) as [b1 x]. cbn [fst snd] in *.
    destruct (IH h' g' b1 Hpg R' RI' Ht) as (gf & hf & E2 & Rf & RIf). rewrite E2.
    destruct (run page fit b1 t) as [xs bf]. cbn [fst snd map] in *. exists gf, hf.
    split; [reflexivity|]. split; assumption.
Qed.

End GenRun.

(** * The headline of C17 over the generated code *)

(* what an accepted constructor call gives: the run invariant and the ranges
   gen_NewBlocks_refines asks for *)
Lemma new_blocks_rinv : forall page bs buf fit b0, 0 < page -> 0 <= bsize buf ->
  8 * bsize buf + 8 < 2147483648 -> new_blocks page bs buf fit = CtorOk b0 ->
  rinv page fit b0 /\ 0 < bs /\ (bs * 8 + 1) * bs <= bsize buf.
Proof.
  intros page bs buf fit b0 Hp Hsz Hsm Hnew.
  destruct (new_blocks_spec page bs buf fit Hp Hsz) as [(Hv & Hs & Hf & E)|(_ & E)];
    rewrite E in Hnew; [|discriminate]. injection Hnew as <-.
  destruct Hv as (Hbs & _). unfold ssz in Hs.
  split; [|split; [exact Hbs|lia]].
  split; [exact (reachable_new page bs buf fit _ Hp Hsz E)|].
  split; [unfold opened; cbn [freeIdx bts]; lia|]. split; [exact Hsm|]. apply opened_tight. exact Hf.
Qed.

(** For every page size, block size, storage (array [A] of the heap, [brel])
    small enough for the int32 counter (8*size+8 < 2^31), fit flag and every
    sequence of operations with Go-int arguments: if the constructor accepts
    (model decision = decision of the generated NewBlocks,
    gen_NewBlocks_refines), the generated NewBlocks returns an allocator [g]
    without touching the heap, and running the sequence on the generated code
    ([gen_run]: generated ArrangeBlock / FreeBlock / Block / NewBlocks + glue)
    produces exactly the outputs of the allocation-set specification started
    from the abstraction of the opened bytes, modulo the error class; the
    final generated state represents the model's final state, whose
    abstraction is the specification's final state. *)
Theorem gen_blocks_refine_allocset : forall A hd page bs fit h buf b0 ops,
  0 < page < 9223372036854775808 -> brel A h buf -> 8 * bsize buf + 8 < 2147483648 ->
  new_blocks page bs buf fit = CtorOk b0 -> Forall op_ok ops ->
  exists g, Gen.NewBlocks page (hb_Size A) (hb_Buffer A) bs hd fit h = Ok ((g, ENil), h) /\
    grel hd A h g b0 /\
    exists gf hf,
      gen_run page fit A hd g ops h = (map forget_err (fst (sp_run fit (abs b0) ops)), gf, hf) /\
      grel hd A hf gf (snd (run page fit b0 ops)) /\
      abs (snd (run page fit b0 ops)) = snd (sp_run fit (abs b0) ops).
Proof.
  intros A hd page bs fit h buf b0 ops Hp B Hsm Hnew Hok.
  pose proof B as (_ & _ & Hsz & _).
  destruct (new_blocks_rinv page bs buf fit b0 ltac:(lia) ltac:(lia) Hsm Hnew) as (RI & Hbs & Hss).
  pose proof (gen_NewBlocks_refines_hb A hd page bs fit h buf B Hp ltac:(lia) ltac:(lia) Hsm) as T.
  rewrite Hnew in T. destruct T as (g & E & R). exists g. split; [exact E|]. split; [exact R|].
  destruct (gen_run_refines page fit A hd ops h g b0 ltac:(lia) R RI Hok) as (gf & hf & E2 & Rf & _).
  destruct (blocks_refine_allocset page bs buf fit b0 ops ltac:(lia) ltac:(lia) Hnew) as (H1 & H2).
  exists gf, hf. rewrite <- H1. split; [exact E2|]. split; [exact Rf|exact H2].
Qed.
Print Assumptions gen_blocks_refine_allocset.

(** The same from the side of the generated constructor alone: for every
    Go-int block size (also those whose segment size overflows an int, which
    the code rejects since a2fad47 and the unbounded model rejects because no
    storage of less than 2^28 bytes holds such a segment), the generated
    NewBlocks terminates without a panic and without touching the heap; it
    answers an error exactly for the geometries the specification of the
    constructor excludes, and otherwise every run of the generated code gives
    the outputs of the allocation-set specification started from the set
    recorded in the header bytes of the storage. *)
Lemma gen_NewBlocks_decision : forall A hd page bs fit h buf,
  0 < page < 9223372036854775808 -> int_ok bs -> brel A h buf -> 8 * bsize buf + 8 < 2147483648 ->
  match new_blocks page bs buf fit with
  | CtorOk b => exists g, Gen.NewBlocks page (hb_Size A) (hb_Buffer A) bs hd fit h = Ok ((g, ENil), h) /\ grel hd A h g b
  | _ => exists g, Gen.NewBlocks page (hb_Size A) (hb_Buffer A) bs hd fit h = Ok ((g, Err), h)
  end.
Proof.
  intros A hd page bs fit h buf Hp Hb B Hsm. pose proof B as (_ & _ & Hsz & _).
  destruct (Z.lt_ge_cases ((bs * 8 + 1) * bs) 9223372036854775808) as [Hs|Hbig].
  - pose proof (gen_NewBlocks_refines_hb A hd page bs fit h buf B Hp Hb Hs Hsm) as T.
    destruct (new_blocks_spec page bs buf fit ltac:(lia) ltac:(lia)) as [(_ & _ & _ & E)|(_ & E)];
      rewrite E in *; exact T.
  - (* the segment size does not fit an int *)
    assert (En : new_blocks page bs buf fit = CtorErr EInvalid).
    { destruct (new_blocks_spec page bs buf fit ltac:(lia) ltac:(lia)) as [(_ & Hss & _)|(_ & E)]; [|exact E].
      unfold ssz in Hss. exfalso. replace ((8 * bs + 1) * bs) with ((bs * 8 + 1) * bs) in Hss by ring. lia. }
    rewrite En.
    assert (Eg : Gen.GetBlocksInSegment page bs h = Ok (-1, h)).
    { destruct (Z.leb_spec bs 0) as [Hle|Hpos].
      - unfold Gen.GetBlocksInSegment. destruct (Z.leb_spec bs 0); [reflexivity|lia].
      - apply gen_GetBlocksInSegment_guard; try assumption. unfold int_ok in Hb. lia. }
    unfold Gen.NewBlocks. go_call Eg. cbv beta iota zeta. cbn [Z.ltb Z.compare]. eexists. reflexivity.
Qed.

Theorem gen_blocks_refine_allocset_gen : forall A hd page bs fit h buf ops,
  0 < page < 9223372036854775808 -> int_ok bs -> brel A h buf -> 8 * bsize buf + 8 < 2147483648 ->
  Forall op_ok ops ->
  exists g e, Gen.NewBlocks page (hb_Size A) (hb_Buffer A) bs hd fit h = Ok ((g, e), h) /\
    (e = Err -> ~ valid_bs page bs \/ bsize buf < ssz bs \/ (fit = true /\ bsize buf mod ssz bs <> 0)) /\
    (e = ENil ->
       valid_bs page bs /\ ssz bs <= bsize buf /\ (fit = true -> bsize buf mod ssz bs = 0) /\
       fst (fst (gen_run page fit A hd g ops h)) =
       map forget_err (fst (sp_run fit (spec_of_bytes bs buf) ops))).
Proof.
  intros A hd page bs fit h buf ops Hp Hb B Hsm Hok. pose proof B as (_ & _ & Hsz & _).
  pose proof (gen_NewBlocks_decision A hd page bs fit h buf Hp Hb B Hsm) as D.
  destruct (new_blocks_spec page bs buf fit ltac:(lia) ltac:(lia)) as [(Hv & Hss & Hf & E)|(Hbad & E)];
    rewrite E in D.
  - destruct D as (g & Eg & R). exists g, ENil. split; [exact Eg|]. split; [discriminate|]. intros _.
    split; [exact Hv|]. split; [exact Hss|]. split; [exact Hf|].
    destruct (gen_blocks_refine_allocset A hd page bs fit h buf _ ops Hp B Hsm E Hok)
      as (g2 & Eg2 & _ & gf & hf & Er & _).
    rewrite Eg in Eg2. injection Eg2 as <-. rewrite Er. reflexivity.
  - destruct D as (g & Eg). exists g, Err. split; [exact Eg|]. split; [intros _; exact Hbad|discriminate].
Qed.

(** Without a model buffer in the hypotheses: the storage is any heap array
    of bytes; [buf_of_list] is the model buffer with those bytes (it only
    serves to name the allocated set recorded in the header bytes). *)
Fixpoint cells_of (l : list Z) (off : Z) : PositiveMap.t N :=
  match l with
  | [] => PositiveMap.empty N
  | x :: t => PositiveMap.add (key off) (Z.to_N x) (cells_of t (off + 1))
  end.
Definition buf_of_list (l : list Z) : buffer := mkBuf (zlen l) (cells_of l 0).

Lemma cells_of_find : forall l off i, (i < length l)%nat ->
  PositiveMap.find (key (off + Z.of_nat i)) (cells_of l off) = Some (Z.to_N (nth i l 0)).
Proof.
  induction l as [|x t IH]; intros off i Hi; cbn [length] in Hi; [lia|]. cbn [cells_of].
  destruct i as [|i].
  - rewrite Z.add_0_r, PositiveMap.gss. reflexivity.
  - rewrite PositiveMap.gso by (intros Hk; apply key_inj in Hk; lia).
    replace (off + Z.of_nat (S i)) with (off + 1 + Z.of_nat i) by lia. cbn [nth]. apply IH. lia.
Qed.

Lemma brel_of_list : forall A h, (A < length h)%nat ->
  Forall (fun x => 0 <= x < 256) (arr_get h A) -> zlen (arr_get h A) < 9223372036854775808 ->
  brel A h (buf_of_list (arr_get h A)).
Proof.
  intros A h Ha Hby Hlen. unfold brel, buf_of_list. cbn [bsize]. split; [exact Ha|]. split; [reflexivity|].
  split; [unfold zlen in *; lia|]. intros off Ho. unfold bget, znth. cbn [cells].
  pose proof (cells_of_find (arr_get h A) 0 (Z.to_nat off) ltac:(unfold zlen in Ho; lia)) as F.
  rewrite Z.add_0_l, Z2Nat.id in F by lia. rewrite F.
  assert (Hx : 0 <= nth (Z.to_nat off) (arr_get h A) 0 < 256).
  { rewrite Forall_forall in Hby. apply Hby. apply nth_In. unfold zlen in Ho. lia. }
  change 255%N with (N.ones 8). rewrite N.land_ones, N.mod_small by (change (2 ^ 8)%N with 256%N; lia).
  rewrite Z2N.id by lia. reflexivity.
Qed.

Theorem gen_blocks_refine_allocset_heap : forall A hd page bs fit h ops,
  0 < page < 9223372036854775808 -> int_ok bs -> (A < length h)%nat ->
  Forall (fun x => 0 <= x < 256) (arr_get h A) -> 8 * zlen (arr_get h A) + 8 < 2147483648 ->
  Forall op_ok ops ->
  let size := zlen (arr_get h A) in let buf := buf_of_list (arr_get h A) in
  exists g e, Gen.NewBlocks page (hb_Size A) (hb_Buffer A) bs hd fit h = Ok ((g, e), h) /\
    (e = Err -> ~ valid_bs page bs \/ size < ssz bs \/ (fit = true /\ size mod ssz bs <> 0)) /\
    (e = ENil ->
       valid_bs page bs /\ ssz bs <= size /\ (fit = true -> size mod ssz bs = 0) /\
       fst (fst (gen_run page fit A hd g ops h)) =
       map forget_err (fst (sp_run fit (spec_of_bytes bs buf) ops))).
Proof.
  intros A hd page bs fit h ops Hp Hb Ha Hby Hsm Hok size buf.
  pose proof (brel_of_list A h Ha Hby ltac:(lia)) as B.
  exact (gen_blocks_refine_allocset_gen A hd page bs fit h buf ops Hp Hb B Hsm Hok).
Qed.

(* the same, together with the invariant of the final state: every state of a
   run satisfies the hypotheses of the companions below *)
Lemma gen_run_reaches : forall A hd page bs fit h buf b0 ops,
  0 < page < 9223372036854775808 -> brel A h buf -> 8 * bsize buf + 8 < 2147483648 ->
  new_blocks page bs buf fit = CtorOk b0 -> Forall op_ok ops ->
  exists g outs gf hf, Gen.NewBlocks page (hb_Size A) (hb_Buffer A) bs hd fit h = Ok ((g, ENil), h) /\
    gen_run page fit A hd g ops h = (outs, gf, hf) /\
    grel hd A hf gf (snd (run page fit b0 ops)) /\ rinv page fit (snd (run page fit b0 ops)).
Proof.
  intros A hd page bs fit h buf b0 ops Hp B Hsm Hnew Hok.
  pose proof B as (_ & _ & Hsz & _).
  destruct (new_blocks_rinv page bs buf fit b0 ltac:(lia) ltac:(lia) Hsm Hnew) as (RI & Hbs & Hss).
  pose proof (gen_NewBlocks_refines_hb A hd page bs fit h buf B Hp ltac:(lia) ltac:(lia) Hsm) as T.
  rewrite Hnew in T. destruct T as (g & E & R).
  destruct (gen_run_refines page fit A hd ops h g b0 ltac:(lia) R RI Hok) as (gf & hf & E2 & Rf & RIf).
  exists g, (map forget_err (fst (run page fit b0 ops))), gf, hf.
  split; [exact E|]. split; [exact E2|]. split; [exact Rf|exact RIf].
Qed.

(** * Companions over the generated code, for every state [(g, h)] of a run
      ([grel hd A h g b] with [rinv page fit b]) *)

Section GenCompanions.

Variable page : Z.
Variable fit : bool.
Variable A : nat.
Variable hd : Z.

(** ArrangeBlock: the index handed out is in range, was free, is the least
    free one, becomes the only new member of the allocated set, available-1;
    the next state is again a state of a run *)
Theorem gen_arrange_fresh_run : forall h g b g' i h',
  grel hd A h g b -> rinv page fit b ->
  Gen.Blocks_ArrangeBlock (hb_Buffer A) g h = Ok ((g', i, ENil), h') ->
  exists b', arrange b = (b', ArrIdx i) /\ grel hd A h' g' b' /\ rinv page fit b' /\
    0 <= i < blocks_count b /\ ~ In i (alloc_list b) /\
    (forall k, 0 <= k < i -> In k (alloc_list b)) /\
    (forall k, In k (alloc_list b') <-> k = i \/ In k (alloc_list b)) /\
    Gen.Blocks_available g' = Gen.Blocks_available g - 1.
Proof.
  intros h g b g' i h' R RI E. destruct (rinv_hyps page fit b RI) as (G & G2 & C).
  pose proof RI as (HR & _).
  destruct (gen_arrange_fresh_hb A hd page fit h g b g' i h' HR R G G2 C E)
    as (b' & Ea & R' & F1 & F2 & F3 & F4 & F5).
  exists b'. split; [exact Ea|]. split; [exact R'|]. split.
  { pose proof (rinv_step page fit b OArrange RI I) as H. cbn [step] in H. rewrite Ea in H. exact H. }
  split; [exact F1|]. split; [exact F2|]. split; [exact F3|]. split; [exact F4|].
  destruct R as (_ & _ & _ & _ & E5 & _). destruct R' as (_ & _ & _ & _ & E5' & _). lia.
Qed.

(* the allocated set only shrinks by a FreeBlock of that very index *)
Lemma in_as_remove_other : forall i k l, In k l -> k <> i -> In k (as_remove i l).
Proof.
  intros i k. induction l as [|x t IH]; intros Hin Hne; cbn [as_remove]; [exact Hin|].
  destruct (Z.eqb_spec x i) as [->|Hx]; destruct Hin as [->|Hin]; cbn [In]; auto; contradiction.
Qed.

(* from [(s1, x1) = (abs b', x)]: replace [abs b'] and [x] in the goal *)
Ltac split_hs Hs :=
  let H1 := fresh "Hst" in let H2 := fresh "Hout" in
  pose proof (f_equal fst Hs) as H1; pose proof (f_equal snd Hs) as H2;
  cbn [fst snd] in H1, H2; clear Hs; rewrite <- H1, <- H2.

Lemma step_keeps_held : forall b o i, reachable page fit b -> In i (alloc_list b) -> o <> OFree i ->
  snd (step page fit b o) <> OutIdx i /\ In i (alloc_list (fst (step page fit b o))).
Proof.
  intros b o i HR Hin Hne. pose proof (reachable_inv _ _ _ HR) as I.
  destruct (step_refines page fit b o I) as (_ & Hs).
  destruct o as [|idx|idx|idx v|idx k v| | | | |n].
  - (* ArrangeBlock: model-level freshness *)
    clear Hs. cbn [step]. destruct (arrange b) as [b' r] eqn:Ea. cbn [fst snd].
    destruct r as [i'|e| |]; try (split; [discriminate|]).
    + destruct (arrange_fresh page fit b b' i' HR Ea) as (_ & F2 & _ & F4 & _).
      split; [intros [= ->]; contradiction|]. apply F4. right. exact Hin.
    + destruct (arrange_outcome _ _ _ I) as [(i0 & b0 & E & _)|(b0 & E & _ & Habs & _)];
        rewrite E in Ea; [discriminate|]. injection Ea as <- <-.
      change (alloc_list b0) with (sp_alloc (abs b0)). rewrite Habs. exact Hin.
    + destruct (arrange_exhausted_iff_full page fit b HR) as ([(x & Hx)|Hx] & _); rewrite Ea in Hx; discriminate.
    + destruct (arrange_exhausted_iff_full page fit b HR) as ([(x & Hx)|Hx] & _); rewrite Ea in Hx; discriminate.
  - (* FreeBlock of another index *)
    assert (Hidx : i <> idx) by (intros ->; apply Hne; reflexivity).
    destruct (step page fit b (OFree idx)) as [b' x]. cbn [fst snd] in *.
    change (alloc_list b') with (sp_alloc (abs b')).
    cbn [sp_step] in Hs. change (sp_alloc (abs b)) with (alloc_list b) in Hs.
    destruct (negb (sp_valid (abs b) idx)); [split_hs Hs; split; [discriminate|exact Hin]|].
    destruct (as_mem idx (alloc_list b)); split_hs Hs; (split; [discriminate|]); [|exact Hin].
    cbn [sp_with sp_alloc]. apply in_as_remove_other; assumption.
  - destruct (step page fit b (OBlock idx)) as [b' x]. cbn [fst snd] in *.
    change (alloc_list b') with (sp_alloc (abs b')). cbn [sp_step] in Hs.
    destruct (sp_valid (abs b) idx); split_hs Hs; (split; [discriminate|exact Hin]).
  - destruct (step page fit b (OWrite idx v)) as [b' x]. cbn [fst snd] in *.
    change (alloc_list b') with (sp_alloc (abs b')). cbn [sp_step] in Hs.
    destruct (sp_valid (abs b) idx); split_hs Hs; (split; [discriminate|exact Hin]).
  - destruct (step page fit b (OPoke idx k v)) as [b' x]. cbn [fst snd] in *.
    change (alloc_list b') with (sp_alloc (abs b')). cbn [sp_step] in Hs.
    destruct (sp_valid (abs b) idx); [destruct ((k <? 0) || (sp_bs (abs b) <=? k))|];
      split_hs Hs; (split; [discriminate|exact Hin]).
  - destruct (step page fit b OReopen) as [b' x]. cbn [fst snd] in *.
    change (alloc_list b') with (sp_alloc (abs b')). cbn [sp_step] in Hs. unfold sp_reopen in Hs.
    destruct (fit && negb (sp_size (abs b) mod sp_ssz (abs b) =? 0)); split_hs Hs;
      (split; [discriminate|]); [exact Hin|].
    cbn [sp_alloc]. apply in_or_app. left. exact Hin.
  - cbn [step fst snd]. split; [discriminate|exact Hin].
  - cbn [step fst snd]. split; [discriminate|exact Hin].
  - cbn [step fst snd]. split; [discriminate|exact Hin].
  - destruct (step page fit b (OGrow n)) as [b' x]. cbn [fst snd] in *.
    change (alloc_list b') with (sp_alloc (abs b')). cbn [sp_step] in Hs.
    destruct (n <? sp_size (abs b)); split_hs Hs; (split; [discriminate|exact Hin]).
Qed.

Lemma run_keeps_held : forall ops b i, reachable page fit b -> In i (alloc_list b) ->
  (forall o, In o ops -> o <> OFree i) ->
  ~ In (OutIdx i) (fst (run page fit b ops)) /\ In i (alloc_list (snd (run page fit b ops))).
Proof.
  induction ops as [|o t IH]; intros b i HR Hin Hno; cbn [run].
  - split; [intros []|exact Hin].
  - destruct (step_keeps_held b o i HR Hin (Hno o (or_introl eq_refl))) as (H1 & H2).
    pose proof (reachable_step page fit b o HR) as HR'.
    destruct (step page fit b o) as [b1 x]. cbn [fst snd] in *.
    destruct (IH b1 i HR' H2 (fun o' Ho' => Hno o' (or_intror Ho'))) as (H3 & H4).
    destruct (run page fit b1 t) as [xs bf]. cbn [fst snd] in *.
    split; [|exact H4]. intros [Hx|Hx]; [exact (H1 Hx)|exact (H3 Hx)].
Qed.

(** No double allocation: an index handed out by the generated ArrangeBlock is
    not handed out again by any later ArrangeBlock of the run, as long as the
    run contains no FreeBlock of that index *)
Theorem gen_no_double_allocation : forall h g b g1 i h1 ops, page < 9223372036854775808 ->
  grel hd A h g b -> rinv page fit b ->
  gen_step page fit A hd g OArrange h = (g1, OutIdx i, h1) ->
  Forall op_ok ops -> (forall o, In o ops -> o <> OFree i) ->
  ~ In (OutIdx i) (fst (fst (gen_run page fit A hd g1 ops h1))).
Proof.
  intros h g b g1 i h1 ops Hpg R RI E Hok Hno.
  destruct (gen_step_refines page fit A hd h g b OArrange Hpg R RI I) as (g' & h' & E' & R').
  rewrite E in E'. injection E' as <- Hx <-.
  pose proof (rinv_step page fit b OArrange RI I) as RI'. pose proof RI as (HR & _).
  cbn [step] in *. destruct (arrange b) as [b' r] eqn:Ea. cbn [fst snd] in *.
  destruct r as [i'|e| |]; cbn [forget_err] in Hx; try discriminate. injection Hx as ->.
  destruct (arrange_fresh page fit b b' i' HR Ea) as (_ & _ & _ & F4 & _).
  destruct (gen_run_refines page fit A hd ops h1 g1 b' Hpg R' RI' Hok) as (gf & hf & E2 & _).
  rewrite E2. cbn [fst]. destruct RI' as (HR' & _).
  destruct (run_keeps_held ops b' i' HR' (proj2 (F4 i') (or_introl eq_refl)) Hno) as (Hnot & _).
  intros Hin. apply in_map_iff in Hin. destruct Hin as (x & Hfx & Hx).
  destruct x; cbn [forget_err] in Hfx; try discriminate. injection Hfx as ->. exact (Hnot Hx).
Qed.

(** Where blocks live: the windows the generated Block hands out for two
    different valid indices are windows of the storage array, blkSize long,
    inside the array, disjoint from each other and from every header byte *)
Theorem gen_blocks_disjoint : forall h g b i j wi wj h1 h2, grel hd A h g b -> rinv page fit b ->
  int_ok i -> int_ok j -> i <> j ->
  Gen.Blocks_Block (hb_Buffer A) g i h = Ok ((wi, ENil), h1) ->
  Gen.Blocks_Block (hb_Buffer A) g j h = Ok ((wj, ENil), h2) ->
  h1 = h /\ h2 = h /\ s_arr wi = A /\ s_arr wj = A /\
  s_len wi = Gen.Blocks_blkSize g /\ s_len wj = Gen.Blocks_blkSize g /\
  (s_off wi + s_len wi <= s_off wj \/ s_off wj + s_len wj <= s_off wi) /\
  0 <= s_off wi /\ s_off wi + s_len wi <= zlen (arr_get h A) /\
  (forall s p k, 0 <= p < Gen.Blocks_blkSize g -> 0 <= k < s_len wi ->
     s_off wi + k <> hdr_addr (Gen.Blocks_blkSize g) s p).
Proof.
  intros h g b i j wi wj h1 h2 R RI Hi Hj Hne Ei Ej.
  destruct (rinv_hyps page fit b RI) as (G & _ & _). pose proof RI as (HR & _).
  rewrite (gen_Block_hb A hd h g b i R G Hi) in Ei. rewrite (gen_Block_hb A hd h g b j R G Hj) in Ej.
  destruct (block_valid page fit b i HR) as (Vi & Ni). destruct (block_valid page fit b j HR) as (Vj & Nj).
  assert (Hvi : 0 <= i < blocks_count b).
  { destruct (Z.leb_spec 0 i); [destruct (Z.ltb_spec i (blocks_count b)); [lia|]|];
      rewrite Ni in Ei by lia; discriminate. }
  assert (Hvj : 0 <= j < blocks_count b).
  { destruct (Z.leb_spec 0 j); [destruct (Z.ltb_spec j (blocks_count b)); [lia|]|];
      rewrite Nj in Ej by lia; discriminate. }
  rewrite (Vi Hvi) in Ei. rewrite (Vj Hvj) in Ej. injection Ei as <- <-. injection Ej as <- <-.
  destruct R as (E1 & _ & _ & _ & _ & _ & (_ & Bl & _)). cbn [s_arr s_off s_len]. rewrite E1, Bl.
  pose proof (blocks_disjoint page fit b i j HR Hvi Hvj Hne) as D.
  destruct (blocks_inside_buffer page fit b i HR Hvi) as (I1 & I2 & I3).
  pose proof (inv_bs_pos _ _ _ (reachable_inv _ _ _ HR)) as Hbs.
  repeat split; try reflexivity; try lia.
  intros s p k Hp Hk. apply (blocks_avoid_headers page fit b i s p k HR Hvi Hp Hk).
Qed.

(** Accounting: Available() = Count() - number of allocated indices recorded
    in the header bytes *)
Theorem gen_available_accounting : forall h g b, grel hd A h g b -> rinv page fit b ->
  glue_Available g = glue_Count g - Z.of_nat (length (alloc_list b)) /\
  alloc_list b = alloc_of_bytes (Gen.Blocks_blkSize g) (Gen.Blocks_segments g) (bts b).
Proof.
  intros h g b R RI. destruct (rinv_hyps page fit b RI) as (_ & _ & (_ & C2)).
  pose proof (rinv_facts page fit b RI) as (F1 & F2 & F3 & F4 & F5 & F6 & _). cbv zeta in *.
  destruct RI as (HR & _). destruct R as (E1 & E2 & E3 & _ & E5 & _).
  unfold glue_Available, glue_Count. rewrite E5, E3, E2, F2, E1. rewrite !i64_small by lia.
  split; [|reflexivity]. rewrite (available_eq page fit b HR). unfold blocks_count. rewrite F2. reflexivity.
Qed.

(** Reopen: NewBlocks over the same array accepts, leaves the heap alone and
    gives the same geometry, the same counter and the same allocated set (the
    hint restarts at 0) *)
Theorem gen_reopen_same : forall h g b, 0 < page < 9223372036854775808 ->
  grel hd A h g b -> rinv page fit b ->
  exists g' b', Gen.NewBlocks page (hb_Size A) (hb_Buffer A) (Gen.Blocks_blkSize g) hd fit h = Ok ((g', ENil), h) /\
    grel hd A h g' b' /\ rinv page fit b' /\
    Gen.Blocks_blkSize g' = Gen.Blocks_blkSize g /\ Gen.Blocks_blksInSegm g' = Gen.Blocks_blksInSegm g /\
    Gen.Blocks_segments g' = Gen.Blocks_segments g /\ Gen.Blocks_available g' = Gen.Blocks_available g /\
    Gen.Blocks_freeIdx g' = 0 /\ alloc_list b' = alloc_list b /\ bts b' = bts b.
Proof.
  intros h g b Hp R RI. pose proof RI as (HR & _ & Hsm & HT). pose proof (reachable_inv _ _ _ HR) as Iv.
  pose proof (rinv_facts page fit b RI) as (F1 & F2 & F3 & F4 & F5 & F6 & F7 & F8 & F9 & F10). cbv zeta in *.
  pose proof (rinv_step page fit b OReopen RI I) as RI'.
  destruct (reopen_same page fit b HR HT) as (b0 & En & _ & Hal & Hav & _ & Hsg & Hbs & Hbt & _).
  cbn [step] in RI'. rewrite En in RI'. cbn [fst] in RI'.
  pose proof R as (E1 & E2 & E3 & E4 & E5 & E6 & B). rewrite E1.
  pose proof (gen_NewBlocks_refines_hb A hd page (blkSize b) fit h (bts b) B Hp ltac:(lia)
                ltac:(replace (blkSize b * 8 + 1) with (8 * blkSize b + 1) by ring; lia) Hsm) as T.
  rewrite En in T. destruct T as (g' & E & R'). exists g', b0. split; [exact E|]. split; [exact R'|].
  split; [exact RI'|].
  assert (Hb0 : blksInSegm b0 = blksInSegm b /\ freeIdx b0 = 0).
  { assert (Hnn : 0 <= bsize (bts b)) by lia.
    destruct (new_blocks_inv _ _ _ _ _ (inv_page _ _ _ Iv) Hnn En) as (-> & _).
    unfold opened. cbn [blksInSegm freeIdx]. rewrite (inv_bis _ _ _ Iv). split; reflexivity. }
  destruct R' as (E1' & E2' & E3' & E4' & E5' & _).
  destruct Hb0 as (Hb1 & Hb2). repeat split; try assumption; congruence.
Qed.

End GenCompanions.

(** * Non-vacuity: the running example of Properties/C17.v (block size 1, two
      segments, 18 bytes) on the generated code, plus a poke outside the block
      (Go panics) and a byte value above 255 (stored modulo 256) *)

Definition gen_ex_ops : list op :=
  [OArrange; OArrange; OArrange; OArrange; OArrange; OArrange; OArrange; OArrange; OArrange;
   OArrange; OArrange; OArrange; OArrange; OArrange; OArrange; OArrange; OArrange; OAvail;
   OFree 8; OFree 3; OFree 7; OFree 7; OFree 16; OFree (-1); OAvail; OArrange; OWrite 3 255%N;
   OPoke 8 0 255%N; OReopen; OArrange; OBlock 7; OBlock 8; OBlock 16; OCount; OSegments; OAvail;
   OPoke 8 1 7%N; OPoke 2 0 300%N].

Example gen_ex_blocks_run :
  match Gen.NewBlocks 4096 (hb_Size 0) (hb_Buffer 0) 1 7 true [repeat 0 18] with
  | Ok ((g, ENil), h1) =>
      h1 = [repeat 0 18] /\ g = Gen.mk_Blocks 1 8 2 0 7 16 /\
      gen_run 4096 true 0 7 g gen_ex_ops h1 =
      ([OutIdx 0; OutIdx 1; OutIdx 2; OutIdx 3; OutIdx 4; OutIdx 5; OutIdx 6; OutIdx 7; OutIdx 8;
        OutIdx 9; OutIdx 10; OutIdx 11; OutIdx 12; OutIdx 13; OutIdx 14; OutIdx 15; OutErr EOther; OutN 0;
        OutOk; OutOk; OutOk; OutErr EOther; OutErr EOther; OutErr EOther; OutN 3; OutIdx 3; OutOk;
        OutOk; OutOk; OutIdx 7; OutSlice 8 1; OutSlice 10 1; OutErr EOther; OutN 16; OutN 2; OutN 1;
        OutPanic; OutOk],
       Gen.mk_Blocks 1 8 2 0 7 1,
       [[255; 0; 0; 44; 255; 0; 0; 0; 0; 254; 255; 0; 0; 0; 0; 0; 0; 0]])
  | _ => False
  end.
Proof. vm_compute. repeat split; reflexivity. Qed.

(* the example meets the hypotheses of the headline, and the specification
   machine gives the same outputs *)
Example gen_ex_blocks_hyps :
  brel 0 [repeat 0 18] (zero_buffer 18) /\ 8 * bsize (zero_buffer 18) + 8 < 2147483648 /\
  Forall op_ok gen_ex_ops /\
  match new_blocks 4096 1 (zero_buffer 18) true with
  | CtorOk b0 =>
      map forget_err (fst (sp_run true (abs b0) gen_ex_ops)) =
      fst (fst (gen_run 4096 true 0 7 (Gen.mk_Blocks 1 8 2 0 7 16) gen_ex_ops [repeat 0 18]))
  | _ => False
  end.
Proof.
  split; [|split; [|split]].
  - unfold brel. cbn [length bsize zero_buffer]. split; [lia|]. split; [reflexivity|]. split; [lia|].
    intros off Ho. rewrite bget_zero_buffer.
    assert (C : off = 0 \/ off = 1 \/ off = 2 \/ off = 3 \/ off = 4 \/ off = 5 \/ off = 6 \/ off = 7 \/ off = 8 \/
                off = 9 \/ off = 10 \/ off = 11 \/ off = 12 \/ off = 13 \/ off = 14 \/ off = 15 \/ off = 16 \/ off = 17) by lia.
    repeat (destruct C as [->|C]; [reflexivity|]). subst off. reflexivity.
  - cbn. lia.
  - unfold gen_ex_ops, op_ok, int_ok. repeat constructor; lia.
  - vm_compute. reflexivity.
Qed.

(* a storage that already records allocations (indices 0, 1 and 15): the set
   named by gen_blocks_refine_allocset_heap, and a run on it *)
Example gen_ex_heap_alloc_set :
  let arr := [3; 0; 0; 0; 0; 0; 0; 0; 0; 128; 0; 0; 0; 0; 0; 0; 0; 0] in
  alloc_of_bytes 1 2 (buf_of_list arr) = [0; 1; 15] /\
  match Gen.NewBlocks 4096 (hb_Size 0) (hb_Buffer 0) 1 7 false [arr] with
  | Ok ((g, ENil), h1) =>
      fst (fst (gen_run 4096 false 0 7 g [OAvail; OArrange; OFree 15; OFree 15; OArrange; OFree 16] h1)) =
      [OutN 13; OutIdx 2; OutOk; OutErr EOther; OutIdx 3; OutErr EOther]
  | _ => False
  end.
Proof. vm_compute. split; reflexivity. Qed.

(* one traversal for all theorems of this file (a Print Assumptions costs about
   1.5 s here; the headline has its own above): an axiom used by any of them
   would be listed *)
Definition gen_c17_run_theorems :=
  (gen_step_refines, gen_run_refines, rinv_step, rinv_hyps, gen_blocks_refine_allocset, gen_blocks_refine_allocset_gen,
   gen_blocks_refine_allocset_heap, gen_run_reaches,
   gen_arrange_fresh_run, gen_no_double_allocation, gen_blocks_disjoint, gen_available_accounting,
   gen_reopen_same, gen_ex_blocks_run, gen_ex_blocks_hyps, gen_ex_heap_alloc_set).
Print Assumptions gen_c17_run_theorems.
