(** C10/C11, translator tie, group "walk": [Map.next] (the loop), [Map.getValue]
    and [Map.release] of /repo/container/iterable/map.go as translated on this
    run (Gen_imap.v) refine [i_next] / [i_getvalue] / [i_release] of
    model/IMap.v, for every implementation of [sync.Pool.Put] that satisfies
    [put_spec] (IM_GenVocab.v).

    [gm vs hd lst]: the generated [Map] record whose head is the node [hd]
    (the functions of this group only read and write [head]).  Hypotheses:
    [cwf] (no dangling ids in the heap, head and pool in range) and a range for
    the reference counters that fits a Go int ([rng2]/[refs_in] with bounds
    within +-2^62): the model counts in unbounded Z, the code in int. *)
(* model/IMap.v and lib/GoLite.v both define the monadic notation; GoLite's wins here *)
Set Warnings "-notation-overridden,-parsing".
From Coq Require Import List ZArith Arith Bool Lia.
From GL Require Import lib.IMapBase model.IMap.
From GL Require Import lib.GoLite lib.GoLitePtr.
From GLGEN Require Import IM_GenVocab Gen_imap C10_GenFn_node.
Import ListNotations.
Open Scope Z_scope.

Definition gm (vs : gomap) (hd : nat) (lst : Z) : Gen.Map := Gen.mk_Map vs (ptr hd) lst 0.
Definition unctl {S : Type} (c : ctl S S) : S := match c with Fall s => s | Return r => r end.

(* the loop of Map.next against i_next: same outcome; the loop ends by "return p"
   ([Return]) or by "break" ([Fall]) with the same state *)
Definition nx_rel (lg : list Z) (vs : gomap) (lst : Z) (r : res (core * nat))
    (o : outcome (ctl (Gen.Map * Z) (Gen.Map * Z) * heap)) : Prop :=
  match r with
  | IMapBase.Ok (c', p') =>
      exists c, o = Ok (c, gheap lg (snd c') (fst (fst c'))) /\
                unctl c = (gm vs (snd (fst c')) lst, ptr p')
  | IMapBase.Panic => o = GoPanic
  | IMapBase.NoFuel => True
  end.

Ltac gm_cbn :=
  unfold gm, Gen.set_Map_head in *;
  cbn [Gen.Map_vals Gen.Map_head Gen.Map_last Gen.Map_pool] in *.

Section Walk.

Variable lg : list Z.   (* the log array: untouched by the map code *)

Variable pool_Put : Z -> Z -> M unit.
Hypothesis Hput : put_spec pool_Put.

Ltac im_put :=
  match goal with
  | |- context [bind (pool_Put 0 (ptr ?x)) ?k (gheap ?lg0 ?pl ?H)] =>
      rewrite (bind_ok (pool_Put 0 (ptr x)) k (gheap lg0 pl H) tt _ (Hput lg0 pl H x))
  end.

Lemma two62 : 2 ^ 62 = 4611686018427387904. Proof. reflexivity. Qed.

(* the loop of Map.next, by induction on the model's fuel, for every generated
   fuel that is at least as large *)
Lemma gen_next_loop : forall f gf vs lst mh hd pl p lo hi,
  (f <= gf)%nat -> cwf (mh, hd, pl) -> (p < length mh)%nat -> rng2 lo hi p mh ->
  - 2 ^ 62 <= lo -> hi <= 2 ^ 62 ->
  nx_rel lg vs lst (i_next f (mh, hd, pl) p)
    (iter gf (Gen.Map_next_loop1 pool_Put) (gm vs hd lst, ptr p) (gheap lg pl mh)).
Proof.
  rewrite two62.
  induction f as [|f IH]; intros gf vs lst mh hd pl p lo hi Hf (C & Hhd & Hpl) Hp R Hlo Hhi; [exact I|].
  destruct gf as [|gf]; [lia|]. assert (Hf' : (f <= gf)%nat) by lia.
  pose proof (C p Hp) as [_ Cn]. pose proof (rng2_at _ _ _ _ R Hp) as Rp.
  cbn [i_next]. rewrite iter_S. unfold Gen.Map_next_loop1 at 1. rewrite get_ok by exact Hp. cbn [IMapBase.bind].
  destruct (n_st (nd mh p)) eqn:Es.
  { im_run0. cbn [nx_rel fst snd]. eexists. split; reflexivity. }
  all: pose proof (rng2_dec _ _ _ _ R Hp) as R1.
  all: assert (C1 : closed (upd mh p (set_ref (n_ref (nd mh p) - 1)))) by (apply closed_set_ref; exact C).
  all: im_run0; rewrite (i64_small (n_ref (nd mh p) - 1)) by lia; im_run0; nd_same; im_run0.
  (* rlOk: step to the successor *)
  1: { destruct (n_next (nd mh p)) as [q|] eqn:Eq; cbn [inb] in Cn; im_run0; [|reflexivity].
       pose proof (R1 q ltac:(len_side)) as Rq.
       rewrite (i64_small (n_ref (nd (upd mh p (set_ref (n_ref (nd mh p) - 1))) q) + 1)) by lia.
       set (h1 := upd mh p (set_ref (n_ref (nd mh p) - 1))) in *.
       assert (L1 : length h1 = length mh) by apply length_upd.
       set (h3 := upd h1 q (set_ref (n_ref (nd h1 q) + 1))).
       assert (L3 : length h3 = length mh) by (unfold h3; rewrite length_upd; exact L1).
       destruct (n_st (nd h1 q)) eqn:Es3; im_run0; cbn [nx_rel fst snd]; try (eexists; split; reflexivity).
       specialize (IH gf vs lst h3 hd pl q lo hi Hf').
       apply IH;
         try (apply cwf_intro; rewrite ?L3; try assumption; apply closed_set_ref; exact C1);
         try (rewrite L3; exact Cn); try (apply rng_inc; [exact R1|rewrite L1; exact Cn]); lia. }
  (* rlDeleted *)
  destruct (n_ref (nd mh p) - 1 <=? 0) eqn:Er; im_run0.
  - (* drop the node *)
    set (h1 := upd mh p (set_ref (n_ref (nd mh p) - 1))) in *.
    assert (L1 : length h1 = length mh) by apply length_upd.
    pose proof (gen_delete_refines lg pl h1 p C1 ltac:(rewrite L1; exact Hp)) as Ed.
    call_with Ed.
    destruct (n_delete h1 p) as [[h2 nh]| |] eqn:Edm; cbn [lift IMapBase.bind fst snd nx_rel]; [|reflexivity|exact I].
    destruct (n_delete_pres h1 p h2 nh C1 ltac:(rewrite L1; exact Hp) Edm) as [[C2 S2] Inh].
    pose proof (proj1 S2) as L2. rewrite L1 in L2, Inh.
    destruct nh as [nh|]; im_run0; gm_cbn; cbn [retarget inb] in *; im_put.
    all: destruct (n_next (nd mh p)) as [q|] eqn:Eq; cbn [inb] in Cn; im_run0; [|reflexivity].
    all: pose proof (rng_same _ _ _ _ S2 R1 q ltac:(rewrite L2; exact Cn)) as Rq.
    all: rewrite (i64_small (n_ref (nd h2 q) + 1)) by lia.
    all: set (h3 := upd h2 q (set_ref (n_ref (nd h2 q) + 1))).
    all: assert (L3 : length h3 = length mh) by (unfold h3; rewrite length_upd; exact L2).
    all: destruct (n_st (nd h2 q)) eqn:Es3; im_run0; cbn [nx_rel fst snd]; try (eexists; split; reflexivity).
    + specialize (IH gf vs lst h3 nh (p :: pl) q lo hi Hf').
      apply IH;
        try (apply cwf_intro; rewrite ?L3; [apply closed_set_ref; exact C2|assumption|constructor; assumption]);
        try (rewrite L3; exact Cn);
        try (apply rng_inc; [eapply rng_same; [exact S2|exact R1]|rewrite L2; exact Cn]); lia.
    + specialize (IH gf vs lst h3 hd (p :: pl) q lo hi Hf').
      apply IH;
        try (apply cwf_intro; rewrite ?L3; [apply closed_set_ref; exact C2|assumption|constructor; assumption]);
        try (rewrite L3; exact Cn);
        try (apply rng_inc; [eapply rng_same; [exact S2|exact R1]|rewrite L2; exact Cn]); lia.
  - (* keep it: step to the successor *)
    destruct (n_next (nd mh p)) as [q|] eqn:Eq; cbn [inb] in Cn; im_run0; [|reflexivity].
    pose proof (R1 q ltac:(len_side)) as Rq.
    rewrite (i64_small (n_ref (nd (upd mh p (set_ref (n_ref (nd mh p) - 1))) q) + 1)) by lia.
    set (h1 := upd mh p (set_ref (n_ref (nd mh p) - 1))) in *.
    assert (L1 : length h1 = length mh) by apply length_upd.
    set (h3 := upd h1 q (set_ref (n_ref (nd h1 q) + 1))).
    assert (L3 : length h3 = length mh) by (unfold h3; rewrite length_upd; exact L1).
    destruct (n_st (nd h1 q)) eqn:Es3; im_run0; cbn [nx_rel fst snd]; try (eexists; split; reflexivity).
    specialize (IH gf vs lst h3 hd pl q lo hi Hf').
    apply IH;
      try (apply cwf_intro; rewrite ?L3; try assumption; apply closed_set_ref; exact C1);
      try (rewrite L3; exact Cn); try (apply rng_inc; [exact R1|rewrite L1; exact Cn]); lia.
Qed.


(* a walking function of the map against its model: same outcome, same pointer, the record with the model's head *)
Definition wk_rel (vs : gomap) (lst : Z) (r : res (core * nat)) (o : outcome ((Gen.Map * Z) * heap)) : Prop :=
  match r with
  | IMapBase.Ok (c', p') => o = Ok ((gm vs (snd (fst c')) lst, ptr p'), gheap lg (snd c') (fst (fst c')))
  | IMapBase.Panic => o = GoPanic
  | IMapBase.NoFuel => True
  end.

Theorem gen_next_refines vs lst mh hd pl p lo hi :
  cwf (mh, hd, pl) -> (p < length mh)%nat -> rng2 lo hi p mh -> - 2 ^ 62 <= lo -> hi <= 2 ^ 62 ->
  wk_rel vs lst (i_next (fuel_of mh) (mh, hd, pl) p)
    (Gen.Map_next pool_Put (gm vs hd lst) (ptr p) (gheap lg pl mh)).
Proof.
  intros W Hp R Hlo Hhi.
  pose proof (gen_next_loop (fuel_of mh) (S (length (gheap lg pl mh))) vs lst mh hd pl p lo hi
                ltac:(rewrite length_gheap; unfold fuel_of; lia) W Hp R Hlo Hhi) as L.
  unfold Gen.Map_next. unfold bind at 1. rewrite iter_objs_eq.
  destruct (i_next (fuel_of mh) (mh, hd, pl) p) as [[c' p']| |]; cbn [nx_rel wk_rel] in *; [| |exact I].
  - destruct L as (c & -> & U). destruct c as [[im q]|[im q]]; cbn [unctl] in U; injection U as -> ->; reflexivity.
  - rewrite L. reflexivity.
Qed.

Theorem gen_getValue_refines vs lst mh hd pl p lo hi :
  cwf (mh, hd, pl) -> (p < length mh)%nat -> rng2 lo hi p mh -> - 2 ^ 62 <= lo -> hi <= 2 ^ 62 ->
  wk_rel vs lst (i_getvalue (mh, hd, pl) p)
    (Gen.Map_getValue pool_Put (gm vs hd lst) (ptr p) (gheap lg pl mh)).
Proof.
  intros W Hp R Hlo Hhi. pose proof (gen_next_refines vs lst mh hd pl p lo hi W Hp R Hlo Hhi) as N.
  unfold Gen.Map_getValue, i_getvalue. cbn [fst]. destruct W as (C & Hhd & Hpl).
  destruct (n_st (nd mh p)) eqn:Es; im_run0; cbn [wk_rel fst snd]; try reflexivity.
  destruct (i_next (fuel_of mh) (mh, hd, pl) p) as [[c' p']| |]; cbn [wk_rel] in *; [| |exact I].
  - call_with N. reflexivity.
  - call_with N. reflexivity.
Qed.

Theorem gen_release_refines vs lst mh hd pl p B :
  cwf (mh, hd, pl) -> (p < length mh)%nat -> refs_in B mh -> B <= 2 ^ 62 ->
  Gen.Map_release pool_Put (gm vs hd lst) (ptr p) (gheap lg pl mh) =
  lift (i_release (mh, hd, pl) p)
       (fun c' => Ok (gm vs (snd (fst c')) lst, gheap lg (snd c') (fst (fst c')))).
Proof.
  rewrite two62. intros (C & Hhd & Hpl) Hp R HB. pose proof (R p Hp) as Rp.
  assert (C1 : closed (upd mh p (set_ref (n_ref (nd mh p) - 1)))) by (apply closed_set_ref; exact C).
  unfold Gen.Map_release, i_release. im_run0. rewrite (i64_small (n_ref (nd mh p) - 1)) by lia. im_run0.
  destruct (n_st (nd mh p)) eqn:Es; im_run0; try reflexivity.
  set (h1 := upd mh p (set_ref (n_ref (nd mh p) - 1))) in *.
  assert (L1 : length h1 = length mh) by apply length_upd.
  pose proof (gen_delete_refines lg pl h1 p C1 ltac:(rewrite L1; exact Hp)) as Ed. call_with Ed.
  destruct (n_delete h1 p) as [[h2 nh]| |] eqn:Edm; cbn [lift IMapBase.bind fst snd]; try reflexivity.
  destruct (n_delete_pres h1 p h2 nh C1 ltac:(rewrite L1; exact Hp) Edm) as [[C2 S2] Inh].
  pose proof (proj1 S2) as L2. rewrite L1 in L2.
  assert (Hp2 : (p < length h2)%nat) by (rewrite L2; exact Hp).
  destruct nh as [nh|]; im_run0; gm_cbn; im_run0.
  all: destruct (n_ref (nd h2 p) =? 0) eqn:Er; im_run0; try im_put; reflexivity.
Qed.

End Walk.

Print Assumptions gen_next_loop.
Print Assumptions gen_next_refines.
Print Assumptions gen_getValue_refines.
Print Assumptions gen_release_refines.
