(** C12 tie, headline: [C12_idx_inv] (Properties/C12.v) restated over the [futures] methods generated from /repo/timeout/timeout.go, driven by an arbitrary sequence of heap.Interface calls. *)
From Coq Require Import List ZArith NArith Bool Lia.
From GL Require Import lib.GoLite model.THeap proofs.C12_THeap.
From GLGEN Require Import TM_GenVocab Gen_timeout C12_GenFn_less C12_GenFn_swap C12_GenFn_push C12_GenFn_pop.
Import ListNotations.
Open Scope Z_scope.

(** * C12_idx_inv over the generated methods

    [gen_run] drives the generated methods by an arbitrary sequence of the
    calls a client of [heap.Interface] can make (container/heap itself is not
    translated: heap.Push / Pop / Remove / Fix are such sequences, and the
    model's transcription of them is proved to be one in proofs/C12_THeap.v
    at the level of [prim_run]'s steps [f_swap / f_push / f_pop / f_less]). *)

Definition gstate := (gslice * heap)%type.

Definition gen_step (st : gstate) (p : prim) : outcome gstate :=
  let '(fs, h) := st in
  match p with
  | PSwap i j => match Gen.futures_Swap fs i j h with
                 | Ok (_, h') => Ok (fs, h') | GoPanic => GoPanic | NoFuel => NoFuel end
  | PPush x => Gen.futures_Push fs (ptr x) h
  | PPop => match Gen.futures_Pop fs h with
            | Ok ((fs', _), h') => Ok (fs', h') | GoPanic => GoPanic | NoFuel => NoFuel end
  | PLess i j => match Gen.futures_Less before fs i j h with
                 | Ok (_, h') => Ok (fs, h') | GoPanic => GoPanic | NoFuel => NoFuel end
  | PLen => let _ := Gen.futures_Len fs in Ok (fs, h)
  end.

Fixpoint gen_run (st : gstate) (ps : list prim) : outcome gstate :=
  match ps with
  | [] => Ok st
  | p :: t => match gen_step st p with
              | Ok st' => gen_run st' t | GoPanic => GoPanic | NoFuel => NoFuel end
  end.

(* the invariant of a run: representation, no nil slot, idx = position *)
Definition inv (D : list fid) (st : gstate) (m : fheap) : Prop :=
  rel D (snd st) (fst st) m /\ incl (arr m) D /\ idx_ok m.

Lemma incl_removelast (l : list fid) D : incl l D -> incl (removelast l) D.
Proof. intros S y Hy. apply S. apply In_removelast. exact Hy. Qed.

Lemma gen_step_sim D st m p m' :
  inv D st m -> Z.of_nat (length D) + 1 < 9223372036854775808 ->
  (forall x, p = PPush x -> In x D) ->
  prim_step m p = Some m' ->
  exists st', gen_step st p = Ok st' /\ inv D st' m'.
Proof.
  intros (R & S & Hok) HD Hp Hs. destruct st as [fs h]. cbn [fst snd] in R.
  destruct p as [i j|x| |i j|]; cbn [prim_step] in Hs; unfold gen_step.
  - destruct (in_range m i && in_range m j) eqn:Hr; [|discriminate Hs]. injection Hs as <-.
    apply andb_prop in Hr. destruct Hr as [Hi Hj].
    destruct (post_elim _ _ (gen_swap D h fs m i j R S Hi Hj)) as (u & h' & -> & R').
    eexists. split; [reflexivity|]. split; [exact R'|]. split.
    + intros y Hy. apply S. apply (swap_In m i j y). exact Hy.
    + apply swap_idx_ok. exact Hok.
  - destruct (existsb (N.eqb x) (arr m)) eqn:Hex; [discriminate Hs|]. injection Hs as <-.
    assert (Hx : In x D) by (apply Hp; reflexivity).
    assert (Hlen : s_len fs + 1 < 9223372036854775808).
    { rewrite (rel_len _ _ _ _ R). unfold f_len.
      pose proof (NoDup_incl_length (idx_ok_nodup m Hok) S). lia. }
    destruct (post_elim _ _ (gen_push D h fs m x R S Hx Hlen)) as (fs' & h' & -> & R').
    eexists. split; [reflexivity|]. split; [exact R'|]. split.
    + exact (incl_app m x D S Hx).
    + apply push_idx_ok; [exact Hok|]. intros Hin.
      assert (existsb (N.eqb x) (arr m) = true) by (apply existsb_exists; exists x; split; [exact Hin|apply N.eqb_refl]).
      congruence.
  - assert (Hne : arr m <> []) by (intros Ea; rewrite Ea in Hs; discriminate Hs).
    assert (m' = fst (f_pop m)) as -> by (destruct (arr m); [contradiction|injection Hs as <-; reflexivity]).
    clear Hs.
    destruct (post_elim _ _ (gen_pop D h fs m R S Hne)) as ([fs' r] & h' & -> & _ & R').
    eexists. split; [reflexivity|]. cbn [fst snd] in *. split; [exact R'|]. split.
    + rewrite (pop_spec m Hne). cbn [fst arr]. apply incl_removelast. exact S.
    + apply pop_idx_ok. exact Hok.
  - destruct (in_range m i && in_range m j) eqn:Hr; [|discriminate Hs]. injection Hs as <-.
    apply andb_prop in Hr. destruct Hr as [Hi Hj].
    rewrite (gen_less D h fs m i j R S Hi Hj).
    eexists. split; [reflexivity|]. split; [exact R|]. split; assumption.
  - injection Hs as <-. eexists. split; [reflexivity|]. split; [exact R|]. split; assumption.
Qed.

Theorem gen_run_sim : forall ps D st m m',
  inv D st m -> Z.of_nat (length D) + 1 < 9223372036854775808 ->
  (forall x, In (PPush x) ps -> In x D) ->
  prim_run m ps = Some m' ->
  exists st', gen_run st ps = Ok st' /\ inv D st' m'.
Proof.
  induction ps as [|p t IH]; intros D st m m' I HD Hp Hr; cbn [prim_run] in Hr.
  - injection Hr as <-. exists st. split; [reflexivity|exact I].
  - destruct (prim_step m p) as [m1|] eqn:Hs; [|discriminate Hr].
    destruct (gen_step_sim D st m p m1 I HD) as (st1 & E1 & I1); [|exact Hs|].
    { intros x ->. apply Hp. left. reflexivity. }
    cbn [gen_run]. rewrite E1. apply (IH D st1 m1 m' I1 HD); [|exact Hr].
    intros x Hx. apply Hp. right. exact Hx.
Qed.

(* what [inv] says about the Go heap: the future in slot k has idx = k, an
   allocated future that is not in the slice has idx = -1 *)
Definition heap_idx_ok (D : list fid) (st : gstate) : Prop :=
  let '(fs, h) := st in
  (forall k, 0 <= k < s_len fs ->
     0 < znth (sl_get h fs) k /\ nth 2 (arr_get h (obj_arr (znth (sl_get h fs) k))) 0 = k) /\
  (forall x, In x D -> ~ In (ptr x) (sl_get h fs) -> nth 2 (arr_get h (oarr x)) 0 = -1).

Lemma inv_heap_idx_ok D st m : inv D st m -> heap_idx_ok D st.
Proof.
  destruct st as [fs h]. intros (R & S & Hin & Hout). cbn [fst snd] in R. split.
  - intros k Hk. rewrite (rel_nth _ _ _ _ k R).
    pose proof (rel_in _ _ _ _ k R S Hk) as F. split; [exact (rel_nz _ _ _ _ _ R F)|].
    rewrite (rel_fld2 _ _ _ _ _ R F). rewrite aget_anth, Hin; [lia|].
    pose proof (rel_len _ _ _ _ R) as L. unfold f_len in L. lia.
  - intros x Hx Hn. rewrite (rel_fld2 _ _ _ _ _ R Hx). apply Hout.
    intros Hi. apply Hn. destruct R as (_ & A & _). rewrite A. apply in_map. exact Hi.
Qed.

(** the headline: C12_idx_inv (Properties/C12.v), restated over the generated
    methods *)
Theorem gen_idx_inv : forall ps D fs h m m',
  rel D h fs m -> incl (arr m) D -> idx_ok m ->
  Z.of_nat (length D) + 1 < 9223372036854775808 ->
  (forall x, In (PPush x) ps -> In x D) ->
  prim_run m ps = Some m' ->
  exists st', gen_run (fs, h) ps = Ok st' /\ rel D (snd st') (fst st') m' /\ idx_ok m' /\ heap_idx_ok D st'.
Proof.
  intros ps D fs h m m' R S Hok HD Hp Hr.
  destruct (gen_run_sim ps D (fs, h) m m') as (st' & E & I); try assumption.
  { split; [exact R|]. split; assumption. }
  exists st'. split; [exact E|]. split; [exact (proj1 I)|]. split; [exact (proj2 (proj2 I))|].
  exact (inv_heap_idx_ok D st' m' I).
Qed.

(** non-vacuity: the empty slice over a heap of three allocated futures, and
    the run of Properties/C12.v's [C12_ex_prims] *)
Definition h0 : heap := [[1; 10; -1]; [1; 20; -1]; [1; 30; -1]; []].
Definition fs0 : gslice := mkSl 3 0 0 0.
Definition m0 : fheap := mkHeap [] [(1%N, mkFut 10 (-1) true); (2%N, mkFut 20 (-1) true); (3%N, mkFut 30 (-1) true)] false.

Lemma rel0 : rel [1%N; 2%N; 3%N] h0 fs0 m0.
Proof.
  split; [unfold wf_slice; cbn; lia|]. split; [reflexivity|]. split; [intros x []|].
  intros x [<-|[<-|[<-|[]]]]; (split; [discriminate|]); (split; [cbn; lia|]); (split; [cbn; lia|]);
    eexists; reflexivity.
Qed.

Example gen_ex_run :
  match gen_run (fs0, h0) [PPush 1%N; PPush 2%N; PPush 3%N; PSwap 0 2; PLess 0 1; PPop; PLen] with
  | Ok (fs, h) => sl_get h fs = [3; 2] /\ arr_get h 0 = [1; 10; -1] /\ arr_get h 1 = [1; 20; 1] /\ arr_get h 2 = [1; 30; 0]
  | _ => False
  end.
Proof. vm_compute. repeat split. Qed.

Print Assumptions gen_run_sim.
Print Assumptions gen_idx_inv.
Print Assumptions gen_ex_run.
