(** C15/C16, translator tie for the functions of xbinary/xbinary.go.

    [Gen_xbinary_fn.v] is produced by harness/cmd/go2coq from the Go source on
    every run.  This file proves that every generated function refines the
    hand-written model coq/model/XBinary.v (the model all C15/C16 theorems are
    about) and restates the headline theorems directly over the generated
    functions.  The proofs use the characterising lemmas of coq/lib/GoLite.v,
    one [destruct] per condition and [lia]; they do not mention generated
    variable names. *)
From Coq Require Import List NArith ZArith Arith Lia Bool.
From Coq Require Import ZifyBool ZifyN ZifyNat.
From GL Require Import lib.GoLite model.XBinary proofs.C15_XBinary.
From GLGEN Require Import Gen_xbinary_fn.
Import ListNotations.
Open Scope Z_scope.
Ltac Zify.zify_post_hook ::= Z.div_mod_to_equations.

(** * Vocabulary shared by the statements *)

Definition zs (l : list N) : list Z := map Z.of_N l.
Definition ns (l : list Z) : list N := map Z.to_N l.
Definition byte_list (l : list Z) : Prop := Forall (fun b => 0 <= b < 256) l.

Definition err_of (w : wres) : error := match w with WOk => ENil | _ => Err end.

(* what a Marshal function does according to the model result r: it returns
   (n, err) and has stored the bytes [snd r] at the front of buf; nothing else
   in the heap changes *)
Definition wr_result (r : wres * list N) (h : heap) (buf : gslice) : outcome ((Z * error) * heap) :=
  Ok ((Z.of_nat (w_n r), err_of (fst r)), sl_put h buf 0 (zs (snd r))).

(* what a scalar Unmarshal function does according to the model result *)
Definition rd_result (r : dres N) (h : heap) : outcome ((Z * Z * error) * heap) :=
  match r with
  | DOk n v => Ok ((Z.of_nat n, Z.of_N v, ENil), h)
  | DErr => Ok ((0, 0, Err), h)
  | DPanic => GoPanic
  end.

Lemma zs_ns l : byte_list l -> zs (ns l) = l.
Proof.
  unfold zs, ns. induction 1 as [|b t Hb _ IH]; [reflexivity|].
  cbn [map]. rewrite IH. f_equal. lia.
Qed.

Lemma length_ns l : length (ns l) = length l.
Proof. apply map_length. Qed.
Lemma length_zs l : length (zs l) = length l.
Proof. apply map_length. Qed.
Lemma zlen_zs l : zlen (zs l) = Z.of_nat (length l).
Proof. unfold zlen. rewrite length_zs. reflexivity. Qed.

Lemma nth_ns l i : nth i (ns l) 0%N = Z.to_N (nth i l 0).
Proof. unfold ns. apply (map_nth Z.to_N l 0 i). Qed.

Ltac go_ret := unfold ret.

(** * Fixed width *)

Theorem gen_MarshalByte_refines : forall h buf v, wf_slice h buf -> 0 <= v ->
  Gen.MarshalByte v buf h = wr_result (marshal_byte (Z.to_N v) (Z.to_nat (s_len buf))) h buf.
Proof.
  intros h buf v W Hv. unfold Gen.MarshalByte, marshal_byte, wr_result.
  repeat match goal with |- context [if ?c then _ else _] => destruct c eqn:? end; try lia.
  - go_ret. cbn [fst snd w_n err_of zs map]. rewrite sl_put_nil by exact W. reflexivity.
  - go_step. go_ret. cbn [fst snd w_n err_of zs map length]. do 4 f_equal. lia.
Qed.

Lemma byte_list_nonneg l : byte_list l -> Forall (fun b => 0 <= b) l.
Proof. apply Forall_impl. intros; lia. Qed.

Lemma zs_ns_nonneg l : Forall (fun b => 0 <= b) l -> zs (ns l) = l.
Proof.
  unfold zs, ns. induction 1 as [|b t Hb _ IH]; [reflexivity|].
  cbn [map]. rewrite IH. f_equal. lia.
Qed.

Theorem gen_UnmarshalByte_refines : forall h buf, wf_slice h buf -> byte_list (sl_get h buf) ->
  Gen.UnmarshalByte buf h = rd_result (unmarshal_byte (ns (sl_get h buf))) h.
Proof.
  intros h buf W Hb. pose proof (sl_get_len h buf W) as L.
  unfold Gen.UnmarshalByte, unmarshal_byte, rd_result.
  destruct (sl_get h buf) as [|b t] eqn:E; unfold zlen in L; cbn [length ns map] in *;
    repeat match goal with |- context [if ?c then _ else _] => destruct c eqn:? end; try lia.
  - reflexivity.
  - go_step. rewrite E. go_ret. unfold znth. cbn [Z.to_nat nth].
    inversion Hb; subst. do 3 f_equal. f_equal. lia.
Qed.

(* encoding/binary.BigEndian as modelled in GoLite = the model's put_be/get_be *)
Lemma be_bytes_put k v : 0 <= v -> be_bytes k v = zs (put_be k (Z.to_N v)).
Proof.
  intros Hv. induction k as [|k IH]; [reflexivity|].
  cbn [be_bytes put_be zs map]. fold (zs (put_be k (Z.to_N v))). rewrite <- IH. f_equal.
  rewrite N2Z.inj_mod, N2Z_shiftr, N2Z.inj_mul, nat_N_Z, Z2N.id by exact Hv. reflexivity.
Qed.

Lemma be_val_get l : Forall (fun b => 0 <= b) l -> be_val l = Z.of_N (get_be (ns l)).
Proof.
  induction 1 as [|b t Hb _ IH]; [reflexivity|].
  cbn [be_val get_be ns map]. fold (ns t). rewrite N2Z_lor, N2Z_shiftl, <- IH.
  rewrite N2Z.inj_mul, nat_N_Z, length_ns, Z2N.id by exact Hb. reflexivity.
Qed.

Lemma firstn_ns k l : firstn k (ns l) = ns (firstn k l).
Proof. unfold ns. apply firstn_map. Qed.

Lemma Forall_firstn_z {P : Z -> Prop} k l : Forall P l -> Forall P (firstn k l).
Proof.
  revert l. induction k as [|k IH]; intros l H; [constructor|].
  destruct H as [|b t Hb Ht]; [constructor|]. cbn [firstn]. constructor; [exact Hb|apply IH; exact Ht].
Qed.

Ltac fixed_marshal W :=
  unfold marshal_fixed, wr_result;
  repeat match goal with |- context [if ?c then _ else _] => destruct c eqn:? end; try lia;
  [ go_ret; cbn [fst snd w_n err_of zs map]; rewrite sl_put_nil by exact W; reflexivity
  | go_step; go_ret; cbn [fst snd w_n err_of]; rewrite put_be_length, be_bytes_put by assumption; reflexivity ].

Theorem gen_MarshalUint16_refines : forall h buf v, wf_slice h buf -> 0 <= v ->
  Gen.MarshalUint16 v buf h = wr_result (marshal_fixed 2 (Z.to_N v) (Z.to_nat (s_len buf))) h buf.
Proof. intros h buf v W Hv. unfold Gen.MarshalUint16. fixed_marshal W. Qed.

Theorem gen_MarshalUint32_refines : forall h buf v, wf_slice h buf -> 0 <= v ->
  Gen.MarshalUint32 v buf h = wr_result (marshal_fixed 4 (Z.to_N v) (Z.to_nat (s_len buf))) h buf.
Proof. intros h buf v W Hv. unfold Gen.MarshalUint32. fixed_marshal W. Qed.

Theorem gen_MarshalUint64_refines : forall h buf v, wf_slice h buf -> 0 <= v ->
  Gen.MarshalUint64 v buf h = wr_result (marshal_fixed 8 (Z.to_N v) (Z.to_nat (s_len buf))) h buf.
Proof. intros h buf v W Hv. unfold Gen.MarshalUint64. fixed_marshal W. Qed.

Ltac fixed_unmarshal W Hb :=
  let L := fresh "L" in
  pose proof (sl_get_len _ _ W) as L; unfold zlen in L;
  unfold unmarshal_fixed, rd_result; rewrite length_ns;
  repeat match goal with |- context [if ?c then _ else _] => destruct c eqn:? end; try lia;
  [ reflexivity
  | go_step; go_ret; rewrite firstn_ns, be_val_get by (apply Forall_firstn_z, byte_list_nonneg, Hb);
    reflexivity ].

Theorem gen_UnmarshalUint16_refines : forall h buf, wf_slice h buf -> byte_list (sl_get h buf) ->
  Gen.UnmarshalUint16 buf h = rd_result (unmarshal_fixed 2 (ns (sl_get h buf))) h.
Proof. intros h buf W Hb. unfold Gen.UnmarshalUint16. fixed_unmarshal W Hb. Qed.

Theorem gen_UnmarshalUint32_refines : forall h buf, wf_slice h buf -> byte_list (sl_get h buf) ->
  Gen.UnmarshalUint32 buf h = rd_result (unmarshal_fixed 4 (ns (sl_get h buf))) h.
Proof. intros h buf W Hb. unfold Gen.UnmarshalUint32. fixed_unmarshal W Hb. Qed.

Theorem gen_UnmarshalUint64_refines : forall h buf, wf_slice h buf -> byte_list (sl_get h buf) ->
  Gen.UnmarshalUint64 buf h = rd_result (unmarshal_fixed 8 (ns (sl_get h buf))) h.
Proof. intros h buf W Hb. unfold Gen.UnmarshalUint64. fixed_unmarshal W Hb. Qed.

(** * Variable-length uint: MarshalUint *)

(* bit operations of the two sides as arithmetic *)
Lemma N_land127 v : N.land v 127 = (v mod 128)%N.
Proof. exact (land127 v). Qed.

Lemma Z_to_N_shr7 v : 0 <= v -> Z.to_N (shr v 7) = N.shiftr (Z.to_N v) 7.
Proof.
  intros Hv. unfold shr. apply N2Z.inj. rewrite N2Z_shiftr, !Z2N.id; try lia.
  - reflexivity.
  - rewrite Z.shiftr_div_pow2 by lia. apply Z.div_pos; lia.
Qed.

(* 128 | byte(v & 127) on both sides *)
Lemma cont_byte v : 0 <= v ->
  Z.lor 128 (u8 (Z.land v 127)) = Z.of_N (N.lor 128 (N.land (Z.to_N v) 127)).
Proof.
  intros Hv. rewrite N2Z_lor, N2Z_land, Z2N.id by exact Hv.
  change (Z.of_N 128) with 128. change (Z.of_N 127) with 127.
  rewrite u8_small; [reflexivity|]. rewrite zland127. lia.
Qed.

(* what the loop of MarshalUint does from the state (v, idx), by induction on
   the fuel of the model; the fuel of the generated loop only has to exceed the
   room that is left *)
Lemma gen_MarshalUint_loop : forall mf buf f v idx h,
  wf_slice h buf -> 0 <= idx <= s_len buf -> 0 <= v ->
  (Z.to_nat (s_len buf - idx) < f)%nat ->
  fst (marshal_uint_go mf (Z.to_N v) (Z.to_nat (s_len buf - idx))) <> WFuel ->
  iter f (Gen.MarshalUint_loop1 buf) (v, idx) h =
  let r := marshal_uint_go mf (Z.to_N v) (Z.to_nat (s_len buf - idx)) in
  Ok ((match fst r with WOk => idx + zlen (snd r) | _ => 0 end, err_of (fst r)),
      sl_put h buf idx (zs (snd r))).
Proof.
  induction mf as [|mf IH]; intros buf f v idx h W Hidx Hv Hf Hne.
  - cbn in Hne. congruence.
  - destruct f as [|f]; [lia|]. rewrite iter_S. unfold Gen.MarshalUint_loop1 at 1.
    cbn [marshal_uint_go] in *.
    pose proof W as (Wa & Wo & Wl & Wc & Wm).
    destruct (Z.to_nat (s_len buf - idx)) as [|room] eqn:Eroom; go_run;
    lazymatch goal with
         | |- iter _ _ _ _ = _ =>
             (* a continuation byte was stored; the rest by induction *)
             go_unwrap;
             assert (Hv' : 0 <= shr v 7)
               by (unfold shr; rewrite Z.shiftr_div_pow2 by lia; apply Z.div_pos; lia);
             assert (Er : Z.to_nat (s_len buf - (idx + 1)) = room) by lia;
             match goal with |- iter _ _ _ ?h' = _ =>
               assert (W' : wf_slice h' buf)
                 by (apply wf_slice_put; [exact W|lia|unfold zlen; cbn [length]; lia|exact W])
             end;
             specialize (IH buf f (shr v 7) (idx + 1) _ W' ltac:(lia) Hv' ltac:(lia));
             rewrite Er, Z_to_N_shr7 in IH by exact Hv;
             destruct (marshal_uint_go mf (N.shiftr (Z.to_N v) 7) room) as [st bs] eqn:Em;
             cbn [fst snd] in *; rewrite IH by exact Hne; cbn [zs map]; fold (zs bs);
             rewrite <- cont_byte by exact Hv;
             match goal with |- context [sl_put (sl_put h buf idx [?x]) buf (idx + 1) ?d] =>
               replace (idx + 1) with (idx + zlen [x]) by reflexivity;
               rewrite (sl_put_put_adj h buf idx [x] d W) by (unfold zlen; cbn [length]; lia)
             end;
             cbn [app]; f_equal; f_equal; f_equal;
             destruct st; try reflexivity; unfold zlen; cbn [length]; lia
         | |- _ =>
             (* the loop ended here: buffer exhausted, or the last byte stored *)
             unfold ret; go_unwrap; cbn [fst snd err_of zs map];
             rewrite ?(sl_put_nil h buf idx W); rewrite ?u8_small, ?Z2N.id by lia;
             unfold zlen; cbn [length]; reflexivity
         end.
Qed.

Lemma marshal_uint_no_fuel v room : (v < 2^64)%N -> fst (marshal_uint v room) <> WFuel.
Proof.
  intros Hv. rewrite (marshal_uint_buffer v room Hv).
  destruct (room <? length (enc_uint v))%nat; cbn [fst]; congruence.
Qed.

Theorem gen_MarshalUint_refines : forall h buf v, wf_slice h buf -> 0 <= v < 2^64 ->
  Gen.MarshalUint v buf h = wr_result (marshal_uint (Z.to_N v) (Z.to_nat (s_len buf))) h buf.
Proof.
  intros h buf v W Hv. pose proof W as (Wa & Wo & Wl & Wc & Wm).
  assert (HvN : (Z.to_N v < 2^64)%N) by (change (2^64)%N with 18446744073709551616%N; lia).
  pose proof (marshal_uint_no_fuel (Z.to_N v) (Z.to_nat (s_len buf)) HvN) as Hne.
  unfold Gen.MarshalUint. cbv beta iota zeta.
  match goal with |- iter ?f _ _ _ = _ =>
    pose proof (gen_MarshalUint_loop 10 buf f v 0 h W ltac:(lia) ltac:(lia)) as L
  end.
  rewrite Z.sub_0_r in L. fold (marshal_uint (Z.to_N v) (Z.to_nat (s_len buf))) in L.
  rewrite L by (try exact Hne; lia). unfold wr_result, w_n.
  destruct (marshal_uint (Z.to_N v) (Z.to_nat (s_len buf))) as [st bs]. cbn [fst snd].
  repeat f_equal. destruct st; try reflexivity; rewrite zlen_zs; lia.
Qed.
Print Assumptions gen_MarshalUint_refines.

(** * Variable-length uint: UnmarshalUint *)

(* uint(x) << s as modelled in GoLite = the model's shl64 *)
Lemma shl_u64_N x s : 0 <= x -> 0 <= s ->
  shl u64 64 x s = Z.of_N (shl64 (Z.to_N x) (Z.to_N s)).
Proof.
  intros Hx Hs. unfold shl, shl64.
  destruct (Z.leb_spec 64 s); destruct (N.leb_spec 64 (Z.to_N s)); try lia.
  unfold u64, two64. rewrite N2Z.inj_mod, N2Z_shiftl, !Z2N.id by lia. reflexivity.
Qed.

(* res | uint(b&127) << shft on both sides *)
Lemma acc_byte res b shft : 0 <= res -> 0 <= shft -> 0 <= b ->
  Z.lor res (shl u64 64 (u64 (Z.land b 127)) shft) =
  Z.of_N (N.lor (Z.to_N res) (shl64 (N.land (Z.to_N b) 127) (Z.to_N shft))).
Proof.
  intros Hr Hs Hb.
  assert (Hm : 0 <= Z.land b 127 < 128) by (rewrite zland127; lia).
  rewrite u64_small by lia. rewrite shl_u64_N by lia.
  rewrite N2Z_lor, Z2N.id by lia. do 3 f_equal.
  apply N2Z.inj. rewrite N2Z_land, !Z2N.id by lia. reflexivity.
Qed.

Lemma skipn_cons_nth (l : list N) i b tl : skipn i l = b :: tl ->
  nth i l 0%N = b /\ skipn (S i) l = tl /\ (i < length l)%nat.
Proof.
  revert l. induction i as [|i IH]; intros l H.
  - destruct l; [discriminate|]. cbn in H. injection H as -> ->. cbn. repeat split. lia.
  - destruct l as [|x t]; [discriminate|]. cbn [skipn] in H.
    destruct (IH t H) as (A & B & C). cbn [nth skipn length]. repeat split; [exact A|exact B|lia].
Qed.

Lemma skipn_nil_len (l : list N) i : skipn i l = [] -> (length l <= i)%nat.
Proof.
  revert l. induction i as [|i IH]; intros l H.
  - cbn in H. subst. cbn. lia.
  - destruct l as [|x t]; [cbn; lia|]. cbn [skipn length] in *. apply IH in H. lia.
Qed.

Lemma byte_list_znth l i : byte_list l -> 0 <= i < zlen l -> 0 <= znth l i < 256.
Proof.
  intros Hb Hi. unfold znth, zlen, byte_list in *.
  rewrite Forall_forall in Hb. apply Hb. apply nth_In. lia.
Qed.

(* the loop of UnmarshalUint from the state (res, idx, shft); rest is the
   unread input.  The shift counter is a uint in Go and an unbounded N in the
   model: they agree as long as 7*len(buf) < 2^64. *)
Lemma gen_UnmarshalUint_loop : forall rest buf f res idx shft h,
  wf_slice h buf -> byte_list (sl_get h buf) ->
  0 <= idx <= s_len buf -> rest = skipn (Z.to_nat idx) (ns (sl_get h buf)) ->
  0 <= res -> 0 <= shft -> shft + 7 * (s_len buf - idx) < 18446744073709551616 ->
  (length rest < f)%nat ->
  iter f (Gen.UnmarshalUint_loop1 buf) (res, idx, shft) h =
  rd_result (unmarshal_uint_go rest (Z.to_N res) (Z.to_N shft) (Z.to_nat idx)) h.
Proof.
  induction rest as [|b tl IH]; intros buf f res idx shft h W Hb Hidx Hrest Hres Hshft Hsh Hf;
    pose proof W as (Wa & Wo & Wl & Wc & Wm); pose proof (sl_get_len h buf W) as L;
    (destruct f as [|f]; [cbn [length] in Hf; lia|]); rewrite iter_S;
    unfold Gen.UnmarshalUint_loop1 at 1; cbn [unmarshal_uint_go]; symmetry in Hrest.
  - (* no input left *)
    apply skipn_nil_len in Hrest. rewrite length_ns in Hrest. unfold zlen in L.
    go_run; unfold ret, rd_result; reflexivity.
  - apply skipn_cons_nth in Hrest. destruct Hrest as (Hn & Htl & Hlt).
    rewrite nth_ns in Hn. rewrite length_ns in Hlt. unfold zlen in L.
    assert (Hz : znth (sl_get h buf) idx = Z.of_N b).
    { unfold znth. rewrite <- Hn. rewrite Z2N.id; [reflexivity|].
      apply (byte_list_znth (sl_get h buf) idx Hb). unfold zlen. lia. }
    assert (Hacc : forall bz, bz = Z.of_N b ->
              Z.lor res (shl u64 64 (u64 (Z.land bz 127)) shft) =
              Z.of_N (N.lor (Z.to_N res) (shl64 (N.land b 127) (Z.to_N shft)))).
    { intros bz ->. rewrite acc_byte by lia. rewrite N2Z.id. reflexivity. }
    go_run;
    lazymatch goal with
    | |- iter _ _ _ _ = _ =>
        go_unwrap; rewrite (Hacc _ Hz);
        rewrite (IH buf f _ (idx + 1) (shft + 7) h W Hb) by (cbn [length] in Hf; first [lia | rewrite <- Htl; f_equal; lia]);
        rewrite N2Z.id; do 2 f_equal; lia
    | |- _ =>
        unfold ret, rd_result; go_unwrap; rewrite (Hacc _ Hz); repeat f_equal; lia
    end.
Qed.

Theorem gen_UnmarshalUint_refines : forall h buf,
  wf_slice h buf -> byte_list (sl_get h buf) -> 7 * s_len buf < 18446744073709551616 ->
  Gen.UnmarshalUint buf h = rd_result (unmarshal_uint (ns (sl_get h buf))) h.
Proof.
  intros h buf W Hb Hlen. pose proof W as (Wa & Wo & Wl & Wc & Wm).
  pose proof (sl_get_len h buf W) as L. unfold zlen in L.
  unfold Gen.UnmarshalUint, unmarshal_uint. cbv beta iota zeta.
  match goal with |- iter ?f _ _ _ = _ =>
    apply (gen_UnmarshalUint_loop (ns (sl_get h buf)) buf f 0 0 0 h W Hb); try lia; try reflexivity
  end.
  rewrite length_ns. lia.
Qed.
Print Assumptions gen_UnmarshalUint_refines.

(** * Byte strings *)

Lemma marshal_uint_cases v room : (v < 2^64)%N ->
  (marshal_uint v room = (WOk, enc_uint v) /\ (length (enc_uint v) <= room)%nat) \/
  (exists bs, marshal_uint v room = (WErr, bs)).
Proof.
  intros Hv. rewrite (marshal_uint_buffer v room Hv).
  destruct (Nat.ltb_spec room (length (enc_uint v))); [right; eexists; reflexivity|left; split; [reflexivity|lia]].
Qed.

Theorem gen_MarshalBytes_refines : forall h buf v,
  wf_slice h buf -> wf_slice h v -> s_arr buf <> s_arr v -> byte_list (sl_get h v) ->
  Gen.MarshalBytes v buf h =
  wr_result (marshal_bytes (ns (sl_get h v)) (Z.to_nat (s_len buf))) h buf.
Proof.
  intros h buf v W Wv Hne Hb. pose proof W as (Wa & Wo & Wl & Wc & Wm).
  pose proof Wv as (Va & Vo & Vl & Vc & Vm).
  pose proof (sl_get_len h v Wv) as L. unfold zlen in L.
  unfold Gen.MarshalBytes, marshal_bytes. cbv beta iota zeta. rewrite length_ns.
  assert (Hu : 0 <= u64 (s_len v) < 2 ^ 64) by (rewrite u64_small; lia).
  go_call (gen_MarshalUint_refines h buf (u64 (s_len v)) W Hu).
  rewrite u64_small by lia.
  replace (Z.to_N (s_len v)) with (N.of_nat (length (sl_get h v))) by lia.
  assert (HlN : (N.of_nat (length (sl_get h v)) < 2 ^ 64)%N)
    by (change (2^64)%N with 18446744073709551616%N; lia).
  destruct (marshal_uint_cases (N.of_nat (length (sl_get h v))) (Z.to_nat (s_len buf)) HlN)
    as [[E Hroom]|[bs E]]; rewrite E; cbn [fst snd w_n err_of is_nil negb].
  - (* the header fits *)
    set (hdr := enc_uint (N.of_nat (length (sl_get h v)))) in *.
    assert (W1 : wf_slice (sl_put h buf 0 (zs hdr)) buf)
      by (apply wf_slice_put; [exact W|lia|rewrite zlen_zs; lia|exact W]).
    assert (G : sl_get (sl_put h buf 0 (zs hdr)) v = sl_get h v)
      by (apply sl_get_put_other; assumption).
    go_run; unfold ret, wr_result; cbn [fst snd w_n err_of].
    + (* the body does not fit *) reflexivity.
    + (* copy(buf[idx:][:ln], v) *)
      go_unwrap. rewrite G. go_rebase buf.
      match goal with |- context [firstn ?n (sl_get h v)] =>
        replace n with (length (sl_get h v)) by lia end.
      rewrite firstn_all.
      match goal with |- context [sl_put _ buf ?o (sl_get h v)] =>
        replace o with (0 + zlen (zs hdr)) by (rewrite zlen_zs; lia) end.
      rewrite sl_put_put_adj by (try exact W; rewrite ?zlen_zs; lia).
      rewrite app_length, length_ns. unfold zs at 2. rewrite map_app. fold (zs hdr).
      fold (zs (ns (sl_get h v))). rewrite (zs_ns _ Hb). repeat f_equal. lia.
  - (* the header does not fit *)
    go_run. unfold ret, wr_result. cbn [fst snd w_n err_of]. reflexivity.
Qed.
Print Assumptions gen_MarshalBytes_refines.

(* container.SliceCopy: a fresh array holding the elements of v *)
Lemma gen_SliceCopy_spec h v : wf_slice h v ->
  Gen.SliceCopy v h = Ok (mkSl (length h) 0 (s_len v) (s_len v), h ++ [sl_get h v]).
Proof.
  intros W. pose proof W as (Wa & Wo & Wl & Wc & Wm).
  pose proof (sl_get_len h v W) as L. unfold zlen in L.
  unfold Gen.SliceCopy. go_run. unfold ret.
  rewrite sl_get_grow by exact W.
  match goal with |- context [firstn ?n (sl_get h v)] =>
    replace n with (length (sl_get h v)) by lia end.
  rewrite firstn_all, sl_put_new by (unfold zlen; lia). reflexivity.
Qed.

(* what UnmarshalBytes / UnmarshalString do according to the model result: the
   returned slice is the sub-slice buf[v_off : v_off+len] of the input
   (newBuf=false) or a fresh array holding the same bytes (newBuf=true) *)
Definition rdb_result (r : dres bview) (h : heap) (buf : gslice)
  : outcome ((Z * gslice * error) * heap) :=
  match r with
  | DOk n v =>
      let ln := Z.of_nat (length (v_data v)) in
      if v_alias v
      then Ok ((Z.of_nat n,
                mkSl (s_arr buf) (s_off buf + Z.of_nat (v_off v)) ln (s_cap buf - Z.of_nat (v_off v)),
                ENil), h)
      else Ok ((Z.of_nat n, mkSl (length h) 0 ln ln, ENil), h ++ [zs (v_data v)])
  | DErr => Ok ((0, nil_slice, Err), h)
  | DPanic => GoPanic
  end.

Lemma skipn_ns k l : skipn k (ns l) = ns (skipn k l).
Proof. unfold ns. apply skipn_map. Qed.

Lemma byte_list_zsub l lo n : byte_list l -> byte_list (zsub l lo n).
Proof.
  intros H. unfold zsub, byte_list in *. apply Forall_firstn_z.
  rewrite Forall_forall in *. intros x Hx. apply H.
  rewrite <- (firstn_skipn (Z.to_nat lo) l). apply in_or_app. right. exact Hx.
Qed.

Theorem gen_UnmarshalBytes_refines : forall h buf extra newBuf,
  wf_slice h buf -> byte_list (sl_get h buf) -> 7 * s_len buf < 18446744073709551616 ->
  Gen.UnmarshalBytes buf newBuf h =
  rdb_result (unmarshal_bytes (ns (sl_get h buf)) extra newBuf) h buf.
Proof.
  intros h buf extra newBuf W Hb Hlen. pose proof W as (Wa & Wo & Wl & Wc & Wm).
  pose proof (sl_get_len h buf W) as L. unfold zlen in L.
  unfold Gen.UnmarshalBytes.
  pose proof (gen_UnmarshalUint_refines h buf W Hb Hlen) as R.
  pose proof (unmarshal_uint_bounds (ns (sl_get h buf))) as Hbd.
  destruct (unmarshal_uint (ns (sl_get h buf))) as [idx uln| |] eqn:Eu;
    [|unfold unmarshal_bytes; rewrite Eu; go_call R; reflexivity|contradiction].
  unfold rd_result in R. go_call R.
  rewrite length_ns in Hbd.
  assert (HlenN : (Z.of_nat (length (ns (sl_get h buf))) < two63Z)) by (rewrite length_ns; unfold two63Z; lia).
  rewrite (unmarshal_bytes_spec _ extra newBuf idx uln HlenN Eu) by (rewrite length_ns; lia).
  rewrite length_ns. cbv beta iota zeta. cbn [is_nil negb].
  go_unwrap.
  destruct (N.ltb_spec (N.of_nat (length (sl_get h buf) - idx)) uln) as [Hlt|Hge].
  - (* the length prefix exceeds what is left *)
    go_run; reflexivity.
  - assert (Hd : ns (zsub (sl_cap h buf) (Z.of_nat idx) (Z.of_N uln)) =
                 firstn (N.to_nat uln) (skipn idx (ns (sl_get h buf)))).
    { rewrite skipn_ns, firstn_ns. f_equal. rewrite sl_get_cap by exact W. unfold zsub.
      rewrite Nat2Z.id. rewrite skipn_firstn_comm, firstn_firstn. f_equal. lia. }
    assert (Hbl : byte_list (zsub (sl_cap h buf) (Z.of_nat idx) (Z.of_N uln))).
    { rewrite sl_get_cap in Hb by exact W. unfold zsub. rewrite Nat2Z.id.
      replace (firstn (Z.to_nat (Z.of_N uln)) (skipn idx (sl_cap h buf)))
        with (firstn (Z.to_nat (Z.of_N uln)) (skipn idx (firstn (Z.to_nat (s_len buf)) (sl_cap h buf))))
        by (rewrite skipn_firstn_comm, firstn_firstn; f_equal; lia).
      apply Forall_firstn_z. unfold byte_list in Hb. rewrite Forall_forall in *. intros x Hx. apply Hb.
      rewrite <- (firstn_skipn idx (firstn _ _)). apply in_or_app. right. exact Hx. }
    assert (Hdl : Z.of_nat (length (firstn (N.to_nat uln) (skipn idx (ns (sl_get h buf))))) = Z.of_N uln)
      by (rewrite firstn_length, skipn_length, length_ns; lia).
    unfold rdb_result. cbn [v_alias v_data v_off].
    go_run; go_unwrap.
    + (* newBuf: a copy *)
      match goal with |- context [Gen.SliceCopy ?s] =>
        assert (Ws : wf_slice h s) by (apply wf_reslice; [exact W|lia|lia]);
        go_call (gen_SliceCopy_spec h s Ws);
        pose proof (sl_get_reslice h buf (Z.of_nat idx) (Z.of_nat idx + Z.of_N uln) W ltac:(lia) ltac:(lia)) as G
      end.
      replace (Z.of_nat idx + Z.of_N uln - Z.of_nat idx) with (Z.of_N uln) in * by lia.
      rewrite G. cbv beta iota zeta. unfold ret. cbn [s_len]. rewrite Hdl, <- Hd, (zs_ns _ Hbl).
      repeat f_equal; lia.
    + (* the sub-slice itself *)
      unfold ret. rewrite Hdl. repeat f_equal; lia.
Qed.
Print Assumptions gen_UnmarshalBytes_refines.

(** * Strings: the same bytes (the casts are the identity) *)

Theorem gen_MarshalString_refines : forall h buf v,
  wf_slice h buf -> wf_slice h v -> s_arr buf <> s_arr v -> byte_list (sl_get h v) ->
  Gen.MarshalString v buf h =
  wr_result (marshal_string (ns (sl_get h v)) (Z.to_nat (s_len buf))) h buf.
Proof. intros. unfold Gen.MarshalString, cast_id, marshal_string. apply gen_MarshalBytes_refines; assumption. Qed.

Theorem gen_UnmarshalString_refines : forall h buf extra newBuf,
  wf_slice h buf -> byte_list (sl_get h buf) -> 7 * s_len buf < 18446744073709551616 ->
  Gen.UnmarshalString buf newBuf h =
  rdb_result (unmarshal_string (ns (sl_get h buf)) extra newBuf) h buf.
Proof.
  intros h buf extra newBuf W Hb Hlen. unfold Gen.UnmarshalString, unmarshal_string, cast_id.
  pose proof (gen_UnmarshalBytes_refines h buf extra newBuf W Hb Hlen) as R.
  destruct (unmarshal_bytes (ns (sl_get h buf)) extra newBuf) as [n v| |];
    unfold rdb_result in *; [destruct (v_alias v)| |]; cbv beta iota zeta in R;
    try (go_call R; reflexivity).
  unfold bind. rewrite R. reflexivity.
Qed.

(** * Sizes *)

Theorem gen_WritableUintSize_refines : forall v, 0 <= v < 2 ^ 64 ->
  Gen.WritableUintSize v = Z.of_nat (writable_uint_size (Z.to_N v)).
Proof.
  intros v Hv. change (2 ^ 64) with 18446744073709551616 in Hv.
  unfold Gen.WritableUintSize, writable_uint_size.
  change bit7 with 128%N. change bit14 with 16384%N. change bit21 with 2097152%N.
  change bit28 with 268435456%N. change bit35 with 34359738368%N. change bit42 with 4398046511104%N.
  change bit49 with 562949953421312%N. change bit56 with 72057594037927936%N.
  change bit63 with 9223372036854775808%N.
  repeat (go_if; try lia); reflexivity.
Qed.

Theorem gen_WritebleBytesSize_refines : forall h buf, wf_slice h buf ->
  s_len buf + 10 < 9223372036854775808 ->   (* otherwise the int addition overflows *)
  Gen.WritebleBytesSize buf = Z.of_nat (writable_bytes_size (ns (sl_get h buf))).
Proof.
  intros h buf W Hov. pose proof W as (Wa & Wo & Wl & Wc & Wm).
  pose proof (sl_get_len h buf W) as L. unfold zlen in L.
  unfold Gen.WritebleBytesSize, writable_bytes_size. rewrite length_ns.
  rewrite (u64_small (s_len buf)) by lia.
  rewrite gen_WritableUintSize_refines by (change (2^64) with 18446744073709551616; lia).
  replace (Z.to_N (s_len buf)) with (N.of_nat (length (sl_get h buf))) by lia.
  assert (Hs : (writable_uint_size (N.of_nat (length (sl_get h buf))) <= 10)%nat).
  { unfold writable_uint_size.
    repeat match goal with |- context [if ?c then _ else _] => destruct c end; clear; lia. }
  rewrite i64_small by lia. lia.
Qed.

Theorem gen_WritableStringSize_refines : forall h v, wf_slice h v ->
  s_len v + 10 < 9223372036854775808 ->
  Gen.WritableStringSize v = Z.of_nat (writable_string_size (ns (sl_get h v))).
Proof. intros. unfold Gen.WritableStringSize, cast_id, writable_string_size. apply gen_WritebleBytesSize_refines; assumption. Qed.

(** * The headline theorems of C15, directly over the generated functions *)

Lemma ns_zs l : ns (zs l) = l.
Proof. unfold ns, zs. rewrite map_map. rewrite <- (map_id l) at 2. apply map_ext. intros; apply N2Z.id. Qed.

Lemma ns_app a b : ns (a ++ b) = ns a ++ ns b.
Proof. apply map_app. Qed.

Lemma byte_list_zs l : wf_bytes l = true -> byte_list (zs l).
Proof.
  unfold wf_bytes, byte_list, zs. intros H. rewrite forallb_forall in H.
  apply Forall_forall. intros x Hx. apply in_map_iff in Hx. destruct Hx as (b & <- & Hb).
  specialize (H b Hb). unfold wf_byte in H. lia.
Qed.

Lemma byte_list_app a b : byte_list a -> byte_list b -> byte_list (a ++ b).
Proof. intros Ha Hb. apply Forall_app. split; assumption. Qed.

Lemma byte_list_skipn k l : byte_list l -> byte_list (skipn k l).
Proof.
  unfold byte_list. intros H. rewrite Forall_forall in *. intros x Hx. apply H.
  rewrite <- (firstn_skipn k l). apply in_or_app. right. exact Hx.
Qed.

(* the buffer after a Marshal call that stored [d] at its front *)
Lemma sl_get_after_put h buf d : wf_slice h buf -> zlen d <= s_len buf ->
  sl_get (sl_put h buf 0 d) buf = d ++ skipn (length d) (sl_get h buf).
Proof.
  intros W Hd. rewrite sl_get_put_same by (try exact W; lia). unfold zsplice.
  cbn [Z.to_nat firstn app Nat.add]. reflexivity.
Qed.

(* MarshalUint then UnmarshalUint on the same buffer *)
Theorem gen_uint_roundtrip : forall h buf v,
  wf_slice h buf -> byte_list (sl_get h buf) -> 7 * s_len buf < 18446744073709551616 ->
  0 <= v < 2 ^ 64 -> Gen.WritableUintSize v <= s_len buf ->
  exists h', Gen.MarshalUint v buf h = Ok ((Gen.WritableUintSize v, ENil), h') /\
             Gen.UnmarshalUint buf h' = Ok ((Gen.WritableUintSize v, v, ENil), h') /\
             wf_slice h' buf /\
             sl_get h' buf = zs (enc_uint (Z.to_N v)) ++ skipn (length (enc_uint (Z.to_N v))) (sl_get h buf).
Proof.
  intros h buf v W Hb Hlen Hv Hsz. pose proof W as (Wa & Wo & Wl & Wc & Wm).
  assert (HvN : (Z.to_N v < 2^64)%N) by (change (2^64)%N with 18446744073709551616%N; change (2^64) with 18446744073709551616 in Hv; lia).
  rewrite gen_WritableUintSize_refines in * by exact Hv.
  rewrite <- (uint_size _ HvN) in *.
  set (enc := enc_uint (Z.to_N v)) in *.
  assert (Hm : marshal_uint (Z.to_N v) (Z.to_nat (s_len buf)) = (WOk, enc)).
  { rewrite (marshal_uint_buffer _ _ HvN). fold enc.
    destruct (Nat.ltb_spec (Z.to_nat (s_len buf)) (length enc)); [lia|reflexivity]. }
  exists (sl_put h buf 0 (zs enc)).
  assert (W' : wf_slice (sl_put h buf 0 (zs enc)) buf)
    by (apply wf_slice_put; [exact W|lia|rewrite zlen_zs; lia|exact W]).
  assert (G : sl_get (sl_put h buf 0 (zs enc)) buf = zs enc ++ skipn (length enc) (sl_get h buf)).
  { rewrite sl_get_after_put by (try exact W; rewrite zlen_zs; lia). rewrite length_zs. reflexivity. }
  split; [|split; [|split; [exact W'|exact G]]].
  - rewrite gen_MarshalUint_refines by assumption. rewrite Hm. reflexivity.
  - rewrite gen_UnmarshalUint_refines; try assumption.
    + rewrite G, ns_app, ns_zs. rewrite (uint_roundtrip _ _ HvN). fold enc.
      unfold rd_result. rewrite Z2N.id by lia. reflexivity.
    + rewrite G. apply byte_list_app; [apply byte_list_zs, enc_uint_wf|apply byte_list_skipn; exact Hb].
Qed.
Print Assumptions gen_uint_roundtrip.

Lemma zsub_app_mid (a b c : list Z) : zsub (a ++ b ++ c) (zlen a) (zlen b) = b.
Proof.
  unfold zsub, zlen. rewrite !Nat2Z.id. rewrite skipn_app, skipn_all, Nat.sub_diag. cbn [app skipn].
  rewrite firstn_app, firstn_all, Nat.sub_diag. cbn [firstn]. apply app_nil_r.
Qed.

(* MarshalBytes then UnmarshalBytes on the same buffer *)
Theorem gen_bytes_roundtrip : forall h buf v newBuf,
  wf_slice h buf -> wf_slice h v -> s_arr buf <> s_arr v ->
  byte_list (sl_get h buf) -> byte_list (sl_get h v) ->
  7 * s_len buf < 18446744073709551616 -> s_len v + 10 < 9223372036854775808 ->
  Gen.WritebleBytesSize v <= s_len buf ->
  exists h' res h'',
    Gen.MarshalBytes v buf h = Ok ((Gen.WritebleBytesSize v, ENil), h') /\
    Gen.UnmarshalBytes buf newBuf h' = Ok ((Gen.WritebleBytesSize v, res, ENil), h'') /\
    sl_get h'' res = sl_get h v /\
    (newBuf = false -> h'' = h' /\ s_arr res = s_arr buf) /\
    (newBuf = true -> s_arr res = length h' /\ h'' = h' ++ [sl_get h v]).
Proof.
  intros h buf v newBuf W Wv Hne Hb Hbv Hlen Hov Hsz.
  pose proof W as (Wa & Wo & Wl & Wc & Wm). pose proof Wv as (Va & Vo & Vl & Vc & Vm).
  pose proof (sl_get_len h v Wv) as Lv. unfold zlen in Lv.
  rewrite (gen_WritebleBytesSize_refines h v Wv Hov) in *.
  set (l := ns (sl_get h v)) in *.
  assert (Hl : length l = length (sl_get h v)) by apply length_ns.
  assert (HlN : (N.of_nat (length l) < 2 ^ 64)%N) by (change (2^64)%N with 18446744073709551616%N; lia).
  destruct (bytes_size l HlN) as [Hsize _].
  assert (Hm : marshal_bytes l (Z.to_nat (s_len buf)) = (WOk, ow_bytes l)).
  { rewrite (bytes_buffer l _ HlN).
    destruct (Nat.ltb_spec (Z.to_nat (s_len buf)) (writable_bytes_size l)); [lia|reflexivity]. }
  set (enc := ow_bytes l) in *.
  set (h' := sl_put h buf 0 (zs enc)).
  assert (W' : wf_slice h' buf)
    by (apply wf_slice_put; [exact W|lia|rewrite zlen_zs; lia|exact W]).
  assert (G : sl_get h' buf = zs enc ++ skipn (length enc) (sl_get h buf)).
  { unfold h'. rewrite sl_get_after_put by (try exact W; rewrite zlen_zs; lia). rewrite length_zs. reflexivity. }
  assert (Hb' : byte_list (sl_get h' buf)).
  { rewrite G. apply byte_list_app; [|apply byte_list_skipn; exact Hb].
    unfold enc, ow_bytes. rewrite (ow_uint_enc _ HlN). unfold zs. rewrite map_app.
    apply byte_list_app; [apply byte_list_zs, enc_uint_wf|].
    fold (zs l). unfold l. rewrite zs_ns by exact Hbv. exact Hbv. }
  assert (L' : zlen (sl_get h' buf) = s_len buf) by (apply sl_get_len; exact W').
  pose proof (gen_UnmarshalBytes_refines h' buf [] newBuf W' Hb' Hlen) as R.
  rewrite G, ns_app, ns_zs in R.
  rewrite (bytes_roundtrip l _ [] newBuf) in R.
  2:{ pose proof (sl_get_len h buf W) as Lb. unfold zlen in Lb.
      rewrite app_length, length_ns, skipn_length. fold enc. unfold two63Z. lia. }
  unfold rdb_result in R. cbn [v_alias v_data v_off] in R. fold enc in R.
  assert (Hhdr : enc = enc_uint (N.of_nat (length l)) ++ l)
    by (unfold enc, ow_bytes; rewrite (ow_uint_enc _ HlN); reflexivity).
  set (hdr := enc_uint (N.of_nat (length l))) in *.
  assert (Hzl : zs l = sl_get h v) by (unfold l; apply zs_ns; exact Hbv).
  assert (Ehl : (length hdr + length l = length enc)%nat) by (rewrite Hhdr, app_length; reflexivity).
  rewrite Hsize in R.
  destruct newBuf; cbn [negb] in R.
  - (* a fresh copy *)
    eexists h', _, _. split; [|split; [exact R|]].
    + rewrite gen_MarshalBytes_refines by assumption. fold l. rewrite Hm. unfold wr_result, w_n.
      cbn [fst snd err_of]. fold enc. rewrite Hsize. reflexivity.
    + rewrite Hzl. split; [|split; [discriminate|intros _; split; reflexivity]].
      unfold sl_get at 1. cbn [s_arr s_off s_len]. rewrite arr_get_new.
      rewrite Hl. apply zsub_all.
  - (* the sub-slice of the input *)
    eexists h', _, _. split; [|split; [exact R|]].
    + rewrite gen_MarshalBytes_refines by assumption. fold l. rewrite Hm. unfold wr_result, w_n.
      cbn [fst snd err_of]. fold enc. rewrite Hsize. reflexivity.
    + split; [|split; [intros _; split; reflexivity|discriminate]].
      pose proof (sl_get_reslice_len h' buf (Z.of_nat (length hdr)) (Z.of_nat (length hdr) + Z.of_nat (length l)) W'
                    ltac:(lia) ltac:(lia)) as S.
      replace (Z.of_nat (length hdr) + Z.of_nat (length l) - Z.of_nat (length hdr)) with (Z.of_nat (length l)) in S by lia.
      rewrite S, G, Hhdr. unfold zs. rewrite map_app, <- app_assoc. fold (zs hdr). fold (zs l).
      rewrite <- (length_zs hdr), <- (length_zs l). rewrite Hzl.
      apply (zsub_app_mid (zs hdr) (sl_get h v)).
Qed.
Print Assumptions gen_bytes_roundtrip.

(** * Non-vacuity: the generated code runs (vm_compute) *)

Example gen_ex_run :
  let h : heap := [repeat 0 8; [104; 105; 33]; [200; 3; 7]] in
  let buf := mkSl 0 0 8 8 in
  let v := mkSl 1 0 3 3 in
  wf_slice h buf /\ wf_slice h v /\
  (* MarshalBytes writes the header 3 and the body, UnmarshalBytes finds the
     body as the sub-slice buf[1:4] *)
  (match Gen.MarshalBytes v buf h with
   | Ok ((n, e), h') =>
       n = 4 /\ e = ENil /\ sl_get h' buf = [3; 104; 105; 33; 0; 0; 0; 0] /\
       Gen.UnmarshalBytes buf false h' = Ok ((4, mkSl 0 1 3 7, ENil), h') /\
       Gen.UnmarshalBytes buf true h' = Ok ((4, mkSl 3 0 3 3, ENil), h' ++ [[104; 105; 33]])
   | _ => False
   end) /\
  (* 300 = 0xAC 0x02 *)
  (match Gen.MarshalUint 300 buf h with
   | Ok ((n, e), h') => n = 2 /\ e = ENil /\ sl_get h' buf = [172; 2; 0; 0; 0; 0; 0; 0] /\
                        Gen.UnmarshalUint buf h' = Ok ((2, 300, ENil), h')
   | _ => False
   end) /\
  (* a buffer that is too short: error after the bytes that fit were stored *)
  Gen.MarshalUint 300 (mkSl 0 0 1 8) h = Ok ((0, Err), [[172; 0; 0; 0; 0; 0; 0; 0]; [104; 105; 33]; [200; 3; 7]]) /\
  (* a truncated varint: error, not a panic *)
  Gen.UnmarshalUint (mkSl 2 0 1 3) h = Ok ((0, 0, Err), h) /\
  Gen.UnmarshalUint (mkSl 2 0 2 3) h = Ok ((2, 456, ENil), h) /\
  Gen.WritebleBytesSize v = 4.
Proof.
  cbv zeta. split; [unfold wf_slice, zlen; cbn; lia|]. split; [unfold wf_slice, zlen; cbn; lia|].
  vm_compute. repeat split; reflexivity.
Qed.
