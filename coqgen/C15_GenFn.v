(** C15/C16, translator tie for the functions of xbinary/xbinary.go.

    [Gen_xbinary_fn.v] is produced by harness/cmd/go2coq from the Go source on
    every run.  This file proves that every generated function refines the
    hand-written model coq/model/XBinary.v (the model all C15/C16 theorems are
    about) and restates the headline theorems directly over the generated
    functions.  The proofs use the characterising lemmas of coq/lib/GoLite.v,
    one [destruct] per condition and [lia]; they do not mention generated
    variable names. *)
From Coq Require Import List NArith ZArith Arith Lia Bool.
From Coq Require Import ZifyBool ZifyN ZifyNat.
From GL Require Import lib.GoLite model.XBinary proofs.C15_XBinary.
From GLGEN Require Import Gen_xbinary_fn.
Import ListNotations.
Open Scope Z_scope.
Ltac Zify.zify_post_hook ::= Z.div_mod_to_equations.

(** * Vocabulary shared by the statements *)

Definition zs (l : list N) : list Z := map Z.of_N l.
Definition ns (l : list Z) : list N := map Z.to_N l.
Definition byte_list (l : list Z) : Prop := Forall (fun b => 0 <= b < 256) l.

Definition err_of (w : wres) : error := match w with WOk => ENil | _ => Err end.

(* what a Marshal function does according to the model result r: it returns
   (n, err) and has stored the bytes [snd r] at the front of buf; nothing else
   in the heap changes *)
Definition wr_result (r : wres * list N) (h : heap) (buf : gslice) : outcome ((Z * error) * heap) :=
  Ok ((Z.of_nat (w_n r), err_of (fst r)), sl_put h buf 0 (zs (snd r))).

(* what a scalar Unmarshal function does according to the model result *)
Definition rd_result (r : dres N) (h : heap) : outcome ((Z * Z * error) * heap) :=
  match r with
  | DOk n v => Ok ((Z.of_nat n, Z.of_N v, ENil), h)
  | DErr => Ok ((0, 0, Err), h)
  | DPanic => GoPanic
  end.

Lemma zs_ns l : byte_list l -> zs (ns l) = l.
Proof.
  unfold zs, ns. induction 1 as [|b t Hb _ IH]; [reflexivity|].
  cbn [map]. rewrite IH. f_equal. lia.
Qed.

Lemma length_ns l : length (ns l) = length l.
Proof. apply map_length. Qed.
Lemma length_zs l : length (zs l) = length l.
Proof. apply map_length. Qed.
Lemma zlen_zs l : zlen (zs l) = Z.of_nat (length l).
Proof. unfold zlen. rewrite length_zs. reflexivity. Qed.

Lemma nth_ns l i : nth i (ns l) 0%N = Z.to_N (nth i l 0).
Proof. unfold ns. apply (map_nth Z.to_N l 0 i). Qed.

Ltac go_ret := unfold ret.

(** * Fixed width *)

Theorem gen_MarshalByte_refines : forall h buf v, wf_slice h buf -> 0 <= v ->
  Gen.MarshalByte v buf h = wr_result (marshal_byte (Z.to_N v) (Z.to_nat (s_len buf))) h buf.
Proof.
  intros h buf v W Hv. unfold Gen.MarshalByte, marshal_byte, wr_result.
  repeat match goal with |- context [if ?c then _ else _] => destruct c eqn:? end; try lia.
  - go_ret. cbn [fst snd w_n err_of zs map]. rewrite sl_put_nil by exact W. reflexivity.
  - go_step. go_ret. cbn [fst snd w_n err_of zs map length]. do 4 f_equal. lia.
Qed.

Lemma byte_list_nonneg l : byte_list l -> Forall (fun b => 0 <= b) l.
Proof. apply Forall_impl. intros; lia. Qed.

Lemma zs_ns_nonneg l : Forall (fun b => 0 <= b) l -> zs (ns l) = l.
Proof.
  unfold zs, ns. induction 1 as [|b t Hb _ IH]; [reflexivity|].
  cbn [map]. rewrite IH. f_equal. lia.
Qed.

Theorem gen_UnmarshalByte_refines : forall h buf, wf_slice h buf -> byte_list (sl_get h buf) ->
  Gen.UnmarshalByte buf h = rd_result (unmarshal_byte (ns (sl_get h buf))) h.
Proof.
  intros h buf W Hb. pose proof (sl_get_len h buf W) as L.
  unfold Gen.UnmarshalByte, unmarshal_byte, rd_result.
  destruct (sl_get h buf) as [|b t] eqn:E; unfold zlen in L; cbn [length ns map] in *;
    repeat match goal with |- context [if ?c then _ else _] => destruct c eqn:? end; try lia.
  - reflexivity.
  - go_step. rewrite E. go_ret. unfold znth. cbn [Z.to_nat nth].
    inversion Hb; subst. do 3 f_equal. f_equal. lia.
Qed.

(* encoding/binary.BigEndian as modelled in GoLite = the model's put_be/get_be *)
Lemma be_bytes_put k v : 0 <= v -> be_bytes k v = zs (put_be k (Z.to_N v)).
Proof.
  intros Hv. induction k as [|k IH]; [reflexivity|].
  cbn [be_bytes put_be zs map]. fold (zs (put_be k (Z.to_N v))). rewrite <- IH. f_equal.
  rewrite N2Z.inj_mod, N2Z_shiftr, N2Z.inj_mul, nat_N_Z, Z2N.id by exact Hv. reflexivity.
Qed.

Lemma be_val_get l : Forall (fun b => 0 <= b) l -> be_val l = Z.of_N (get_be (ns l)).
Proof.
  induction 1 as [|b t Hb _ IH]; [reflexivity|].
  cbn [be_val get_be ns map]. fold (ns t). rewrite N2Z_lor, N2Z_shiftl, <- IH.
  rewrite N2Z.inj_mul, nat_N_Z, length_ns, Z2N.id by exact Hb. reflexivity.
Qed.

Lemma firstn_ns k l : firstn k (ns l) = ns (firstn k l).
Proof. unfold ns. apply firstn_map. Qed.

Lemma Forall_firstn_z {P : Z -> Prop} k l : Forall P l -> Forall P (firstn k l).
Proof.
  revert l. induction k as [|k IH]; intros l H; [constructor|].
  destruct H as [|b t Hb Ht]; [constructor|]. cbn [firstn]. constructor; [exact Hb|apply IH; exact Ht].
Qed.

Ltac fixed_marshal W :=
  unfold marshal_fixed, wr_result;
  repeat match goal with |- context [if ?c then _ else _] => destruct c eqn:? end; try lia;
  [ go_ret; cbn [fst snd w_n err_of zs map]; rewrite sl_put_nil by exact W; reflexivity
  | go_step; go_ret; cbn [fst snd w_n err_of]; rewrite put_be_length, be_bytes_put by assumption; reflexivity ].

Theorem gen_MarshalUint16_refines : forall h buf v, wf_slice h buf -> 0 <= v ->
  Gen.MarshalUint16 v buf h = wr_result (marshal_fixed 2 (Z.to_N v) (Z.to_nat (s_len buf))) h buf.
Proof. intros h buf v W Hv. unfold Gen.MarshalUint16. fixed_marshal W. Qed.

Theorem gen_MarshalUint32_refines : forall h buf v, wf_slice h buf -> 0 <= v ->
  Gen.MarshalUint32 v buf h = wr_result (marshal_fixed 4 (Z.to_N v) (Z.to_nat (s_len buf))) h buf.
Proof. intros h buf v W Hv. unfold Gen.MarshalUint32. fixed_marshal W. Qed.

Theorem gen_MarshalUint64_refines : forall h buf v, wf_slice h buf -> 0 <= v ->
  Gen.MarshalUint64 v buf h = wr_result (marshal_fixed 8 (Z.to_N v) (Z.to_nat (s_len buf))) h buf.
Proof. intros h buf v W Hv. unfold Gen.MarshalUint64. fixed_marshal W. Qed.

Ltac fixed_unmarshal W Hb :=
  let L := fresh "L" in
  pose proof (sl_get_len _ _ W) as L; unfold zlen in L;
  unfold unmarshal_fixed, rd_result; rewrite length_ns;
  repeat match goal with |- context [if ?c then _ else _] => destruct c eqn:? end; try lia;
  [ reflexivity
  | go_step; go_ret; rewrite firstn_ns, be_val_get by (apply Forall_firstn_z, byte_list_nonneg, Hb);
    reflexivity ].

Theorem gen_UnmarshalUint16_refines : forall h buf, wf_slice h buf -> byte_list (sl_get h buf) ->
  Gen.UnmarshalUint16 buf h = rd_result (unmarshal_fixed 2 (ns (sl_get h buf))) h.
Proof. intros h buf W Hb. unfold Gen.UnmarshalUint16. fixed_unmarshal W Hb. Qed.

Theorem gen_UnmarshalUint32_refines : forall h buf, wf_slice h buf -> byte_list (sl_get h buf) ->
  Gen.UnmarshalUint32 buf h = rd_result (unmarshal_fixed 4 (ns (sl_get h buf))) h.
Proof. intros h buf W Hb. unfold Gen.UnmarshalUint32. fixed_unmarshal W Hb. Qed.

Theorem gen_UnmarshalUint64_refines : forall h buf, wf_slice h buf -> byte_list (sl_get h buf) ->
  Gen.UnmarshalUint64 buf h = rd_result (unmarshal_fixed 8 (ns (sl_get h buf))) h.
Proof. intros h buf W Hb. unfold Gen.UnmarshalUint64. fixed_unmarshal W Hb. Qed.

(** * Variable-length uint: MarshalUint *)

(* bit operations of the two sides as arithmetic *)
Lemma N_land127 v : N.land v 127 = (v mod 128)%N.
Proof. exact (land127 v). Qed.

Lemma Z_to_N_shr7 v : 0 <= v -> Z.to_N (shr v 7) = N.shiftr (Z.to_N v) 7.
Proof.
  intros Hv. unfold shr. apply N2Z.inj. rewrite N2Z_shiftr, !Z2N.id; try lia.
  - reflexivity.
  - rewrite Z.shiftr_div_pow2 by lia. apply Z.div_pos; lia.
Qed.

(* 128 | byte(v & 127) on both sides *)
Lemma cont_byte v : 0 <= v ->
  Z.lor 128 (u8 (Z.land v 127)) = Z.of_N (N.lor 128 (N.land (Z.to_N v) 127)).
Proof.
  intros Hv. rewrite N2Z_lor, N2Z_land, Z2N.id by exact Hv.
  change (Z.of_N 128) with 128. change (Z.of_N 127) with 127.
  rewrite u8_small; [reflexivity|]. rewrite zland127. lia.
Qed.

(* what the loop of MarshalUint does from the state (v, idx), by induction on
   the fuel of the model; the fuel of the generated loop only has to exceed the
   room that is left *)
Lemma gen_MarshalUint_loop : forall mf buf f v idx h,
  wf_slice h buf -> 0 <= idx <= s_len buf -> 0 <= v ->
  (Z.to_nat (s_len buf - idx) < f)%nat ->
  fst (marshal_uint_go mf (Z.to_N v) (Z.to_nat (s_len buf - idx))) <> WFuel ->
  iter f (Gen.MarshalUint_loop1 buf) (v, idx) h =
  let r := marshal_uint_go mf (Z.to_N v) (Z.to_nat (s_len buf - idx)) in
  Ok ((match fst r with WOk => idx + zlen (snd r) | _ => 0 end, err_of (fst r)),
      sl_put h buf idx (zs (snd r))).
Proof.
  induction mf as [|mf IH]; intros buf f v idx h W Hidx Hv Hf Hne.
  - cbn in Hne. congruence.
  - destruct f as [|f]; [lia|]. rewrite iter_S. unfold Gen.MarshalUint_loop1 at 1.
    cbn [marshal_uint_go] in *.
    pose proof W as (Wa & Wo & Wl & Wc & Wm).
    destruct (Z.to_nat (s_len buf - idx)) as [|room] eqn:Eroom; go_run;
    lazymatch goal with
         | |- iter _ _ _ _ = _ =>
             (* a continuation byte was stored; the rest by induction *)
             go_unwrap;
             assert (Hv' : 0 <= shr v 7)
               by (unfold shr; rewrite Z.shiftr_div_pow2 by lia; apply Z.div_pos; lia);
             assert (Er : Z.to_nat (s_len buf - (idx + 1)) = room) by lia;
             match goal with |- iter _ _ _ ?h' = _ =>
               assert (W' : wf_slice h' buf)
                 by (apply wf_slice_put; [exact W|lia|unfold zlen; cbn [length]; lia|exact W])
             end;
             specialize (IH buf f (shr v 7) (idx + 1) _ W' ltac:(lia) Hv' ltac:(lia));
             rewrite Er, Z_to_N_shr7 in IH by exact Hv;
             destruct (marshal_uint_go mf (N.shiftr (Z.to_N v) 7) room) as [st bs] eqn:Em;
             cbn [fst snd] in *; rewrite IH by exact Hne; cbn [zs map]; fold (zs bs);
             rewrite <- cont_byte by exact Hv;
             match goal with |- context [sl_put (sl_put h buf idx [?x]) buf (idx + 1) ?d] =>
               replace (idx + 1) with (idx + zlen [x]) by reflexivity;
               rewrite (sl_put_put_adj h buf idx [x] d W) by (unfold zlen; cbn [length]; lia)
             end;
             cbn [app]; f_equal; f_equal; f_equal;
             destruct st; try reflexivity; unfold zlen; cbn [length]; lia
         | |- _ =>
             (* the loop ended here: buffer exhausted, or the last byte stored *)
             unfold ret; go_unwrap; cbn [fst snd err_of zs map];
             rewrite ?(sl_put_nil h buf idx W); rewrite ?u8_small, ?Z2N.id by lia;
             unfold zlen; cbn [length]; reflexivity
         end.
Qed.

Lemma marshal_uint_no_fuel v room : (v < 2^64)%N -> fst (marshal_uint v room) <> WFuel.
Proof.
  intros Hv. rewrite (marshal_uint_buffer v room Hv).
  destruct (room <? length (enc_uint v))%nat; cbn [fst]; congruence.
Qed.

Theorem gen_MarshalUint_refines : forall h buf v, wf_slice h buf -> 0 <= v < 2^64 ->
  Gen.MarshalUint v buf h = wr_result (marshal_uint (Z.to_N v) (Z.to_nat (s_len buf))) h buf.
Proof.
  intros h buf v W Hv. pose proof W as (Wa & Wo & Wl & Wc & Wm).
  assert (HvN : (Z.to_N v < 2^64)%N) by (change (2^64)%N with 18446744073709551616%N; lia).
  pose proof (marshal_uint_no_fuel (Z.to_N v) (Z.to_nat (s_len buf)) HvN) as Hne.
  unfold Gen.MarshalUint. cbv beta iota zeta.
  match goal with |- iter ?f _ _ _ = _ =>
    pose proof (gen_MarshalUint_loop 10 buf f v 0 h W ltac:(lia) ltac:(lia)) as L
  end.
  rewrite Z.sub_0_r in L. fold (marshal_uint (Z.to_N v) (Z.to_nat (s_len buf))) in L.
  rewrite L by (try exact Hne; lia). unfold wr_result, w_n.
  destruct (marshal_uint (Z.to_N v) (Z.to_nat (s_len buf))) as [st bs]. cbn [fst snd].
  repeat f_equal. destruct st; try reflexivity; rewrite zlen_zs; lia.
Qed.
Print Assumptions gen_MarshalUint_refines.

(** * Variable-length uint: UnmarshalUint *)

(* uint(x) << s as modelled in GoLite = the model's shl64 *)
Lemma shl_u64_N x s : 0 <= x -> 0 <= s ->
  shl u64 64 x s = Z.of_N (shl64 (Z.to_N x) (Z.to_N s)).
Proof.
  intros Hx Hs. unfold shl, shl64.
  destruct (Z.leb_spec 64 s); destruct (N.leb_spec 64 (Z.to_N s)); try lia.
  unfold u64, two64. rewrite N2Z.inj_mod, N2Z_shiftl, !Z2N.id by lia. reflexivity.
Qed.

(* res | uint(b&127) << shft on both sides *)
Lemma acc_byte res b shft : 0 <= res -> 0 <= shft -> 0 <= b ->
  Z.lor res (shl u64 64 (u64 (Z.land b 127)) shft) =
  Z.of_N (N.lor (Z.to_N res) (shl64 (N.land (Z.to_N b) 127) (Z.to_N shft))).
Proof.
  intros Hr Hs Hb.
  assert (Hm : 0 <= Z.land b 127 < 128) by (rewrite zland127; lia).
  rewrite u64_small by lia. rewrite shl_u64_N by lia.
  rewrite N2Z_lor, Z2N.id by lia. do 3 f_equal.
  apply N2Z.inj. rewrite N2Z_land, !Z2N.id by lia. reflexivity.
Qed.

Lemma skipn_cons_nth (l : list N) i b tl : skipn i l = b :: tl ->
  nth i l 0%N = b /\ skipn (S i) l = tl /\ (i < length l)%nat.
Proof.
  revert l. induction i as [|i IH]; intros l H.
  - destruct l; [discriminate|]. cbn in H. injection H as -> ->. cbn. repeat split. lia.
  - destruct l as [|x t]; [discriminate|]. cbn [skipn] in H.
    destruct (IH t H) as (A & B & C). cbn [nth skipn length]. repeat split; [exact A|exact B|lia].
Qed.

Lemma skipn_nil_len (l : list N) i : skipn i l = [] -> (length l <= i)%nat.
Proof.
  revert l. induction i as [|i IH]; intros l H.
  - cbn in H. subst. cbn. lia.
  - destruct l as [|x t]; [cbn; lia|]. cbn [skipn length] in *. apply IH in H. lia.
Qed.

Lemma byte_list_znth l i : byte_list l -> 0 <= i < zlen l -> 0 <= znth l i < 256.
Proof.
  intros Hb Hi. unfold znth, zlen, byte_list in *.
  rewrite Forall_forall in Hb. apply Hb. apply nth_In. lia.
Qed.

(* the loop of UnmarshalUint from the state (res, idx, shft); rest is the
   unread input.  The shift counter is a uint in Go and an unbounded N in the
   model: they agree as long as 7*len(buf) < 2^64. *)
Lemma gen_UnmarshalUint_loop : forall rest buf f res idx shft h,
  wf_slice h buf -> byte_list (sl_get h buf) ->
  0 <= idx <= s_len buf -> rest = skipn (Z.to_nat idx) (ns (sl_get h buf)) ->
  0 <= res -> 0 <= shft -> shft + 7 * (s_len buf - idx) < 18446744073709551616 ->
  (length rest < f)%nat ->
  iter f (Gen.UnmarshalUint_loop1 buf) (res, idx, shft) h =
  rd_result (unmarshal_uint_go rest (Z.to_N res) (Z.to_N shft) (Z.to_nat idx)) h.
Proof.
  induction rest as [|b tl IH]; intros buf f res idx shft h W Hb Hidx Hrest Hres Hshft Hsh Hf;
    pose proof W as (Wa & Wo & Wl & Wc & Wm); pose proof (sl_get_len h buf W) as L;
    (destruct f as [|f]; [cbn [length] in Hf; lia|]); rewrite iter_S;
    unfold Gen.UnmarshalUint_loop1 at 1; cbn [unmarshal_uint_go]; symmetry in Hrest.
  - (* no input left *)
    apply skipn_nil_len in Hrest. rewrite length_ns in Hrest. unfold zlen in L.
    go_run; unfold ret, rd_result; reflexivity.
  - apply skipn_cons_nth in Hrest. destruct Hrest as (Hn & Htl & Hlt).
    rewrite nth_ns in Hn. rewrite length_ns in Hlt. unfold zlen in L.
    assert (Hz : znth (sl_get h buf) idx = Z.of_N b).
    { unfold znth. rewrite <- Hn. rewrite Z2N.id; [reflexivity|].
      apply (byte_list_znth (sl_get h buf) idx Hb). unfold zlen. lia. }
    assert (Hacc : forall bz, bz = Z.of_N b ->
              Z.lor res (shl u64 64 (u64 (Z.land bz 127)) shft) =
              Z.of_N (N.lor (Z.to_N res) (shl64 (N.land b 127) (Z.to_N shft)))).
    { intros bz ->. rewrite acc_byte by lia. rewrite N2Z.id. reflexivity. }
    go_run;
    lazymatch goal with
    | |- iter _ _ _ _ = _ =>
        go_unwrap; rewrite (Hacc _ Hz);
        rewrite (IH buf f _ (idx + 1) (shft + 7) h W Hb) by (cbn [length] in Hf; first [lia | rewrite <- Htl; f_equal; lia]);
        rewrite N2Z.id; do 2 f_equal; lia
    | |- _ =>
        unfold ret, rd_result; go_unwrap; rewrite (Hacc _ Hz); repeat f_equal; lia
    end.
Qed.

Theorem gen_UnmarshalUint_refines : forall h buf,
  wf_slice h buf -> byte_list (sl_get h buf) -> 7 * s_len buf < 18446744073709551616 ->
  Gen.UnmarshalUint buf h = rd_result (unmarshal_uint (ns (sl_get h buf))) h.
Proof.
  intros h buf W Hb Hlen. pose proof W as (Wa & Wo & Wl & Wc & Wm).
  pose proof (sl_get_len h buf W) as L. unfold zlen in L.
  unfold Gen.UnmarshalUint, unmarshal_uint. cbv beta iota zeta.
  match goal with |- iter ?f _ _ _ = _ =>
    apply (gen_UnmarshalUint_loop (ns (sl_get h buf)) buf f 0 0 0 h W Hb); try lia; try reflexivity
  end.
  rewrite length_ns. lia.
Qed.
Print Assumptions gen_UnmarshalUint_refines.

(** * Byte strings *)

Lemma marshal_uint_cases v room : (v < 2^64)%N ->
  (marshal_uint v room = (WOk, enc_uint v) /\ (length (enc_uint v) <= room)%nat) \/
  (exists bs, marshal_uint v room = (WErr, bs)).
Proof.
  intros Hv. rewrite (marshal_uint_buffer v room Hv).
  destruct (Nat.ltb_spec room (length (enc_uint v))); [right; eexists; reflexivity|left; split; [reflexivity|lia]].
Qed.

Theorem gen_MarshalBytes_refines : forall h buf v,
  wf_slice h buf -> wf_slice h v -> s_arr buf <> s_arr v -> byte_list (sl_get h v) ->
  Gen.MarshalBytes v buf h =
  wr_result (marshal_bytes (ns (sl_get h v)) (Z.to_nat (s_len buf))) h buf.
Proof.
  intros h buf v W Wv Hne Hb. pose proof W as (Wa & Wo & Wl & Wc & Wm).
  pose proof Wv as (Va & Vo & Vl & Vc & Vm).
  pose proof (sl_get_len h v Wv) as L. unfold zlen in L.
  unfold Gen.MarshalBytes, marshal_bytes. cbv beta iota zeta. rewrite length_ns.
  assert (Hu : 0 <= u64 (s_len v) < 2 ^ 64) by (rewrite u64_small; lia).
  go_call (gen_MarshalUint_refines h buf (u64 (s_len v)) W Hu).
  rewrite u64_small by lia.
  replace (Z.to_N (s_len v)) with (N.of_nat (length (sl_get h v))) by lia.
  assert (HlN : (N.of_nat (length (sl_get h v)) < 2 ^ 64)%N)
    by (change (2^64)%N with 18446744073709551616%N; lia).
  destruct (marshal_uint_cases (N.of_nat (length (sl_get h v))) (Z.to_nat (s_len buf)) HlN)
    as [[E Hroom]|[bs E]]; rewrite E; cbn [fst snd w_n err_of is_nil negb].
  - (* the header fits *)
    set (hdr := enc_uint (N.of_nat (length (sl_get h v)))) in *.
    assert (W1 : wf_slice (sl_put h buf 0 (zs hdr)) buf)
      by (apply wf_slice_put; [exact W|lia|rewrite zlen_zs; lia|exact W]).
    assert (G : sl_get (sl_put h buf 0 (zs hdr)) v = sl_get h v)
      by (apply sl_get_put_other; assumption).
    go_run; unfold ret, wr_result; cbn [fst snd w_n err_of].
    + (* the body does not fit *) reflexivity.
    + (* copy(buf[idx:][:ln], v) *)
      go_unwrap. rewrite G. go_rebase buf.
      match goal with |- context [firstn ?n (sl_get h v)] =>
        replace n with (length (sl_get h v)) by lia end.
      rewrite firstn_all.
      match goal with |- context [sl_put _ buf ?o (sl_get h v)] =>
        replace o with (0 + zlen (zs hdr)) by (rewrite zlen_zs; lia) end.
      rewrite sl_put_put_adj by (try exact W; rewrite ?zlen_zs; lia).
      rewrite app_length, length_ns. unfold zs at 2. rewrite map_app. fold (zs hdr).
      fold (zs (ns (sl_get h v))). rewrite (zs_ns _ Hb). repeat f_equal. lia.
  - (* the header does not fit *)
    go_run. unfold ret, wr_result. cbn [fst snd w_n err_of]. reflexivity.
Qed.
Print Assumptions gen_MarshalBytes_refines.
