(** C15/C16, translator tie for the functions of xbinary/xbinary.go.

    [Gen_xbinary_fn.v] is produced by harness/cmd/go2coq from the Go source on
    every run.  This file proves that every generated function refines the
    hand-written model coq/model/XBinary.v (the model all C15/C16 theorems are
    about) and restates the headline theorems directly over the generated
    functions.  The proofs use the characterising lemmas of coq/lib/GoLite.v,
    one [destruct] per condition and [lia]; they do not mention generated
    variable names. *)
From Coq Require Import List NArith ZArith Arith Lia Bool.
From Coq Require Import ZifyBool ZifyN ZifyNat.
From GL Require Import lib.GoLite model.XBinary proofs.C15_XBinary.
From GLGEN Require Import Gen_xbinary_fn.
Import ListNotations.
Open Scope Z_scope.
Ltac Zify.zify_post_hook ::= Z.div_mod_to_equations.

(** * Vocabulary shared by the statements *)

Definition zs (l : list N) : list Z := map Z.of_N l.
Definition ns (l : list Z) : list N := map Z.to_N l.
Definition byte_list (l : list Z) : Prop := Forall (fun b => 0 <= b < 256) l.

Definition err_of (w : wres) : error := match w with WOk => ENil | _ => Err end.

(* what a Marshal function does according to the model result r: it returns
   (n, err) and has stored the bytes [snd r] at the front of buf; nothing else
   in the heap changes *)
Definition wr_result (r : wres * list N) (h : heap) (buf : gslice) : outcome ((Z * error) * heap) :=
  Ok ((Z.of_nat (w_n r), err_of (fst r)), sl_put h buf 0 (zs (snd r))).

(* what a scalar Unmarshal function does according to the model result *)
Definition rd_result (r : dres N) (h : heap) : outcome ((Z * Z * error) * heap) :=
  match r with
  | DOk n v => Ok ((Z.of_nat n, Z.of_N v, ENil), h)
  | DErr => Ok ((0, 0, Err), h)
  | DPanic => GoPanic
  end.

Lemma zs_ns l : byte_list l -> zs (ns l) = l.
Proof.
  unfold zs, ns. induction 1 as [|b t Hb _ IH]; [reflexivity|].
  cbn [map]. rewrite IH. f_equal. lia.
Qed.

Lemma length_ns l : length (ns l) = length l.
Proof. apply map_length. Qed.
Lemma length_zs l : length (zs l) = length l.
Proof. apply map_length. Qed.
Lemma zlen_zs l : zlen (zs l) = Z.of_nat (length l).
Proof. unfold zlen. rewrite length_zs. reflexivity. Qed.

Lemma nth_ns l i : nth i (ns l) 0%N = Z.to_N (nth i l 0).
Proof. unfold ns. apply (map_nth Z.to_N l 0 i). Qed.

Ltac go_ret := unfold ret.

(** * Fixed width *)

Theorem gen_MarshalByte_refines : forall h buf v, wf_slice h buf -> 0 <= v ->
  Gen.MarshalByte v buf h = wr_result (marshal_byte (Z.to_N v) (Z.to_nat (s_len buf))) h buf.
Proof.
  intros h buf v W Hv. unfold Gen.MarshalByte, marshal_byte, wr_result.
  repeat match goal with |- context [if ?c then _ else _] => destruct c eqn:? end; try lia.
  - go_ret. cbn [fst snd w_n err_of zs map]. rewrite sl_put_nil by exact W. reflexivity.
  - go_step. go_ret. cbn [fst snd w_n err_of zs map length]. do 4 f_equal. lia.
Qed.

Lemma byte_list_nonneg l : byte_list l -> Forall (fun b => 0 <= b) l.
Proof. apply Forall_impl. intros; lia. Qed.

Lemma zs_ns_nonneg l : Forall (fun b => 0 <= b) l -> zs (ns l) = l.
Proof.
  unfold zs, ns. induction 1 as [|b t Hb _ IH]; [reflexivity|].
  cbn [map]. rewrite IH. f_equal. lia.
Qed.

Theorem gen_UnmarshalByte_refines : forall h buf, wf_slice h buf -> byte_list (sl_get h buf) ->
  Gen.UnmarshalByte buf h = rd_result (unmarshal_byte (ns (sl_get h buf))) h.
Proof.
  intros h buf W Hb. pose proof (sl_get_len h buf W) as L.
  unfold Gen.UnmarshalByte, unmarshal_byte, rd_result.
  destruct (sl_get h buf) as [|b t] eqn:E; unfold zlen in L; cbn [length ns map] in *;
    repeat match goal with |- context [if ?c then _ else _] => destruct c eqn:? end; try lia.
  - reflexivity.
  - go_step. rewrite E. go_ret. unfold znth. cbn [Z.to_nat nth].
    inversion Hb; subst. do 3 f_equal. f_equal. lia.
Qed.

(* encoding/binary.BigEndian as modelled in GoLite = the model's put_be/get_be *)
Lemma be_bytes_put k v : 0 <= v -> be_bytes k v = zs (put_be k (Z.to_N v)).
Proof.
  intros Hv. induction k as [|k IH]; [reflexivity|].
  cbn [be_bytes put_be zs map]. fold (zs (put_be k (Z.to_N v))). rewrite <- IH. f_equal.
  rewrite N2Z.inj_mod, N2Z_shiftr, N2Z.inj_mul, nat_N_Z, Z2N.id by exact Hv. reflexivity.
Qed.

Lemma be_val_get l : Forall (fun b => 0 <= b) l -> be_val l = Z.of_N (get_be (ns l)).
Proof.
  induction 1 as [|b t Hb _ IH]; [reflexivity|].
  cbn [be_val get_be ns map]. fold (ns t). rewrite N2Z_lor, N2Z_shiftl, <- IH.
  rewrite N2Z.inj_mul, nat_N_Z, length_ns, Z2N.id by exact Hb. reflexivity.
Qed.

Lemma firstn_ns k l : firstn k (ns l) = ns (firstn k l).
Proof. unfold ns. apply firstn_map. Qed.

Lemma Forall_firstn_z {P : Z -> Prop} k l : Forall P l -> Forall P (firstn k l).
Proof.
  revert l. induction k as [|k IH]; intros l H; [constructor|].
  destruct H as [|b t Hb Ht]; [constructor|]. cbn [firstn]. constructor; [exact Hb|apply IH; exact Ht].
Qed.

Ltac fixed_marshal W :=
  unfold marshal_fixed, wr_result;
  repeat match goal with |- context [if ?c then _ else _] => destruct c eqn:? end; try lia;
  [ go_ret; cbn [fst snd w_n err_of zs map]; rewrite sl_put_nil by exact W; reflexivity
  | go_step; go_ret; cbn [fst snd w_n err_of]; rewrite put_be_length, be_bytes_put by assumption; reflexivity ].

Theorem gen_MarshalUint16_refines : forall h buf v, wf_slice h buf -> 0 <= v ->
  Gen.MarshalUint16 v buf h = wr_result (marshal_fixed 2 (Z.to_N v) (Z.to_nat (s_len buf))) h buf.
Proof. intros h buf v W Hv. unfold Gen.MarshalUint16. fixed_marshal W. Qed.

Theorem gen_MarshalUint32_refines : forall h buf v, wf_slice h buf -> 0 <= v ->
  Gen.MarshalUint32 v buf h = wr_result (marshal_fixed 4 (Z.to_N v) (Z.to_nat (s_len buf))) h buf.
Proof. intros h buf v W Hv. unfold Gen.MarshalUint32. fixed_marshal W. Qed.

Theorem gen_MarshalUint64_refines : forall h buf v, wf_slice h buf -> 0 <= v ->
  Gen.MarshalUint64 v buf h = wr_result (marshal_fixed 8 (Z.to_N v) (Z.to_nat (s_len buf))) h buf.
Proof. intros h buf v W Hv. unfold Gen.MarshalUint64. fixed_marshal W. Qed.

Ltac fixed_unmarshal W Hb :=
  let L := fresh "L" in
  pose proof (sl_get_len _ _ W) as L; unfold zlen in L;
  unfold unmarshal_fixed, rd_result; rewrite length_ns;
  repeat match goal with |- context [if ?c then _ else _] => destruct c eqn:? end; try lia;
  [ reflexivity
  | go_step; go_ret; rewrite firstn_ns, be_val_get by (apply Forall_firstn_z, byte_list_nonneg, Hb);
    reflexivity ].

Theorem gen_UnmarshalUint16_refines : forall h buf, wf_slice h buf -> byte_list (sl_get h buf) ->
  Gen.UnmarshalUint16 buf h = rd_result (unmarshal_fixed 2 (ns (sl_get h buf))) h.
Proof. intros h buf W Hb. unfold Gen.UnmarshalUint16. fixed_unmarshal W Hb. Qed.

Theorem gen_UnmarshalUint32_refines : forall h buf, wf_slice h buf -> byte_list (sl_get h buf) ->
  Gen.UnmarshalUint32 buf h = rd_result (unmarshal_fixed 4 (ns (sl_get h buf))) h.
Proof. intros h buf W Hb. unfold Gen.UnmarshalUint32. fixed_unmarshal W Hb. Qed.

Theorem gen_UnmarshalUint64_refines : forall h buf, wf_slice h buf -> byte_list (sl_get h buf) ->
  Gen.UnmarshalUint64 buf h = rd_result (unmarshal_fixed 8 (ns (sl_get h buf))) h.
Proof. intros h buf W Hb. unfold Gen.UnmarshalUint64. fixed_unmarshal W Hb. Qed.

(** * Variable-length uint: MarshalUint *)

(* bit operations of the two sides as arithmetic *)
Lemma N_land127 v : N.land v 127 = (v mod 128)%N.
Proof. exact (land127 v). Qed.

Lemma Z_to_N_shr7 v : 0 <= v -> Z.to_N (shr v 7) = N.shiftr (Z.to_N v) 7.
Proof.
  intros Hv. unfold shr. apply N2Z.inj. rewrite N2Z_shiftr, !Z2N.id; try lia.
  - reflexivity.
  - rewrite Z.shiftr_div_pow2 by lia. apply Z.div_pos; lia.
Qed.

(* 128 | byte(v & 127) on both sides *)
Lemma cont_byte v : 0 <= v ->
  Z.lor 128 (u8 (Z.land v 127)) = Z.of_N (N.lor 128 (N.land (Z.to_N v) 127)).
Proof.
  intros Hv. rewrite N2Z_lor, N2Z_land, Z2N.id by exact Hv.
  change (Z.of_N 128) with 128. change (Z.of_N 127) with 127.
  rewrite u8_small; [reflexivity|]. rewrite zland127. lia.
Qed.

(* what the loop of MarshalUint does from the state (v, idx), by induction on
   the fuel of the model; the fuel of the generated loop only has to exceed the
   room that is left *)
Lemma gen_MarshalUint_loop : forall mf buf f v idx h,
  wf_slice h buf -> 0 <= idx <= s_len buf -> 0 <= v ->
  (Z.to_nat (s_len buf - idx) < f)%nat ->
  fst (marshal_uint_go mf (Z.to_N v) (Z.to_nat (s_len buf - idx))) <> WFuel ->
  iter f (Gen.MarshalUint_loop1 buf) (v, idx) h =
  let r := marshal_uint_go mf (Z.to_N v) (Z.to_nat (s_len buf - idx)) in
  Ok ((match fst r with WOk => idx + zlen (snd r) | _ => 0 end, err_of (fst r)),
      sl_put h buf idx (zs (snd r))).
Proof.
  induction mf as [|mf IH]; intros buf f v idx h W Hidx Hv Hf Hne.
  - cbn in Hne. congruence.
  - destruct f as [|f]; [lia|]. rewrite iter_S. unfold Gen.MarshalUint_loop1 at 1.
    cbn [marshal_uint_go] in *.
    pose proof W as (Wa & Wo & Wl & Wc & Wm).
    destruct (Z.to_nat (s_len buf - idx)) as [|room] eqn:Eroom; go_run;
    lazymatch goal with
         | |- iter _ _ _ _ = _ =>
             (* a continuation byte was stored; the rest by induction *)
             go_unwrap;
             assert (Hv' : 0 <= shr v 7)
               by (unfold shr; rewrite Z.shiftr_div_pow2 by lia; apply Z.div_pos; lia);
             assert (Er : Z.to_nat (s_len buf - (idx + 1)) = room) by lia;
             match goal with |- iter _ _ _ ?h' = _ =>
               assert (W' : wf_slice h' buf)
                 by (apply wf_slice_put; [exact W|lia|unfold zlen; cbn [length]; lia|exact W])
             end;
             specialize (IH buf f (shr v 7) (idx + 1) _ W' ltac:(lia) Hv' ltac:(lia));
             rewrite Er, Z_to_N_shr7 in IH by exact Hv;
             destruct (marshal_uint_go mf (N.shiftr (Z.to_N v) 7) room) as [st bs] eqn:Em;
             cbn [fst snd] in *; rewrite IH by exact Hne; cbn [zs map]; fold (zs bs);
             rewrite <- cont_byte by exact Hv;
             match goal with |- context [sl_put (sl_put h buf idx [?x]) buf (idx + 1) ?d] =>
               replace (idx + 1) with (idx + zlen [x]) by reflexivity;
               rewrite (sl_put_put_adj h buf idx [x] d W) by (unfold zlen; cbn [length]; lia)
             end;
             cbn [app]; f_equal; f_equal; f_equal;
             destruct st; try reflexivity; unfold zlen; cbn [length]; lia
         | |- _ =>
             (* the loop ended here: buffer exhausted, or the last byte stored *)
             unfold ret; go_unwrap; cbn [fst snd err_of zs map];
             rewrite ?(sl_put_nil h buf idx W); rewrite ?u8_small, ?Z2N.id by lia;
             unfold zlen; cbn [length]; reflexivity
         end.
Qed.
