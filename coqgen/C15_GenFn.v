(** C15/C16, translator tie for the functions of xbinary/xbinary.go.

    [Gen_xbinary_fn.v] is produced by harness/cmd/go2coq from the Go source on
    every run.  This file proves that every generated function refines the
    hand-written model coq/model/XBinary.v (the model all C15/C16 theorems are
    about) and restates the headline theorems directly over the generated
    functions.  The proofs use the characterising lemmas of coq/lib/GoLite.v,
    one [destruct] per condition and [lia]; they do not mention generated
    variable names. *)
From Coq Require Import List NArith ZArith Arith Lia Bool.
From Coq Require Import ZifyBool ZifyN ZifyNat.
From GL Require Import lib.GoLite model.XBinary proofs.C15_XBinary.
From GLGEN Require Import XB_GenVocab Gen_xbinary_fn C15_GenFn_varint C15_GenFn_size.
Import ListNotations.
Open Scope Z_scope.
Ltac Zify.zify_post_hook ::= Z.div_mod_to_equations.

Ltac Zify.zify_post_hook ::= Z.div_mod_to_equations.

Theorem gen_MarshalBytes_refines : forall h buf v,
  wf_slice h buf -> wf_slice h v -> s_arr buf <> s_arr v -> byte_list (sl_get h v) ->
  Gen.MarshalBytes v buf h =
  wr_result (marshal_bytes (ns (sl_get h v)) (Z.to_nat (s_len buf))) h buf.
Proof.
  intros h buf v W Wv Hne Hb. pose proof W as (Wa & Wo & Wl & Wc & Wm).
  pose proof Wv as (Va & Vo & Vl & Vc & Vm).
  pose proof (sl_get_len h v Wv) as L. unfold zlen in L.
  unfold Gen.MarshalBytes, marshal_bytes. cbv beta iota zeta. rewrite length_ns.
  assert (Hu : 0 <= u64 (s_len v) < 2 ^ 64) by (rewrite u64_small; lia).
  go_call (gen_MarshalUint_refines h buf (u64 (s_len v)) W Hu).
  rewrite u64_small by lia.
  replace (Z.to_N (s_len v)) with (N.of_nat (length (sl_get h v))) by lia.
  assert (HlN : (N.of_nat (length (sl_get h v)) < 2 ^ 64)%N)
    by (change (2^64)%N with 18446744073709551616%N; lia).
  destruct (marshal_uint_cases (N.of_nat (length (sl_get h v))) (Z.to_nat (s_len buf)) HlN)
    as [[E Hroom]|[bs E]]; rewrite E; cbn [fst snd w_n err_of is_nil negb].
  - (* the header fits *)
    set (hdr := enc_uint (N.of_nat (length (sl_get h v)))) in *.
    assert (W1 : wf_slice (sl_put h buf 0 (zs hdr)) buf)
      by (apply wf_slice_put; [exact W|lia|rewrite zlen_zs; lia|exact W]).
    assert (G : sl_get (sl_put h buf 0 (zs hdr)) v = sl_get h v)
      by (apply sl_get_put_other; assumption).
    go_run; unfold ret, wr_result; cbn [fst snd w_n err_of].
    + (* the body does not fit *) reflexivity.
    + (* copy(buf[idx:][:ln], v) *)
      go_unwrap. rewrite G. go_rebase buf.
      match goal with |- context [firstn ?n (sl_get h v)] =>
        replace n with (length (sl_get h v)) by lia end.
      rewrite firstn_all.
      match goal with |- context [sl_put _ buf ?o (sl_get h v)] =>
        replace o with (0 + zlen (zs hdr)) by (rewrite zlen_zs; lia) end.
      rewrite sl_put_put_adj by (try exact W; rewrite ?zlen_zs; lia).
      rewrite app_length, length_ns. unfold zs at 2. rewrite map_app. fold (zs hdr).
      fold (zs (ns (sl_get h v))). rewrite (zs_ns _ Hb). repeat f_equal. lia.
  - (* the header does not fit *)
    go_run. unfold ret, wr_result. cbn [fst snd w_n err_of]. reflexivity.
Qed.

Print Assumptions gen_MarshalBytes_refines.

(* container.SliceCopy: a fresh array holding the elements of v *)

Lemma gen_SliceCopy_spec h v : wf_slice h v ->
  Gen.SliceCopy v h = Ok (mkSl (length h) 0 (s_len v) (s_len v), h ++ [sl_get h v]).
Proof.
  intros W. pose proof W as (Wa & Wo & Wl & Wc & Wm).
  pose proof (sl_get_len h v W) as L. unfold zlen in L.
  unfold Gen.SliceCopy. go_run. unfold ret.
  rewrite sl_get_grow by exact W.
  match goal with |- context [firstn ?n (sl_get h v)] =>
    replace n with (length (sl_get h v)) by lia end.
  rewrite firstn_all, sl_put_new by (unfold zlen; lia). reflexivity.
Qed.

Theorem gen_UnmarshalBytes_refines : forall h buf extra newBuf,
  wf_slice h buf -> byte_list (sl_get h buf) -> 7 * s_len buf < 18446744073709551616 ->
  Gen.UnmarshalBytes buf newBuf h =
  rdb_result (unmarshal_bytes (ns (sl_get h buf)) extra newBuf) h buf.
Proof.
  intros h buf extra newBuf W Hb Hlen. pose proof W as (Wa & Wo & Wl & Wc & Wm).
  pose proof (sl_get_len h buf W) as L. unfold zlen in L.
  unfold Gen.UnmarshalBytes.
  pose proof (gen_UnmarshalUint_refines h buf W Hb Hlen) as R.
  pose proof (unmarshal_uint_bounds (ns (sl_get h buf))) as Hbd.
  destruct (unmarshal_uint (ns (sl_get h buf))) as [idx uln| |] eqn:Eu;
    [|unfold unmarshal_bytes; rewrite Eu; go_call R; reflexivity|contradiction].
  unfold rd_result in R. go_call R.
  rewrite length_ns in Hbd.
  assert (HlenN : (Z.of_nat (length (ns (sl_get h buf))) < two63Z)) by (rewrite length_ns; unfold two63Z; lia).
  rewrite (unmarshal_bytes_spec _ extra newBuf idx uln HlenN Eu) by (rewrite length_ns; lia).
  rewrite length_ns. cbv beta iota zeta. cbn [is_nil negb].
  go_unwrap.
  destruct (N.ltb_spec (N.of_nat (length (sl_get h buf) - idx)) uln) as [Hlt|Hge].
  - (* the length prefix exceeds what is left *)
    go_run; reflexivity.
  - assert (Hd : ns (zsub (sl_cap h buf) (Z.of_nat idx) (Z.of_N uln)) =
                 firstn (N.to_nat uln) (skipn idx (ns (sl_get h buf)))).
    { rewrite skipn_ns, firstn_ns. f_equal. rewrite sl_get_cap by exact W. unfold zsub.
      rewrite Nat2Z.id. rewrite skipn_firstn_comm, firstn_firstn. f_equal. lia. }
    assert (Hbl : byte_list (zsub (sl_cap h buf) (Z.of_nat idx) (Z.of_N uln))).
    { rewrite sl_get_cap in Hb by exact W. unfold zsub. rewrite Nat2Z.id.
      replace (firstn (Z.to_nat (Z.of_N uln)) (skipn idx (sl_cap h buf)))
        with (firstn (Z.to_nat (Z.of_N uln)) (skipn idx (firstn (Z.to_nat (s_len buf)) (sl_cap h buf))))
        by (rewrite skipn_firstn_comm, firstn_firstn; f_equal; lia).
      apply Forall_firstn_z. unfold byte_list in Hb. rewrite Forall_forall in *. intros x Hx. apply Hb.
      rewrite <- (firstn_skipn idx (firstn _ _)). apply in_or_app. right. exact Hx. }
    assert (Hdl : Z.of_nat (length (firstn (N.to_nat uln) (skipn idx (ns (sl_get h buf))))) = Z.of_N uln)
      by (rewrite firstn_length, skipn_length, length_ns; lia).
    unfold rdb_result. cbn [v_alias v_data v_off].
    go_run; go_unwrap.
    + (* newBuf: a copy *)
      match goal with |- context [Gen.SliceCopy ?s] =>
        assert (Ws : wf_slice h s) by (apply wf_reslice; [exact W|lia|lia]);
        go_call (gen_SliceCopy_spec h s Ws);
        pose proof (sl_get_reslice h buf (Z.of_nat idx) (Z.of_nat idx + Z.of_N uln) W ltac:(lia) ltac:(lia)) as G
      end.
      replace (Z.of_nat idx + Z.of_N uln - Z.of_nat idx) with (Z.of_N uln) in * by lia.
      rewrite G. cbv beta iota zeta. unfold ret. cbn [s_len]. rewrite Hdl, <- Hd, (zs_ns _ Hbl).
      repeat f_equal; lia.
    + (* the sub-slice itself *)
      unfold ret. rewrite Hdl. repeat f_equal; lia.
Qed.

Print Assumptions gen_UnmarshalBytes_refines.

Theorem gen_MarshalString_refines : forall h buf v,
  wf_slice h buf -> wf_slice h v -> s_arr buf <> s_arr v -> byte_list (sl_get h v) ->
  Gen.MarshalString v buf h =
  wr_result (marshal_string (ns (sl_get h v)) (Z.to_nat (s_len buf))) h buf.
Proof. intros. unfold Gen.MarshalString, cast_id, marshal_string. apply gen_MarshalBytes_refines; assumption. Qed.

Theorem gen_UnmarshalString_refines : forall h buf extra newBuf,
  wf_slice h buf -> byte_list (sl_get h buf) -> 7 * s_len buf < 18446744073709551616 ->
  Gen.UnmarshalString buf newBuf h =
  rdb_result (unmarshal_string (ns (sl_get h buf)) extra newBuf) h buf.
Proof.
  intros h buf extra newBuf W Hb Hlen. unfold Gen.UnmarshalString, unmarshal_string, cast_id.
  pose proof (gen_UnmarshalBytes_refines h buf extra newBuf W Hb Hlen) as R.
  destruct (unmarshal_bytes (ns (sl_get h buf)) extra newBuf) as [n v| |];
    unfold rdb_result in *; [destruct (v_alias v)| |]; cbv beta iota zeta in R;
    try (go_call R; reflexivity).
  unfold bind. rewrite R. reflexivity.
Qed.

(* MarshalUint then UnmarshalUint on the same buffer *)

Theorem gen_uint_roundtrip : forall h buf v,
  wf_slice h buf -> byte_list (sl_get h buf) -> 7 * s_len buf < 18446744073709551616 ->
  0 <= v < 2 ^ 64 -> Gen.WritableUintSize v <= s_len buf ->
  exists h', Gen.MarshalUint v buf h = Ok ((Gen.WritableUintSize v, ENil), h') /\
             Gen.UnmarshalUint buf h' = Ok ((Gen.WritableUintSize v, v, ENil), h') /\
             wf_slice h' buf /\
             sl_get h' buf = zs (enc_uint (Z.to_N v)) ++ skipn (length (enc_uint (Z.to_N v))) (sl_get h buf).
Proof.
  intros h buf v W Hb Hlen Hv Hsz. pose proof W as (Wa & Wo & Wl & Wc & Wm).
  assert (HvN : (Z.to_N v < 2^64)%N) by (change (2^64)%N with 18446744073709551616%N; change (2^64) with 18446744073709551616 in Hv; lia).
  rewrite gen_WritableUintSize_refines in * by exact Hv.
  rewrite <- (uint_size _ HvN) in *.
  set (enc := enc_uint (Z.to_N v)) in *.
  assert (Hm : marshal_uint (Z.to_N v) (Z.to_nat (s_len buf)) = (WOk, enc)).
  { rewrite (marshal_uint_buffer _ _ HvN). fold enc.
    destruct (Nat.ltb_spec (Z.to_nat (s_len buf)) (length enc)); [lia|reflexivity]. }
  exists (sl_put h buf 0 (zs enc)).
  assert (W' : wf_slice (sl_put h buf 0 (zs enc)) buf)
    by (apply wf_slice_put; [exact W|lia|rewrite zlen_zs; lia|exact W]).
  assert (G : sl_get (sl_put h buf 0 (zs enc)) buf = zs enc ++ skipn (length enc) (sl_get h buf)).
  { rewrite sl_get_after_put by (try exact W; rewrite zlen_zs; lia). rewrite length_zs. reflexivity. }
  split; [|split; [|split; [exact W'|exact G]]].
  - rewrite gen_MarshalUint_refines by assumption. rewrite Hm. reflexivity.
  - rewrite gen_UnmarshalUint_refines; try assumption.
    + rewrite G, ns_app, ns_zs. rewrite (uint_roundtrip _ _ HvN). fold enc.
      unfold rd_result. rewrite Z2N.id by lia. reflexivity.
    + rewrite G. apply byte_list_app; [apply byte_list_zs, enc_uint_wf|apply byte_list_skipn; exact Hb].
Qed.

Print Assumptions gen_uint_roundtrip.

(* MarshalBytes then UnmarshalBytes on the same buffer *)

Theorem gen_bytes_roundtrip : forall h buf v newBuf,
  wf_slice h buf -> wf_slice h v -> s_arr buf <> s_arr v ->
  byte_list (sl_get h buf) -> byte_list (sl_get h v) ->
  7 * s_len buf < 18446744073709551616 -> s_len v + 10 < 9223372036854775808 ->
  Gen.WritebleBytesSize v <= s_len buf ->
  exists h' res h'',
    Gen.MarshalBytes v buf h = Ok ((Gen.WritebleBytesSize v, ENil), h') /\
    Gen.UnmarshalBytes buf newBuf h' = Ok ((Gen.WritebleBytesSize v, res, ENil), h'') /\
    sl_get h'' res = sl_get h v /\
    (newBuf = false -> h'' = h' /\ s_arr res = s_arr buf) /\
    (newBuf = true -> s_arr res = length h' /\ h'' = h' ++ [sl_get h v]).
Proof.
  intros h buf v newBuf W Wv Hne Hb Hbv Hlen Hov Hsz.
  pose proof W as (Wa & Wo & Wl & Wc & Wm). pose proof Wv as (Va & Vo & Vl & Vc & Vm).
  pose proof (sl_get_len h v Wv) as Lv. unfold zlen in Lv.
  rewrite (gen_WritebleBytesSize_refines h v Wv Hov) in *.
  set (l := ns (sl_get h v)) in *.
  assert (Hl : length l = length (sl_get h v)) by apply length_ns.
  assert (HlN : (N.of_nat (length l) < 2 ^ 64)%N) by (change (2^64)%N with 18446744073709551616%N; lia).
  destruct (bytes_size l HlN) as [Hsize _].
  assert (Hm : marshal_bytes l (Z.to_nat (s_len buf)) = (WOk, ow_bytes l)).
  { rewrite (bytes_buffer l _ HlN).
    destruct (Nat.ltb_spec (Z.to_nat (s_len buf)) (writable_bytes_size l)); [lia|reflexivity]. }
  set (enc := ow_bytes l) in *.
  set (h' := sl_put h buf 0 (zs enc)).
  assert (W' : wf_slice h' buf)
    by (apply wf_slice_put; [exact W|lia|rewrite zlen_zs; lia|exact W]).
  assert (G : sl_get h' buf = zs enc ++ skipn (length enc) (sl_get h buf)).
  { unfold h'. rewrite sl_get_after_put by (try exact W; rewrite zlen_zs; lia). rewrite length_zs. reflexivity. }
  assert (Hb' : byte_list (sl_get h' buf)).
  { rewrite G. apply byte_list_app; [|apply byte_list_skipn; exact Hb].
    unfold enc, ow_bytes. rewrite (ow_uint_enc _ HlN). unfold zs. rewrite map_app.
    apply byte_list_app; [apply byte_list_zs, enc_uint_wf|].
    fold (zs l). unfold l. rewrite zs_ns by exact Hbv. exact Hbv. }
  assert (L' : zlen (sl_get h' buf) = s_len buf) by (apply sl_get_len; exact W').
  pose proof (gen_UnmarshalBytes_refines h' buf [] newBuf W' Hb' Hlen) as R.
  rewrite G, ns_app, ns_zs in R.
  rewrite (bytes_roundtrip l _ [] newBuf) in R.
  2:{ pose proof (sl_get_len h buf W) as Lb. unfold zlen in Lb.
      rewrite app_length, length_ns, skipn_length. fold enc. unfold two63Z. lia. }
  unfold rdb_result in R. cbn [v_alias v_data v_off] in R. fold enc in R.
  assert (Hhdr : enc = enc_uint (N.of_nat (length l)) ++ l)
    by (unfold enc, ow_bytes; rewrite (ow_uint_enc _ HlN); reflexivity).
  set (hdr := enc_uint (N.of_nat (length l))) in *.
  assert (Hzl : zs l = sl_get h v) by (unfold l; apply zs_ns; exact Hbv).
  assert (Ehl : (length hdr + length l = length enc)%nat) by (rewrite Hhdr, app_length; reflexivity).
  rewrite Hsize in R.
  destruct newBuf; cbn [negb] in R.
  - (* a fresh copy *)
    eexists h', _, _. split; [|split; [exact R|]].
    + rewrite gen_MarshalBytes_refines by assumption. fold l. rewrite Hm. unfold wr_result, w_n.
      cbn [fst snd err_of]. fold enc. rewrite Hsize. reflexivity.
    + rewrite Hzl. split; [|split; [discriminate|intros _; split; reflexivity]].
      unfold sl_get at 1. cbn [s_arr s_off s_len]. rewrite arr_get_new.
      rewrite Hl. apply zsub_all.
  - (* the sub-slice of the input *)
    eexists h', _, _. split; [|split; [exact R|]].
    + rewrite gen_MarshalBytes_refines by assumption. fold l. rewrite Hm. unfold wr_result, w_n.
      cbn [fst snd err_of]. fold enc. rewrite Hsize. reflexivity.
    + split; [|split; [intros _; split; reflexivity|discriminate]].
      pose proof (sl_get_reslice_len h' buf (Z.of_nat (length hdr)) (Z.of_nat (length hdr) + Z.of_nat (length l)) W'
                    ltac:(lia) ltac:(lia)) as S.
      replace (Z.of_nat (length hdr) + Z.of_nat (length l) - Z.of_nat (length hdr)) with (Z.of_nat (length l)) in S by lia.
      rewrite S, G, Hhdr. unfold zs. rewrite map_app, <- app_assoc. fold (zs hdr). fold (zs l).
      rewrite <- (length_zs hdr), <- (length_zs l). rewrite Hzl.
      apply (zsub_app_mid (zs hdr) (sl_get h v)).
Qed.

Print Assumptions gen_bytes_roundtrip.

Example gen_ex_run :
  let h : heap := [repeat 0 8; [104; 105; 33]; [200; 3; 7]] in
  let buf := mkSl 0 0 8 8 in
  let v := mkSl 1 0 3 3 in
  wf_slice h buf /\ wf_slice h v /\
  (* MarshalBytes writes the header 3 and the body, UnmarshalBytes finds the
     body as the sub-slice buf[1:4] *)
  (match Gen.MarshalBytes v buf h with
   | Ok ((n, e), h') =>
       n = 4 /\ e = ENil /\ sl_get h' buf = [3; 104; 105; 33; 0; 0; 0; 0] /\
       Gen.UnmarshalBytes buf false h' = Ok ((4, mkSl 0 1 3 7, ENil), h') /\
       Gen.UnmarshalBytes buf true h' = Ok ((4, mkSl 3 0 3 3, ENil), h' ++ [[104; 105; 33]])
   | _ => False
   end) /\
  (* 300 = 0xAC 0x02 *)
  (match Gen.MarshalUint 300 buf h with
   | Ok ((n, e), h') => n = 2 /\ e = ENil /\ sl_get h' buf = [172; 2; 0; 0; 0; 0; 0; 0] /\
                        Gen.UnmarshalUint buf h' = Ok ((2, 300, ENil), h')
   | _ => False
   end) /\
  (* a buffer that is too short: error after the bytes that fit were stored *)
  Gen.MarshalUint 300 (mkSl 0 0 1 8) h = Ok ((0, Err), [[172; 0; 0; 0; 0; 0; 0; 0]; [104; 105; 33]; [200; 3; 7]]) /\
  (* a truncated varint: error, not a panic *)
  Gen.UnmarshalUint (mkSl 2 0 1 3) h = Ok ((0, 0, Err), h) /\
  Gen.UnmarshalUint (mkSl 2 0 2 3) h = Ok ((2, 456, ENil), h) /\
  Gen.WritebleBytesSize v = 4.
Proof.
  cbv zeta. split; [unfold wf_slice, zlen; cbn; lia|]. split; [unfold wf_slice, zlen; cbn; lia|].
  vm_compute. repeat split; reflexivity.
Qed.
