(** Vocabulary of the C12 tie (coqgen/C12_GenFn*.v): how the Go heap of the
    translated [futures] methods of /repo/timeout/timeout.go represents a state
    of the hand-written model/THeap.v, and a symbolic-execution tactic for the
    object layer of GoLite.  Independent of the generated file.

    Objects: a [*future] is an object id (GoLite object layer): the future
    [x : fid] of the model is the pointer [Z.of_N x], its fields live in heap
    array [x - 1] as [f; fireT; idx] (declaration order).  [time.Time] is an
    opaque value compared by the parameter [time_Before], instantiated with
    [<?] on Z ([before]). *)
From Coq Require Import List ZArith NArith Bool Lia.
From GL Require Import lib.GoLite model.THeap proofs.C12_THeap.
Import ListNotations.
Open Scope Z_scope.

Definition ptr (x : fid) : Z := Z.of_N x.
Definition before (a b : Z) : M bool := ret (a <? b).
Notation oarr x := (obj_arr (ptr x)) (only parsing).

Lemma oarr_inj x y : x <> 0%N -> y <> 0%N -> oarr x = oarr y -> x = y.
Proof. unfold obj_arr, ptr. lia. Qed.

Lemma ptr_pos x : x <> 0%N -> 0 < ptr x.
Proof. unfold ptr. lia. Qed.

(** * the representation relation *)

Definition obj_is (h : heap) (m : fheap) (x : fid) : Prop :=
  exists fv, arr_get h (oarr x) = [fv; fireT (get (hs m) x); idx (get (hs m) x)].

(* D: the futures that exist (allocated objects) *)
Definition rel (D : list fid) (h : heap) (fs : gslice) (m : fheap) : Prop :=
  wf_slice h fs /\ sl_get h fs = map ptr (arr m) /\ (forall x, In x (arr m) -> x = 0%N \/ In x D) /\
  forall x, In x D -> x <> 0%N /\ (oarr x < length h)%nat /\ oarr x <> s_arr fs /\ obj_is h m x.

Lemma rel_len D h fs m : rel D h fs m -> s_len fs = f_len m.
Proof.
  intros (W & A & _). rewrite <- (sl_get_len h fs W), A. unfold zlen, f_len. rewrite map_length. reflexivity.
Qed.

Lemma rel_nth D h fs m i : rel D h fs m -> znth (sl_get h fs) i = ptr (aget (arr m) i).
Proof.
  intros (W & A & _). rewrite A. unfold znth, aget. change 0 with (ptr 0%N). apply map_nth.
Qed.

(* with no nil slot: the elements are allocated futures *)
Lemma rel_in D h fs m i : rel D h fs m -> incl (arr m) D -> 0 <= i < s_len fs -> In (aget (arr m) i) D.
Proof.
  intros R S Hi. pose proof (rel_len _ _ _ _ R) as L.
  apply S. unfold aget. apply nth_In. unfold f_len in L. lia.
Qed.

Lemma rel_nz D h fs m x : rel D h fs m -> In x D -> 0 < ptr x.
Proof. intros (_ & _ & _ & O) Hx. apply ptr_pos. apply (O x Hx). Qed.

Lemma rel_fld1 D h fs m x : rel D h fs m -> In x D -> nth 1 (arr_get h (oarr x)) 0 = fireT (get (hs m) x).
Proof. intros (_ & _ & _ & O) Hx. destruct (O x Hx) as (_ & _ & _ & fv & E). rewrite E. reflexivity. Qed.

Lemma rel_fld2 D h fs m x : rel D h fs m -> In x D -> nth 2 (arr_get h (oarr x)) 0 = idx (get (hs m) x).
Proof. intros (_ & _ & _ & O) Hx. destruct (O x Hx) as (_ & _ & _ & fv & E). rewrite E. reflexivity. Qed.

Lemma in_range_iff D h fs m i : rel D h fs m -> in_range m i = true <-> 0 <= i < s_len fs.
Proof. intros R. rewrite (rel_len _ _ _ _ R). unfold in_range. lia. Qed.

(** * list facts *)

Lemma zsplice_map_aset (l : list fid) k x : (k < length l)%nat ->
  zsplice (map ptr l) (Z.of_nat k) [ptr x] = map ptr (aset_nat l k x).
Proof.
  unfold zsplice. rewrite Nat2Z.id. cbn [length app]. revert k.
  induction l as [|a l IH]; intros k Hk; cbn [length] in Hk; [lia|].
  destruct k as [|k]; cbn [aset_nat map firstn skipn app Nat.add].
  - reflexivity.
  - f_equal. apply IH. lia.
Qed.

Lemma In_aset_nat (l : list fid) k x y : In y (aset_nat l k x) -> y = x \/ In y l.
Proof.
  revert k. induction l as [|a l IH]; intros k H; [destruct k; contradiction|].
  destruct k as [|k]; cbn [aset_nat In] in *.
  - destruct H; auto.
  - destruct H as [H|H]; [auto|]. destruct (IH _ H); auto.
Qed.

Lemma aget_aset_same (l : list fid) i x : 0 <= i < Z.of_nat (length l) -> aget (aset l i x) i = x.
Proof.
  intros Hi. unfold aget, aset. rewrite nth_aset_nat, Nat.eqb_refl.
  destruct (Nat.ltb_spec (Z.to_nat i) (length l)); [reflexivity|lia].
Qed.

Lemma aget_aset_other (l : list fid) i j x : 0 <= i -> 0 <= j -> i <> j -> aget (aset l i x) j = aget l j.
Proof.
  intros Hi Hj Hne. unfold aget, aset. rewrite nth_aset_nat.
  destruct (Nat.eqb_spec (Z.to_nat j) (Z.to_nat i)); [lia|reflexivity].
Qed.

Lemma aset_length (l : list fid) i x : length (aset l i x) = length l.
Proof. apply aset_nat_length. Qed.

Lemma firstn_removelast (l : list fid) : firstn (length l - 1) l = removelast l.
Proof. rewrite removelast_firstn_len. f_equal. lia. Qed.

Lemma In_removelast (l : list fid) y : In y (removelast l) -> In y l.
Proof.
  induction l as [|a l IH]; [contradiction|]. cbn [removelast]. destruct l as [|b l]; [contradiction|].
  intros [H|H]; [left; exact H|right; apply IH; exact H].
Qed.

(** * micro-steps of the model, one per heap effect of the generated code *)
Definition m_slot (m : fheap) (i : Z) (x : fid) : fheap := mkHeap (aset (arr m) i x) (hs m) (bad m).
Definition m_idx (m : fheap) (x : fid) (v : Z) : fheap := mkHeap (arr m) (set_idx (hs m) x v) (bad m).
Definition m_app (m : fheap) (x : fid) : fheap := mkHeap (arr m ++ [x]) (hs m) (bad m).
Definition m_take (m : fheap) (n : Z) : fheap := mkHeap (firstn (Z.to_nat n) (arr m)) (hs m) (bad m).

(** * heap facts: what a slot write / a field write / an append preserve *)

Lemma wf_slice_arr_set_other h a l s : (a < length h)%nat -> a <> s_arr s ->
  wf_slice h s -> wf_slice (arr_set h a l) s.
Proof.
  intros Ha Hne W. unfold wf_slice in *. rewrite length_arr_set by exact Ha.
  rewrite arr_get_set_other by assumption. exact W.
Qed.

Lemma sl_get_arr_set_other h a l s : (a < length h)%nat -> a <> s_arr s ->
  sl_get (arr_set h a l) s = sl_get h s.
Proof. intros Ha Hne. unfold sl_get. rewrite arr_get_set_other by assumption. reflexivity. Qed.

Lemma rel_slot D h fs m i x : rel D h fs m -> 0 <= i < s_len fs -> x = 0%N \/ In x D ->
  rel D (sl_put h fs i [ptr x]) fs (m_slot m i x).
Proof.
  intros R Hi Hx. pose proof (rel_len _ _ _ _ R) as L. destruct R as (W & A & I & O).
  assert (Hc : s_len fs <= s_cap fs) by (destruct W as (_ & _ & ? & _); lia).
  assert (Hz : zlen [ptr x] = 1) by reflexivity.
  split; [|split; [|split]].
  - apply wf_slice_put; [exact W|lia|lia|exact W].
  - rewrite sl_get_put_same by (try exact W; lia). rewrite A. cbn [arr m_slot]. unfold aset.
    rewrite <- zsplice_map_aset by (unfold f_len in L; lia). f_equal. lia.
  - cbn [arr m_slot]. intros y Hy. unfold aset in Hy. destruct (In_aset_nat _ _ _ _ Hy) as [->|Hy']; [exact Hx|apply I; exact Hy'].
  - intros y Hy. destruct (O y Hy) as (N0 & Hl & Hne & fv & E).
    split; [exact N0|]. split; [rewrite sl_put_length by exact W; exact Hl|]. split; [exact Hne|].
    exists fv. cbn [hs m_slot]. unfold sl_put. rewrite arr_get_set_other; [exact E|destruct W; assumption|congruence].
Qed.

Lemma rel_idx D h fs m x v : rel D h fs m -> In x D ->
  rel D (arr_set h (oarr x) (zsplice (arr_get h (oarr x)) (Z.of_nat 2) [v])) fs (m_idx m x v).
Proof.
  intros (W & A & I & O) Hx. destruct (O x Hx) as (Nx & Hlx & Hnex & fvx & Ex).
  split; [|split; [|split]].
  - apply wf_slice_arr_set_other; assumption.
  - rewrite sl_get_arr_set_other by assumption. exact A.
  - exact I.
  - intros y Hy. destruct (O y Hy) as (N0 & Hl & Hne & fv & E).
    split; [exact N0|]. split; [rewrite length_arr_set by exact Hlx; exact Hl|]. split; [exact Hne|].
    cbn [hs]. destruct (N.eq_dec x y) as [->|Hxy].
    + exists fv. rewrite arr_get_set_same by exact Hl. rewrite E.
      cbn [hs m_idx]. unfold set_idx. cbv zeta. rewrite get_set_same. reflexivity.
    + exists fv. rewrite arr_get_set_other; [|exact Hlx|intros Q; apply Hxy; apply oarr_inj; assumption].
      cbn [hs m_idx]. unfold set_idx. cbv zeta. rewrite get_set_other by exact Hxy. exact E.
Qed.

Lemma rel_append_inplace D h fs m x : rel D h fs m -> In x D -> s_len fs < s_cap fs ->
  rel D (sl_put h (mkSl (s_arr fs) (s_off fs) (s_len fs + 1) (s_cap fs)) (s_len fs) [ptr x])
        (mkSl (s_arr fs) (s_off fs) (s_len fs + 1) (s_cap fs)) (m_app m x).
Proof.
  intros (W & A & I & O) Hx Hc. set (fs' := mkSl _ _ _ _).
  assert (W' : wf_slice h fs').
  { destruct W as (Ha & Ho & Hl & Hcc & Hm). unfold wf_slice, fs'. cbn [s_arr s_off s_len s_cap]. repeat split; lia. }
  assert (Hz : zlen [ptr x] = 1) by reflexivity.
  destruct W as (Ha & Ho & Hl & Hcc & Hm).
  split; [|split; [|split]].
  - apply wf_slice_put; [exact W'| lia | cbn [s_cap fs']; lia | exact W'].
  - unfold sl_get, sl_put. cbn [s_arr s_off s_len fs']. rewrite arr_get_set_same by exact Ha.
    rewrite (zsub_split _ (s_off fs) (s_len fs + 1) (s_len fs)) by lia.
    rewrite zsub_zsplice_disjoint by lia.
    replace (s_len fs + 1 - s_len fs) with (zlen [ptr x]) by lia.
    rewrite zsub_zsplice_same by lia. cbn [arr m_app]. rewrite map_app. cbn [map]. f_equal. exact A.
  - cbn [arr m_app]. intros y Hy. apply in_app_or in Hy. destruct Hy as [Hy|[<-|[]]]; [apply I; exact Hy|right; exact Hx].
  - intros y Hy. destruct (O y Hy) as (N0 & Hl' & Hne & fv & E).
    split; [exact N0|]. split; [rewrite sl_put_length by exact W'; exact Hl'|]. split; [exact Hne|].
    exists fv. cbn [hs m_app]. unfold sl_put. cbn [s_arr fs']. rewrite arr_get_set_other; [exact E|exact Ha|congruence].
Qed.

Lemma rel_append_fresh D h fs m x : rel D h fs m -> In x D -> s_len fs + 1 < 9223372036854775808 ->
  rel D (h ++ [sl_get h fs ++ [ptr x]]) (mkSl (length h) 0 (s_len fs + 1) (s_len fs + 1)) (m_app m x).
Proof.
  intros (W & A & I & O) Hx Hm.
  assert (Hz : zlen (sl_get h fs ++ [ptr x]) = s_len fs + 1).
  { unfold zlen. rewrite app_length. cbn [length]. pose proof (sl_get_len h fs W) as L. unfold zlen in L. lia. }
  assert (Hl0 : 0 <= s_len fs) by (destruct W as (_ & _ & ? & _); lia).
  split; [|split; [|split]].
  - unfold wf_slice. cbn [s_arr s_off s_len s_cap]. rewrite app_length, arr_get_new, Hz. cbn [length]. repeat split; lia.
  - unfold sl_get at 1. cbn [s_arr s_off s_len]. rewrite arr_get_new, <- Hz, zsub_all.
    cbn [arr m_app]. rewrite map_app, A. reflexivity.
  - cbn [arr m_app]. intros y Hy. apply in_app_or in Hy. destruct Hy as [Hy|[<-|[]]]; [apply I; exact Hy|right; exact Hx].
  - intros y Hy. destruct (O y Hy) as (N0 & Hl' & Hne & fv & E).
    split; [exact N0|]. split; [rewrite app_length; cbn [length]; lia|]. split; [cbn [s_arr]; lia|].
    exists fv. cbn [hs m_app]. unfold arr_get. rewrite app_nth1 by exact Hl'. exact E.
Qed.

Lemma rel_take D h fs m n : rel D h fs m -> 0 <= n <= s_len fs ->
  rel D h (mkSl (s_arr fs) (s_off fs + 0) (n - 0) (s_cap fs - 0)) (m_take m n).
Proof.
  intros (W & A & I & O) Hn. pose proof W as (Ha & Ho & Hl & Hcc & Hm).
  split; [|split; [|split]].
  - apply wf_reslice; [exact W|lia|lia].
  - rewrite sl_get_reslice_len by (try exact W; lia). rewrite A, Z.sub_0_r, zsub_0_firstn, firstn_map. reflexivity.
  - cbn [arr m_take]. intros y Hy. apply I. rewrite <- (firstn_skipn (Z.to_nat n) (arr m)). apply in_or_app. left. exact Hy.
  - intros y Hy. destruct (O y Hy) as (N0 & Hl' & Hne' & fv & E).
    split; [exact N0|]. split; [exact Hl'|]. split; [exact Hne'|]. exists fv. exact E.
Qed.

(* the model state only matters up to its slice and the fireT / idx of the futures *)
Definition meq (m m' : fheap) : Prop :=
  arr m = arr m' /\ forall x, fireT (get (hs m) x) = fireT (get (hs m') x) /\ idx (get (hs m) x) = idx (get (hs m') x).

Lemma meq_refl m : meq m m.
Proof. split; [reflexivity|intros x; split; reflexivity]. Qed.

Lemma rel_ext D h fs m m' : rel D h fs m -> meq m m' -> rel D h fs m'.
Proof.
  intros (W & A & I & O) (Ea & Es). split; [exact W|]. split; [rewrite <- Ea; exact A|].
  split; [rewrite <- Ea; exact I|]. intros x Hx. destruct (O x Hx) as (N0 & Hl & Hne & fv & E).
  split; [exact N0|]. split; [exact Hl|]. split; [exact Hne|]. exists fv.
  destruct (Es x) as [<- <-]. exact E.
Qed.

Lemma incl_slot m i x D : incl (arr m) D -> In x D -> incl (arr (m_slot m i x)) D.
Proof.
  intros S Hx y Hy. cbn [arr m_slot] in Hy. unfold aset in Hy.
  destruct (In_aset_nat _ _ _ _ Hy) as [->|Hy']; [exact Hx|apply S; exact Hy'].
Qed.

Lemma incl_take m n D : incl (arr m) D -> incl (arr (m_take m n)) D.
Proof.
  intros S y Hy. apply S. cbn [arr m_take] in Hy.
  rewrite <- (firstn_skipn (Z.to_nat n) (arr m)). apply in_or_app. left. exact Hy.
Qed.

Lemma incl_app m x D : incl (arr m) D -> In x D -> incl (arr (m_app m x)) D.
Proof.
  intros S Hx y Hy. cbn [arr m_app] in Hy. apply in_app_or in Hy.
  destruct Hy as [Hy|[<-|[]]]; [apply S; exact Hy|exact Hx].
Qed.

(** * symbolic execution of the generated methods

    [post o Q]: the run [o] ends normally in a state satisfying [Q].  The
    tactic [obj_step] executes one primitive of the generated code; it keeps a
    hypothesis [rel D H fs M] about the current heap [H] (and, as long as no
    nil has been stored into the slice, [incl (arr M) D]), where [M] is the
    model state after the corresponding micro-steps.  The order of the
    statements of the Go function does not matter to it. *)

Definition post {A} (o : outcome (A * heap)) (Q : A -> heap -> Prop) : Prop :=
  match o with Ok (a, h') => Q a h' | _ => False end.

Lemma post_elim {A} (o : outcome (A * heap)) Q : post o Q -> exists a h', o = Ok (a, h') /\ Q a h'.
Proof. destruct o as [[a h']| |]; cbn; [eauto|contradiction|contradiction]. Qed.

Ltac rng := first [assumption | cbn [s_arr s_off s_len s_cap] in *; lia].

(* In x D for the x of a pointer [ptr x] *)
Ltac in_d := first [assumption | right; assumption].

Ltac obj_step :=
  match goal with
  | |- context [bind (bind ?m ?k) ?k' ?h] => rewrite (bind_assoc m k k' h)
  | |- context [bind (ret ?a) ?k ?h] => rewrite (bind_ret_l a k h)
  | R : rel ?D ?H ?fs ?M |- context [bind (load ?fs ?i) ?k ?H] =>
      let Hr := fresh "Hr" in
      assert (Hr : 0 <= i < s_len fs) by rng;
      rewrite (bind_load fs i k H Hr (proj1 R));
      rewrite (rel_nth D H fs M i R);
      try (match goal with S : incl (arr M) D |- _ =>
             let F := fresh "InD" in pose proof (rel_in D H fs M i R S Hr) as F end);
      clear Hr
  | R : rel ?D ?H ?fs ?M |- context [bind (GoLite.store ?fs ?i 0) ?k ?H] =>
      change (GoLite.store fs i 0) with (GoLite.store fs i (ptr 0%N))
  | R : rel ?D ?H ?fs ?M |- context [bind (GoLite.store ?fs ?i (ptr ?x)) ?k ?H] =>
      let Hr := fresh "Hr" in
      assert (Hr : 0 <= i < s_len fs) by rng;
      rewrite (bind_store fs i (ptr x) k H Hr);
      let R' := fresh "R" in
      first [ assert (R' : rel D (sl_put H fs i [ptr x]) fs (m_slot M i x))
                by (apply (rel_slot D H fs M i x R Hr); first [right; assumption | left; reflexivity]) ];
      try (match goal with S : incl (arr M) D, F : In x D |- _ =>
             let S' := fresh "S" in pose proof (incl_slot M i x D S F) as S' end);
      try (match goal with S : incl (arr M) D |- _ => clear S end);
      clear R Hr
  | R : rel ?D ?H ?fs ?M |- context [bind (fld_load (ptr ?x) ?f) ?k ?H] =>
      let F := fresh "F" in
      assert (F : In x D) by assumption;
      rewrite (bind_fld_load (ptr x) f k H (rel_nz D H fs M x R F));
      first [ rewrite (rel_fld1 D H fs M x R F) | rewrite (rel_fld2 D H fs M x R F) ];
      clear F
  | R : rel ?D ?H ?fs ?M |- context [bind (fld_store (ptr ?x) 2 ?v) ?k ?H] =>
      let F := fresh "F" in
      assert (F : In x D) by assumption;
      rewrite (bind_fld_store (ptr x) 2 v k H (rel_nz D H fs M x R F));
      let R' := fresh "R" in
      pose proof (rel_idx D H fs M x v R F) as R';
      try (match goal with S : incl (arr M) D |- _ =>
             let S' := fresh "S" in assert (S' : incl (arr (m_idx M x v)) D) by exact S; clear S end);
      clear R F
  | R : rel ?D ?H ?fs ?M |- context [bind (reslice ?fs 0 ?n) ?k ?H] =>
      let Hr := fresh "Hr" in
      assert (Hr : 0 <= n <= s_len fs) by rng;
      rewrite (bind_reslice fs 0 n k H) by (pose proof (proj1 R) as (_ & _ & ? & _); lia);
      let R' := fresh "R" in
      pose proof (rel_take D H fs M n R Hr) as R';
      try (match goal with S : incl (arr M) D |- _ =>
             let S' := fresh "S" in pose proof (incl_take M n D S) as S'; clear S end);
      clear R Hr
  | R : rel ?D ?H ?fs ?M |- context [bind (goappend ?fs (ptr ?x)) ?k ?H] =>
      let F := fresh "F" in
      assert (F : In x D) by assumption;
      let Hc := fresh "Hc" in
      destruct (Z.lt_ge_cases (s_len fs) (s_cap fs)) as [Hc|Hc];
      [ rewrite (bind_goappend_inplace fs (ptr x) k H Hc);
        let R' := fresh "R" in pose proof (rel_append_inplace D H fs M x R F Hc) as R'
      | rewrite (bind_goappend_fresh fs (ptr x) k H Hc);
        let R' := fresh "R" in
        assert (R' : rel D (H ++ [sl_get H fs ++ [ptr x]]) (mkSl (length H) 0 (s_len fs + 1) (s_len fs + 1)) (m_app M x))
          by (apply (rel_append_fresh D H fs M x R F); rng) ];
      try (match goal with S : incl (arr M) D |- _ =>
             let S' := fresh "S" in pose proof (incl_app M x D S F) as S'; clear S end);
      clear R
  end.

Ltac obj_run :=
  repeat first [ obj_step | progress cbv beta iota zeta | progress go_unwrap
               | progress unfold before | progress cbn [s_arr s_off s_len s_cap] ].

(* the end of a run: [post (ret v H) Q] *)
Ltac obj_done := unfold ret, post.

(* numeric facts of a related state *)
Ltac rel_facts R :=
  let L := fresh "L" in pose proof (rel_len _ _ _ _ R) as L;
  let W := fresh "W" in pose proof (proj1 R) as W;
  destruct W as (_ & _ & ? & _ & ?).

Lemma firstn_aset_last (l : list fid) n x : n = (length l - 1)%nat ->
  firstn n (aset_nat l n x) = removelast l.
Proof.
  revert n. induction l as [|a l IH]; intros n Hn; [destruct n; reflexivity|].
  destruct l as [|b l]; [cbn in Hn; subst n; reflexivity|].
  cbn [length] in Hn. destruct n as [|n]; [lia|].
  cbn [aset_nat firstn]. change (removelast (a :: b :: l)) with (a :: removelast (b :: l)). f_equal.
  apply IH. cbn [length]. lia.
Qed.

(** the model's would-panic cases are Go panics of the generated code *)

Lemma bind_load_panic {B} s i (k : Z -> M B) h : ~ (0 <= i < s_len s) -> bind (load s i) k h = GoPanic.
Proof. intros H. unfold bind. rewrite load_panic by exact H. reflexivity. Qed.

Ltac panic_run :=
  repeat first [ rewrite bind_load_panic by rng | obj_step | progress cbv beta iota zeta | progress go_unwrap ].

