(** C17, translator tie: initAvailabe of container/bytes/blocks.go as translated
    from the Go source on this run (Gen_blocks.v; three nested loops) against
    [init_available] of coq/model/Blocks.v.  Same setting as
    C17_GenFn_alloc.v: bts.Buffer is a function parameter that behaves like a
    storage held in heap array [A]. *)
From Coq Require Import List ZArith NArith Lia Bool.
From Coq Require Import ZifyBool.
From GL Require Import lib.GoLite model.Blocks proofs.C17_Bytes.
From GLGEN Require Import BL_GenVocab Gen_blocks C17_GenFn_gbis C17_GenFn_alloc.
Import ListNotations.
Open Scope Z_scope.
Ltac Zify.zify_post_hook ::= Z.div_mod_to_equations.

Section BlocksInit.

Variable bts_Buffer : Z -> Z -> Z -> M (gslice * error).
Variable hd : Z.
Variable A : nat.

Hypothesis buffer_spec : forall h buf offs size, brel A h buf ->
  bts_Buffer hd offs size h =
  match buf_slice buf offs size with
  | None => Ok ((nil_slice, Err), h)
  | Some (base, len) => Ok ((mkSl A base len (bsize buf - base), ENil), h)
  end.

(* the innermost loop: the zero bits of one header byte *)
Lemma gen_Init_loop3 : forall n h v cnt j f,
  0 <= j -> j + Z.of_nat n = 8 -> (n < f)%nat -> 0 <= cnt -> cnt + Z.of_nat n < 9223372036854775808 ->
  iter f (Gen.Blocks_initAvailabe_loop3 bts_Buffer (Z.of_N v)) (cnt, j) h =
  Ok ((cnt + zero_bits n (Z.to_N j) v, 8), h).
Proof.
  induction n as [|n IH]; intros h v cnt j f Hj Hn Hf Hc Hc8;
    (destruct f as [|f]; [lia|]); rewrite iter_S; unfold Gen.Blocks_initAvailabe_loop3 at 1; cbv beta iota zeta;
    cbn [zero_bits].
  - go_run. unfold ret. replace j with 8 by lia. rewrite Z.add_0_r. reflexivity.
  - assert (Hz : 0 <= zero_bits n (Z.to_N j + 1) v <= Z.of_nat n).
    { clear. generalize (Z.to_N j + 1)%N. induction n as [|n IH]; intros k; cbn [zero_bits]; [lia|].
      specialize (IH (k + 1)%N). destruct (bit_is_clear v k); lia. }
    destruct (Z.ltb_spec j 8) as [Hj8|?]; [|lia]. rewrite bit_clear_Z by lia.
    destruct (bit_is_clear v (Z.to_N j)) eqn:Ecl; go_run;
      replace (Z.to_N j + 1)%N with (Z.to_N (j + 1)) in * by lia;
      rewrite IH by lia; do 3 f_equal; lia.
Qed.

(* the bytes of one header block *)
Lemma gen_Init_loop2 : forall n h buf base len i cnt f,
  brel A h buf -> 0 <= base -> 0 <= i <= len -> base + len <= bsize buf ->
  n = Z.to_nat (len - i) -> (n < f)%nat -> 0 <= cnt -> cnt + 8 * (len - i) + 8 < 9223372036854775808 ->
  iter f (Gen.Blocks_initAvailabe_loop2 bts_Buffer (mkSl A base len (bsize buf - base))) (i, cnt) h =
  Ok ((len, cnt + count_window n buf (base + i)), h).
Proof.
  induction n as [|n IH]; intros h buf base len i cnt f B H0 Hi Hin Hn Hf Hc Hc8;
    (destruct f as [|f]; [lia|]); rewrite iter_S; unfold Gen.Blocks_initAvailabe_loop2 at 1; cbv beta iota zeta;
    cbn [count_window s_len].
  - go_run. unfold ret. replace i with len by lia. rewrite Z.add_0_r. reflexivity.
  - assert (W : wf_slice h (mkSl A base len (bsize buf - base))).
    { destruct B as (Ba & Bl & Bs & _). unfold wf_slice. cbn [s_arr s_off s_len s_cap]. repeat split; lia. }
    pose proof (bget_lt_256 buf (base + i)) as Hv.
    destruct (Z.ltb_spec i len) as [Hil|?]; [|lia]. repeat go_step. rewrite (window_load A h buf base len i B) by lia.
    set (v := bget buf (base + i)) in *.
    assert (Hz : 0 <= zero_bits 8 0 v <= 8) by (apply zero_bits_range; exact Hv).
    assert (Hnext : forall c, 0 <= c <= cnt + 8 ->
      iter f (Gen.Blocks_initAvailabe_loop2 bts_Buffer (mkSl A base len (bsize buf - base))) (i + 1, c) h =
      Ok ((len, c + count_window n buf (base + i + 1)), h)).
    { intros c Hcc. rewrite (IH h buf base len (i + 1) c f B H0) by lia.
      replace (base + (i + 1)) with (base + i + 1) by lia. reflexivity. }
    destruct (N.eqb_spec v 255) as [E255|N255].
    + destruct (Z.eqb_spec (Z.of_N v) 255); [|lia]. cbn [negb]. cbv beta iota zeta. repeat go_step.
      rewrite Hnext by lia. do 3 f_equal; lia.
    + destruct (Z.eqb_spec (Z.of_N v) 255); [lia|]. cbn [negb]. cbv beta iota zeta. repeat go_step.
      pose proof (gen_Init_loop3 8 h v cnt 0 10 ltac:(lia) ltac:(lia) ltac:(lia) Hc ltac:(lia)) as L3.
      change (Z.to_N 0) with 0%N in L3. go_call L3. cbv beta iota zeta. repeat go_step.
      rewrite Hnext by lia. do 3 f_equal; lia.
Qed.

Lemma count_window_range : forall n buf base, 0 <= count_window n buf base <= 8 * Z.of_nat n.
Proof.
  induction n as [|n IH]; intros buf base; cbn [count_window]; [lia|].
  specialize (IH buf (base + 1)). pose proof (zero_bits_range _ (bget_lt_256 buf base)).
  destruct (bget buf base =? 255)%N; lia.
Qed.

(* what the loop over the segments does *)
Definition init_post (h : heap) (g : Gen.Blocks) (segs : Z) (res : option Z)
  (o : outcome (ctl (Z * Z) (Gen.Blocks * error) * heap)) : Prop :=
  match res with
  | Some c => o = Ok (Fall (c, segs), h)
  | None => o = Ok (Return (g, Err), h)
  end.

Lemma gen_Init_loop1 : forall n h g b s cnt f,
  Gen.Blocks_blkSize g = blkSize b -> Gen.Blocks_blksInSegm g = blksInSegm b ->
  Gen.Blocks_segments g = segments b -> Gen.Blocks_bts g = hd -> brel A h (bts b) ->
  geom_ok b -> 0 <= s <= segments b -> n = Z.to_nat (segments b - s) -> (n < f)%nat ->
  0 <= cnt -> cnt + 8 * (segments b - s) * blkSize b + 8 < 9223372036854775808 ->
  init_post h g (segments b)
    (init_loop n (bts b) (blkSize b) (segm_size b) s cnt)
    (iter f (Gen.Blocks_initAvailabe_loop1 bts_Buffer g) (cnt, s) h).
Proof.
  induction n as [|n IH]; intros h g b s cnt f E1 E2 E3 E6 B G Hs Hn Hf Hc Hc8;
    pose proof G as (G1 & G3 & G4 & G5 & G6); pose proof B as (Ba & Bl & Bs & Bb);
    (destruct f as [|f]; [lia|]); rewrite iter_S; unfold Gen.Blocks_initAvailabe_loop1 at 1; cbv beta iota zeta;
    cbn [init_loop]; rewrite E3.
  - destruct (Z.ltb_spec s (segments b)); [lia|]. go_run. unfold ret, init_post. replace s with (segments b) by lia. reflexivity.
  - destruct (Z.ltb_spec s (segments b)) as [Hlt|?]; [|lia].
    rewrite E1, E2, E6. unfold segm_size.
    assert (X1 : 0 <= blksInSegm b + 1 < 9223372036854775808).
    { assert (1 * (blksInSegm b + 1) <= segments b * (blksInSegm b + 1)) by (apply Z.mul_le_mono_nonneg_r; lia). lia. }
    assert (X2 : 0 <= s * (blksInSegm b + 1) <= segments b * (blksInSegm b + 1)).
    { split; [apply Z.mul_nonneg_nonneg; lia|apply Z.mul_le_mono_nonneg_r; lia]. }
    assert (X3 : 0 <= s * (blksInSegm b + 1) * blkSize b < 9223372036854775808).
    { split; [apply Z.mul_nonneg_nonneg; lia|].
      assert (s * (blksInSegm b + 1) * blkSize b <= segments b * (blksInSegm b + 1) * blkSize b)
        by (apply Z.mul_le_mono_nonneg_r; lia). lia. }
    go_unwrap.
    replace (s * ((blksInSegm b + 1) * blkSize b)) with (s * (blksInSegm b + 1) * blkSize b) by ring.
    repeat go_step.
    pose proof (buffer_spec h (bts b) (s * (blksInSegm b + 1) * blkSize b) (blkSize b) B) as HB.
    destruct (buf_slice (bts b) (s * (blksInSegm b + 1) * blkSize b) (blkSize b)) as [[base len]|] eqn:Es;
      go_call HB; cbv beta iota zeta; cbn [is_nil negb].
    2:{ repeat go_step. reflexivity. }
    destruct (window_facts A h (bts b) _ (blkSize b) base len B G1 Es) as (Eb & W0 & W1 & W2 & W3 & W).
    assert (Hcw := count_window_range (Z.to_nat len) (bts b) base).
    assert (Hmul : 8 * (segments b - s) * blkSize b = 8 * blkSize b + 8 * (segments b - (s + 1)) * blkSize b) by ring.
    assert (Hnn : 0 <= 8 * (segments b - (s + 1)) * blkSize b) by (apply Z.mul_nonneg_nonneg; lia).
    pose proof (gen_Init_loop2 (Z.to_nat len) h (bts b) base len 0 cnt (Z.to_nat len + 2) B W0 ltac:(lia) W2
                  ltac:(lia) ltac:(lia) Hc ltac:(lia)) as L2.
    rewrite Z.add_0_r in L2. cbn [s_len]. repeat go_step. go_call L2. cbv beta iota zeta. repeat go_step. go_unwrap.
    apply (IH h g b (s + 1) (cnt + count_window (Z.to_nat len) (bts b) base) f); try assumption; lia.
Qed.

Theorem gen_initAvailabe_refines : forall h g b,
  grel hd A h g b -> geom_ok b -> 8 * segments b * blkSize b + 8 < 2147483648 ->
  match init_available b with
  | Some b' => exists g', Gen.Blocks_initAvailabe bts_Buffer g h = Ok ((g', ENil), h) /\ grel hd A h g' b'
  | None => Gen.Blocks_initAvailabe bts_Buffer g h = Ok ((g, Err), h)
  end.
Proof.
  intros h g b (E1 & E2 & E3 & E4 & E5 & E6 & B) G Hsm. pose proof G as (G1 & G3 & G4 & G5 & G6).
  unfold Gen.Blocks_initAvailabe, init_available. cbv beta iota zeta.
  assert (Hnn : 0 <= 8 * segments b * blkSize b) by (apply Z.mul_nonneg_nonneg; lia).
  match goal with |- context [iter ?f _ _] =>
    pose proof (gen_Init_loop1 (Z.to_nat (segments b)) h g b 0 0 f E1 E2 E3 E6 B G ltac:(lia) ltac:(lia)
                  ltac:(rewrite E3; lia) ltac:(lia) ltac:(rewrite Z.sub_0_r; lia)) as L1
  end.
  unfold init_post in L1.
  assert (Hinit : forall c, init_loop (Z.to_nat (segments b)) (bts b) (blkSize b) (segm_size b) 0 0 = Some c ->
                            0 <= c <= 8 * segments b * blkSize b).
  { assert (Gn : forall n s c0 c, init_loop n (bts b) (blkSize b) (segm_size b) s c0 = Some c ->
                   0 <= c0 -> c0 <= c <= c0 + 8 * Z.of_nat n * blkSize b).
    { induction n as [|n IHn]; intros s c0 c Hi Hc0; cbn [init_loop] in Hi.
      - injection Hi as <-. lia.
      - destruct (buf_slice (bts b) (s * segm_size b) (blkSize b)) as [[base len]|] eqn:Es; [|discriminate].
        destruct (window_facts A h (bts b) _ (blkSize b) base len B G1 Es) as (_ & _ & W1 & _ & _ & _).
        pose proof (count_window_range (Z.to_nat len) (bts b) base) as Hcw.
        specialize (IHn _ _ _ Hi ltac:(lia)). nia. }
    intros c Hi. specialize (Gn _ _ _ _ Hi ltac:(lia)). lia. }
  destruct (init_loop (Z.to_nat (segments b)) (bts b) (blkSize b) (segm_size b) 0 0) as [c|].
  - go_call L1. cbv beta iota zeta. unfold ret. specialize (Hinit c eq_refl). go_unwrap.
    eexists. split; [reflexivity|]. unfold grel. bk_cbn. do 6 (split; [first [assumption | reflexivity | lia]|]). exact B.
  - go_call L1. cbv beta iota zeta. reflexivity.
Qed.

End BlocksInit.

Theorem gen_initAvailabe_refines_hb : forall A hd h g b,
  grel hd A h g b -> geom_ok b -> 8 * segments b * blkSize b + 8 < 2147483648 ->
  match init_available b with
  | Some b' => exists g', Gen.Blocks_initAvailabe (hb_Buffer A) g h = Ok ((g', ENil), h) /\ grel hd A h g' b'
  | None => Gen.Blocks_initAvailabe (hb_Buffer A) g h = Ok ((g, Err), h)
  end.
Proof. intros A hd. exact (gen_initAvailabe_refines (hb_Buffer A) hd A (hb_buffer_spec A hd)). Qed.
Print Assumptions gen_initAvailabe_refines_hb.

Example gen_ex_init :
  Gen.Blocks_initAvailabe (hb_Buffer 0) (Gen.mk_Blocks 1 8 2 0 0 0) [[5; 0; 0; 0; 0; 0; 0; 0; 0; 255; 0; 0; 0; 0; 0; 0; 0; 0]]
  = Ok ((Gen.mk_Blocks 1 8 2 0 0 6, ENil), [[5; 0; 0; 0; 0; 0; 0; 0; 0; 255; 0; 0; 0; 0; 0; 0; 0; 0]]).
Proof. vm_compute. reflexivity. Qed.

(** * NewBlocks *)

Section BlocksNew.

Variable bts_Size : Z -> M Z.
Variable bts_Buffer : Z -> Z -> Z -> M (gslice * error).
Variable hd : Z.
Variable A : nat.

Hypothesis buffer_spec : forall h buf offs size, brel A h buf ->
  bts_Buffer hd offs size h =
  match buf_slice buf offs size with
  | None => Ok ((nil_slice, Err), h)
  | Some (base, len) => Ok ((mkSl A base len (bsize buf - base), ENil), h)
  end.

Hypothesis size_spec : forall h buf, brel A h buf -> bts_Size hd h = Ok (bsize buf, h).

(* The model computes in unbounded Z and lacks the overflow guard the code has
   since a2fad47: the two agree where the segment size fits an int
   ((8*bs+1)*bs < 2^63).  The free-block counter is an int32: the storage must
   be small enough for the count (8 bits per header byte) to fit. *)
Theorem gen_NewBlocks_refines : forall page bs fit h buf,
  brel A h buf -> 0 < page < 9223372036854775808 ->
  -9223372036854775808 <= bs < 9223372036854775808 -> (bs * 8 + 1) * bs < 9223372036854775808 ->
  8 * bsize buf + 8 < 2147483648 ->
  match new_blocks page bs buf fit with
  | CtorOk b => exists g, Gen.NewBlocks page bts_Size bts_Buffer bs hd fit h = Ok ((g, ENil), h) /\ grel hd A h g b
  | CtorErr _ => exists g, Gen.NewBlocks page bts_Size bts_Buffer bs hd fit h = Ok ((g, Err), h)
  | CtorPanic => Gen.NewBlocks page bts_Size bts_Buffer bs hd fit h = GoPanic
  end.
Proof.
  intros page bs fit h buf B Hp Hb Hs Hsm. pose proof B as (Ba & Bl & Bsz & Bb).
  unfold Gen.NewBlocks, new_blocks.
  go_call (gen_GetBlocksInSegment_refines page bs h Hp Hb Hs). cbv beta iota zeta.
  assert (Hg : get_blocks_in_segment page bs = -1 \/ (0 < bs /\ get_blocks_in_segment page bs = bs * 8 + 1)).
  { unfold get_blocks_in_segment. repeat (go_if; try lia); lia. }
  destruct Hg as [Eg|(Hbp & Eg)]; rewrite Eg.
  - cbn [Z.ltb Z.compare]. eexists. reflexivity.
  - destruct (Z.ltb_spec (bs * 8 + 1) 0); [lia|].
    set (segsz := (bs * 8 + 1) * bs) in *.
    assert (Hseg : 0 < segsz < 9223372036854775808) by (subst segsz; nia).
    go_unwrap. go_call (size_spec h buf B). cbv beta iota zeta.
    destruct (Z.eqb_spec segsz 0); [lia|].
    destruct (quot_facts (bsize buf) segsz ltac:(lia)) as [Qp _]. specialize (Qp ltac:(lia)).
    pose proof (rem_range (bsize buf) segsz ltac:(lia)) as Hr.
    set (segs := Z.quot (bsize buf) segsz) in *.
    (* the condition size < segmSize || (fit && size%segmSize != 0) *)
    assert (Hcond : forall (k : bool -> M (Gen.Blocks * error)),
      bind (if bsize buf <? segsz then ret true
            else bind (if fit then bind (gorem i64 (bsize buf) segsz) (fun t => ret (negb (t =? 0))) else ret false)
                      (fun t => ret t)) k h =
      k ((bsize buf <? segsz) || (fit && negb (Z.rem (bsize buf) segsz =? 0))) h).
    { intros k. destruct (bsize buf <? segsz); [reflexivity|]. destruct fit; [|reflexivity].
      repeat go_step. go_unwrap. reflexivity. }
    rewrite Hcond.
    destruct ((bsize buf <? segsz) || (fit && negb (Z.rem (bsize buf) segsz =? 0))) eqn:Ec.
    + eexists. reflexivity.
    + assert (Hge : segsz <= bsize buf) by lia.
      assert (Hsegs : 1 <= segs) by (subst segs; nia).
      cbv beta iota zeta. bk_cbn. repeat go_step. go_unwrap.
      set (b0 := mkBlocks bs (bs * 8 + 1 - 1) segs 0 0 buf).
      assert (Hmul : segs * (bs * 8 + 1) * bs <= bsize buf) by (subst segsz; nia).
      assert (G0 : geom_ok b0).
      { unfold geom_ok, b0. cbn [blkSize blksInSegm segments]. replace (bs * 8 + 1 - 1 + 1) with (bs * 8 + 1) by lia.
        assert (0 <= segs * (bs * 8 + 1)) by (apply Z.mul_nonneg_nonneg; lia).
        assert (segs * (bs * 8 + 1) <= segs * (bs * 8 + 1) * bs) by nia.
        repeat split; try lia; nia. }
      match goal with |- context [Gen.Blocks_initAvailabe _ ?g0] =>
        assert (R0 : grel hd A h g0 b0) by (unfold grel, b0; bk_cbn; do 6 (split; [first [reflexivity | lia]|]); exact B);
        pose proof (gen_initAvailabe_refines bts_Buffer hd A buffer_spec h g0 b0 R0 G0) as HI
      end.
      assert (Hcnt : 8 * segments b0 * blkSize b0 + 8 < 2147483648).
      { unfold b0. cbn [segments blkSize]. assert (segs * bs <= segs * (bs * 8 + 1) * bs) by nia. lia. }
      specialize (HI Hcnt). fold b0.
      destruct (init_available b0) as [b1|].
      * destruct HI as (g1 & E1 & R1). go_call E1. cbv beta iota zeta. unfold ret. exists g1. split; [reflexivity|exact R1].
      * go_call HI. cbv beta iota zeta. unfold ret. eexists. reflexivity.
Qed.

End BlocksNew.

Theorem gen_NewBlocks_refines_hb : forall A hd page bs fit h buf,
  brel A h buf -> 0 < page < 9223372036854775808 ->
  -9223372036854775808 <= bs < 9223372036854775808 -> (bs * 8 + 1) * bs < 9223372036854775808 ->
  8 * bsize buf + 8 < 2147483648 ->
  match new_blocks page bs buf fit with
  | CtorOk b => exists g, Gen.NewBlocks page (fun _ h => Ok (zlen (arr_get h A), h)) (hb_Buffer A) bs hd fit h = Ok ((g, ENil), h) /\ grel hd A h g b
  | CtorErr _ => exists g, Gen.NewBlocks page (fun _ h => Ok (zlen (arr_get h A), h)) (hb_Buffer A) bs hd fit h = Ok ((g, Err), h)
  | CtorPanic => Gen.NewBlocks page (fun _ h => Ok (zlen (arr_get h A), h)) (hb_Buffer A) bs hd fit h = GoPanic
  end.
Proof.
  intros A hd. apply (gen_NewBlocks_refines (fun _ h => Ok (zlen (arr_get h A), h)) (hb_Buffer A) hd A (hb_buffer_spec A hd)).
  intros h buf (_ & Bl & _). rewrite Bl. reflexivity.
Qed.
Print Assumptions gen_NewBlocks_refines_hb.
