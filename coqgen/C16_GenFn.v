(** C16, translator tie: the decoders of xbinary/xbinary.go *as translated from
    the Go source on this run* (Gen_xbinary_fn.v, harness/cmd/go2coq) are total.

    For every heap and every slice descriptor that denotes a Go slice
    ([wf_slice]) - whatever the bytes are - each generated Unmarshal function
    returns [Ok]: no [GoPanic] (index or slice expression out of range) and no
    [NoFuel]; on an error it returns n = 0 and leaves the heap alone; on
    success 1 <= n <= len(buf), the value fits its type, and
    UnmarshalBytes/UnmarshalString return exactly the sub-range
    buf[n-len(res) : n] (aliasing the input iff newBuf is false).

    These proofs do not go through the hand-written model: they are invariants
    of the generated loops ([iter_inv]).  Removing the [idx == len(buf)] test
    of UnmarshalUint or reverting the fix 98bfc00 of UnmarshalBytes makes
    [GoPanic] reachable and breaks them. *)
From Coq Require Import List ZArith Lia Bool.
From Coq Require Import ZifyBool.
From GL Require Import lib.GoLite.
From GLGEN Require Import XB_GenTotal Gen_xbinary_fn C16_GenFn_fixed C16_GenFn_uint.
Import ListNotations.
Open Scope Z_scope.
Ltac Zify.zify_post_hook ::= Z.div_mod_to_equations.

Ltac Zify.zify_post_hook ::= Z.div_mod_to_equations.

Lemma gen_SliceCopy_spec h v : wf_slice h v ->
  Gen.SliceCopy v h = Ok (mkSl (length h) 0 (s_len v) (s_len v), h ++ [sl_get h v]).
Proof.
  intros W. pose proof W as (Wa & Wo & Wl & Wc & Wm).
  pose proof (sl_get_len h v W) as L. unfold zlen in L.
  unfold Gen.SliceCopy. go_run. unfold ret.
  rewrite sl_get_grow by exact W.
  match goal with |- context [firstn ?n (sl_get h v)] =>
    replace n with (length (sl_get h v)) by lia end.
  rewrite firstn_all, sl_put_new by (unfold zlen; lia). reflexivity.
Qed.

Theorem gen_UnmarshalBytes_total : forall h buf newBuf, wf_slice h buf ->
  dec_total h (s_len buf) (bytes_ok h buf newBuf) (Gen.UnmarshalBytes buf newBuf h).
Proof.
  intros h buf newBuf W. pose proof W as (Wa & Wo & Wl & Wc & Wm).
  destruct (gen_UnmarshalUint_total h buf W) as (idx & uln & e & h0 & E & [(-> & -> & ->)|(-> & Hidx & -> & Huln)]);
    unfold Gen.UnmarshalBytes; go_call E; cbv beta iota zeta; cbn [is_nil negb].
  - total_done.
  - change (2 ^ 64) with 18446744073709551616 in Huln.
    go_run; try replace (idx + uln - idx) with uln by lia;
    lazymatch goal with
    | |- context [Gen.SliceCopy ?s] =>
        let Ws := fresh "Ws" in
        assert (Ws : wf_slice h s) by (unfold wf_slice; cbn [s_arr s_off s_len s_cap]; repeat split; lia);
        go_call (gen_SliceCopy_spec h s Ws);
        pose proof (sl_get_reslice_len h buf idx (idx + uln) W ltac:(lia) ltac:(lia)) as G;
        cbv beta iota zeta; total_done; unfold bytes_ok; cbn [s_arr s_off s_len s_cap];
        replace (idx + uln - idx) with uln in * by lia;
        assert (Gn : sl_get (h ++ [sl_get h s]) (mkSl (length h) 0 uln uln) = sl_get h s)
          by (unfold sl_get at 1; cbn [s_arr s_off s_len]; rewrite arr_get_new;
              pose proof (sl_get_len h s Ws) as Ls; cbn [s_len] in Ls;
              set (X := sl_get h s) in *; rewrite <- Ls; apply zsub_all);
        split; [apply wf_slice_fresh; [exact (sl_get_len h s Ws)|lia]|]; split; [lia|]; rewrite Gn;
        split; [rewrite G; f_equal; lia|split; reflexivity]
    | |- _ =>
        total_done; unfold bytes_ok; cbn [s_arr s_off s_len s_cap];
        try (pose proof (sl_get_reslice_len h buf idx (idx + uln) W ltac:(lia) ltac:(lia)) as G;
             replace (idx + uln - idx) with uln in * by lia;
             split; [unfold wf_slice; cbn [s_arr s_off s_len s_cap]; repeat split; lia|]; split; [lia|];
             split; [rewrite G; f_equal; lia|repeat split; lia])
    end.
Qed.

Print Assumptions gen_UnmarshalBytes_total.

Theorem gen_UnmarshalString_total : forall h buf newBuf, wf_slice h buf ->
  dec_total h (s_len buf) (bytes_ok h buf newBuf) (Gen.UnmarshalString buf newBuf h).
Proof.
  intros h buf newBuf W.
  destruct (gen_UnmarshalBytes_total h buf newBuf W) as (n & res & e & h' & E & [(-> & -> & ->)|(-> & Hn & P)]);
    unfold Gen.UnmarshalString; go_call E; cbv beta iota zeta; cbn [is_nil]; unfold cast_id.
  - total_done.
  - total_done. exact P.
Qed.

Theorem gen_decoders_total : forall h buf, wf_slice h buf ->
  Forall (fun b => 0 <= b < 256) (sl_get h buf) ->
  dec_total h (s_len buf) (scalar 8 h) (Gen.UnmarshalByte buf h) /\
  dec_total h (s_len buf) (scalar 16 h) (Gen.UnmarshalUint16 buf h) /\
  dec_total h (s_len buf) (scalar 32 h) (Gen.UnmarshalUint32 buf h) /\
  dec_total h (s_len buf) (scalar 64 h) (Gen.UnmarshalUint64 buf h) /\
  dec_total h (s_len buf) (scalar 64 h) (Gen.UnmarshalUint buf h) /\
  (forall newBuf, dec_total h (s_len buf) (bytes_ok h buf newBuf) (Gen.UnmarshalBytes buf newBuf h)) /\
  (forall newBuf, dec_total h (s_len buf) (bytes_ok h buf newBuf) (Gen.UnmarshalString buf newBuf h)).
Proof.
  intros h buf W Hb. repeat split.
  - apply gen_UnmarshalByte_total; assumption.
  - apply gen_UnmarshalUint16_total; assumption.
  - apply gen_UnmarshalUint32_total; assumption.
  - apply gen_UnmarshalUint64_total; assumption.
  - apply gen_UnmarshalUint_total; assumption.
  - intros nb. apply gen_UnmarshalBytes_total; assumption.
  - intros nb. apply gen_UnmarshalString_total; assumption.
Qed.

Print Assumptions gen_decoders_total.

(* no panic, no fuel exhaustion, whatever the input *)

Corollary gen_decoders_never_panic : forall h buf newBuf, wf_slice h buf ->
  Gen.UnmarshalUint buf h <> GoPanic /\ Gen.UnmarshalUint buf h <> NoFuel /\
  Gen.UnmarshalBytes buf newBuf h <> GoPanic /\ Gen.UnmarshalBytes buf newBuf h <> NoFuel /\
  Gen.UnmarshalString buf newBuf h <> GoPanic /\ Gen.UnmarshalString buf newBuf h <> NoFuel.
Proof.
  intros h buf nb W.
  destruct (gen_UnmarshalUint_total h buf W) as (? & ? & ? & ? & -> & _).
  destruct (gen_UnmarshalBytes_total h buf nb W) as (? & ? & ? & ? & -> & _).
  destruct (gen_UnmarshalString_total h buf nb W) as (? & ? & ? & ? & -> & _).
  repeat split; discriminate.
Qed.
