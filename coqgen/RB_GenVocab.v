(** Model-side lemmas and definitions shared by the proofs over the generated
    ring buffer (coqgen/C14_GenFn*.v): the model's list operations as splices,
    the segment arithmetic of one ReadN/Skip iteration.  Nothing here depends on
    generated code. *)
From Coq Require Import List ZArith Arith Lia Bool.
From Coq Require Import ZifyBool ZifyNat.
From GL Require Import lib.GoLite model.RingBuf spec.Queue proofs.C14_RingBuf.
Import ListNotations.
Open Scope Z_scope.
Ltac Zify.zify_post_hook ::= Z.div_mod_to_equations.

Lemma firstn_repeat {A} (x : A) n m : firstn n (repeat x m) = repeat x (Nat.min n m).
Proof.
  revert m. induction n as [|n IH]; intros m; [reflexivity|].
  destruct m as [|m]; [reflexivity|]. cbn [repeat firstn Nat.min]. f_equal. apply IH.
Qed.

Lemma zlen_repeat (x : Z) n : zlen (repeat x n) = Z.of_nat n.
Proof. unfold zlen. rewrite repeat_length. reflexivity. Qed.

Lemma set_nth_zsplice : forall l i v, (i < length l)%nat ->
  set_nth l i v = zsplice l (Z.of_nat i) [v].
Proof.
  induction l as [|x t IH]; intros i v Hi; cbn [length] in Hi; [lia|].
  unfold zsplice. rewrite Nat2Z.id. destruct i as [|i].
  - reflexivity.
  - cbn [set_nth firstn app length Nat.add skipn]. f_equal. rewrite IH by lia.
    unfold zsplice. rewrite Nat2Z.id. cbn [length]. reflexivity.
Qed.

Lemma zero_range_zsplice : forall cnt l from, (from + cnt <= length l)%nat ->
  zero_range l from cnt = zsplice l (Z.of_nat from) (repeat 0 cnt).
Proof.
  induction cnt as [|c IH]; intros l from H.
  - cbn [zero_range repeat]. rewrite zsplice_nil. reflexivity.
  - cbn [zero_range repeat]. rewrite IH by (rewrite set_nth_length; lia).
    rewrite set_nth_zsplice by lia.
    replace (Z.of_nat (S from)) with (Z.of_nat from + zlen [0]) by (unfold zlen; cbn [length]; lia).
    rewrite zsplice_zsplice_adj by (unfold zlen; cbn [length]; lia). reflexivity.
Qed.

Lemma slice_zsub l from cnt : slice l from cnt = zsub l (Z.of_nat from) (Z.of_nat cnt).
Proof. unfold slice, zsub. rewrite !Nat2Z.id. reflexivity. Qed.

Lemma zsub_firstn l lo n m : (m <= Z.to_nat n)%nat ->
  firstn m (zsub l lo n) = zsub l lo (Z.of_nat m).
Proof.
  intros H. unfold zsub. rewrite firstn_firstn, Nat2Z.id.
  replace (Nat.min m (Z.to_nat n)) with m by lia. reflexivity.
Qed.

Lemma rb_len_le b : (rd b < blen b)%nat -> (wr b < blen b)%nat -> (rb_len b <= blen b)%nat.
Proof. intros. unfold rb_len. repeat (go_if; try lia); lia. Qed.

(* the segment one iteration of ReadN/Skip works on *)

Definition rn_end (b : rb) : nat := if (rd b <? wr b)%nat then wr b else blen b.

Definition rn_cnt (b : rb) (k : nat) : nat := Nat.min k (rn_end b - rd b).

Definition rn_next (b : rb) (cnt : nat) : rb :=
  mkRb (zero_range (buf b) (rd b) cnt) (wrap b (rd b + cnt)) (wr b).

Lemma wf_sub h s0 s o : wf_slice h s0 -> 0 <= o <= s_len s0 ->
  s_arr s = s_arr s0 -> s_off s = s_off s0 + o -> s_len s = s_len s0 - o -> s_cap s = s_cap s0 - o ->
  wf_slice h s.
Proof.
  intros (Wa & Wo & Wl & Wc & Wm) Ho Ea Eo El Ec. unfold wf_slice. rewrite Ea, Eo, El, Ec.
  repeat split; lia.
Qed.

Definition sk_n1 (b : rb) (n : Z) : nat :=
  if (Z.of_nat (rb_len b) <? n) then rb_len b else Z.to_nat n.

Definition sk_end (b : rb) (n : Z) : nat :=
  if (blen b <=? rd b + sk_n1 b n)%nat then blen b else (rd b + sk_n1 b n)%nat.

Definition sk_cnt (b : rb) (n : Z) : nat := (sk_end b n - rd b)%nat.

Lemma sk_n1_le b n : (sk_n1 b n <= rb_len b)%nat.
Proof. unfold sk_n1. go_if; lia. Qed.

(* the arguments of an operation are Go ints *)

Definition op_ok (o : op) : Prop :=
  match o with
  | OReadN k => Z.of_nat k < 9223372036854775808
  | OSkip n | OAt n => -9223372036854775808 <= n < 9223372036854775808
  | _ => True
  end.
