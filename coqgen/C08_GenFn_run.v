(** C08/C11, translator tie, run level: the glue [gen_step] / [gen_run] that
    drives the GENERATED cache code (Gen_ecache.v over Gen_imap.v) by a history
    of GetOrCreate / Remove / Clear calls, [gen_step_refines],
    [gen_run_refines], the headline

      gen_ecache_refines_lru : for every capacity >= 1, every key mapping,
      every pool oracle, every history of GetOrCreate (with its scripted
      create result) / Remove / Clear shorter than 2^29 calls, the results and
      the create / delete callbacks (arguments, order) of the generated code
      are those of the reference LRU of spec/LRU.v

    by composition with [C08_ecache_refines_lru], literal implementations of
    the parameters of the generated code (callbacks that log into array 1 of
    the heap, an injective pairing for [pair{pk, v}], channels) that discharge
    the assumptions of the per-function ties, the C11 bound
    [gen_lru_retention] and the example run of Properties/C08.v.
    ExpirableCache.GetOrCreate ([OEGet], expirable.go) is not generated: the
    histories are those without it. *)
Set Warnings "-notation-overridden,-parsing".
From Coq Require Import List ZArith NArith Arith Bool Lia.
From GL Require Import lib.IMapBase model.IMap spec.OMap spec.LRU model.ECache
  proofs.C10_Next proofs.C10_ChainSim proofs.C10_Main proofs.C11_Chain proofs.C11_LRU
  proofs.C08_ECache proofs.C08_LRU proofs.C08_Corollaries.
From GL Require Import lib.GoLite lib.GoLitePtr.
From GLGEN Require Import IM_GenVocab Gen_imap C10_GenFn_node C10_GenFn_walk C10_GenFn C10_GenFn_run C11_GenFn.
From GLGEN Require Import EC_GenVocab Gen_ecache C08_GenFn_small C08_GenFn_goc C08_GenFn_clear.
Import ListNotations.
Open Scope Z_scope.

(** * Literal implementations of the parameters *)

(* pair{pk, v} as one Z: 2^(f pk) * (2 * (f v + 1) + 1) on positives, f a bijection Z -> nonnegative Z *)
Definition zf (z : Z) : Z := if z <? 0 then - 2 * z - 1 else 2 * z.
Definition zg (y : Z) : Z := if y mod 2 =? 0 then y / 2 else - (y / 2) - 1.

Lemma zg_zf z : zg (zf z) = z.
Proof.
  unfold zg, zf. destruct (Z.ltb_spec z 0).
  - replace (- 2 * z - 1) with (1 + (- z - 1) * 2) by lia. rewrite Z_mod_plus_full, Z_div_plus_full by lia.
    cbn. lia.
  - replace (2 * z) with (0 + z * 2) by lia. rewrite Z_mod_plus_full, Z_div_plus_full by lia. cbn. lia.
Qed.

Lemma zf_nonneg z : 0 <= zf z.
Proof. unfold zf. destruct (Z.ltb_spec z 0); lia. Qed.

Fixpoint tz (p : positive) : nat := match p with xO q => S (tz q) | _ => O end.
Fixpoint strip (p : positive) : positive := match p with xO q => strip q | xI q => q | xH => xH end.

Fixpoint rep_xO (n : nat) (p : positive) : positive := match n with O => p | S k => xO (rep_xO k p) end.

Definition lit_pair_mk (a b : Z) : Z :=
  Zpos (rep_xO (Z.to_nat (zf a)) (xI (Z.to_pos (zf b + 1)))).
Definition lit_pair_pk (x : Z) : Z := match x with Zpos p => zg (Z.of_nat (tz p)) | _ => 0 end.
Definition lit_pair_v (x : Z) : Z := match x with Zpos p => zg (Zpos (strip p) - 1) | _ => 0 end.

Lemma tz_iter n q : tz (rep_xO n (xI q)) = n.
Proof. induction n as [|n IH]; [reflexivity|]. cbn [rep_xO tz]. rewrite IH. reflexivity. Qed.
Lemma strip_iter n q : strip (rep_xO n (xI q)) = q.
Proof. induction n as [|n IH]; [reflexivity|]. cbn [rep_xO strip]. exact IH. Qed.

Lemma lit_pair_spec : pair_spec lit_pair_mk lit_pair_pk lit_pair_v.
Proof.
  intros a b. unfold lit_pair_mk, lit_pair_pk, lit_pair_v. rewrite tz_iter, strip_iter.
  pose proof (zf_nonneg a). pose proof (zf_nonneg b). rewrite Z2Nat.id by lia. rewrite Z2Pos.id by lia.
  replace (zf b + 1 - 1) with (zf b) by lia. rewrite !zg_zf. split; reflexivity.
Qed.

(* the callbacks: a record of the call is appended to array 1 of the heap *)
Definition log_app (l : list Z) (h : heap) : heap := arr_set h 1 (arr_get h 1 ++ l).

Definition lit_keymap (kmap : Z -> Z) (hk pk : Z) : M Z := ret (kmap pk).
Definition lit_delete (hd pk v : Z) : M unit := fun h => Ok (tt, log_app (enc_ev (EvDelete pk v)) h).
Definition lit_create (res : option Z) (hc pk : Z) : M (Z * error) := fun h =>
  Ok (match res with Some v => (v, ENil) | None => (0, Err) end, log_app (enc_ev (EvCreate pk res)) h).
Definition lit_chan_make : M Z := ret 1.
Definition lit_chan_close (c : Z) : M unit := ret tt.
Definition lit_chan_recv (c : Z) : M unit := fun _ => NoFuel.   (* a receive nobody answers blocks for ever *)

Lemma lit_keymap_spec kmap : keymap_spec kmap (lit_keymap kmap).
Proof. intros hk pk h. reflexivity. Qed.
Lemma lit_delete_spec : delete_spec lit_delete.
Proof. intros hd pk v lg pl mh. reflexivity. Qed.
Lemma lit_create_spec : create_spec lit_create.
Proof. intros res hc pk lg pl mh. reflexivity. Qed.
Lemma lit_chan_spec : chan_spec lit_chan_make lit_chan_close.
Proof. split; [exists 1; reflexivity|reflexivity]. Qed.

(* reading the log back *)
Fixpoint dec_evs (l : list Z) : list (lru_ev Z Z) :=
  match l with
  | a :: pk :: c :: d :: t =>
      (if a =? 0 then EvCreate pk (if c =? 0 then None else Some d) else EvDelete pk c) :: dec_evs t
  | _ => []
  end.

Lemma dec_enc_evs evs : dec_evs (enc_evs evs) = evs.
Proof.
  induction evs as [|e t IH]; [reflexivity|]. unfold enc_evs in *. cbn [map concat].
  destruct e as [pk [v|]|pk v]; cbn [enc_ev app dec_evs Z.eqb]; rewrite IH; reflexivity.
Qed.

(** * The glue: one API call on the generated cache *)

Definition clear_log (h : heap) : heap := arr_set h 1 [].
Definition read_log (h : heap) : list Z := arr_get h 1.

Lemma clear_log_sheap lg s : clear_log (sheap lg s) = sheap [] s.
Proof. reflexivity. Qed.
Lemma read_log_sheap lg s : read_log (sheap lg s) = lg.
Proof. reflexivity. Qed.

Definition noeget (o : lru_op Z Z) : Prop := match o with OEGet _ _ _ _ => False | _ => True end.

Section Run8.

Variable pool_Put : Z -> Z -> M unit.
Variable pool_Get : option nat -> Z -> M Z.
Hypothesis Hput : put_spec pool_Put.
Hypothesis Hget : get_spec pool_Get.

Variable kmap : Z -> Z.
Variable keymap_call : Z -> Z -> M Z.
Variable delete_call : Z -> Z -> Z -> M unit.
Variable create_call : option Z -> Z -> Z -> M (Z * error).
Variable pair_mk : Z -> Z -> Z.
Variable pair_pk pair_v : Z -> Z.
Variable chan_make : M Z.
Variable chan_close chan_recv : Z -> M unit.
Hypothesis Hkey : keymap_spec kmap keymap_call.
Hypothesis Hdel : delete_spec delete_call.
Hypothesis Hcre : create_spec create_call.
Hypothesis Hpair : pair_spec pair_mk pair_pk pair_v.
Hypothesis Hchan : chan_spec chan_make chan_close.

Variables HC HD HK : Z.
Hypothesis HD_nz : HD <> 0.
Hypothesis HC_nz : HC <> 0.

Notation dec := (C08_GenFn_small.dec pair_pk pair_v).
Notation gp := (C08_GenFn_small.gp HC HD HK).
Notation expires := (fun _ : Z => 0).

(* [t]: the number of calls so far, the index into the pool oracle *)
Definition gen_step (ch : nat -> option nat) (t : nat) (p : Gen.ECache) (o : lru_op Z Z) (h : heap)
  : outcome ((Gen.ECache * lru_out Z Z) * heap) :=
  match o with
  | LRU.OGet pk res =>
      match Gen.ECache_GetOrCreate keymap_call pool_Put (pool_Get (ch t)) pair_v chan_make chan_recv (create_call res)
              chan_close pair_mk delete_call pair_pk p pk (clear_log h) with
      | Ok ((p', v, e), h') => Ok ((p', (res_of v e, dec_evs (read_log h'))), h')
      | GoPanic => GoPanic
      | NoFuel => NoFuel
      end
  | LRU.ORemove pk =>
      match Gen.ECache_Remove keymap_call pool_Put delete_call pair_pk pair_v p pk (clear_log h) with
      | Ok ((p', b), h') => Ok ((p', (RBool b, dec_evs (read_log h'))), h')
      | GoPanic => GoPanic
      | NoFuel => NoFuel
      end
  | OClear =>
      match Gen.ECache_Clear pool_Put delete_call pair_pk pair_v p (clear_log h) with
      | Ok ((p', n), h') => Ok ((p', (RCount (Z.to_nat n), dec_evs (read_log h'))), h')
      | GoPanic => GoPanic
      | NoFuel => NoFuel
      end
  | OEGet _ _ _ _ => GoPanic   (* ExpirableCache (expirable.go) is not generated *)
  end.

Fixpoint gen_run (ch : nat -> option nat) (t : nat) (p : Gen.ECache) (ops : list (lru_op Z Z)) (h : heap)
  : option (list (lru_out Z Z) * Gen.ECache * heap) :=
  match ops with
  | [] => Some ([], p, h)
  | o :: tl =>
      match gen_step ch t p o h with
      | Ok ((p', x), h') =>
          match gen_run ch (S t) p' tl h' with
          | Some (xs, pf, hf) => Some (x :: xs, pf, hf)
          | None => None
          end
      | _ => None
      end
  end.

Definition W (o : OMap.omap) : Z := 9 * Z.of_nat (length (entries o)) + 33.

Theorem gen_step_refines ch t lg cap s o op B : cinv B s o -> noeget op -> B + W o <= 2 ^ 62 ->
  let '(c', x, oof) := ec_step Z.eqb kmap expires (mkEC (bm dec (entries o)) cap) op in
  oof = false ->
  exists s' o',
    gen_step ch t (gp cap s) op (sheap lg s) = Ok ((gp cap s', x), sheap (enc_evs (snd x)) s') /\
    cinv (B + W o) s' o' /\ c' = mkEC (bm dec (entries o')) cap /\
    (length (entries o') <= length (entries o) + 1)%nat.
Proof.
  intros Ci Hno Hb. unfold W in *. pose proof Ci as (_ & (_ & _ & _ & HB) & _).
  destruct op as [pk res|pk| |pk now r1 r2]; [| | |destruct Hno]; cbn [ec_step gen_step]; rewrite clear_log_sheap.
  - (* GetOrCreate *)
    pose proof (gen_GetOrCreate_refines pool_Put pool_Get Hput Hget kmap keymap_call delete_call create_call
                  pair_mk pair_pk pair_v chan_make chan_close chan_recv Hkey Hdel Hcre Hpair Hchan HC HD HK HD_nz
                  [] (ch t) cap s o pk res B Ci ltac:(lia)) as G.
    assert (Hcap : ec_cap (fst (ec_get Z.eqb kmap (mkEC (bm dec (entries o)) cap) pk res)) = cap).
    { unfold ec_get. cbn [ECache.ec_items ECache.ec_cap]. destruct (sec_lookup _ _ _ _) as [[v it']|]; [reflexivity|].
      destruct res as [v|]; [|reflexivity]. destruct (sec_insert _ _ _ _ _ _) as [it' d]. reflexivity. }
    destruct (ec_get Z.eqb kmap (mkEC (bm dec (entries o)) cap) pk res) as [c' [r evs]]. intros _.
    destruct G as (s' & o' & v & e & E & Ci' & Hb' & -> & Hl). exists s', o'. rewrite E. rewrite read_log_sheap.
    cbn [app snd fst] in *. rewrite dec_enc_evs.
    split; [reflexivity|]. split; [destruct Ci' as (A & A2 & A3); split; [exact A|split; [eapply winv_mono; [|exact A2]; lia|exact A3]]|].
    split; [destruct c'; cbn [ECache.ec_items ECache.ec_cap] in *; subst; reflexivity|exact Hl].
  - (* Remove *)
    pose proof (gen_Remove_refines pool_Put pool_Get Hput Hget kmap keymap_call delete_call pair_pk pair_v Hkey Hdel
                  HC HD HK HD_nz [] cap s o pk B Ci ltac:(lia)) as G.
    unfold ec_remove. cbn [ECache.ec_items ECache.ec_cap].
    destruct (sec_remove Z.eqb kmap (bm dec (entries o)) pk) as [[it' b] d]. intros _.
    destruct G as (s' & o' & E & Ci' & Hb' & _ & Hl). exists s', o'. rewrite E, read_log_sheap.
    cbn [app snd fst] in *. rewrite dec_enc_evs.
    split; [reflexivity|]. split; [destruct Ci' as (A & A2 & A3); split; [exact A|split; [eapply winv_mono; [|exact A2]; lia|exact A3]]|].
    split; [subst; reflexivity|exact Hl].
  - (* Clear *)
    pose proof (gen_Clear_refines pool_Put pool_Get Hput Hget delete_call pair_pk pair_v Hdel HC HD HK HD_nz 0
                  [] cap s o B Ci ltac:(lia)) as G.
    unfold ec_clear. cbn [ECache.ec_items ECache.ec_cap].
    destruct (sec_clear Z.eqb (bm dec (entries o))) as [[[it' n] d] oof]. intros Hoof. specialize (G Hoof).
    destruct G as (s' & o' & E & Ci' & Hb' & _ & Hl). exists s', o'. rewrite E, read_log_sheap, Nat2Z.id.
    cbn [app snd fst] in *. rewrite dec_enc_evs.
    split; [reflexivity|]. split; [rewrite Z.add_assoc; exact Ci'|]. split; [subst; reflexivity|exact Hl].
Qed.

Theorem gen_run_refines ch cap : forall ops t lg s o B,
  cinv B s o -> Forall noeget ops ->
  snd (ec_run Z.eqb kmap expires (mkEC (bm dec (entries o)) cap) ops) = false ->
  B + Z.of_nat (length ops) * (9 * (Z.of_nat (length (entries o)) + Z.of_nat (length ops)) + 33) <= 2 ^ 62 ->
  exists sf of Bf lgf,
    gen_run ch t (gp cap s) ops (sheap lg s) =
      Some (fst (fst (ec_run Z.eqb kmap expires (mkEC (bm dec (entries o)) cap) ops)), gp cap sf, sheap lgf sf) /\
    cinv Bf sf of /\
    snd (fst (ec_run Z.eqb kmap expires (mkEC (bm dec (entries o)) cap) ops)) = mkEC (bm dec (entries of)) cap.
Proof.
  induction ops as [|op tl IH]; intros t lg s o B Ci Hno Hoof Hb.
  - cbn [ec_run gen_run fst snd]. exists s, o, B, lg. auto.
  - inversion Hno as [|? ? Hop Htl]; subst. cbn [ec_run gen_run]. cbn [ec_run] in Hoof. cbn [length] in Hb.
    pose proof Ci as (_ & (_ & _ & _ & HB) & _).
    pose proof (gen_step_refines ch t lg cap s o op B Ci Hop) as G. unfold W in G.
    destruct (ec_step Z.eqb kmap expires (mkEC (bm dec (entries o)) cap) op) as [[c' x] oof].
    destruct (ec_run Z.eqb kmap expires c' tl) as [[xs cf] oof'] eqn:Er. cbn [fst snd] in *.
    apply orb_false_elim in Hoof. destruct Hoof as [-> ->].
    destruct G as (s' & o' & E & Ci' & -> & Hl); [nia|reflexivity|]. rewrite E.
    destruct (IH (S t) (enc_evs (snd x)) s' o' (B + (9 * Z.of_nat (length (entries o)) + 33)) Ci' Htl) as (sf & of & Bf & lgf & E' & Cf & Hf).
    + rewrite Er. reflexivity.
    + nia.
    + rewrite Er in E', Hf. cbn [fst snd] in E', Hf. rewrite E'. exists sf, of, Bf, lgf. auto.
Qed.

(** * The program: c, _ := NewECache(cap, ..); then the calls *)

Definition gen_run_cache (ch : nat -> option nat) (cap : nat) (ops : list (lru_op Z Z))
  : option (list (lru_out Z Z) * Gen.ECache * heap) :=
  match Gen.NewECache (Z.of_nat cap) HK HC HD (gheap [] [] []) with
  | Ok ((p, _), h) => gen_run ch 0 p ops h
  | _ => None
  end.

Lemma cinv_init : cinv 0 i_new o_new.
Proof. split; [exact R_init|]. split; [exact winv_init|reflexivity]. Qed.

Theorem gen_cache_run_refines ch cap ops : (1 <= cap)%nat -> Forall noeget ops -> Z.of_nat (length ops) < 2 ^ 29 ->
  exists sf of Bf lgf,
    gen_run_cache ch cap ops =
      Some (fst (lru_run Z.eqb kmap expires cap [] ops), gp cap sf, sheap lgf sf) /\
    cinv Bf sf of /\
    snd (fst (ec_run Z.eqb kmap expires (ec_new cap) ops)) = mkEC (bm dec (entries of)) cap.
Proof.
  intros Hc Hno Hlen. unfold gen_run_cache.
  rewrite (gen_NewECache_refines pair_pk pair_v HC HD HK [] cap Hc HC_nz).
  assert (Hrf : forall a b : Z, reflect (a = b) (a =? b)) by (intros a b; apply Z.eqb_spec).
  pose proof (@ecache_never_out_of_fuel Z Z Z Z.eqb Hrf kmap expires cap ops) as Hoof.
  destruct (gen_run_refines ch cap ops 0%nat [] i_new o_new 0 cinv_init Hno Hoof) as (sf & of & Bf & lgf & E & Cf & Hf).
  - cbn [entries o_new length]. change (2 ^ 29) with 536870912 in Hlen. rewrite two62'. nia.
  - exists sf, of, Bf, lgf. split; [|split; [exact Cf|exact Hf]].
    change (mkEC (bm dec (entries o_new)) cap) with (@ec_new Z Z Z cap) in E. rewrite E.
    rewrite (@ecache_refines_lru Z Z Z Z.eqb Hrf kmap expires cap ops). reflexivity.
Qed.

(** the headline: results and callbacks of the generated cache = the reference LRU *)
Theorem gen_ecache_refines_lru ch cap ops : (1 <= cap)%nat -> Forall noeget ops -> Z.of_nat (length ops) < 2 ^ 29 ->
  option_map (fun r => fst (fst r)) (gen_run_cache ch cap ops) = Some (fst (lru_run Z.eqb kmap expires cap [] ops)).
Proof.
  intros Hc Hno Hlen. destruct (gen_cache_run_refines ch cap ops Hc Hno Hlen) as (sf & of & Bf & lgf & E & _ & _).
  rewrite E. reflexivity.
Qed.

(** C11: at every operation boundary (= after every history) the list of the generated cache has at most
    capacity + 1 nodes, none of them pinned *)
Theorem gen_lru_retention ch cap ops : (1 <= cap)%nat -> Forall noeget ops -> Z.of_nat (length ops) < 2 ^ 29 ->
  exists outs p gh, gen_run_cache ch cap ops = Some (outs, p, gh) /\
    let chain := gwalk (length gh - 1) gh (Gen.Map_head (Gen.ECache_items p)) in
    (length chain <= cap + 1)%nat /\ gdeleted gh chain = 0%nat /\
    length chain = (Z.to_nat (Gen.Map_Len (Gen.ECache_items p)) + 1)%nat.
Proof.
  intros Hc Hno Hlen. destruct (gen_cache_run_refines ch cap ops Hc Hno Hlen) as (sf & of & Bf & lgf & E & (HR & Wi & Ho) & Hf).
  eexists _, _, _. split; [exact E|].
  destruct Wi as (((C & Hhd & _) & _) & _).
  cbv zeta. unfold C08_GenFn_small.gp. cbn [Gen.ECache_items]. unfold sheap. rewrite length_gheap. cbn [Nat.sub].
  change (Gen.Map_head (gmap sf)) with (ptr (head sf)). rewrite gen_Len_refines, Nat2Z.id.
  rewrite (gwalk_gheap _ _ _ C) by exact Hhd. change (walk (S (length (heap_of sf))) (heap_of sf) (head sf)) with (i_chain sf).
  rewrite map_length, gdeleted_gheap by (intros y Hy; exact (walk_in_range _ _ _ _ Hy)).
  change (length (filter _ (flat_map _ (i_chain sf)))) with (count_deleted sf).
  pose proof (R_chain_length sf of HR) as Hcl. pose proof (R_pinned_le_iters sf of HR) as Hpi.
  pose proof (R_open sf of HR) as Hop. rewrite Ho in Hop. cbn [length] in Hop.
  pose proof (R_len sf of HR) as Hln.
  assert (Hrf : forall a b : Z, reflect (a = b) (a =? b)) by (intros a b; apply Z.eqb_spec).
  pose proof (@ecache_resident_le_cap Z Z Z Z.eqb Hrf kmap expires cap ops) as Hres.
  rewrite Hf in Hres. unfold ec_resident in Hres. rewrite map_length in Hres. cbn [ec_items] in Hres.
  change (length (om_ents (bm dec (entries of)))) with (om_len (bm dec (entries of))) in Hres. rewrite B_len in Hres.
  lia.
Qed.

End Run8.

(** * Closed forms: the literal pool, callbacks, pairing and channels; handles 1 / 2 / 3 *)

Definition lit_cache_run (kmap : Z -> Z) (ch : nat -> option nat) (cap : nat) (ops : list (lru_op Z Z)) :=
  gen_run_cache lit_Put lit_Get (lit_keymap kmap) lit_delete lit_create lit_pair_mk lit_pair_pk lit_pair_v
    lit_chan_make lit_chan_close lit_chan_recv 1 2 3 ch cap ops.

Theorem gen_ecache_refines_lru_lit : forall kmap ch cap ops,
  (1 <= cap)%nat -> Forall noeget ops -> Z.of_nat (length ops) < 2 ^ 29 ->
  option_map (fun r => fst (fst r)) (lit_cache_run kmap ch cap ops) =
  Some (fst (lru_run Z.eqb kmap (fun _ => 0) cap [] ops)).
Proof.
  intros kmap ch cap ops. unfold lit_cache_run.
  apply (gen_ecache_refines_lru lit_Put lit_Get lit_put_spec lit_get_spec kmap (lit_keymap kmap) lit_delete lit_create
           lit_pair_mk lit_pair_pk lit_pair_v lit_chan_make lit_chan_close lit_chan_recv
           (lit_keymap_spec kmap) lit_delete_spec lit_create_spec lit_pair_spec lit_chan_spec 1 2 3); lia.
Qed.

Theorem gen_lru_retention_lit : forall kmap ch cap ops,
  (1 <= cap)%nat -> Forall noeget ops -> Z.of_nat (length ops) < 2 ^ 29 ->
  exists outs p gh, lit_cache_run kmap ch cap ops = Some (outs, p, gh) /\
    let chain := gwalk (length gh - 1) gh (Gen.Map_head (Gen.ECache_items p)) in
    (length chain <= cap + 1)%nat /\ gdeleted gh chain = 0%nat /\
    length chain = (Z.to_nat (Gen.Map_Len (Gen.ECache_items p)) + 1)%nat.
Proof.
  intros kmap ch cap ops. unfold lit_cache_run.
  apply (gen_lru_retention lit_Put lit_Get lit_put_spec lit_get_spec kmap (lit_keymap kmap) lit_delete lit_create
           lit_pair_mk lit_pair_pk lit_pair_v lit_chan_make lit_chan_close lit_chan_recv
           (lit_keymap_spec kmap) lit_delete_spec lit_create_spec lit_pair_spec lit_chan_spec 1 2 3); lia.
Qed.

(** the example run of Properties/C08.v (capacity 2, identity key mapping) and the key-mapping example
    (pk mod 3, capacity 1) through the generated code, pool always re-using / always fresh *)
Definition ex_ops : list (lru_op Z Z) :=
  [LRU.OGet 1 (Some 101); LRU.OGet 2 (Some 102); LRU.OGet 1 (Some 999); LRU.OGet 3 None;
   LRU.OGet 3 (Some 103); LRU.OGet 2 (Some 104); LRU.ORemove 3; LRU.ORemove 3; LRU.OGet 5 (Some 105);
   OClear; LRU.OGet 1 (Some 106); OClear].

Definition ex_outs : list (lru_out Z Z) :=
  [(RVal 101, [EvCreate 1 (Some 101)]);
   (RVal 102, [EvCreate 2 (Some 102)]);
   (RVal 101, []);
   (RErr, [EvCreate 3 None]);
   (RVal 103, [EvCreate 3 (Some 103); EvDelete 2 102]);
   (RVal 104, [EvCreate 2 (Some 104); EvDelete 1 101]);
   (RBool true, [EvDelete 3 103]);
   (RBool false, []);
   (RVal 105, [EvCreate 5 (Some 105)]);
   (RCount 2, [EvDelete 2 104; EvDelete 5 105]);
   (RVal 106, [EvCreate 1 (Some 106)]);
   (RCount 1, [EvDelete 1 106])].

Example gen_ex_cache :
  option_map (fun r => fst (fst r)) (lit_cache_run (fun pk => pk) always_reuse 2 ex_ops) = Some ex_outs /\
  option_map (fun r => fst (fst r)) (lit_cache_run (fun pk => pk) always_fresh 2 ex_ops) = Some ex_outs /\
  option_map (fun r => fst (fst r))
    (lit_cache_run (fun pk => pk mod 3) always_reuse 1
       [LRU.OGet 1 (Some 11); LRU.OGet 4 (Some 12); LRU.OGet 2 (Some 13); LRU.ORemove 5; LRU.OGet 7 (Some 14)]) =
  Some [(RVal 11, [EvCreate 1 (Some 11)]); (RVal 11, []);
        (RVal 13, [EvCreate 2 (Some 13); EvDelete 1 11]); (RBool true, [EvDelete 2 13]);
        (RVal 14, [EvCreate 7 (Some 14)])] /\
  Forall noeget ex_ops.
Proof. vm_compute. repeat split; try reflexivity. repeat constructor. Qed.

Print Assumptions gen_step_refines.
Print Assumptions gen_run_refines.
Print Assumptions gen_ecache_refines_lru.
Print Assumptions gen_lru_retention.
Print Assumptions gen_ecache_refines_lru_lit.
Print Assumptions gen_lru_retention_lit.
Print Assumptions gen_ex_cache.
