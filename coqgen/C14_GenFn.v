(** C14, translator tie: container/ringbuffer.go as translated from the Go
    source on this run (Gen_ringbuffer.v, harness/cmd/go2coq; the type
    parameter V is instantiated with Z, zero value 0) against the hand-written
    model coq/model/RingBuf.v.

    [rel h g b]: the generated record [g] in heap [h] represents the model
    state [b] (same backing array contents, same indices).  For every operation
    and every related pair of states satisfying the model's invariant the
    generated method returns [Ok], the same result as the model and a related
    state ([gen_*_refines]); [gen_rb_refines_queue] restates the headline
    theorem of C14 over the generated step function.  container.SliceFill
    (both its element loop and its doubling copy) is translated too and proved
    to fill its argument ([gen_SliceFill_spec]). *)
From Coq Require Import List ZArith Arith Lia Bool.
From Coq Require Import ZifyBool ZifyNat.
From GL Require Import lib.GoLite model.RingBuf spec.Queue proofs.C14_RingBuf.
From GLGEN Require Import RB_GenVocab Gen_ringbuffer C14_GenFn_fill C14_GenFn_core.
Import ListNotations.
Open Scope Z_scope.
Ltac Zify.zify_post_hook ::= Z.div_mod_to_equations.

Lemma gen_ReadN_done : forall h g b dst res, rel h g b -> 0 <= s_len dst ->
  ((0 <? Z.to_nat (s_len dst)) && (0 <? rb_len b))%nat = false ->
  Gen.ringBuffer_ReadN_loop1 0 (g, dst, res) h = Ok (Done (g, dst, res), h).
Proof.
  intros h g b dst res R Hd Hc. unfold Gen.ringBuffer_ReadN_loop1. cbv beta iota zeta.
  rewrite (gen_Len_refines h g b R). go_if; [lia|reflexivity].
Qed.

(* after zeroing [cnt] slots from rd and advancing, the states are related again *)

Lemma rel_advance : forall h g b cnt h' rv,
  rel h g b -> (rd b + cnt <= blen b)%nat ->
  wf_slice h' (Gen.ringBuffer_buf g) ->
  sl_get h' (Gen.ringBuffer_buf g) = zsplice (buf b) (Z.of_nat (rd b)) (repeat 0 cnt) ->
  rv = Z.of_nat (wrap b (rd b + cnt)) ->
  rel h' (Gen.set_ringBuffer_r g rv) (rn_next b cnt).
Proof.
  intros h g b cnt h' rv R Hc W' G ->. rel_facts R. unfold rn_next.
  rel_split; unfold blen; cbn [buf]; rewrite ?zero_range_length; try assumption.
  - rewrite G. symmetry. apply zero_range_zsplice. unfold blen in *. lia.
  - reflexivity.
  - unfold wrap, blen in *. go_if; lia.
Qed.

Lemma gen_ReadN_body : forall h g b dst res, rel h g b ->
  wf_slice h dst -> s_arr dst <> s_arr (Gen.ringBuffer_buf g) ->
  0 <= res -> res + s_len dst < 9223372036854775808 ->
  ((0 <? Z.to_nat (s_len dst)) && (0 <? rb_len b))%nat = true ->
  exists g2,
    Gen.ringBuffer_ReadN_loop1 0 (g, dst, res) h =
      Ok (Next (g2,
                mkSl (s_arr dst) (s_off dst + Z.of_nat (rn_cnt b (Z.to_nat (s_len dst))))
                     (s_len dst - Z.of_nat (rn_cnt b (Z.to_nat (s_len dst))))
                     (s_cap dst - Z.of_nat (rn_cnt b (Z.to_nat (s_len dst)))),
                res + Z.of_nat (rn_cnt b (Z.to_nat (s_len dst)))),
          sl_put (sl_put h dst 0 (slice (buf b) (rd b) (rn_cnt b (Z.to_nat (s_len dst)))))
                 (Gen.ringBuffer_buf g) (Z.of_nat (rd b)) (repeat 0 (rn_cnt b (Z.to_nat (s_len dst))))) /\
    rel (sl_put (sl_put h dst 0 (slice (buf b) (rd b) (rn_cnt b (Z.to_nat (s_len dst)))))
                (Gen.ringBuffer_buf g) (Z.of_nat (rd b)) (repeat 0 (rn_cnt b (Z.to_nat (s_len dst)))))
        g2 (rn_next b (rn_cnt b (Z.to_nat (s_len dst)))) /\
    Gen.ringBuffer_buf g2 = Gen.ringBuffer_buf g /\
    (1 <= rn_cnt b (Z.to_nat (s_len dst)) <= Z.to_nat (s_len dst))%nat.
Proof.
  intros h g b dst res R Wd Hne Hres Hov Hc. rel_facts R.
  pose proof Wd as (Da & Do & Dl & Dc & Dm).
  pose proof (rb_len_le b Hrd Hwr) as Hl.
  set (k := Z.to_nat (s_len dst)) in *. set (cnt := rn_cnt b k).
  assert (Hcnt : (1 <= cnt <= k /\ rd b + cnt <= blen b /\ cnt <= rb_len b /\ cnt <= rn_end b - rd b)%nat).
  { subst cnt. unfold rn_cnt, rn_end, rb_len in *. repeat (go_if; try lia); lia. }
  set (vals := slice (buf b) (rd b) cnt).
  assert (Lv : zlen vals = Z.of_nat cnt).
  { subst vals. rewrite slice_zsub. apply zlen_zsub; unfold zlen, blen in *; lia. }
  set (h1 := sl_put h dst 0 vals).
  assert (W1 : wf_slice h1 (Gen.ringBuffer_buf g)) by (apply wf_slice_put; [exact Wd|lia|lia|exact W]).
  assert (W1d : wf_slice h1 dst) by (apply wf_slice_put; [exact Wd|lia|lia|exact Wd]).
  assert (G1 : sl_get h1 (Gen.ringBuffer_buf g) = buf b)
    by (unfold h1; rewrite sl_get_put_other by assumption; exact Hbuf).
  set (h2 := sl_put h1 (Gen.ringBuffer_buf g) (Z.of_nat (rd b)) (repeat 0 cnt)).
  assert (W2 : wf_slice h2 (Gen.ringBuffer_buf g))
    by (apply wf_slice_put; [exact W1|lia|rewrite zlen_repeat; lia|exact W1]).
  assert (G2 : sl_get h2 (Gen.ringBuffer_buf g) = zsplice (buf b) (Z.of_nat (rd b)) (repeat 0 cnt))
    by (unfold h2; rewrite sl_get_put_same by (try exact W1; rewrite ?zlen_repeat; lia); rewrite G1; reflexivity).
  exists (Gen.set_ringBuffer_r g (Z.of_nat (wrap b (rd b + cnt)))).
  split; [|split; [apply (rel_advance h g b cnt h2 _ R); try assumption; try reflexivity; lia
                  |split; [reflexivity|lia]]].
  unfold Gen.ringBuffer_ReadN_loop1. cbv beta iota zeta.
  rewrite (gen_Len_refines h g b R).
  (* up to the call of SliceFill *)
  go_run;
  match goal with |- context [Z.min (s_len dst) ?x] =>
    replace (Z.min (s_len dst) x) with (Z.of_nat cnt) in *
      by (subst cnt; unfold rn_cnt, rn_end; destruct (rd b <? wr b)%nat eqn:?; unfold blen in *; lia)
  end;
  rewrite ?Nat2Z.id;
  match goal with |- context [firstn cnt (sl_get h ?s1)] =>
    replace (firstn cnt (sl_get h s1)) with vals
      by (subst vals; rewrite slice_zsub;
          match goal with |- _ = firstn cnt (sl_get h (mkSl _ _ (?hi - ?lo) _)) =>
            rewrite (sl_get_reslice_len h (Gen.ringBuffer_buf g) lo hi W) by (unfold blen in *; lia) end;
          rewrite zsub_firstn by (unfold rn_end in *; destruct (rd b <? wr b)%nat eqn:?; unfold blen in *; lia);
          rewrite Hbuf; f_equal; lia)
  end;
  fold h1;
  match goal with |- context [bind (Gen.SliceFill ?s ?v) ?kk ?hh] =>
    let Ws := fresh "Ws" in
    assert (Ws : wf_slice hh s) by (unfold wf_slice; cbn [s_arr s_off s_len s_cap]; destruct W1 as (? & ? & ? & ? & ?); repeat split; lia);
    go_call (gen_SliceFill_spec hh s v Ws ltac:(cbn [s_len]; lia))
  end;
  go_rebase (Gen.ringBuffer_buf g); cbn [s_len];
  match goal with |- context [sl_put h1 (Gen.ringBuffer_buf g) ?o (repeat 0 ?n)] =>
    replace (sl_put h1 (Gen.ringBuffer_buf g) o (repeat 0 n)) with h2
      by (unfold h2; f_equal; [lia|f_equal; lia])
  end;
  go_run; unfold ret; unfold Gen.set_ringBuffer_r; rel_cbn; repeat f_equal; unfold wrap, blen in *;
  repeat (go_if; try lia); lia.
Qed.

(* the loop of ReadN: [dst] is what is left of the caller's slice [dst0] after
   [res] elements were delivered *)

Lemma gen_ReadN_loop : forall mf h g b dst0 dst res acc b' vals f,
  rel h g b -> wf_slice h dst0 -> s_arr dst0 <> s_arr (Gen.ringBuffer_buf g) ->
  0 <= res <= s_len dst0 ->
  s_arr dst = s_arr dst0 -> s_off dst = s_off dst0 + res ->
  s_len dst = s_len dst0 - res -> s_cap dst = s_cap dst0 - res ->
  rb_readn_loop mf b (Z.to_nat (s_len dst)) acc = (b', vals, false) ->
  (mf < f)%nat ->
  exists g' dst' h' news,
    iter f (Gen.ringBuffer_ReadN_loop1 0) (g, dst, res) h = Ok ((g', dst', res + zlen news), h') /\
    rel h' g' b' /\ vals = acc ++ news /\
    sl_get h' dst0 = zsplice (sl_get h dst0) res news /\ res + zlen news <= s_len dst0 /\
    wf_slice h' dst0 /\ length h' = length h /\ Gen.ringBuffer_buf g' = Gen.ringBuffer_buf g.
Proof.
  induction mf as [|m IH]; intros h g b dst0 dst res acc b' vals f R W0 Hne Hres Ea Eo El Ec Hm Hf;
    (destruct f as [|f]; [lia|]); rewrite iter_S; cbn [rb_readn_loop] in Hm;
    pose proof (wf_sub h dst0 dst res W0 Hres Ea Eo El Ec) as Wd;
    pose proof W0 as (W0a & W0o & W0l & W0c & W0m);
    destruct ((0 <? Z.to_nat (s_len dst)) && (0 <? rb_len b))%nat eqn:Ec'.
  - discriminate.
  - injection Hm as <- <-.
    go_call (gen_ReadN_done h g b dst res R ltac:(lia) Ec'). cbv beta iota zeta. unfold ret.
    exists g, dst, h, []. rewrite app_nil_r, zsplice_nil. unfold zlen. cbn [length].
    rewrite Z.add_0_r.
    split; [reflexivity|]. split; [exact R|]. split; [reflexivity|]. split; [reflexivity|].
    split; [lia|]. split; [exact W0|]. split; reflexivity.
  - (* one segment, then the rest *)
    destruct (gen_ReadN_body h g b dst res R Wd ltac:(congruence) ltac:(lia) ltac:(lia) Ec')
      as (g2 & E & R2 & Eb & Hc).
    set (k := Z.to_nat (s_len dst)) in *. set (cnt := rn_cnt b k) in *.
    set (v1 := slice (buf b) (rd b) cnt) in *.
    assert (Lv : zlen v1 = Z.of_nat cnt).
    { subst v1. rewrite slice_zsub. pose proof (rel_rd _ _ _ R). pose proof (rel_len _ _ _ R).
      assert ((rd b + cnt <= blen b)%nat) by (subst cnt; unfold rn_cnt, rn_end; repeat (go_if; try lia); pose proof (rel_wr _ _ _ R); lia).
      apply zlen_zsub; unfold zlen, blen in *; lia. }
    go_call E. cbv beta iota zeta.
    change (rb_readn_loop m (rn_next b cnt) (k - cnt) (acc ++ v1) = (b', vals, false)) in Hm.
    match type of E with _ = Ok (Next (_, ?d2, _), ?hh) => set (dst2 := d2) in *; set (h2 := hh) in * end.
    assert (W1 : wf_slice (sl_put h dst 0 v1) dst0) by (apply wf_slice_put; [exact Wd|lia|lia|exact W0]).
    assert (W2 : wf_slice h2 dst0).
    { apply wf_slice_put; [| | |exact W1].
      - apply wf_slice_put; [exact Wd|lia|lia|exact (rel_wf _ _ _ R)].
      - lia.
      - rewrite zlen_repeat. pose proof (rel_wf _ _ _ R2) as (_ & _ & ? & _). rewrite Eb in *.
        pose proof (rel_len _ _ _ R). pose proof (rel_rd _ _ _ R).
        assert ((rd b + cnt <= blen b)%nat) by (subst cnt; unfold rn_cnt, rn_end; repeat (go_if; try lia); pose proof (rel_wr _ _ _ R); lia).
        lia. }
    assert (G2 : sl_get h2 dst0 = zsplice (sl_get h dst0) res v1).
    { unfold h2. rewrite sl_get_put_other.
      - rewrite (sl_put_eq h dst dst0 0 res v1) by lia.
        apply sl_get_put_same; [exact W0|lia|lia].
      - apply wf_slice_put; [exact Wd|lia|lia|exact (rel_wf _ _ _ R)].
      - congruence. }
    destruct (IH h2 g2 (rn_next b cnt) dst0 dst2 (res + Z.of_nat cnt) (acc ++ v1) b' vals f R2 W2)
      as (g' & dst' & h' & news2 & E2 & R' & Hv & G' & Hb' & W' & Hl' & Eb');
      try (subst dst2; cbn [s_arr s_off s_len s_cap]; lia); try lia.
    { rewrite Eb. exact Hne. }
    { subst dst2. cbn [s_len]. replace (Z.to_nat (s_len dst - Z.of_nat cnt)) with (k - cnt)%nat by lia. exact Hm. }
    rewrite E2. exists g', dst', h', (v1 ++ news2).
    rewrite zlen_app, Lv, Z.add_assoc.
    split; [reflexivity|]. split; [exact R'|]. split; [rewrite Hv, app_assoc; reflexivity|].
    split.
    { rewrite G', G2. replace (res + Z.of_nat cnt) with (res + zlen v1) by lia.
      apply zsplice_zsplice_adj; [lia|]. rewrite (sl_get_len h dst0 W0). lia. }
    split; [lia|]. split; [exact W'|]. split.
    { rewrite Hl'. unfold h2. rewrite !sl_put_length; try reflexivity; try exact Wd.
      apply wf_slice_put; [exact Wd|lia|lia|exact (rel_wf _ _ _ R)]. }
    rewrite Eb', Eb. reflexivity.
  - injection Hm as <- <-.
    go_call (gen_ReadN_done h g b dst res R ltac:(lia) Ec'). cbv beta iota zeta. unfold ret.
    exists g, dst, h, []. rewrite app_nil_r, zsplice_nil. unfold zlen. cbn [length].
    rewrite Z.add_0_r.
    split; [reflexivity|]. split; [exact R|]. split; [reflexivity|]. split; [reflexivity|].
    split; [lia|]. split; [exact W0|]. split; reflexivity.
Qed.

Theorem gen_ReadN_refines : forall h g b q dst, rel h g b -> Inv b q ->
  wf_slice h dst -> s_arr dst <> s_arr (Gen.ringBuffer_buf g) ->
  exists g' h' b' vals,
    rb_readn b (Z.to_nat (s_len dst)) = (b', vals, false) /\
    Gen.ringBuffer_ReadN g dst h = Ok ((g', zlen vals), h') /\ rel h' g' b' /\
    sl_get h' dst = zsplice (sl_get h dst) 0 vals /\ zlen vals <= s_len dst /\
    wf_slice h' dst /\ length h' = length h.
Proof.
  intros h g b q dst R HI Wd Hne. pose proof Wd as (Da & Do & Dl & Dc & Dm).
  destruct (readn_loop_spec 2 b q (Z.to_nat (s_len dst)) [] HI (readn_need_le2 b _)) as (b' & Hm & _).
  unfold Gen.ringBuffer_ReadN. cbv beta iota zeta.
  pose proof (rel_len _ _ _ R). pose proof (rel_rd _ _ _ R).
  match goal with |- context [iter ?f _ _] =>
    destruct (gen_ReadN_loop 2 h g b dst dst 0 [] b' _ f R Wd Hne ltac:(lia) eq_refl ltac:(lia) ltac:(lia) ltac:(lia) Hm ltac:(lia))
      as (g' & dst' & h' & news & E & R' & Hv & G & Hb & W' & Hl & _)
  end.
  cbn [app] in Hv, Hm. subst news. exists g', h', b', (firstn (Z.to_nat (s_len dst)) (qitems q)). unfold rb_readn.
  split; [exact Hm|]. go_call E. cbv beta iota zeta. unfold ret. rewrite Z.add_0_l in *.
  split; [reflexivity|]. split; [exact R'|]. split; [exact G|]. split; [exact Hb|]. split; assumption.
Qed.

Print Assumptions gen_ReadN_refines.

Lemma gen_Skip_done : forall h g b n res, rel h g b ->
  ((0 <? n) && (0 <? rb_len b)%nat) = false ->
  Gen.ringBuffer_Skip_loop1 0 (g, n, res) h = Ok (Done (g, n, res), h).
Proof.
  intros h g b n res R Hc. unfold Gen.ringBuffer_Skip_loop1. cbv beta iota zeta.
  rewrite (gen_Len_refines h g b R). go_if; [lia|reflexivity].
Qed.

Lemma gen_Skip_body : forall h g b n res, rel h g b ->
  -9223372036854775808 <= n < 9223372036854775808 ->
  0 <= res -> res + s_len (Gen.ringBuffer_buf g) < 9223372036854775808 ->
  ((0 <? n) && (0 <? rb_len b)%nat) = true ->
  exists g2,
    Gen.ringBuffer_Skip_loop1 0 (g, n, res) h =
      Ok (Next (g2, Z.of_nat (sk_n1 b n - sk_cnt b n), res + Z.of_nat (sk_cnt b n)),
          sl_put h (Gen.ringBuffer_buf g) (Z.of_nat (rd b)) (repeat 0 (sk_cnt b n))) /\
    rel (sl_put h (Gen.ringBuffer_buf g) (Z.of_nat (rd b)) (repeat 0 (sk_cnt b n))) g2
        (mkRb (zero_range (buf b) (rd b) (sk_cnt b n)) (wrap b (sk_end b n)) (wr b)) /\
    Gen.ringBuffer_buf g2 = Gen.ringBuffer_buf g /\ (sk_cnt b n <= blen b)%nat.
Proof.
  intros h g b n res R Hn Hres Hov Hc. rel_facts R.
  pose proof (rb_len_le b Hrd Hwr) as Hl.
  assert (Hn1 : sk_n1 b n = Z.to_nat (Z.min n (Z.of_nat (rb_len b)))) by (unfold sk_n1; go_if; lia).
  assert (Hend : sk_end b n = Nat.min (blen b) (rd b + sk_n1 b n)) by (unfold sk_end; go_if; lia).
  set (cnt := sk_cnt b n).
  assert (Hcnt : (1 <= cnt /\ rd b + cnt = sk_end b n /\ sk_end b n <= blen b /\ cnt <= sk_n1 b n)%nat)
    by (subst cnt; unfold sk_cnt; lia).
  set (h2 := sl_put h (Gen.ringBuffer_buf g) (Z.of_nat (rd b)) (repeat 0 cnt)).
  assert (W2 : wf_slice h2 (Gen.ringBuffer_buf g))
    by (apply wf_slice_put; [exact W|lia|rewrite zlen_repeat; lia|exact W]).
  assert (G2 : sl_get h2 (Gen.ringBuffer_buf g) = zsplice (buf b) (Z.of_nat (rd b)) (repeat 0 cnt))
    by (unfold h2; rewrite sl_get_put_same by (try exact W; rewrite ?zlen_repeat; lia); rewrite Hbuf; reflexivity).
  exists (Gen.set_ringBuffer_r g (Z.of_nat (wrap b (sk_end b n)))).
  split; [|split; [|split; [reflexivity|lia]]].
  2:{ replace (sk_end b n) with (rd b + cnt)%nat by lia.
      apply (rel_advance h g b cnt h2 _ R); try assumption; try reflexivity; lia. }
  unfold Gen.ringBuffer_Skip_loop1. cbv beta iota zeta.
  rewrite (gen_Len_refines h g b R).
  go_run;
  match goal with |- context [bind (Gen.SliceFill ?s ?v) ?kk ?hh] =>
    let Ws := fresh "Ws" in
    assert (Ws : wf_slice hh s)
      by (unfold wf_slice; cbn [s_arr s_off s_len s_cap]; unfold blen in *; repeat split; lia);
    go_call (gen_SliceFill_spec hh s v Ws ltac:(cbn [s_len]; lia))
  end;
  go_rebase (Gen.ringBuffer_buf g); cbn [s_len];
  match goal with |- context [sl_put h (Gen.ringBuffer_buf g) ?o (repeat 0 ?m)] =>
    let X := fresh "X" in
    assert (X : h2 = sl_put h (Gen.ringBuffer_buf g) o (repeat 0 m))
      by (rel_cbn; unfold h2; subst cnt; unfold sk_cnt, blen in *; repeat f_equal; lia);
    rewrite <- X
  end;
  go_run; unfold ret; unfold Gen.set_ringBuffer_r; rel_cbn; repeat f_equal;
  subst cnt; unfold wrap, sk_cnt, blen in *; repeat (go_if; try lia); lia.
Qed.

Lemma gen_Skip_loop : forall mf h g b n mres b' mres' f,
  rel h g b -> -9223372036854775808 <= n < 9223372036854775808 ->
  Z.of_nat mres + (Z.of_nat mf + 1) * s_len (Gen.ringBuffer_buf g) < 9223372036854775808 ->
  rb_skip_loop mf b n mres = (b', mres', false) -> (mf < f)%nat ->
  exists g' n' h',
    iter f (Gen.ringBuffer_Skip_loop1 0) (g, n, Z.of_nat mres) h = Ok ((g', n', Z.of_nat mres'), h') /\
    rel h' g' b' /\ length h' = length h /\ Gen.ringBuffer_buf g' = Gen.ringBuffer_buf g.
Proof.
  induction mf as [|m IH]; intros h g b n mres b' mres' f R Hn Hov Hm Hf;
    (destruct f as [|f]; [lia|]); rewrite iter_S; cbn [rb_skip_loop] in Hm;
    pose proof (rel_wf _ _ _ R) as W; pose proof W as (Wa & Wo & Wl & Wc & Wm);
    destruct ((0 <? n) && (0 <? rb_len b)%nat) eqn:Ec.
  - discriminate.
  - injection Hm as <- <-. go_call (gen_Skip_done h g b n (Z.of_nat mres) R Ec).
    cbv beta iota zeta. unfold ret. exists g, n, h. split; [reflexivity|]. split; [exact R|]. split; reflexivity.
  - destruct (gen_Skip_body h g b n (Z.of_nat mres) R Hn ltac:(lia) ltac:(nia) Ec) as (g2 & E & R2 & Eb & Hc).
    go_call E. cbv beta iota zeta.
    change (rb_skip_loop m (mkRb (zero_range (buf b) (rd b) (sk_cnt b n)) (wrap b (sk_end b n)) (wr b))
              (Z.of_nat (sk_n1 b n - sk_cnt b n)) (mres + sk_cnt b n) = (b', mres', false)) in Hm.
    replace (Z.of_nat mres + Z.of_nat (sk_cnt b n)) with (Z.of_nat (mres + sk_cnt b n)) by lia.
    pose proof (rel_len _ _ _ R) as L. pose proof (sk_n1_le b n) as Hn1. pose proof (rel_small _ _ _ R) as Hsm.
    pose proof (rb_len_le b (rel_rd _ _ _ R) (rel_wr _ _ _ R)) as Hll.
    destruct (IH _ g2 _ (Z.of_nat (sk_n1 b n - sk_cnt b n)) (mres + sk_cnt b n)%nat b' mres' f R2 ltac:(lia) ltac:(rewrite Eb; nia) Hm ltac:(lia))
      as (g' & n' & h' & E2 & R' & Hl' & Eb').
    rewrite E2. exists g', n', h'. split; [reflexivity|]. split; [exact R'|]. split.
    + rewrite Hl'. apply sl_put_length. exact W.
    + rewrite Eb', Eb. reflexivity.
  - injection Hm as <- <-. go_call (gen_Skip_done h g b n (Z.of_nat mres) R Ec).
    cbv beta iota zeta. unfold ret. exists g, n, h. split; [reflexivity|]. split; [exact R|]. split; reflexivity.
Qed.

Theorem gen_Skip_refines : forall h g b q n, rel h g b -> Inv b q ->
  -9223372036854775808 <= n < 9223372036854775808 ->
  exists g' h' b' res,
    rb_skip b n = (b', res, false) /\
    Gen.ringBuffer_Skip g n h = Ok ((g', Z.of_nat res), h') /\ rel h' g' b' /\ length h' = length h.
Proof.
  intros h g b q n R HI Hn.
  destruct (skip_loop_spec 2 b q n 0 HI (skip_need_le2 b n)) as (b' & Hm & _).
  unfold Gen.ringBuffer_Skip. cbv beta iota zeta.
  pose proof (rel_len _ _ _ R). pose proof (rel_rd _ _ _ R). pose proof (rel_small _ _ _ R).
  match goal with |- context [iter ?f _ _] =>
    destruct (gen_Skip_loop 2 h g b n 0 b' _ f R Hn ltac:(lia) Hm ltac:(lia))
      as (g' & n' & h' & E & R' & Hl & _)
  end.
  exists g', h', b', (0 + Nat.min (Z.to_nat n) (length (qitems q)))%nat. unfold rb_skip.
  split; [exact Hm|]. change (Z.of_nat 0) with 0 in E. go_call E. cbv beta iota zeta. unfold ret.
  split; [reflexivity|]. split; assumption.
Qed.

Theorem gen_Clear_refines : forall h g b q, rel h g b -> Inv b q ->
  exists g' h',
    snd (rb_clear b) = false /\
    Gen.ringBuffer_Clear g h = Ok (g', h') /\ rel h' g' (fst (rb_clear b)) /\ length h' = length h.
Proof.
  intros h g b q R HI.
  pose proof (rb_len_le b (rel_rd _ _ _ R) (rel_wr _ _ _ R)) as Hl.
  pose proof (rel_len _ _ _ R). pose proof (rel_small _ _ _ R).
  destruct (gen_Skip_refines h g b q (Z.of_nat (rb_len b)) R HI ltac:(lia)) as (g' & h' & b' & res & Hm & E & R' & Hl').
  unfold Gen.ringBuffer_Clear, rb_clear. rewrite (gen_Len_refines h g b R), Hm.
  exists g', h'. cbn [fst snd]. go_call E. cbv beta iota zeta. unfold ret.
  split; [reflexivity|]. split; [reflexivity|]. split; assumption.
Qed.

(* One API call of the Go ring buffer, as the correspondence harness does it:
   the operation is mapped to the generated method, the Go results to the
   observation type [out] shared with the model and the specification.  A
   panic of the generated code is the observation [OutPanic], fuel exhaustion
   is [OutOfFuel].  ReadN gets a fresh destination slice of the requested
   length and reports the elements delivered into it. *)

Definition gen_step (g : Gen.ringBuffer) (o : op) (h : heap) : Gen.ringBuffer * out * heap :=
  let obs {A} (r : outcome (A * heap)) (k : A -> heap -> Gen.ringBuffer * out * heap) :=
    match r with
    | Ok (a, h') => k a h'
    | GoPanic => (g, OutPanic, h)
    | NoFuel => (g, OutOfFuel, h)
    end in
  match o with
  | OWrite v => obs (Gen.ringBuffer_Write g v h)
                    (fun '(g', e) h' => (g', if is_nil e then OutOk else OutExhausted, h'))
  | ORead => obs (Gen.ringBuffer_Read g h)
                 (fun '(g', v, e) h' => (g', if is_nil e then OutVal v else OutEOF, h'))
  | OReadN k => obs (gomake (Z.of_nat k) h)
                    (fun dst h1 => obs (Gen.ringBuffer_ReadN g dst h1)
                       (fun '(g', n) h' => (g', OutVals (firstn (Z.to_nat n) (sl_get h' dst)), h')))
  | OSkip n => obs (Gen.ringBuffer_Skip g n h) (fun '(g', n') h' => (g', OutN (Z.to_nat n'), h'))
  | OAt i => obs (Gen.ringBuffer_At g i h) (fun v h' => (g, OutVal v, h'))
  | OClear => obs (Gen.ringBuffer_Clear g h) (fun g' h' => (g', OutOk, h'))
  | OLen => (g, OutN (Z.to_nat (Gen.ringBuffer_Len g)), h)
  | OCap => (g, OutN (Z.to_nat (Gen.ringBuffer_Cap g)), h)
  end.

Fixpoint gen_run (g : Gen.ringBuffer) (ops : list op) (h : heap) : list out * Gen.ringBuffer * heap :=
  match ops with
  | [] => ([], g, h)
  | o :: t => let '(g', x, h') := gen_step g o h in
              let '(xs, gf, hf) := gen_run g' t h' in (x :: xs, gf, hf)
  end.

Theorem gen_step_refines : forall h g b q o, rel h g b -> Inv b q -> op_ok o ->
  exists g' h', gen_step g o h = (g', snd (rb_step b o), h') /\ rel h' g' (fst (rb_step b o)).
Proof.
  intros h g b q o R HI Hok. destruct o as [v| |k|n|i| | |]; cbn [gen_step rb_step op_ok] in *.
  - destruct (gen_Write_refines h g b v R) as (g' & h' & E & R' & _). rewrite E.
    destruct (rb_write b v) as [b1 ok]. cbn [fst snd] in *. exists g', h'. destruct ok; split; try reflexivity; exact R'.
  - destruct (gen_Read_refines h g b R) as (g' & h' & E & R' & _). rewrite E.
    destruct (rb_read b) as [b1 [v|]]; cbn [fst snd] in *; exists g', h'; split; try reflexivity; exact R'.
  - (* ReadN into a fresh slice *)
    unfold gomake. destruct (Z.ltb_spec (Z.of_nat k) 0) as [?|_]; [lia|].
    destruct (Z.leb_spec 9223372036854775808 (Z.of_nat k)) as [?|_]; [lia|]. cbn [orb].
    set (dst := mkSl (length h) 0 (Z.of_nat k) (Z.of_nat k)).
    set (h1 := h ++ [repeat 0 (Z.to_nat (Z.of_nat k))]).
    assert (Wd : wf_slice h1 dst) by (apply wf_slice_new; lia).
    assert (R1 : rel h1 g b) by (apply rel_grow; exact R).
    assert (Hne : s_arr dst <> s_arr (Gen.ringBuffer_buf g)).
    { pose proof (rel_wf _ _ _ R) as (Ha & _). subst dst. cbn [s_arr]. lia. }
    destruct (gen_ReadN_refines h1 g b q dst R1 HI Wd Hne) as (g' & h' & b' & vals & Hm & E & R' & G & Hb & W' & _).
    rewrite E. subst dst. cbn [s_len] in *. rewrite Nat2Z.id in Hm. rewrite Hm. cbn [fst snd].
    exists g', h'. split; [|exact R']. rewrite G. unfold zsplice, zlen. cbn [Z.to_nat firstn app Nat.add].
    rewrite Nat2Z.id, firstn_app, firstn_all, Nat.sub_diag. cbn [firstn]. rewrite app_nil_r. reflexivity.
  - destruct (gen_Skip_refines h g b q n R HI Hok) as (g' & h' & b' & res & Hm & E & R' & _).
    rewrite E, Hm. cbn [fst snd]. rewrite Nat2Z.id. exists g', h'. split; [reflexivity|exact R'].
  - rewrite (gen_At_refines h g b i R Hok). exists g, h.
    destruct (rb_at b i); cbn [fst snd]; split; try reflexivity; exact R.
  - destruct (gen_Clear_refines h g b q R HI) as (g' & h' & Hoof & E & R' & _).
    rewrite E. unfold rb_clear in *. destruct (rb_skip b (Z.of_nat (rb_len b))) as [[b1 r1] oof].
    cbn [fst snd] in *. subst oof. exists g', h'. split; [reflexivity|exact R'].
  - rewrite (gen_Len_refines h g b R), Nat2Z.id. exists g, h. split; [reflexivity|exact R].
  - rewrite (gen_Cap_refines h g b R), Nat2Z.id. exists g, h. split; [reflexivity|exact R].
Qed.

Lemma gen_run_refines : forall ops h g b q, rel h g b -> Inv b q -> Forall op_ok ops ->
  exists gf hf, gen_run g ops h = (fst (rb_run b ops), gf, hf) /\ rel hf gf (snd (rb_run b ops)).
Proof.
  induction ops as [|o t IH]; intros h g b q R HI Hok.
  - exists g, h. split; [reflexivity|exact R].
  - inversion Hok as [|? ? Ho Ht]; subst. cbn [gen_run rb_run].
    destruct (gen_step_refines h g b q o R HI Ho) as (g' & h' & E & R'). rewrite E.
    destruct (step_refines b q o HI) as [_ HI'].
    destruct (rb_step b o) as [b1 x]. cbn [fst snd] in *.
    destruct (IH h' g' b1 _ R' HI' Ht) as (gf & hf & E2 & Rf). rewrite E2.
    destruct (rb_run b1 t) as [xs bf]. cbn [fst snd] in *. exists gf, hf. split; [reflexivity|exact Rf].
Qed.

(** Headline: for every capacity (below 2^61) and every sequence of operations
    with Go-int arguments, the ring buffer *as translated from the Go source*
    returns exactly what the bounded FIFO queue returns; in particular the
    generated code never panics except where the specification says
    ([At] out of range) and never runs out of fuel. *)

Theorem gen_rb_refines_queue : forall (size : nat) (ops : list op) (h0 : heap),
  4 * (Z.of_nat size + 1) < 9223372036854775808 -> Forall op_ok ops ->
  exists g h1, Gen.NewRingBuffer (Z.of_nat size) h0 = Ok (g, h1) /\
  exists gf hf, gen_run g ops h1 = (fst (q_run (new_q size) ops), gf, hf) /\
                rel hf gf (snd (rb_run (new_rb size) ops)).
Proof.
  intros size ops h0 Hs Hok.
  destruct (gen_New_refines h0 size Hs) as (g & E & R).
  exists g, (h0 ++ [repeat 0 (S size)]). split; [exact E|].
  destruct (gen_run_refines ops _ g _ _ R (inv_init size) Hok) as (gf & hf & E2 & Rf).
  rewrite (rb_refines_queue size ops) in E2. exists gf, hf. split; assumption.
Qed.

Print Assumptions gen_rb_refines_queue.

(* consumed slots hold the zero value in the heap of the generated code *)

Corollary gen_rb_zero_outside_window : forall (size : nat) (ops : list op) (h0 : heap),
  4 * (Z.of_nat size + 1) < 9223372036854775808 -> Forall op_ok ops ->
  exists g h1 gf hf outs, Gen.NewRingBuffer (Z.of_nat size) h0 = Ok (g, h1) /\
    gen_run g ops h1 = (outs, gf, hf) /\
    let b := snd (rb_run (new_rb size) ops) in
    sl_get hf (Gen.ringBuffer_buf gf) = buf b /\ zero_outside b.
Proof.
  intros size ops h0 Hs Hok.
  destruct (gen_rb_refines_queue size ops h0 Hs Hok) as (g & h1 & E & gf & hf & E2 & Rf).
  exists g, h1, gf, hf, (fst (q_run (new_q size) ops)). split; [exact E|]. split; [exact E2|]. split.
  - exact (rel_buf _ _ _ Rf).
  - apply rb_zero_outside_window.
Qed.

(** non-vacuity: the generated code runs the wrap-around example of
    Properties/C14.v (capacity 2, all eight operations) *)

Example gen_ex_wraparound :
  match Gen.NewRingBuffer 2 [] with
  | Ok (g, h1) =>
      let '(outs, gf, hf) := gen_run g
        [OWrite 11; OWrite 12; OWrite 13; OLen; ORead; OWrite 13; OAt 1; OAt 2; OAt (-1);
         OReadN 1; OWrite 14; OCap; OReadN 5; ORead; OWrite 15; OWrite 16; OSkip 1;
         OWrite 17; OLen; OSkip 7; OSkip (-3); OWrite 18; OWrite 19; OClear; OLen; OWrite 20] h1 in
      outs = [OutOk; OutOk; OutExhausted; OutN 2; OutVal 11; OutOk; OutVal 13; OutPanic; OutPanic;
              OutVals [12]; OutOk; OutN 2; OutVals [13; 14]; OutEOF; OutOk; OutOk; OutN 1;
              OutOk; OutN 2; OutN 2; OutN 0; OutOk; OutOk; OutOk; OutN 0; OutOk] /\
      sl_get hf (Gen.ringBuffer_buf gf) = [20; 0; 0] /\
      Gen.ringBuffer_r gf = 0 /\ Gen.ringBuffer_w gf = 1
  | _ => False
  end.
Proof. vm_compute. repeat split; reflexivity. Qed.
