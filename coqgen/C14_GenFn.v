(** C14, translator tie: container/ringbuffer.go as translated from the Go
    source on this run (Gen_ringbuffer.v, harness/cmd/go2coq; the type
    parameter V is instantiated with Z, zero value 0) against the hand-written
    model coq/model/RingBuf.v.

    [rel h g b]: the generated record [g] in heap [h] represents the model
    state [b] (same backing array contents, same indices).  For every operation
    and every related pair of states satisfying the model's invariant the
    generated method returns [Ok], the same result as the model and a related
    state ([gen_*_refines]); [gen_rb_refines_queue] restates the headline
    theorem of C14 over the generated step function.  container.SliceFill
    (both its element loop and its doubling copy) is translated too and proved
    to fill its argument ([gen_SliceFill_spec]). *)
From Coq Require Import List ZArith Arith Lia Bool.
From Coq Require Import ZifyBool ZifyNat.
From GL Require Import lib.GoLite model.RingBuf spec.Queue proofs.C14_RingBuf.
From GLGEN Require Import Gen_ringbuffer.
Import ListNotations.
Open Scope Z_scope.
Ltac Zify.zify_post_hook ::= Z.div_mod_to_equations.

(** * container.SliceFill *)

Lemma firstn_repeat {A} (x : A) n m : firstn n (repeat x m) = repeat x (Nat.min n m).
Proof.
  revert m. induction n as [|n IH]; intros m; [reflexivity|].
  destruct m as [|m]; [reflexivity|]. cbn [repeat firstn Nat.min]. f_equal. apply IH.
Qed.

Lemma zlen_repeat (x : Z) n : zlen (repeat x n) = Z.of_nat n.
Proof. unfold zlen. rewrite repeat_length. reflexivity. Qed.

(* for i := range s { s[i] = v } *)
Lemma gen_SliceFill_loop1 : forall f s v h0 i,
  wf_slice h0 s -> 0 <= i <= s_len s -> (Z.to_nat (s_len s - i) < f)%nat ->
  iter f (Gen.SliceFill_loop1 s v s) i (sl_put h0 s 0 (repeat v (Z.to_nat i))) =
  Ok (s_len s, sl_put h0 s 0 (repeat v (Z.to_nat (s_len s)))).
Proof.
  induction f as [|f IH]; intros s v h0 i W Hi Hf; [lia|].
  pose proof W as (Wa & Wo & Wl & Wc & Wm).
  rewrite iter_S. unfold Gen.SliceFill_loop1 at 1. go_run.
  - go_join W.
    replace (repeat v (Z.to_nat i) ++ [v]) with (repeat v (Z.to_nat (i + 1)))
      by (replace (Z.to_nat (i + 1)) with (Z.to_nat i + 1)%nat by lia; rewrite repeat_app; reflexivity).
    apply IH; [exact W|lia|lia].
  - unfold ret. replace i with (s_len s) by lia. reflexivity.
Qed.

(* for j := 1; j < len(s); j *= 2 { copy(s[j:], s[:j]) } *)
Lemma gen_SliceFill_loop2 : forall f s v h0 j,
  wf_slice h0 s -> 2 * s_len s < 9223372036854775808 -> 1 <= j ->
  (Z.to_nat (s_len s - j) < f)%nat ->
  exists j',
  iter f (Gen.SliceFill_loop2 s) j (sl_put h0 s 0 (repeat v (Z.to_nat (Z.min j (s_len s))))) =
  Ok (j', sl_put h0 s 0 (repeat v (Z.to_nat (s_len s)))).
Proof.
  induction f as [|f IH]; intros s v h0 j W Hs Hj Hf; [lia|].
  pose proof W as (Wa & Wo & Wl & Wc & Wm).
  rewrite iter_S. unfold Gen.SliceFill_loop2 at 1.
  set (h := sl_put h0 s 0 (repeat v (Z.to_nat (Z.min j (s_len s))))).
  assert (Wh : wf_slice h s)
    by (apply wf_slice_put; [exact W|lia|rewrite zlen_repeat; lia|exact W]).
  go_run.
  - (* one doubling step *)
    go_rebase s.
    match goal with |- context [sl_get h ?p] =>
      assert (G : sl_get h p = repeat v (Z.to_nat j))
    end.
    { rewrite (sl_get_reslice_len h s 0 j Wh) by lia. unfold h.
      rewrite sl_get_put_same by (try exact W; rewrite ?zlen_repeat; lia).
      unfold zsplice, zsub. cbn [Z.to_nat firstn skipn app Nat.add].
      rewrite Z.min_l by lia. rewrite Z.sub_0_r, firstn_app, firstn_repeat, repeat_length.
      replace (Nat.min (Z.to_nat j) (Z.to_nat j)) with (Z.to_nat j) by lia.
      rewrite Nat.sub_diag. cbn [firstn]. apply app_nil_r. }
    rewrite G, firstn_repeat. unfold h. rewrite Z.min_l by lia.
    go_join W.
    rewrite <- repeat_app.
    match goal with |- context [repeat v ?n] =>
      replace n with (Z.to_nat (Z.min (j * 2) (s_len s))) by lia
    end.
    apply IH; [exact W|exact Hs|lia|lia].
  - unfold ret, h. rewrite Z.min_r by lia. eexists. reflexivity.
Qed.

Theorem gen_SliceFill_spec : forall h s v,
  wf_slice h s -> 2 * s_len s < 9223372036854775808 ->
  Gen.SliceFill s v h = Ok (tt, sl_put h s 0 (repeat v (Z.to_nat (s_len s)))).
Proof.
  intros h s v W Hs. pose proof W as (Wa & Wo & Wl & Wc & Wm).
  unfold Gen.SliceFill. go_run.
  - (* short: element by element *)
    match goal with |- context [iter ?f _ _] =>
      pose proof (gen_SliceFill_loop1 f s v h 0 W ltac:(lia) ltac:(lia)) as L
    end.
    cbn [Z.to_nat repeat] in L. rewrite sl_put_nil in L by exact W.
    go_call L. reflexivity.
  - (* long: s[0] = v, then doubling copies *)
    assert (X1 : 1 <= 1) by lia.
    match goal with |- context [iter ?f _ _] =>
      assert (X2 : (Z.to_nat (s_len s - 1) < f)%nat) by lia;
      destruct (gen_SliceFill_loop2 f s v h 1 W Hs X1 X2) as (j' & L)
    end.
    rewrite Z.min_l in L by lia. change (Z.to_nat 1) with 1%nat in L. cbn [repeat] in L.
    go_call L. reflexivity.
Qed.
Print Assumptions gen_SliceFill_spec.

(** * The model's list operations as splices *)

Lemma set_nth_zsplice : forall l i v, (i < length l)%nat ->
  set_nth l i v = zsplice l (Z.of_nat i) [v].
Proof.
  induction l as [|x t IH]; intros i v Hi; cbn [length] in Hi; [lia|].
  unfold zsplice. rewrite Nat2Z.id. destruct i as [|i].
  - reflexivity.
  - cbn [set_nth firstn app length Nat.add skipn]. f_equal. rewrite IH by lia.
    unfold zsplice. rewrite Nat2Z.id. cbn [length]. reflexivity.
Qed.

Lemma zero_range_zsplice : forall cnt l from, (from + cnt <= length l)%nat ->
  zero_range l from cnt = zsplice l (Z.of_nat from) (repeat 0 cnt).
Proof.
  induction cnt as [|c IH]; intros l from H.
  - cbn [zero_range repeat]. rewrite zsplice_nil. reflexivity.
  - cbn [zero_range repeat]. rewrite IH by (rewrite set_nth_length; lia).
    rewrite set_nth_zsplice by lia.
    replace (Z.of_nat (S from)) with (Z.of_nat from + zlen [0]) by (unfold zlen; cbn [length]; lia).
    rewrite zsplice_zsplice_adj by (unfold zlen; cbn [length]; lia). reflexivity.
Qed.

Lemma slice_zsub l from cnt : slice l from cnt = zsub l (Z.of_nat from) (Z.of_nat cnt).
Proof. unfold slice, zsub. rewrite !Nat2Z.id. reflexivity. Qed.

(** * Representation relation *)

Record rel (h : heap) (g : Gen.ringBuffer) (b : rb) : Prop := mkRel {
  rel_wf : wf_slice h (Gen.ringBuffer_buf g);
  rel_buf : sl_get h (Gen.ringBuffer_buf g) = buf b;
  rel_r : Gen.ringBuffer_r g = Z.of_nat (rd b);
  rel_w : Gen.ringBuffer_w g = Z.of_nat (wr b);
  rel_rd : (rd b < blen b)%nat;        (* part of the model's invariant Inv *)
  rel_wr : (wr b < blen b)%nat;
  rel_small : 2 * s_len (Gen.ringBuffer_buf g) < 9223372036854775808 }.

Lemma rel_len h g b : rel h g b -> s_len (Gen.ringBuffer_buf g) = Z.of_nat (blen b).
Proof.
  intros R. pose proof (sl_get_len h _ (rel_wf _ _ _ R)) as L.
  rewrite (rel_buf _ _ _ R) in L. unfold zlen, blen in *. lia.
Qed.

(* destructure a rel hypothesis into arithmetic facts *)
Ltac rel_facts R :=
  pose proof (rel_len _ _ _ R) as L;
  pose proof (rel_r _ _ _ R) as Hr; pose proof (rel_w _ _ _ R) as Hw;
  pose proof (rel_rd _ _ _ R) as Hrd; pose proof (rel_wr _ _ _ R) as Hwr;
  pose proof (rel_small _ _ _ R) as Hsm; pose proof (rel_buf _ _ _ R) as Hbuf;
  pose proof (rel_wf _ _ _ R) as W; pose proof W as (Wa & Wo & Wl & Wc & Wm).

(** * Len, Cap *)

Theorem gen_Len_refines : forall h g b, rel h g b ->
  Gen.ringBuffer_Len g = Z.of_nat (rb_len b).
Proof.
  intros h g b R. rel_facts R. unfold Gen.ringBuffer_Len, rb_len.
  repeat (go_if; try lia); go_unwrap; lia.
Qed.

Theorem gen_Cap_refines : forall h g b, rel h g b ->
  Gen.ringBuffer_Cap g = Z.of_nat (rb_cap b).
Proof.
  intros h g b R. rel_facts R. unfold Gen.ringBuffer_Cap, rb_cap. go_unwrap. lia.
Qed.

(** * Write, Read, At *)

Ltac rel_cbn := cbn [Gen.ringBuffer_buf Gen.ringBuffer_r Gen.ringBuffer_w Gen.ringBuffer_size
  Gen.set_ringBuffer_r Gen.set_ringBuffer_w buf rd wr] in *.
Ltac rel_split := rel_cbn; constructor; rel_cbn.

Theorem gen_Write_refines : forall h g b v, rel h g b ->
  exists g' h',
    Gen.ringBuffer_Write g v h = Ok ((g', if snd (rb_write b v) then ENil else Err), h') /\
    rel h' g' (fst (rb_write b v)) /\ length h' = length h.
Proof.
  intros h g b v R. rel_facts R.
  unfold Gen.ringBuffer_Write, rb_write.
  rewrite (gen_Len_refines h g b R), (gen_Cap_refines h g b R).
  destruct (rb_len b =? rb_cap b)%nat eqn:E; cbn [fst snd];
  go_run; unfold ret; do 2 eexists; (split; [reflexivity|]).
  all: try (split; [exact R|reflexivity]).
  all: split; [|apply sl_put_length; assumption].
  all: unfold wrap; rel_split; unfold blen; cbn [buf]; rewrite ?set_nth_length;
    try (apply wf_slice_put; [assumption|lia|unfold zlen; cbn [length]; lia|assumption]);
    try (rewrite sl_get_put_same by (try assumption; unfold zlen; cbn [length]; lia);
         rewrite (rel_buf _ _ _ R); symmetry; rewrite set_nth_zsplice by (unfold blen in *; lia);
         f_equal; lia);
    try assumption; unfold blen in *; repeat (go_if; try lia); try lia.
Qed.

Theorem gen_Read_refines : forall h g b, rel h g b ->
  exists g' h',
    Gen.ringBuffer_Read g h =
      Ok ((g', match snd (rb_read b) with Some v => v | None => 0 end,
               match snd (rb_read b) with Some _ => ENil | None => Err end), h') /\
    rel h' g' (fst (rb_read b)) /\ length h' = length h.
Proof.
  intros h g b R. rel_facts R.
  unfold Gen.ringBuffer_Read, rb_read.
  rewrite (gen_Len_refines h g b R).
  destruct (rb_len b =? 0)%nat eqn:E; cbn [fst snd];
  go_run; unfold ret, znth; rewrite ?Hbuf, ?Hr, ?Nat2Z.id; do 2 eexists; (split; [reflexivity|]).
  all: try (split; [exact R|reflexivity]).
  all: split; [|apply sl_put_length; assumption].
  all: unfold wrap; rel_split; unfold blen; cbn [buf]; rewrite ?set_nth_length;
    try (apply wf_slice_put; [assumption|lia|unfold zlen; cbn [length]; lia|assumption]);
    try (rewrite sl_get_put_same by (try assumption; unfold zlen; cbn [length]; lia);
         rewrite Hbuf; symmetry; rewrite set_nth_zsplice by (unfold blen in *; lia);
         f_equal; lia);
    try assumption; unfold blen in *; repeat (go_if; try lia); try lia.
Qed.

Theorem gen_At_refines : forall h g b i, rel h g b ->
  -9223372036854775808 <= i < 9223372036854775808 ->
  Gen.ringBuffer_At g i h = match rb_at b i with Some v => Ok (v, h) | None => GoPanic end.
Proof.
  intros h g b i R Hi. rel_facts R.
  assert (Hl : (rb_len b <= blen b)%nat) by (unfold rb_len; repeat (go_if; try lia); lia).
  unfold Gen.ringBuffer_At, rb_at.
  rewrite (gen_Len_refines h g b R).
  go_run; try reflexivity; unfold ret, znth; rewrite Hbuf; repeat f_equal; unfold blen in *; lia.
Qed.

(** * ReadN *)

Lemma zsub_firstn l lo n m : (m <= Z.to_nat n)%nat ->
  firstn m (zsub l lo n) = zsub l lo (Z.of_nat m).
Proof.
  intros H. unfold zsub. rewrite firstn_firstn, Nat2Z.id.
  replace (Nat.min m (Z.to_nat n)) with m by lia. reflexivity.
Qed.

Lemma rb_len_le b : (rd b < blen b)%nat -> (wr b < blen b)%nat -> (rb_len b <= blen b)%nat.
Proof. intros. unfold rb_len. repeat (go_if; try lia); lia. Qed.

(* the segment one iteration of ReadN/Skip works on *)
Definition rn_end (b : rb) : nat := if (rd b <? wr b)%nat then wr b else blen b.
Definition rn_cnt (b : rb) (k : nat) : nat := Nat.min k (rn_end b - rd b).
Definition rn_next (b : rb) (cnt : nat) : rb :=
  mkRb (zero_range (buf b) (rd b) cnt) (wrap b (rd b + cnt)) (wr b).

Lemma gen_ReadN_done : forall h g b dst res, rel h g b -> 0 <= s_len dst ->
  ((0 <? Z.to_nat (s_len dst)) && (0 <? rb_len b))%nat = false ->
  Gen.ringBuffer_ReadN_loop1 0 (g, dst, res) h = Ok (Done (g, dst, res), h).
Proof.
  intros h g b dst res R Hd Hc. unfold Gen.ringBuffer_ReadN_loop1. cbv beta iota zeta.
  rewrite (gen_Len_refines h g b R). go_if; [lia|reflexivity].
Qed.

(* after zeroing [cnt] slots from rd and advancing, the states are related again *)
Lemma rel_advance : forall h g b cnt h' rv,
  rel h g b -> (rd b + cnt <= blen b)%nat ->
  wf_slice h' (Gen.ringBuffer_buf g) ->
  sl_get h' (Gen.ringBuffer_buf g) = zsplice (buf b) (Z.of_nat (rd b)) (repeat 0 cnt) ->
  rv = Z.of_nat (wrap b (rd b + cnt)) ->
  rel h' (Gen.set_ringBuffer_r g rv) (rn_next b cnt).
Proof.
  intros h g b cnt h' rv R Hc W' G ->. rel_facts R. unfold rn_next.
  rel_split; unfold blen; cbn [buf]; rewrite ?zero_range_length; try assumption.
  - rewrite G. symmetry. apply zero_range_zsplice. unfold blen in *. lia.
  - reflexivity.
  - unfold wrap, blen in *. go_if; lia.
Qed.

Lemma gen_ReadN_body : forall h g b dst res, rel h g b ->
  wf_slice h dst -> s_arr dst <> s_arr (Gen.ringBuffer_buf g) ->
  0 <= res -> res + s_len dst < 9223372036854775808 ->
  ((0 <? Z.to_nat (s_len dst)) && (0 <? rb_len b))%nat = true ->
  exists g2,
    Gen.ringBuffer_ReadN_loop1 0 (g, dst, res) h =
      Ok (Next (g2,
                mkSl (s_arr dst) (s_off dst + Z.of_nat (rn_cnt b (Z.to_nat (s_len dst))))
                     (s_len dst - Z.of_nat (rn_cnt b (Z.to_nat (s_len dst))))
                     (s_cap dst - Z.of_nat (rn_cnt b (Z.to_nat (s_len dst)))),
                res + Z.of_nat (rn_cnt b (Z.to_nat (s_len dst)))),
          sl_put (sl_put h dst 0 (slice (buf b) (rd b) (rn_cnt b (Z.to_nat (s_len dst)))))
                 (Gen.ringBuffer_buf g) (Z.of_nat (rd b)) (repeat 0 (rn_cnt b (Z.to_nat (s_len dst))))) /\
    rel (sl_put (sl_put h dst 0 (slice (buf b) (rd b) (rn_cnt b (Z.to_nat (s_len dst)))))
                (Gen.ringBuffer_buf g) (Z.of_nat (rd b)) (repeat 0 (rn_cnt b (Z.to_nat (s_len dst)))))
        g2 (rn_next b (rn_cnt b (Z.to_nat (s_len dst)))) /\
    Gen.ringBuffer_buf g2 = Gen.ringBuffer_buf g /\
    (1 <= rn_cnt b (Z.to_nat (s_len dst)) <= Z.to_nat (s_len dst))%nat.
Proof.
  intros h g b dst res R Wd Hne Hres Hov Hc. rel_facts R.
  pose proof Wd as (Da & Do & Dl & Dc & Dm).
  pose proof (rb_len_le b Hrd Hwr) as Hl.
  set (k := Z.to_nat (s_len dst)) in *. set (cnt := rn_cnt b k).
  assert (Hcnt : (1 <= cnt <= k /\ rd b + cnt <= blen b /\ cnt <= rb_len b /\ cnt <= rn_end b - rd b)%nat).
  { subst cnt. unfold rn_cnt, rn_end, rb_len in *. repeat (go_if; try lia); lia. }
  set (vals := slice (buf b) (rd b) cnt).
  assert (Lv : zlen vals = Z.of_nat cnt).
  { subst vals. rewrite slice_zsub. apply zlen_zsub; unfold zlen, blen in *; lia. }
  set (h1 := sl_put h dst 0 vals).
  assert (W1 : wf_slice h1 (Gen.ringBuffer_buf g)) by (apply wf_slice_put; [exact Wd|lia|lia|exact W]).
  assert (W1d : wf_slice h1 dst) by (apply wf_slice_put; [exact Wd|lia|lia|exact Wd]).
  assert (G1 : sl_get h1 (Gen.ringBuffer_buf g) = buf b)
    by (unfold h1; rewrite sl_get_put_other by assumption; exact Hbuf).
  set (h2 := sl_put h1 (Gen.ringBuffer_buf g) (Z.of_nat (rd b)) (repeat 0 cnt)).
  assert (W2 : wf_slice h2 (Gen.ringBuffer_buf g))
    by (apply wf_slice_put; [exact W1|lia|rewrite zlen_repeat; lia|exact W1]).
  assert (G2 : sl_get h2 (Gen.ringBuffer_buf g) = zsplice (buf b) (Z.of_nat (rd b)) (repeat 0 cnt))
    by (unfold h2; rewrite sl_get_put_same by (try exact W1; rewrite ?zlen_repeat; lia); rewrite G1; reflexivity).
  exists (Gen.set_ringBuffer_r g (Z.of_nat (wrap b (rd b + cnt)))).
  split; [|split; [apply (rel_advance h g b cnt h2 _ R); try assumption; try reflexivity; lia
                  |split; [reflexivity|lia]]].
  unfold Gen.ringBuffer_ReadN_loop1. cbv beta iota zeta.
  rewrite (gen_Len_refines h g b R).
  (* up to the call of SliceFill *)
  go_run;
  match goal with |- context [Z.min (s_len dst) ?x] =>
    replace (Z.min (s_len dst) x) with (Z.of_nat cnt) in *
      by (subst cnt; unfold rn_cnt, rn_end; destruct (rd b <? wr b)%nat eqn:?; unfold blen in *; lia)
  end;
  rewrite ?Nat2Z.id;
  match goal with |- context [firstn cnt (sl_get h ?s1)] =>
    replace (firstn cnt (sl_get h s1)) with vals
      by (subst vals; rewrite slice_zsub;
          match goal with |- _ = firstn cnt (sl_get h (mkSl _ _ (?hi - ?lo) _)) =>
            rewrite (sl_get_reslice_len h (Gen.ringBuffer_buf g) lo hi W) by (unfold blen in *; lia) end;
          rewrite zsub_firstn by (unfold rn_end in *; destruct (rd b <? wr b)%nat eqn:?; unfold blen in *; lia);
          rewrite Hbuf; f_equal; lia)
  end;
  fold h1;
  match goal with |- context [bind (Gen.SliceFill ?s ?v) ?kk ?hh] =>
    let Ws := fresh "Ws" in
    assert (Ws : wf_slice hh s) by (unfold wf_slice; cbn [s_arr s_off s_len s_cap]; destruct W1 as (? & ? & ? & ? & ?); repeat split; lia);
    go_call (gen_SliceFill_spec hh s v Ws ltac:(cbn [s_len]; lia))
  end;
  go_rebase (Gen.ringBuffer_buf g); cbn [s_len];
  match goal with |- context [sl_put h1 (Gen.ringBuffer_buf g) ?o (repeat 0 ?n)] =>
    replace (sl_put h1 (Gen.ringBuffer_buf g) o (repeat 0 n)) with h2
      by (unfold h2; f_equal; [lia|f_equal; lia])
  end;
  go_run; unfold ret; unfold Gen.set_ringBuffer_r; rel_cbn; repeat f_equal; unfold wrap, blen in *;
  repeat (go_if; try lia); lia.
Qed.

Lemma wf_sub h s0 s o : wf_slice h s0 -> 0 <= o <= s_len s0 ->
  s_arr s = s_arr s0 -> s_off s = s_off s0 + o -> s_len s = s_len s0 - o -> s_cap s = s_cap s0 - o ->
  wf_slice h s.
Proof.
  intros (Wa & Wo & Wl & Wc & Wm) Ho Ea Eo El Ec. unfold wf_slice. rewrite Ea, Eo, El, Ec.
  repeat split; lia.
Qed.

(* the loop of ReadN: [dst] is what is left of the caller's slice [dst0] after
   [res] elements were delivered *)
Lemma gen_ReadN_loop : forall mf h g b dst0 dst res acc b' vals f,
  rel h g b -> wf_slice h dst0 -> s_arr dst0 <> s_arr (Gen.ringBuffer_buf g) ->
  0 <= res <= s_len dst0 ->
  s_arr dst = s_arr dst0 -> s_off dst = s_off dst0 + res ->
  s_len dst = s_len dst0 - res -> s_cap dst = s_cap dst0 - res ->
  rb_readn_loop mf b (Z.to_nat (s_len dst)) acc = (b', vals, false) ->
  (mf < f)%nat ->
  exists g' dst' h' news,
    iter f (Gen.ringBuffer_ReadN_loop1 0) (g, dst, res) h = Ok ((g', dst', res + zlen news), h') /\
    rel h' g' b' /\ vals = acc ++ news /\
    sl_get h' dst0 = zsplice (sl_get h dst0) res news /\ res + zlen news <= s_len dst0 /\
    wf_slice h' dst0 /\ length h' = length h /\ Gen.ringBuffer_buf g' = Gen.ringBuffer_buf g.
Proof.
  induction mf as [|m IH]; intros h g b dst0 dst res acc b' vals f R W0 Hne Hres Ea Eo El Ec Hm Hf;
    (destruct f as [|f]; [lia|]); rewrite iter_S; cbn [rb_readn_loop] in Hm;
    pose proof (wf_sub h dst0 dst res W0 Hres Ea Eo El Ec) as Wd;
    pose proof W0 as (W0a & W0o & W0l & W0c & W0m);
    destruct ((0 <? Z.to_nat (s_len dst)) && (0 <? rb_len b))%nat eqn:Ec'.
  - discriminate.
  - injection Hm as <- <-.
    go_call (gen_ReadN_done h g b dst res R ltac:(lia) Ec'). cbv beta iota zeta. unfold ret.
    exists g, dst, h, []. rewrite app_nil_r, zsplice_nil. unfold zlen. cbn [length].
    rewrite Z.add_0_r.
    split; [reflexivity|]. split; [exact R|]. split; [reflexivity|]. split; [reflexivity|].
    split; [lia|]. split; [exact W0|]. split; reflexivity.
  - (* one segment, then the rest *)
    destruct (gen_ReadN_body h g b dst res R Wd ltac:(congruence) ltac:(lia) ltac:(lia) Ec')
      as (g2 & E & R2 & Eb & Hc).
    set (k := Z.to_nat (s_len dst)) in *. set (cnt := rn_cnt b k) in *.
    set (v1 := slice (buf b) (rd b) cnt) in *.
    assert (Lv : zlen v1 = Z.of_nat cnt).
    { subst v1. rewrite slice_zsub. pose proof (rel_rd _ _ _ R). pose proof (rel_len _ _ _ R).
      assert ((rd b + cnt <= blen b)%nat) by (subst cnt; unfold rn_cnt, rn_end; repeat (go_if; try lia); pose proof (rel_wr _ _ _ R); lia).
      apply zlen_zsub; unfold zlen, blen in *; lia. }
    go_call E. cbv beta iota zeta.
    change (rb_readn_loop m (rn_next b cnt) (k - cnt) (acc ++ v1) = (b', vals, false)) in Hm.
    match type of E with _ = Ok (Next (_, ?d2, _), ?hh) => set (dst2 := d2) in *; set (h2 := hh) in * end.
    assert (W1 : wf_slice (sl_put h dst 0 v1) dst0) by (apply wf_slice_put; [exact Wd|lia|lia|exact W0]).
    assert (W2 : wf_slice h2 dst0).
    { apply wf_slice_put; [| | |exact W1].
      - apply wf_slice_put; [exact Wd|lia|lia|exact (rel_wf _ _ _ R)].
      - lia.
      - rewrite zlen_repeat. pose proof (rel_wf _ _ _ R2) as (_ & _ & ? & _). rewrite Eb in *.
        pose proof (rel_len _ _ _ R). pose proof (rel_rd _ _ _ R).
        assert ((rd b + cnt <= blen b)%nat) by (subst cnt; unfold rn_cnt, rn_end; repeat (go_if; try lia); pose proof (rel_wr _ _ _ R); lia).
        lia. }
    assert (G2 : sl_get h2 dst0 = zsplice (sl_get h dst0) res v1).
    { unfold h2. rewrite sl_get_put_other.
      - rewrite (sl_put_eq h dst dst0 0 res v1) by lia.
        apply sl_get_put_same; [exact W0|lia|lia].
      - apply wf_slice_put; [exact Wd|lia|lia|exact (rel_wf _ _ _ R)].
      - congruence. }
    destruct (IH h2 g2 (rn_next b cnt) dst0 dst2 (res + Z.of_nat cnt) (acc ++ v1) b' vals f R2 W2)
      as (g' & dst' & h' & news2 & E2 & R' & Hv & G' & Hb' & W' & Hl' & Eb');
      try (subst dst2; cbn [s_arr s_off s_len s_cap]; lia); try lia.
    { rewrite Eb. exact Hne. }
    { subst dst2. cbn [s_len]. replace (Z.to_nat (s_len dst - Z.of_nat cnt)) with (k - cnt)%nat by lia. exact Hm. }
    rewrite E2. exists g', dst', h', (v1 ++ news2).
    rewrite zlen_app, Lv, Z.add_assoc.
    split; [reflexivity|]. split; [exact R'|]. split; [rewrite Hv, app_assoc; reflexivity|].
    split.
    { rewrite G', G2. replace (res + Z.of_nat cnt) with (res + zlen v1) by lia.
      apply zsplice_zsplice_adj; [lia|]. rewrite (sl_get_len h dst0 W0). lia. }
    split; [lia|]. split; [exact W'|]. split.
    { rewrite Hl'. unfold h2. rewrite !sl_put_length; try reflexivity; try exact Wd.
      apply wf_slice_put; [exact Wd|lia|lia|exact (rel_wf _ _ _ R)]. }
    rewrite Eb', Eb. reflexivity.
  - injection Hm as <- <-.
    go_call (gen_ReadN_done h g b dst res R ltac:(lia) Ec'). cbv beta iota zeta. unfold ret.
    exists g, dst, h, []. rewrite app_nil_r, zsplice_nil. unfold zlen. cbn [length].
    rewrite Z.add_0_r.
    split; [reflexivity|]. split; [exact R|]. split; [reflexivity|]. split; [reflexivity|].
    split; [lia|]. split; [exact W0|]. split; reflexivity.
Qed.

Theorem gen_ReadN_refines : forall h g b q dst, rel h g b -> Inv b q ->
  wf_slice h dst -> s_arr dst <> s_arr (Gen.ringBuffer_buf g) ->
  exists g' h' b' vals,
    rb_readn b (Z.to_nat (s_len dst)) = (b', vals, false) /\
    Gen.ringBuffer_ReadN g dst h = Ok ((g', zlen vals), h') /\ rel h' g' b' /\
    sl_get h' dst = zsplice (sl_get h dst) 0 vals /\ zlen vals <= s_len dst /\
    wf_slice h' dst /\ length h' = length h.
Proof.
  intros h g b q dst R HI Wd Hne. pose proof Wd as (Da & Do & Dl & Dc & Dm).
  destruct (readn_loop_spec 2 b q (Z.to_nat (s_len dst)) [] HI (readn_need_le2 b _)) as (b' & Hm & _).
  unfold Gen.ringBuffer_ReadN. cbv beta iota zeta.
  pose proof (rel_len _ _ _ R). pose proof (rel_rd _ _ _ R).
  match goal with |- context [iter ?f _ _] =>
    destruct (gen_ReadN_loop 2 h g b dst dst 0 [] b' _ f R Wd Hne ltac:(lia) eq_refl ltac:(lia) ltac:(lia) ltac:(lia) Hm ltac:(lia))
      as (g' & dst' & h' & news & E & R' & Hv & G & Hb & W' & Hl & _)
  end.
  cbn [app] in Hv, Hm. subst news. exists g', h', b', (firstn (Z.to_nat (s_len dst)) (qitems q)). unfold rb_readn.
  split; [exact Hm|]. go_call E. cbv beta iota zeta. unfold ret. rewrite Z.add_0_l in *.
  split; [reflexivity|]. split; [exact R'|]. split; [exact G|]. split; [exact Hb|]. split; assumption.
Qed.
Print Assumptions gen_ReadN_refines.

(** * Skip, Clear *)

Definition sk_n1 (b : rb) (n : Z) : nat :=
  if (Z.of_nat (rb_len b) <? n) then rb_len b else Z.to_nat n.
Definition sk_end (b : rb) (n : Z) : nat :=
  if (blen b <=? rd b + sk_n1 b n)%nat then blen b else (rd b + sk_n1 b n)%nat.
Definition sk_cnt (b : rb) (n : Z) : nat := (sk_end b n - rd b)%nat.

Lemma gen_Skip_done : forall h g b n res, rel h g b ->
  ((0 <? n) && (0 <? rb_len b)%nat) = false ->
  Gen.ringBuffer_Skip_loop1 0 (g, n, res) h = Ok (Done (g, n, res), h).
Proof.
  intros h g b n res R Hc. unfold Gen.ringBuffer_Skip_loop1. cbv beta iota zeta.
  rewrite (gen_Len_refines h g b R). go_if; [lia|reflexivity].
Qed.

Lemma gen_Skip_body : forall h g b n res, rel h g b ->
  -9223372036854775808 <= n < 9223372036854775808 ->
  0 <= res -> res + s_len (Gen.ringBuffer_buf g) < 9223372036854775808 ->
  ((0 <? n) && (0 <? rb_len b)%nat) = true ->
  exists g2,
    Gen.ringBuffer_Skip_loop1 0 (g, n, res) h =
      Ok (Next (g2, Z.of_nat (sk_n1 b n - sk_cnt b n), res + Z.of_nat (sk_cnt b n)),
          sl_put h (Gen.ringBuffer_buf g) (Z.of_nat (rd b)) (repeat 0 (sk_cnt b n))) /\
    rel (sl_put h (Gen.ringBuffer_buf g) (Z.of_nat (rd b)) (repeat 0 (sk_cnt b n))) g2
        (mkRb (zero_range (buf b) (rd b) (sk_cnt b n)) (wrap b (sk_end b n)) (wr b)) /\
    Gen.ringBuffer_buf g2 = Gen.ringBuffer_buf g /\ (sk_cnt b n <= blen b)%nat.
Proof.
  intros h g b n res R Hn Hres Hov Hc. rel_facts R.
  pose proof (rb_len_le b Hrd Hwr) as Hl.
  set (cnt := sk_cnt b n).
  assert (Hcnt : (1 <= cnt /\ rd b + cnt = sk_end b n /\ sk_end b n <= blen b /\ cnt <= sk_n1 b n)%nat).
  { subst cnt. unfold sk_cnt, sk_end, sk_n1 in *. repeat (go_if; try lia); lia. }
  set (h2 := sl_put h (Gen.ringBuffer_buf g) (Z.of_nat (rd b)) (repeat 0 cnt)).
  assert (W2 : wf_slice h2 (Gen.ringBuffer_buf g))
    by (apply wf_slice_put; [exact W|lia|rewrite zlen_repeat; lia|exact W]).
  assert (G2 : sl_get h2 (Gen.ringBuffer_buf g) = zsplice (buf b) (Z.of_nat (rd b)) (repeat 0 cnt))
    by (unfold h2; rewrite sl_get_put_same by (try exact W; rewrite ?zlen_repeat; lia); rewrite Hbuf; reflexivity).
  exists (Gen.set_ringBuffer_r g (Z.of_nat (wrap b (sk_end b n)))).
  split; [|split; [|split; [reflexivity|lia]]].
  2:{ replace (sk_end b n) with (rd b + cnt)%nat by lia.
      apply (rel_advance h g b cnt h2 _ R); try assumption; try reflexivity; lia. }
  unfold Gen.ringBuffer_Skip_loop1. cbv beta iota zeta.
  rewrite (gen_Len_refines h g b R).
  go_run;
  match goal with |- context [bind (Gen.SliceFill ?s ?v) ?kk ?hh] =>
    let Ws := fresh "Ws" in
    assert (Ws : wf_slice hh s)
      by (unfold wf_slice; cbn [s_arr s_off s_len s_cap]; unfold sk_end, sk_n1, blen in *;
          repeat split; repeat (go_if; try lia); lia);
    go_call (gen_SliceFill_spec hh s v Ws ltac:(cbn [s_len]; lia))
  end;
  go_rebase (Gen.ringBuffer_buf g); cbn [s_len];
  match goal with |- context [sl_put h (Gen.ringBuffer_buf g) ?o (repeat 0 ?m)] =>
    replace (sl_put h (Gen.ringBuffer_buf g) o (repeat 0 m)) with h2
      by (unfold h2; subst cnt; unfold sk_cnt, sk_end, sk_n1, blen in *;
          repeat f_equal; repeat (go_if; try lia); lia)
  end;
  go_run; unfold ret; unfold Gen.set_ringBuffer_r; rel_cbn; repeat f_equal;
  subst cnt; unfold wrap, sk_cnt, sk_end, sk_n1, blen in *; repeat (go_if; try lia); lia.
Qed.

Lemma gen_Skip_loop : forall mf h g b n mres b' mres' f,
  rel h g b -> -9223372036854775808 <= n < 9223372036854775808 ->
  Z.of_nat mres + (Z.of_nat mf + 1) * s_len (Gen.ringBuffer_buf g) < 9223372036854775808 ->
  rb_skip_loop mf b n mres = (b', mres', false) -> (mf < f)%nat ->
  exists g' n' h',
    iter f (Gen.ringBuffer_Skip_loop1 0) (g, n, Z.of_nat mres) h = Ok ((g', n', Z.of_nat mres'), h') /\
    rel h' g' b' /\ length h' = length h /\ Gen.ringBuffer_buf g' = Gen.ringBuffer_buf g.
Proof.
  induction mf as [|m IH]; intros h g b n mres b' mres' f R Hn Hov Hm Hf;
    (destruct f as [|f]; [lia|]); rewrite iter_S; cbn [rb_skip_loop] in Hm;
    pose proof (rel_wf _ _ _ R) as W; pose proof W as (Wa & Wo & Wl & Wc & Wm);
    destruct ((0 <? n) && (0 <? rb_len b)%nat) eqn:Ec.
  - discriminate.
  - injection Hm as <- <-. go_call (gen_Skip_done h g b n (Z.of_nat mres) R Ec).
    cbv beta iota zeta. unfold ret. exists g, n, h. split; [reflexivity|]. split; [exact R|]. split; reflexivity.
  - destruct (gen_Skip_body h g b n (Z.of_nat mres) R Hn ltac:(lia) ltac:(nia) Ec) as (g2 & E & R2 & Eb & Hc).
    go_call E. cbv beta iota zeta.
    change (rb_skip_loop m (mkRb (zero_range (buf b) (rd b) (sk_cnt b n)) (wrap b (sk_end b n)) (wr b))
              (Z.of_nat (sk_n1 b n - sk_cnt b n)) (mres + sk_cnt b n) = (b', mres', false)) in Hm.
    replace (Z.of_nat mres + Z.of_nat (sk_cnt b n)) with (Z.of_nat (mres + sk_cnt b n)) by lia.
    pose proof (rel_len _ _ _ R) as L.
    destruct (IH _ g2 _ _ _ b' mres' f R2 ltac:(lia) ltac:(rewrite Eb; nia) Hm ltac:(lia))
      as (g' & n' & h' & E2 & R' & Hl' & Eb').
    rewrite E2. exists g', n', h'. split; [reflexivity|]. split; [exact R'|]. split.
    + rewrite Hl'. apply sl_put_length. exact W.
    + rewrite Eb', Eb. reflexivity.
  - injection Hm as <- <-. go_call (gen_Skip_done h g b n (Z.of_nat mres) R Ec).
    cbv beta iota zeta. unfold ret. exists g, n, h. split; [reflexivity|]. split; [exact R|]. split; reflexivity.
Qed.

Theorem gen_Skip_refines : forall h g b q n, rel h g b -> Inv b q ->
  -9223372036854775808 <= n < 9223372036854775808 ->
  exists g' h' b' res,
    rb_skip b n = (b', res, false) /\
    Gen.ringBuffer_Skip g n h = Ok ((g', Z.of_nat res), h') /\ rel h' g' b' /\ length h' = length h.
Proof.
  intros h g b q n R HI Hn.
  destruct (skip_loop_spec 2 b q n 0 HI (skip_need_le2 b n)) as (b' & Hm & _).
  unfold Gen.ringBuffer_Skip. cbv beta iota zeta.
  pose proof (rel_len _ _ _ R). pose proof (rel_rd _ _ _ R). pose proof (rel_small _ _ _ R).
  match goal with |- context [iter ?f _ _] =>
    destruct (gen_Skip_loop 2 h g b n 0 b' _ f R Hn ltac:(lia) Hm ltac:(lia))
      as (g' & n' & h' & E & R' & Hl & _)
  end.
  exists g', h', b', (0 + Nat.min (Z.to_nat n) (length (qitems q)))%nat. unfold rb_skip.
  split; [exact Hm|]. change (Z.of_nat 0) with 0 in E. go_call E. cbv beta iota zeta. unfold ret.
  split; [reflexivity|]. split; assumption.
Qed.

Theorem gen_Clear_refines : forall h g b q, rel h g b -> Inv b q ->
  exists g' h',
    snd (rb_clear b) = false /\
    Gen.ringBuffer_Clear g h = Ok (g', h') /\ rel h' g' (fst (rb_clear b)) /\ length h' = length h.
Proof.
  intros h g b q R HI.
  pose proof (rb_len_le b (rel_rd _ _ _ R) (rel_wr _ _ _ R)) as Hl.
  pose proof (rel_len _ _ _ R). pose proof (rel_small _ _ _ R).
  destruct (gen_Skip_refines h g b q (Z.of_nat (rb_len b)) R HI ltac:(lia)) as (g' & h' & b' & res & Hm & E & R' & Hl').
  unfold Gen.ringBuffer_Clear, rb_clear. rewrite (gen_Len_refines h g b R), Hm.
  exists g', h'. cbn [fst snd]. go_call E. cbv beta iota zeta. unfold ret.
  split; [reflexivity|]. split; [reflexivity|]. split; assumption.
Qed.

(** * NewRingBuffer *)

Theorem gen_New_refines : forall h size, 2 * (Z.of_nat size + 1) < 9223372036854775808 ->
  exists g,
    Gen.NewRingBuffer (Z.of_nat size) h = Ok (g, h ++ [repeat 0 (S size)]) /\
    rel (h ++ [repeat 0 (S size)]) g (new_rb size).
Proof.
  intros h size Hs. unfold Gen.NewRingBuffer. go_run. unfold ret.
  replace (Z.to_nat (Z.of_nat size + 1)) with (S size) by lia.
  eexists. split; [reflexivity|].
  pose proof (wf_slice_new h (Z.of_nat size + 1) ltac:(lia)) as Wn.
  replace (Z.to_nat (Z.of_nat size + 1)) with (S size) in Wn by lia.
  unfold new_rb. rel_split; unfold blen; cbn [buf]; rewrite ?repeat_length; try lia; try reflexivity.
  - exact Wn.
  - unfold sl_get. cbn [s_arr s_off s_len]. rewrite arr_get_new.
    replace (Z.of_nat size + 1) with (zlen (repeat 0 (S size))) by (rewrite zlen_repeat; lia).
    apply zsub_all.
Qed.
