(** C14, translator tie: container.SliceFill (container/sliceutils.go) as
    translated from the Go source on this run (Gen_ringbuffer.v) fills its
    argument, by its element loop (short slices) and by its doubling copy. *)
From Coq Require Import List ZArith Arith Lia Bool.
From Coq Require Import ZifyBool ZifyNat.
From GL Require Import lib.GoLite model.RingBuf spec.Queue proofs.C14_RingBuf.
From GLGEN Require Import RB_GenVocab Gen_ringbuffer.
Import ListNotations.
Open Scope Z_scope.
Ltac Zify.zify_post_hook ::= Z.div_mod_to_equations.

(* for i := range s { s[i] = v } *)

Lemma gen_SliceFill_loop1 : forall f s v h0 i,
  wf_slice h0 s -> 0 <= i <= s_len s -> (Z.to_nat (s_len s - i) < f)%nat ->
  iter f (Gen.SliceFill_loop1 s v s) i (sl_put h0 s 0 (repeat v (Z.to_nat i))) =
  Ok (s_len s, sl_put h0 s 0 (repeat v (Z.to_nat (s_len s)))).
Proof.
  induction f as [|f IH]; intros s v h0 i W Hi Hf; [lia|].
  pose proof W as (Wa & Wo & Wl & Wc & Wm).
  rewrite iter_S. unfold Gen.SliceFill_loop1 at 1. go_run.
  - go_join W.
    replace (repeat v (Z.to_nat i) ++ [v]) with (repeat v (Z.to_nat (i + 1)))
      by (replace (Z.to_nat (i + 1)) with (Z.to_nat i + 1)%nat by lia; rewrite repeat_app; reflexivity).
    apply IH; [exact W|lia|lia].
  - unfold ret. replace i with (s_len s) by lia. reflexivity.
Qed.

(* for j := 1; j < len(s); j *= 2 { copy(s[j:], s[:j]) } *)

Lemma gen_SliceFill_loop2 : forall f s v h0 j,
  wf_slice h0 s -> 2 * s_len s < 9223372036854775808 -> 1 <= j ->
  (Z.to_nat (s_len s - j) < f)%nat ->
  exists j',
  iter f (Gen.SliceFill_loop2 s) j (sl_put h0 s 0 (repeat v (Z.to_nat (Z.min j (s_len s))))) =
  Ok (j', sl_put h0 s 0 (repeat v (Z.to_nat (s_len s)))).
Proof.
  induction f as [|f IH]; intros s v h0 j W Hs Hj Hf; [lia|].
  pose proof W as (Wa & Wo & Wl & Wc & Wm).
  rewrite iter_S. unfold Gen.SliceFill_loop2 at 1.
  set (h := sl_put h0 s 0 (repeat v (Z.to_nat (Z.min j (s_len s))))).
  assert (Wh : wf_slice h s)
    by (apply wf_slice_put; [exact W|lia|rewrite zlen_repeat; lia|exact W]).
  go_run.
  - (* one doubling step *)
    go_rebase s.
    match goal with |- context [sl_get h ?p] =>
      assert (G : sl_get h p = repeat v (Z.to_nat j))
    end.
    { rewrite (sl_get_reslice_len h s 0 j Wh) by lia. unfold h.
      rewrite sl_get_put_same by (try exact W; rewrite ?zlen_repeat; lia).
      unfold zsplice, zsub. cbn [Z.to_nat firstn skipn app Nat.add].
      rewrite Z.min_l by lia. rewrite Z.sub_0_r, firstn_app, firstn_repeat, repeat_length.
      replace (Nat.min (Z.to_nat j) (Z.to_nat j)) with (Z.to_nat j) by lia.
      rewrite Nat.sub_diag. cbn [firstn]. apply app_nil_r. }
    rewrite G, firstn_repeat. unfold h. rewrite Z.min_l by lia.
    go_join W.
    rewrite <- repeat_app.
    match goal with |- context [repeat v ?n] =>
      replace n with (Z.to_nat (Z.min (j * 2) (s_len s))) by lia
    end.
    apply IH; [exact W|exact Hs|lia|lia].
  - unfold ret, h. rewrite Z.min_r by lia. eexists. reflexivity.
Qed.

Theorem gen_SliceFill_spec : forall h s v,
  wf_slice h s -> 2 * s_len s < 9223372036854775808 ->
  Gen.SliceFill s v h = Ok (tt, sl_put h s 0 (repeat v (Z.to_nat (s_len s)))).
Proof.
  intros h s v W Hs. pose proof W as (Wa & Wo & Wl & Wc & Wm).
  unfold Gen.SliceFill. go_run.
  - (* short: element by element *)
    match goal with |- context [iter ?f _ _] =>
      pose proof (gen_SliceFill_loop1 f s v h 0 W ltac:(lia) ltac:(lia)) as L
    end.
    cbn [Z.to_nat repeat] in L. rewrite sl_put_nil in L by exact W.
    go_call L. reflexivity.
  - (* long: s[0] = v, then doubling copies *)
    assert (X1 : 1 <= 1) by lia.
    match goal with |- context [iter ?f _ _] =>
      assert (X2 : (Z.to_nat (s_len s - 1) < f)%nat) by lia;
      destruct (gen_SliceFill_loop2 f s v h 1 W Hs X1 X2) as (j' & L)
    end.
    rewrite Z.min_l in L by lia. change (Z.to_nat 1) with 1%nat in L. cbn [repeat] in L.
    go_call L. reflexivity.
Qed.

Print Assumptions gen_SliceFill_spec.
