(** C12 tie: the generated [futures.Len] and [futures.Less] (coqgen/Gen_timeout.v) are the model's [f_len] and [f_less]. *)
From Coq Require Import List ZArith NArith Bool Lia.
From GL Require Import lib.GoLite model.THeap proofs.C12_THeap.
From GLGEN Require Import TM_GenVocab Gen_timeout.
Import ListNotations.
Open Scope Z_scope.

Theorem gen_len D h fs m : rel D h fs m -> Gen.futures_Len fs = f_len m.
Proof. intros R. unfold Gen.futures_Len. exact (rel_len _ _ _ _ R). Qed.

Theorem gen_less D h fs m i j : rel D h fs m -> incl (arr m) D ->
  in_range m i = true -> in_range m j = true ->
  Gen.futures_Less before fs i j h = Ok (f_less m i j, h).
Proof.
  intros R S Hi Hj. apply (proj1 (in_range_iff _ _ _ _ _ R)) in Hi. apply (proj1 (in_range_iff _ _ _ _ _ R)) in Hj.
  enough (P : post (Gen.futures_Less before fs i j h) (fun b h' => b = f_less m i j /\ h' = h)).
  { destruct (post_elim _ _ P) as (b & h' & E & -> & ->). exact E. }
  unfold Gen.futures_Less. obj_run. obj_done. split; reflexivity.
Qed.

Print Assumptions gen_len.
Print Assumptions gen_less.
