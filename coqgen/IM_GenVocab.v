(** Vocabulary of the C10/C11 tie (coqgen/C10_GenFn*.v): how the GoLite heap
    of the code translated from /repo/container/iterable/map.go represents a
    state of the hand-written pointer model model/IMap.v, model-side frame
    lemmas, the literal [sync.Pool], and the stepping tactics.  Independent of
    the generated file.

    Layout (a FUNCTION of the model state, not just a relation):
      array 0 of the heap       the sync.Pool: the pooled pointers, most recent first
      array 1                   a log [lg] that the map code never touches (the callbacks of the
                                cache built on the map record their calls there: EC_GenVocab.v)
      array x+2                 the node with id x: [state; prev; next; refCnt; key; val]
      pointer to node x         [ptr x = x + 3] (GoLite: array id + 1); nil = 0
      state                     0/1/2 = rlLast/rlOk/rlDeleted ([st_code])
    [gheap lg pl mh] is the GoLite heap of the model heap [mh] with pool [pl] and log [lg].

    Name clashes: [Ok]/[NoFuel]/[bind]/[heap] are GoLite's here; the model's are
    written [IMapBase.Ok], [IMapBase.Panic], [IMapBase.NoFuel], [IMap.heap]. *)
(* model/IMap.v and lib/GoLite.v both define the monadic notation; GoLite's wins here *)
Set Warnings "-notation-overridden,-parsing".
From Coq Require Import List ZArith Arith Bool Lia.
From GL Require Import lib.IMapBase model.IMap.
From GL Require Import lib.GoLite lib.GoLitePtr.
Import ListNotations.
Open Scope Z_scope.

Notation mheap := IMap.heap (only parsing).
Notation MOk := (@IMapBase.Ok _) (only parsing).
Notation MPanic := (@IMapBase.Panic _) (only parsing).
Notation MNoFuel := (@IMapBase.NoFuel _) (only parsing).

(** * Encoding *)

Definition ptr (x : nat) : Z := Z.of_nat x + 3.
Definition optr (o : option nat) : Z := match o with Some x => ptr x | None => 0 end.
Definition st_code (s : nstate) : Z := match s with StLast => 0 | StOk => 1 | StDeleted => 2 end.
Definition enc (n : node) : list Z :=
  [st_code (n_st n); optr (n_prev n); optr (n_next n); n_ref n; n_key n; n_val n].
Definition gheap (lg : list Z) (pl : list nat) (mh : mheap) : heap := map ptr pl :: lg :: map enc mh.

(* the result of a model function as an outcome of generated code *)
Definition lift {X Y : Type} (r : res X) (f : X -> outcome Y) : outcome Y :=
  match r with
  | IMapBase.Ok x => f x
  | IMapBase.Panic => GoPanic
  | IMapBase.NoFuel => NoFuel
  end.

Lemma ptr_pos x : 0 < ptr x. Proof. unfold ptr. lia. Qed.
Lemma ptr_eqb0 x : (ptr x =? 0) = false. Proof. unfold ptr. lia. Qed.
Lemma ptr_inj x y : ptr x = ptr y -> x = y. Proof. unfold ptr. lia. Qed.
Lemma obj_arr_ptr x : obj_arr (ptr x) = S (S x). Proof. unfold obj_arr, ptr. lia. Qed.
Lemma optr_some x : optr (Some x) = ptr x. Proof. reflexivity. Qed.

(** * The model heap: nodes by id *)

Definition nd (mh : mheap) (x : nat) : node := nth x mh zero_node.

Lemma nth_error_nd mh x : (x < length mh)%nat -> nth_error mh x = Some (nd mh x).
Proof. intros H. unfold nd. apply nth_error_nth'. exact H. Qed.

Lemma get_ok mh x : (x < length mh)%nat -> get mh x = IMapBase.Ok (nd mh x).
Proof. intros H. unfold get. rewrite nth_error_nd by exact H. reflexivity. Qed.

Lemma get_panic mh x : (length mh <= x)%nat -> get mh x = IMapBase.Panic.
Proof. intros H. unfold get. rewrite (proj2 (nth_error_None mh x) H). reflexivity. Qed.

Lemma length_upd mh x f : length (upd mh x f) = length mh.
Proof. revert x. induction mh as [|n t IH]; intros [|x]; cbn [upd length]; try reflexivity. rewrite IH. reflexivity. Qed.

Lemma nd_upd_same mh x f : (x < length mh)%nat -> nd (upd mh x f) x = f (nd mh x).
Proof.
  unfold nd. revert x. induction mh as [|n t IH]; intros [|x] H; cbn [length] in H; try lia; cbn [upd nth]; [reflexivity|].
  apply IH. lia.
Qed.

Lemma nd_upd_other mh x f y : y <> x -> nd (upd mh x f) y = nd mh y.
Proof.
  unfold nd. revert x y. induction mh as [|n t IH]; intros [|x] [|y] H; cbn [upd nth]; try reflexivity; try congruence.
  apply IH. congruence.
Qed.

Lemma wr_ok mh x f : (x < length mh)%nat -> wr mh x f = IMapBase.Ok (upd mh x f).
Proof. intros H. unfold wr. rewrite get_ok by exact H. reflexivity. Qed.

Lemma upd_upd mh x f g : upd (upd mh x f) x g = upd mh x (fun n => g (f n)).
Proof. revert x. induction mh as [|n t IH]; intros [|x]; cbn [upd]; try reflexivity. rewrite IH. reflexivity. Qed.

Lemma nd_app_old mh l x : (x < length mh)%nat -> nd (mh ++ l) x = nd mh x.
Proof. intros H. unfold nd. apply app_nth1. exact H. Qed.

Lemma nd_app_new mh n : nd (mh ++ [n]) (length mh) = n.
Proof. unfold nd. rewrite app_nth2 by lia. rewrite Nat.sub_diag. reflexivity. Qed.

(** * Well-formedness: no dangling ids (nodes are never freed), counters fit an int *)

Definition inb (len : nat) (o : option nat) : Prop :=
  match o with Some y => (y < len)%nat | None => True end.
Definition nclosed (len : nat) (n : node) : Prop := inb len (n_prev n) /\ inb len (n_next n).
Definition closed (mh : mheap) : Prop := forall x, (x < length mh)%nat -> nclosed (length mh) (nd mh x).
Definition refs_in (B : Z) (mh : mheap) : Prop := forall x, (x < length mh)%nat -> - B <= n_ref (nd mh x) <= B.

Lemma inb_mono a b o : (a <= b)%nat -> inb a o -> inb b o.
Proof. destruct o; cbn; [lia|auto]. Qed.

Lemma closed_upd mh x f : closed mh ->
  ((x < length mh)%nat -> nclosed (length mh) (f (nd mh x))) -> closed (upd mh x f).
Proof.
  intros C Hf y Hy. rewrite length_upd in *. destruct (Nat.eq_dec y x) as [->|Hne].
  - rewrite nd_upd_same by exact Hy. apply Hf. exact Hy.
  - rewrite nd_upd_other by exact Hne. apply C. exact Hy.
Qed.

Lemma closed_app mh : closed mh -> closed (mh ++ [zero_node]).
Proof.
  intros C y Hy. rewrite app_length in *. cbn [length] in *.
  destruct (Nat.eq_dec y (length mh)) as [->|Hne].
  - rewrite nd_app_new. split; exact I.
  - rewrite nd_app_old by lia. destruct (C y ltac:(lia)) as [A B].
    split; [apply (inb_mono (length mh)); [lia|exact A]|apply (inb_mono (length mh)); [lia|exact B]].
Qed.

Lemma refs_in_upd B mh x f : refs_in B mh ->
  ((x < length mh)%nat -> - B <= n_ref (f (nd mh x)) <= B) -> refs_in B (upd mh x f).
Proof.
  intros C Hf y Hy. rewrite length_upd in *. destruct (Nat.eq_dec y x) as [->|Hne].
  - rewrite nd_upd_same by exact Hy. apply Hf. exact Hy.
  - rewrite nd_upd_other by exact Hne. apply C. exact Hy.
Qed.

Lemma refs_in_mono B B' mh : B <= B' -> refs_in B mh -> refs_in B' mh.
Proof. intros H R x Hx. specialize (R x Hx). lia. Qed.

Lemma refs_in_app B mh : 0 <= B -> refs_in B mh -> refs_in B (mh ++ [zero_node]).
Proof.
  intros HB R y Hy. rewrite app_length in Hy. cbn [length] in Hy.
  destruct (Nat.eq_dec y (length mh)) as [->|Hne].
  - rewrite nd_app_new. cbn. lia.
  - rewrite nd_app_old by lia. apply R. lia.
Qed.

(* the counters of two heaps agree *)
Definition same_refs (mh mh' : mheap) : Prop :=
  length mh' = length mh /\ forall y, n_ref (nd mh' y) = n_ref (nd mh y).

Lemma same_refs_refl mh : same_refs mh mh.
Proof. split; reflexivity. Qed.

Lemma same_refs_trans a b c : same_refs a b -> same_refs b c -> same_refs a c.
Proof. intros [L1 R1] [L2 R2]. split; [congruence|]. intros y. rewrite R2. apply R1. Qed.

Lemma same_refs_upd mh x f : (forall n, n_ref (f n) = n_ref n) -> same_refs mh (upd mh x f).
Proof.
  intros Hf. split; [apply length_upd|]. intros y.
  destruct (Nat.eq_dec y x) as [->|Hne]; [|rewrite nd_upd_other by exact Hne; reflexivity].
  destruct (Nat.lt_ge_cases x (length mh)) as [Hx|Hx].
  - rewrite nd_upd_same by exact Hx. apply Hf.
  - unfold nd. rewrite !nth_overflow by (rewrite ?length_upd; lia). reflexivity.
Qed.

Lemma refs_in_same B mh mh' : same_refs mh mh' -> refs_in B mh -> refs_in B mh'.
Proof. intros [L R] H x Hx. rewrite R. apply H. lia. Qed.

(** * The GoLite side: field loads and stores on [gheap] *)

Lemma arr_get_gheap lg pl mh x : (x < length mh)%nat -> arr_get (gheap lg pl mh) (S (S x)) = enc (nd mh x).
Proof.
  intros H. unfold arr_get, gheap, nd. cbn [nth].
  rewrite (nth_indep _ [] (enc zero_node)) by (rewrite map_length; exact H). apply map_nth.
Qed.

Lemma gheap_upd lg pl mh x f : (x < length mh)%nat ->
  arr_set (gheap lg pl mh) (S (S x)) (enc (f (nd mh x))) = gheap lg pl (upd mh x f).
Proof.
  intros H. unfold arr_set, gheap. cbn [firstn skipn app]. f_equal. f_equal. unfold nd.
  revert x H. induction mh as [|n t IH]; intros [|x] H; cbn [length] in H; try lia; cbn [map upd firstn skipn nth app].
  - reflexivity.
  - f_equal. apply IH. lia.
Qed.

Lemma length_gheap lg pl mh : length (gheap lg pl mh) = S (S (length mh)).
Proof. unfold gheap. cbn [length]. rewrite map_length. reflexivity. Qed.

Lemma gheap_new lg pl mh : gheap lg pl mh ++ [repeat 0 6] = gheap lg pl (mh ++ [zero_node]).
Proof. unfold gheap. rewrite map_app. reflexivity. Qed.

Section Steps.
Context {B : Type}.

Lemma bind_ld x k (kk : Z -> M B) lg pl mh : (x < length mh)%nat ->
  bind (fld_load (ptr x) k) kk (gheap lg pl mh) = kk (nth k (enc (nd mh x)) 0) (gheap lg pl mh).
Proof.
  intros H. rewrite bind_fld_load by apply ptr_pos. rewrite obj_arr_ptr, arr_get_gheap by exact H. reflexivity.
Qed.

Lemma bind_st x k v (kk : unit -> M B) lg pl mh f : (x < length mh)%nat ->
  zsplice (enc (nd mh x)) (Z.of_nat k) [v] = enc (f (nd mh x)) ->
  bind (fld_store (ptr x) k v) kk (gheap lg pl mh) = kk tt (gheap lg pl (upd mh x f)).
Proof.
  intros H E. rewrite bind_fld_store by apply ptr_pos. rewrite obj_arr_ptr, arr_get_gheap by exact H.
  rewrite E, gheap_upd by exact H. reflexivity.
Qed.

Lemma bind_new (kk : Z -> M B) lg pl mh :
  bind (obj_new 6) kk (gheap lg pl mh) = kk (ptr (length mh)) (gheap lg pl (mh ++ [zero_node])).
Proof.
  rewrite bind_obj_new, length_gheap, gheap_new. f_equal. unfold ptr. lia.
Qed.

End Steps.

(** * The literal sync.Pool: array 0 of the heap; the handle is 0 *)

Definition lit_Put (hd p : Z) : M unit := fun h =>
  Ok (tt, arr_set h (Z.to_nat hd) (p :: arr_get h (Z.to_nat hd))).

(* Get under the choice [c] of the oracle: the c-th pooled pointer, else what
   Pool.New does: a fresh zeroed object *)
Definition lit_Get (c : option nat) (hd : Z) : M Z := fun h =>
  let fresh := Ok (Z.of_nat (length h) + 1, h ++ [repeat 0 6]) in
  match c with
  | Some n =>
      match nth_error (arr_get h (Z.to_nat hd)) n with
      | Some p => Ok (p, arr_set h (Z.to_nat hd) (remove_nth n (arr_get h (Z.to_nat hd))))
      | None => fresh
      end
  | None => fresh
  end.

(* what the tie assumes of the parameters that stand for the pool *)
Definition put_spec (pool_Put : Z -> Z -> M unit) : Prop :=
  forall lg pl mh x, pool_Put 0 (ptr x) (gheap lg pl mh) = Ok (tt, gheap lg (x :: pl) mh).
Definition get_spec (pool_Get : option nat -> Z -> M Z) : Prop :=
  forall c lg pl mh, pool_Get c 0 (gheap lg pl mh) =
    let '(x, mh', pl') := pool_get mh pl c in Ok (ptr x, gheap lg pl' mh').

Lemma lit_put_spec : put_spec lit_Put.
Proof. intros lg pl mh x. reflexivity. Qed.

Lemma remove_nth_map {A C} (f : A -> C) n l : remove_nth n (map f l) = map f (remove_nth n l).
Proof. revert n. induction l as [|a t IH]; intros [|n]; cbn [remove_nth map]; try reflexivity. rewrite IH. reflexivity. Qed.

Lemma lit_get_spec : get_spec lit_Get.
Proof.
  intros c lg pl mh. unfold lit_Get, pool_get.
  assert (F : Ok (Z.of_nat (length (gheap lg pl mh)) + 1, gheap lg pl mh ++ [repeat 0 6]) =
              Ok (ptr (length mh), gheap lg pl (mh ++ [zero_node]))).
  { rewrite length_gheap, gheap_new. f_equal. f_equal. unfold ptr. lia. }
  destruct c as [n|]; [|exact F].
  change (arr_get (gheap lg pl mh) (Z.to_nat 0)) with (map ptr pl).
  rewrite nth_error_map. destruct (nth_error pl n) as [x|]; cbn [option_map]; [|exact F].
  rewrite remove_nth_map. reflexivity.
Qed.

(** * Model-side frame lemmas: what [n_delete] / [n_putval] preserve *)

(* a field update that keeps ids in range and does not touch the counter *)
Definition okf (len : nat) (f : node -> node) : Prop :=
  (forall n, nclosed len n -> nclosed len (f n)) /\ (forall n, n_ref (f n) = n_ref n).

Lemma okf_val len v : okf len (set_val v).
Proof. split; intros n; [intros H; exact H|reflexivity]. Qed.
Lemma okf_key len v : okf len (set_key v).
Proof. split; intros n; [intros H; exact H|reflexivity]. Qed.
Lemma okf_st len v : okf len (set_st v).
Proof. split; intros n; [intros H; exact H|reflexivity]. Qed.
Lemma okf_prev len o : inb len o -> okf len (set_prev o).
Proof. intros Ho. split; intros n; [intros [_ H]; split; [exact Ho|exact H]|reflexivity]. Qed.
Lemma okf_next len o : inb len o -> okf len (set_next o).
Proof. intros Ho. split; intros n; [intros [H _]; split; [exact H|exact Ho]|reflexivity]. Qed.
Lemma okf_comp len f g : okf len f -> okf len g -> okf len (fun n => g (f n)).
Proof. intros [F1 F2] [G1 G2]. split; intros n; [intros H; apply G1, F1, H|rewrite G2; apply F2]. Qed.

Definition good (mh mh' : mheap) : Prop := closed mh' /\ same_refs mh mh'.

Lemma good_refl mh : closed mh -> good mh mh.
Proof. intros C. split; [exact C|apply same_refs_refl]. Qed.

Lemma good_upd mh mh' x f : good mh mh' -> okf (length mh) f -> good mh (upd mh' x f).
Proof.
  intros [C [L R]] [F1 F2]. split.
  - apply closed_upd; [exact C|]. intros Hx. rewrite L. apply F1. rewrite <- L. apply C. exact Hx.
  - eapply same_refs_trans; [split; [exact L|exact R]|]. apply same_refs_upd. exact F2.
Qed.

Lemma good_trans a b c : good a b -> good b c -> good a c.
Proof. intros [C1 S1] [C2 S2]. split; [exact C2|eapply same_refs_trans; eassumption]. Qed.

Lemma good_len mh mh' : good mh mh' -> length mh' = length mh.
Proof. intros [_ [L _]]. exact L. Qed.

Lemma okf_prev_next len o1 o2 : inb len o1 -> inb len o2 -> okf len (fun n => set_prev o1 (set_next o2 n)).
Proof. intros H1 H2. apply (okf_comp len (set_next o2) (set_prev o1)); [apply okf_next|apply okf_prev]; assumption. Qed.
Lemma inb_none len : inb len None. Proof. exact I. Qed.
Lemma inb_some len y : (y < len)%nat -> inb len (Some y). Proof. intros H. exact H. Qed.

Global Hint Resolve okf_val okf_key okf_st okf_prev okf_next okf_prev_next inb_none inb_some : okf.

Ltac good_tac C :=
  repeat (apply good_upd; [|solve [auto 6 with okf]]); apply good_refl; exact C.

Lemma n_delete_pres mh x mh' o : closed mh -> (x < length mh)%nat ->
  n_delete mh x = IMapBase.Ok (mh', o) -> good mh mh' /\ inb (length mh) o.
Proof.
  intros C Hx. unfold n_delete. rewrite get_ok by exact Hx. cbn [IMapBase.bind].
  pose proof (C x Hx) as [Cp Cn]. set (n := nd mh x) in *.
  destruct (n_st n); [intros [= <- <-]; split; [apply good_refl; exact C|exact I]| |].
  all: destruct (n_ref n =? 0); [|intros [= <- <-]; split; [good_tac C|exact I]].
  all: destruct (n_prev n) as [p|] eqn:Ep; destruct (n_next n) as [q|] eqn:Eq; cbn [inb deref IMapBase.bind] in *;
    rewrite ?wr_ok by (rewrite ?length_upd; assumption); cbn [IMapBase.bind];
    rewrite ?wr_ok by (rewrite ?length_upd; assumption); cbn [IMapBase.bind];
    try discriminate; intros [= <- <-].
  all: (split; [good_tac C|cbn [inb]; try assumption; try exact I]).
Qed.

Lemma n_putval_pres mh x k v new mh' r : closed mh -> (x < length mh)%nat -> (new < length mh)%nat ->
  n_putval mh x k v new = IMapBase.Ok (mh', r) ->
  good mh mh' /\ r = new /\ n_prev (nd mh' new) = Some x.
Proof.
  intros C Hx Hn. unfold n_putval. rewrite get_ok by exact Hx. cbn [IMapBase.bind].
  destruct (n_st (nd mh x)); try discriminate.
  rewrite wr_ok by exact Hn. cbn [IMapBase.bind].
  rewrite get_ok by (rewrite !length_upd; exact Hx). cbn [IMapBase.bind].
  rewrite !nd_upd_same by (rewrite ?length_upd; exact Hx). cbn [n_next set_val set_key set_st set_next deref IMapBase.bind].
  intros [= <- <-]. split; [good_tac C|]. split; [reflexivity|].
  destruct (Nat.eq_dec new x) as [->|Hne].
  - rewrite !nd_upd_same by (rewrite ?length_upd; exact Hx). reflexivity.
  - rewrite !(nd_upd_other _ x) by exact Hne. rewrite !nd_upd_same by (rewrite ?length_upd; exact Hn). reflexivity.
Qed.

(** * Symbolic execution of generated code over [gheap]

    [im_step]: one primitive of the generated code (a field load / store through
    [ptr x], a nil dereference, an allocation); [m_step]: one dereference of the
    model.  [im_run] alternates them with beta/iota/zeta, normalises reads of
    updated heaps ([nd (upd ..)], with a case split when two ids may coincide)
    and splits on the conditions both sides share.  Nothing refers to names of
    the generated file. *)

Ltac len_side := rewrite ?length_upd, ?app_length; cbn [length]; first [assumption | lia].

Ltac st_fun k v :=
  lazymatch k with
  | 0%nat => lazymatch v with
             | 0 => constr:(set_st StLast) | 1 => constr:(set_st StOk) | 2 => constr:(set_st StDeleted)
             | st_code ?s => constr:(set_st s)
             end
  | 1%nat => lazymatch v with
             | 0 => constr:(set_prev None) | ptr ?y => constr:(set_prev (Some y)) | optr ?o => constr:(set_prev o)
             end
  | 2%nat => lazymatch v with
             | 0 => constr:(set_next None) | ptr ?y => constr:(set_next (Some y)) | optr ?o => constr:(set_next o)
             end
  | 3%nat => constr:(set_ref v)
  | 4%nat => constr:(set_key v)
  | 5%nat => constr:(set_val v)
  end.

Ltac im_step :=
  match goal with
  | |- context [bind (bind ?m ?k) ?k' ?h] => rewrite (bind_assoc m k k' h)
  | |- context [bind (ret ?a) ?k ?h] => rewrite (bind_ret_l a k h)
  | |- context [bind (fld_load (ptr ?x) ?k) ?kk (gheap ?lg ?pl ?H)] =>
      rewrite (bind_ld x k kk lg pl H) by len_side; cbn [nth enc]
  | |- context [bind (fld_load 0 ?k) ?kk ?h] => rewrite (bind_fld_load_nil k kk h 0) by lia
  | |- context [bind (fld_store 0 ?k ?v) ?kk ?h] => rewrite (bind_fld_store_nil 0 k v kk h) by lia
  | |- context [bind (fld_store (ptr ?x) ?k ?v) ?kk (gheap ?lg ?pl ?H)] =>
      let f := st_fun k v in rewrite (bind_st x k v kk lg pl H f) by first [len_side | reflexivity]
  | |- context [bind (obj_new 6) ?kk (gheap ?lg ?pl ?H)] => rewrite (bind_new kk lg pl H)
  end.

Ltac m_step :=
  match goal with
  | |- context [get ?H ?x] => rewrite (get_ok H x) by len_side
  | |- context [wr ?H ?x ?f] => rewrite (wr_ok H x f) by len_side
  end.

Ltac im_simpl :=
  cbv beta iota zeta;
  cbn [IMapBase.bind deref lift optr st_code nth enc n_st n_prev n_next n_ref n_key n_val
       set_st set_prev set_next set_ref set_key set_val nstate_eqb retarget fst snd negb andb orb Z.eqb Pos.eqb];
  rewrite ?ptr_eqb0; cbn [negb andb orb].

(* reads of an updated heap *)
Ltac nd_norm :=
  repeat match goal with
  | |- context [nd (upd ?H ?z ?f) ?y] =>
      first [ rewrite (nd_upd_same H z f) by len_side
            | rewrite (nd_upd_other H z f y) by first [assumption | congruence | lia]
            | let E := fresh "E" in destruct (Nat.eq_dec y z) as [E|E]; [subst|] ]
  end.

(* a pointer read from a field: nil or in range *)
Ltac ptr_cases :=
  match goal with
  | |- context [fld_load (optr ?o) _] => destruct o eqn:?
  | |- context [fld_store (optr ?o) _ _] => destruct o eqn:?
  end.

(* facts recorded by earlier case splits *)
Ltac known_rw :=
  repeat match goal with
  | E : ?t = Some _ |- context [?t] => rewrite E
  | E : ?t = None |- context [?t] => rewrite E
  | E : ?t = StLast |- context [?t] => rewrite E
  | E : ?t = StOk |- context [?t] => rewrite E
  | E : ?t = StDeleted |- context [?t] => rewrite E
  | E : ?t = true |- context [?t] => rewrite E
  | E : ?t = false |- context [?t] => rewrite E
  end.

Ltac im_run :=
  repeat first [ im_step | m_step | progress im_simpl | progress nd_norm | progress known_rw ].

(* the end of a run: the same heap.  First syntactically (up to fusing adjacent
   writes to one node), else node by node: stores to different fields or different
   nodes commute, so the order in which the Go function performs them is
   immaterial *)
Lemma mheap_ext (a b : mheap) : length a = length b ->
  (forall y, (y < length a)%nat -> nd a y = nd b y) -> a = b.
Proof. intros L H. apply (nth_ext a b zero_node zero_node L). exact H. Qed.

Ltac heap_ext :=
  apply mheap_ext; [rewrite ?length_upd; reflexivity|];
  let y := fresh "y" in let Hy := fresh "Hy" in
  intros y Hy; rewrite ?length_upd in Hy; nd_norm;
  repeat match goal with |- context [nd ?h ?z] => destruct (nd h z) end; reflexivity.

Ltac im_done :=
  unfold ret;
  first [ reflexivity
        | rewrite ?upd_upd; reflexivity
        | f_equal; f_equal; first [reflexivity | f_equal; heap_ext | heap_ext] ].

(** * Counter ranges along the walk of [Map.next]

    [rng lo hi mh]: every counter is in [lo, hi].  [rng2 lo hi p mh]: the node
    [p] the walk stands on has been incremented (it is in [lo+1, hi+1]), the
    others are in [lo, hi].  One iteration decrements [p] and increments its
    successor: [rng2] is an invariant, so a whole walk moves every counter by
    at most one. *)

Definition rng (lo hi : Z) (mh : mheap) : Prop :=
  forall y, (y < length mh)%nat -> lo <= n_ref (nd mh y) <= hi.
Definition rng2 (lo hi : Z) (p : nat) (mh : mheap) : Prop :=
  forall y, (y < length mh)%nat ->
    (y = p -> lo + 1 <= n_ref (nd mh y) <= hi + 1) /\ (y <> p -> lo <= n_ref (nd mh y) <= hi).

Lemma rng_refs_in B mh : rng (- B) B mh <-> refs_in B mh.
Proof. unfold rng, refs_in. split; intros H y Hy; specialize (H y Hy); lia. Qed.

Lemma rng_rng2 lo hi p mh : rng (lo + 1) hi mh -> rng2 lo hi p mh.
Proof. intros H y Hy. specialize (H y Hy). split; intros _; lia. Qed.

Lemma rng2_rng lo hi p mh : rng2 lo hi p mh -> rng lo (hi + 1) mh.
Proof.
  intros H y Hy. destruct (H y Hy) as [A B]. destruct (Nat.eq_dec y p) as [E|E]; [specialize (A E)|specialize (B E)]; lia.
Qed.

Lemma rng_same lo hi a b : same_refs a b -> rng lo hi a -> rng lo hi b.
Proof. intros [L R] H y Hy. rewrite R. apply H. lia. Qed.

Lemma rng2_dec lo hi p mh : rng2 lo hi p mh -> (p < length mh)%nat ->
  rng lo hi (upd mh p (set_ref (n_ref (nd mh p) - 1))).
Proof.
  intros H Hp y Hy. rewrite length_upd in Hy. destruct (Nat.eq_dec y p) as [->|E].
  - rewrite nd_upd_same by exact Hp. cbn [n_ref set_ref]. destruct (H p Hp) as [A _]. specialize (A eq_refl). lia.
  - rewrite nd_upd_other by exact E. destruct (H y Hy) as [_ B]. apply B. exact E.
Qed.

Lemma rng_inc lo hi p mh : rng lo hi mh -> (p < length mh)%nat ->
  rng2 lo hi p (upd mh p (set_ref (n_ref (nd mh p) + 1))).
Proof.
  intros H Hp y Hy. rewrite length_upd in Hy. split; intros E.
  - subst y. rewrite nd_upd_same by exact Hp. cbn [n_ref set_ref]. specialize (H p Hp). lia.
  - rewrite nd_upd_other by exact E. apply H. exact Hy.
Qed.

Lemma rng2_at lo hi p mh : rng2 lo hi p mh -> (p < length mh)%nat -> lo + 1 <= n_ref (nd mh p) <= hi + 1.
Proof. intros H Hp. destruct (H p Hp) as [A _]. apply A. reflexivity. Qed.

Lemma closed_set_ref mh x v : closed mh -> closed (upd mh x (set_ref v)).
Proof. intros C. apply closed_upd; [exact C|]. intros Hx. exact (C x Hx). Qed.

(* the walking state: heap, head, pool *)
Definition lt_all (len : nat) (l : list nat) : Prop := Forall (fun x => (x < len)%nat) l.
Definition cwf (c : core) : Prop :=
  let '(mh, hd, pl) := c in closed mh /\ (hd < length mh)%nat /\ lt_all (length mh) pl.

Lemma cwf_intro mh hd pl : closed mh -> (hd < length mh)%nat -> lt_all (length mh) pl -> cwf (mh, hd, pl).
Proof. intros A B C. exact (conj A (conj B C)). Qed.

Lemma retarget_lt len hd o : (hd < len)%nat -> inb len o -> (retarget hd o < len)%nat.
Proof. destruct o; cbn; auto. Qed.

Lemma i_next_pres : forall f mh hd pl p lo hi c' p',
  cwf (mh, hd, pl) -> (p < length mh)%nat -> rng2 lo hi p mh ->
  i_next f (mh, hd, pl) p = IMapBase.Ok (c', p') ->
  cwf c' /\ length (fst (fst c')) = length mh /\ (p' < length mh)%nat /\ rng2 lo hi p' (fst (fst c')).
Proof.
  induction f as [|f IH]; intros mh hd pl p lo hi c' p' (C & Hhd & Hpl) Hp R; [discriminate|].
  cbn [i_next]. rewrite get_ok by exact Hp. cbn [IMapBase.bind].
  pose proof (C p Hp) as [_ Cn].
  destruct (n_st (nd mh p)) eqn:Es.
  { intros [= <- <-]. cbn [fst]. split; [apply cwf_intro; assumption|]. split; [reflexivity|]. split; assumption. }
  all: set (h1 := upd mh p (set_ref (n_ref (nd mh p) - 1))).
  all: assert (C1 : closed h1) by (apply closed_set_ref; exact C).
  all: assert (L1 : length h1 = length mh) by apply length_upd.
  all: assert (R1 : rng lo hi h1) by (apply rng2_dec; assumption).
  all: cbn [nstate_eqb andb].
  (* StOk: plain step *)
  1: { destruct (n_next (nd mh p)) as [q|] eqn:Eq; cbn [deref IMapBase.bind inb] in *; [|discriminate].
       rewrite get_ok by (rewrite L1; exact Cn). cbn [IMapBase.bind fst].
       set (h3 := upd h1 q (set_ref (n_ref (nd h1 q) + 1))).
       assert (C3 : closed h3) by (apply closed_set_ref; exact C1).
       assert (L3 : length h3 = length mh) by (unfold h3; rewrite length_upd; exact L1).
       assert (R3 : rng2 lo hi q h3) by (apply rng_inc; [exact R1|rewrite L1; exact Cn]).
       rewrite get_ok by (rewrite L3; exact Cn). cbn [IMapBase.bind].
       destruct (nstate_eqb (n_st (nd h3 q)) StDeleted).
       - intros E. eapply IH in E; [|apply cwf_intro; rewrite ?L3; assumption|rewrite L3; exact Cn|exact R3].
         rewrite L3 in E. exact E.
       - intros [= <- <-]. cbn [fst]. split; [apply cwf_intro; rewrite ?L3; assumption|]. split; [exact L3|]. split; assumption. }
  (* StDeleted *)
  destruct (n_ref (nd mh p) - 1 <=? 0).
  - destruct (n_delete h1 p) as [[h2 nh]| |] eqn:Ed; cbn [IMapBase.bind]; try discriminate.
    destruct (n_delete_pres h1 p h2 nh C1 ltac:(rewrite L1; exact Hp) Ed) as [[C2 S2] Inh].
    pose proof (proj1 S2) as L2. rewrite L1 in L2, Inh.
    destruct (n_next (nd mh p)) as [q|] eqn:Eq; cbn [deref IMapBase.bind inb] in *; [|discriminate].
    rewrite get_ok by (rewrite L2; exact Cn). cbn [IMapBase.bind fst].
    set (h3 := upd h2 q (set_ref (n_ref (nd h2 q) + 1))).
    assert (C3 : closed h3) by (apply closed_set_ref; exact C2).
    assert (L3 : length h3 = length mh) by (unfold h3; rewrite length_upd; exact L2).
    assert (R3 : rng2 lo hi q h3) by (apply rng_inc; [eapply rng_same; [exact S2|exact R1]|rewrite L2; exact Cn]).
    assert (Hhd' : (retarget hd nh < length mh)%nat) by (apply retarget_lt; assumption).
    assert (Hpl' : lt_all (length mh) (p :: pl)) by (constructor; assumption).
    rewrite get_ok by (rewrite L3; exact Cn). cbn [IMapBase.bind].
    destruct (nstate_eqb (n_st (nd h3 q)) StDeleted).
    + intros E. eapply IH in E; [|apply cwf_intro; rewrite ?L3; assumption|rewrite L3; exact Cn|exact R3].
      rewrite L3 in E. exact E.
    + intros [= <- <-]. cbn [fst]. split; [apply cwf_intro; rewrite ?L3; assumption|]. split; [exact L3|]. split; assumption.
  - destruct (n_next (nd mh p)) as [q|] eqn:Eq; cbn [deref IMapBase.bind inb] in *; [|discriminate].
    rewrite get_ok by (rewrite L1; exact Cn). cbn [IMapBase.bind fst].
    set (h3 := upd h1 q (set_ref (n_ref (nd h1 q) + 1))).
    assert (C3 : closed h3) by (apply closed_set_ref; exact C1).
    assert (L3 : length h3 = length mh) by (unfold h3; rewrite length_upd; exact L1).
    assert (R3 : rng2 lo hi q h3) by (apply rng_inc; [exact R1|rewrite L1; exact Cn]).
    rewrite get_ok by (rewrite L3; exact Cn). cbn [IMapBase.bind].
    destruct (nstate_eqb (n_st (nd h3 q)) StDeleted).
    + intros E. eapply IH in E; [|apply cwf_intro; rewrite ?L3; assumption|rewrite L3; exact Cn|exact R3].
      rewrite L3 in E. exact E.
    + intros [= <- <-]. cbn [fst]. split; [apply cwf_intro; rewrite ?L3; assumption|]. split; [exact L3|]. split; assumption.
Qed.

(* the same without case splits on ids *)
Ltac nd_same := rewrite ?nd_upd_same by len_side.
Ltac im_run0 := repeat first [ im_step | m_step | progress im_simpl | progress known_rw | progress nd_same ].

Lemma bind_eq {A B} (m : M A) (k : A -> M B) h o : m h = o ->
  bind m k h = match o with Ok (a, h') => k a h' | GoPanic => GoPanic | NoFuel => NoFuel end.
Proof. intros <-. reflexivity. Qed.

(* a call of a generated function whose behaviour is the equation E : callee args h = o *)
Ltac call_with E :=
  match type of E with
  | ?m ?h = ?o => match goal with |- context [bind m ?k h] => rewrite (bind_eq m k h o E) end
  end.
