(** Vocabulary of the C10/C11 tie (coqgen/C10_GenFn*.v): how the GoLite heap
    of the code translated from /repo/container/iterable/map.go represents a
    state of the hand-written pointer model model/IMap.v, model-side frame
    lemmas, the literal [sync.Pool], and the stepping tactics.  Independent of
    the generated file.

    Layout (a FUNCTION of the model state, not just a relation):
      array 0 of the heap       the sync.Pool: the pooled pointers, most recent first
      array x+1                 the node with id x: [state; prev; next; refCnt; key; val]
      pointer to node x         [ptr x = x + 2] (GoLite: array id + 1); nil = 0
      state                     0/1/2 = rlLast/rlOk/rlDeleted ([st_code])
    [gheap pl mh] is the GoLite heap of the model heap [mh] with pool [pl].

    Name clashes: [Ok]/[NoFuel]/[bind]/[heap] are GoLite's here; the model's are
    written [IMapBase.Ok], [IMapBase.Panic], [IMapBase.NoFuel], [IMap.heap]. *)
From Coq Require Import List ZArith Arith Bool Lia.
From GL Require Import lib.IMapBase model.IMap.
From GL Require Import lib.GoLite lib.GoLitePtr.
Import ListNotations.
Open Scope Z_scope.

Notation mheap := IMap.heap (only parsing).
Notation MOk := (@IMapBase.Ok _) (only parsing).
Notation MPanic := (@IMapBase.Panic _) (only parsing).
Notation MNoFuel := (@IMapBase.NoFuel _) (only parsing).

(** * Encoding *)

Definition ptr (x : nat) : Z := Z.of_nat x + 2.
Definition optr (o : option nat) : Z := match o with Some x => ptr x | None => 0 end.
Definition st_code (s : nstate) : Z := match s with StLast => 0 | StOk => 1 | StDeleted => 2 end.
Definition enc (n : node) : list Z :=
  [st_code (n_st n); optr (n_prev n); optr (n_next n); n_ref n; n_key n; n_val n].
Definition gheap (pl : list nat) (mh : mheap) : heap := map ptr pl :: map enc mh.

(* the result of a model function as an outcome of generated code *)
Definition lift {X Y : Type} (r : res X) (f : X -> outcome Y) : outcome Y :=
  match r with
  | IMapBase.Ok x => f x
  | IMapBase.Panic => GoPanic
  | IMapBase.NoFuel => NoFuel
  end.

Lemma ptr_pos x : 0 < ptr x. Proof. unfold ptr. lia. Qed.
Lemma ptr_eqb0 x : (ptr x =? 0) = false. Proof. unfold ptr. lia. Qed.
Lemma ptr_inj x y : ptr x = ptr y -> x = y. Proof. unfold ptr. lia. Qed.
Lemma obj_arr_ptr x : obj_arr (ptr x) = S x. Proof. unfold obj_arr, ptr. lia. Qed.
Lemma optr_some x : optr (Some x) = ptr x. Proof. reflexivity. Qed.

(** * The model heap: nodes by id *)

Definition nd (mh : mheap) (x : nat) : node := nth x mh zero_node.

Lemma nth_error_nd mh x : (x < length mh)%nat -> nth_error mh x = Some (nd mh x).
Proof. intros H. unfold nd. apply nth_error_nth'. exact H. Qed.

Lemma get_ok mh x : (x < length mh)%nat -> get mh x = IMapBase.Ok (nd mh x).
Proof. intros H. unfold get. rewrite nth_error_nd by exact H. reflexivity. Qed.

Lemma get_panic mh x : (length mh <= x)%nat -> get mh x = IMapBase.Panic.
Proof. intros H. unfold get. rewrite (proj2 (nth_error_None mh x) H). reflexivity. Qed.

Lemma length_upd mh x f : length (upd mh x f) = length mh.
Proof. revert x. induction mh as [|n t IH]; intros [|x]; cbn [upd length]; try reflexivity. rewrite IH. reflexivity. Qed.

Lemma nd_upd_same mh x f : (x < length mh)%nat -> nd (upd mh x f) x = f (nd mh x).
Proof.
  unfold nd. revert x. induction mh as [|n t IH]; intros [|x] H; cbn [length] in H; try lia; cbn [upd nth]; [reflexivity|].
  apply IH. lia.
Qed.

Lemma nd_upd_other mh x f y : y <> x -> nd (upd mh x f) y = nd mh y.
Proof.
  unfold nd. revert x y. induction mh as [|n t IH]; intros [|x] [|y] H; cbn [upd nth]; try reflexivity; try congruence.
  apply IH. congruence.
Qed.

Lemma wr_ok mh x f : (x < length mh)%nat -> wr mh x f = IMapBase.Ok (upd mh x f).
Proof. intros H. unfold wr. rewrite get_ok by exact H. reflexivity. Qed.

Lemma upd_upd mh x f g : upd (upd mh x f) x g = upd mh x (fun n => g (f n)).
Proof. revert x. induction mh as [|n t IH]; intros [|x]; cbn [upd]; try reflexivity. rewrite IH. reflexivity. Qed.

Lemma nd_app_old mh l x : (x < length mh)%nat -> nd (mh ++ l) x = nd mh x.
Proof. intros H. unfold nd. apply app_nth1. exact H. Qed.

Lemma nd_app_new mh n : nd (mh ++ [n]) (length mh) = n.
Proof. unfold nd. rewrite app_nth2 by lia. rewrite Nat.sub_diag. reflexivity. Qed.

(** * Well-formedness: no dangling ids (nodes are never freed), counters fit an int *)

Definition inb (len : nat) (o : option nat) : Prop :=
  match o with Some y => (y < len)%nat | None => True end.
Definition nclosed (len : nat) (n : node) : Prop := inb len (n_prev n) /\ inb len (n_next n).
Definition closed (mh : mheap) : Prop := forall x, (x < length mh)%nat -> nclosed (length mh) (nd mh x).
Definition refs_in (B : Z) (mh : mheap) : Prop := forall x, (x < length mh)%nat -> - B <= n_ref (nd mh x) <= B.

Lemma inb_mono a b o : (a <= b)%nat -> inb a o -> inb b o.
Proof. destruct o; cbn; [lia|auto]. Qed.

Lemma closed_upd mh x f : closed mh ->
  ((x < length mh)%nat -> nclosed (length mh) (f (nd mh x))) -> closed (upd mh x f).
Proof.
  intros C Hf y Hy. rewrite length_upd in *. destruct (Nat.eq_dec y x) as [->|Hne].
  - rewrite nd_upd_same by exact Hy. apply Hf. exact Hy.
  - rewrite nd_upd_other by exact Hne. apply C. exact Hy.
Qed.

Lemma closed_app mh : closed mh -> closed (mh ++ [zero_node]).
Proof.
  intros C y Hy. rewrite app_length in *. cbn [length] in *.
  destruct (Nat.eq_dec y (length mh)) as [->|Hne].
  - rewrite nd_app_new. split; exact I.
  - rewrite nd_app_old by lia. destruct (C y ltac:(lia)) as [A B].
    split; [apply (inb_mono (length mh)); [lia|exact A]|apply (inb_mono (length mh)); [lia|exact B]].
Qed.

Lemma refs_in_upd B mh x f : refs_in B mh ->
  ((x < length mh)%nat -> - B <= n_ref (f (nd mh x)) <= B) -> refs_in B (upd mh x f).
Proof.
  intros C Hf y Hy. rewrite length_upd in *. destruct (Nat.eq_dec y x) as [->|Hne].
  - rewrite nd_upd_same by exact Hy. apply Hf. exact Hy.
  - rewrite nd_upd_other by exact Hne. apply C. exact Hy.
Qed.

Lemma refs_in_mono B B' mh : B <= B' -> refs_in B mh -> refs_in B' mh.
Proof. intros H R x Hx. specialize (R x Hx). lia. Qed.

Lemma refs_in_app B mh : 0 <= B -> refs_in B mh -> refs_in B (mh ++ [zero_node]).
Proof.
  intros HB R y Hy. rewrite app_length in Hy. cbn [length] in Hy.
  destruct (Nat.eq_dec y (length mh)) as [->|Hne].
  - rewrite nd_app_new. cbn. lia.
  - rewrite nd_app_old by lia. apply R. lia.
Qed.

(* the counters of two heaps agree *)
Definition same_refs (mh mh' : mheap) : Prop :=
  length mh' = length mh /\ forall y, n_ref (nd mh' y) = n_ref (nd mh y).

Lemma same_refs_refl mh : same_refs mh mh.
Proof. split; reflexivity. Qed.

Lemma same_refs_trans a b c : same_refs a b -> same_refs b c -> same_refs a c.
Proof. intros [L1 R1] [L2 R2]. split; [congruence|]. intros y. rewrite R2. apply R1. Qed.

Lemma same_refs_upd mh x f : (forall n, n_ref (f n) = n_ref n) -> same_refs mh (upd mh x f).
Proof.
  intros Hf. split; [apply length_upd|]. intros y.
  destruct (Nat.eq_dec y x) as [->|Hne]; [|rewrite nd_upd_other by exact Hne; reflexivity].
  destruct (Nat.lt_ge_cases x (length mh)) as [Hx|Hx].
  - rewrite nd_upd_same by exact Hx. apply Hf.
  - unfold nd. rewrite !nth_overflow by (rewrite ?length_upd; lia). reflexivity.
Qed.

Lemma refs_in_same B mh mh' : same_refs mh mh' -> refs_in B mh -> refs_in B mh'.
Proof. intros [L R] H x Hx. rewrite R. apply H. lia. Qed.

(** * The GoLite side: field loads and stores on [gheap] *)

Lemma arr_get_gheap pl mh x : (x < length mh)%nat -> arr_get (gheap pl mh) (S x) = enc (nd mh x).
Proof.
  intros H. unfold arr_get, gheap, nd. cbn [nth].
  rewrite (nth_indep _ [] (enc zero_node)) by (rewrite map_length; exact H). apply map_nth.
Qed.

Lemma gheap_upd pl mh x f : (x < length mh)%nat ->
  arr_set (gheap pl mh) (S x) (enc (f (nd mh x))) = gheap pl (upd mh x f).
Proof.
  intros H. unfold arr_set, gheap. cbn [firstn skipn app]. f_equal. unfold nd.
  revert x H. induction mh as [|n t IH]; intros [|x] H; cbn [length] in H; try lia; cbn [map upd firstn skipn nth app].
  - reflexivity.
  - f_equal. apply IH. lia.
Qed.

Lemma length_gheap pl mh : length (gheap pl mh) = S (length mh).
Proof. unfold gheap. cbn [length]. rewrite map_length. reflexivity. Qed.

Lemma gheap_new pl mh : gheap pl mh ++ [repeat 0 6] = gheap pl (mh ++ [zero_node]).
Proof. unfold gheap. rewrite map_app. reflexivity. Qed.

Section Steps.
Context {B : Type}.

Lemma bind_ld x k (kk : Z -> M B) pl mh : (x < length mh)%nat ->
  bind (fld_load (ptr x) k) kk (gheap pl mh) = kk (nth k (enc (nd mh x)) 0) (gheap pl mh).
Proof.
  intros H. rewrite bind_fld_load by apply ptr_pos. rewrite obj_arr_ptr, arr_get_gheap by exact H. reflexivity.
Qed.

Lemma bind_st x k v (kk : unit -> M B) pl mh f : (x < length mh)%nat ->
  zsplice (enc (nd mh x)) (Z.of_nat k) [v] = enc (f (nd mh x)) ->
  bind (fld_store (ptr x) k v) kk (gheap pl mh) = kk tt (gheap pl (upd mh x f)).
Proof.
  intros H E. rewrite bind_fld_store by apply ptr_pos. rewrite obj_arr_ptr, arr_get_gheap by exact H.
  rewrite E, gheap_upd by exact H. reflexivity.
Qed.

Lemma bind_new (kk : Z -> M B) pl mh :
  bind (obj_new 6) kk (gheap pl mh) = kk (ptr (length mh)) (gheap pl (mh ++ [zero_node])).
Proof.
  rewrite bind_obj_new, length_gheap, gheap_new. f_equal. unfold ptr. lia.
Qed.

End Steps.

(** * The literal sync.Pool: array 0 of the heap; the handle is 0 *)

Definition lit_Put (hd p : Z) : M unit := fun h =>
  Ok (tt, arr_set h (Z.to_nat hd) (p :: arr_get h (Z.to_nat hd))).

(* Get under the choice [c] of the oracle: the c-th pooled pointer, else what
   Pool.New does: a fresh zeroed object *)
Definition lit_Get (c : option nat) (hd : Z) : M Z := fun h =>
  let fresh := Ok (Z.of_nat (length h) + 1, h ++ [repeat 0 6]) in
  match c with
  | Some n =>
      match nth_error (arr_get h (Z.to_nat hd)) n with
      | Some p => Ok (p, arr_set h (Z.to_nat hd) (remove_nth n (arr_get h (Z.to_nat hd))))
      | None => fresh
      end
  | None => fresh
  end.

(* what the tie assumes of the parameters that stand for the pool *)
Definition put_spec (pool_Put : Z -> Z -> M unit) : Prop :=
  forall pl mh x, pool_Put 0 (ptr x) (gheap pl mh) = Ok (tt, gheap (x :: pl) mh).
Definition get_spec (pool_Get : option nat -> Z -> M Z) : Prop :=
  forall c pl mh, pool_Get c 0 (gheap pl mh) =
    let '(x, mh', pl') := pool_get mh pl c in Ok (ptr x, gheap pl' mh').

Lemma lit_put_spec : put_spec lit_Put.
Proof. intros pl mh x. reflexivity. Qed.

Lemma remove_nth_map {A C} (f : A -> C) n l : remove_nth n (map f l) = map f (remove_nth n l).
Proof. revert n. induction l as [|a t IH]; intros [|n]; cbn [remove_nth map]; try reflexivity. rewrite IH. reflexivity. Qed.

Lemma lit_get_spec : get_spec lit_Get.
Proof.
  intros c pl mh. unfold lit_Get, pool_get.
  assert (F : Ok (Z.of_nat (length (gheap pl mh)) + 1, gheap pl mh ++ [repeat 0 6]) =
              Ok (ptr (length mh), gheap pl (mh ++ [zero_node]))).
  { rewrite length_gheap, gheap_new. f_equal. f_equal. unfold ptr. lia. }
  destruct c as [n|]; [|exact F].
  change (arr_get (gheap pl mh) (Z.to_nat 0)) with (map ptr pl).
  rewrite nth_error_map. destruct (nth_error pl n) as [x|]; cbn [option_map]; [|exact F].
  rewrite remove_nth_map. reflexivity.
Qed.

(** * Model-side frame lemmas: what [n_delete] / [n_putval] preserve *)

Lemma n_delete_pres mh x mh' o : closed mh -> (x < length mh)%nat ->
  n_delete mh x = IMapBase.Ok (mh', o) ->
  same_refs mh mh' /\ closed mh' /\ inb (length mh) o.
Proof.
  intros C Hx. unfold n_delete. rewrite get_ok by exact Hx. cbn [IMapBase.bind].
  pose proof (C x Hx) as [Cp Cn]. set (n := nd mh x) in *.
  assert (Sv : same_refs mh (upd mh x (set_val 0))) by (apply same_refs_upd; reflexivity).
  assert (Cv : closed (upd mh x (set_val 0))).
  { apply closed_upd; [exact C|]. intros _. fold n. split; assumption. }
  destruct (n_st n); [intros [= <- <-]; split; [apply same_refs_refl|]; split; [exact C|exact I]| |].
  all: destruct (n_ref n =? 0).
  all: try (intros [= <- <-]; split; [|split; [|exact I]];
            [eapply same_refs_trans; [exact Sv|apply same_refs_upd; reflexivity]
            |apply closed_upd; [exact Cv|]; intros _; rewrite nd_upd_same by exact Hx; fold n; split; assumption]).
  all: destruct (n_prev n) as [p|] eqn:Ep; destruct (n_next n) as [q|] eqn:Eq; cbn [inb deref IMapBase.bind] in *;
    rewrite ?wr_ok by (rewrite ?length_upd; assumption); cbn [IMapBase.bind];
    rewrite ?wr_ok by (rewrite ?length_upd; assumption); cbn [IMapBase.bind];
    try discriminate; intros [= <- <-].
  all: (split; [|split; [|cbn [inb]; try assumption; try exact I]]).
  all: try (repeat (eapply same_refs_trans; [|apply same_refs_upd; reflexivity]); exact Sv).
  all: repeat (apply closed_upd; [|intros _]); try exact Cv; rewrite ?length_upd.
  all: repeat match goal with
       | |- context [nd (upd ?h ?z ?f) ?y] =>
           destruct (Nat.eq_dec y z) as [->|?];
           [rewrite (nd_upd_same h z f) by (rewrite ?length_upd; assumption)
           |rewrite (nd_upd_other h z f y) by assumption]
       end.
  all: try (split; cbn [n_prev n_next set_prev set_next set_val set_st inb]; try exact I; try assumption;
            try (apply C; assumption); try (fold n; rewrite ?Ep, ?Eq; cbn [inb]; assumption)).
Qed.
