(** C12 tie: the generated [futures.Push] (coqgen/Gen_timeout.v) refines the model's [f_push]. *)
From Coq Require Import List ZArith NArith Bool Lia.
From GL Require Import lib.GoLite model.THeap proofs.C12_THeap.
From GLGEN Require Import TM_GenVocab Gen_timeout.
Import ListNotations.
Open Scope Z_scope.

Theorem gen_push D h fs m x : rel D h fs m -> incl (arr m) D -> In x D ->
  s_len fs + 1 < 9223372036854775808 ->
  post (Gen.futures_Push fs (ptr x) h) (fun fs' h' => rel D h' fs' (f_push m x)).
Proof.
  intros R S Hx Hm. rel_facts R.
  unfold Gen.futures_Push, Gen.futures_Len.
  obj_run; obj_done; (eapply rel_ext; [eassumption|]); unfold f_push; rewrite <- L; apply meq_refl.
Qed.

Print Assumptions gen_push.
