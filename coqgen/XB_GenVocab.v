(** Vocabulary and model-side lemmas shared by the proofs over the generated
    functions of xbinary/xbinary.go (coqgen/C15_GenFn*.v, C16_GenFn*.v).  Nothing
    here depends on generated code. *)
From Coq Require Import List NArith ZArith Arith Lia Bool.
From Coq Require Import ZifyBool ZifyN ZifyNat.
From GL Require Import lib.GoLite model.XBinary proofs.C15_XBinary.
Import ListNotations.
Open Scope Z_scope.
Ltac Zify.zify_post_hook ::= Z.div_mod_to_equations.

Definition zs (l : list N) : list Z := map Z.of_N l.

Definition ns (l : list Z) : list N := map Z.to_N l.

Definition byte_list (l : list Z) : Prop := Forall (fun b => 0 <= b < 256) l.

Definition err_of (w : wres) : error := match w with WOk => ENil | _ => Err end.

(* what a Marshal function does according to the model result r: it returns
   (n, err) and has stored the bytes [snd r] at the front of buf; nothing else
   in the heap changes *)

Definition wr_result (r : wres * list N) (h : heap) (buf : gslice) : outcome ((Z * error) * heap) :=
  Ok ((Z.of_nat (w_n r), err_of (fst r)), sl_put h buf 0 (zs (snd r))).

(* what a scalar Unmarshal function does according to the model result *)

Definition rd_result (r : dres N) (h : heap) : outcome ((Z * Z * error) * heap) :=
  match r with
  | DOk n v => Ok ((Z.of_nat n, Z.of_N v, ENil), h)
  | DErr => Ok ((0, 0, Err), h)
  | DPanic => GoPanic
  end.

Lemma zs_ns l : byte_list l -> zs (ns l) = l.
Proof.
  unfold zs, ns. induction 1 as [|b t Hb _ IH]; [reflexivity|].
  cbn [map]. rewrite IH. f_equal. lia.
Qed.

Lemma length_ns l : length (ns l) = length l.
Proof. apply map_length. Qed.

Lemma length_zs l : length (zs l) = length l.
Proof. apply map_length. Qed.

Lemma zlen_zs l : zlen (zs l) = Z.of_nat (length l).
Proof. unfold zlen. rewrite length_zs. reflexivity. Qed.

Lemma nth_ns l i : nth i (ns l) 0%N = Z.to_N (nth i l 0).
Proof. unfold ns. apply (map_nth Z.to_N l 0 i). Qed.

Ltac go_ret := unfold ret.

Lemma byte_list_nonneg l : byte_list l -> Forall (fun b => 0 <= b) l.
Proof. apply Forall_impl. intros; lia. Qed.

Lemma zs_ns_nonneg l : Forall (fun b => 0 <= b) l -> zs (ns l) = l.
Proof.
  unfold zs, ns. induction 1 as [|b t Hb _ IH]; [reflexivity|].
  cbn [map]. rewrite IH. f_equal. lia.
Qed.

(* encoding/binary.BigEndian as modelled in GoLite = the model's put_be/get_be *)

Lemma be_bytes_put k v : 0 <= v -> be_bytes k v = zs (put_be k (Z.to_N v)).
Proof.
  intros Hv. induction k as [|k IH]; [reflexivity|].
  cbn [be_bytes put_be zs map]. fold (zs (put_be k (Z.to_N v))). rewrite <- IH. f_equal.
  rewrite N2Z.inj_mod, N2Z_shiftr, N2Z.inj_mul, nat_N_Z, Z2N.id by exact Hv. reflexivity.
Qed.

Lemma be_val_get l : Forall (fun b => 0 <= b) l -> be_val l = Z.of_N (get_be (ns l)).
Proof.
  induction 1 as [|b t Hb _ IH]; [reflexivity|].
  cbn [be_val get_be ns map]. fold (ns t). rewrite N2Z_lor, N2Z_shiftl, <- IH.
  rewrite N2Z.inj_mul, nat_N_Z, length_ns, Z2N.id by exact Hb. reflexivity.
Qed.

Lemma firstn_ns k l : firstn k (ns l) = ns (firstn k l).
Proof. unfold ns. apply firstn_map. Qed.

Lemma Forall_firstn_z {P : Z -> Prop} k l : Forall P l -> Forall P (firstn k l).
Proof.
  revert l. induction k as [|k IH]; intros l H; [constructor|].
  destruct H as [|b t Hb Ht]; [constructor|]. cbn [firstn]. constructor; [exact Hb|apply IH; exact Ht].
Qed.

(* bit operations of the two sides as arithmetic *)

Lemma N_land127 v : N.land v 127 = (v mod 128)%N.
Proof. exact (land127 v). Qed.

Lemma Z_to_N_shr7 v : 0 <= v -> Z.to_N (shr v 7) = N.shiftr (Z.to_N v) 7.
Proof.
  intros Hv. unfold shr. apply N2Z.inj. rewrite N2Z_shiftr, !Z2N.id; try lia.
  - reflexivity.
  - rewrite Z.shiftr_div_pow2 by lia. apply Z.div_pos; lia.
Qed.

(* 128 | byte(v & 127) on both sides *)

Lemma cont_byte v : 0 <= v ->
  Z.lor 128 (u8 (Z.land v 127)) = Z.of_N (N.lor 128 (N.land (Z.to_N v) 127)).
Proof.
  intros Hv. rewrite N2Z_lor, N2Z_land, Z2N.id by exact Hv.
  change (Z.of_N 128) with 128. change (Z.of_N 127) with 127.
  rewrite u8_small; [reflexivity|]. rewrite zland127. lia.
Qed.

Lemma marshal_uint_no_fuel v room : (v < 2^64)%N -> fst (marshal_uint v room) <> WFuel.
Proof.
  intros Hv. rewrite (marshal_uint_buffer v room Hv).
  destruct (room <? length (enc_uint v))%nat; cbn [fst]; congruence.
Qed.

(* uint(x) << s as modelled in GoLite = the model's shl64 *)

Lemma shl_u64_N x s : 0 <= x -> 0 <= s ->
  shl u64 64 x s = Z.of_N (shl64 (Z.to_N x) (Z.to_N s)).
Proof.
  intros Hx Hs. unfold shl, shl64.
  destruct (Z.leb_spec 64 s); destruct (N.leb_spec 64 (Z.to_N s)); try lia.
  unfold u64, two64. rewrite N2Z.inj_mod, N2Z_shiftl, !Z2N.id by lia. reflexivity.
Qed.

(* res | uint(b&127) << shft on both sides *)

Lemma acc_byte res b shft : 0 <= res -> 0 <= shft -> 0 <= b ->
  Z.lor res (shl u64 64 (u64 (Z.land b 127)) shft) =
  Z.of_N (N.lor (Z.to_N res) (shl64 (N.land (Z.to_N b) 127) (Z.to_N shft))).
Proof.
  intros Hr Hs Hb.
  assert (Hm : 0 <= Z.land b 127 < 128) by (rewrite zland127; lia).
  rewrite u64_small by lia. rewrite shl_u64_N by lia.
  rewrite N2Z_lor, Z2N.id by lia. do 3 f_equal.
  apply N2Z.inj. rewrite N2Z_land, !Z2N.id by lia. reflexivity.
Qed.

Lemma skipn_cons_nth (l : list N) i b tl : skipn i l = b :: tl ->
  nth i l 0%N = b /\ skipn (S i) l = tl /\ (i < length l)%nat.
Proof.
  revert l. induction i as [|i IH]; intros l H.
  - destruct l; [discriminate|]. cbn in H. injection H as -> ->. cbn. repeat split. lia.
  - destruct l as [|x t]; [discriminate|]. cbn [skipn] in H.
    destruct (IH t H) as (A & B & C). cbn [nth skipn length]. repeat split; [exact A|exact B|lia].
Qed.

Lemma skipn_nil_len (l : list N) i : skipn i l = [] -> (length l <= i)%nat.
Proof.
  revert l. induction i as [|i IH]; intros l H.
  - cbn in H. subst. cbn. lia.
  - destruct l as [|x t]; [cbn; lia|]. cbn [skipn length] in *. apply IH in H. lia.
Qed.

Lemma byte_list_znth l i : byte_list l -> 0 <= i < zlen l -> 0 <= znth l i < 256.
Proof.
  intros Hb Hi. unfold znth, zlen, byte_list in *.
  rewrite Forall_forall in Hb. apply Hb. apply nth_In. lia.
Qed.

Lemma marshal_uint_cases v room : (v < 2^64)%N ->
  (marshal_uint v room = (WOk, enc_uint v) /\ (length (enc_uint v) <= room)%nat) \/
  (exists bs, marshal_uint v room = (WErr, bs)).
Proof.
  intros Hv. rewrite (marshal_uint_buffer v room Hv).
  destruct (Nat.ltb_spec room (length (enc_uint v))); [right; eexists; reflexivity|left; split; [reflexivity|lia]].
Qed.

(* what UnmarshalBytes / UnmarshalString do according to the model result: the
   returned slice is the sub-slice buf[v_off : v_off+len] of the input
   (newBuf=false) or a fresh array holding the same bytes (newBuf=true) *)

Definition rdb_result (r : dres bview) (h : heap) (buf : gslice)
  : outcome ((Z * gslice * error) * heap) :=
  match r with
  | DOk n v =>
      let ln := Z.of_nat (length (v_data v)) in
      if v_alias v
      then Ok ((Z.of_nat n,
                mkSl (s_arr buf) (s_off buf + Z.of_nat (v_off v)) ln (s_cap buf - Z.of_nat (v_off v)),
                ENil), h)
      else Ok ((Z.of_nat n, mkSl (length h) 0 ln ln, ENil), h ++ [zs (v_data v)])
  | DErr => Ok ((0, nil_slice, Err), h)
  | DPanic => GoPanic
  end.

Lemma skipn_ns k l : skipn k (ns l) = ns (skipn k l).
Proof. unfold ns. apply skipn_map. Qed.

Lemma byte_list_zsub l lo n : byte_list l -> byte_list (zsub l lo n).
Proof.
  intros H. unfold zsub, byte_list in *. apply Forall_firstn_z.
  rewrite Forall_forall in *. intros x Hx. apply H.
  rewrite <- (firstn_skipn (Z.to_nat lo) l). apply in_or_app. right. exact Hx.
Qed.

Lemma ns_zs l : ns (zs l) = l.
Proof. unfold ns, zs. rewrite map_map. rewrite <- (map_id l) at 2. apply map_ext. intros; apply N2Z.id. Qed.

Lemma ns_app a b : ns (a ++ b) = ns a ++ ns b.
Proof. apply map_app. Qed.

Lemma byte_list_zs l : wf_bytes l = true -> byte_list (zs l).
Proof.
  unfold wf_bytes, byte_list, zs. intros H. rewrite forallb_forall in H.
  apply Forall_forall. intros x Hx. apply in_map_iff in Hx. destruct Hx as (b & <- & Hb).
  specialize (H b Hb). unfold wf_byte in H. lia.
Qed.

Lemma byte_list_app a b : byte_list a -> byte_list b -> byte_list (a ++ b).
Proof. intros Ha Hb. apply Forall_app. split; assumption. Qed.

Lemma byte_list_skipn k l : byte_list l -> byte_list (skipn k l).
Proof.
  unfold byte_list. intros H. rewrite Forall_forall in *. intros x Hx. apply H.
  rewrite <- (firstn_skipn k l). apply in_or_app. right. exact Hx.
Qed.

(* the buffer after a Marshal call that stored [d] at its front *)

Lemma sl_get_after_put h buf d : wf_slice h buf -> zlen d <= s_len buf ->
  sl_get (sl_put h buf 0 d) buf = d ++ skipn (length d) (sl_get h buf).
Proof.
  intros W Hd. rewrite sl_get_put_same by (try exact W; lia). unfold zsplice.
  cbn [Z.to_nat firstn app Nat.add]. reflexivity.
Qed.

Lemma zsub_app_mid (a b c : list Z) : zsub (a ++ b ++ c) (zlen a) (zlen b) = b.
Proof.
  unfold zsub, zlen. rewrite !Nat2Z.id. rewrite skipn_app, skipn_all, Nat.sub_diag. cbn [app skipn].
  rewrite firstn_app, firstn_all, Nat.sub_diag. cbn [firstn]. apply app_nil_r.
Qed.
