(** C10/C11, translator tie, run level: [Map.First] against [i_first], the
    invariant of the pointer model that the per-function ties need ([winv]: no
    dangling ids, counters within a bound that grows by one per call), its
    preservation by every operation, the glue [gen_step] / [gen_run] that drives
    the GENERATED code (Gen_imap.v) by a history of API calls, and the headline

      gen_imap_refines_omap : the outputs of the generated code on every
      well-formed history (shorter than 2^60 calls), under every pool oracle,
      are those of the abstract ordered map [OMap]

    by composition with [imap_step_sim] / [imap_refines_omap]
    (coq/proofs/C10_Main.v).  The side conditions of the per-function ties
    that are not part of [winv] ([~ In (last s) (pool s)]) are discharged from
    the representation invariant [R] of the C10 proofs. *)
(* model/IMap.v and lib/GoLite.v both define the monadic notation; GoLite's wins here *)
Set Warnings "-notation-overridden,-parsing".
From Coq Require Import List ZArith Arith Bool Lia.
From GL Require Import lib.IMapBase model.IMap model.Chain spec.OMap
  proofs.C10_Assoc proofs.C10_Cells proofs.C10_Next proofs.C10_R2 proofs.C10_ChainSim
  proofs.C10_Heap proofs.C10_L1 proofs.C10_Repr proofs.C10_Main.
From GL Require Import lib.GoLite lib.GoLitePtr.
From GLGEN Require Import IM_GenVocab Gen_imap C10_GenFn_node C10_GenFn_walk C10_GenFn.
Import ListNotations.
Open Scope Z_scope.

(** * The invariant *)

Definition winv (B : Z) (s : imap) : Prop :=
  swf s /\ vals_in (length (heap_of s)) (iters s) /\ refs_in B (heap_of s) /\ 0 <= B.

Lemma two62' : 2 ^ 62 = 4611686018427387904. Proof. reflexivity. Qed.

Lemma vals_in_mono a b vs : (a <= b)%nat -> vals_in a vs -> vals_in b vs.
Proof. intros H V. eapply Forall_impl; [|exact V]. cbn. intros; lia. Qed.

Lemma vals_in_aset len k x vs : (x < len)%nat -> vals_in len vs -> vals_in len (aset k x vs).
Proof.
  intros Hx V. unfold aset. induction V as [|[k' y] t Hy Ht IH]; cbn [map fst]; [constructor|].
  constructor; [destruct (k' =? k); cbn [snd]; assumption|exact IH].
Qed.

Lemma vals_in_aremove len k vs : vals_in len vs -> vals_in len (aremove k vs).
Proof.
  intros V. unfold aremove. induction V as [|[k' y] t Hy Ht IH]; cbn [filter fst]; [constructor|].
  destruct (negb (k' =? k)); [constructor; assumption|exact IH].
Qed.

Lemma lt_all_mono a b l : (a <= b)%nat -> lt_all a l -> lt_all b l.
Proof. intros H V. eapply Forall_impl; [|exact V]. cbn. intros; lia. Qed.

Lemma refs_in_set B mh p v : refs_in B mh -> - (B + 1) <= v <= B + 1 -> refs_in (B + 1) (upd mh p (set_ref v)).
Proof.
  intros R Hv. apply refs_in_upd; [eapply refs_in_mono; [|exact R]; lia|]. intros _. cbn [n_ref set_ref]. exact Hv.
Qed.

(* the state after a walking function *)
Lemma winv_core B B' s c its :
  winv B s -> cwf c -> length (fst (fst c)) = length (heap_of s) -> refs_in B' (fst (fst c)) -> 0 <= B' ->
  vals_in (length (heap_of s)) its -> winv B' (with_core s c its).
Proof.
  intros ((W & Hl & Hv) & Hi & R & HB) Wc L Rc HB' Hits. destruct c as [[h hd] pl]. cbn [fst] in *.
  unfold winv, swf, with_core. cbn [heap_of head pool last vals iters]. rewrite L. auto 8.
Qed.

Lemma gmap_with_core s h hd pl its :
  gmap (with_core s (h, hd, pl) its) = gm (encv (vals s)) hd (ptr (last s)).
Proof. reflexivity. Qed.

Lemma sheap_with_core lg s h hd pl its : sheap lg (with_core s (h, hd, pl) its) = gheap lg pl h.
Proof. reflexivity. Qed.

(* walking from a state with counters within B *)
Lemma refs_rng2 B mh p : refs_in B mh -> rng2 (- B - 1) B p mh.
Proof. intros R. apply rng_rng2. intros y Hy. specialize (R y Hy). lia. Qed.

Lemma rng2_refs B mh p : rng2 (- B - 1) B p mh -> refs_in (B + 1) mh.
Proof. intros R y Hy. pose proof (rng2_rng _ _ _ _ R y Hy). lia. Qed.

Lemma i_release_pres mh hd pl p B c' : cwf (mh, hd, pl) -> (p < length mh)%nat -> refs_in B mh ->
  i_release (mh, hd, pl) p = IMapBase.Ok c' ->
  cwf c' /\ length (fst (fst c')) = length mh /\ refs_in (B + 1) (fst (fst c')).
Proof.
  intros (C & Hhd & Hpl) Hp R. unfold i_release. rewrite get_ok by exact Hp. cbn [IMapBase.bind].
  pose proof (R p Hp) as Rp.
  set (h1 := upd mh p (set_ref (n_ref (nd mh p) - 1))).
  assert (C1 : closed h1) by (apply closed_set_ref; exact C).
  assert (L1 : length h1 = length mh) by apply length_upd.
  assert (R1 : refs_in (B + 1) h1) by (apply refs_in_set; [exact R|lia]).
  destruct (nstate_eqb (n_st (nd mh p)) StDeleted).
  - destruct (n_delete h1 p) as [[h2 nh]| |] eqn:Ed; cbn [IMapBase.bind]; try discriminate.
    destruct (n_delete_pres h1 p h2 nh C1 ltac:(rewrite L1; exact Hp) Ed) as [[C2 S2] Inh].
    pose proof (proj1 S2) as L2. rewrite L1 in L2, Inh.
    rewrite get_ok by (rewrite L2; exact Hp). cbn [IMapBase.bind]. intros [= <-]. cbn [fst].
    split; [|split; [exact L2|eapply refs_in_same; [exact S2|exact R1]]].
    apply cwf_intro; rewrite ?L2; [exact C2|apply retarget_lt; assumption|].
    destruct (n_ref (nd h2 p) =? 0); [constructor; assumption|exact Hpl].
  - intros [= <-]. cbn [fst]. split; [apply cwf_intro; rewrite ?L1; assumption|]. split; assumption.
Qed.

Definition enc_it (p : nat) : Gen.mapIterator := Gen.mk_mapIterator (ptr p).
Definition next_out (e : Gen.MapEntry) (ok : bool) : out :=
  OutNext (if ok then Some (Gen.MapEntry_Key e, Gen.MapEntry_Value e) else None).
Definition first_out (k : Z) (ok : bool) : out := OutFirst (if ok then Some k else None).

Section Run.

Variable lg : list Z.   (* the log array: untouched by the map code *)

Variable pool_Put : Z -> Z -> M unit.
Variable pool_Get : option nat -> Z -> M Z.
Hypothesis Hput : put_spec pool_Put.
Hypothesis Hget : get_spec pool_Get.

(** * The operations on a model state: refinement and preservation together *)

Lemma S_iterator s name B : winv B s -> B + 1 <= 2 ^ 62 ->
  exists s1, i_iterator s name = IMapBase.Ok (s1, OutUnit) /\
    Gen.Map_Iterator (gmap s) (sheap lg s) = Ok (enc_it (head s), sheap lg s1) /\
    gmap s1 = gmap s /\ iters s1 = (name, head s) :: iters s /\ allocs s1 = allocs s /\
    winv (B + 1) s1.
Proof.
  intros (W & Hi & R & HB) Hb. pose proof W as ((C & Hhd & Hpl) & Hl & Hv).
  rewrite (gen_Iterator_refines lg s name B W R ltac:(lia)).
  unfold i_iterator. rewrite get_ok by exact Hhd. cbn [IMapBase.bind lift fst].
  eexists. split; [reflexivity|]. split; [reflexivity|]. split; [reflexivity|]. split; [reflexivity|].
  split; [reflexivity|]. pose proof (R _ Hhd) as Rh.
  unfold winv, swf. cbn [heap_of head pool last vals iters]. rewrite !length_upd.
  split; [split; [apply cwf_intro; rewrite ?length_upd; try assumption; apply closed_set_ref; exact C|split; assumption]|].
  split; [constructor; assumption|]. split; [apply refs_in_set; [exact R|lia]|lia].
Qed.

Lemma S_hasnext s name p B : winv B s -> B + 1 <= 2 ^ 62 -> alookup name (iters s) = Some p ->
  match i_hasnext s name with
  | IMapBase.Ok (s', o) => exists p' b,
      Gen.mapIterator_HasNext pool_Put (gmap s) (enc_it p) (sheap lg s) = Ok ((gmap s', enc_it p', b), sheap lg s') /\
      o = OutBool b /\ iters s' = aset name p' (iters s) /\ allocs s' = allocs s /\ winv (B + 1) s'
  | IMapBase.Panic => Gen.mapIterator_HasNext pool_Put (gmap s) (enc_it p) (sheap lg s) = GoPanic
  | IMapBase.NoFuel => True
  end.
Proof.
  rewrite two62'. intros Wi Hb Ea. pose proof Wi as (W & Hi & R & HB). pose proof W as (Wc & Hl & Hv).
  pose proof (alookup_in _ _ _ _ Hi Ea) as Hp.
  pose proof (gen_HasNext_refines lg pool_Put Hput (encv (vals s)) (ptr (last s)) (heap_of s) (head s) (pool s) p
                (- B - 1) B Wc Hp (refs_rng2 B (heap_of s) p R) ltac:(lia) ltac:(lia)) as G.
  pose proof (i_getvalue_pres (heap_of s) (head s) (pool s) p (- B - 1) B) as P.
  unfold i_hasnext, core_of. rewrite Ea. cbn [deref IMapBase.bind].
  destruct (i_getvalue (heap_of s, head s, pool s) p) as [[[[h1 hd1] pl1] p1]| |]; cbn [hn_rel IMapBase.bind fst snd] in *;
    [|exact G|exact I].
  destruct (P _ _ Wc Hp (refs_rng2 B (heap_of s) p R) eq_refl) as (W1 & L1 & Hp1 & R1). cbn [fst] in L1, R1.
  rewrite get_ok by (rewrite L1; exact Hp1). cbn [IMapBase.bind].
  exists p1, (negb (nstate_eqb (n_st (nd h1 p1)) StLast)).
  split; [exact G|]. split; [reflexivity|]. split; [reflexivity|]. split; [reflexivity|].
  apply (winv_core B); [exact Wi|exact W1|exact L1|apply (rng2_refs B h1 p1); exact R1|lia|apply vals_in_aset; assumption].
Qed.

Lemma S_next s name p B : winv B s -> B + 1 <= 2 ^ 62 -> alookup name (iters s) = Some p ->
  match i_itnext s name with
  | IMapBase.Ok (s', o) => exists p' e ok,
      Gen.mapIterator_Next pool_Put (gmap s) (enc_it p) (sheap lg s) = Ok ((gmap s', enc_it p', e, ok), sheap lg s') /\
      o = next_out e ok /\ iters s' = aset name p' (iters s) /\ allocs s' = allocs s /\ winv (B + 1) s'
  | IMapBase.Panic => Gen.mapIterator_Next pool_Put (gmap s) (enc_it p) (sheap lg s) = GoPanic
  | IMapBase.NoFuel => True
  end.
Proof.
  rewrite two62'. intros Wi Hb Ea. pose proof Wi as (W & Hi & R & HB). pose proof W as (Wc & Hl & Hv).
  pose proof (alookup_in _ _ _ _ Hi Ea) as Hp.
  pose proof (gen_Next_refines lg pool_Put Hput (encv (vals s)) (ptr (last s)) (heap_of s) (head s) (pool s) p
                (- B - 1) B Wc Hp (refs_rng2 B (heap_of s) p R) ltac:(lia) ltac:(lia)) as G.
  pose proof (i_getvalue_pres (heap_of s) (head s) (pool s) p (- B - 1) B) as P.
  unfold i_itnext, core_of. rewrite Ea. cbn [deref IMapBase.bind]. unfold nxt_rel in G.
  destruct (i_getvalue (heap_of s, head s, pool s) p) as [[[[h1 hd1] pl1] p1]| |]; cbn [IMapBase.bind fst snd] in *;
    [|exact G|exact I].
  destruct (P _ _ Wc Hp (refs_rng2 B (heap_of s) p R) eq_refl) as (W1 & L1 & Hp1 & R1). cbn [fst] in L1, R1.
  assert (Hp1' : (p1 < length h1)%nat) by (rewrite L1; exact Hp1).
  rewrite get_ok by exact Hp1'. cbn [IMapBase.bind]. cbv zeta.
  pose proof (i_next_pres (fuel_of h1) h1 hd1 pl1 p1 (- B - 1) B) as P2.
  destruct (i_next (fuel_of h1) (h1, hd1, pl1) p1) as [[[[h2 hd2] pl2] p2]| |]; cbn [IMapBase.bind fst snd] in *;
    [|exact G|exact I].
  destruct (P2 _ _ W1 Hp1' R1 eq_refl) as (W2 & L2 & Hp2 & R2). cbn [fst] in L2, R2.
  exists p2, (Gen.mk_MapEntry (n_key (nd h1 p1)) (n_val (nd h1 p1))), (negb (nstate_eqb (n_st (nd h1 p1)) StLast)).
  split; [exact G|]. split; [unfold next_out; cbn [Gen.MapEntry_Key Gen.MapEntry_Value]; reflexivity|].
  split; [reflexivity|]. split; [reflexivity|].
  apply (winv_core B); [exact Wi|exact W2|cbn [fst]; congruence|apply (rng2_refs B h2 p2); exact R2|lia|].
  apply vals_in_aset; [rewrite <- L1; exact Hp2|exact Hi].
Qed.

Lemma S_close s name p B : winv B s -> B + 1 <= 2 ^ 62 -> alookup name (iters s) = Some p ->
  match i_close s name with
  | IMapBase.Ok (s', o) =>
      Gen.mapIterator_Close pool_Put (gmap s) (enc_it p) (sheap lg s) =
        Ok ((gmap s', Gen.mk_mapIterator 0, ENil), sheap lg s') /\
      o = OutUnit /\ iters s' = aremove name (iters s) /\ allocs s' = allocs s /\ winv (B + 1) s'
  | IMapBase.Panic => Gen.mapIterator_Close pool_Put (gmap s) (enc_it p) (sheap lg s) = GoPanic
  | IMapBase.NoFuel => True
  end.
Proof.
  intros Wi Hb Ea. pose proof Wi as (W & Hi & R & HB). pose proof W as (Wc & Hl & Hv).
  pose proof (alookup_in _ _ _ _ Hi Ea) as Hp.
  pose proof (gen_Close_refines lg pool_Put Hput (encv (vals s)) (ptr (last s)) (heap_of s) (head s) (pool s) p
                B Wc Hp R ltac:(lia)) as G.
  pose proof (i_release_pres (heap_of s) (head s) (pool s) p B) as P.
  unfold i_close, core_of. rewrite Ea. cbn [deref IMapBase.bind].
  destruct (i_release (heap_of s, head s, pool s) p) as [[[h1 hd1] pl1]| |]; cbn [lift IMapBase.bind fst snd] in *;
    [|exact G|exact I].
  destruct (P _ Wc Hp R eq_refl) as (W1 & L1 & R1). cbn [fst] in L1, R1.
  split; [exact G|]. split; [reflexivity|]. split; [reflexivity|]. split; [reflexivity|].
  apply (winv_core B); [exact Wi|exact W1|exact L1|exact R1|lia|apply vals_in_aremove; exact Hi].
Qed.

(* Add / Remove / Get: what the model does to the state *)
Lemma pool_get_refs B mh pl c x mh' pl' : refs_in B mh -> 0 <= B -> pool_get mh pl c = (x, mh', pl') -> refs_in B mh'.
Proof.
  intros R HB. unfold pool_get.
  assert (F : (length mh, mh ++ [zero_node], pl) = (x, mh', pl') -> refs_in B mh')
    by (intros [= <- <- <-]; apply refs_in_app; assumption).
  destruct c as [n|]; [|exact F]. destruct (nth_error pl n); [|exact F]. intros [= <- <- <-]. exact R.
Qed.

Lemma i_add_pres s k v c B s' o : winv B s -> i_add s k v c = IMapBase.Ok (s', o) ->
  iters s' = iters s /\
  ((o = OutErr /\ allocs s' = allocs s) \/ (o = OutUnit /\ allocs s' = S (allocs s))) /\ winv B s'.
Proof.
  intros Wi. pose proof Wi as (((C & Hhd & Hpl) & Hl & Hv) & Hi & R & HB). unfold i_add.
  destruct (alookup k (vals s)); [intros [= <- <-]; auto|].
  destruct (pool_get (heap_of s) (pool s) c) as [[new h1] pl1] eqn:Ep.
  destruct (pool_get_pres _ _ _ _ _ _ C Hpl Ep) as (C1 & Hn & Hle & Hpl1 & _).
  pose proof (pool_get_refs _ _ _ _ _ _ _ R HB Ep) as R1.
  destruct (n_putval h1 (last s) k v new) as [[h2 r]| |] eqn:Ev; cbn [IMapBase.bind]; try discriminate.
  destruct (n_putval_pres h1 (last s) k v new h2 r C1 ltac:(lia) Hn Ev) as ([C2 S2] & -> & Hprev).
  pose proof (proj1 S2) as L2.
  rewrite get_ok by (rewrite L2; exact Hn). cbn [IMapBase.bind]. rewrite Hprev. cbn [deref IMapBase.bind].
  intros [= <- <-]. cbn [iters allocs]. split; [reflexivity|]. split; [right; split; reflexivity|].
  unfold winv, swf. cbn [heap_of head last pool vals iters]. rewrite L2.
  split; [split; [apply cwf_intro; rewrite ?L2; [exact C2|lia|exact Hpl1]|split; [exact Hn|]]|].
  - constructor; [cbn [snd]; lia|eapply vals_in_mono; [|exact Hv]; lia].
  - split; [eapply vals_in_mono; [|exact Hi]; lia|]. split; [eapply refs_in_same; [exact S2|exact R1]|exact HB].
Qed.

Lemma i_remove_pres s k B s' o : winv B s -> i_remove s k = IMapBase.Ok (s', o) ->
  iters s' = iters s /\ allocs s' = allocs s /\ o = OutUnit /\ winv B s'.
Proof.
  intros Wi. pose proof Wi as (((C & Hhd & Hpl) & Hl & Hv) & Hi & R & HB). unfold i_remove.
  destruct (alookup k (vals s)) as [x|] eqn:E; [|intros [= <- <-]; auto].
  pose proof (alookup_in _ _ _ _ Hv E) as Hx.
  destruct (n_delete (heap_of s) x) as [[h2 nh]| |] eqn:Ed; cbn [IMapBase.bind]; try discriminate.
  destruct (n_delete_pres _ _ _ _ C Hx Ed) as [[C2 S2] Inh]. pose proof (proj1 S2) as L2.
  rewrite get_ok by (rewrite L2; exact Hx). cbn [IMapBase.bind].
  intros [= <- <-]. cbn [iters allocs]. split; [reflexivity|]. split; [reflexivity|]. split; [reflexivity|].
  unfold winv, swf. cbn [heap_of head last pool vals iters]. rewrite L2.
  split; [split; [apply cwf_intro; rewrite ?L2; [exact C2|apply retarget_lt; assumption|]|split; [exact Hl|apply vals_in_aremove; exact Hv]]|].
  - destruct (n_ref (nd h2 x) =? 0); [constructor; assumption|exact Hpl].
  - split; [exact Hi|]. split; [eapply refs_in_same; [exact S2|exact R]|exact HB].
Qed.

Lemma i_get_shape s k s' o : i_get s k = IMapBase.Ok (s', o) -> s' = s /\ exists r, o = OutGet r.
Proof.
  unfold i_get. destruct (alookup k (vals s)) as [x|].
  - destruct (get (heap_of s) x); cbn [IMapBase.bind]; try discriminate. intros [= <- <-]. eauto.
  - intros [= <- <-]. eauto.
Qed.

(** * Map.First = Iterator; Next; the deferred Close *)

Theorem gen_First_refines s B : winv B s -> B + 3 <= 2 ^ 62 ->
  match i_first s with
  | IMapBase.Ok (s', o) => exists k ok,
      Gen.Map_First pool_Put (gmap s) (sheap lg s) = Ok ((gmap s', k, ok), sheap lg s') /\
      o = first_out k ok /\ iters s' = iters s /\ allocs s' = allocs s /\ winv (B + 3) s'
  | IMapBase.Panic => Gen.Map_First pool_Put (gmap s) (sheap lg s) = GoPanic
  | IMapBase.NoFuel => True
  end.
Proof.
  intros Wi Hb. unfold i_first, Gen.Map_First.
  set (name := fresh_name (akeys (iters s))).
  assert (Hfresh : ~ In name (map fst (iters s))) by apply fresh_name_notin.
  destruct (S_iterator s name B Wi ltac:(lia)) as (s1 & E1 & G1 & Hg1 & Hi1 & Ha1 & W1).
  rewrite E1. cbn [IMapBase.bind]. call_with G1. rewrite <- Hg1.
  assert (Ea1 : alookup name (iters s1) = Some (head s)) by (rewrite Hi1; cbn [alookup]; rewrite Z.eqb_refl; reflexivity).
  pose proof (S_next s1 name (head s) (B + 1) W1 ltac:(lia) Ea1) as N.
  destruct (i_itnext s1 name) as [[s2 o2]| |]; cbn [IMapBase.bind]; [|call_with N; reflexivity|exact I].
  destruct N as (p2 & e & ok & G2 & -> & Hi2 & Ha2 & W2). call_with G2. cbv beta iota zeta.
  assert (Ea2 : alookup name (iters s2) = Some p2).
  { rewrite Hi2, Hi1, aset_cons_same. cbn [alookup]. rewrite Z.eqb_refl. reflexivity. }
  pose proof (S_close s2 name p2 (B + 1 + 1) W2 ltac:(lia) Ea2) as Cl.
  destruct (i_close s2 name) as [[s3 o3]| |]; cbn [IMapBase.bind]; [|call_with Cl; reflexivity|exact I].
  destruct Cl as (G3 & -> & Hi3 & Ha3 & W3). call_with G3. cbv beta iota zeta.
  exists (Gen.MapEntry_Key e), ok. split; [reflexivity|]. split; [unfold next_out, first_out; destruct ok; reflexivity|].
  split.
  - rewrite Hi3, Hi2, Hi1, aset_cons_same, aremove_cons_same, aset_notin by exact Hfresh. apply aremove_notin. exact Hfresh.
  - split; [congruence|]. replace (B + 3) with (B + 1 + 1 + 1) by lia. exact W3.
Qed.

(** * The glue: one API call on the generated code

    The state of the generated program: the [Map] record, the table of the open
    iterators (name -> [mapIterator] record; the map they belong to is the one
    record: --via), the number of pool.Get calls so far (the index into the
    oracle), and the GoLite heap.  A call on a name that is not in the table
    (an iterator that was closed: its ptr is nil) is a nil dereference. *)

Definition its_t := list (Z * Gen.mapIterator).
Definition gst := (Gen.Map * its_t * nat)%type.
Definition enc_its (l : list (Z * nat)) : its_t := map (fun kv => (fst kv, enc_it (snd kv))) l.
Definition gstate (s : imap) : gst := (gmap s, enc_its (iters s), allocs s).

Definition gen_step (ch : nat -> option nat) (g : gst) (o : op) : M (gst * out) :=
  let '(im, its, al) := g in
  match o with
  | OAdd k v =>
      r <- Gen.Map_Add (pool_Get (ch al)) im k v ;;
      ret (match snd r with
           | ENil => ((fst r, its, S al), OutUnit)
           | Err => ((fst r, its, al), OutErr)
           end)
  | ORemove k => im' <- Gen.Map_Remove pool_Put im k ;; ret ((im', its, al), OutUnit)
  | OGet k => r <- Gen.Map_Get im k ;; ret (g, OutGet (if snd r then Some (fst r) else None))
  | OLen => ret (g, OutLen (Z.to_nat (Gen.Map_Len im)))
  | OFirst => r <- Gen.Map_First pool_Put im ;; ret ((fst (fst r), its, al), first_out (snd (fst r)) (snd r))
  | ONewIter i => it <- Gen.Map_Iterator im ;; ret ((im, (i, it) :: its, al), OutUnit)
  | OHasNext i =>
      match alookup i its with
      | None => gopanic
      | Some it =>
          r <- Gen.mapIterator_HasNext pool_Put im it ;;
          ret ((fst (fst r), aset i (snd (fst r)) its, al), OutBool (snd r))
      end
  | ONext i =>
      match alookup i its with
      | None => gopanic
      | Some it =>
          r <- Gen.mapIterator_Next pool_Put im it ;;
          ret ((fst (fst (fst r)), aset i (snd (fst (fst r))) its, al), next_out (snd (fst r)) (snd r))
      end
  | OClose i =>
      match alookup i its with
      | None => gopanic
      | Some it =>
          r <- Gen.mapIterator_Close pool_Put im it ;;
          ret ((fst (fst r), aremove i its, al), OutUnit)
      end
  end.

Lemma alookup_enc_its i l : alookup i (enc_its l) = option_map enc_it (alookup i l).
Proof.
  induction l as [|[k x] t IH]; [reflexivity|]. cbn [enc_its map fst snd alookup].
  destruct (k =? i); [reflexivity|exact IH].
Qed.

Lemma aset_enc_its i p l : aset i (enc_it p) (enc_its l) = enc_its (aset i p l).
Proof.
  unfold aset, enc_its. rewrite !map_map. apply map_ext. intros [k x]. cbn [fst snd].
  destruct (k =? i); reflexivity.
Qed.

Lemma aremove_enc_its i l : aremove i (enc_its l) = enc_its (aremove i l).
Proof.
  induction l as [|[k x] t IH]; [reflexivity|]. cbn [enc_its map fst snd aremove filter].
  destruct (k =? i); cbn [negb]; [exact IH|]. cbn [map fst snd]. f_equal. exact IH.
Qed.

Lemma winv_mono B B' s : B <= B' -> winv B s -> winv B' s.
Proof. intros H (W & Hi & R & HB). split; [exact W|]. split; [exact Hi|]. split; [eapply refs_in_mono; eassumption|lia]. Qed.

Theorem gen_step_refines ch s x B : winv B s -> B + 3 <= 2 ^ 62 -> ~ In (last s) (pool s) ->
  match i_do ch s x with
  | IMapBase.Ok (s', o) =>
      gen_step ch (gstate s) x (sheap lg s) = Ok ((gstate s', o), sheap lg s') /\ winv (B + 3) s'
  | IMapBase.Panic => gen_step ch (gstate s) x (sheap lg s) = GoPanic
  | IMapBase.NoFuel => True
  end.
Proof.
  intros Wi Hb Hlp. pose proof Wi as (W & Hi & R & HB).
  destruct x as [k v|k|k| | |i|i|i|i]; cbn [i_do]; unfold gen_step, gstate.
  - (* Add *)
    pose proof (gen_Add_refines lg pool_Get Hget s k v (ch (allocs s)) W Hlp) as E. call_with E.
    destruct (i_add s k v (ch (allocs s))) as [[s' o]| |] eqn:Ea; cbn [lift fst snd]; [|reflexivity|exact I].
    destruct (i_add_pres _ _ _ _ _ _ _ Wi Ea) as (Hit & Hsh & W'). rewrite Hit.
    split; [|eapply winv_mono; [|exact W']; lia].
    destruct Hsh as [[-> ->]|[-> ->]]; reflexivity.
  - (* Remove *)
    pose proof (gen_Remove_refines lg pool_Put Hput s k W) as E. call_with E.
    destruct (i_remove s k) as [[s' o]| |] eqn:Ea; cbn [lift fst snd]; [|reflexivity|exact I].
    destruct (i_remove_pres _ _ _ _ _ Wi Ea) as (Hit & Hal & -> & W'). rewrite Hit, Hal.
    split; [reflexivity|eapply winv_mono; [|exact W']; lia].
  - (* Get *)
    pose proof (gen_Get_refines lg s k W) as E. call_with E.
    destruct (i_get s k) as [[s' o]| |] eqn:Ea; cbn [lift fst snd]; [|reflexivity|exact I].
    destruct (i_get_shape _ _ _ _ Ea) as (-> & r & ->).
    split; [destruct r; reflexivity|eapply winv_mono; [|exact Wi]; lia].
  - (* Len *)
    rewrite gen_Len_refines, Nat2Z.id. split; [reflexivity|eapply winv_mono; [|exact Wi]; lia].
  - (* First *)
    pose proof (gen_First_refines s B Wi Hb) as F.
    destruct (i_first s) as [[s' o]| |]; [|call_with F; reflexivity|exact I].
    destruct F as (k & ok & G & -> & Hit & Hal & W'). call_with G. cbn [fst snd]. rewrite Hit, Hal.
    split; [reflexivity|exact W'].
  - (* Iterator *)
    destruct (S_iterator s i B Wi ltac:(lia)) as (s1 & E1 & G1 & Hg1 & Hi1 & Ha1 & W1).
    rewrite E1. call_with G1. rewrite Hi1, Ha1, Hg1.
    split; [reflexivity|eapply winv_mono; [|exact W1]; lia].
  - (* HasNext *)
    rewrite alookup_enc_its. unfold i_hasnext at 1.
    destruct (alookup i (iters s)) as [p|] eqn:Ea; cbn [option_map deref IMapBase.bind]; [|reflexivity].
    pose proof (S_hasnext s i p B Wi ltac:(lia) Ea) as N. unfold i_hasnext in N. rewrite Ea in N. cbn [deref IMapBase.bind] in N.
    match type of N with match ?t with _ => _ end => destruct t as [[s' o]| |] end; [|call_with N; reflexivity|exact I].
    destruct N as (p' & b & G & -> & Hit & Hal & W'). call_with G. cbn [fst snd]. rewrite aset_enc_its, Hit, Hal.
    split; [reflexivity|eapply winv_mono; [|exact W']; lia].
  - (* Next *)
    rewrite alookup_enc_its. unfold i_itnext at 1.
    destruct (alookup i (iters s)) as [p|] eqn:Ea; cbn [option_map deref IMapBase.bind]; [|reflexivity].
    pose proof (S_next s i p B Wi ltac:(lia) Ea) as N. unfold i_itnext in N. rewrite Ea in N. cbn [deref IMapBase.bind] in N.
    match type of N with match ?t with _ => _ end => destruct t as [[s' o]| |] end; [|call_with N; reflexivity|exact I].
    destruct N as (p' & e & ok & G & -> & Hit & Hal & W'). call_with G. cbn [fst snd]. rewrite aset_enc_its, Hit, Hal.
    split; [reflexivity|eapply winv_mono; [|exact W']; lia].
  - (* Close *)
    rewrite alookup_enc_its. unfold i_close at 1.
    destruct (alookup i (iters s)) as [p|] eqn:Ea; cbn [option_map deref IMapBase.bind]; [|reflexivity].
    pose proof (S_close s i p B Wi ltac:(lia) Ea) as N. unfold i_close in N. rewrite Ea in N. cbn [deref IMapBase.bind] in N.
    match type of N with match ?t with _ => _ end => destruct t as [[s' o]| |] end; [|call_with N; reflexivity|exact I].
    destruct N as (G & -> & Hit & Hal & W'). call_with G. cbn [fst snd]. rewrite aremove_enc_its, Hit, Hal.
    split; [reflexivity|eapply winv_mono; [|exact W']; lia].
Qed.

(** * Whole histories *)

Fixpoint gen_run (ch : nat -> option nat) (g : gst) (ops : list op) (h : heap) : list out :=
  match ops with
  | [] => []
  | o :: t =>
      match gen_step ch g o h with
      | Ok ((g', x), h') => x :: gen_run ch g' t h'
      | GoPanic => [OutPanic]
      | NoFuel => [OutNoFuel]
      end
  end.

(* the program: m := NewMap(); then the calls *)
Definition gen_run_map (ch : nat -> option nat) (ops : list op) : list out :=
  match Gen.NewMap (gheap lg [] []) with
  | Ok (im, h) => gen_run ch (im, [], 0%nat) ops h
  | GoPanic => [OutPanic]
  | NoFuel => [OutNoFuel]
  end.

Lemma last_in_nonempty (l : list nat) d x : hd_error l = Some x -> In (List.last l d) l.
Proof.
  revert x. induction l as [|a t IH]; intros x; [discriminate|]. intros _.
  destruct t as [|b t']; [left; reflexivity|]. right. change (List.last (a :: b :: t') d) with (List.last (b :: t') d).
  apply (IH b). reflexivity.
Qed.

(* the trailing element is on the list, pooled elements are not: from the representation invariant of C10 *)
Lemma R_last_not_pooled s o : R s o -> ~ In (last s) (pool s).
Proof.
  intros (c & zs & Hrepr & _) Hin.
  pose proof (rp_wst _ _ _ Hrepr) as Hw. pose proof (rp_last _ _ _ Hrepr) as Hl.
  destruct (ws_pool _ _ _ _ Hw) as [_ Hf].
  destruct (proj1 (Forall_forall _ _) Hf _ Hin) as [Hni _]. apply Hni. rewrite <- Hl.
  eapply last_in_nonempty. exact (ws_head _ _ _ _ Hw).
Qed.

Theorem gen_run_refines ch : forall h open s o B,
  R s o -> (forall y, In y open <-> In y (map fst (opos o))) -> wf_from open h = true ->
  winv B s -> B + 3 * Z.of_nat (length h) <= 2 ^ 62 ->
  gen_run ch (gstate s) h (sheap lg s) = fst (run (i_step ch) s h).
Proof.
  induction h as [|x t IH]; intros open s o B HR Hs Hwf Wi Hb; [reflexivity|].
  cbn [length] in Hb. cbn [gen_run run].
  pose proof (wf_head_ok open _ x t Hs Hwf) as Hok.
  destruct (imap_step_sim ch s o x HR Hok) as (s' & Hi & HR').
  pose proof (gen_step_refines ch s x B Wi ltac:(lia) (R_last_not_pooled s o HR)) as G.
  rewrite Hi in G. destruct G as (G & W'). rewrite G. unfold i_step at 1. rewrite Hi.
  pose proof (o_step_no_stop o x Hok) as Hns.
  destruct (o_step o x) as [o' y] eqn:Eo. cbn [fst snd] in *. rewrite Hns.
  rewrite (IH (open_after open x) s' o' (B + 3) HR').
  - destruct (run (i_step ch) s' t) as [xs sf]. reflexivity.
  - pose proof (open_after_names open o x Hs Hok) as Hn. rewrite Eo in Hn. exact Hn.
  - apply wf_tail. exact Hwf.
  - exact W'.
  - lia.
Qed.

Lemma winv_init : winv 0 i_new.
Proof.
  unfold winv, swf, i_new. cbn [heap_of head last pool vals iters length].
  split; [split; [apply cwf_intro; cbn [length]; [|lia|constructor]|split; [lia|constructor]]|].
  - intros x Hx. cbn [length] in Hx. assert (x = 0%nat) as -> by lia. split; exact I.
  - split; [constructor|]. split; [|lia]. intros x Hx. cbn [length] in Hx. assert (x = 0%nat) as -> by lia. cbn. lia.
Qed.

(** the headline: the code generated from map.go, on every well-formed history
    shorter than 2^60 calls (the reference counters are Go ints; a call moves a
    counter by at most three), under every pool oracle, answers like the
    abstract ordered map *)
Theorem gen_imap_refines_omap : forall ops ch, wf_hist ops -> Z.of_nat (length ops) < 2 ^ 60 ->
  gen_run_map ch ops = run_omap ops.
Proof.
  intros ops ch Hwf Hlen. unfold gen_run_map. rewrite (gen_NewMap_refines lg).
  change (gmap i_new, @nil (Z * Gen.mapIterator), 0%nat) with (gstate i_new).
  rewrite (gen_run_refines ch ops [] i_new o_new 0 R_init); [|cbn; tauto|exact Hwf|exact winv_init|].
  - rewrite <- (imap_refines_omap ops ch Hwf). reflexivity.
  - rewrite two62'. change (2 ^ 60) with 1152921504606846976 in Hlen. lia.
Qed.

Theorem gen_imap_no_panic : forall ops ch, wf_hist ops -> Z.of_nat (length ops) < 2 ^ 60 ->
  ~ In OutPanic (gen_run_map ch ops) /\ ~ In OutNoFuel (gen_run_map ch ops).
Proof.
  intros ops ch Hwf Hlen. rewrite (gen_imap_refines_omap ops ch Hwf Hlen).
  rewrite <- (imap_refines_omap ops ch Hwf). apply imap_no_panic. exact Hwf.
Qed.

(** * The final state of a run (for properties of the reachable states: C11) *)

Fixpoint gen_final (ch : nat -> option nat) (g : gst) (ops : list op) (h : heap) : option (gst * heap) :=
  match ops with
  | [] => Some (g, h)
  | o :: t =>
      match gen_step ch g o h with
      | Ok ((g', _), h') => gen_final ch g' t h'
      | _ => None
      end
  end.

Definition gen_final_map (ch : nat -> option nat) (ops : list op) : option (gst * heap) :=
  match Gen.NewMap (gheap lg [] []) with
  | Ok (im, h) => gen_final ch (im, [], 0%nat) ops h
  | _ => None
  end.

Lemma run_cons_ok ch s x t s' y : i_do ch s x = IMapBase.Ok (s', y) -> is_stop y = false ->
  snd (run (i_step ch) s (x :: t)) = snd (run (i_step ch) s' t).
Proof.
  intros Hi Hns. cbn [run]. unfold i_step at 1. rewrite Hi, Hns.
  destruct (run (i_step ch) s' t) as [xs sf]. reflexivity.
Qed.

Theorem gen_final_refines ch : forall h open s o B,
  R s o -> (forall y, In y open <-> In y (map fst (opos o))) -> wf_from open h = true ->
  winv B s -> B + 3 * Z.of_nat (length h) <= 2 ^ 62 ->
  gen_final ch (gstate s) h (sheap lg s) =
    Some (gstate (snd (run (i_step ch) s h)), sheap lg (snd (run (i_step ch) s h))) /\
  winv (B + 3 * Z.of_nat (length h)) (snd (run (i_step ch) s h)).
Proof.
  induction h as [|x t IH]; intros open s o B HR Hs Hwf Wi Hb.
  { cbn [gen_final run snd length]. split; [reflexivity|]. replace (B + 3 * Z.of_nat 0) with B by lia. exact Wi. }
  cbn [length] in Hb |- *. cbn [gen_final].
  pose proof (wf_head_ok open _ x t Hs Hwf) as Hok.
  destruct (imap_step_sim ch s o x HR Hok) as (s' & Hi & HR').
  pose proof (gen_step_refines ch s x B Wi ltac:(lia) (R_last_not_pooled s o HR)) as G.
  rewrite Hi in G. destruct G as (G & W'). rewrite G.
  pose proof (o_step_no_stop o x Hok) as Hns.
  destruct (o_step o x) as [o' y] eqn:Eo. cbn [fst snd] in *.
  rewrite (run_cons_ok ch s x t s' y Hi Hns).
  destruct (IH (open_after open x) s' o' (B + 3) HR') as (IH1 & IH2).
  - pose proof (open_after_names open o x Hs Hok) as Hn. rewrite Eo in Hn. exact Hn.
  - apply wf_tail. exact Hwf.
  - exact W'.
  - lia.
  - split; [exact IH1|].
    replace (B + 3 * Z.of_nat (S (length t))) with (B + 3 + 3 * Z.of_nat (length t)) by lia. exact IH2.
Qed.

Theorem gen_final_map_refines : forall ops ch, wf_hist ops -> Z.of_nat (length ops) < 2 ^ 60 ->
  let sf := final (i_step ch) i_new ops in
  gen_final_map ch ops = Some (gstate sf, sheap lg sf) /\ winv (3 * Z.of_nat (length ops)) sf.
Proof.
  intros ops ch Hwf Hlen sf. unfold gen_final_map. rewrite (gen_NewMap_refines lg).
  change (gmap i_new, @nil (Z * Gen.mapIterator), 0%nat) with (gstate i_new).
  apply (gen_final_refines ch ops [] i_new o_new 0 R_init); [cbn; tauto|exact Hwf|exact winv_init|].
  rewrite two62'. change (2 ^ 60) with 1152921504606846976 in Hlen. lia.
Qed.

End Run.

(** * Closed forms: the literal pool of IM_GenVocab.v *)

Definition lit_run (ch : nat -> option nat) (ops : list op) : list out := gen_run_map [] lit_Put lit_Get ch ops.

Theorem gen_imap_refines_omap_lit : forall ops ch, wf_hist ops -> Z.of_nat (length ops) < 2 ^ 60 ->
  lit_run ch ops = run_omap ops.
Proof. exact (gen_imap_refines_omap [] lit_Put lit_Get lit_put_spec lit_get_spec). Qed.

(* the D1 witness and the running example of Properties/C10.v through the generated code *)
Definition d1_ops : list op := [OAdd 1 11; OAdd 2 12; ONewIter 7; ORemove 1; OClose 7; OFirst].
Definition ex_ops : list op :=
  [OAdd 1 11; OAdd 2 12; OAdd 3 13; ONewIter 7; ONext 7; ORemove 2; OAdd 4 14; ORemove 1; ONewIter 8; ONext 7;
   OHasNext 7; ONext 7; ONext 7; OClose 7; OFirst; ONext 8; OClose 8; OLen; OGet 1; OGet 4].

Example gen_ex_run_d1 :
  lit_run always_fresh d1_ops = [OutUnit; OutUnit; OutUnit; OutUnit; OutUnit; OutFirst (Some 2)] /\
  lit_run always_reuse d1_ops = [OutUnit; OutUnit; OutUnit; OutUnit; OutUnit; OutFirst (Some 2)] /\
  lit_run always_reuse ex_ops = run_omap ex_ops /\ lit_run always_fresh ex_ops = run_omap ex_ops /\
  wf_hist ex_ops.
Proof. vm_compute. repeat split; reflexivity. Qed.

Print Assumptions gen_First_refines.
Print Assumptions gen_step_refines.
Print Assumptions gen_run_refines.
Print Assumptions gen_imap_refines_omap.
Print Assumptions gen_imap_no_panic.
Print Assumptions gen_imap_refines_omap_lit.
Print Assumptions gen_final_map_refines.
Print Assumptions gen_ex_run_d1.
