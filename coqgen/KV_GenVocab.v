(** Vocabulary of the C03/C06 tie (coqgen/C03_GenFn*.v): how the state of the
    code generated from /repo/kvs/inmem/inmem.go (Gen_inmem.v) represents a
    state of the hand-written model model/InmemKV.v.  Independent of the
    generated file.

    Strings (keys, versions) are ids ([--strid]): [kid : key -> Z] injective,
    a version [n] is [Z.of_nat n] (what [ulidutils.NewID], the parameter
    [new_id], hands out: the counter cell of the heap), values are handles
    [vid v], an optional expiration instant is the handle [oe] (0 = nil), a
    [kvs.Record] value is the handle [Record_mk key value version expiresAt]
    ([--packed Record]).  The Go map [recs] is an association list whose
    LOOK-UPS agree with the model's ([rel]; the order of the bindings differs:
    Go's map has none).  The waiter table [verChange] is not part of the model:
    the ties account for it ([notify]: the record of the written key, and only
    it, is closed and removed).

    Heap: [kheap lg n ws] = array 0: the log of closed channels, array 1: the
    counter of version ids, arrays 2..: the waiter objects [done; waiters]
    (a *waiter is [>= 3]). *)
Set Warnings "-notation-overridden,-parsing".
From Coq Require Import List ZArith NArith Arith Bool Lia.
From GL Require Import spec.KV model.InmemKV proofs.C03_KV.
From GL Require Import lib.GoLite lib.GoLitePtr.
Import ListNotations.
Open Scope Z_scope.

(* optional instant <-> handle *)
Definition oe (o : option Z) : Z := match o with None => 0 | Some e => if 0 <=? e then e + 1 else e end.
Definition lit_ptime_val (x : Z) : Z := if 0 <? x then x - 1 else x.

Lemma oe_some_nz e : oe (Some e) <> 0.
Proof. cbn. destruct (Z.leb_spec 0 e); lia. Qed.
Lemma lit_ptime_oe e : lit_ptime_val (oe (Some e)) = e.
Proof. unfold lit_ptime_val, oe. destruct (Z.leb_spec 0 e); destruct (Z.ltb_spec 0 (e + 1)); destruct (Z.ltb_spec 0 e); lia. Qed.
Lemma oe_inj a b : oe a = oe b -> a = b.
Proof.
  destruct a as [x|], b as [y|]; cbn; try reflexivity.
  - destruct (Z.leb_spec 0 x); destruct (Z.leb_spec 0 y); intros; f_equal; lia.
  - destruct (Z.leb_spec 0 x); lia.
  - destruct (Z.leb_spec 0 y); lia.
Qed.

Definition kheap (lg : list Z) (n : nat) (ws : list (list Z)) : heap := lg :: [Z.of_nat n] :: ws.
Definition done_of (ws : list (list Z)) (p : Z) : Z := nth 0 (nth (Z.to_nat (p - 3)) ws []) 0.

(* the waiter table: pointers to waiter objects *)
Definition wt_ok (wt : gomap) : Prop := forall k p, mapfind k wt = Some p -> 3 <= p.

(* notifyWaiters(key): close(ws.done); delete(s.verChange, key) *)
Definition notify (key : Z) (wt : gomap) (lg : list Z) (ws : list (list Z)) : gomap * list Z :=
  match mapfind key wt with
  | Some p => (mapdel key wt, lg ++ [done_of ws p])
  | None => (wt, lg)
  end.

Lemma wt_ok_del k wt : wt_ok wt -> wt_ok (mapdel k wt).
Proof.
  intros H k' p Hf. destruct (Z.eq_dec k' k) as [->|Hne].
  - rewrite mapfind_mapdel_same in Hf. discriminate.
  - rewrite mapfind_mapdel_other in Hf by exact Hne. exact (H _ _ Hf).
Qed.

Lemma wt_ok_notify key wt lg ws : wt_ok wt -> wt_ok (fst (notify key wt lg ws)).
Proof. intros H. unfold notify. destruct (mapfind key wt); [apply wt_ok_del; exact H|exact H]. Qed.

Lemma wt_ok_nil : wt_ok [].
Proof. intros k p H. discriminate. Qed.

Lemma notify_nil key lg ws : notify key [] lg ws = ([], lg).
Proof. reflexivity. Qed.

Lemma mapfind_mapset_same k v m : mapfind k (mapset k v m) = Some v.
Proof. unfold mapset. cbn [mapfind]. rewrite Z.eqb_refl. reflexivity. Qed.
Lemma mapfind_mapset_other k k' v m : k' <> k -> mapfind k' (mapset k v m) = mapfind k' m.
Proof.
  intros H. unfold mapset. cbn [mapfind]. destruct (Z.eqb_spec k k'); [congruence|]. apply mapfind_mapdel_other. exact H.
Qed.
Lemma mapget_find k m : mapget k m = match mapfind k m with Some v => (v, true) | None => (0, false) end.
Proof. reflexivity. Qed.

(* what is assumed of the parameters of the generated code *)
Definition rec_spec (mk : Z -> Z -> Z -> Z -> Z) (pk pv pver pexp : Z -> Z) : Prop :=
  forall a b c d, pk (mk a b c d) = a /\ pv (mk a b c d) = b /\ pver (mk a b c d) = c /\ pexp (mk a b c d) = d.
Definition ptime_spec (ptime_val : Z -> Z) : Prop := forall e, ptime_val (oe (Some e)) = e.
Definition now_spec (now : Z) (time_Now : M Z) : Prop := forall h, time_Now h = Ok (now, h).
Definition newid_spec (new_id : M Z) : Prop :=
  forall lg n ws, new_id (kheap lg n ws) = Ok (Z.of_nat n, kheap lg (S n) ws).
Definition close_spec (chan_close : Z -> M unit) : Prop :=
  forall c lg n ws, chan_close c (kheap lg n ws) = Ok (tt, kheap (lg ++ [c]) n ws).
(* a context is the code its Err() returns: 0 for a live one *)
Definition ctx_spec (ctx_Err : Z -> M Z) : Prop := forall c h, ctx_Err c h = Ok (c, h).

Section Rel.
Variable kid : key -> Z.
Variable vid : value -> Z.
Hypothesis kid_inj : forall a b, kid a = kid b -> a = b.
Variable Record_mk : Z -> Z -> Z -> Z -> Z.

Definition enc_rec (k : key) (r : rec) : Z := Record_mk (kid k) (vid (val r)) (Z.of_nat (ver r)) (oe (exp r)).
Definition zero_rec : Z := Record_mk 0 0 0 0.
Definition enc_orec (r : orec) : Z :=
  let '(k, v, n, e) := r in Record_mk (kid k) (vid v) (Z.of_nat n) (oe e).
(* the argument record of Create / Put / CasByVersion *)
Definition arg_rec (k : key) (v : value) (n : Z) (e : option Z) : Z := Record_mk (kid k) (vid v) n (oe e).

Definition rel (gm : gomap) (l : list (key * rec)) : Prop :=
  forall k, mapfind (kid k) gm = option_map (enc_rec k) (lookup k l).

Lemma rel_nil : rel [] [].
Proof. intros k. reflexivity. Qed.

Lemma rel_del gm l k : rel gm l -> rel (mapdel (kid k) gm) (remove k l).
Proof.
  intros H k'. rewrite lookup_alookup, remove_aremove. destruct (key_eq_dec k k') as [<-|Hne].
  - rewrite mapfind_mapdel_same, alookup_remove_same. reflexivity.
  - rewrite mapfind_mapdel_other by (intros E; apply Hne; symmetry; apply kid_inj; exact E).
    rewrite alookup_remove_other by exact Hne. rewrite <- lookup_alookup. apply H.
Qed.

Lemma rel_set gm l k r : rel gm l -> rel (mapset (kid k) (enc_rec k r) gm) (set k r l).
Proof.
  intros H k'. rewrite lookup_alookup, set_aset. destruct (key_eq_dec k k') as [<-|Hne].
  - rewrite mapfind_mapset_same, alookup_set_same. reflexivity.
  - rewrite mapfind_mapset_other by (intros E; apply Hne; symmetry; apply kid_inj; exact E).
    rewrite alookup_set_other by exact Hne. rewrite <- lookup_alookup. apply H.
Qed.

End Rel.
