(** C03/C06, translator tie, group "batch": [PutMany] and [GetMany] of
    /repo/kvs/inmem/inmem.go as translated on this run (Gen_inmem.v) against
    [im_putmany] / [im_getmany] of model/InmemKV.v.

    PutMany: a fold of Puts over the slice of records: versions in the order
    of the slice, one notification per record (the waiter of its key), the last
    write of a repeated key wins (all three through [im_putmany], a fold of
    [im_store], and [notify_all]).

    GetMany: position-wise get, lazy expiry on the way (a repeated key that
    has expired is dropped and notified once: the second look-up finds
    nothing).  The result is a fresh array of pointers; every iteration
    allocates the cell of ITS OWN copy [r] of the record ([res[idx] = &r]):
    the theorem states the contents of the array and of every cell.

    Heap layout (KV_GenVocab.v): [kheap lg n ws]; the slices of the arguments
    and everything allocated by the calls live among the arrays [ws]. *)
Set Warnings "-notation-overridden,-parsing".
From Coq Require Import List ZArith NArith Arith Bool Lia.
From GL Require Import spec.KV model.InmemKV proofs.C03_KV.
From GL Require Import lib.GoLite lib.GoLitePtr.
From GLGEN Require Import KV_GenVocab Gen_inmem C03_GenFn_get.
Import ListNotations.
Open Scope Z_scope.

(** * Arrays among [ws] *)

(* the slice [sl] denotes the list [hs], held by one of the arrays [ws] *)
Definition sl_is (ws : list (list Z)) (sl : gslice) (hs : list Z) : Prop :=
  (2 <= s_arr sl < 2 + length ws)%nat /\ 0 <= s_off sl /\ s_len sl = zlen hs /\
  forall i, (i < length hs)%nat -> znth (nth (s_arr sl - 2) ws []) (s_off sl + Z.of_nat i) = nth i hs 0.

Lemma arr_get_kheap lg n ws a : (2 <= a)%nat -> arr_get (kheap lg n ws) a = nth (a - 2) ws [].
Proof.
  intros H. unfold arr_get, kheap. destruct a as [|[|a]]; try lia. cbn [nth]. f_equal. lia.
Qed.

Lemma sl_is_app ws x sl hs : sl_is ws sl hs -> sl_is (ws ++ x) sl hs.
Proof.
  intros (Ha & Ho & Hl & Hn). repeat split; try assumption; try lia.
  - rewrite app_length. lia.
  - intros i Hi. rewrite app_nth1 by lia. apply Hn. exact Hi.
Qed.

Lemma load_sl_is ws sl hs i lg n : sl_is ws sl hs -> (i < length hs)%nat ->
  load sl (Z.of_nat i) (kheap lg n ws) = Ok (nth i hs 0, kheap lg n ws).
Proof.
  intros (Ha & Ho & Hl & Hn) Hi. unfold load. unfold zlen in Hl.
  replace ((0 <=? Z.of_nat i) && (Z.of_nat i <? s_len sl)) with true
    by (symmetry; apply andb_true_iff; split; [apply Z.leb_le|apply Z.ltb_lt]; lia).
  rewrite arr_get_kheap by lia. rewrite Hn by exact Hi. reflexivity.
Qed.

(* the waiter table points into [ws] *)
Definition wt_in (ws : list (list Z)) (wt : gomap) : Prop :=
  forall k p, mapfind k wt = Some p -> 3 <= p < 3 + Z.of_nat (length ws).

Lemma wt_in_ok ws wt : wt_in ws wt -> wt_ok wt.
Proof. intros H k p Hf. specialize (H k p Hf). lia. Qed.

Lemma wt_in_app ws x wt : wt_in ws wt -> wt_in (ws ++ x) wt.
Proof. intros H k p Hf. specialize (H k p Hf). rewrite app_length. lia. Qed.

Lemma wt_in_nil ws : wt_in ws [].
Proof. intros k p H. discriminate. Qed.

Lemma wt_in_del ws k wt : wt_in ws wt -> wt_in ws (mapdel k wt).
Proof.
  intros H k' p Hf. destruct (Z.eq_dec k' k) as [->|Hne].
  - rewrite mapfind_mapdel_same in Hf. discriminate.
  - rewrite mapfind_mapdel_other in Hf by exact Hne. exact (H _ _ Hf).
Qed.

Lemma wt_in_notify ws key wt lg ws' : wt_in ws wt -> wt_in ws (fst (notify key wt lg ws')).
Proof. intros H. unfold notify. destruct (mapfind key wt); [apply wt_in_del; exact H|exact H]. Qed.

(* what was allocated later does not matter to a notification *)
Lemma notify_app key wt lg ws x : wt_in ws wt -> notify key wt lg (ws ++ x) = notify key wt lg ws.
Proof.
  intros H. unfold notify. destruct (mapfind key wt) as [p|] eqn:E; [|reflexivity].
  specialize (H _ _ E). unfold done_of. rewrite app_nth1 by lia. reflexivity.
Qed.

(* one notification per key, in order *)
Fixpoint notify_all (ks : list Z) (wt : gomap) (lg : list Z) (ws : list (list Z)) : gomap * list Z :=
  match ks with
  | [] => (wt, lg)
  | k :: t => notify_all t (fst (notify k wt lg ws)) (snd (notify k wt lg ws)) ws
  end.

(** * Allocation among [ws] *)

Lemma kheap_app lg n ws x : kheap lg n ws ++ x = kheap lg n (ws ++ x).
Proof. reflexivity. Qed.

Lemma length_kheap lg n ws : length (kheap lg n ws) = S (S (length ws)).
Proof. reflexivity. Qed.

Lemma arr_set_kheap lg n ws a l :
  arr_set (kheap lg n ws) (S (S a)) l = kheap lg n (firstn a ws ++ l :: skipn (S a) ws).
Proof. reflexivity. Qed.

Lemma gomake_kheap len lg n ws : 0 <= len < 9223372036854775808 ->
  gomake len (kheap lg n ws) =
  Ok (mkSl (S (S (length ws))) 0 len len, kheap lg n (ws ++ [repeat 0 (Z.to_nat len)])).
Proof.
  intros H. unfold gomake.
  replace ((len <? 0) || (9223372036854775808 <=? len)) with false
    by (symmetry; apply orb_false_iff; split; [apply Z.ltb_ge|apply Z.leb_gt]; lia).
  rewrite length_kheap, kheap_app. reflexivity.
Qed.

(* x__addr <- obj_new 1 ;; fld_store x__addr 0 v: a new cell holding v *)
Lemma obj_new_kheap {B} (K : Z -> M B) lg n ws :
  bind (obj_new 1%nat) K (kheap lg n ws) = K (Z.of_nat (length ws) + 3) (kheap lg n (ws ++ [[0]])).
Proof.
  rewrite bind_obj_new. rewrite length_kheap, kheap_app.
  replace (Z.of_nat (S (S (length ws))) + 1) with (Z.of_nat (length ws) + 3) by lia. reflexivity.
Qed.

Lemma cell_store {B} v (K : unit -> M B) lg n ws :
  bind (fld_store (Z.of_nat (length ws) + 3) 0%nat v) K (kheap lg n (ws ++ [[0]])) = K tt (kheap lg n (ws ++ [[v]])).
Proof.
  rewrite bind_fld_store by lia.
  replace (obj_arr (Z.of_nat (length ws) + 3)) with (S (S (length ws))) by (unfold obj_arr; lia).
  rewrite arr_set_kheap. rewrite arr_get_kheap by lia.
  replace (S (S (length ws)) - 2)%nat with (length ws) by lia.
  rewrite app_nth2, Nat.sub_diag by lia. cbn [nth repeat].
  rewrite firstn_app, firstn_all, Nat.sub_diag. cbn [firstn]. rewrite app_nil_r.
  rewrite skipn_all2 by (rewrite app_length; cbn [length]; lia). reflexivity.
Qed.

Lemma zsplice_mid P x R v : zsplice (P ++ x :: R) (zlen P) [v] = P ++ v :: R.
Proof.
  unfold zsplice, zlen. rewrite Nat2Z.id. cbn [length].
  rewrite firstn_app, firstn_all, Nat.sub_diag. cbn [firstn]. rewrite app_nil_r.
  replace (length P + 1)%nat with (length P + 1 + 0)%nat by lia.
  rewrite skipn_app. rewrite skipn_all2 by lia.
  replace (length P + 1 + 0 - length P)%nat with 1%nat by lia. reflexivity.
Qed.

(* res[i] = v for the array right after ws0 *)
Lemma store_res ws0 P x R cells v len lg n :
  zlen (P ++ x :: R) = len ->
  store (mkSl (S (S (length ws0))) 0 len len) (zlen P) v (kheap lg n (ws0 ++ (P ++ x :: R) :: cells)) =
  Ok (tt, kheap lg n (ws0 ++ (P ++ v :: R) :: cells)).
Proof.
  intros Hl. unfold store. cbn [s_len].
  replace ((0 <=? zlen P) && (zlen P <? len)) with true
    by (symmetry; apply andb_true_iff; split; [apply Z.leb_le|apply Z.ltb_lt];
        unfold zlen in *; rewrite app_length in Hl; cbn [length] in Hl; lia).
  unfold sl_put. cbn [s_arr s_off]. rewrite arr_set_kheap, arr_get_kheap by lia.
  replace (S (S (length ws0)) - 2)%nat with (length ws0) by lia.
  rewrite app_nth2, Nat.sub_diag by lia. cbn [nth]. rewrite Z.add_0_l, zsplice_mid.
  rewrite firstn_app, firstn_all, Nat.sub_diag. cbn [firstn]. rewrite app_nil_r.
  replace (S (length ws0)) with (length ws0 + 1)%nat by lia.
  rewrite skipn_app, skipn_all2 by lia.
  replace (length ws0 + 1 - length ws0)%nat with 1%nat by lia. reflexivity.
Qed.


(* the caller's side: an argument slice is a new array; the result of GetMany is read
   through the pointers: per position [1; handle] or [0; 0] for nil *)
Definition alloc_arr (l : list Z) : M gslice := fun h => Ok (mkSl (length h) 0 (zlen l) (zlen l), h ++ [l]).
Definition deref (h : heap) (p : Z) : list Z := if p =? 0 then [0; 0] else [1; nth 0 (arr_get h (obj_arr p)) 0].
Definition read_recs (res : gslice) : M (list Z) := fun h => Ok (flat_map (deref h) (sl_get h res), h).

Lemma alloc_arr_kheap l lg n ws :
  alloc_arr l (kheap lg n ws) = Ok (mkSl (S (S (length ws))) 0 (zlen l) (zlen l), kheap lg n (ws ++ [l])).
Proof. reflexivity. Qed.

Lemma sl_is_alloc ws l : sl_is (ws ++ [l]) (mkSl (S (S (length ws))) 0 (zlen l) (zlen l)) l.
Proof.
  unfold sl_is. cbn [s_arr s_off s_len]. rewrite app_length. cbn [length]. repeat split; try lia.
  intros i Hi. replace (S (S (length ws)) - 2)%nat with (length ws) by lia.
  rewrite app_nth2, Nat.sub_diag by lia. cbn [nth]. unfold znth. f_equal. lia.
Qed.

Section Batch.

Variable kid : key -> Z.
Variable vid : value -> Z.
Hypothesis kid_inj : forall a b, kid a = kid b -> a = b.
Variable Record_mk : Z -> Z -> Z -> Z -> Z.
Variables Record_Key Record_Value Record_Version Record_ExpiresAt : Z -> Z.
Hypothesis Hrec : rec_spec Record_mk Record_Key Record_Value Record_Version Record_ExpiresAt.
Variable ptime_val : Z -> Z.
Hypothesis Hpt : ptime_spec ptime_val.
Variable now : Z.
Variable time_Now : M Z.
Hypothesis Hnow : now_spec now time_Now.
Variable new_id : M Z.
Hypothesis Hnew : newid_spec new_id.
Variable chan_close : Z -> M unit.
Hypothesis Hclose : close_spec chan_close.

Notation enc_rec := (enc_rec kid vid Record_mk).
Notation enc_orec := (enc_orec kid vid Record_mk).
Notation zero_rec := (zero_rec Record_mk).
Notation arg_rec := (arg_rec kid vid Record_mk).
Notation rel := (rel kid vid Record_mk).

Lemma rK_ a b c d : Record_Key (Record_mk a b c d) = a. Proof. apply Hrec. Qed.
Lemma rV_ a b c d : Record_Value (Record_mk a b c d) = b. Proof. apply Hrec. Qed.
Lemma rN_ a b c d : Record_Version (Record_mk a b c d) = c. Proof. apply Hrec. Qed.
Lemma rE_ a b c d : Record_ExpiresAt (Record_mk a b c d) = d. Proof. apply Hrec. Qed.

Ltac rec_simpl := unfold KV_GenVocab.enc_rec, KV_GenVocab.arg_rec, KV_GenVocab.enc_orec in *; rewrite ?rK_, ?rV_, ?rN_, ?rE_ in *.
Ltac svc_cbn :=
  unfold Gen.set_service_recs, Gen.set_service_verChange in *;
  cbn [Gen.service_recs Gen.service_verChange] in *.

Notation get_gm := (C03_GenFn_get.get_gm kid now).
Notation get_wl := (C03_GenFn_get.get_wl kid now).
Notation enc_get := (C03_GenFn_get.enc_get kid vid Record_mk).
Notation gen_notify_refines := (C03_GenFn_get.gen_notify_refines chan_close Hclose).
Notation gen_get_refines := (C03_GenFn_get.gen_get_refines kid vid kid_inj Record_mk Record_Key Record_Value Record_Version Record_ExpiresAt Hrec ptime_val Hpt now time_Now Hnow chan_close Hclose).

(** * PutMany *)

(* a record of the batch with the Version field the caller left in it (any) *)
Definition brec : Type := (key * value * option Z * Z)%type.
Definition b_arg (c : brec) : Z := let '(k, v, e, cv) := c in arg_rec k v cv e.
Definition b_key (c : brec) : Z := let '(k, _, _, _) := c in kid k.
Definition b_strip (c : brec) : key * value * option Z := fst c.

Lemma nth_mid {A} (f : A -> Z) pre c rest : nth (length pre) (map f (pre ++ c :: rest)) 0 = f c.
Proof. rewrite map_app, app_nth2 by (rewrite map_length; lia). rewrite map_length, Nat.sub_diag. reflexivity. Qed.

Lemma zlen_snoc {A} (pre : list A) c : zlen (pre ++ [c]) = zlen pre + 1.
Proof. unfold zlen. rewrite app_length. cbn [length]. lia. Qed.

Lemma PutMany_loop sl crs ws : sl_is ws sl (map b_arg crs) ->
  forall rest pre im gm wt lg fuel, crs = pre ++ rest -> rel gm (m im) -> wt_ok wt -> (length rest < fuel)%nat ->
  let im' := im_putmany (map b_strip rest) im in
  let wl := notify_all (map b_key rest) wt lg ws in
  exists gm',
    iter fuel (Gen.service_PutMany_loop1 Record_mk Record_Key Record_Value Record_Version Record_ExpiresAt new_id chan_close sl)
         (zlen pre, Gen.mk_service gm wt) (kheap lg (nxt im) ws) =
      Ok ((zlen crs, Gen.mk_service gm' (fst wl)), kheap (snd wl) (nxt im') ws) /\
    rel gm' (m im') /\ wt_ok (fst wl).
Proof.
  intros Hsl. pose proof Hsl as (_ & _ & Hlen & _).
  induction rest as [|c rest IH]; intros pre im gm wt lg fuel Hc HR Hw Hf; cbv zeta.
  - destruct fuel as [|fuel]; [lia|]. rewrite iter_S. unfold Gen.service_PutMany_loop1 at 1.
    rewrite app_nil_r in Hc. subst pre.
    replace (zlen crs <? s_len sl) with false by (symmetry; apply Z.ltb_ge; unfold zlen in *; rewrite map_length in Hlen; lia).
    cbn [map im_putmany notify_all fst snd]. exists gm. split; [reflexivity|]. split; assumption.
  - destruct fuel as [|fuel]; [cbn [length] in Hf; lia|].
    destruct c as [[[k v] e] cv].
    assert (HR' : rel (mapset (kid k) (Record_mk (kid k) (vid v) (Z.of_nat (nxt im)) (oe e)) gm)
                      (m (fst (im_store k v e im)))).
    { change (Record_mk (kid k) (vid v) (Z.of_nat (nxt im)) (oe e)) with (enc_rec k (mkRec v (nxt im) e)).
      unfold im_store. cbn [fst m]. apply rel_set; assumption. }
    destruct (IH (pre ++ [(k, v, e, cv)]) (fst (im_store k v e im)) _ (fst (notify (kid k) wt lg ws))
                (snd (notify (kid k) wt lg ws)) fuel
                ltac:(rewrite <- app_assoc; exact Hc) HR' (wt_ok_notify (kid k) wt lg ws Hw) ltac:(cbn [length] in Hf; lia))
      as (gm' & E & HRf & Hwf).
    rewrite zlen_snoc in E. change (nxt (fst (im_store k v e im))) with (S (nxt im)) in E.
    cbn [map b_strip fst im_putmany b_key notify_all]. exists gm'. split; [|split; assumption].
    rewrite iter_S. unfold Gen.service_PutMany_loop1 at 1.
    replace (zlen pre <? s_len sl) with true
      by (symmetry; apply Z.ltb_lt; unfold zlen in *; rewrite map_length in Hlen; rewrite Hlen, Hc, app_length; cbn [length]; lia).
    rewrite !bind_assoc.
    assert (EL : load sl (zlen pre) (kheap lg (nxt im) ws) = Ok (arg_rec k v cv e, kheap lg (nxt im) ws)).
    { unfold zlen. rewrite (load_sl_is ws sl _ (length pre) lg (nxt im) Hsl)
        by (rewrite map_length, Hc, app_length; cbn [length]; lia).
      rewrite Hc, nth_mid. reflexivity. }
    rewrite (bind_ok _ _ _ _ _ EL). rewrite !bind_assoc.
    rewrite (bind_ok _ _ _ _ _ (Hnew _ _ _)). rec_simpl. svc_cbn. rewrite ?bind_assoc.
    rewrite (bind_ok _ _ _ _ _ (gen_notify_refines _ _ _ _ _ _ Hw)).
    rewrite bind_ret_l. exact E.
Qed.

Theorem gen_PutMany_refines im gm wt crs ctx sl lg ws : rel gm (m im) -> wt_ok wt -> sl_is ws sl (map b_arg crs) ->
  let im' := im_putmany (map b_strip crs) im in
  let wl := notify_all (map b_key crs) wt lg ws in
  exists gm',
    Gen.service_PutMany Record_mk Record_Key Record_Value Record_Version Record_ExpiresAt new_id chan_close
        (Gen.mk_service gm wt) ctx sl (kheap lg (nxt im) ws) =
      Ok ((Gen.mk_service gm' (fst wl), 0), kheap (snd wl) (nxt im') ws) /\
    rel gm' (m im') /\ wt_ok (fst wl).
Proof.
  intros HR Hw Hsl. cbv zeta. unfold Gen.service_PutMany.
  pose proof Hsl as (_ & _ & Hlen & _).
  destruct (PutMany_loop sl crs ws Hsl crs [] im gm wt lg (Z.to_nat (s_len sl) + 2)%nat eq_refl HR Hw
              ltac:(unfold zlen in Hlen; rewrite map_length in Hlen; lia)) as (gm' & E & HRf & Hwf).
  change (zlen (@nil brec)) with 0 in E. rewrite (bind_ok _ _ _ _ _ E).
  exists gm'. split; [reflexivity|]. split; assumption.
Qed.

(** * GetMany *)

(* the waiter table and the log along the look-ups *)
Fixpoint gm_wl (ks : list key) (im : imem) (wt : gomap) (lg : list Z) (ws : list (list Z)) : gomap * list Z :=
  match ks with
  | [] => (wt, lg)
  | k :: t => gm_wl t (fst (im_get now k im)) (fst (get_wl k wt lg ws (m im))) (snd (get_wl k wt lg ws (m im))) ws
  end.

(* the result array: position j points to the j-th cell allocated by the call when
   the key was found, and is nil otherwise; every iteration allocates the cell of its own [r] *)
Fixpoint ptrs_from (b : Z) (outs : list (option orec)) : list Z :=
  match outs with
  | [] => []
  | o :: t => (match o with Some _ => b | None => 0 end) :: ptrs_from (b + 1) t
  end.
Definition cell_of (o : option orec) : list Z := [match o with Some r => enc_orec r | None => zero_rec end].

Lemma ptrs_from_app b o1 o2 : ptrs_from b (o1 ++ o2) = ptrs_from b o1 ++ ptrs_from (b + zlen o1) o2.
Proof.
  revert b. induction o1 as [|o t IH]; intros b.
  - cbn [app ptrs_from]. unfold zlen. cbn [length]. rewrite Z.add_0_r. reflexivity.
  - cbn [app ptrs_from]. rewrite IH. unfold zlen. cbn [length]. do 3 f_equal. lia.
Qed.

Lemma length_ptrs_from b outs : length (ptrs_from b outs) = length outs.
Proof. revert b. induction outs as [|o t IH]; intros b; [reflexivity|]. cbn [ptrs_from length]. rewrite IH. reflexivity. Qed.

Lemma get_wl_app k wt lg ws x l : wt_in ws wt -> get_wl k wt lg (ws ++ x) l = get_wl k wt lg ws l.
Proof.
  intros H. unfold C03_GenFn_get.get_wl. destruct (lookup k l) as [r|]; [|reflexivity].
  destruct (expired now r); [apply notify_app; exact H|reflexivity].
Qed.

Lemma wt_in_get_wl ws k wt lg ws' l : wt_in ws wt -> wt_in ws (fst (get_wl k wt lg ws' l)).
Proof.
  intros H. unfold C03_GenFn_get.get_wl. destruct (lookup k l) as [r|]; [|exact H].
  destruct (expired now r); [apply wt_in_notify; exact H|exact H].
Qed.

Definition gm_heap (ws0 : list (list Z)) (outs : list (option orec)) (todo : nat) : list (list Z) :=
  ws0 ++ (ptrs_from (Z.of_nat (length ws0) + 4) outs ++ repeat 0 todo) :: map cell_of outs.

Lemma get_wl_gm_heap k wt lg ws0 outs n l : wt_in ws0 wt ->
  get_wl k wt lg (gm_heap ws0 outs n) l = get_wl k wt lg ws0 l.
Proof. apply get_wl_app. Qed.

Lemma GetMany_loop ws0 keys ks : sl_is ws0 keys (map kid ks) ->
  forall rest pre outs im gm wt lg fuel, ks = pre ++ rest -> length outs = length pre ->
  rel gm (m im) -> wt_in ws0 wt -> (length rest < fuel)%nat ->
  let r := im_getmany now rest im in
  let wl := gm_wl rest im wt lg ws0 in
  exists gm',
    iter fuel (Gen.service_GetMany_loop1 Record_mk Record_ExpiresAt ptime_val time_Now chan_close
                 (mkSl (S (S (length ws0))) 0 (zlen ks) (zlen ks)) keys)
         (zlen pre, Gen.mk_service gm wt) (kheap lg (nxt im) (gm_heap ws0 outs (length rest))) =
      Ok ((zlen ks, Gen.mk_service gm' (fst wl)), kheap (snd wl) (nxt (fst r)) (gm_heap ws0 (outs ++ snd r) 0)) /\
    rel gm' (m (fst r)) /\ wt_in ws0 (fst wl) /\ nxt (fst r) = nxt im.
Proof.
  intros Hsl. pose proof Hsl as (_ & _ & Hlen & _). unfold zlen in Hlen. rewrite map_length in Hlen.
  induction rest as [|k rest IH]; intros pre outs im gm wt lg fuel Hc Ho HR Hw Hf; cbv zeta.
  - destruct fuel as [|fuel]; [lia|]. rewrite iter_S. unfold Gen.service_GetMany_loop1 at 1.
    rewrite app_nil_r in Hc. subst pre.
    replace (zlen ks <? s_len keys) with false by (symmetry; apply Z.ltb_ge; unfold zlen; lia).
    cbn [im_getmany gm_wl fst snd]. rewrite app_nil_r. exists gm. split; [reflexivity|]. split; [exact HR|split; [exact Hw|reflexivity]].
  - destruct fuel as [|fuel]; [cbn [length] in Hf; lia|].
    pose proof (gen_get_refines im gm wt k lg (gm_heap ws0 outs (length (k :: rest))) HR (wt_in_ok _ _ Hw))
      as (E & HR1 & _ & Hn1).
    rewrite !get_wl_gm_heap in E by exact Hw.
    pose proof (wt_in_get_wl ws0 k wt lg ws0 (m im) Hw) as Hw1.
    cbn [im_getmany gm_wl].
    destruct (im_get now k im) as [im1 ro] eqn:Eg. cbn [fst snd] in *.
    set (o := option_map (as_orec k) ro).
    destruct (IH (pre ++ [k]) (outs ++ [o]) im1 (get_gm k gm (m im)) (fst (get_wl k wt lg ws0 (m im)))
                (snd (get_wl k wt lg ws0 (m im))) fuel
                ltac:(rewrite <- app_assoc; exact Hc) ltac:(rewrite !app_length, Ho; reflexivity) HR1 Hw1
                ltac:(cbn [length] in Hf; lia)) as (gm' & EI & HRf & Hwf & Hnf).
    destruct (im_getmany now rest im1) as [imf rs] eqn:Er. cbn [fst snd] in *.
    rewrite <- app_assoc in EI. cbn [app] in EI. rewrite zlen_snoc in EI.
    exists gm'. split; [|split; [exact HRf|split; [exact Hwf|congruence]]].
    rewrite iter_S. unfold Gen.service_GetMany_loop1 at 1.
    replace (zlen pre <? s_len keys) with true
      by (symmetry; apply Z.ltb_lt; unfold zlen; rewrite Hlen, Hc, app_length; cbn [length]; lia).
    rewrite !bind_assoc.
    assert (EL : forall lg' n', load keys (zlen pre) (kheap lg' n' (gm_heap ws0 outs (length (k :: rest)))) =
                 Ok (kid k, kheap lg' n' (gm_heap ws0 outs (length (k :: rest))))).
    { intros lg' n'. unfold zlen, gm_heap.
      rewrite (load_sl_is _ keys _ (length pre) lg' n' (sl_is_app ws0 _ keys _ Hsl))
        by (rewrite map_length, Hc, app_length; cbn [length]; lia).
      rewrite Hc, nth_mid. reflexivity. }
    rewrite (bind_ok _ _ _ _ _ (EL _ _)). rewrite !bind_assoc.
    rewrite (bind_ok _ _ _ _ _ E). rewrite Hn1 in *.
    rewrite !bind_assoc, obj_new_kheap, !bind_assoc, cell_store. unfold gm_heap.
    assert (Ecell : [fst (enc_get k ro)] = cell_of o).
    { unfold o, cell_of. destruct ro as [r|]; cbn [enc_get fst option_map]; [|reflexivity].
      unfold as_orec. rec_simpl. reflexivity. }
    assert (Eok : snd (enc_get k ro) = match o with Some _ => true | None => false end).
    { unfold o. destruct ro; reflexivity. }
    rewrite Eok.
    assert (Eptr : Z.of_nat (length (ws0 ++ (ptrs_from (Z.of_nat (length ws0) + 4) outs ++ repeat 0 (length (k :: rest)))
                                         :: map cell_of outs)) + 3 = Z.of_nat (length ws0) + 4 + zlen outs).
    { rewrite app_length. cbn [length]. rewrite map_length. unfold zlen. lia. }
    rewrite Eptr. rewrite <- app_assoc. cbn [app]. rewrite Ecell.
    replace (map cell_of outs ++ [cell_of o]) with (map cell_of (outs ++ [o])) by (rewrite map_app; reflexivity).
    assert (Elen : zlen (ptrs_from (Z.of_nat (length ws0) + 4) outs) = zlen pre).
    { unfold zlen. rewrite length_ptrs_from, Ho. reflexivity. }
    cbn [length repeat].
    assert (Earr : zlen (ptrs_from (Z.of_nat (length ws0) + 4) outs ++ 0 :: repeat 0 (length rest)) = zlen ks).
    { unfold zlen. rewrite app_length, length_ptrs_from, Ho. cbn [length]. rewrite repeat_length, Hc, app_length. cbn [length]. lia. }
    assert (Enext : ptrs_from (Z.of_nat (length ws0) + 4) (outs ++ [o]) =
                    ptrs_from (Z.of_nat (length ws0) + 4) outs ++ [match o with Some _ => Z.of_nat (length ws0) + 4 + zlen outs | None => 0 end]).
    { rewrite ptrs_from_app. reflexivity. }
    destruct o as [r|] eqn:Eo; cbn [negb].
    + rewrite <- Elen. rewrite !bind_assoc.
      rewrite (bind_ok _ _ _ _ _ (store_res ws0 _ 0 _ _ _ (zlen ks) _ _ Earr)).
      rewrite bind_ret_l. rewrite Elen. unfold gm_heap in EI. rewrite Enext in EI. rewrite <- app_assoc in EI. cbn [app] in EI.
      exact EI.
    + rewrite bind_ret_l. unfold gm_heap in EI. rewrite Enext in EI. rewrite <- app_assoc in EI. cbn [app] in EI.
      exact EI.
Qed.

(* the generated GetMany: the keys are a slice among [ws]; the result is the fresh array
   number [length ws] of [ws], followed by one cell per position *)
Theorem gen_GetMany_refines im gm wt ks ctx keys lg ws : rel gm (m im) -> wt_in ws wt -> sl_is ws keys (map kid ks) ->
  zlen ks < 9223372036854775808 ->
  let r := im_getmany now ks im in
  let wl := gm_wl ks im wt lg ws in
  exists gm',
    Gen.service_GetMany Record_mk Record_ExpiresAt ptime_val time_Now chan_close
        (Gen.mk_service gm wt) ctx keys (kheap lg (nxt im) ws) =
      Ok ((Gen.mk_service gm' (fst wl), mkSl (S (S (length ws))) 0 (zlen ks) (zlen ks), 0),
          kheap (snd wl) (nxt (fst r))
                (ws ++ ptrs_from (Z.of_nat (length ws) + 4) (snd r) :: map cell_of (snd r))) /\
    rel gm' (m (fst r)) /\ wt_in ws (fst wl) /\ nxt (fst r) = nxt im.
Proof.
  intros HR Hw Hsl Hb. cbv zeta. unfold Gen.service_GetMany.
  pose proof Hsl as (_ & _ & Hlen & _ ). unfold zlen in Hlen. rewrite map_length in Hlen. fold (zlen ks) in Hlen.
  rewrite Hlen.
  rewrite (bind_ok _ _ _ _ _ (gomake_kheap (zlen ks) lg (nxt im) ws ltac:(unfold zlen in *; lia))).
  cbn [s_len].
  destruct (GetMany_loop ws keys ks Hsl ks [] [] im gm wt lg (Z.to_nat (zlen ks + zlen ks) + 2)%nat
              eq_refl eq_refl HR Hw ltac:(unfold zlen; lia)) as (gm' & E & HRf & Hwf & Hnf).
  unfold gm_heap in E. cbn [ptrs_from map app] in E. change (zlen (@nil key)) with 0 in E.
  replace (Z.to_nat (zlen ks)) with (length ks) by (unfold zlen; lia).
  rewrite (bind_ok _ _ _ _ _ E). rewrite app_nil_r.
  exists gm'. split; [reflexivity|]. split; [exact HRf|split; [exact Hwf|exact Hnf]].
Qed.

(* what the caller reads through the pointers: per position the record VALUE found at that time *)
Definition enc_recs (outs : list (option orec)) : list Z :=
  flat_map (fun o => match o with Some r => [1; enc_orec r] | None => [0; 0] end) outs.

Lemma deref_ptrs lg n ws outs : forall pre arr,
  flat_map (deref (kheap lg n (ws ++ arr :: map cell_of (pre ++ outs))))
           (ptrs_from (Z.of_nat (length ws) + 4 + zlen pre) outs) = enc_recs outs.
Proof.
  induction outs as [|o t IH]; intros pre arr; [reflexivity|].
  cbn [ptrs_from flat_map enc_recs]. fold (enc_recs t). f_equal.
  - destruct o as [r|]; [|reflexivity]. unfold deref.
    replace (Z.of_nat (length ws) + 4 + zlen pre =? 0) with false by (symmetry; apply Z.eqb_neq; unfold zlen; lia).
    rewrite arr_get_kheap by (unfold obj_arr, zlen; lia).
    replace (obj_arr (Z.of_nat (length ws) + 4 + zlen pre) - 2)%nat with (length ws + S (length pre))%nat
      by (unfold obj_arr, zlen; lia).
    rewrite app_nth2 by lia. replace (length ws + S (length pre) - length ws)%nat with (S (length pre)) by lia.
    cbn [nth]. rewrite map_app, app_nth2 by (rewrite map_length; lia). rewrite map_length, Nat.sub_diag. reflexivity.
  - specialize (IH (pre ++ [o]) arr). rewrite <- app_assoc in IH. cbn [app] in IH.
    rewrite zlen_snoc in IH. rewrite <- IH. do 2 f_equal. lia.
Qed.

Lemma read_GetMany lg n ws outs :
  read_recs (mkSl (S (S (length ws))) 0 (zlen outs) (zlen outs))
            (kheap lg n (ws ++ ptrs_from (Z.of_nat (length ws) + 4) outs :: map cell_of outs)) =
  Ok (enc_recs outs, kheap lg n (ws ++ ptrs_from (Z.of_nat (length ws) + 4) outs :: map cell_of outs)).
Proof.
  unfold read_recs, sl_get. cbn [s_arr s_off s_len]. rewrite arr_get_kheap by lia.
  replace (S (S (length ws)) - 2)%nat with (length ws) by lia. rewrite app_nth2, Nat.sub_diag by lia. cbn [nth].
  replace (zlen outs) with (zlen (ptrs_from (Z.of_nat (length ws) + 4) outs)) by (unfold zlen; rewrite length_ptrs_from; reflexivity).
  rewrite zsub_all.
  pose proof (deref_ptrs lg n ws outs [] (ptrs_from (Z.of_nat (length ws) + 4) outs)) as H.
  change (zlen (@nil (option orec))) with 0 in H. rewrite Z.add_0_r in H. cbn [app] in H. rewrite H. reflexivity.
Qed.

Lemma length_getmany : forall ks im, length (snd (im_getmany now ks im)) = length ks.
Proof.
  induction ks as [|k t IH]; intros im; [reflexivity|]. cbn [im_getmany].
  destruct (im_get now k im) as [s1 r]. specialize (IH s1). destruct (im_getmany now t s1) as [s2 rs].
  cbn [snd length] in *. rewrite IH. reflexivity.
Qed.

End Batch.

(** * What the fold says (model side): versions in the order of the slice, the last write of a key wins *)

Lemma im_putmany_app rs1 : forall rs2 im, im_putmany (rs1 ++ rs2) im = im_putmany rs2 (im_putmany rs1 im).
Proof. induction rs1 as [|[[k v] e] t IH]; intros rs2 im; [reflexivity|]. cbn [app im_putmany]. apply IH. Qed.

Lemma im_putmany_nxt rs : forall im, nxt (im_putmany rs im) = (nxt im + length rs)%nat.
Proof.
  induction rs as [|[[k v] e] t IH]; intros im; cbn [im_putmany length]; [lia|]. rewrite IH. unfold im_store. cbn [fst nxt]. lia.
Qed.

(* the record written at position [length rs] of a batch gets the version [nxt + length rs]
   and is what a look-up of its key finds right after it was written *)
Lemma im_putmany_last rs k v e im :
  lookup k (m (im_putmany (rs ++ [(k, v, e)]) im)) = Some (mkRec v (nxt im + length rs) e).
Proof.
  rewrite im_putmany_app. cbn [im_putmany]. unfold im_store. cbn [fst m].
  rewrite lookup_alookup, set_aset, alookup_set_same, im_putmany_nxt. reflexivity.
Qed.

(* a later record with another key does not disturb it *)
Lemma im_putmany_other rs k k' v e im : k' <> k ->
  lookup k (m (im_putmany (rs ++ [(k', v, e)]) im)) = lookup k (m (im_putmany rs im)).
Proof.
  intros Hne. rewrite im_putmany_app. cbn [im_putmany]. unfold im_store. cbn [fst m].
  rewrite !lookup_alookup, set_aset, alookup_set_other by exact Hne. reflexivity.
Qed.

Print Assumptions gen_PutMany_refines.
Print Assumptions gen_GetMany_refines.
