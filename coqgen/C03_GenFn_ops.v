(** C03/C06, translator tie, group "ops": [New], [Create], [Get], [Put],
    [CasByVersion], [Delete] of /repo/kvs/inmem/inmem.go as translated on this
    run (Gen_inmem.v) against model/InmemKV.v: same result class (nil / ErrExist
    with the stored version / ErrNotExist / ErrConflict as the codes 0 / 1 / 2 /
    3), same returned record, related map, the counter of version ids, and the
    notification log: the waiter record of the written (or lazily dropped) key,
    and only it, is closed and removed.

    The parameters of the generated code and what is assumed of them: see
    KV_GenVocab.v ([rec_spec], [ptime_spec], [now_spec], [newid_spec],
    [close_spec], [ctx_spec]). *)
Set Warnings "-notation-overridden,-parsing".
From Coq Require Import List ZArith NArith Arith Bool Lia.
From GL Require Import spec.KV model.InmemKV proofs.C03_KV.
From GL Require Import lib.GoLite lib.GoLitePtr.
From GLGEN Require Import KV_GenVocab Gen_inmem C03_GenFn_get.
Import ListNotations.
Open Scope Z_scope.

(* results as (value, error code) *)
Section Ops.

Variable kid : key -> Z.
Variable vid : value -> Z.
Hypothesis kid_inj : forall a b, kid a = kid b -> a = b.
Variable Record_mk : Z -> Z -> Z -> Z -> Z.
Variables Record_Key Record_Value Record_Version Record_ExpiresAt : Z -> Z.
Hypothesis Hrec : rec_spec Record_mk Record_Key Record_Value Record_Version Record_ExpiresAt.
Variable ptime_val : Z -> Z.
Hypothesis Hpt : ptime_spec ptime_val.
Variable now : Z.
Variable time_Now : M Z.
Hypothesis Hnow : now_spec now time_Now.
Variable new_id : M Z.
Hypothesis Hnew : newid_spec new_id.
Variable chan_close : Z -> M unit.
Hypothesis Hclose : close_spec chan_close.
Variable ctx_Err : Z -> M Z.
Hypothesis Hctx : ctx_spec ctx_Err.

Notation enc_rec := (enc_rec kid vid Record_mk).
Notation enc_orec := (enc_orec kid vid Record_mk).
Notation zero_rec := (zero_rec Record_mk).
Notation arg_rec := (arg_rec kid vid Record_mk).
Notation rel := (rel kid vid Record_mk).

Lemma rK_ a b c d : Record_Key (Record_mk a b c d) = a. Proof. apply Hrec. Qed.
Lemma rV_ a b c d : Record_Value (Record_mk a b c d) = b. Proof. apply Hrec. Qed.
Lemma rN_ a b c d : Record_Version (Record_mk a b c d) = c. Proof. apply Hrec. Qed.
Lemma rE_ a b c d : Record_ExpiresAt (Record_mk a b c d) = d. Proof. apply Hrec. Qed.

Ltac rec_simpl := unfold KV_GenVocab.enc_rec, KV_GenVocab.arg_rec, KV_GenVocab.enc_orec in *; rewrite ?rK_, ?rV_, ?rN_, ?rE_ in *.

Notation enc_out := (C03_GenFn_get.enc_out kid vid Record_mk).

Ltac svc_cbn :=
  unfold Gen.set_service_recs, Gen.set_service_verChange in *;
  cbn [Gen.service_recs Gen.service_verChange] in *.

Notation get_gm := (C03_GenFn_get.get_gm kid now).
Notation get_wl := (C03_GenFn_get.get_wl kid now).
Notation enc_get := (C03_GenFn_get.enc_get kid vid Record_mk).
Notation gen_notify_refines := (C03_GenFn_get.gen_notify_refines chan_close Hclose).
Notation gen_get_refines := (C03_GenFn_get.gen_get_refines kid vid kid_inj Record_mk Record_Key Record_Value Record_Version Record_ExpiresAt Hrec ptime_val Hpt now time_Now Hnow chan_close Hclose).

(** * The operations *)

Theorem gen_New_refines h : Gen.New h = Ok (Gen.mk_service [] [], h).
Proof. reflexivity. Qed.

(* the statement shape: the generated method, on a related state, returns the
   encoded output of the model with a related map, a well-formed waiter table
   [wt'] and the log [lg'] *)
Definition op_post (res : outcome ((Gen.service * Z * Z) * heap)) (o : out) (im' : imem)
    (wt' : gomap) (lg' : list Z) (ws : list (list Z)) : Prop :=
  exists gm', res = Ok ((Gen.mk_service gm' wt', fst (enc_out o), snd (enc_out o)), kheap lg' (nxt im') ws) /\
              rel gm' (m im') /\ wt_ok wt'.

Theorem gen_Get_refines im gm wt k ctx lg ws : rel gm (m im) -> wt_ok wt ->
  op_post (Gen.service_Get Record_mk Record_ExpiresAt ptime_val time_Now chan_close (Gen.mk_service gm wt) ctx (kid k)
             (kheap lg (nxt im) ws))
          (snd (im_getop now k im)) (fst (im_getop now k im))
          (fst (get_wl k wt lg ws (m im))) (snd (get_wl k wt lg ws (m im))) ws.
Proof.
  intros HR Hw. destruct (gen_get_refines im gm wt k lg ws HR Hw) as (E & HR1 & Hw1 & Hn1).
  unfold Gen.service_Get, im_getop, op_post. rewrite (bind_ok _ _ _ _ _ E).
  destruct (im_get now k im) as [im1 ro]. cbn [fst snd] in *. exists (get_gm k gm (m im)).
  destruct ro as [r|]; cbn [enc_get fst snd negb enc_out]; rewrite Hn1; (split; [|split; assumption]).
  - unfold as_orec, KV_GenVocab.enc_orec, KV_GenVocab.enc_rec. reflexivity.
  - reflexivity.
Qed.

Theorem gen_Create_refines im gm wt k v ver0 e lg ws : rel gm (m im) -> wt_ok wt ->
  op_post (Gen.service_Create ctx_Err Record_mk Record_ExpiresAt ptime_val time_Now chan_close Record_Key Record_Version
             Record_Value new_id (Gen.mk_service gm wt) 0 (arg_rec k v ver0 e) (kheap lg (nxt im) ws))
          (snd (im_create now k v e im)) (fst (im_create now k v e im))
          (fst (get_wl k wt lg ws (m im))) (snd (get_wl k wt lg ws (m im))) ws.
Proof.
  intros HR Hw. destruct (gen_get_refines im gm wt k lg ws HR Hw) as (E & HR1 & Hw1 & Hn1).
  unfold Gen.service_Create, im_create, op_post. rewrite (bind_ok _ _ _ _ _ (Hctx _ _)). rewrite Z.eqb_refl. cbn [negb].
  rec_simpl. rewrite (bind_ok _ _ _ _ _ E).
  destruct (im_get now k im) as [im1 ro]. cbn [fst snd] in *.
  destruct ro as [r|]; cbn [enc_get fst snd im_store enc_out].
  - exists (get_gm k gm (m im)). rec_simpl. rewrite Hn1. auto.
  - rewrite <- Hn1. rewrite (bind_ok _ _ _ _ _ (Hnew _ _ _)). rec_simpl. svc_cbn. cbn [m nxt].
    eexists. split; [reflexivity|]. split; [|exact Hw1].
    change (Record_mk (kid k) (vid v) (Z.of_nat (nxt im1)) (oe e)) with (enc_rec k (mkRec v (nxt im1) e)).
    apply rel_set; assumption.
Qed.

Theorem gen_Put_refines im gm wt k v ver0 e ctx lg ws : rel gm (m im) -> wt_ok wt ->
  op_post (Gen.service_Put Record_mk Record_Key Record_Value Record_Version Record_ExpiresAt new_id chan_close
             (Gen.mk_service gm wt) ctx (arg_rec k v ver0 e) (kheap lg (nxt im) ws))
          (snd (im_put k v e im)) (fst (im_put k v e im))
          (fst (notify (kid k) wt lg ws)) (snd (notify (kid k) wt lg ws)) ws.
Proof.
  intros HR Hw. unfold Gen.service_Put, im_put, im_store, op_post. cbn [fst snd enc_out m nxt].
  rewrite (bind_ok _ _ _ _ _ (Hnew _ _ _)). rec_simpl. svc_cbn.
  rewrite (bind_ok _ _ _ _ _ (gen_notify_refines _ _ _ _ _ _ Hw)).
  eexists. split; [reflexivity|]. split; [|apply wt_ok_notify; exact Hw].
  change (Record_mk (kid k) (vid v) (Z.of_nat (nxt im)) (oe e)) with (enc_rec k (mkRec v (nxt im) e)).
  apply rel_set; assumption.
Qed.

Theorem gen_Cas_refines im gm wt k v e expected ctx lg ws : rel gm (m im) -> wt_ok wt ->
  let o := snd (im_cas now k v e expected im) in
  let wl1 := get_wl k wt lg ws (m im) in
  let wl := match o with ORec _ => notify (kid k) (fst wl1) (snd wl1) ws | _ => wl1 end in
  op_post (Gen.service_CasByVersion Record_mk Record_ExpiresAt ptime_val time_Now chan_close Record_Key Record_Version
             Record_Value new_id (Gen.mk_service gm wt) ctx (arg_rec k v (Z.of_nat expected) e) (kheap lg (nxt im) ws))
          o (fst (im_cas now k v e expected im)) (fst wl) (snd wl) ws.
Proof.
  intros HR Hw. destruct (gen_get_refines im gm wt k lg ws HR Hw) as (E & HR1 & Hw1 & Hn1).
  cbv zeta. unfold Gen.service_CasByVersion, im_cas, op_post. rec_simpl. rewrite (bind_ok _ _ _ _ _ E).
  destruct (im_get now k im) as [im1 ro]. cbn [fst snd] in *.
  destruct ro as [r|]; cbn [enc_get fst snd negb enc_out].
  - rec_simpl.
    (* the comparison of the two version ids, whichever way round it is written *)
    destruct (Nat.eqb_spec (ver r) expected) as [Heq|Hne];
      match goal with |- context [Z.of_nat ?a =? Z.of_nat ?b] => destruct (Z.eqb_spec (Z.of_nat a) (Z.of_nat b)) end;
      try lia; cbn [negb im_store fst snd enc_out m nxt].
    + rewrite <- Hn1. rewrite (bind_ok _ _ _ _ _ (Hnew _ _ _)). rec_simpl. svc_cbn.
      rewrite (bind_ok _ _ _ _ _ (gen_notify_refines _ _ _ _ _ _ Hw1)).
      eexists. split; [reflexivity|]. split; [|apply wt_ok_notify; exact Hw1].
      change (Record_mk (kid k) (vid v) (Z.of_nat (nxt im1)) (oe e)) with (enc_rec k (mkRec v (nxt im1) e)).
      apply rel_set; assumption.
    + exists (get_gm k gm (m im)). rewrite Hn1. auto.
  - exists (get_gm k gm (m im)). rewrite Hn1. auto.
Qed.

(* Delete returns only the error *)
Theorem gen_Delete_refines im gm wt k ctx lg ws : rel gm (m im) -> wt_ok wt ->
  let o := snd (im_delete now k im) in
  let im' := fst (im_delete now k im) in
  let wl1 := get_wl k wt lg ws (m im) in
  let wl := match o with OOk => notify (kid k) (fst wl1) (snd wl1) ws | _ => wl1 end in
  exists gm',
    Gen.service_Delete Record_mk Record_ExpiresAt ptime_val time_Now chan_close (Gen.mk_service gm wt) ctx (kid k)
        (kheap lg (nxt im) ws) =
      Ok ((Gen.mk_service gm' (fst wl), snd (enc_out o)), kheap (snd wl) (nxt im') ws) /\
    rel gm' (m im') /\ wt_ok (fst wl).
Proof.
  intros HR Hw. destruct (gen_get_refines im gm wt k lg ws HR Hw) as (E & HR1 & Hw1 & Hn1).
  cbv zeta. unfold Gen.service_Delete, im_delete. rewrite (bind_ok _ _ _ _ _ E).
  destruct (im_get now k im) as [im1 ro]. cbn [fst snd] in *.
  destruct ro as [r|]; cbn [enc_get fst snd negb enc_out m nxt].
  - svc_cbn. rewrite (bind_ok _ _ _ _ _ (gen_notify_refines _ _ _ _ _ _ Hw1)). rewrite Hn1.
    eexists. split; [reflexivity|]. split; [apply rel_del; assumption|apply wt_ok_notify; exact Hw1].
  - exists (get_gm k gm (m im)). rewrite Hn1. auto.
Qed.

End Ops.

Print Assumptions gen_Get_refines.
Print Assumptions gen_Create_refines.
Print Assumptions gen_Put_refines.
Print Assumptions gen_Cas_refines.
Print Assumptions gen_Delete_refines.
