(** C03/C06, translator tie, run level: the glue [gen_step] / [gen_run] that
    drives the code GENERATED from /repo/kvs/inmem/inmem.go (Gen_inmem.v) by a
    history of storage calls with their instants, [gen_step_refines],
    [gen_run_refines] (against [im_run] of model/InmemKV.v, for EVERY history
    and every starting state), and the headlines

      gen_inmem_refines_kv : for every history of Create / Get / Put /
      CasByVersion / Delete calls whose instants do not decrease, the results of
      the generated code are those of the contract spec/KV.v (composition with
      [C03_inmem_refines_kv]);
      gen_expired_eq_deleted (C06): a generated state whose map still holds an
      expired record and one without it answer every later history alike.

    Results are compared as (value, error code, list): [enc_res].  Literal
    implementations of the parameters (ids of byte strings by an injective
    pairing, the record packing, the clock, the version counter in the heap,
    channels that log their close, contexts) discharge the assumptions.
    GetMany / PutMany / ListKeys / WaitForVersionChange are not driven here. *)
Set Warnings "-notation-overridden,-parsing".
From Coq Require Import List ZArith NArith Arith Bool Lia.
From GL Require Import spec.KV model.InmemKV proofs.C03_KV proofs.C03_Inmem proofs.C06_Expiry proofs.C06_Lazy.
From GL Require Import lib.GoLite lib.GoLitePtr.
From GLGEN Require Import KV_GenVocab Gen_inmem C03_GenFn_get C03_GenFn_ops C03_GenFn_batch.
Import ListNotations.
Open Scope Z_scope.

Definition gout : Type := (Z * Z * list Z)%type.

(* the operations driven by the glue: all but ListKeys (WaitForVersionChange is no [op]) *)
Definition tied_op (o : op) : Prop :=
  match o with
  | ListKeys _ => False
  | GetMany ks => zlen ks < 9223372036854775808      (* make([]*Record, len(keys)) *)
  | _ => True
  end.
Definition scalar_op (o : op) : Prop :=
  match o with GetMany _ | PutMany _ | ListKeys _ => False | _ => True end.
Lemma scalar_tied o : scalar_op o -> tied_op o.
Proof. destruct o; cbn; tauto. Qed.

Section Run.

Variable kid : key -> Z.
Variable vid : value -> Z.
Hypothesis kid_inj : forall a b, kid a = kid b -> a = b.
Variable Record_mk : Z -> Z -> Z -> Z -> Z.
Variables Record_Key Record_Value Record_Version Record_ExpiresAt : Z -> Z.
Hypothesis Hrec : rec_spec Record_mk Record_Key Record_Value Record_Version Record_ExpiresAt.
Variable ptime_val : Z -> Z.
Hypothesis Hpt : ptime_spec ptime_val.
Variable time_Now : Z -> M Z.          (* the clock read at the instant of the call *)
Hypothesis Hnow : forall now, now_spec now (time_Now now).
Variable new_id : M Z.
Hypothesis Hnew : newid_spec new_id.
Variable chan_close : Z -> M unit.
Hypothesis Hclose : close_spec chan_close.
Variable ctx_Err : Z -> M Z.
Hypothesis Hctx : ctx_spec ctx_Err.

Notation enc_out := (C03_GenFn_get.enc_out kid vid Record_mk).
Notation arg_rec := (arg_rec kid vid Record_mk).
Notation rel := (rel kid vid Record_mk).
Notation enc_recs := (C03_GenFn_batch.enc_recs kid vid Record_mk).

(* the result of a call as the generated code returns it (for GetMany: as read through
   the returned pointers) *)
Definition enc_res (o : op) (x : out) : gout :=
  match o with
  | Delete _ => (0, snd (enc_out x), [])
  | GetMany _ => match x with ORecs rs => (0, 0, enc_recs rs) | _ => (0, -1, []) end
  | _ => (fst (enc_out x), snd (enc_out x), [])
  end.

Definition put_arg (r : key * value * option Z) : Z := let '(k, v, e) := r in arg_rec k v 0 e.

Definition gen_step (s : Gen.service) (now : Z) (o : op) : M (Gen.service * gout) :=
  match o with
  | Create k v e =>
      r <- Gen.service_Create ctx_Err Record_mk Record_ExpiresAt ptime_val (time_Now now) chan_close Record_Key
             Record_Version Record_Value new_id s 0 (arg_rec k v 0 e) ;;
      ret (fst (fst r), (snd (fst r), snd r, []))
  | Get k =>
      r <- Gen.service_Get Record_mk Record_ExpiresAt ptime_val (time_Now now) chan_close s 0 (kid k) ;;
      ret (fst (fst r), (snd (fst r), snd r, []))
  | Put k v e =>
      r <- Gen.service_Put Record_mk Record_Key Record_Value Record_Version Record_ExpiresAt new_id chan_close s 0
             (arg_rec k v 0 e) ;;
      ret (fst (fst r), (snd (fst r), snd r, []))
  | CasByVersion k v e expected =>
      r <- Gen.service_CasByVersion Record_mk Record_ExpiresAt ptime_val (time_Now now) chan_close Record_Key
             Record_Version Record_Value new_id s 0 (arg_rec k v (Z.of_nat expected) e) ;;
      ret (fst (fst r), (snd (fst r), snd r, []))
  | Delete k =>
      r <- Gen.service_Delete Record_mk Record_ExpiresAt ptime_val (time_Now now) chan_close s 0 (kid k) ;;
      ret (fst r, (0, snd r, []))
  | PutMany rs =>
      sl <- alloc_arr (map put_arg rs) ;;        (* the slice of the records: a new array *)
      r <- Gen.service_PutMany Record_mk Record_Key Record_Value Record_Version Record_ExpiresAt new_id chan_close s 0 sl ;;
      ret (fst r, (0, snd r, []))
  | GetMany ks =>
      sl <- alloc_arr (map kid ks) ;;            (* the variadic keys: a new array *)
      r <- Gen.service_GetMany Record_mk Record_ExpiresAt ptime_val (time_Now now) chan_close s 0 sl ;;
      l <- read_recs (snd (fst r)) ;;            (* the caller dereferences the result *)
      ret (fst (fst r), (0, snd r, l))
  | ListKeys _ => gopanic      (* not driven by this glue *)
  end.

Fixpoint gen_run (s : Gen.service) (ops : list (Z * op)) (h : heap) : option (list gout * Gen.service * heap) :=
  match ops with
  | [] => Some ([], s, h)
  | (now, o) :: t =>
      match gen_step s now o h with
      | Ok ((s', x), h') =>
          match gen_run s' t h' with
          | Some (xs, sf, hf) => Some (x :: xs, sf, hf)
          | None => None
          end
      | _ => None
      end
  end.

Fixpoint enc_outs (ops : list (Z * op)) (xs : list out) : list gout :=
  match ops, xs with
  | (_, o) :: t, x :: xt => enc_res o x :: enc_outs t xt
  | _, _ => []
  end.

Lemma wt_in_notify_all ws ks : forall wt lg ws', wt_in ws wt -> wt_in ws (fst (notify_all ks wt lg ws')).
Proof.
  induction ks as [|k t IH]; intros wt lg ws' H; [exact H|]. cbn [notify_all]. apply IH. apply wt_in_notify. exact H.
Qed.

(* the arrays [ws] only grow (argument slices, result arrays, cells): [ws'] extends [ws] *)
Theorem gen_step_refines im gm wt now o lg ws : rel gm (m im) -> wt_in ws wt -> tied_op o ->
  exists gm' wt' lg' ws',
    gen_step (Gen.mk_service gm wt) now o (kheap lg (nxt im) ws) =
      Ok ((Gen.mk_service gm' wt', enc_res o (snd (im_step im now o))), kheap lg' (nxt (fst (im_step im now o))) ws') /\
    rel gm' (m (fst (im_step im now o))) /\ wt_in ws' wt'.
Proof.
  intros HR Hi Hs. pose proof (wt_in_ok _ _ Hi) as Hw.
  destruct o as [k v e|k|ks|k v e|rs|k v e n|k|pat]; try contradiction; cbn [gen_step im_step enc_res].
  - destruct (gen_Create_refines kid vid kid_inj Record_mk Record_Key Record_Value Record_Version Record_ExpiresAt Hrec
                ptime_val Hpt now (time_Now now) (Hnow now) new_id Hnew chan_close Hclose ctx_Err Hctx
                im gm wt k v 0 e lg ws HR Hw) as (gm' & E & HR' & Hw').
    rewrite (bind_ok _ _ _ _ _ E). unfold ret. cbn [fst snd].
    do 4 eexists. split; [reflexivity|]. split; [exact HR'|]. apply wt_in_get_wl. exact Hi.
  - destruct (gen_Get_refines kid vid kid_inj Record_mk Record_Key Record_Value Record_Version Record_ExpiresAt Hrec
                ptime_val Hpt now (time_Now now) (Hnow now) chan_close Hclose
                im gm wt k 0 lg ws HR Hw) as (gm' & E & HR' & Hw').
    rewrite (bind_ok _ _ _ _ _ E). unfold ret. cbn [fst snd].
    do 4 eexists. split; [reflexivity|]. split; [exact HR'|]. apply wt_in_get_wl. exact Hi.
  - (* GetMany *)
    rewrite (bind_ok _ _ _ _ _ (alloc_arr_kheap _ _ _ _)).
    destruct (gen_GetMany_refines kid vid kid_inj Record_mk Record_Key Record_Value Record_Version Record_ExpiresAt Hrec
                ptime_val Hpt now (time_Now now) (Hnow now) chan_close Hclose
                im gm wt ks 0 _ lg (ws ++ [map kid ks]) HR (wt_in_app _ _ _ Hi)
                (sl_is_alloc ws (map kid ks)) Hs) as (gm' & E & HR' & Hi' & Hn').
    cbv zeta in E. rewrite (bind_ok _ _ _ _ _ E). cbn [fst snd].
    destruct (im_getmany now ks im) as [im' outs] eqn:Eg. cbn [fst snd] in *.
    assert (Hl : zlen ks = zlen outs).
    { unfold zlen. f_equal. pose proof (length_getmany now ks im) as L. rewrite Eg in L. cbn [snd] in L. lia. }
    rewrite Hl. rewrite (bind_ok _ _ _ _ _ (read_GetMany kid vid Record_mk _ _ _ outs)). unfold ret.
    do 4 eexists. split; [reflexivity|]. split; [exact HR'|]. apply wt_in_app. exact Hi'.
  - destruct (gen_Put_refines kid vid kid_inj Record_mk Record_Key Record_Value Record_Version Record_ExpiresAt Hrec
                new_id Hnew chan_close Hclose
                im gm wt k v 0 e 0 lg ws HR Hw) as (gm' & E & HR' & Hw').
    rewrite (bind_ok _ _ _ _ _ E). unfold ret. cbn [fst snd].
    do 4 eexists. split; [reflexivity|]. split; [exact HR'|]. apply wt_in_notify. exact Hi.
  - (* PutMany *)
    rewrite (bind_ok _ _ _ _ _ (alloc_arr_kheap _ _ _ _)).
    set (crs := map (fun r : key * value * option Z => (r, 0)) rs).
    assert (Ea : map put_arg rs = map (b_arg kid vid Record_mk) crs).
    { unfold crs. rewrite map_map. apply map_ext. intros [[k v] e]. reflexivity. }
    assert (Es : map b_strip crs = rs).
    { unfold crs. rewrite map_map. cbn [b_strip fst]. apply map_id. }
    destruct (gen_PutMany_refines kid vid kid_inj Record_mk Record_Key Record_Value Record_Version Record_ExpiresAt Hrec
                new_id Hnew chan_close Hclose
                im gm wt crs 0 _ lg (ws ++ [map put_arg rs]) HR Hw
                ltac:(rewrite <- Ea; exact (sl_is_alloc ws (map put_arg rs)))) as (gm' & E & HR' & Hw').
    cbv zeta in E. rewrite Es in E, HR'. rewrite (bind_ok _ _ _ _ _ E). unfold ret. cbn [fst snd].
    do 4 eexists. split; [reflexivity|]. split; [exact HR'|]. apply wt_in_notify_all. apply wt_in_app. exact Hi.
  - pose proof (gen_Cas_refines kid vid kid_inj Record_mk Record_Key Record_Value Record_Version Record_ExpiresAt Hrec
                ptime_val Hpt now (time_Now now) (Hnow now) new_id Hnew chan_close Hclose
                im gm wt k v e n 0 lg ws HR Hw) as G. cbv zeta in G. destruct G as (gm' & E & HR' & Hw').
    rewrite (bind_ok _ _ _ _ _ E). unfold ret. cbn [fst snd].
    do 4 eexists. split; [reflexivity|]. split; [exact HR'|].
    destruct (snd (im_cas now k v e n im)); try (apply wt_in_get_wl; exact Hi).
    apply wt_in_notify. apply wt_in_get_wl. exact Hi.
  - pose proof (gen_Delete_refines kid vid kid_inj Record_mk Record_Key Record_Value Record_Version Record_ExpiresAt Hrec
                ptime_val Hpt now (time_Now now) (Hnow now) chan_close Hclose
                im gm wt k 0 lg ws HR Hw) as G. cbv zeta in G. destruct G as (gm' & E & HR' & Hw').
    rewrite (bind_ok _ _ _ _ _ E). unfold ret. cbn [fst snd].
    do 4 eexists. split; [reflexivity|]. split; [exact HR'|].
    destruct (snd (im_delete now k im)); try (apply wt_in_get_wl; exact Hi).
    apply wt_in_notify. apply wt_in_get_wl. exact Hi.
Qed.

Theorem gen_run_refines : forall ops im gm wt lg ws, rel gm (m im) -> wt_in ws wt ->
  Forall (fun no => tied_op (snd no)) ops ->
  exists gmf wtf lgf wsf,
    gen_run (Gen.mk_service gm wt) ops (kheap lg (nxt im) ws) =
      Some (enc_outs ops (fst (im_run im ops)), Gen.mk_service gmf wtf, kheap lgf (nxt (snd (im_run im ops))) wsf) /\
    rel gmf (m (snd (im_run im ops))) /\ wt_in wsf wtf.
Proof.
  induction ops as [|[now o] t IH]; intros im gm wt lg ws HR Hw Hs.
  - cbn [gen_run im_run enc_outs fst snd]. eauto 8.
  - inversion Hs as [|? ? Ho Ht]; subst. cbn [snd] in Ho. cbn [gen_run im_run].
    destruct (gen_step_refines im gm wt now o lg ws HR Hw Ho) as (gm' & wt' & lg' & ws' & E & HR' & Hw'). rewrite E.
    destruct (im_step im now o) as [im' x]. cbn [fst snd] in *.
    destruct (IH im' gm' wt' lg' ws' HR' Hw' Ht) as (gmf & wtf & lgf & wsf & E' & HRf & Hwf). rewrite E'.
    destruct (im_run im' t) as [xs imf]. cbn [fst snd enc_outs] in *. eauto 10.
Qed.

(* the program: s := New(); then the calls.  Heap: empty log, version counter 1, no arrays *)
Definition gen_run_new (ops : list (Z * op)) : option (list gout * Gen.service * heap) :=
  match Gen.New (kheap [] 1 []) with
  | Ok (s, h) => gen_run s ops h
  | _ => None
  end.

Theorem gen_inmem_refines_kv : forall ops t0, mono t0 ops -> Forall (fun no => tied_op (snd no)) ops ->
  option_map (fun r => fst (fst r)) (gen_run_new ops) = Some (enc_outs ops (fst (run init ops))).
Proof.
  intros ops t0 Hm Hs. unfold gen_run_new. rewrite gen_New_refines.
  destruct (gen_run_refines ops im_new [] [] [] [] (rel_nil kid vid Record_mk) (wt_in_nil []) Hs) as (gmf & wtf & lgf & wsf & E & _ & _).
  change (nxt im_new) with 1%nat in E. rewrite E. cbn [option_map fst].
  rewrite (inmem_refines_kv ops t0 Hm). reflexivity.
Qed.

(* C06: an expired record still in the map, or not: no later history tells *)
Theorem gen_expired_eq_deleted : forall t im k ops gm gm2 wt wt2 lg lg2 ws ws2,
  im_reachable t im -> im_exp_passed im t k -> mono t ops -> Forall (fun no => tied_op (snd no)) ops ->
  rel gm (m im) -> rel gm2 (m (im_del k im)) -> wt_in ws wt -> wt_in ws2 wt2 ->
  option_map (fun r => fst (fst r)) (gen_run (Gen.mk_service gm wt) ops (kheap lg (nxt im) ws)) =
  option_map (fun r => fst (fst r)) (gen_run (Gen.mk_service gm2 wt2) ops (kheap lg2 (nxt (im_del k im)) ws2)).
Proof.
  intros t im k ops gm gm2 wt wt2 lg lg2 ws ws2 Hre Hex Hm Hs HR HR2 Hw Hw2.
  destruct (gen_run_refines ops im gm wt lg ws HR Hw Hs) as (? & ? & ? & ? & E & _ & _).
  destruct (gen_run_refines ops (im_del k im) gm2 wt2 lg2 ws2 HR2 Hw2 Hs) as (? & ? & ? & ? & E2 & _ & _).
  rewrite E, E2. cbn [option_map fst]. rewrite (im_expired_eq_deleted t im k ops Hre Hex Hm). reflexivity.
Qed.

End Run.

Print Assumptions gen_step_refines.
Print Assumptions gen_run_refines.
Print Assumptions gen_inmem_refines_kv.
Print Assumptions gen_expired_eq_deleted.

(** * Literal implementations of the parameters *)

(* an injective pairing Z * Z -> Z of polynomial size: twice the Cantor pairing, plus one, on the images of
   a bijection f : Z -> nonnegative Z; the inverse through Z.sqrt *)
Definition zf (z : Z) : Z := if z <? 0 then - 2 * z - 1 else 2 * z.
Definition zg (y : Z) : Z := if y mod 2 =? 0 then y / 2 else - (y / 2) - 1.
Lemma zg_zf z : zg (zf z) = z.
Proof.
  unfold zg, zf. destruct (Z.ltb_spec z 0).
  - replace (- 2 * z - 1) with (1 + (- z - 1) * 2) by lia. rewrite Z_mod_plus_full, Z_div_plus_full by lia. cbn. lia.
  - replace (2 * z) with (0 + z * 2) by lia. rewrite Z_mod_plus_full, Z_div_plus_full by lia. cbn. lia.
Qed.
Lemma zf_nonneg z : 0 <= zf z.
Proof. unfold zf. destruct (Z.ltb_spec z 0); lia. Qed.
(* twice the Cantor pairing on nonnegative numbers, plus one (so that a pair is never 0) *)
Definition cp (x y : Z) : Z := (x + y) * (x + y + 1) + 2 * y + 1.
Definition cw (p : Z) : Z := (Z.sqrt (4 * (p - 1) + 1) - 1) / 2.
Definition c2 (p : Z) : Z := (p - 1 - cw p * (cw p + 1)) / 2.
Definition c1 (p : Z) : Z := cw p - c2 p.
Lemma cw_cp x y : 0 <= x -> 0 <= y -> cw (cp x y) = x + y.
Proof.
  intros Hx Hy. unfold cw, cp. set (s := x + y). assert (Hs : 0 <= s) by lia.
  replace (4 * (s * (s + 1) + 2 * y + 1 - 1) + 1) with ((2 * s + 1) * (2 * s + 1) + 8 * y) by lia.
  set (N := (2 * s + 1) * (2 * s + 1) + 8 * y).
  assert (HN : 0 <= N) by (unfold N; nia).
  pose proof (Z.sqrt_spec N HN) as [L U]. set (r := Z.sqrt N) in *.
  assert (Hr0 : 0 <= r) by apply Z.sqrt_nonneg.
  assert (R1 : 2 * s + 1 <= r) by (unfold N in U; nia).
  assert (R2 : r <= 2 * s + 2) by (unfold N in L; nia).
  assert (r = 2 * s + 1 \/ r = 2 * s + 2) as [-> | ->] by lia.
  - replace (2 * s + 1 - 1) with (s * 2) by lia. apply Z_div_mult. lia.
  - replace (2 * s + 2 - 1) with (1 + s * 2) by lia. rewrite Z_div_plus_full by lia. reflexivity.
Qed.
Lemma cp_spec x y : 0 <= x -> 0 <= y -> c1 (cp x y) = x /\ c2 (cp x y) = y.
Proof.
  intros Hx Hy. unfold c1, c2. rewrite cw_cp by assumption. unfold cp.
  replace ((x + y) * (x + y + 1) + 2 * y + 1 - 1 - (x + y) * (x + y + 1)) with (y * 2) by lia.
  rewrite Z_div_mult by lia. lia.
Qed.
Definition pr (a b : Z) : Z := cp (zf a) (zf b).
Definition pr1 (p : Z) : Z := zg (c1 p).
Definition pr2 (p : Z) : Z := zg (c2 p).
Lemma pr_spec a b : pr1 (pr a b) = a /\ pr2 (pr a b) = b.
Proof. unfold pr, pr1, pr2. destruct (cp_spec (zf a) (zf b) (zf_nonneg a) (zf_nonneg b)) as [-> ->]. rewrite !zg_zf. auto. Qed.
Lemma pr_pos a b : 0 < pr a b.
Proof. unfold pr, cp. pose proof (zf_nonneg a). pose proof (zf_nonneg b). nia. Qed.

(* byte strings as ids *)
Fixpoint lit_id (l : list N) : Z := match l with [] => 0 | c :: t => pr (Z.of_N c) (lit_id t) end.
Lemma lit_id_inj : forall a b, lit_id a = lit_id b -> a = b.
Proof.
  induction a as [|x a IH]; intros [|y b] H; cbn [lit_id] in H; try reflexivity.
  - pose proof (pr_pos (Z.of_N y) (lit_id b)). lia.
  - pose proof (pr_pos (Z.of_N x) (lit_id a)). lia.
  - pose proof (f_equal pr1 H) as H1. pose proof (f_equal pr2 H) as H2.
    rewrite !(proj1 (pr_spec _ _)) in H1. rewrite !(proj2 (pr_spec _ _)) in H2. f_equal; [lia|apply IH; exact H2].
Qed.

Definition lit_Record_mk (a b c d : Z) : Z := pr a (pr b (pr c d)).
Definition lit_Record_Key (x : Z) : Z := pr1 x.
Definition lit_Record_Value (x : Z) : Z := pr1 (pr2 x).
Definition lit_Record_Version (x : Z) : Z := pr1 (pr2 (pr2 x)).
Definition lit_Record_ExpiresAt (x : Z) : Z := pr2 (pr2 (pr2 x)).
Lemma lit_rec_spec : rec_spec lit_Record_mk lit_Record_Key lit_Record_Value lit_Record_Version lit_Record_ExpiresAt.
Proof.
  intros a b c d. unfold lit_Record_mk, lit_Record_Key, lit_Record_Value, lit_Record_Version, lit_Record_ExpiresAt.
  repeat (rewrite ?(proj1 (pr_spec _ _)), ?(proj2 (pr_spec _ _))). auto.
Qed.

Definition lit_time_Now (now : Z) : M Z := ret now.
Definition lit_new_id : M Z := fun h =>
  match h with lg :: [n] :: ws => Ok (n, lg :: [n + 1] :: ws) | _ => GoPanic end.
Definition lit_chan_close (c : Z) : M unit := fun h =>
  match h with lg :: r => Ok (tt, (lg ++ [c]) :: r) | [] => GoPanic end.
Definition lit_ctx_Err (c : Z) : M Z := ret c.

Lemma lit_now_spec now : now_spec now (lit_time_Now now). Proof. intros h. reflexivity. Qed.
Lemma lit_newid_spec : newid_spec lit_new_id.
Proof. intros lg n ws. unfold lit_new_id, kheap. rewrite Nat2Z.inj_succ. reflexivity. Qed.
Lemma lit_close_spec : close_spec lit_chan_close. Proof. intros c lg n ws. reflexivity. Qed.
Lemma lit_ctx_spec : ctx_spec lit_ctx_Err. Proof. intros c h. reflexivity. Qed.
Lemma lit_ptime_spec : ptime_spec lit_ptime_val. Proof. intros e. apply lit_ptime_oe. Qed.

(** * Closed forms *)

Definition lit_run (ops : list (Z * op)) :=
  gen_run_new lit_id lit_id lit_Record_mk lit_Record_Key lit_Record_Value lit_Record_Version lit_Record_ExpiresAt
    lit_ptime_val lit_time_Now lit_new_id lit_chan_close lit_ctx_Err ops.
Definition lit_enc_outs := enc_outs lit_id lit_id lit_Record_mk.

Theorem gen_inmem_refines_kv_lit : forall ops t0, mono t0 ops -> Forall (fun no => tied_op (snd no)) ops ->
  option_map (fun r => fst (fst r)) (lit_run ops) = Some (lit_enc_outs ops (fst (run init ops))).
Proof.
  intros ops t0. unfold lit_run, lit_enc_outs.
  exact (gen_inmem_refines_kv lit_id lit_id lit_id_inj lit_Record_mk lit_Record_Key lit_Record_Value lit_Record_Version
           lit_Record_ExpiresAt lit_rec_spec lit_ptime_val lit_ptime_spec lit_time_Now lit_now_spec lit_new_id lit_newid_spec
           lit_chan_close lit_close_spec lit_ctx_Err lit_ctx_spec ops t0).
Qed.

(* a run with lazy expiry: b expires at 100 and is dropped by whoever looks at it later;
   a batch with a repeated key (the last write wins, versions in order), GetMany with a
   repeated, a missing and an expired key *)
Definition ex_a : key := [97%N].
Definition ex_b : key := [98%N].
Definition ex_c : key := [99%N].
Definition ex_ops : list (Z * op) :=
  [(1, Create ex_a [120%N] None); (2, Create ex_a [121%N] None); (3, Put ex_b [122%N] (Some 100)); (50, Get ex_b);
   (100, Get ex_b); (101, Get ex_b); (102, CasByVersion ex_a [123%N] None 7); (103, CasByVersion ex_a [123%N] None 1);
   (104, Delete ex_b); (105, Delete ex_a); (106, Get ex_a); (107, Create ex_b [] (Some 5)); (108, Create ex_b [] None);
   (109, PutMany [(ex_a, [1%N], None); (ex_c, [2%N], Some 120); (ex_a, [3%N], None)]);
   (110, GetMany [ex_a; ex_c; ex_a; [100%N]; ex_b]);
   (121, GetMany [ex_c; ex_a; ex_c]); (122, GetMany [])].

Example gen_ex_inmem :
  option_map (fun r => fst (fst r)) (lit_run ex_ops) = Some (lit_enc_outs ex_ops (fst (run init ex_ops))) /\
  fst (run init ex_ops) =
    [OVer 1; OExist 1; ORec (ex_b, [122%N], 2%nat, Some 100); ORec (ex_b, [122%N], 2%nat, Some 100);
     ORec (ex_b, [122%N], 2%nat, Some 100); ONotExist; OConflict; ORec (ex_a, [123%N], 3%nat, None);
     ONotExist; OOk; ONotExist; OVer 4; OVer 5; OOk;
     ORecs [Some (ex_a, [3%N], 8%nat, None); Some (ex_c, [2%N], 7%nat, Some 120); Some (ex_a, [3%N], 8%nat, None); None;
            Some (ex_b, [], 5%nat, None)];
     ORecs [None; Some (ex_a, [3%N], 8%nat, None); None]; ORecs []] /\
  mono 0 ex_ops /\ Forall (fun no => tied_op (snd no)) ex_ops.
Proof.
  split; [vm_compute; reflexivity|]. split; [vm_compute; reflexivity|]. split.
  - vm_compute. repeat split; try reflexivity; try discriminate.
  - repeat (apply Forall_cons; [vm_compute; try exact I; reflexivity|]). apply Forall_nil.
Qed.


Print Assumptions gen_inmem_refines_kv_lit.
Print Assumptions gen_ex_inmem.
