(** C12 tie, stage 8: the translation of the standard library's container/heap
    (coqgen/Gen_heap.v: [heap.up], [heap.down], [heap.Push], [heap.Pop],
    [heap.Remove], [heap.Fix], [heap.Init] with [heap.Interface] devirtualised to
    the repository's [futures]) refines the hand-written transcription of
    container/heap in model/THeap.v ([up], [down_loop]/[down], [heap_push],
    [heap_pop], [heap_remove], [heap_fix], [heap_init]) under the stage-6
    relation [rel D h fs m] (coqgen/TM_GenVocab.v).

    The generated loops run on fuel [len(fs) + 2]; the model's on
    [fuel_of m = len + 1].  The loop lemmas are inductions on the model's fuel
    [f], for every generated fuel [gf >= f], under the measure that makes the
    model's fuel sufficient ([j < f] for up, [n - i < f] for down): the outcome is
    [Ok], so neither [GoPanic] nor [NoFuel] is possible. *)
Set Warnings "-notation-overridden,-parsing".
From Coq Require Import List ZArith NArith Bool Lia.
From GL Require Import lib.GoLite model.THeap proofs.C12_THeap.
From GLGEN Require Import TM_GenVocab Gen_heap C12_GenFn_heapm.
Import ListNotations.
Open Scope Z_scope.

(** * auxiliary facts *)

(* a Go int that overflowed once is negative *)
Lemma i64_wrapped x : 9223372036854775808 <= x < 18446744073709551616 -> i64 x = x - 18446744073709551616.
Proof.
  intros H. unfold i64.
  replace (x + 9223372036854775808) with ((x - 9223372036854775808) + 1 * 18446744073709551616) by lia.
  rewrite Z.mod_add by lia. rewrite Z.mod_small by lia. lia.
Qed.

Lemma post_bind {A B} (m : M A) (k : A -> M B) h (Q : A -> heap -> Prop) (Q' : B -> heap -> Prop) :
  post (m h) Q -> (forall a h', Q a h' -> post (k a h') Q') -> post (bind m k h) Q'.
Proof.
  intros P K. destruct (post_elim _ _ P) as (a & h' & E & HQ). rewrite (bind_ok _ _ _ _ _ E). apply K. exact HQ.
Qed.

Lemma post_weaken {A} (o : outcome (A * heap)) (Q Q' : A -> heap -> Prop) :
  post o Q -> (forall a h', Q a h' -> Q' a h') -> post o Q'.
Proof. destruct o as [[a h']| |]; cbn; auto. Qed.

Lemma incl_swap m i j D : incl (arr m) D -> incl (arr (f_swap m i j)) D.
Proof. intros S y Hy. apply S. apply (swap_In m i j y). exact Hy. Qed.

Lemma in_range_swap m a b i : in_range (f_swap m a b) i = in_range m i.
Proof. unfold in_range. rewrite swap_f_len. reflexivity. Qed.

Ltac fin := unfold ret, post; cbv beta iota; cbn [fst snd]; repeat (match goal with |- _ /\ _ => split end); first [reflexivity | assumption].
Ltac mstep := repeat first [ rewrite bind_assoc | rewrite bind_ret_l | progress cbv beta iota zeta ].

(** * up *)

Lemma gen_up_loop D fs : forall f gf h m j,
  rel D h fs m -> incl (arr m) D -> in_range m j = true ->
  (Z.to_nat j < f)%nat -> (f <= gf)%nat ->
  post (iter gf (Gen.heap_up_loop1 fs) j h)
       (fun _ h' => rel D h' fs (up f m j) /\ incl (arr (up f m j)) D).
Proof.
  induction f as [|f IH]; intros gf h m j R S Hj Hf Hg; [lia|].
  destruct gf as [|gf]; [lia|].
  rel_facts R.
  pose proof (proj1 (in_range_iff _ _ _ _ _ R) Hj) as Hjr.
  rewrite iter_S. unfold Gen.heap_up_loop1 at 1. cbv beta zeta. cbn [up].
  rewrite (i64_small (j - 1)) by lia.
  set (i := Z.quot (j - 1) 2).
  assert (Hi : j = 0 /\ i = 0 \/ 1 <= j /\ 0 <= i < j).
  { destruct (Z.eq_dec j 0) as [->|]; [left; split; reflexivity|right; split; [lia|apply parent_lt; lia]]. }
  rewrite (i64_small i) by lia.
  destruct Hi as [[Ej Hi0]|[Hj1 Hi]].
  - rewrite Hi0, Ej. cbn [Z.eqb orb]. mstep. unfold ret, post. split; assumption.
  - assert (E : (i =? j) = false) by (apply Z.eqb_neq; lia). rewrite E. cbn [orb].
    assert (Ri : in_range m i = true) by (apply in_range_intro; lia).
    mstep. rewrite (bind_ok _ _ _ _ _ (gen_less D h fs m j i R S Hj Ri)). mstep.
    destruct (negb (f_less m j i)); mstep.
    + unfold ret, post. split; assumption.
    + eapply post_bind; [exact (gen_swap D h fs m i j R S Ri Hj)|].
      intros u h' R'. cbv beta in R'. mstep.
      apply IH; [exact R'|apply incl_swap; exact S|rewrite in_range_swap; exact Ri|lia|lia].
Qed.

(* heap.up: the generated fuel [len + 2] covers the model's [fuel_of m = len + 1] *)
Theorem gen_up_refines D h fs m j :
  rel D h fs m -> incl (arr m) D -> in_range m j = true ->
  post (Gen.heap_up fs j h)
       (fun _ h' => rel D h' fs (up (fuel_of m) m j) /\ incl (arr (up (fuel_of m) m j)) D).
Proof.
  intros R S Hj. rel_facts R. pose proof (proj1 (in_range_iff _ _ _ _ _ R) Hj) as Hjr.
  unfold Gen.heap_up. eapply post_bind.
  - apply (gen_up_loop D fs (fuel_of m) _ h m j R S Hj); unfold fuel_of, f_len in *; lia.
  - intros j' h' Q. cbv beta in Q. unfold ret, post. exact Q.
Qed.

(** * down *)

Lemma gen_down_loop D fs : forall f gf h m i n,
  rel D h fs m -> incl (arr m) D -> 0 <= i < 9223372036854775808 -> n <= f_len m ->
  (Z.to_nat (n - i) < f)%nat -> (f <= gf)%nat ->
  post (iter gf (Gen.heap_down_loop1 fs n) i h)
       (fun i' h' => i' = snd (down_loop f m i n) /\
                     rel D h' fs (fst (down_loop f m i n)) /\ incl (arr (fst (down_loop f m i n))) D).
Proof.
  induction f as [|f IH]; intros gf h m i n R S Hi Hn Hf Hg; [lia|].
  destruct gf as [|gf]; [lia|].
  rel_facts R.
  rewrite iter_S. unfold Gen.heap_down_loop1 at 1. cbv beta zeta. cbn [down_loop].
  destruct (Z.ltb_spec (2 * i + 1) 9223372036854775808) as [Hsmall|Hbig].
  2:{ (* 2*i + 1 overflows the Go int: j1 < 0 in Go, j1 >= n in the model *)
      assert (Ew : i64 (i64 (2 * i) + 1) < 0).
      { rewrite (i64_wrapped (2 * i)) by lia. rewrite i64_small by lia. lia. }
      assert (E1 : (i64 (i64 (2 * i) + 1) <? 0) = true) by (apply Z.ltb_lt; exact Ew).
      rewrite E1, orb_true_r.
      assert (E2 : (2 * i + 1 >=? n) = true) by (rewrite Z.geb_leb; apply Z.leb_le; lia).
      rewrite E2. cbn [orb fst snd]. mstep. fin. }
  rewrite (i64_small (2 * i)) by lia. rewrite (i64_small (2 * i + 1)) by lia.
  set (j1 := 2 * i + 1) in *.
  rewrite (Z.geb_leb j1 n).
  destruct ((n <=? j1) || (j1 <? 0)) eqn:C.
  { cbn [fst snd]. mstep. fin. }
  apply orb_false_elim in C. destruct C as [C1 C2]. apply Z.leb_gt in C1. apply Z.ltb_ge in C2.
  rewrite (i64_small (j1 + 1)) by lia.
  assert (Ri : in_range m i = true) by (apply in_range_intro; lia).
  assert (R1 : in_range m j1 = true) by (apply in_range_intro; lia).
  (* the choice of the child *)
  set (b := (j1 + 1 <? n) && f_less m (j1 + 1) j1).
  assert (Eb : forall B (K : bool -> M B),
             bind (if j1 + 1 <? n then (_t1 <- Gen.futures_Less fs (j1 + 1) j1 ;; ret _t1) else ret false) K h = K b h).
  { intros B K. unfold b. destruct (Z.ltb_spec (j1 + 1) n) as [H2|H2]; cbn [andb].
    - assert (R2 : in_range m (j1 + 1) = true) by (apply in_range_intro; lia).
      mstep. rewrite (bind_ok _ _ _ _ _ (gen_less D h fs m (j1 + 1) j1 R S R2 R1)). mstep. reflexivity.
    - mstep. reflexivity. }
  mstep. rewrite Eb. clear Eb.
  set (j := if b then j1 + 1 else j1).
  assert (Hj : i < j < n).
  { unfold j, b. destruct (Z.ltb_spec (j1 + 1) n); cbn [andb]; [destruct (f_less m (j1 + 1) j1)|]; lia. }
  assert (Rj : in_range m j = true) by (apply in_range_intro; lia).
  (* both branches of the if continue with the same code on j *)
  assert (Hj' : j = if b then j1 + 1 else j1) by reflexivity.
  clearbody j. clearbody b.
  destruct b; cbv beta iota; rewrite <- Hj'; clear Hj'.
  all: mstep; rewrite (bind_ok _ _ _ _ _ (gen_less D h fs m j i R S Rj Ri)); mstep;
       (destruct (negb (f_less m j i)); mstep;
        [ fin
        | eapply post_bind; [exact (gen_swap D h fs m i j R S Ri Rj)|];
          intros u h' R'; cbv beta in R'; mstep;
          apply IH; [exact R'|apply incl_swap; exact S|lia|rewrite swap_f_len; exact Hn|lia|lia] ]).
Qed.

(* heap.down *)
Theorem gen_down_refines D h fs m i n :
  rel D h fs m -> incl (arr m) D -> 0 <= i < 9223372036854775808 -> 0 <= n <= f_len m ->
  post (Gen.heap_down fs i n h)
       (fun r h' => r = snd (down m i n) /\ rel D h' fs (fst (down m i n)) /\ incl (arr (fst (down m i n))) D).
Proof.
  intros R S Hi Hn. rel_facts R.
  unfold Gen.heap_down. cbv zeta. eapply post_bind.
  - apply (gen_down_loop D fs (fuel_of m) _ h m i n R S Hi); unfold fuel_of, f_len in *; lia.
  - intros i' h' (E & R' & S'). unfold down.
    destruct (down_loop (fuel_of m) m i n) as [m' im]. cbn [fst snd] in *. subst i'.
    fin.
Qed.

Print Assumptions gen_up_refines.
Print Assumptions gen_down_refines.
