(** C12 tie, stage 8, headline: [C12_idx_inv], [C12_head_minimal] /
    [C12_heap_ordered_*] and [C12_remove_exact] (Properties/C12.v) restated over
    the GENERATED code only: the [futures] methods of /repo/timeout/timeout.go
    under the toolchain's container/heap ([heap.Push], [heap.Pop],
    [heap.Remove]; coqgen/Gen_heap.v). *)
Set Warnings "-notation-overridden,-parsing".
From Coq Require Import List ZArith NArith Bool Lia Permutation.
From GL Require Import lib.GoLite model.THeap proofs.C12_THeap proofs.C12_HeapOrder.
From GLGEN Require Import TM_GenVocab Gen_heap C12_GenFn_heapm C12_GenFn_heapfn C12_GenFn_heapops.
Import ListNotations.
Open Scope Z_scope.

(** * runs of heap.Push / heap.Pop / heap.Remove *)

Inductive hcall := HCPush (x : fid) | HCPop | HCRemove (i : Z).

(* the model: [None] where Go panics (Pop of the empty heap, Remove outside the
   slice) or the call is outside the use made of the type (pushing a pointer
   that is already in the slice); the second component is the returned future *)
Definition hcall_step (m : fheap) (c : hcall) : option (fheap * fid) :=
  match c with
  | HCPush x => if existsb (N.eqb x) (arr m) then None else Some (heap_push m x, 0%N)
  | HCPop => match arr m with [] => None | _ => Some (heap_pop m) end
  | HCRemove i => if in_range m i then Some (heap_remove m i) else None
  end.

Fixpoint hcall_run (m : fheap) (cs : list hcall) : option (fheap * list fid) :=
  match cs with
  | [] => Some (m, [])
  | c :: t => match hcall_step m c with
              | Some (m1, r) => match hcall_run m1 t with Some (m', rs) => Some (m', r :: rs) | None => None end
              | None => None
              end
  end.

(* the generated code *)
Definition gstate := (gslice * heap)%type.

Definition gen_hstep (st : gstate) (c : hcall) : outcome (gstate * Z) :=
  let '(fs, h) := st in
  match c with
  | HCPush x => match Gen.heap_Push fs (ptr x) h with
                | Ok (fs', h') => Ok ((fs', h'), 0) | GoPanic => GoPanic | NoFuel => NoFuel end
  | HCPop => match Gen.heap_Pop fs h with
             | Ok ((fs', r), h') => Ok ((fs', h'), r) | GoPanic => GoPanic | NoFuel => NoFuel end
  | HCRemove i => match Gen.heap_Remove fs i h with
                  | Ok ((fs', r), h') => Ok ((fs', h'), r) | GoPanic => GoPanic | NoFuel => NoFuel end
  end.

Fixpoint gen_hrun (st : gstate) (cs : list hcall) : outcome (gstate * list Z) :=
  match cs with
  | [] => Ok (st, [])
  | c :: t => match gen_hstep st c with
              | Ok (st1, r) => match gen_hrun st1 t with
                               | Ok (st', rs) => Ok (st', r :: rs) | GoPanic => GoPanic | NoFuel => NoFuel end
              | GoPanic => GoPanic | NoFuel => NoFuel
              end
  end.

(* the invariant of a run: representation, no nil slot, idx = position *)
Definition hinv (D : list fid) (st : gstate) (m : fheap) : Prop :=
  rel D (snd st) (fst st) m /\ incl (arr m) D /\ idx_ok m.

(* what [hinv] says about the Go heap: the future in slot k has idx = k, an
   allocated future that is not in the slice has idx = -1 *)
Definition heap_idx_ok (D : list fid) (st : gstate) : Prop :=
  let '(fs, h) := st in
  (forall k, 0 <= k < s_len fs ->
     0 < znth (sl_get h fs) k /\ nth 2 (arr_get h (obj_arr (znth (sl_get h fs) k))) 0 = k) /\
  (forall x, In x D -> ~ In (ptr x) (sl_get h fs) -> nth 2 (arr_get h (oarr x)) 0 = -1).

Lemma hinv_heap_idx_ok D st m : hinv D st m -> heap_idx_ok D st.
Proof.
  destruct st as [fs h]. intros (R & S & Hin & Hout). cbn [fst snd] in R. split.
  - intros k Hk. rewrite (rel_nth _ _ _ _ k R).
    pose proof (rel_in _ _ _ _ k R S Hk) as F. split; [exact (rel_nz _ _ _ _ _ R F)|].
    rewrite (rel_fld2 _ _ _ _ _ R F). rewrite aget_anth, Hin; [lia|].
    pose proof (rel_len _ _ _ _ R) as L. unfold f_len in L. lia.
  - intros x Hx Hn. rewrite (rel_fld2 _ _ _ _ _ R Hx). apply Hout.
    intros Hi. apply Hn. destruct R as (_ & A & _). rewrite A. apply in_map. exact Hi.
Qed.

Lemma ptr_inj x y : ptr x = ptr y -> x = y.
Proof. unfold ptr. lia. Qed.

Lemma in_map_ptr x l : In (ptr x) (map ptr l) -> In x l.
Proof. intros H. apply in_map_iff in H. destruct H as (y & E & Hy). apply ptr_inj in E. subst y. exact Hy. Qed.

Lemma hinv_len D st m : hinv D st m -> Z.of_nat (length D) + 1 < 9223372036854775808 ->
  s_len (fst st) + 1 < 9223372036854775808.
Proof.
  intros (R & S & Hok) HD. rewrite (rel_len _ _ _ _ R). unfold f_len.
  pose proof (NoDup_incl_length (idx_ok_nodup m Hok) S). lia.
Qed.

(* what is returned by Pop / Remove: an allocated future, no longer in the slice, idx = -1 *)
Definition out_ok (D : list fid) (st : gstate) (c : hcall) (r : fid) : Prop :=
  match c with
  | HCPush _ => r = 0%N
  | _ => In r D /\ ~ In (ptr r) (sl_get (snd st) (fst st)) /\ nth 2 (arr_get (snd st) (oarr r)) 0 = -1
  end.

Lemma removed_out D st m0 m' c r : (forall x, c <> HCPush x) ->
  hinv D st m' -> incl (arr m0) D -> In r (arr m0) -> removed m0 m' r -> out_ok D st c r.
Proof.
  intros Hc (R & S & Hok) S0 Hr Rm. destruct st as [fs h]. cbn [fst snd] in *.
  assert (Hn : ~ In r (arr m')) by (rewrite (rm_in _ _ _ Rm); tauto).
  assert (G : In r D /\ ~ In (ptr r) (sl_get h fs) /\ nth 2 (arr_get h (oarr r)) 0 = -1).
  { split; [apply S0; exact Hr|]. split.
    - destruct R as (_ & A & _). rewrite A. intros Hi. apply Hn. apply in_map_ptr. exact Hi.
    - rewrite (rel_fld2 _ _ _ _ _ R (S0 r Hr)). exact (rm_idx _ _ _ Rm). }
  destruct c as [x| |i]; [exfalso; apply (Hc x); reflexivity|exact G|exact G].
Qed.

Lemma gen_hstep_sim D st m c m' r :
  hinv D st m -> Z.of_nat (length D) + 1 < 9223372036854775808 ->
  (forall x, c = HCPush x -> In x D) ->
  hcall_step m c = Some (m', r) ->
  exists st', gen_hstep st c = Ok (st', ptr r) /\ hinv D st' m' /\ out_ok D st' c r.
Proof.
  intros I HD Hp Hs. pose proof (hinv_len D st m I HD) as Hlen.
  destruct I as (R & S & Hok). destruct st as [fs h]. cbn [fst snd] in *.
  destruct c as [x| |i]; cbn [hcall_step] in Hs; unfold gen_hstep.
  - destruct (existsb (N.eqb x) (arr m)) eqn:Hex; [discriminate Hs|]. injection Hs as <- <-.
    assert (Hx : In x D) by (apply Hp; reflexivity).
    assert (Hnin : ~ In x (arr m)).
    { intros Hin. assert (existsb (N.eqb x) (arr m) = true)
        by (apply existsb_exists; exists x; split; [exact Hin|apply N.eqb_refl]). congruence. }
    destruct (post_elim _ _ (gen_heap_Push_refines D h fs m x R S Hx Hlen)) as (fs' & h' & -> & R' & S').
    eexists. split; [reflexivity|]. split; [|reflexivity].
    split; [exact R'|]. split; [exact S'|]. exact (pu_ok _ _ _ (push_exact m x Hok Hnin)).
  - assert (Hne : arr m <> []) by (intros Ea; rewrite Ea in Hs; discriminate Hs).
    assert (E : heap_pop m = (m', r)) by (destruct (arr m); [contradiction|injection Hs as <-; reflexivity]).
    clear Hs.
    destruct (post_elim _ _ (gen_heap_Pop_refines D h fs m R S Hne)) as ([fs' p] & h' & -> & Ep & R' & S').
    rewrite E in Ep, R', S'. cbn [fst snd] in *. subst p.
    destruct (pop_head m Hok Hne) as (Rm & Er). rewrite E in Rm, Er. cbn [fst snd] in *. rewrite <- Er in Rm.
    assert (I' : hinv D (fs', h') m') by (split; [exact R'|split; [exact S'|exact (rm_ok _ _ _ Rm)]]).
    eexists. split; [reflexivity|]. split; [exact I'|].
    apply (removed_out D (fs', h') m m' HCPop r); [intros y; discriminate|exact I'|exact S| |exact Rm].
    rewrite Er. unfold anth. apply nth_In. destruct (arr m); [contradiction|cbn [length]; lia].
  - destruct (in_range m i) eqn:Hi; [|discriminate Hs]. injection Hs as E.
    destruct (post_elim _ _ (gen_heap_Remove_refines D h fs m i R S Hi)) as ([fs' p] & h' & -> & Ep & R' & S').
    rewrite E in Ep, R', S'. cbn [fst snd] in *. subst p.
    destruct (remove_at_exact m i Hok Hi) as (Rm & Er). rewrite E in Rm, Er. cbn [fst snd] in *. rewrite <- Er in Rm.
    assert (I' : hinv D (fs', h') m') by (split; [exact R'|split; [exact S'|exact (rm_ok _ _ _ Rm)]]).
    eexists. split; [reflexivity|]. split; [exact I'|].
    apply (removed_out D (fs', h') m m' (HCRemove i) r); [intros y; discriminate|exact I'|exact S| |exact Rm].
    rewrite Er. unfold anth. apply nth_In. destruct (in_range_nat _ _ Hi) as (_ & Hl & _). exact Hl.
Qed.

Theorem gen_hrun_sim : forall cs D st m m' rs,
  hinv D st m -> Z.of_nat (length D) + 1 < 9223372036854775808 ->
  (forall x, In (HCPush x) cs -> In x D) ->
  hcall_run m cs = Some (m', rs) ->
  exists st', gen_hrun st cs = Ok (st', map ptr rs) /\ hinv D st' m'.
Proof.
  induction cs as [|c t IH]; intros D st m m' rs I HD Hp Hr; cbn [hcall_run] in Hr.
  - injection Hr as <- <-. exists st. split; [reflexivity|exact I].
  - destruct (hcall_step m c) as [[m1 r]|] eqn:Hs; [|discriminate Hr].
    destruct (hcall_run m1 t) as [[m2 rs2]|] eqn:Ht; [|discriminate Hr]. injection Hr as <- <-.
    destruct (gen_hstep_sim D st m c m1 r I HD) as (st1 & E1 & I1 & _); [|exact Hs|].
    { intros x ->. apply Hp. left. reflexivity. }
    destruct (IH D st1 m1 m2 rs2 I1 HD) as (st' & E' & I'); [|exact Ht|].
    { intros x Hx. apply Hp. right. exact Hx. }
    exists st'. cbn [gen_hrun map]. rewrite E1, E'. split; [reflexivity|exact I'].
Qed.

(** * C12_idx_inv over the generated methods under the generated container/heap *)

Theorem gen_heap_idx_inv : forall cs D fs h m m' rs,
  rel D h fs m -> incl (arr m) D -> idx_ok m ->
  Z.of_nat (length D) + 1 < 9223372036854775808 ->
  (forall x, In (HCPush x) cs -> In x D) ->
  hcall_run m cs = Some (m', rs) ->
  exists st', gen_hrun (fs, h) cs = Ok (st', map ptr rs) /\
              rel D (snd st') (fst st') m' /\ idx_ok m' /\ heap_idx_ok D st'.
Proof.
  intros cs D fs h m m' rs R S Hok HD Hp Hr.
  destruct (gen_hrun_sim cs D (fs, h) m m' rs) as (st' & E & I); try assumption.
  { split; [exact R|]. split; assumption. }
  exists st'. split; [exact E|]. split; [exact (proj1 I)|]. split; [exact (proj2 (proj2 I))|].
  exact (hinv_heap_idx_ok D st' m' I).
Qed.

(* one call: the state after it satisfies the index invariant again, and the
   future that heap.Pop / heap.Remove returned is out of the slice with idx = -1 *)
Theorem gen_heap_step_idx : forall c D fs h m m' r,
  rel D h fs m -> incl (arr m) D -> idx_ok m ->
  Z.of_nat (length D) + 1 < 9223372036854775808 ->
  (forall x, c = HCPush x -> In x D) ->
  hcall_step m c = Some (m', r) ->
  exists st', gen_hstep (fs, h) c = Ok (st', ptr r) /\ heap_idx_ok D st' /\ out_ok D st' c r.
Proof.
  intros c D fs h m m' r R S Hok HD Hp Hs.
  destruct (gen_hstep_sim D (fs, h) m c m' r) as (st' & E & I & O); try assumption.
  { split; [exact R|]. split; assumption. }
  exists st'. split; [exact E|]. split; [exact (hinv_heap_idx_ok D st' m' I)|exact O].
Qed.

(** * heap order: preserved by the generated operations; heap.Pop returns a minimum *)

Lemma hcall_step_ordered m c m' r : hcall_step m c = Some (m', r) -> heap_ordered m -> heap_ordered m'.
Proof.
  intros Hs Ho. destruct c as [x| |i]; cbn [hcall_step] in Hs.
  - destruct (existsb (N.eqb x) (arr m)); [discriminate Hs|]. injection Hs as <- _. apply heap_ordered_push. exact Ho.
  - assert (Hne : arr m <> []) by (intros Ea; rewrite Ea in Hs; discriminate Hs).
    assert (E : heap_pop m = (m', r)) by (destruct (arr m); [contradiction|injection Hs as <-; reflexivity]).
    pose proof (heap_ordered_pop m Hne Ho) as H. rewrite E in H. exact H.
  - destruct (in_range m i) eqn:Hi; [|discriminate Hs]. injection Hs as E.
    pose proof (heap_ordered_remove m i Hi Ho) as H. rewrite E in H. exact H.
Qed.

Lemma hcall_run_ordered : forall cs m m' rs, hcall_run m cs = Some (m', rs) -> heap_ordered m -> heap_ordered m'.
Proof.
  induction cs as [|c t IH]; intros m m' rs Hr Ho; cbn [hcall_run] in Hr.
  - injection Hr as <- _. exact Ho.
  - destruct (hcall_step m c) as [[m1 r]|] eqn:Hs; [|discriminate Hr].
    destruct (hcall_run m1 t) as [[m2 rs2]|] eqn:Ht; [|discriminate Hr]. injection Hr as <- _.
    apply (IH m1 m2 rs2 Ht). exact (hcall_step_ordered m c m1 r Hs Ho).
Qed.

(* the order invariant read from the Go heap: the fire time (field 1) of the
   future in slot (k-1)/2 is not after the one in slot k *)
Definition fire (h : heap) (p : Z) : Z := nth 1 (arr_get h (obj_arr p)) 0.

Definition heap_order_ok (st : gstate) : Prop :=
  let '(fs, h) := st in
  forall k, 0 < k < s_len fs -> fire h (znth (sl_get h fs) (Z.quot (k - 1) 2)) <= fire h (znth (sl_get h fs) k).

Lemma hinv_heap_order_ok D st m : hinv D st m -> heap_ordered m -> heap_order_ok st.
Proof.
  destruct st as [fs h]. intros (R & S & _) Ho. cbn [fst snd] in R. intros k Hk.
  pose proof (rel_len _ _ _ _ R) as L. unfold f_len in L.
  assert (Hp : 0 <= Z.quot (k - 1) 2 < k) by (apply parent_lt; lia).
  rewrite !(rel_nth _ _ _ _ _ R). unfold fire.
  rewrite (rel_fld1 _ _ _ _ _ R (rel_in _ _ _ _ (Z.quot (k - 1) 2) R S ltac:(lia))).
  rewrite (rel_fld1 _ _ _ _ _ R (rel_in _ _ _ _ k R S ltac:(lia))).
  specialize (Ho (Z.to_nat k) ltac:(lia)). unfold ft in Ho. rewrite !aget_anth.
  replace (Z.to_nat (Z.quot (k - 1) 2)) with (par (Z.to_nat k)); [exact Ho|].
  pose proof (quot_par (Z.to_nat k) ltac:(lia)) as Q. rewrite Z2Nat.id in Q by lia. lia.
Qed.

Theorem gen_heap_min D fs h m :
  rel D h fs m -> incl (arr m) D -> idx_ok m -> heap_ordered m -> arr m <> [] ->
  exists fs' h' p,
    Gen.heap_Pop fs h = Ok ((fs', p), h') /\
    In p (sl_get h fs) /\ 0 < p /\
    (forall q, In q (sl_get h fs) -> fire h p <= fire h q) /\
    (forall y, In y D -> fire h' (ptr y) = fire h (ptr y)) /\
    Permutation (p :: sl_get h' fs') (sl_get h fs) /\
    heap_idx_ok D (fs', h') /\ heap_order_ok (fs', h') /\
    exists m', rel D h' fs' m' /\ incl (arr m') D /\ idx_ok m' /\ heap_ordered m'.
Proof.
  intros R S Hok Ho Hne.
  destruct (post_elim _ _ (gen_heap_Pop_refines D h fs m R S Hne)) as ([fs' p] & h' & E & Ep & R' & S').
  cbn [fst snd] in *.
  destruct (pop_head m Hok Hne) as (Rm & Er).
  pose proof (heap_ordered_pop m Hne Ho) as Ho'.
  set (m' := fst (heap_pop m)) in *. set (r := snd (heap_pop m)) in *.
  assert (Hr : In r (arr m)).
  { rewrite Er. unfold anth. apply nth_In. destruct (arr m); [contradiction|cbn [length]; lia]. }
  assert (I' : hinv D (fs', h') m') by (split; [exact R'|split; [exact S'|exact (rm_ok _ _ _ Rm)]]).
  pose proof R as (_ & A & _). pose proof R' as (_ & A' & _).
  exists fs', h', p. split; [exact E|]. subst p.
  split; [rewrite A; apply in_map; exact Hr|].
  split; [exact (rel_nz _ _ _ _ _ R (S r Hr))|].
  split; [|split; [|split; [|split; [|split]]]].
  - intros q Hq. rewrite A in Hq. apply in_map_iff in Hq. destruct Hq as (y & <- & Hy).
    unfold fire. rewrite (rel_fld1 _ _ _ _ _ R (S r Hr)), (rel_fld1 _ _ _ _ _ R (S y Hy)).
    rewrite Er. change (anth (arr m) 0) with (aget (arr m) 0). apply head_fire_minimal; assumption.
  - intros y Hy. unfold fire. rewrite (rel_fld1 _ _ _ _ _ R' Hy), (rel_fld1 _ _ _ _ _ R Hy).
    exact (proj1 (rm_data _ _ _ Rm y)).
  - rewrite A, A'. change (ptr r :: map ptr (arr m')) with (map ptr (r :: arr m')).
    apply Permutation_map. exact (heap_perm_pop m Hok Hne).
  - exact (hinv_heap_idx_ok D (fs', h') m' I').
  - exact (hinv_heap_order_ok D (fs', h') m' I' Ho').
  - exists m'. split; [exact R'|]. split; [exact S'|]. split; [exact (rm_ok _ _ _ Rm)|exact Ho'].
Qed.

(* ... in every state reached by a run from a heap-ordered state (e.g. the empty slice) *)
Corollary gen_heap_min_run : forall cs D fs h m m' rs,
  rel D h fs m -> incl (arr m) D -> idx_ok m -> heap_ordered m ->
  Z.of_nat (length D) + 1 < 9223372036854775808 ->
  (forall x, In (HCPush x) cs -> In x D) ->
  hcall_run m cs = Some (m', rs) -> arr m' <> [] ->
  exists fs1 h1 fs' h' p,
    gen_hrun (fs, h) cs = Ok ((fs1, h1), map ptr rs) /\ heap_order_ok (fs1, h1) /\
    Gen.heap_Pop fs1 h1 = Ok ((fs', p), h') /\
    In p (sl_get h1 fs1) /\ (forall q, In q (sl_get h1 fs1) -> fire h1 p <= fire h1 q).
Proof.
  intros cs D fs h m m' rs R S Hok Ho HD Hp Hr Hne.
  destruct (gen_hrun_sim cs D (fs, h) m m' rs) as ([fs1 h1] & E & I); try assumption.
  { split; [exact R|]. split; assumption. }
  pose proof (hcall_run_ordered cs m m' rs Hr Ho) as Ho'.
  destruct I as (R1 & S1 & Hok1). cbn [fst snd] in *.
  destruct (gen_heap_min D fs1 h1 m' R1 S1 Hok1 Ho' Hne) as (fs' & h' & p & Ep & Hin & _ & Hmin & _).
  exists fs1, h1, fs', h', p. split; [exact E|].
  split; [apply (hinv_heap_order_ok D (fs1, h1) m'); [split; [exact R1|split; assumption]|exact Ho']|].
  split; [exact Ep|]. split; assumption.
Qed.

(** * C12_remove_exact: heap.Remove(fs, fu.idx) removes exactly fu *)

Theorem gen_remove_exact D fs h m x :
  rel D h fs m -> incl (arr m) D -> idx_ok m -> In x (arr m) ->
  let i := nth 2 (arr_get h (oarr x)) 0 in          (* fu.idx, read from the Go heap *)
  exists fs' h',
    Gen.heap_Remove fs i h = Ok ((fs', ptr x), h') /\
    Permutation (ptr x :: sl_get h' fs') (sl_get h fs) /\
    ~ In (ptr x) (sl_get h' fs') /\
    nth 2 (arr_get h' (oarr x)) 0 = -1 /\
    (forall y, In y D -> fire h' (ptr y) = fire h (ptr y)) /\
    heap_idx_ok D (fs', h') /\
    exists m', rel D h' fs' m' /\ incl (arr m') D /\ idx_ok m' /\ (heap_ordered m -> heap_ordered m').
Proof.
  intros R S Hok Hx i.
  assert (Ei : i = idx (get (hs m) x)) by (unfold i; apply (rel_fld2 _ _ _ _ _ R (S x Hx))).
  assert (Hi : in_range m i = true).
  { rewrite Ei. apply In_anth in Hx. destruct Hx as (k & Hk & <-). rewrite (proj1 Hok k Hk).
    apply in_range_intro; unfold f_len; lia. }
  destruct (post_elim _ _ (gen_heap_Remove_refines D h fs m i R S Hi)) as ([fs' p] & h' & E & Ep & R' & S').
  cbn [fst snd] in *. rewrite Ei in Ep, R', S'.
  destruct (remove_exact m x Hok Hx) as (Rm & Er).
  set (m' := fst (heap_remove m (idx (get (hs m) x)))) in *.
  rewrite Er in Ep. subst p.
  assert (I' : hinv D (fs', h') m') by (split; [exact R'|split; [exact S'|exact (rm_ok _ _ _ Rm)]]).
  pose proof R as (_ & A & _). pose proof R' as (_ & A' & _).
  exists fs', h'. split; [exact E|].
  split; [|split; [|split; [|split; [|split]]]].
  - rewrite A, A'. change (ptr x :: map ptr (arr m')) with (map ptr (x :: arr m')).
    apply Permutation_map. exact (heap_perm_remove m x Hok Hx).
  - rewrite A'. intros Hi'. apply in_map_ptr in Hi'. apply (rm_in _ _ _ Rm) in Hi'. tauto.
  - rewrite (rel_fld2 _ _ _ _ _ R' (S x Hx)). exact (rm_idx _ _ _ Rm).
  - intros y Hy. unfold fire. rewrite (rel_fld1 _ _ _ _ _ R' Hy), (rel_fld1 _ _ _ _ _ R Hy).
    exact (proj1 (rm_data _ _ _ Rm y)).
  - exact (hinv_heap_idx_ok D (fs', h') m' I').
  - exists m'. split; [exact R'|]. split; [exact S'|]. split; [exact (rm_ok _ _ _ Rm)|].
    intros Ho. unfold m'. rewrite <- Ei. apply heap_ordered_remove; assumption.
Qed.

(** * non-vacuity: the heap of Properties/C12.v ([C12_ex_heap]: seven futures with
    fire times 70 30 50 10 20 60 40) built by the generated heap.Push, then
    heap.Remove of the future in slot 1 and heap.Pop, run by vm_compute *)

Definition h0 : heap :=
  [[1; 70; -1]; [1; 30; -1]; [1; 50; -1]; [1; 10; -1]; [1; 20; -1]; [1; 60; -1]; [1; 40; -1]; []].
Definition fs0 : gslice := mkSl 7 0 0 0.
Definition D0 : list fid := [1; 2; 3; 4; 5; 6; 7]%N.
Definition m0 : fheap :=
  mkHeap [] [(1%N, mkFut 70 (-1) true); (2%N, mkFut 30 (-1) true); (3%N, mkFut 50 (-1) true); (4%N, mkFut 10 (-1) true);
             (5%N, mkFut 20 (-1) true); (6%N, mkFut 60 (-1) true); (7%N, mkFut 40 (-1) true)] false.

Lemma rel0 : rel D0 h0 fs0 m0.
Proof.
  split; [unfold wf_slice; cbn; lia|]. split; [reflexivity|]. split; [intros x []|].
  intros x [<-|[<-|[<-|[<-|[<-|[<-|[<-|[]]]]]]]]; (split; [discriminate|]); (split; [cbn; lia|]); (split; [cbn; lia|]);
    eexists; reflexivity.
Qed.

(* (pointer, idx) of every slot *)
Definition gdump (st : gstate) : list (Z * Z) :=
  map (fun p => (p, nth 2 (arr_get (snd st) (obj_arr p)) 0)) (sl_get (snd st) (fst st)).

Definition ex_calls : list hcall :=
  [HCPush 1%N; HCPush 2%N; HCPush 3%N; HCPush 4%N; HCPush 5%N; HCPush 6%N; HCPush 7%N].

Example gen_ex_heap_run :
  match gen_hrun (fs0, h0) ex_calls with
  | Ok (st, _) =>
      gdump st = [(4, 0); (5, 1); (7, 2); (1, 3); (2, 4); (6, 5); (3, 6)] /\
      match gen_hrun st [HCRemove 1; HCPop] with
      | Ok (st', rs) => rs = [5; 4] /\ gdump st' = [(2, 0); (3, 1); (7, 2); (1, 3); (6, 4)] /\
                        nth 2 (arr_get (snd st') 4) 0 = -1 /\ nth 2 (arr_get (snd st') 3) 0 = -1
      | _ => False
      end
  | _ => False
  end.
Proof. vm_compute. repeat split. Qed.

(* the example meets the hypotheses of the theorems and is what the model computes *)
Example gen_ex_heap_hyps :
  idx_ok m0 /\ heap_ordered m0 /\ incl (arr m0) D0 /\
  option_map (fun r => (dump (fst r), snd r)) (hcall_run m0 (ex_calls ++ [HCRemove 1; HCPop]))
  = Some ([(2%N, 0); (3%N, 1); (7%N, 2); (1%N, 3); (6%N, 4)], [0; 0; 0; 0; 0; 0; 0; 5; 4]%N).
Proof.
  split.
  { split; [cbn; intros; lia|]. intros x _. unfold m0. cbn [hs get].
    repeat (match goal with |- context [N.eqb ?a x] => destruct (N.eqb a x) end; [reflexivity|]). reflexivity. }
  split; [intros k Hk; cbn in Hk; lia|].
  split; [intros y []|]. vm_compute. reflexivity.
Qed.

Definition gen_heap_headlines :=
  (gen_hrun_sim, gen_heap_idx_inv, gen_heap_step_idx, gen_heap_min, gen_heap_min_run, gen_remove_exact).
Print Assumptions gen_heap_headlines.
Print Assumptions gen_ex_heap_run.
Print Assumptions gen_ex_heap_hyps.
