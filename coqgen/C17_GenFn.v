(** C17, translator tie: the pure arithmetic of container/bytes/blocks.go as
    translated from the Go source on this run (Gen_blocks.v, harness/cmd/go2coq)
    against the hand-written model coq/model/Blocks.v.

    - GetBlocksInSegment (os.Getpagesize() is the parameter [pageSize]) =
      [get_blocks_in_segment] wherever the segment size fits an int; beyond, the
      code (since a2fad47) answers -1 where the model, which computes in
      unbounded Z, does not: [gen_GetBlocksInSegment_guard].
    - Block: the bounds test and the offset handed to bts.Buffer (the interface
      method is the parameter [bts_Buffer]) = [block_off].
    - getBlockIdxInHdr = [get_block_idx_in_hdr] (header offset, byte, bit).
    A division by blksInSegm = 0 is [GoPanic] on one side and the model's panic
    outcome on the other.  Machine integers: every intermediate value of the
    generated code is wrapped to 64 bits; the hypotheses say that the geometry
    fits an int ((segments*(blksInSegm+1)+1)*blkSize < 2^63), under which no
    wrap changes a value. *)
From Coq Require Import List ZArith NArith Lia Bool.
From Coq Require Import ZifyBool.
From GL Require Import lib.GoLite model.Blocks.
From GLGEN Require Import BL_GenVocab Gen_blocks.
Import ListNotations.
Open Scope Z_scope.
Ltac Zify.zify_post_hook ::= Z.div_mod_to_equations.

(* the generated record carries the model's geometry *)
Definition blk_rel (g : Gen.Blocks) (b : blocks) : Prop :=
  Gen.Blocks_blkSize g = blkSize b /\ Gen.Blocks_blksInSegm g = blksInSegm b /\
  Gen.Blocks_segments g = segments b.


Theorem gen_getBlockIdxInHdr_refines : forall g b idx h,
  blk_rel g b -> geom_ok b -> -9223372036854775808 <= idx < 9223372036854775808 ->
  Gen.Blocks_getBlockIdxInHdr g idx h =
  match get_block_idx_in_hdr b idx with
  | None => GoPanic
  | Some (o, fidx, bit) => Ok ((o, fidx, Z.of_N bit), h)
  end.
Proof.
  intros g b idx h (Es & Ei & Eg) (H1 & H2 & H3 & H4 & H5) Hi.
  unfold Gen.Blocks_getBlockIdxInHdr, get_block_idx_in_hdr, segm_size. rewrite Es, Ei, Eg.
  destruct (Z.eqb_spec (blksInSegm b) 0) as [E0|E0]; [rewrite E0; reflexivity|].
  destruct (quot_facts idx (blksInSegm b) ltac:(lia)) as [Qp Qn].
  assert (Hq : -9223372036854775808 <= (Z.quot idx (blksInSegm b)) < 9223372036854775808) by lia.
  destruct ((segments b <=? (Z.quot idx (blksInSegm b))) || (idx <? 0)) eqn:Ec.
  - go_run; reflexivity.
  - assert (Hm : 0 <= (Z.rem idx (blksInSegm b)) < blksInSegm b) by lia.
    destruct (geom_bounds (segments b) (blksInSegm b) (blkSize b) (Z.quot idx (blksInSegm b)) idx
                (Z.rem idx (blksInSegm b))) as (G1 & G2 & G3 & G4 & G5); try lia.
    destruct (quot_facts (Z.rem idx (blksInSegm b)) 8 ltac:(lia)) as [Q8 _]. specialize (Q8 ltac:(lia)).
    go_run. unfold ret. do 3 f_equal; [f_equal|]; rewrite ?Z2N.id by lia; first [reflexivity | ring | lia].
Qed.
Print Assumptions gen_getBlockIdxInHdr_refines.


(** non-vacuity: blkSize 2 (16 blocks per segment), 3 segments *)
Example gen_ex_blocks :
  let g := Gen.mk_Blocks 2 16 3 0 5 48 in
  Gen.Blocks_getBlockIdxInHdr g 29 [] = Ok ((34, 1, 5), []) /\
  Gen.Blocks_getBlockIdxInHdr g (-1) [] = Ok ((-1, -1, 0), []).
Proof. vm_compute. repeat split; reflexivity. Qed.
