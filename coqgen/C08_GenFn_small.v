(** C08/C11, translator tie, group "small": the calls the cache makes on the
    generated map (Gen_imap.v, as tied to spec/OMap.v by C10_GenFn_run.v),
    [NewECache] and [ECache.Remove] of /repo/container/lru/ecache.go as
    translated on this run (Gen_ecache.v), against model/ECache.v.

    The function-typed fields of the cache (createNewF, onDeleteF,
    mapToInnerKeyF), the [pair] values stored in the map, the channels of the
    in-flight table and the pool are parameters of the generated code; the
    section states what is assumed of them ([keymap_spec], [delete_spec],
    [create_spec]: the callbacks append a record of their call to the log array
    of the heap and do nothing else; [pair_spec]: the projections of [pair_mk];
    [chan_*]: no effect on the heap) -- C08_GenFn.v discharges them with
    literal implementations.

    [cinv B s o]: the generated map is in the state [gmap s] / [sheap lg s] of a
    pointer-model state [s] that represents the OMap state [o] ([R], C10), is
    well-formed ([winv B], C10_GenFn_run.v) and has no open iterator.  The
    cache-side map of the model is [bm dec (entries o)] (EC_GenVocab.v). *)
Set Warnings "-notation-overridden,-parsing".
From Coq Require Import List ZArith NArith Arith Bool Lia.
From GL Require Import lib.IMapBase model.IMap spec.OMap spec.LRU model.ECache
  proofs.C10_ChainSim proofs.C10_Main.
From GL Require Import lib.GoLite lib.GoLitePtr.
From GLGEN Require Import IM_GenVocab Gen_imap C10_GenFn_node C10_GenFn_walk C10_GenFn C10_GenFn_run.
From GLGEN Require Import EC_GenVocab Gen_ecache.
Import ListNotations.
Open Scope Z_scope.

Lemma bind_inv {A B} (m : M A) (k : A -> M B) h r h' :
  bind m k h = Ok (r, h') -> exists a h1, m h = Ok (a, h1) /\ k a h1 = Ok (r, h').
Proof. unfold bind. destruct (m h) as [[a h1]| |]; try discriminate. eauto. Qed.

Lemma ok3 {A C : Type} (a a' : A) (c c' : C) (h h' : heap) :
  @Ok ((A * C) * heap) ((a, c), h) = Ok ((a', c'), h') -> a = a' /\ c = c' /\ h = h'.
Proof. intros H. inversion H. auto. Qed.

Lemma tr3 {A C D : Type} (a a' : A) (c c' : C) (d d' : D) : (a, c, d) = (a', c', d') -> a = a' /\ c = c' /\ d = d'.
Proof. intros H. inversion H. auto. Qed.

Definition cinv (B : Z) (s : imap) (o : OMap.omap) : Prop := R s o /\ winv B s /\ opos o = [].

(* what is assumed of the parameters of the generated cache code *)
Section Params.
Variable kmap : Z -> Z.
Variable keymap_call : Z -> Z -> M Z.
Variable delete_call : Z -> Z -> Z -> M unit.
Variable create_call : option Z -> Z -> Z -> M (Z * error).
Variable pair_mk : Z -> Z -> Z.
Variable pair_pk pair_v : Z -> Z.
Variable chan_make : M Z.
Variable chan_close chan_recv : Z -> M unit.

Definition keymap_spec : Prop := forall hk pk h, keymap_call hk pk h = Ok (kmap pk, h).
Definition delete_spec : Prop := forall hd pk v lg pl mh,
  delete_call hd pk v (gheap lg pl mh) = Ok (tt, gheap (lg ++ enc_ev (EvDelete pk v)) pl mh).
Definition create_spec : Prop := forall res hc pk lg pl mh,
  create_call res hc pk (gheap lg pl mh) =
    Ok (match res with Some v => (v, ENil) | None => (0, Err) end, gheap (lg ++ enc_ev (EvCreate pk res)) pl mh).
Definition pair_spec : Prop := forall a b, pair_pk (pair_mk a b) = a /\ pair_v (pair_mk a b) = b.
Definition chan_spec : Prop :=
  (exists c, forall h, chan_make h = Ok (c, h)) /\ (forall c h, chan_close c h = Ok (tt, h)).
End Params.

Section Small.

Variable pool_Put : Z -> Z -> M unit.
Variable pool_Get : option nat -> Z -> M Z.
Hypothesis Hput : put_spec pool_Put.
Hypothesis Hget : get_spec pool_Get.

Variable kmap : Z -> Z.
Variable keymap_call : Z -> Z -> M Z.
Variable delete_call : Z -> Z -> Z -> M unit.
Variable pair_pk pair_v : Z -> Z.
Hypothesis Hkey : keymap_spec kmap keymap_call.
Hypothesis Hdel : delete_spec delete_call.

Definition dec (x : Z) : Z * Z := (pair_pk x, pair_v x).

(* the handles stored in the cache record; onDeleteF is given *)
Variables HC HD HK : Z.
Hypothesis HD_nz : HD <> 0.

Definition gp (cap : nat) (s : imap) : Gen.ECache :=
  Gen.mk_ECache (Z.of_nat cap) (gmap s) [] HC HD HK.

Ltac gp_cbn :=
  unfold gp, Gen.set_ECache_items, Gen.set_ECache_inflight in *;
  cbn [Gen.ECache_maxSize Gen.ECache_items Gen.ECache_inflight Gen.ECache_createNewF
       Gen.ECache_onDeleteF Gen.ECache_mapToInnerKeyF] in *.

(** * One call on the generated map, in terms of the OMap specification *)

Lemma mstep lg ch s o x B : R s o -> winv B s -> B + 3 <= 2 ^ 62 -> op_ok (map fst (opos o)) x ->
  exists s', gen_step pool_Put pool_Get ch (gstate s) x (sheap lg s) = Ok ((gstate s', snd (o_step o x)), sheap lg s') /\
             R s' (fst (o_step o x)) /\ winv (B + 3) s'.
Proof.
  intros HR Wi Hb Hok. destruct (imap_step_sim ch s o x HR Hok) as (s' & Hi & HR').
  pose proof (gen_step_refines lg pool_Put pool_Get Hput Hget ch s x B Wi Hb (R_last_not_pooled s o HR)) as G.
  rewrite Hi in G. destruct G as (G & W'). exists s'. auto.
Qed.

Lemma MC_get lg s o k B : R s o -> winv B s -> B + 3 <= 2 ^ 62 ->
  exists s' r, Gen.Map_Get (gmap s) k (sheap lg s) = Ok (r, sheap lg s') /\ gstate s' = gstate s /\
    (if snd r then Some (fst r) else None) = option_map OMap.e_val (o_find (entries o) k) /\
    R s' o /\ winv (B + 3) s'.
Proof.
  intros HR Wi Hb. destruct (mstep lg (fun _ => None) s o (IMapBase.OGet k) B HR Wi Hb I) as (s' & G & HR' & W').
  unfold gen_step in G. unfold gstate at 1 in G. apply bind_inv in G. destruct G as (r & h1 & E & G). unfold ret in G.
  apply ok3 in G. destruct G as (G1 & G2 & ->). cbn [o_step fst snd] in *. injection G2 as G2. exists s', r.
  split; [exact E|]. split; [symmetry; exact G1|]. split; [exact G2|]. destruct o; auto.
Qed.

Lemma MC_remove lg s o k B : R s o -> winv B s -> B + 3 <= 2 ^ 62 ->
  exists s', Gen.Map_Remove pool_Put (gmap s) k (sheap lg s) = Ok (gmap s', sheap lg s') /\
    iters s' = iters s /\ allocs s' = allocs s /\
    R s' (OMap.mkOMap (map (kill k) (entries o)) (opos o)) /\ winv (B + 3) s'.
Proof.
  intros HR Wi Hb. destruct (mstep lg (fun _ => None) s o (IMapBase.ORemove k) B HR Wi Hb I) as (s' & G & HR' & W').
  unfold gen_step in G. unfold gstate at 1 in G. apply bind_inv in G. destruct G as (im' & h1 & E & G). unfold ret in G.
  apply ok3 in G. destruct G as (G1 & _ & ->). unfold gstate in G1. apply tr3 in G1. destruct G1 as (-> & G2 & G3).
  exists s'. cbn [o_step fst snd] in *.
  split; [exact E|]. split; [|split; [congruence|split; assumption]].
  unfold enc_its in G2. apply (f_equal (map (fun kv => (fst kv, snd kv)))) in G2. clear - G2.
  revert G2. generalize (iters s). induction (iters s') as [|[a x] t IH]; intros [|[b y] u]; cbn; try discriminate; [reflexivity|].
  intros [= -> Hp H]. apply ptr_inj in Hp. subst. f_equal. apply IH. exact H.
Qed.

Lemma MC_add lg c s o k v B : R s o -> winv B s -> B + 3 <= 2 ^ 62 ->
  exists s' e, Gen.Map_Add (pool_Get c) (gmap s) k v (sheap lg s) = Ok ((gmap s', e), sheap lg s') /\
    R s' (fst (o_step o (OAdd k v))) /\ winv (B + 3) s'.
Proof.
  intros HR Wi Hb. destruct (mstep lg (fun _ => c) s o (OAdd k v) B HR Wi Hb I) as (s' & G & HR' & W').
  unfold gen_step in G. unfold gstate at 1 in G. apply bind_inv in G. destruct G as ([im' e] & h1 & E & G). unfold ret in G.
  cbn [fst snd] in G. exists s', e.
  destruct e; apply ok3 in G; destruct G as (G1 & _ & ->); unfold gstate in G1; apply tr3 in G1; destruct G1 as (-> & _ & _); auto.
Qed.

Lemma MC_len s o B : R s o -> winv B s -> B + 3 <= 2 ^ 62 ->
  Gen.Map_Len (gmap s) = Z.of_nat (o_len (entries o)).
Proof.
  intros HR Wi Hb. destruct (mstep [] (fun _ => None) s o OLen B HR Wi Hb I) as (s' & G & HR' & W').
  unfold gen_step in G. unfold gstate at 1 in G. unfold ret in G. apply ok3 in G. destruct G as (_ & G4 & _). cbn [o_step snd] in G4.
  injection G4 as G4. rewrite gen_Len_refines in *. rewrite Nat2Z.id in G4. congruence.
Qed.

Lemma MC_first lg s o B : R s o -> winv B s -> B + 3 <= 2 ^ 62 ->
  exists s' k ok, Gen.Map_First pool_Put (gmap s) (sheap lg s) = Ok ((gmap s', k, ok), sheap lg s') /\
    (if ok then Some k else None) = option_map (fun r => OMap.e_key (snd r)) (first_live (entries o) 0) /\
    R s' o /\ winv (B + 3) s'.
Proof.
  intros HR Wi Hb. destruct (mstep lg (fun _ => None) s o OFirst B HR Wi Hb I) as (s' & G & HR' & W').
  unfold gen_step in G. unfold gstate at 1 in G. apply bind_inv in G. destruct G as ([[im' k] ok] & h1 & E & G). unfold ret in G.
  cbn [fst snd o_step] in *. apply ok3 in G. destruct G as (G1 & G4 & ->). unfold gstate in G1. apply tr3 in G1. destruct G1 as (-> & _ & _).
  unfold first_out in G4. injection G4 as G4. exists s', k, ok. destruct o; auto.
Qed.

(** * NewECache and Remove *)

Theorem gen_NewECache_refines lg cap : (1 <= cap)%nat -> HC <> 0 ->
  Gen.NewECache (Z.of_nat cap) HK HC HD (gheap lg [] []) = Ok ((gp cap i_new, ENil), sheap lg i_new).
Proof.
  intros Hc Hnz. unfold Gen.NewECache.
  destruct (Z.ltb_spec (Z.of_nat cap) 1); [lia|]. destruct (Z.eqb_spec HC 0); [contradiction|].
  cbv beta iota zeta. rewrite (bind_ok _ _ _ _ _ (gen_NewMap_refines lg)). reflexivity.
Qed.

Theorem gen_Remove_refines lg cap s o pk B : cinv B s o -> B + 6 <= 2 ^ 62 ->
  let '(it', b, d) := sec_remove Z.eqb kmap (bm dec (entries o)) pk in
  exists s' o',
    Gen.ECache_Remove keymap_call pool_Put delete_call pair_pk pair_v (gp cap s) pk (sheap lg s) =
      Ok ((gp cap s', b), sheap (lg ++ enc_evs (dels_ev d)) s') /\
    cinv (B + 6) s' o' /\ bm dec (entries o') = it' /\ allocs s' = allocs s /\
    (length (entries o') <= length (entries o) + 1)%nat.
Proof.
  intros (HR & Wi & Ho) Hb. unfold sec_remove. rewrite B_get.
  unfold Gen.ECache_Remove. gp_cbn. rewrite (bind_ok _ _ _ _ _ (Hkey HK pk _)).
  destruct (MC_get lg s o (kmap pk) B HR Wi ltac:(lia)) as (s1 & r & E1 & Hg1 & Hr & HR1 & W1).
  rewrite (bind_ok _ _ _ _ _ E1). destruct r as [v ok]. cbn [fst snd] in Hr. cbv beta iota zeta.
  assert (Hgm : gmap s1 = gmap s) by (unfold gstate in Hg1; congruence).
  assert (Hal : allocs s1 = allocs s) by (unfold gstate in Hg1; congruence).
  destruct (o_find (entries o) (kmap pk)) as [e|] eqn:Ef; cbn [option_map] in *.
  - destruct ok; [|discriminate]. injection Hr as ->. cbn [negb]. rewrite <- Hgm.
    destruct (MC_remove lg s1 o (kmap pk) (B + 3) HR1 W1 ltac:(lia)) as (s2 & E2 & Hi2 & Ha2 & HR2 & W2).
    rewrite (bind_ok _ _ _ _ _ E2). cbv beta iota zeta. gp_cbn.
    destruct (Z.eqb_spec HD 0); [contradiction|]. cbn [negb].
    unfold sheap at 1. rewrite (bind_ok _ _ _ _ _ (Hdel HD _ _ _ _ _)). unfold ret.
    exists s2, (OMap.mkOMap (map (kill (kmap pk)) (entries o)) (opos o)).
    split; [|split; [|split]].
    + unfold enc_evs, dels_ev, dec. cbn [map concat fst snd]. rewrite app_nil_r. reflexivity.
    + split; [exact HR2|]. split; [replace (B + 6) with (B + 3 + 3) by lia; exact W2|exact Ho].
    + cbn [entries]. rewrite B_remove. reflexivity.
    + split; [congruence|]. cbn [entries]. rewrite map_length. lia.
  - destruct ok; [discriminate|]. cbn [negb]. unfold ret, enc_evs, dels_ev. cbn [map concat]. rewrite app_nil_r.
    exists s1, o. split; [rewrite <- Hgm; reflexivity|]. split; [|split; [reflexivity|split; [exact Hal|lia]]].
    split; [exact HR1|]. split; [eapply winv_mono; [|exact W1]; lia|exact Ho].
Qed.

End Small.

Print Assumptions gen_NewECache_refines.
Print Assumptions gen_Remove_refines.
