(** C10/C11, translator tie, group "node": the methods of [rlItem]
    (/repo/container/iterable/map.go, translated on this run into
    Gen_imap.v) refine [n_delete] / [n_putval] of model/IMap.v.

    Statement shape: on the GoLite heap [gheap lg pl mh] that represents the model
    heap [mh] (IM_GenVocab.v) the generated function returns exactly the lifted
    result of the model function: [Ok] with the model's value and the heap of
    the model's new heap, [GoPanic] where the model says [Panic] (a nil
    dereference, the explicit panic of putVal). *)
(* model/IMap.v and lib/GoLite.v both define the monadic notation; GoLite's wins here *)
Set Warnings "-notation-overridden,-parsing".
From Coq Require Import List ZArith Arith Bool Lia.
From GL Require Import lib.IMapBase model.IMap.
From GL Require Import lib.GoLite lib.GoLitePtr.
From GLGEN Require Import IM_GenVocab Gen_imap.
Import ListNotations.
Open Scope Z_scope.

Theorem gen_delete_refines lg pl mh x : closed mh -> (x < length mh)%nat ->
  Gen.rlItem_delete (ptr x) (gheap lg pl mh) =
  lift (n_delete mh x) (fun r => Ok (optr (snd r), gheap lg pl (fst r))).
Proof.
  intros C Hx. pose proof (C x Hx) as [Cp Cn].
  unfold Gen.rlItem_delete, n_delete. im_run.
  destruct (n_st (nd mh x)) eqn:Es; im_run; [reflexivity| |].
  all: destruct (n_ref (nd mh x) =? 0) eqn:Er; im_run; [|reflexivity].
  all: destruct (n_prev (nd mh x)) as [p|] eqn:Ep; destruct (n_next (nd mh x)) as [q|] eqn:Eq; cbn [inb] in *; im_run.
  all: im_done.
Qed.


(* [new <> x]: putVal is handed an element other than its receiver (Add passes an
   element taken from the pool, which never holds the trailing element).  For
   rliNew == rli the order of the field assignments would matter. *)
Theorem gen_putVal_refines lg pl mh x k v new : closed mh -> (x < length mh)%nat -> (new < length mh)%nat ->
  new <> x ->
  Gen.rlItem_putVal (ptr x) k v (ptr new) (gheap lg pl mh) =
  lift (n_putval mh x k v new) (fun r => Ok (ptr (snd r), gheap lg pl (fst r))).
Proof.
  intros C Hx Hn Hne. assert (Hne' : x <> new) by congruence.
  unfold Gen.rlItem_putVal, n_putval.
  destruct (n_st (nd mh x)) eqn:Es; im_run0; try reflexivity.
  all: rewrite ?(nd_upd_other _ new _ x) by exact Hne'; im_run0; im_done.
Qed.

Print Assumptions gen_delete_refines.
Print Assumptions gen_putVal_refines.
