(** C15, translator tie, fixed-width functions of xbinary/xbinary.go
    (MarshalByte/UnmarshalByte, MarshalUintNN/UnmarshalUintNN): each generated
    function (Gen_xbinary_fn.v, harness/cmd/go2coq) refines the hand model
    coq/model/XBinary.v.  The proofs do not mention generated variable names. *)
From Coq Require Import List NArith ZArith Arith Lia Bool.
From Coq Require Import ZifyBool ZifyN ZifyNat.
From GL Require Import lib.GoLite model.XBinary proofs.C15_XBinary.
From GLGEN Require Import XB_GenVocab Gen_xbinary_fn.
Import ListNotations.
Open Scope Z_scope.
Ltac Zify.zify_post_hook ::= Z.div_mod_to_equations.

Theorem gen_MarshalByte_refines : forall h buf v, wf_slice h buf -> 0 <= v ->
  Gen.MarshalByte v buf h = wr_result (marshal_byte (Z.to_N v) (Z.to_nat (s_len buf))) h buf.
Proof.
  intros h buf v W Hv. unfold Gen.MarshalByte, marshal_byte, wr_result.
  repeat match goal with |- context [if ?c then _ else _] => destruct c eqn:? end; try lia.
  - go_ret. cbn [fst snd w_n err_of zs map]. rewrite sl_put_nil by exact W. reflexivity.
  - go_step. go_ret. cbn [fst snd w_n err_of zs map length]. do 4 f_equal. lia.
Qed.

Theorem gen_UnmarshalByte_refines : forall h buf, wf_slice h buf -> byte_list (sl_get h buf) ->
  Gen.UnmarshalByte buf h = rd_result (unmarshal_byte (ns (sl_get h buf))) h.
Proof.
  intros h buf W Hb. pose proof (sl_get_len h buf W) as L.
  unfold Gen.UnmarshalByte, unmarshal_byte, rd_result.
  destruct (sl_get h buf) as [|b t] eqn:E; unfold zlen in L; cbn [length ns map] in *;
    repeat match goal with |- context [if ?c then _ else _] => destruct c eqn:? end; try lia.
  - reflexivity.
  - go_step. rewrite E. go_ret. unfold znth. cbn [Z.to_nat nth].
    inversion Hb; subst. do 3 f_equal. f_equal. lia.
Qed.

Ltac fixed_marshal W :=
  unfold marshal_fixed, wr_result;
  repeat match goal with |- context [if ?c then _ else _] => destruct c eqn:? end; try lia;
  [ go_ret; cbn [fst snd w_n err_of zs map]; rewrite sl_put_nil by exact W; reflexivity
  | go_step; go_ret; cbn [fst snd w_n err_of]; rewrite put_be_length, be_bytes_put by assumption; reflexivity ].

Theorem gen_MarshalUint16_refines : forall h buf v, wf_slice h buf -> 0 <= v ->
  Gen.MarshalUint16 v buf h = wr_result (marshal_fixed 2 (Z.to_N v) (Z.to_nat (s_len buf))) h buf.
Proof. intros h buf v W Hv. unfold Gen.MarshalUint16. fixed_marshal W. Qed.

Theorem gen_MarshalUint32_refines : forall h buf v, wf_slice h buf -> 0 <= v ->
  Gen.MarshalUint32 v buf h = wr_result (marshal_fixed 4 (Z.to_N v) (Z.to_nat (s_len buf))) h buf.
Proof. intros h buf v W Hv. unfold Gen.MarshalUint32. fixed_marshal W. Qed.

Theorem gen_MarshalUint64_refines : forall h buf v, wf_slice h buf -> 0 <= v ->
  Gen.MarshalUint64 v buf h = wr_result (marshal_fixed 8 (Z.to_N v) (Z.to_nat (s_len buf))) h buf.
Proof. intros h buf v W Hv. unfold Gen.MarshalUint64. fixed_marshal W. Qed.

Ltac fixed_unmarshal W Hb :=
  let L := fresh "L" in
  pose proof (sl_get_len _ _ W) as L; unfold zlen in L;
  unfold unmarshal_fixed, rd_result; rewrite length_ns;
  repeat match goal with |- context [if ?c then _ else _] => destruct c eqn:? end; try lia;
  [ reflexivity
  | go_step; go_ret; rewrite firstn_ns, be_val_get by (apply Forall_firstn_z, byte_list_nonneg, Hb);
    reflexivity ].

Theorem gen_UnmarshalUint16_refines : forall h buf, wf_slice h buf -> byte_list (sl_get h buf) ->
  Gen.UnmarshalUint16 buf h = rd_result (unmarshal_fixed 2 (ns (sl_get h buf))) h.
Proof. intros h buf W Hb. unfold Gen.UnmarshalUint16. fixed_unmarshal W Hb. Qed.

Theorem gen_UnmarshalUint32_refines : forall h buf, wf_slice h buf -> byte_list (sl_get h buf) ->
  Gen.UnmarshalUint32 buf h = rd_result (unmarshal_fixed 4 (ns (sl_get h buf))) h.
Proof. intros h buf W Hb. unfold Gen.UnmarshalUint32. fixed_unmarshal W Hb. Qed.

Theorem gen_UnmarshalUint64_refines : forall h buf, wf_slice h buf -> byte_list (sl_get h buf) ->
  Gen.UnmarshalUint64 buf h = rd_result (unmarshal_fixed 8 (ns (sl_get h buf))) h.
Proof. intros h buf W Hb. unfold Gen.UnmarshalUint64. fixed_unmarshal W Hb. Qed.
