(** C15 tie, stage 11: [ObjectsWriter] of /repo/xbinary/xbinary.go
    (coqgen/Gen_xwriter.v: [WriteByte / WriteUint16 / 32 / 64 / WriteUint /
    WritePureBytes / WritePureString / WriteBytes / WriteString]) hands to its
    [io.Writer] exactly the bytes [encode_item] of model/XBinary.v says, i.e.
    (C15_marshal_stream_eq_writer, and the stage 1-3 ties of the generated
    [Marshal*] functions) the bytes the generated [Marshal*] functions put into a
    buffer of the predicted size.

    The [io.Writer] is the parameter [w_Write : gslice -> M (Z * error)] of the
    generated methods; [write_spec A w]: a writer that appends what it is given
    to the heap array [A] and reports the full length ([lit_Write A] implements
    it).  The field [buf [10]byte] is a slice descriptor ([--arrayfield]): the
    hypothesis [ow_ok] says it denotes 10 cells of an array other than [A]. *)
Set Warnings "-notation-overridden,-parsing".
From Coq Require Import List NArith ZArith Arith Lia Bool.
From Coq Require Import ZifyBool ZifyN ZifyNat.
From GL Require Import lib.GoLite model.XBinary proofs.C15_XBinary.
From GLGEN Require Import XB_GenVocab Gen_xbinary_fn C15_GenFn_fixed C15_GenFn_varint C15_GenFn_size C15_GenFn Gen_xwriter.
Import ListNotations.
Open Scope Z_scope.

Module GW := Gen_xwriter.Gen.
Module GF := Gen_xbinary_fn.Gen.

(** * the writer and the writer's buffer *)

Definition w_append (A : nat) (s : gslice) (h : heap) : heap := arr_set h A (arr_get h A ++ sl_get h s).

Definition write_spec (A : nat) (w : gslice -> M (Z * error)) : Prop :=
  forall s h, wf_slice h s -> s_arr s <> A -> (A < length h)%nat ->
    w s h = Ok ((s_len s, ENil), w_append A s h).

Definition lit_Write (A : nat) : gslice -> M (Z * error) :=
  fun s h => Ok ((s_len s, ENil), w_append A s h).

Lemma lit_write_spec A : write_spec A (lit_Write A).
Proof. intros s h _ _ _. reflexivity. Qed.

Definition ow_ok (h : heap) (ow : GW.ObjectsWriter) (A : nat) : Prop :=
  let b := GW.ObjectsWriter_buf ow in
  wf_slice h b /\ s_len b = 10 /\ s_cap b = 10 /\ s_arr b <> A /\ (A < length h)%nat.

(* the call handed exactly [d] to the writer: [d] is appended to [A], the
   result is [(len d, nil)], the writer's buffer is still fine, nothing but [A]
   and the scratch buffer changed *)
Definition wrote (A : nat) (d : list Z) (ow : GW.ObjectsWriter) (h : heap) (o : outcome ((Z * error) * heap)) : Prop :=
  exists h', o = Ok ((zlen d, ENil), h') /\ arr_get h' A = arr_get h A ++ d /\ ow_ok h' ow A /\
             length h' = length h /\
             forall a, a <> A -> a <> s_arr (GW.ObjectsWriter_buf ow) -> arr_get h' a = arr_get h a.

Lemma wf_slice_ext h h' s : length h' = length h ->
  zlen (arr_get h' (s_arr s)) = zlen (arr_get h (s_arr s)) -> wf_slice h s -> wf_slice h' s.
Proof. intros L E (Ha & Ho & Hl & Hc & Hm). unfold wf_slice. rewrite L, E. repeat split; lia. Qed.

Lemma put_then_take h b d k : wf_slice h b -> k = zlen d -> k <= s_len b ->
  sl_get (sl_put h b 0 d) (mkSl (s_arr b) (s_off b + 0) (k - 0) (s_cap b - 0)) = d.
Proof.
  intros W -> Hk. pose proof W as (_ & _ & Hl & _). pose proof (zlen_nonneg d).
  assert (W1 : wf_slice (sl_put h b 0 d) b) by (apply wf_slice_put; [exact W|lia|lia|exact W]).
  rewrite (sl_get_reslice_len _ b 0 (zlen d) W1) by lia.
  rewrite sl_get_put_same by (try exact W; lia). rewrite Z.sub_0_r.
  apply zsub_zsplice_same; [lia|]. rewrite (sl_get_len h b W). lia.
Qed.

Section Writer.
Context (A : nat) (w : gslice -> M (Z * error)) (Hw : write_spec A w).

(* the core: [d] sits at the front of the buffer, the writer gets buf[:len d] *)
Lemma emit h ow d k : ow_ok h ow A -> k = zlen d -> k <= 10 ->
  let b := GW.ObjectsWriter_buf ow in
  wrote A d ow h (w (mkSl (s_arr b) (s_off b + 0) (k - 0) (s_cap b - 0)) (sl_put h b 0 d)).
Proof.
  intros (W & Hl & Hc & Hne & HA) Hk Hk10. cbv zeta. set (b := GW.ObjectsWriter_buf ow) in *.
  pose proof (zlen_nonneg d) as Hd.
  set (h1 := sl_put h b 0 d). set (s := mkSl _ _ _ _).
  assert (L1 : length h1 = length h) by (apply sl_put_length; exact W).
  assert (W1 : wf_slice h1 b) by (apply wf_slice_put; [exact W|lia|lia|exact W]).
  assert (Ws : wf_slice h1 s) by (apply wf_reslice; [exact W1|lia|lia]).
  rewrite (Hw s h1 Ws Hne ltac:(lia)). unfold w_append.
  assert (Es : sl_get h1 s = d) by (apply put_then_take; [exact W|exact Hk|lia]).
  assert (EA : arr_get h1 A = arr_get h A).
  { unfold h1, sl_put. apply arr_get_set_other; [apply W|exact Hne]. }
  rewrite Es, EA. eexists. split; [cbn [s_len s]; rewrite Hk, Z.sub_0_r; reflexivity|].
  split; [apply arr_get_set_same; lia|].
  assert (L2 : length (arr_set h1 A (arr_get h A ++ d)) = length h) by (rewrite length_arr_set by lia; exact L1).
  split; [|split; [exact L2|]].
  - unfold ow_ok. cbv zeta. fold b. split; [|repeat split; try assumption; lia].
    apply (wf_slice_ext h); [exact L2| |exact W].
    rewrite arr_get_set_other by (try lia; congruence).
    unfold h1. apply sl_put_arr_len; [exact W|lia|lia].
  - intros a Ha1 Ha2. rewrite arr_get_set_other by (try lia; congruence).
    unfold h1, sl_put. apply arr_get_set_other; [apply W|intros Q; apply Ha2; symmetry; exact Q].
Qed.

(** * the methods *)

Theorem gen_WriteByte_refines h ow v : ow_ok h ow A -> 0 <= v ->
  wrote A (zs (ow_byte (Z.to_N v))) ow h (GW.ObjectsWriter_WriteByte w ow v h).
Proof.
  intros O Hv. pose proof O as (W & Hl & Hc & _).
  unfold GW.ObjectsWriter_WriteByte. go_step. go_step.
  replace (zs (ow_byte (Z.to_N v))) with [v] by (cbn; f_equal; lia).
  apply (emit h ow [v] 1 O); [reflexivity|lia].
Qed.

(* a method that ends in [n, err := w.Write(..); return n, err] instead of [return w.Write(..)] *)
Lemma wrote_eta d ow h (m : M (Z * error)) h1 :
  wrote A d ow h (m h1) -> wrote A d ow h (bind m (fun p => let '(n, e) := p in ret (n, e)) h1).
Proof.
  intros (h' & E & R). unfold bind. rewrite E. exists h'. split; [reflexivity|exact R].
Qed.

(* WriteUint16/32/64: symbolic execution up to the call of the writer *)
Ltac fixed_write O Hv k :=
  let W := fresh "W" in let Hl := fresh "Hl" in let Hc := fresh "Hc" in
  pose proof O as (W & Hl & Hc & _);
  repeat first [ go_step | progress cbv beta iota zeta ];
  try apply wrote_eta;
  rewrite sl_put_reslice; cbn [Z.add]; unfold ow_fixed; rewrite <- be_bytes_put by exact Hv;
  apply (emit _ _ (be_bytes k _) (Z.of_nat k) O);
  [ unfold zlen; rewrite be_bytes_put by exact Hv; rewrite length_zs, put_be_length; reflexivity | cbn; lia ].

Theorem gen_WriteUint16_refines h ow v : ow_ok h ow A -> 0 <= v ->
  wrote A (zs (ow_fixed 2 (Z.to_N v))) ow h (GW.ObjectsWriter_WriteUint16 w ow v h).
Proof. intros O Hv. unfold GW.ObjectsWriter_WriteUint16. fixed_write O Hv 2%nat. Qed.

Theorem gen_WriteUint32_refines h ow v : ow_ok h ow A -> 0 <= v ->
  wrote A (zs (ow_fixed 4 (Z.to_N v))) ow h (GW.ObjectsWriter_WriteUint32 w ow v h).
Proof. intros O Hv. unfold GW.ObjectsWriter_WriteUint32. fixed_write O Hv 4%nat. Qed.

Theorem gen_WriteUint64_refines h ow v : ow_ok h ow A -> 0 <= v ->
  wrote A (zs (ow_fixed 8 (Z.to_N v))) ow h (GW.ObjectsWriter_WriteUint64 w ow v h).
Proof. intros O Hv. unfold GW.ObjectsWriter_WriteUint64. fixed_write O Hv 8%nat. Qed.

Theorem gen_WriteUint_refines h ow v : ow_ok h ow A -> 0 <= v < 2^64 ->
  wrote A (zs (ow_uint (Z.to_N v))) ow h (GW.ObjectsWriter_WriteUint w ow v h).
Proof.
  intros O Hv. pose proof O as (W & Hl & Hc & _).
  assert (HvN : (Z.to_N v < 2^64)%N) by (change (2^64)%N with 18446744073709551616%N; change (2^64) with 18446744073709551616 in Hv; lia).
  unfold GW.ObjectsWriter_WriteUint. go_step.
  set (s1 := mkSl _ _ _ _).
  assert (W1 : wf_slice h s1) by (apply wf_reslice; [exact W|lia|lia]).
  rewrite (bind_ok _ _ _ _ _ (gen_MarshalUint_refines h s1 v W1 Hv)).
  cbn [s_len s1]. rewrite Hl. change (Z.to_nat (10 - 0)) with 10%nat.
  rewrite (ow_uint_enc _ HvN). rewrite (marshal_uint_buffer _ 10 HvN).
  pose proof (enc_uint_length_bounds _ HvN) as Hb.
  destruct (Nat.ltb_spec 10 (length (enc_uint (Z.to_N v)))) as [Hlt|Hge]; [lia|].
  cbn [fst snd w_n err_of]. cbv beta iota. go_step.
  unfold s1. rewrite sl_put_reslice. cbn [Z.add].
  apply (emit h ow (zs (enc_uint (Z.to_N v))) _ O); [rewrite zlen_zs; reflexivity|lia].
Qed.

Theorem gen_WritePureBytes_refines h ow v : ow_ok h ow A -> wf_slice h v -> s_arr v <> A ->
  exists h', GW.ObjectsWriter_WritePureBytes w ow v h = Ok ((s_len v, ENil), h') /\
             arr_get h' A = arr_get h A ++ sl_get h v /\ length h' = length h /\
             forall a, a <> A -> arr_get h' a = arr_get h a.
Proof.
  intros (W & Hl & Hc & Hne & HA) Wv Hv. unfold GW.ObjectsWriter_WritePureBytes.
  rewrite (Hw v h Wv Hv HA). unfold w_append. eexists. split; [reflexivity|].
  split; [apply arr_get_set_same; exact HA|]. split; [apply length_arr_set; exact HA|].
  intros a Ha. apply arr_get_set_other; [exact HA|congruence].
Qed.

Theorem gen_WritePureString_refines h ow v : ow_ok h ow A -> wf_slice h v -> s_arr v <> A ->
  exists h', GW.ObjectsWriter_WritePureString w ow v h = Ok ((s_len v, ENil), h') /\
             arr_get h' A = arr_get h A ++ sl_get h v /\ length h' = length h /\
             forall a, a <> A -> arr_get h' a = arr_get h a.
Proof. intros O Wv Hv. unfold GW.ObjectsWriter_WritePureString, cast_id. apply gen_WritePureBytes_refines; assumption. Qed.

Theorem gen_WriteBytes_refines h ow v : ow_ok h ow A -> wf_slice h v ->
  s_arr v <> A -> s_arr v <> s_arr (GW.ObjectsWriter_buf ow) -> byte_list (sl_get h v) ->
  s_len v + 10 < 9223372036854775808 ->          (* the int addition nn + n *)
  wrote A (zs (ow_bytes (ns (sl_get h v)))) ow h (GW.ObjectsWriter_WriteBytes w ow v h).
Proof.
  intros O Wv Hv1 Hv2 Hb Hlen. pose proof Wv as (_ & _ & Hvl & _).
  assert (Hu : 0 <= s_len v < 2^64) by (change (2^64) with 18446744073709551616; lia).
  unfold GW.ObjectsWriter_WriteBytes. rewrite u64_small by (change (2^64) with 18446744073709551616 in Hu; lia).
  destruct (gen_WriteUint_refines h ow (s_len v) O Hu) as (h1 & E1 & A1 & O1 & L1 & F1).
  rewrite (bind_ok _ _ _ _ _ E1). cbv beta iota. cbn [is_nil negb].
  assert (Wv1 : wf_slice h1 v).
  { apply (wf_slice_ext h); [exact L1|rewrite F1 by assumption; reflexivity|exact Wv]. }
  pose proof O1 as (_ & _ & _ & _ & HA1).
  rewrite (bind_ok _ _ _ _ _ (Hw v h1 Wv1 Hv1 HA1)). cbv beta iota.
  assert (Ev : sl_get h1 v = sl_get h v) by (unfold sl_get; rewrite F1 by assumption; reflexivity).
  assert (Ed : zs (ow_bytes (ns (sl_get h v))) = zs (ow_uint (Z.to_N (s_len v))) ++ sl_get h v).
  { unfold ow_bytes, zs. rewrite map_app. fold (zs (ns (sl_get h v))). rewrite zs_ns by exact Hb.
    rewrite length_ns. do 3 f_equal. pose proof (sl_get_len h v Wv) as Lz. unfold zlen in Lz. lia. }
  pose proof (enc_uint_length_bounds (Z.to_N (s_len v))
                ltac:(change (2^64)%N with 18446744073709551616%N; change (2^64) with 18446744073709551616 in Hu; lia)) as Hb10.
  assert (Hz : zlen (zs (ow_uint (Z.to_N (s_len v)))) <= 10).
  { rewrite ow_uint_enc by (change (2^64)%N with 18446744073709551616%N; change (2^64) with 18446744073709551616 in Hu; lia).
    rewrite zlen_zs. lia. }
  pose proof (zlen_nonneg (zs (ow_uint (Z.to_N (s_len v))))) as Hz0.
  unfold ret. rewrite Ed. eexists. split.
  { rewrite zlen_app, (sl_get_len h v Wv). rewrite i64_small by lia. do 3 f_equal; lia. }
  unfold w_append. rewrite Ev, A1.
  split; [rewrite arr_get_set_same by exact HA1; rewrite app_assoc; reflexivity|].
  assert (L2 : length (arr_set h1 A ((arr_get h A ++ zs (ow_uint (Z.to_N (s_len v)))) ++ sl_get h v)) = length h)
    by (rewrite length_arr_set by exact HA1; exact L1).
  split; [|split; [exact L2|]].
  - destruct O1 as (Wb & Hl1 & Hc1 & Hne1 & _). unfold ow_ok. split; [|repeat split; try assumption; lia].
    apply (wf_slice_ext h1); [rewrite L2, L1; reflexivity| |exact Wb].
    rewrite arr_get_set_other by (try exact HA1; congruence). reflexivity.
  - intros a Ha1 Ha2. rewrite arr_get_set_other by (try exact HA1; congruence). apply F1; assumption.
Qed.

Theorem gen_WriteString_refines h ow v : ow_ok h ow A -> wf_slice h v ->
  s_arr v <> A -> s_arr v <> s_arr (GW.ObjectsWriter_buf ow) -> byte_list (sl_get h v) ->
  s_len v + 10 < 9223372036854775808 ->
  wrote A (zs (ow_bytes (ns (sl_get h v)))) ow h (GW.ObjectsWriter_WriteString w ow v h).
Proof. intros. unfold GW.ObjectsWriter_WriteString, cast_id. apply gen_WriteBytes_refines; assumption. Qed.

End Writer.

(** * items: every kind of write, and the Marshal function of the same kind *)

Inductive gitem :=
| GByte (v : Z) | GU16 (v : Z) | GU32 (v : Z) | GU64 (v : Z) | GUint (v : Z)
| GBytes (s : gslice) | GString (s : gslice).

Definition item_of (h : heap) (g : gitem) : item :=
  match g with
  | GByte v => IByte (Z.to_N v) | GU16 v => IU16 (Z.to_N v) | GU32 v => IU32 (Z.to_N v)
  | GU64 v => IU64 (Z.to_N v) | GUint v => IUint (Z.to_N v)
  | GBytes s => IBytes (ns (sl_get h s)) | GString s => IString (ns (sl_get h s))
  end.

(* the argument is a value of its Go type; a byte slice / string lives outside
   the writer's array and the scratch buffer *)
Definition gitem_ok (h : heap) (ow : GW.ObjectsWriter) (A : nat) (g : gitem) : Prop :=
  match g with
  | GByte v => 0 <= v < 256 | GU16 v => 0 <= v < 65536 | GU32 v => 0 <= v < 4294967296
  | GU64 v | GUint v => 0 <= v < 18446744073709551616
  | GBytes s | GString s =>
      wf_slice h s /\ s_arr s <> A /\ s_arr s <> s_arr (GW.ObjectsWriter_buf ow) /\
      byte_list (sl_get h s) /\ s_len s + 10 < 9223372036854775808
  end.

Definition gen_write_item (w : gslice -> M (Z * error)) (ow : GW.ObjectsWriter) (g : gitem) : M (Z * error) :=
  match g with
  | GByte v => GW.ObjectsWriter_WriteByte w ow v | GU16 v => GW.ObjectsWriter_WriteUint16 w ow v
  | GU32 v => GW.ObjectsWriter_WriteUint32 w ow v | GU64 v => GW.ObjectsWriter_WriteUint64 w ow v
  | GUint v => GW.ObjectsWriter_WriteUint w ow v
  | GBytes s => GW.ObjectsWriter_WriteBytes w ow s | GString s => GW.ObjectsWriter_WriteString w ow s
  end.

Definition gen_marshal_item (g : gitem) (b : gslice) : M (Z * error) :=
  match g with
  | GByte v => GF.MarshalByte v b | GU16 v => GF.MarshalUint16 v b | GU32 v => GF.MarshalUint32 v b
  | GU64 v => GF.MarshalUint64 v b | GUint v => GF.MarshalUint v b
  | GBytes s => GF.MarshalBytes s b | GString s => GF.MarshalString s b
  end.

(* the predicted size: constants for the fixed kinds, the generated Writable*Size functions *)
Definition gen_item_size (g : gitem) : Z :=
  match g with
  | GByte _ => 1 | GU16 _ => 2 | GU32 _ => 4 | GU64 _ => 8
  | GUint v => GF.WritableUintSize v
  | GBytes s => GF.WritebleBytesSize s | GString s => GF.WritableStringSize s
  end.

Lemma gitem_wf h ow A g : gitem_ok h ow A g -> item_wf (item_of h g) = true.
Proof.
  destruct g as [v|v|v|v|v|s|s]; cbn [gitem_ok item_of item_wf]; intros H; try (apply N.ltb_lt; unfold two64; lia).
  all: destruct H as (W & _ & _ & _ & Hl); apply N.ltb_lt; rewrite length_ns;
       pose proof (sl_get_len h s W) as L; unfold zlen in L; unfold two63; lia.
Qed.

Lemma gen_item_size_spec h ow A g : gitem_ok h ow A g ->
  gen_item_size g = Z.of_nat (length (encode_item (item_of h g))).
Proof.
  destruct g as [v|v|v|v|v|s|s]; cbn [gitem_ok item_of encode_item gen_item_size]; intros H;
    try (unfold ow_fixed; rewrite put_be_length; reflexivity); try reflexivity.
  - assert (HvN : (Z.to_N v < 2^64)%N) by (change (2^64)%N with 18446744073709551616%N; lia).
    rewrite gen_WritableUintSize_refines by (change (2^64) with 18446744073709551616; lia).
    rewrite (ow_uint_enc _ HvN), (uint_size _ HvN). reflexivity.
  - destruct H as (W & _ & _ & _ & Hl). rewrite (gen_WritebleBytesSize_refines h s W Hl).
    rewrite (proj1 (bytes_size (ns (sl_get h s)) ltac:(rewrite length_ns; pose proof (sl_get_len h s W) as L; unfold zlen in L; change (2^64)%N with 18446744073709551616%N; lia))).
    reflexivity.
  - destruct H as (W & _ & _ & _ & Hl). rewrite (gen_WritableStringSize_refines h s W Hl).
    unfold writable_string_size.
    rewrite (proj1 (bytes_size (ns (sl_get h s)) ltac:(rewrite length_ns; pose proof (sl_get_len h s W) as L; unfold zlen in L; change (2^64)%N with 18446744073709551616%N; lia))).
    reflexivity.
Qed.

(* the generated Marshal function of the item's kind, by the stage 1-3 ties *)
Lemma gen_marshal_item_refines h ow A g b : gitem_ok h ow A g -> wf_slice h b ->
  (forall s, g = GBytes s \/ g = GString s -> s_arr b <> s_arr s) ->
  gen_marshal_item g b h = wr_result (marshal_item (item_of h g) (Z.to_nat (s_len b))) h b.
Proof.
  intros H Wb Hd. destruct g as [v|v|v|v|v|s|s]; cbn [gitem_ok item_of gen_marshal_item marshal_item] in *.
  - apply gen_MarshalByte_refines; [exact Wb|lia].
  - apply gen_MarshalUint16_refines; [exact Wb|lia].
  - apply gen_MarshalUint32_refines; [exact Wb|lia].
  - apply gen_MarshalUint64_refines; [exact Wb|lia].
  - apply gen_MarshalUint_refines; [exact Wb|change (2^64) with 18446744073709551616; lia].
  - destruct H as (W & _ & _ & Hb & _). apply gen_MarshalBytes_refines; try assumption. apply (Hd s). left. reflexivity.
  - destruct H as (W & _ & _ & Hb & _). apply gen_MarshalString_refines; try assumption. apply (Hd s). right. reflexivity.
Qed.

Section Items.
Context (A : nat) (w : gslice -> M (Z * error)) (Hw : write_spec A w).

Theorem gen_write_item_refines h ow g : ow_ok h ow A -> gitem_ok h ow A g ->
  wrote A (zs (encode_item (item_of h g))) ow h (gen_write_item w ow g h).
Proof.
  intros O H. destruct g as [v|v|v|v|v|s|s]; cbn [gitem_ok item_of encode_item gen_write_item] in *.
  - apply (gen_WriteByte_refines A w Hw); [exact O|lia].
  - apply (gen_WriteUint16_refines A w Hw); [exact O|lia].
  - apply (gen_WriteUint32_refines A w Hw); [exact O|lia].
  - apply (gen_WriteUint64_refines A w Hw); [exact O|lia].
  - apply (gen_WriteUint_refines A w Hw); [exact O|change (2^64) with 18446744073709551616; lia].
  - destruct H as (W & H1 & H2 & Hb & Hl). apply (gen_WriteBytes_refines A w Hw); assumption.
  - destruct H as (W & H1 & H2 & Hb & Hl). apply (gen_WriteString_refines A w Hw); assumption.
Qed.

(** the clause of C15: for every item the bytes handed to the writer are exactly
    the bytes the generated Marshal function of its kind puts into a buffer [b]
    of the predicted size (and both report that size and no error) *)
Theorem gen_ObjectsWriter_emits_marshal h ow g b :
  ow_ok h ow A -> gitem_ok h ow A g -> wf_slice h b -> s_len b = gen_item_size g ->
  (forall s, g = GBytes s \/ g = GString s -> s_arr b <> s_arr s) ->
  exists d h',
    gen_write_item w ow g h = Ok ((zlen d, ENil), h') /\ arr_get h' A = arr_get h A ++ d /\
    gen_marshal_item g b h = Ok ((zlen d, ENil), sl_put h b 0 d) /\
    zlen d = gen_item_size g /\ d = zs (encode_item (item_of h g)).
Proof.
  intros O H Wb Hs Hd.
  destruct (gen_write_item_refines h ow g O H) as (h' & E & EA & _).
  exists (zs (encode_item (item_of h g))), h'. split; [exact E|]. split; [exact EA|].
  pose proof (gen_item_size_spec h ow A g H) as Sz.
  split; [|split; [rewrite zlen_zs, Sz; reflexivity|reflexivity]].
  rewrite (gen_marshal_item_refines h ow A g b H Wb Hd).
  rewrite (proj2 (marshal_item_buffer (item_of h g) (Z.to_nat (s_len b)) (gitem_wf h ow A g H))) by lia.
  unfold wr_result, w_n. cbn [fst snd err_of]. rewrite zlen_zs. reflexivity.
Qed.

(** * streams of writes *)

Fixpoint gen_write_stream (ow : GW.ObjectsWriter) (gs : list gitem) (h : heap) : outcome (list (Z * error) * heap) :=
  match gs with
  | [] => Ok ([], h)
  | g :: t => match gen_write_item w ow g h with
              | Ok (r, h1) => match gen_write_stream ow t h1 with
                              | Ok (rs, h') => Ok (r :: rs, h') | GoPanic => GoPanic | NoFuel => NoFuel end
              | GoPanic => GoPanic | NoFuel => NoFuel
              end
  end.

Lemma gitem_frame h h' ow g : length h' = length h ->
  (forall a, a <> A -> a <> s_arr (GW.ObjectsWriter_buf ow) -> arr_get h' a = arr_get h a) ->
  gitem_ok h ow A g -> gitem_ok h' ow A g /\ item_of h' g = item_of h g.
Proof.
  intros L F H. destruct g as [v|v|v|v|v|s|s]; cbn [gitem_ok item_of] in *; try (split; [exact H|reflexivity]).
  all: destruct H as (W & H1 & H2 & Hb & Hl);
       assert (E : sl_get h' s = sl_get h s) by (unfold sl_get; rewrite F by assumption; reflexivity);
       (split; [|rewrite E; reflexivity]); split; [|rewrite E; repeat split; assumption];
       apply (wf_slice_ext h); [exact L|rewrite F by assumption; reflexivity|exact W].
Qed.

Theorem gen_writer_stream : forall gs h ow,
  ow_ok h ow A -> Forall (gitem_ok h ow A) gs ->
  exists h',
    gen_write_stream ow gs h =
      Ok (map (fun g => (Z.of_nat (length (encode_item (item_of h g))), ENil)) gs, h') /\
    arr_get h' A = arr_get h A ++ zs (concat (map encode_item (map (item_of h) gs))) /\
    ow_ok h' ow A.
Proof.
  induction gs as [|g t IH]; intros h ow O Hall.
  - exists h. split; [reflexivity|]. split; [cbn [map concat zs]; rewrite app_nil_r; reflexivity|exact O].
  - inversion Hall as [|? ? Hg Ht]; subst.
    destruct (gen_write_item_refines h ow g O Hg) as (h1 & E & EA & O1 & L1 & F1).
    assert (Ht1 : Forall (gitem_ok h1 ow A) t).
    { apply Forall_forall. intros x Hx. apply (gitem_frame h h1 ow x L1 F1). apply (proj1 (Forall_forall _ _) Ht x Hx). }
    destruct (IH h1 ow O1 Ht1) as (h' & E' & EA' & O').
    assert (Ext : forall x, In x t -> item_of h1 x = item_of h x).
    { intros x Hx. exact (proj2 (gitem_frame h h1 ow x L1 F1 (proj1 (Forall_forall _ _) Ht x Hx))). }
    assert (M1 : map (fun x => (Z.of_nat (length (encode_item (item_of h1 x))), ENil)) t =
                 map (fun x => (Z.of_nat (length (encode_item (item_of h x))), ENil)) t).
    { apply map_ext_in. intros x Hx. rewrite (Ext x Hx). reflexivity. }
    assert (M2 : map (item_of h1) t = map (item_of h) t) by (apply map_ext_in; exact Ext).
    exists h'. cbn [gen_write_stream map concat]. rewrite E, E', M1. split; [|split; [|exact O']].
    + rewrite zlen_zs. reflexivity.
    + rewrite EA', EA, M2. rewrite <- app_assoc. f_equal. unfold zs. rewrite map_app. reflexivity.
Qed.

(* ... which is what the model's Marshal functions, called one after the other on
   one buffer that is at least as long as the predicted sizes say, produce *)
Corollary gen_writer_stream_eq_marshal : forall gs h ow room,
  ow_ok h ow A -> Forall (gitem_ok h ow A) gs ->
  (length (concat (map encode_item (map (item_of h) gs))) <= room)%nat ->
  exists h' bytes,
    gen_write_stream ow gs h = Ok (map (fun g => (gen_item_size g, ENil)) gs, h') /\
    arr_get h' A = arr_get h A ++ zs bytes /\
    marshal_items (map (item_of h) gs) room = Some bytes.
Proof.
  intros gs h ow room O Hall Hroom.
  destruct (gen_writer_stream gs h ow O Hall) as (h' & E & EA & _).
  exists h', (concat (map encode_item (map (item_of h) gs))). split; [|split; [exact EA|]].
  - rewrite E. f_equal. f_equal. apply map_ext_in. intros x Hx.
    rewrite (gen_item_size_spec h ow A x (proj1 (Forall_forall _ _) Hall x Hx)). reflexivity.
  - apply marshal_stream_eq_writer; [|exact Hroom].
    apply Forall_forall. intros i Hi. apply in_map_iff in Hi. destruct Hi as (x & <- & Hx).
    apply (gitem_wf h ow A). apply (proj1 (Forall_forall _ _) Hall x Hx).
Qed.

End Items.

(** * closed forms with the literal writer, and an example run by vm_compute *)

Definition gen_writer_stream_lit A := gen_writer_stream A (lit_Write A) (lit_write_spec A).
Definition gen_ObjectsWriter_emits_marshal_lit A := gen_ObjectsWriter_emits_marshal A (lit_Write A) (lit_write_spec A).

(* array 0: the sink; array 1: ow.buf; array 2: a 3-byte slice; array 3: a string of 130 bytes *)
Definition ex_h : heap := [[]; repeat 0 10; [7; 8; 9]; repeat 65 130].
Definition ex_ow : GW.ObjectsWriter := GW.mk_ObjectsWriter (mkSl 1 0 10 10).
Definition ex_items : list gitem :=
  [GByte 200; GU16 258; GUint 300; GBytes (mkSl 2 0 3 3); GU32 1; GString (mkSl 3 0 130 130); GU64 (2^40); GUint 5].

Example gen_ex_writer :
  match gen_write_stream (lit_Write 0) ex_ow ex_items ex_h with
  | Ok (rs, h') =>
      map fst rs = [1; 2; 2; 4; 4; 132; 8; 1] /\
      arr_get h' 0 = [200; 1; 2; 172; 2; 3; 7; 8; 9; 0; 0; 0; 1; 130; 1] ++ repeat 65 130 ++ [0; 0; 1; 0; 0; 0; 0; 0; 5] /\
      ns (arr_get h' 0) = concat (map encode_item (map (item_of ex_h) ex_items))
  | _ => False
  end.
Proof. vm_compute. repeat split. Qed.

Example gen_ex_writer_hyps : ow_ok ex_h ex_ow 0 /\ Forall (gitem_ok ex_h ex_ow 0) ex_items.
Proof.
  split.
  - unfold ow_ok, wf_slice. cbn. repeat split; lia.
  - repeat constructor; cbn; try lia; unfold wf_slice; cbn; try lia.
    all: try (apply Forall_forall; intros x Hx; repeat (destruct Hx as [<-|Hx]; [lia|]); try contradiction).
    all: try (apply Forall_forall; intros x Hx; apply repeat_spec in Hx; lia).
Qed.

Definition gen_writer_ties :=
  (gen_WriteByte_refines, gen_WriteUint16_refines, gen_WriteUint32_refines, gen_WriteUint64_refines, gen_WriteUint_refines,
   gen_WritePureBytes_refines, gen_WritePureString_refines, gen_WriteBytes_refines, gen_WriteString_refines,
   gen_write_item_refines, gen_ObjectsWriter_emits_marshal, gen_writer_stream, gen_writer_stream_eq_marshal, lit_write_spec).
Print Assumptions gen_writer_ties.
Print Assumptions gen_ex_writer.
Print Assumptions gen_ex_writer_hyps.
