(** C08/C11, translator tie, group "getorcreate": [ECache.GetOrCreate] of
    /repo/container/lru/ecache.go as translated on this run (Gen_ecache.v) over
    the generated map, against [ec_get] of model/ECache.v (hit: Get, Remove,
    Add; miss: the create callback, then on success Add, Len, First, Get,
    Remove and the delete callback of the evicted entry; failing create).

    Sequential run: the in-flight table is empty at the call ([gp] has
    [inflight = []]), so the [watcher] branch (another goroutine is creating
    the same key; [<-ch] would block) is not taken and the loop returns in its
    first iteration (fuel 2).  A create function that re-enters GetOrCreate on
    the key under creation is outside this tie ([create_spec]: the create
    callback only logs its call and returns the scripted result). *)
Set Warnings "-notation-overridden,-parsing".
From Coq Require Import List ZArith NArith Arith Bool Lia.
From GL Require Import lib.IMapBase model.IMap spec.OMap spec.LRU model.ECache
  proofs.C10_Next proofs.C10_ChainSim proofs.C10_Main proofs.C11_LRU.
From GL Require Import lib.GoLite lib.GoLitePtr.
From GLGEN Require Import IM_GenVocab Gen_imap C10_GenFn_node C10_GenFn_walk C10_GenFn C10_GenFn_run.
From GLGEN Require Import EC_GenVocab Gen_ecache C08_GenFn_small.
Import ListNotations.
Open Scope Z_scope.

Section GOC.

Variable pool_Put : Z -> Z -> M unit.
Variable pool_Get : option nat -> Z -> M Z.
Hypothesis Hput : put_spec pool_Put.
Hypothesis Hget : get_spec pool_Get.

Variable kmap : Z -> Z.
Variable keymap_call : Z -> Z -> M Z.
Variable delete_call : Z -> Z -> Z -> M unit.
Variable create_call : option Z -> Z -> Z -> M (Z * error).
Variable pair_mk : Z -> Z -> Z.
Variable pair_pk pair_v : Z -> Z.
Variable chan_make : M Z.
Variable chan_close chan_recv : Z -> M unit.
Hypothesis Hkey : keymap_spec kmap keymap_call.
Hypothesis Hdel : delete_spec delete_call.
Hypothesis Hcre : create_spec create_call.
Hypothesis Hpair : pair_spec pair_mk pair_pk pair_v.
Hypothesis Hchan : chan_spec chan_make chan_close.

Variables HC HD HK : Z.
Hypothesis HD_nz : HD <> 0.

Notation dec := (dec pair_pk pair_v).
Notation gp := (gp HC HD HK).

Ltac gp_cbn :=
  unfold C08_GenFn_small.gp, Gen.set_ECache_items, Gen.set_ECache_inflight in *;
  cbn [Gen.ECache_maxSize Gen.ECache_items Gen.ECache_inflight Gen.ECache_createNewF
       Gen.ECache_onDeleteF Gen.ECache_mapToInnerKeyF] in *.

Lemma dec_mk pk v : dec (pair_mk pk v) = (pk, v).
Proof. unfold C08_GenFn_small.dec. destruct (Hpair pk v) as [-> ->]. reflexivity. Qed.

Lemma first_live_found es j e : first_live es 0 = Some (j, e) -> exists e', o_find es (OMap.e_key e) = Some e'.
Proof.
  intros H. destruct (first_live_inv _ _ _ _ H) as (_ & Hn & Hl & _). apply nth_error_In in Hn.
  unfold o_find. destruct (find (live_with (OMap.e_key e)) es) as [e'|] eqn:E; [eauto|].
  pose proof (find_none _ _ E e Hn) as F. unfold live_with in F. rewrite Hl, Z.eqb_refl in F. discriminate.
Qed.

Definition res_of (v : Z) (e : error) : lru_res Z := match e with ENil => RVal v | Err => RErr end.

Theorem gen_GetOrCreate_refines lg c cap s o pk res B : cinv B s o -> B + 18 <= 2 ^ 62 ->
  let '(c', (r, evs)) := ec_get Z.eqb kmap (mkEC (bm dec (entries o)) cap) pk res in
  exists s' o' v e,
    Gen.ECache_GetOrCreate keymap_call pool_Put (pool_Get c) pair_v chan_make chan_recv (create_call res) chan_close
        pair_mk delete_call pair_pk (gp cap s) pk (sheap lg s) =
      Ok ((gp cap s', v, e), sheap (lg ++ enc_evs evs) s') /\
    cinv (B + 18) s' o' /\ bm dec (entries o') = ec_items c' /\ r = res_of v e /\
    (length (entries o') <= length (entries o) + 1)%nat.
Proof.
  intros (HR & Wi & Ho) Hb. destruct Hchan as ((c0 & Hmk) & Hcl).
  unfold ec_get, sec_lookup. cbn [ec_items ec_cap]. rewrite B_get.
  unfold Gen.ECache_GetOrCreate. gp_cbn. rewrite (bind_ok _ _ _ _ _ (Hkey HK pk _)).
  rewrite iter_S. unfold Gen.ECache_GetOrCreate_loop1 at 1. gp_cbn.
  set (k := kmap pk) in *.
  destruct (MC_get pool_Put pool_Get Hput Hget lg s o k B HR Wi ltac:(lia)) as (s1 & r & E1 & Hg1 & Hr & HR1 & W1).
  rewrite bind_assoc, (bind_ok _ _ _ _ _ E1). destruct r as [v0 ok]. cbn [fst snd] in Hr. cbv beta iota zeta.
  assert (Hgm : gmap s1 = gmap s) by (unfold gstate in Hg1; congruence).
  destruct (o_find (entries o) k) as [e0|] eqn:Ef; cbn [option_map] in *.
  - (* hit: Remove, Add *)
    destruct ok; [|discriminate]. injection Hr as ->. rewrite <- Hgm.
    destruct (MC_remove pool_Put pool_Get Hput Hget lg s1 o k (B + 3) HR1 W1 ltac:(lia)) as (s2 & E2 & _ & _ & HR2 & W2).
    rewrite bind_assoc, (bind_ok _ _ _ _ _ E2). cbv beta iota zeta. gp_cbn.
    destruct (MC_add pool_Put pool_Get Hput Hget lg c s2 _ k (OMap.e_val e0) (B + 3 + 3) HR2 W2 ltac:(lia)) as (s3 & e3 & E3 & HR3 & W3).
    rewrite bind_assoc, (bind_ok _ _ _ _ _ E3). cbv beta iota zeta. gp_cbn. rewrite bind_ret_l. cbv beta iota zeta.
    cbn [o_step entries fst] in HR3. rewrite o_find_kill in HR3. cbn [fst entries opos] in HR3.
    unfold ret. eexists s3, _, _, _. split; [unfold enc_evs; cbn [map concat]; rewrite app_nil_r; reflexivity|].
    split; [split; [exact HR3|split; [eapply winv_mono; [|exact W3]; lia|exact Ho]]|].
    split; [|split; [reflexivity|cbn [entries]; rewrite app_length, map_length; cbn [length]; lia]].
    cbn [entries ec_items]. rewrite B_remove, <- (B_add_absent dec _ k (OMap.e_val e0)) by apply o_find_kill. reflexivity.
  - (* miss *)
    destruct ok; [discriminate|]. cbv beta iota zeta. cbn [mapget mapfind negb].
    rewrite bind_assoc, (bind_ok _ _ _ _ _ (Hmk _)). cbv beta iota zeta. gp_cbn. cbn [mapset mapdel filter].
    unfold sheap at 1. rewrite bind_assoc, (bind_ok _ _ _ _ _ (Hcre res HC pk _ _ _)).
    fold (sheap (lg ++ enc_ev (EvCreate pk res)) s1). set (lg1 := lg ++ enc_ev (EvCreate pk res)).
    destruct res as [v|]; cbv beta iota zeta.
    + (* created *)
      rewrite bind_assoc, (bind_ok _ _ _ _ _ (Hcl _ _)). cbv beta iota zeta. gp_cbn.
      cbn [mapdel filter fst negb]. rewrite Z.eqb_refl. cbn [negb is_nil]. rewrite <- Hgm.
      destruct (MC_add pool_Put pool_Get Hput Hget lg1 c s1 o k (pair_mk pk v) (B + 3) HR1 W1 ltac:(lia)) as (s2 & e2 & E2 & HR2 & W2).
      rewrite bind_assoc, (bind_ok _ _ _ _ _ E2). cbv beta iota zeta. gp_cbn.
      cbn [o_step] in HR2. rewrite Ef in HR2. cbn [fst] in HR2.
      set (es2 := entries o ++ [mkEntry k (pair_mk pk v) true]) in *.
      rewrite (MC_len pool_Put pool_Get Hput Hget s2 _ (B + 3 + 3) HR2 W2 ltac:(lia)). cbn [entries].
      unfold sec_insert. rewrite <- (dec_mk pk v), (B_add_absent dec _ k _ Ef). fold es2. rewrite B_len.
      destruct (Nat.ltb_spec cap (o_len es2)) as [Hlt|Hge].
      * (* evict the oldest *)
        destruct (Z.ltb_spec (Z.of_nat cap) (Z.of_nat (o_len es2))); [|lia].
        destruct (MC_first pool_Put pool_Get Hput Hget lg1 s2 _ (B + 3 + 3) HR2 W2 ltac:(lia)) as (s3 & k1 & ok1 & E3 & Hf & HR3 & W3).
        rewrite bind_assoc, (bind_ok _ _ _ _ _ E3). cbv beta iota zeta. gp_cbn. cbn [entries] in Hf.
        destruct (first_live_pos es2 ltac:(lia)) as (j & e1 & Efl). rewrite Efl in Hf. cbn [option_map snd] in Hf.
        destruct ok1; [|discriminate]. injection Hf as ->.
        destruct (first_live_found _ _ _ Efl) as (e' & Efd).
        rewrite B_first, Efl. cbn [option_map snd]. rewrite B_get, Efd. cbn [option_map].
        destruct (MC_get pool_Put pool_Get Hput Hget lg1 s3 _ (OMap.e_key e1) (B + 3 + 3 + 3) HR3 W3 ltac:(lia)) as (s4 & r4 & E4 & Hg4 & Hr4 & HR4 & W4).
        rewrite bind_assoc, (bind_ok _ _ _ _ _ E4). destruct r4 as [v4 ok4]. cbn [fst snd entries] in Hr4. rewrite Efd in Hr4.
        cbn [option_map] in Hr4. destruct ok4; [|discriminate]. injection Hr4 as ->. cbv beta iota zeta.
        assert (Hgm4 : gmap s4 = gmap s3) by (unfold gstate in Hg4; congruence). rewrite <- Hgm4.
        destruct (MC_remove pool_Put pool_Get Hput Hget lg1 s4 _ (OMap.e_key e1) (B + 3 + 3 + 3 + 3) HR4 W4 ltac:(lia)) as (s5 & E5 & _ & _ & HR5 & W5).
        rewrite bind_assoc, (bind_ok _ _ _ _ _ E5). cbv beta iota zeta. gp_cbn.
        destruct (Z.eqb_spec HD 0); [contradiction|]. cbn [negb].
        unfold sheap at 1. rewrite bind_assoc, (bind_ok _ _ _ _ _ (Hdel HD _ _ _ _ _)). rewrite bind_ret_l. cbv beta iota zeta.
        unfold ret. eexists s5, _, _, _. split.
        { unfold lg1, enc_evs, dels_ev, C08_GenFn_small.dec. cbn [map concat fst snd]. rewrite app_nil_r, <- app_assoc. reflexivity. }
        split; [split; [exact HR5|split; [eapply winv_mono; [|exact W5]; lia|exact Ho]]|].
        split; [|split; [reflexivity|cbn [entries]; unfold es2; rewrite map_length, app_length; cbn [length]; lia]].
        cbn [entries ec_items fst]. rewrite B_remove. reflexivity.
      * destruct (Z.ltb_spec (Z.of_nat cap) (Z.of_nat (o_len es2))); [lia|]. rewrite bind_ret_l. cbv beta iota zeta.
        unfold ret. eexists s2, _, _, _. split; [unfold lg1, enc_evs, dels_ev; cbn [map concat]; rewrite app_nil_r; reflexivity|].
        split; [split; [exact HR2|split; [eapply winv_mono; [|exact W2]; lia|exact Ho]]|].
        split; [reflexivity|split; [reflexivity|cbn [entries]; unfold es2; rewrite app_length; cbn [length]; lia]].
    + (* the create function failed *)
      rewrite bind_assoc, (bind_ok _ _ _ _ _ (Hcl _ _)). cbv beta iota zeta. gp_cbn.
      cbn [mapdel filter fst negb]. rewrite Z.eqb_refl. cbn [negb is_nil]. rewrite bind_ret_l. cbv beta iota zeta.
      unfold ret. eexists s1, o, _, _. split; [unfold lg1, enc_evs; cbn [map concat]; rewrite app_nil_r, Hgm; reflexivity|].
      split; [split; [exact HR1|split; [eapply winv_mono; [|exact W1]; lia|exact Ho]]|].
      split; [reflexivity|split; [reflexivity|lia]].
Qed.

End GOC.

Print Assumptions gen_GetOrCreate_refines.
