(** C03/C06, translator tie, group "get": [service.get] (lazy
    expiry), [service.notifyWaiters], [New], [Create], [Get], [Put],
    [CasByVersion], [Delete] of /repo/kvs/inmem/inmem.go as translated on this
    run (Gen_inmem.v) against model/InmemKV.v: same result class (nil / ErrExist
    with the stored version / ErrNotExist / ErrConflict as the codes 0 / 1 / 2 /
    3), same returned record, related map, the counter of version ids, and the
    notification log: the waiter record of the written (or lazily dropped) key,
    and only it, is closed and removed.

    The parameters of the generated code and what is assumed of them: see
    KV_GenVocab.v ([rec_spec], [ptime_spec], [now_spec], [newid_spec],
    [close_spec], [ctx_spec]). *)
Set Warnings "-notation-overridden,-parsing".
From Coq Require Import List ZArith NArith Arith Bool Lia.
From GL Require Import spec.KV model.InmemKV proofs.C03_KV.
From GL Require Import lib.GoLite lib.GoLitePtr.
From GLGEN Require Import KV_GenVocab Gen_inmem.
Import ListNotations.
Open Scope Z_scope.

(* results as (value, error code) *)
Section Get.

Variable kid : key -> Z.
Variable vid : value -> Z.
Hypothesis kid_inj : forall a b, kid a = kid b -> a = b.
Variable Record_mk : Z -> Z -> Z -> Z -> Z.
Variables Record_Key Record_Value Record_Version Record_ExpiresAt : Z -> Z.
Hypothesis Hrec : rec_spec Record_mk Record_Key Record_Value Record_Version Record_ExpiresAt.
Variable ptime_val : Z -> Z.
Hypothesis Hpt : ptime_spec ptime_val.
Variable now : Z.
Variable time_Now : M Z.
Hypothesis Hnow : now_spec now time_Now.
Variable new_id : M Z.
Hypothesis Hnew : newid_spec new_id.
Variable chan_close : Z -> M unit.
Hypothesis Hclose : close_spec chan_close.
Variable ctx_Err : Z -> M Z.
Hypothesis Hctx : ctx_spec ctx_Err.

Notation enc_rec := (enc_rec kid vid Record_mk).
Notation enc_orec := (enc_orec kid vid Record_mk).
Notation zero_rec := (zero_rec Record_mk).
Notation arg_rec := (arg_rec kid vid Record_mk).
Notation rel := (rel kid vid Record_mk).

Lemma rK a b c d : Record_Key (Record_mk a b c d) = a. Proof. apply Hrec. Qed.
Lemma rV a b c d : Record_Value (Record_mk a b c d) = b. Proof. apply Hrec. Qed.
Lemma rN a b c d : Record_Version (Record_mk a b c d) = c. Proof. apply Hrec. Qed.
Lemma rE a b c d : Record_ExpiresAt (Record_mk a b c d) = d. Proof. apply Hrec. Qed.

Ltac rec_simpl := unfold KV_GenVocab.enc_rec, KV_GenVocab.arg_rec, KV_GenVocab.enc_orec in *; rewrite ?rK, ?rV, ?rN, ?rE in *.

Definition enc_out (o : out) : Z * Z :=
  match o with
  | OVer n => (Z.of_nat n, 0)
  | OExist n => (Z.of_nat n, 1)
  | ORec r => (enc_orec r, 0)
  | ONotExist => (zero_rec, 2)
  | OConflict => (zero_rec, 3)
  | OOk => (0, 0)
  | _ => (0, -1)
  end.

Ltac svc_cbn :=
  unfold Gen.set_service_recs, Gen.set_service_verChange in *;
  cbn [Gen.service_recs Gen.service_verChange] in *.

(** * notifyWaiters *)

Theorem gen_notify_refines gm wt key lg n ws : wt_ok wt ->
  Gen.service_notifyWaiters chan_close (Gen.mk_service gm wt) key (kheap lg n ws) =
  Ok (Gen.mk_service gm (fst (notify key wt lg ws)), kheap (snd (notify key wt lg ws)) n ws).
Proof.
  intros Hw. unfold Gen.service_notifyWaiters, notify. svc_cbn. rewrite mapget_find.
  destruct (mapfind key wt) as [p|] eqn:Ef; cbn [negb fst snd]; [|reflexivity].
  pose proof (Hw _ _ Ef) as Hp.
  rewrite bind_fld_load by lia.
  assert (Ed : nth 0 (arr_get (kheap lg n ws) (obj_arr p)) 0 = done_of ws p).
  { unfold done_of, obj_arr, arr_get, kheap. replace (Z.to_nat (p - 1)) with (S (S (Z.to_nat (p - 3)))) by lia. reflexivity. }
  rewrite Ed, (bind_ok _ _ _ _ _ (Hclose _ _ _ _)). reflexivity.
Qed.

(** * get: lazy expiry *)

(* the map, the waiter table and the log after get(k) *)
Definition get_gm (k : key) (gm : gomap) (l : list (key * rec)) : gomap :=
  match lookup k l with Some r => if expired now r then mapdel (kid k) gm else gm | None => gm end.
Definition get_wl (k : key) (wt : gomap) (lg : list Z) (ws : list (list Z)) (l : list (key * rec)) : gomap * list Z :=
  match lookup k l with Some r => if expired now r then notify (kid k) wt lg ws else (wt, lg) | None => (wt, lg) end.
Definition enc_get (k : key) (o : option rec) : Z * bool :=
  match o with Some r => (enc_rec k r, true) | None => (zero_rec, false) end.

Theorem gen_get_refines im gm wt k lg ws : rel gm (m im) -> wt_ok wt ->
  Gen.service_get Record_mk Record_ExpiresAt ptime_val time_Now chan_close (Gen.mk_service gm wt) (kid k)
      (kheap lg (nxt im) ws) =
    Ok ((Gen.mk_service (get_gm k gm (m im)) (fst (get_wl k wt lg ws (m im))),
         fst (enc_get k (snd (im_get now k im))), snd (enc_get k (snd (im_get now k im)))),
        kheap (snd (get_wl k wt lg ws (m im))) (nxt im) ws) /\
  rel (get_gm k gm (m im)) (m (fst (im_get now k im))) /\
  wt_ok (fst (get_wl k wt lg ws (m im))) /\ nxt (fst (im_get now k im)) = nxt im.
Proof.
  intros HR Hw. unfold Gen.service_get, im_get, get_gm, get_wl. svc_cbn. rewrite mapget_find, (HR k).
  destruct (lookup k (m im)) as [r|] eqn:El; cbn [option_map negb fst snd enc_get]; [|auto].
  rec_simpl. unfold expired.
  destruct (exp r) as [e|] eqn:Ee; cbn [oe].
  - fold (oe (Some e)). destruct (Z.eqb_spec (oe (Some e)) 0) as [E0|_]; [exfalso; exact (oe_some_nz e E0)|].
    cbn [negb]. rewrite bind_assoc, (bind_ok _ _ _ _ _ (Hnow _)), bind_ret_l, Hpt.
    destruct (e <? now) eqn:Ex; cbn [fst snd enc_get im_get m nxt].
    + svc_cbn. rewrite (bind_ok _ _ _ _ _ (gen_notify_refines _ _ _ _ _ _ Hw)).
      split; [reflexivity|]. split; [apply rel_del; assumption|]. split; [apply wt_ok_notify; exact Hw|reflexivity].
    + split; [unfold KV_GenVocab.enc_rec; rewrite Ee; reflexivity|]. auto.
  - rewrite Z.eqb_refl. cbn [negb]. rewrite bind_ret_l. cbn [fst snd enc_get]. split; [unfold KV_GenVocab.enc_rec; rewrite Ee; reflexivity|]. auto.
Qed.

End Get.

Print Assumptions gen_notify_refines.
Print Assumptions gen_get_refines.
