(** C16, translator tie, fixed-width decoders (UnmarshalByte, UnmarshalUintNN)
    as translated from the Go source on this run (Gen_xbinary_fn.v,
    harness/cmd/go2coq): total for every heap and every well-formed slice. *)
From Coq Require Import List ZArith Lia Bool.
From Coq Require Import ZifyBool.
From GL Require Import lib.GoLite.
From GLGEN Require Import XB_GenTotal Gen_xbinary_fn.
Import ListNotations.
Open Scope Z_scope.
Ltac Zify.zify_post_hook ::= Z.div_mod_to_equations.

Theorem gen_UnmarshalByte_total : forall h buf, wf_slice h buf ->
  Forall (fun b => 0 <= b < 256) (sl_get h buf) ->
  dec_total h (s_len buf) (scalar 8 h) (Gen.UnmarshalByte buf h).
Proof.
  intros h buf W Hb. pose proof W as (Wa & Wo & Wl & Wc & Wm).
  pose proof (sl_get_len h buf W) as L. unfold zlen in L.
  unfold Gen.UnmarshalByte. go_run; total_done.
  unfold scalar. split; [reflexivity|]. change (2 ^ 8) with 256.
  rewrite Forall_forall in Hb. apply Hb. unfold znth. apply nth_In. lia.
Qed.

Ltac fixed_total k W Hb :=
  let L := fresh "L" in
  pose proof (sl_get_len _ _ W) as L; unfold zlen in L;
  go_run; total_done; unfold scalar; split; [reflexivity|];
  match goal with |- 0 <= be_val ?l < _ =>
    let R := fresh "R" in
    pose proof (be_val_range l (firstn_bytes _ _ Hb)) as R;
    unfold zlen in R; rewrite firstn_length in R;
    replace (Nat.min k (length (sl_get _ _))) with k in R by lia; exact R
  end.

Theorem gen_UnmarshalUint16_total : forall h buf, wf_slice h buf ->
  Forall (fun b => 0 <= b < 256) (sl_get h buf) ->
  dec_total h (s_len buf) (scalar 16 h) (Gen.UnmarshalUint16 buf h).
Proof.
  intros h buf W Hb. pose proof W as (Wa & Wo & Wl & Wc & Wm).
  unfold Gen.UnmarshalUint16. fixed_total 2%nat W Hb.
Qed.

Theorem gen_UnmarshalUint32_total : forall h buf, wf_slice h buf ->
  Forall (fun b => 0 <= b < 256) (sl_get h buf) ->
  dec_total h (s_len buf) (scalar 32 h) (Gen.UnmarshalUint32 buf h).
Proof.
  intros h buf W Hb. pose proof W as (Wa & Wo & Wl & Wc & Wm).
  unfold Gen.UnmarshalUint32. fixed_total 4%nat W Hb.
Qed.

Theorem gen_UnmarshalUint64_total : forall h buf, wf_slice h buf ->
  Forall (fun b => 0 <= b < 256) (sl_get h buf) ->
  dec_total h (s_len buf) (scalar 64 h) (Gen.UnmarshalUint64 buf h).
Proof.
  intros h buf W Hb. pose proof W as (Wa & Wo & Wl & Wc & Wm).
  unfold Gen.UnmarshalUint64. fixed_total 8%nat W Hb.
Qed.
