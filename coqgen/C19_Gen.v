(** C19: the table theorems and the headline theorems over the tables as they
    are written in errors/grpc.go today (Gen_errors.v is regenerated from the
    Go source by harness/cmd/gen19 on every run of bin/check C19; the copy in
    this directory is the committed snapshot).  A wrong row in a Go table
    makes [gen_tables_ok] (and what depends on it) fail to check. *)
From Coq Require Import List NArith Bool.
From GLGEN Require Import Gen_errors.
From GL Require Import model.Errors proofs.C19_Errors.
Import ListNotations.

(** the sentinel variables of errors.go are exactly the classes of the model
    (in any order) *)
Theorem gen_classes_complete :
  (forall c : class, In c gen_classes) /\ length gen_classes = length all_classes.
Proof.
  split; [|vm_compute; reflexivity].
  assert (H : forallb (fun c => existsb (class_eqb c) gen_classes) all_classes = true)
    by (vm_compute; reflexivity).
  intros c. rewrite forallb_forall in H. specialize (H c (all_classes_complete c)).
  apply existsb_exists in H as (c0 & Hin & Heq). apply class_eqb_eq in Heq. subst c0. exact Hin.
Qed.

(** every class that has a code: the code is neither OK nor Unknown and maps
    back to the class; the default code is neither OK nor Unknown *)
Theorem gen_tables_ok : tables_ok gen_tables = true.
Proof. vm_compute. reflexivity. Qed.

(** every one of the 17 codes: OK maps to nil, every other code to a class *)
Theorem gen_codes_total :
  from_code gen_tables OK = None /\
  forall k, k <> OK -> exists c, from_code gen_tables k = Some c.
Proof. apply codes_total_of_b. vm_compute. reflexivity. Qed.

Theorem gen_codes_exactly_one_class :
  forall k, k <> OK -> exists! c, from_code gen_tables k = Some c.
Proof.
  intros k Hk. destruct (proj2 gen_codes_total k Hk) as [c Hc].
  exists c. split; [exact Hc|]. intros c' Hc'. congruence.
Qed.

Theorem gen_class_code_roundtrip :
  forall c k, to_code gen_tables c = Some k -> from_code gen_tables k = Some c.
Proof. exact (class_code_roundtrip gen_tables gen_tables_ok). Qed.

Theorem gen_to_code_injective :
  forall c1 c2 k, to_code gen_tables c1 = Some k -> to_code gen_tables c2 = Some k -> c1 = c2.
Proof. exact (to_code_injective gen_tables gen_tables_ok). Qed.

(** the keys of errorsToCode are distinct: the order in which GRPCStatusCode
    ranges over the map cannot matter *)
Theorem gen_keys_distinct : NoDup (map fst (t_e2c gen_tables)).
Proof. apply keys_distinct_of_b. vm_compute. reflexivity. Qed.

(** the headline theorems, over the generated tables *)

(* every wrapping tree without a status error in which errors.Is finds the class c and no other class *)
Theorem gen_class_survives_tree :
  forall (e : err) (c : class) (k : code) (c' : class),
    inner_status e = None -> uniform e = true -> the_class e = Some c ->
    to_code gen_tables c = Some k ->
    Is_o gen_tables (grpc_wrap gen_tables e) c' = class_eqb c' c /\
    Is_o gen_tables (transport_o (grpc_wrap gen_tables e)) c' = class_eqb c' c.
Proof.
  intros e c k c' Hs Hu Hc Hk. rewrite (transport_wrapped_tree gen_tables gen_tables_ok e c Hs Hu Hc).
  split; exact (class_survives_tree gen_tables gen_tables_ok e c k c' Hs Hu Hc Hk).
Qed.

(* a wrapping context (a path through the tree whose side operands bring neither a class nor a status error) *)
Theorem gen_class_survives :
  forall (c : class) (k : code) (x : ctx) (c' : class),
    ctx_sides_ok x = true ->
    to_code gen_tables c = Some k ->
    Is_o gen_tables (grpc_wrap gen_tables (plug x (Sentinel c))) c' = class_eqb c' c /\
    Is_o gen_tables (transport_o (grpc_wrap gen_tables (plug x (Sentinel c)))) c' = class_eqb c' c.
Proof.
  intros c k x c' Hx Hk. rewrite (transport_wrapped gen_tables gen_tables_ok x c Hx).
  split; exact (class_survives gen_tables gen_tables_ok c k x c' Hx Hk).
Qed.

(* chains: no side condition *)
Theorem gen_class_survives_linear :
  forall (c : class) (k : code) (x : ctx) (c' : class),
    ctx_linear x = true ->
    to_code gen_tables c = Some k ->
    Is_o gen_tables (grpc_wrap gen_tables (plug x (Sentinel c))) c' = class_eqb c' c /\
    Is_o gen_tables (transport_o (grpc_wrap gen_tables (plug x (Sentinel c)))) c' = class_eqb c' c.
Proof. intros c k x c' Hl. apply gen_class_survives, linear_sides_ok, Hl. Qed.

Theorem gen_grpc_wrap_idem :
  forall e : option err,
    grpc_wrap_o gen_tables (grpc_wrap_o gen_tables e) = grpc_wrap_o gen_tables e.
Proof. exact (grpc_wrap_idem gen_tables gen_tables_ok). Qed.

Theorem gen_embed_survives :
  forall (x : ctx) (c : class) (o : obj),
    ctx_sides_ok x = true -> ctx_marker_free x = true -> ctx_embeds x = [o] ->
    extract_o (grpc_wrap gen_tables (plug x (Sentinel c))) = Some o /\
    extract_o (transport_o (grpc_wrap gen_tables (plug x (Sentinel c)))) = Some o.
Proof. exact (embed_survives gen_tables gen_tables_ok). Qed.

Print Assumptions gen_classes_complete.
Print Assumptions gen_tables_ok.
Print Assumptions gen_codes_total.
Print Assumptions gen_codes_exactly_one_class.
Print Assumptions gen_class_code_roundtrip.
Print Assumptions gen_to_code_injective.
Print Assumptions gen_keys_distinct.
Print Assumptions gen_class_survives_tree.
Print Assumptions gen_class_survives.
Print Assumptions gen_class_survives_linear.
Print Assumptions gen_grpc_wrap_idem.
Print Assumptions gen_embed_survives.
