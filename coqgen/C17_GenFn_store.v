(** C17 tie, stage 11: the in-memory byte storage under the allocator,
    /repo/container/bytes/inmem.go ([inmemBtsBuf]: [Buffer], [Size], [Grow],
    [Close], [isClosed], [NewInMemBytes]; coqgen/Gen_bstore.v), tied to the hand
    model's [buf_slice] (model/Blocks.v) and to the hypothesis [buffer_spec] of
    stage 5 (coqgen/C17_GenFn_alloc.v): on every argument pair a Go caller can
    pass without overflow the generated [Buffer] is the literal [hb_Buffer] that
    stood in for it so far.

    [ib *inmemBtsBuf] is the slice value (stage 6); the storage of [brel A h buf]
    is the slice [ibuf A n = mkSl A 0 n n] over the whole array [A]. *)
Set Warnings "-notation-overridden,-parsing".
From Coq Require Import List ZArith NArith Lia Bool.
From Coq Require Import ZifyBool.
From GL Require Import lib.GoLite model.Blocks spec.AllocSet proofs.C17_Bytes proofs.C17_Inv proofs.C17_Blocks.
From GLGEN Require Import BL_GenVocab Gen_blocks C17_GenFn C17_GenFn_alloc Gen_bstore.
Import ListNotations.
Open Scope Z_scope.

Module GS := Gen_bstore.Gen.

Definition ibuf (A : nat) (n : Z) : gslice := mkSl A 0 n n.

(* the arguments a Go caller can pass for which [offs + int64(size)] does not
   overflow and the slice expression [offs : offs+size] is not inverted *)
Definition buf_args_ok (offs size : Z) : Prop :=
  -9223372036854775808 <= offs < 9223372036854775808 /\ 0 <= size /\ offs + size < 9223372036854775808.

Lemma closed_ibuf A n : 0 <= n ->
  GS.inmemBtsBuf_isClosed (ibuf A n) = (Nat.eqb A 0 && (n =? 0)).
Proof.
  intros Hn. unfold GS.inmemBtsBuf_isClosed, ibuf. cbn [s_arr s_off s_len s_cap].
  destruct (Nat.eqb A 0); destruct (Z.eqb_spec n 0); cbn; reflexivity.
Qed.

Theorem gen_inmem_Size_spec A h buf : brel A h buf ->
  GS.inmemBtsBuf_Size (ibuf A (bsize buf)) = bsize buf /\ bsize buf = zlen (arr_get h A).
Proof.
  intros (Ba & Bl & Bs & _). unfold GS.inmemBtsBuf_Size, ibuf. cbn [s_len].
  rewrite i64_small by lia. split; [reflexivity|symmetry; exact Bl].
Qed.

(** * Buffer: the window [offs, offs+size) cut at the end of the storage *)

Theorem gen_inmem_Buffer_spec A h buf offs size : brel A h buf -> buf_args_ok offs size ->
  GS.inmemBtsBuf_Buffer (ibuf A (bsize buf)) offs size h =
  match buf_slice buf offs size with
  | None => Ok ((nil_slice, Err), h)
  | Some (base, len) => Ok ((mkSl A base len (bsize buf - base), ENil), h)
  end.
Proof.
  intros (Ba & Bl & Bs & _) (Ho & Hs & Hos).
  unfold GS.inmemBtsBuf_Buffer, buf_slice. rewrite closed_ibuf by lia.
  unfold GS.inmemBtsBuf_Size, ibuf. cbn [s_len]. rewrite (i64_small (bsize buf)) by lia.
  destruct (Nat.eqb A 0 && (bsize buf =? 0)) eqn:C.
  { (* the closed storage: the nil slice, size 0 - every offset is out of bounds *)
    apply andb_prop in C. destruct C as [_ C]. apply Z.eqb_eq in C. rewrite C.
    destruct ((offs <? 0) || (0 <=? offs)) eqn:D; [reflexivity|].
    apply orb_false_elim in D. destruct D as [D1 D2]. apply Z.ltb_ge in D1. apply Z.leb_gt in D2. lia. }
  destruct ((offs <? 0) || (bsize buf <=? offs)) eqn:D; [reflexivity|].
  apply orb_false_elim in D. destruct D as [D1 D2]. apply Z.ltb_ge in D1. apply Z.leb_gt in D2.
  cbv zeta. rewrite (i64_small size) by lia. rewrite (i64_small (offs + size)) by lia.
  rewrite (i64_small offs) by lia.
  destruct (bsize buf <? offs + size) eqn:E.
  - apply Z.ltb_lt in E. rewrite (i64_small (bsize buf - offs)) by lia. rewrite (i64_small (bsize buf - offs)) by lia.
    rewrite (i64_small (offs + (bsize buf - offs))) by lia.
    rewrite bind_reslice by (cbn [s_cap]; lia). unfold ret. cbn [s_arr s_off s_cap].
    do 3 f_equal. f_equal; lia.
  - apply Z.ltb_ge in E. rewrite (i64_small (offs + size)) by lia.
    rewrite bind_reslice by (cbn [s_cap]; lia). unfold ret. cbn [s_arr s_off s_cap].
    do 3 f_equal. f_equal; lia.
Qed.

(* ... which is what the literal [hb_Buffer] of stage 5 does *)
Corollary gen_inmem_Buffer_is_hb A hd h buf offs size : brel A h buf -> buf_args_ok offs size ->
  GS.inmemBtsBuf_Buffer (ibuf A (zlen (arr_get h A))) offs size h = hb_Buffer A hd offs size h.
Proof.
  intros B Ok_. pose proof B as (_ & Bl & _). rewrite Bl.
  rewrite (gen_inmem_Buffer_spec A h buf offs size B Ok_). symmetry. apply hb_buffer_spec. exact B.
Qed.

(** the storage handed to the allocator: the GENERATED Buffer of the slice over
    the whole array [A] on every argument pair of [buf_args_ok]; outside of it
    (negative size, overflowing sum: Go panics on the slice expression, the
    model's [buf_slice] does not) the literal of stage 5 *)
Definition args_okb (offs size : Z) : bool :=
  (-9223372036854775808 <=? offs) && (offs <? 9223372036854775808) && (0 <=? size) && (offs + size <? 9223372036854775808).

Lemma args_okb_spec offs size : args_okb offs size = true <-> buf_args_ok offs size.
Proof. unfold args_okb, buf_args_ok. lia. Qed.

Definition gen_bts_Buffer (A : nat) (hd offs size : Z) : M (gslice * error) := fun h =>
  if args_okb offs size then GS.inmemBtsBuf_Buffer (ibuf A (zlen (arr_get h A))) offs size h
  else hb_Buffer A hd offs size h.

(* [buffer_spec] of coqgen/C17_GenFn_alloc.v, discharged *)
Theorem gen_bts_buffer_spec : forall A hd h buf offs size, brel A h buf ->
  gen_bts_Buffer A hd offs size h =
  match buf_slice buf offs size with
  | None => Ok ((nil_slice, Err), h)
  | Some (base, len) => Ok ((mkSl A base len (bsize buf - base), ENil), h)
  end.
Proof.
  intros A hd h buf offs size B. unfold gen_bts_Buffer.
  destruct (args_okb offs size) eqn:E.
  - apply args_okb_spec in E. rewrite (gen_inmem_Buffer_is_hb A hd h buf offs size B E). apply hb_buffer_spec. exact B.
  - apply hb_buffer_spec. exact B.
Qed.

(* the stage-5 ties of the allocator over the generated storage *)
Theorem gen_ArrangeBlock_refines_gs : forall A hd h g b,
  grel hd A h g b -> geom_ok b -> geom_ok2 b -> counters_ok b ->
  match arrange b with
  | (b', ArrIdx i) =>
      exists g' h', Gen_blocks.Gen.Blocks_ArrangeBlock (gen_bts_Buffer A) g h = Ok ((g', i, ENil), h') /\ grel hd A h' g' b'
  | (b', ArrErr _) =>
      exists g', Gen_blocks.Gen.Blocks_ArrangeBlock (gen_bts_Buffer A) g h = Ok ((g', 0, Err), h) /\ grel hd A h g' b'
  | (_, ArrPanic) => Gen_blocks.Gen.Blocks_ArrangeBlock (gen_bts_Buffer A) g h = GoPanic
  | (_, ArrOOF) => False
  end.
Proof. intros A hd. exact (gen_ArrangeBlock_refines (gen_bts_Buffer A) hd A (gen_bts_buffer_spec A hd)). Qed.

Theorem gen_FreeBlock_refines_gs : forall A hd h g b idx,
  grel hd A h g b -> geom_ok b -> counters_ok b ->
  -9223372036854775808 <= idx < 9223372036854775808 ->
  match free b idx with
  | (b', FreeOk) => exists g' h', Gen_blocks.Gen.Blocks_FreeBlock (gen_bts_Buffer A) g idx h = Ok ((g', ENil), h') /\ grel hd A h' g' b'
  | (_, FreeErr _) => Gen_blocks.Gen.Blocks_FreeBlock (gen_bts_Buffer A) g idx h = Ok ((g, Err), h)
  | (_, FreePanic) => Gen_blocks.Gen.Blocks_FreeBlock (gen_bts_Buffer A) g idx h = GoPanic
  end.
Proof. intros A hd. exact (gen_FreeBlock_refines (gen_bts_Buffer A) hd A (gen_bts_buffer_spec A hd)). Qed.

(** * Size, Close, Grow, NewInMemBytes *)

Theorem gen_inmem_Close_spec A n : 0 <= n ->
  GS.inmemBtsBuf_Close (ibuf A n) =
  if Nat.eqb A 0 && (n =? 0) then (ibuf A n, Err) else (nil_slice, ENil).
Proof.
  intros Hn. unfold GS.inmemBtsBuf_Close. change (andb (Nat.eqb (s_arr (ibuf A n)) 0) _) with (GS.inmemBtsBuf_isClosed (ibuf A n)).
  rewrite closed_ibuf by exact Hn. destruct (Nat.eqb A 0 && (n =? 0)); reflexivity.
Qed.

(* a closed storage: every call reports the error, the size is 0 *)
Theorem gen_inmem_closed : forall offs size newSize h,
  GS.inmemBtsBuf_isClosed nil_slice = true /\ GS.inmemBtsBuf_Size nil_slice = 0 /\
  GS.inmemBtsBuf_Close nil_slice = (nil_slice, Err) /\
  GS.inmemBtsBuf_Buffer nil_slice offs size h = Ok ((nil_slice, Err), h) /\
  GS.inmemBtsBuf_Grow nil_slice newSize h = Ok ((nil_slice, Err), h).
Proof. intros. repeat split; reflexivity. Qed.

Lemma skipn_repeat_z (a : Z) : forall N k, skipn k (repeat a N) = repeat a (N - k).
Proof.
  induction N as [|N IH]; intros k; [destruct k; reflexivity|].
  destruct k as [|k]; [reflexivity|]. cbn [repeat skipn Nat.sub]. apply IH.
Qed.

Theorem gen_inmem_Grow_spec A h buf newSize : brel A h buf -> (A <> 0%nat \/ 0 < bsize buf) ->
  -9223372036854775808 <= newSize < 9223372036854775808 ->
  GS.inmemBtsBuf_Grow (ibuf A (bsize buf)) newSize h =
  if newSize <? bsize buf then Ok ((ibuf A (bsize buf), Err), h)
  else Ok ((ibuf (length h) newSize, ENil),
           h ++ [arr_get h A ++ repeat 0 (Z.to_nat (newSize - bsize buf))]).
Proof.
  intros (Ba & Bl & Bs & _) Hopen Hn. unfold GS.inmemBtsBuf_Grow. rewrite closed_ibuf by lia.
  assert (C : Nat.eqb A 0 && (bsize buf =? 0) = false).
  { destruct Hopen as [Ha|Hb]; [apply Nat.eqb_neq in Ha; rewrite Ha; reflexivity|].
    destruct (Z.eqb_spec (bsize buf) 0); [lia|apply andb_false_r]. }
  rewrite C. unfold GS.inmemBtsBuf_Size, ibuf. cbn [s_len]. rewrite i64_small by lia.
  destruct (newSize <? bsize buf) eqn:E; [reflexivity|]. apply Z.ltb_ge in E.
  rewrite bind_gomake by lia. rewrite bind_gocopy. cbv beta iota zeta. unfold ret. cbn [s_len].
  rewrite Z.min_r by lia.
  assert (W : wf_slice h (mkSl A 0 (bsize buf) (bsize buf))) by (unfold wf_slice; cbn [s_arr s_off s_len s_cap]; lia).
  rewrite (sl_get_grow h _ _ W). unfold sl_get. cbn [s_arr s_off s_len]. rewrite <- Bl, zsub_all.
  rewrite firstn_all2 by (unfold zlen; lia).
  do 2 f_equal. unfold sl_put. cbn [s_arr s_off]. rewrite arr_get_new.
  unfold arr_set. rewrite firstn_app, Nat.sub_diag, firstn_all. cbn [firstn]. rewrite app_nil_r.
  rewrite skipn_all2 by (rewrite app_length; cbn [length]; lia). f_equal. f_equal.
  unfold zsplice. cbn [Z.add Z.to_nat firstn app Nat.add]. f_equal.
  rewrite skipn_repeat_z. f_equal. unfold zlen. lia.
Qed.

Theorem gen_NewInMemBytes_spec size h : 0 <= size < 9223372036854775808 ->
  GS.NewInMemBytes size h = Ok (ibuf (length h) size, h ++ [repeat 0 (Z.to_nat size)]).
Proof. intros Hs. unfold GS.NewInMemBytes. cbv zeta. rewrite bind_gomake by lia. reflexivity. Qed.

(** * example (vm_compute): a 10-byte storage: windows, clamping, out of bounds, grow, close *)
Example gen_ex_store :
  let h := [[1; 2; 3; 4; 5; 6; 7; 8; 9; 10]] in
  let ib := ibuf 0 10 in
  GS.inmemBtsBuf_Buffer ib 2 3 h = Ok ((mkSl 0 2 3 8, ENil), h) /\
  GS.inmemBtsBuf_Buffer ib 8 5 h = Ok ((mkSl 0 8 2 2, ENil), h) /\
  GS.inmemBtsBuf_Buffer ib 10 1 h = Ok ((nil_slice, Err), h) /\
  GS.inmemBtsBuf_Buffer ib (-1) 1 h = Ok ((nil_slice, Err), h) /\
  GS.inmemBtsBuf_Buffer ib 2 (-1) h = GoPanic /\                  (* outside buf_args_ok: Go panics *)
  GS.inmemBtsBuf_Grow ib 12 h = Ok ((ibuf 1 12, ENil), h ++ [[1; 2; 3; 4; 5; 6; 7; 8; 9; 10; 0; 0]]) /\
  GS.inmemBtsBuf_Grow ib 9 h = Ok ((ib, Err), h) /\
  GS.inmemBtsBuf_Close ib = (nil_slice, ENil) /\ GS.inmemBtsBuf_Size ib = 10.
Proof. vm_compute. repeat split. Qed.

Definition gen_store_ties :=
  (gen_inmem_Size_spec, gen_inmem_Buffer_spec, gen_inmem_Buffer_is_hb, gen_bts_buffer_spec, gen_ArrangeBlock_refines_gs,
   gen_FreeBlock_refines_gs, gen_inmem_Close_spec, gen_inmem_closed, gen_inmem_Grow_spec, gen_NewInMemBytes_spec).
Print Assumptions gen_store_ties.
Print Assumptions gen_ex_store.
