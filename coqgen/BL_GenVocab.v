(** Arithmetic lemmas shared by the proofs over the generated functions of
    container/bytes/blocks.go (coqgen/C17_GenFn*.v): Go's truncated / and %, and
    the bounds of the block geometry.  Nothing here depends on generated code. *)
From Coq Require Import List ZArith NArith Lia Bool.
From Coq Require Import ZifyBool.
From GL Require Import lib.GoLite model.Blocks.
Import ListNotations.
Open Scope Z_scope.
Ltac Zify.zify_post_hook ::= Z.div_mod_to_equations.

(* Go's / and % (truncated) on the ranges that occur: the only places where
   the euclidean equations are needed *)
Lemma quot_facts x d : 0 < d ->
  (0 <= x -> 0 <= Z.quot x d <= x /\ x = d * Z.quot x d + Z.rem x d /\ 0 <= Z.rem x d < d) /\
  (x < 0 -> x <= Z.quot x d <= 0).
Proof. intros Hd. Time (Z.to_euclidean_division_equations; nia). Qed.

Lemma rem_range x d : 0 < d -> - d < Z.rem x d < d.
Proof. intros Hd. Z.to_euclidean_division_equations. nia. Qed.

Lemma quot_le_iff a b m : 0 < b -> 0 <= m -> 0 <= a -> (a <= Z.quot m b <-> a * b <= m).
Proof. intros Hb Hm Ha. Time (Z.to_euclidean_division_equations; nia). Qed.


(* the arithmetic of the block geometry: nothing overflows *)
Lemma geom_bounds (S B W q idx m : Z) :
  0 <= W -> 0 < B -> 0 <= q < S -> 0 <= m < B -> idx = B * q + m ->
  (S * (B + 1) + 1) * W < 9223372036854775808 -> S * (B + 1) + 1 < 9223372036854775808 ->
  0 <= B + 1 < 9223372036854775808 /\
  0 <= q * (B + 1) <= S * (B + 1) /\
  0 <= q * (B + 1) * W < 9223372036854775808 /\
  0 <= idx + q + 1 <= S * (B + 1) /\
  0 <= (idx + q + 1) * W < 9223372036854775808.
Proof.
  intros HW HB Hq Hm -> H1 H2.
  assert (A1 : (q + 1) * (B + 1) <= S * (B + 1)) by (apply Z.mul_le_mono_nonneg_r; lia).
  assert (A2 : 0 <= q * (B + 1)) by (apply Z.mul_nonneg_nonneg; lia).
  assert (A3 : B * q + m + q + 1 <= S * (B + 1)) by lia.
  assert (A4 : q * (B + 1) * W <= S * (B + 1) * W) by (apply Z.mul_le_mono_nonneg_r; lia).
  assert (A5 : (B * q + m + q + 1) * W <= S * (B + 1) * W) by (apply Z.mul_le_mono_nonneg_r; lia).
  assert (A6 : 0 <= q * (B + 1) * W) by (apply Z.mul_nonneg_nonneg; lia).
  assert (A7 : 0 <= (B * q + m + q + 1) * W) by (apply Z.mul_nonneg_nonneg; lia).
  assert (A8 : B * q >= 0) by (apply Z.le_ge, Z.mul_nonneg_nonneg; lia).
  repeat split; lia.
Qed.

(* the geometry fits an int *)
Definition geom_ok (b : blocks) : Prop :=
  0 <= blkSize b /\ 0 <= blksInSegm b /\ 0 <= segments b /\
  (segments b * (blksInSegm b + 1) + 1) * blkSize b < 9223372036854775808 /\
  segments b * (blksInSegm b + 1) + 1 < 9223372036854775808.


(** * Bytes: the bit operations of the generated code (Z) and of the model (N) *)
From GL Require Import proofs.C17_Bytes.

Lemma shl_bit_mask j : 0 <= j < 8 -> shl u8 8 1 j = Z.of_N (bit_mask (Z.to_N j)).
Proof.
  intros Hj. unfold shl, bit_mask. destruct (Z.leb_spec 8 j); [lia|].
  assert (C : j = 0 \/ j = 1 \/ j = 2 \/ j = 3 \/ j = 4 \/ j = 5 \/ j = 6 \/ j = 7) by lia.
  destruct C as [->|[->|[->|[->|[->|[->|[->| ->]]]]]]]; reflexivity.
Qed.

Lemma bit_clear_Z v j : 0 <= j < 8 ->
  (Z.land (Z.of_N v) (shl u8 8 1 j) =? 0) = bit_is_clear v (Z.to_N j).
Proof.
  intros Hj. rewrite shl_bit_mask by exact Hj. unfold bit_is_clear.
  rewrite <- N2Z_land. destruct (N.eqb_spec (N.land v (bit_mask (Z.to_N j))) 0) as [E|E].
  - rewrite E. reflexivity.
  - destruct (Z.eqb_spec (Z.of_N (N.land v (bit_mask (Z.to_N j)))) 0); [lia|reflexivity].
Qed.

Lemma set_bit_Z v j : 0 <= j < 8 ->
  Z.lor (Z.of_N v) (shl u8 8 1 j) = Z.of_N (N.lor v (bit_mask (Z.to_N j))).
Proof. intros Hj. rewrite shl_bit_mask by exact Hj. rewrite N2Z_lor. reflexivity. Qed.

Lemma clear_bit_Z v j : 0 <= j < 8 ->
  Z.land (Z.of_N v) (Z.lxor 255 (shl u8 8 1 j)) = Z.of_N (N.land v (N.lxor 255 (bit_mask (Z.to_N j)))).
Proof.
  intros Hj. rewrite shl_bit_mask by exact Hj. rewrite N2Z_land.
  assert (C : j = 0 \/ j = 1 \/ j = 2 \/ j = 3 \/ j = 4 \/ j = 5 \/ j = 6 \/ j = 7) by lia.
  destruct C as [->|[->|[->|[->|[->|[->|[->| ->]]]]]]]; reflexivity.
Qed.

(* reading and overwriting one element of a list *)
Lemma znth_zsplice1 l at_ v off : 0 <= at_ < zlen l -> 0 <= off ->
  znth (zsplice l at_ [v]) off = if off =? at_ then v else znth l off.
Proof.
  intros Ha Ho. unfold znth. rewrite nth_zsplice by (unfold zlen in *; cbn [length]; lia).
  cbn [length]. destruct (Z.eqb_spec off at_) as [->|Hne].
  - destruct (Nat.ltb_spec (Z.to_nat at_) (Z.to_nat at_)); [lia|].
    destruct (Nat.ltb_spec (Z.to_nat at_) (Z.to_nat at_ + 1)); [|lia].
    rewrite Nat.sub_diag. reflexivity.
  - destruct (Nat.ltb_spec (Z.to_nat off) (Z.to_nat at_)); [reflexivity|].
    destruct (Nat.ltb_spec (Z.to_nat off) (Z.to_nat at_ + 1)); [lia|reflexivity].
Qed.
