(** C08/C11, translator tie, group "clear": [ECache.Clear] of
    /repo/container/lru/ecache.go as translated on this run (Gen_ecache.v) over
    the generated map, against [sec_clear] of model/ECache.v: the iterator is
    opened, the loop (HasNext / Next / Remove / the delete callback / removed++)
    runs against [clear_loop] by induction on the model's fuel, the deferred
    Close runs before the return.

    During the loop the map has ONE open iterator (named [nm] in the table of
    the pointer model; the name is immaterial): [opos o = [(nm, p)]], the
    generated [mapIterator] record is the table's entry, the model's position
    is the stamp [N.of_nat p]. *)
Set Warnings "-notation-overridden,-parsing".
From Coq Require Import List ZArith NArith Arith Bool Lia.
From GL Require Import lib.IMapBase model.IMap spec.OMap spec.LRU model.ECache
  proofs.C10_Next proofs.C10_ChainSim proofs.C10_Main proofs.C11_Chain proofs.C11_LRU.
From GL Require Import lib.GoLite lib.GoLitePtr.
From GLGEN Require Import IM_GenVocab Gen_imap C10_GenFn_node C10_GenFn_walk C10_GenFn C10_GenFn_run.
From GLGEN Require Import EC_GenVocab Gen_ecache C08_GenFn_small.
Import ListNotations.
Open Scope Z_scope.

Lemma enc_evs_app a b : enc_evs (a ++ b) = enc_evs a ++ enc_evs b.
Proof. unfold enc_evs. rewrite map_app, concat_app. reflexivity. Qed.

Lemma dels_ev_app {PK V} (a b : list (PK * V)) : dels_ev (a ++ b) = dels_ev a ++ dels_ev b.
Proof. unfold dels_ev. apply map_app. Qed.

Section Clear.

Variable pool_Put : Z -> Z -> M unit.
Variable pool_Get : option nat -> Z -> M Z.
Hypothesis Hput : put_spec pool_Put.
Hypothesis Hget : get_spec pool_Get.

Variable delete_call : Z -> Z -> Z -> M unit.
Variable pair_pk pair_v : Z -> Z.
Hypothesis Hdel : delete_spec delete_call.

Variables HC HD HK : Z.
Hypothesis HD_nz : HD <> 0.

Notation dec := (dec pair_pk pair_v).
Notation gp := (gp HC HD HK).

Ltac gp_cbn :=
  unfold C08_GenFn_small.gp, Gen.set_ECache_items, Gen.set_ECache_inflight in *;
  cbn [Gen.ECache_maxSize Gen.ECache_items Gen.ECache_inflight Gen.ECache_createNewF
       Gen.ECache_onDeleteF Gen.ECache_mapToInnerKeyF] in *.

Variable nm : Z.   (* the name of the iterator Clear opens *)

(** * The iterator calls on the generated map, in terms of spec/OMap.v *)

Lemma MC_iterator lg s o B : R s o -> winv B s -> B + 3 <= 2 ^ 62 -> opos o = [] ->
  exists s' it, Gen.Map_Iterator (gmap s) (sheap lg s) = Ok (it, sheap lg s') /\
    gmap s' = gmap s /\ enc_its (iters s') = [(nm, it)] /\ allocs s' = allocs s /\
    R s' (OMap.mkOMap (entries o) [(nm, 0%nat)]) /\ winv (B + 3) s'.
Proof.
  intros HR Wi Hb Ho.
  assert (Hit : iters s = []).
  { pose proof (R_names s o HR) as N. rewrite Ho in N. destruct (iters s); [reflexivity|discriminate]. }
  destruct (mstep pool_Put pool_Get Hput Hget lg (fun _ => None) s o (ONewIter nm) B HR Wi Hb) as (s' & G & HR' & W').
  { cbn [op_ok]. rewrite Ho. intros []. }
  unfold gen_step in G. unfold gstate at 1 in G. apply bind_inv in G. destruct G as (it & h1 & E & G). unfold ret in G.
  apply ok3 in G. destruct G as (G1 & _ & ->). unfold gstate in G1. apply tr3 in G1. destruct G1 as (G1 & G2 & G3).
  cbn [o_step fst] in HR'. rewrite Ho in HR'. rewrite Hit in G2. cbn [enc_its map] in G2.
  exists s', it. auto 8.
Qed.

Lemma MC_hasnext lg s o it p B : R s o -> winv B s -> B + 3 <= 2 ^ 62 ->
  enc_its (iters s) = [(nm, it)] -> opos o = [(nm, p)] ->
  exists s' it', Gen.mapIterator_HasNext pool_Put (gmap s) it (sheap lg s) =
      Ok ((gmap s', it', match first_live (entries o) p with Some _ => true | None => false end), sheap lg s') /\
    enc_its (iters s') = [(nm, it')] /\ allocs s' = allocs s /\ R s' o /\ winv (B + 3) s'.
Proof.
  intros HR Wi Hb Hits Ho.
  destruct (mstep pool_Put pool_Get Hput Hget lg (fun _ => None) s o (OHasNext nm) B HR Wi Hb) as (s' & G & HR' & W').
  { cbn [op_ok]. rewrite Ho. left. reflexivity. }
  unfold gen_step in G. unfold gstate at 1 in G. cbv beta iota zeta in G. rewrite Hits in G. cbn [alookup] in G.
  rewrite Z.eqb_refl in G. apply bind_inv in G. destruct G as ([[im' it'] b] & h1 & E & G). unfold ret in G. cbn [fst snd] in G.
  apply ok3 in G. destruct G as (G1 & G4 & ->). unfold gstate in G1. apply tr3 in G1. destruct G1 as (-> & G2 & G3).
  cbn [o_step] in G4, HR'. rewrite Ho in G4, HR'. cbn [alookup] in G4, HR'. rewrite Z.eqb_refl in G4, HR'. cbn [fst snd] in G4, HR'.
  injection G4 as ->. cbn [aset map fst] in G2. rewrite Z.eqb_refl in G2.
  exists s', it'. split; [exact E|]. split; [symmetry; exact G2|]. split; [congruence|]. destruct o; auto.
Qed.

Lemma MC_next lg s o it p B : R s o -> winv B s -> B + 3 <= 2 ^ 62 ->
  enc_its (iters s) = [(nm, it)] -> opos o = [(nm, p)] ->
  exists s' it' e ok, Gen.mapIterator_Next pool_Put (gmap s) it (sheap lg s) = Ok ((gmap s', it', e, ok), sheap lg s') /\
    enc_its (iters s') = [(nm, it')] /\ allocs s' = allocs s /\ winv (B + 3) s' /\
    match first_live (entries o) p with
    | Some (j, en) => ok = true /\ Gen.MapEntry_Key e = OMap.e_key en /\ Gen.MapEntry_Value e = OMap.e_val en /\
                      R s' (OMap.mkOMap (entries o) [(nm, S j)])
    | None => ok = false /\ R s' o
    end.
Proof.
  intros HR Wi Hb Hits Ho.
  destruct (mstep pool_Put pool_Get Hput Hget lg (fun _ => None) s o (ONext nm) B HR Wi Hb) as (s' & G & HR' & W').
  { cbn [op_ok]. rewrite Ho. left. reflexivity. }
  unfold gen_step in G. unfold gstate at 1 in G. cbv beta iota zeta in G. rewrite Hits in G. cbn [alookup] in G.
  rewrite Z.eqb_refl in G. apply bind_inv in G. destruct G as ([[[im' it'] e] ok] & h1 & E & G). unfold ret in G. cbn [fst snd] in G.
  apply ok3 in G. destruct G as (G1 & G4 & ->). unfold gstate in G1. apply tr3 in G1. destruct G1 as (-> & G2 & G3).
  cbn [aset map fst] in G2. rewrite Z.eqb_refl in G2.
  exists s', it', e, ok. split; [exact E|]. split; [symmetry; exact G2|]. split; [congruence|]. split; [exact W'|].
  cbn [o_step] in G4, HR'. rewrite Ho in G4, HR'. cbn [alookup] in G4, HR'. rewrite Z.eqb_refl in G4, HR'.
  destruct (first_live (entries o) p) as [[j en]|]; cbn [fst snd] in G4, HR'; unfold next_out in G4.
  - destruct ok; [|discriminate]. injection G4 as G4 G5. cbn [opos aset map fst] in HR'. rewrite Z.eqb_refl in HR'. auto.
  - destruct ok; [discriminate|]. destruct o; auto.
Qed.

Lemma MC_close lg s o it p B : R s o -> winv B s -> B + 3 <= 2 ^ 62 ->
  enc_its (iters s) = [(nm, it)] -> opos o = [(nm, p)] ->
  exists s' it' e, Gen.mapIterator_Close pool_Put (gmap s) it (sheap lg s) = Ok ((gmap s', it', e), sheap lg s') /\
    allocs s' = allocs s /\ R s' (OMap.mkOMap (entries o) []) /\ winv (B + 3) s'.
Proof.
  intros HR Wi Hb Hits Ho.
  destruct (mstep pool_Put pool_Get Hput Hget lg (fun _ => None) s o (OClose nm) B HR Wi Hb) as (s' & G & HR' & W').
  { cbn [op_ok]. rewrite Ho. left. reflexivity. }
  unfold gen_step in G. unfold gstate at 1 in G. cbv beta iota zeta in G. rewrite Hits in G. cbn [alookup] in G.
  rewrite Z.eqb_refl in G. apply bind_inv in G. destruct G as ([[im' it'] e] & h1 & E & G). unfold ret in G. cbn [fst snd] in G.
  apply ok3 in G. destruct G as (G1 & _ & ->). unfold gstate in G1. apply tr3 in G1. destruct G1 as (-> & G2 & G3).
  cbn [o_step] in HR'. rewrite Ho in HR'. cbn [alookup] in HR'. rewrite Z.eqb_refl in HR'. cbn [fst opos aremove filter negb] in HR'.
  rewrite Z.eqb_refl in HR'. cbn [negb] in HR'.
  exists s', it', e. split; [exact E|]. split; [congruence|]. auto.
Qed.

(** * The loop *)

Lemma Clear_loop lg cap : forall f gf s o p it r dels B,
  (f < gf)%nat -> R s o -> winv B s -> opos o = [(nm, p)] -> enc_its (iters s) = [(nm, it)] ->
  B + 9 * Z.of_nat f + 9 <= 2 ^ 62 -> Z.of_nat r + Z.of_nat f < 2 ^ 62 ->
  let '(it', r', d', oof) := clear_loop Z.eqb f (bm dec (entries o)) (N.of_nat p) r dels in
  oof = false ->
  exists s' o' it1 p',
    iter gf (Gen.ECache_Clear_loop1 pool_Put delete_call pair_pk pair_v) (gp cap s, it, Z.of_nat r)
         (sheap (lg ++ enc_evs (dels_ev dels)) s) =
      Ok ((gp cap s', it1, Z.of_nat r'), sheap (lg ++ enc_evs (dels_ev d')) s') /\
    R s' o' /\ winv (B + 9 * Z.of_nat f + 9) s' /\ opos o' = [(nm, p')] /\ enc_its (iters s') = [(nm, it1)] /\
    bm dec (entries o') = it' /\ allocs s' = allocs s /\ length (entries o') = length (entries o).
Proof.
  induction f as [|f IH]; intros gf s o p it r dels B Hf HR Wi Ho Hits Hb Hr.
  - (* no fuel left in the model: only the exit test *)
    cbn [clear_loop]. unfold it_has_next. rewrite B_peek.
    destruct gf as [|gf]; [lia|]. rewrite iter_S. unfold Gen.ECache_Clear_loop1 at 1. gp_cbn.
    destruct (MC_hasnext (lg ++ enc_evs (dels_ev dels)) s o it p B HR Wi ltac:(lia) Hits Ho) as (s1 & it1 & E1 & Hi1 & Ha1 & HR1 & W1).
    rewrite bind_assoc, (bind_ok _ _ _ _ _ E1). cbv beta iota zeta. gp_cbn.
    destruct (first_live (entries o) p) as [[j en]|]; cbn [option_map]; [intros [=]|]. intros _.
    rewrite bind_ret_l. cbv beta iota zeta. unfold ret.
    exists s1, o, it1, p. split; [reflexivity|]. split; [exact HR1|]. split; [eapply winv_mono; [|exact W1]; lia|]. auto.
  - cbn [clear_loop]. unfold it_has_next, it_next. rewrite B_peek.
    destruct gf as [|gf]; [lia|]. rewrite iter_S. unfold Gen.ECache_Clear_loop1 at 1. gp_cbn.
    set (lg1 := lg ++ enc_evs (dels_ev dels)).
    destruct (MC_hasnext lg1 s o it p B HR Wi ltac:(lia) Hits Ho) as (s1 & it1 & E1 & Hi1 & Ha1 & HR1 & W1).
    rewrite bind_assoc, (bind_ok _ _ _ _ _ E1). cbv beta iota zeta. gp_cbn.
    destruct (MC_next lg1 s1 o it1 p (B + 3) HR1 W1 ltac:(lia) Hi1 Ho) as (s2 & it2 & e & ok & E2 & Hi2 & Ha2 & W2 & Hn).
    destruct (first_live (entries o) p) as [[j en]|] eqn:Efl; cbn [option_map fst snd].
    + (* an entry: Next, Remove, the callback, removed++ *)
      destruct Hn as (-> & Hk & Hv & HR2).
      rewrite bind_assoc, (bind_ok _ _ _ _ _ E2). cbv beta iota zeta. gp_cbn. cbn [negb]. rewrite Hk, Hv.
      destruct (MC_remove pool_Put pool_Get Hput Hget lg1 s2 _ (OMap.e_key en) (B + 3 + 3) HR2 W2 ltac:(lia)) as (s3 & E3 & Hi3 & Ha3 & HR3 & W3).
      rewrite bind_assoc, (bind_ok _ _ _ _ _ E3). cbv beta iota zeta. gp_cbn.
      destruct (Z.eqb_spec HD 0); [contradiction|]. cbn [negb].
      unfold sheap at 1. rewrite bind_assoc, (bind_ok _ _ _ _ _ (Hdel HD _ _ _ _ _)). cbv beta iota zeta.
      rewrite (i64_small (Z.of_nat r + 1)) by (rewrite two62' in *; lia). rewrite bind_ret_l. cbv beta iota zeta.
      cbn [b_ent ECache.e_key ECache.e_val entries opos] in *.
      specialize (IH gf s3 (OMap.mkOMap (map (kill (OMap.e_key en)) (entries o)) [(nm, S j)]) (S j) it2 (S r)
                     (dels ++ [dec (OMap.e_val en)]) (B + 3 + 3 + 3) ltac:(lia) HR3 W3 eq_refl).
      rewrite Hi3 in IH. specialize (IH Hi2 ltac:(lia) ltac:(lia)).
      cbn [entries] in IH. rewrite <- B_remove, Nat2N.inj_succ in IH.
      destruct (clear_loop Z.eqb f _ _ _ _) as [[[it' r'] d'] oof]. intros Hoof. specialize (IH Hoof).
      destruct IH as (s' & o' & it3 & p' & E & HR' & W' & Ho' & Hi' & Hb' & Ha' & Hl').
      exists s', o', it3, p'. split.
      { rewrite <- E. f_equal.
        - f_equal. lia.
        - unfold sheap, lg1. f_equal. rewrite dels_ev_app, enc_evs_app, app_assoc. unfold C08_GenFn_small.dec. reflexivity. }
      split; [exact HR'|]. split; [eapply winv_mono; [|exact W']; lia|]. split; [exact Ho'|]. split; [exact Hi'|].
      split; [exact Hb'|]. split; [congruence|]. rewrite Hl', map_length. reflexivity.
    + (* nothing left *)
      intros _. rewrite bind_ret_l. cbv beta iota zeta. unfold ret.
      exists s1, o, it1, p. split; [reflexivity|]. split; [exact HR1|]. split; [eapply winv_mono; [|exact W1]; lia|]. auto.
Qed.

Lemma o_len_le es : (o_len es <= length es)%nat.
Proof.
  unfold o_len. induction es as [|e t IH]; [apply le_n|]. cbn [filter length].
  destruct (OMap.e_live e); cbn [length]; lia.
Qed.

Theorem gen_Clear_refines lg cap s o B : cinv B s o ->
  B + 9 * Z.of_nat (length (entries o)) + 33 <= 2 ^ 62 ->
  let '(it', n, d, oof) := sec_clear Z.eqb (bm dec (entries o)) in
  oof = false ->
  exists s' o',
    Gen.ECache_Clear pool_Put delete_call pair_pk pair_v (gp cap s) (sheap lg s) =
      Ok ((gp cap s', Z.of_nat n), sheap (lg ++ enc_evs (dels_ev d)) s') /\
    cinv (B + 9 * Z.of_nat (length (entries o)) + 33) s' o' /\ bm dec (entries o') = it' /\
    allocs s' = allocs s /\ (length (entries o') <= length (entries o) + 1)%nat.
Proof.
  intros (HR & Wi & Ho) Hb. pose proof (o_len_le (entries o)) as Hle. pose proof Wi as (_ & _ & _ & HB).
  unfold sec_clear. rewrite B_len.
  destruct (MC_iterator lg s o B HR Wi ltac:(lia) Ho) as (s1 & it1 & E1 & Hg1 & Hi1 & Ha1 & HR1 & W1).
  assert (Hfg : (S (o_len (entries o)) < o_len (entries o) + 2)%nat) by lia.
  pose proof (Clear_loop lg cap (S (o_len (entries o))) (o_len (entries o) + 2)%nat s1 _ 0%nat it1 0%nat [] (B + 3)
                Hfg HR1 W1 eq_refl Hi1) as L.
  cbn [entries] in L. rewrite two62' in *. specialize (L ltac:(lia) ltac:(lia)).
  change (N.of_nat 0) with (@it_start) in L.
  destruct (clear_loop Z.eqb (S (o_len (entries o))) (bm dec (entries o)) it_start 0 []) as [[[it' n] d] oof].
  intros Hoof. specialize (L Hoof). destruct L as (s2 & o2 & it2 & p2 & E2 & HR2 & W2 & Ho2 & Hi2 & Hb2 & Ha2 & Hl2).
  cbn [entries] in Hl2.
  destruct (MC_close (lg ++ enc_evs (dels_ev d)) s2 o2 it2 p2 _ HR2 W2 ltac:(lia) Hi2 Ho2) as (s3 & it3 & e3 & E3 & Ha3 & HR3 & W3).
  unfold Gen.ECache_Clear. gp_cbn. rewrite (bind_ok _ _ _ _ _ E1). cbv beta iota zeta.
  rewrite (MC_len pool_Put pool_Get Hput Hget s o B HR Wi ltac:(lia)), Nat2Z.id.
  rewrite <- Hg1. change (dels_ev (@nil (Z * Z))) with (@nil (lru_ev Z Z)) in E2. change (enc_evs []) with (@nil Z) in E2.
  rewrite app_nil_r in E2. change (Z.of_nat 0) with 0 in E2.
  fold (C08_GenFn_small.gp HC HD HK cap s1).
  rewrite ?bind_assoc, (bind_ok _ _ _ _ _ E2). cbv beta iota zeta. gp_cbn.
  rewrite ?bind_assoc, (bind_ok _ _ _ _ _ E3). cbv beta iota zeta. gp_cbn. unfold ret.
  exists s3, (OMap.mkOMap (entries o2) []). split; [reflexivity|].
  split; [split; [exact HR3|split; [eapply winv_mono; [|exact W3]; lia|reflexivity]]|].
  split; [exact Hb2|]. split; [congruence|]. cbn [entries]. lia.
Qed.

End Clear.

Print Assumptions Clear_loop.
Print Assumptions gen_Clear_refines.
