(** C16, translator tie, UnmarshalUint as translated from the Go source on this
    run (Gen_xbinary_fn.v, harness/cmd/go2coq): total - an invariant of the
    generated loop ([iter_inv]), not through the hand model.  Removing the
    [idx == len(buf)] test makes [GoPanic] reachable and breaks this proof. *)
From Coq Require Import List ZArith Lia Bool.
From Coq Require Import ZifyBool.
From GL Require Import lib.GoLite.
From GLGEN Require Import XB_GenTotal Gen_xbinary_fn.
Import ListNotations.
Open Scope Z_scope.
Ltac Zify.zify_post_hook ::= Z.div_mod_to_equations.

Theorem gen_UnmarshalUint_total : forall h buf, wf_slice h buf ->
  dec_total h (s_len buf) (scalar 64 h) (Gen.UnmarshalUint buf h).
Proof.
  intros h buf W. pose proof W as (Wa & Wo & Wl & Wc & Wm).
  unfold Gen.UnmarshalUint. cbv beta iota zeta.
  match goal with |- dec_total _ _ _ (iter ?f ?body ?s0 _) =>
    destruct (iter_inv body
      (fun st h' => let '(res, idx, shft) := st in
                    h' = h /\ 0 <= idx <= s_len buf /\ 0 <= res < 18446744073709551616)
      (fun r h' => dec_total h (s_len buf) (scalar 64 h) (Ok (r, h')))
      (fun st _ => let '(_, idx, _) := st in Z.to_nat (s_len buf - idx))) with f s0 h
      as (r & h' & E & P)
  end.
  - (* the body keeps the invariant, decreases len(buf)-idx, never panics *)
    intros [[res idx] shft] h0 (-> & Hidx & Hres).
    unfold Gen.UnmarshalUint_loop1.
    assert (Hacc : forall x s, 0 <= Z.lor res (shl u64 64 x s) < 18446744073709551616).
    { intros x s. apply (zlor_range _ _ 64); [lia|exact Hres|apply shl_u64_range]. }
    go_run; unfold ret; cbv beta iota zeta.
    all: try (split; [repeat split; try lia; apply Hacc|lia]).
    all: do 4 eexists; (split; [reflexivity|]).
    all: first [ left; repeat split; reflexivity
               | right; split; [reflexivity|split; [lia|split; [reflexivity|apply Hacc]]] ].
  - repeat split; lia.
  - lia.
  - rewrite E. exact P.
Qed.

Print Assumptions gen_UnmarshalUint_total.
