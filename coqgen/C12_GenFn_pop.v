(** C12 tie: the generated [futures.Pop] (coqgen/Gen_timeout.v) refines the model's [f_pop]; on the empty slice it panics, where the model raises [bad]. *)
From Coq Require Import List ZArith NArith Bool Lia.
From GL Require Import lib.GoLite model.THeap proofs.C12_THeap.
From GLGEN Require Import TM_GenVocab Gen_timeout.
Import ListNotations.
Open Scope Z_scope.

Theorem gen_pop D h fs m : rel D h fs m -> incl (arr m) D -> arr m <> [] ->
  post (Gen.futures_Pop fs h)
       (fun r h' => snd r = ptr (snd (f_pop m)) /\ rel D h' (fst r) (fst (f_pop m))).
Proof.
  intros R S Hne. rel_facts R.
  assert (Hn : 1 <= s_len fs). { rewrite L. unfold f_len. destruct (arr m); [contradiction|cbn [length]; lia]. }
  rewrite (pop_spec m Hne). cbv zeta. cbn [fst snd].
  replace (anth (arr m) (length (arr m) - 1)) with (aget (arr m) (s_len fs - 1))
    by (rewrite aget_anth; f_equal; unfold f_len in L; lia).
  unfold Gen.futures_Pop, Gen.futures_Len. obj_run. obj_done. cbn [fst snd]. split; [reflexivity|].
  eapply rel_ext; [eassumption|]. split; [|intros y; split; reflexivity].
  cbn [arr m_idx m_take m_slot]. unfold aset. apply firstn_aset_last. unfold f_len in L. lia.
Qed.

Theorem gen_pop_panic D h fs m : rel D h fs m -> arr m = [] -> Gen.futures_Pop fs h = GoPanic.
Proof.
  intros R He. rel_facts R. unfold f_len in L. rewrite He in L. cbn [length] in L.
  unfold Gen.futures_Pop, Gen.futures_Len. panic_run. reflexivity.
Qed.

Print Assumptions gen_pop.
Print Assumptions gen_pop_panic.
