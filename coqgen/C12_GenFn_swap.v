(** C12 tie: the generated [futures.Swap] (coqgen/Gen_timeout.v) refines the model's [f_swap]; outside the slice it panics, where the model raises [bad]. *)
From Coq Require Import List ZArith NArith Bool Lia.
From GL Require Import lib.GoLite model.THeap proofs.C12_THeap.
From GLGEN Require Import TM_GenVocab Gen_timeout.
Import ListNotations.
Open Scope Z_scope.

Theorem gen_swap D h fs m i j : rel D h fs m -> incl (arr m) D ->
  in_range m i = true -> in_range m j = true ->
  post (Gen.futures_Swap fs i j h) (fun _ h' => rel D h' fs (f_swap m i j)).
Proof.
  intros R S Hi Hj. pose proof Hi as Hi'. pose proof Hj as Hj'.
  apply (proj1 (in_range_iff _ _ _ _ _ R)) in Hi. apply (proj1 (in_range_iff _ _ _ _ _ R)) in Hj.
  rel_facts R. unfold f_len in L.
  unfold Gen.futures_Swap. obj_run. obj_done.
  eapply rel_ext; [eassumption|].
  unfold f_swap. rewrite Hi', Hj'. cbn [andb]. cbv zeta.
  (* the same final state whatever the order of the four writes: normalise the
     reads [a'[i]], [a'[j]] of the swapped slice *)
  unfold m_idx, m_slot; cbn [arr hs bad].
  destruct (Z.eq_dec i j) as [->|Hij];
    rewrite ?aget_aset_same by (rewrite ?aset_length; lia);
    rewrite ?(aget_aset_other _ j i) by lia;
    rewrite ?aget_aset_same by (rewrite ?aset_length; lia);
    apply meq_refl.
Qed.

Theorem gen_swap_panic D h fs m i j : rel D h fs m -> incl (arr m) D ->
  in_range m i && in_range m j = false -> Gen.futures_Swap fs i j h = GoPanic.
Proof.
  intros R S Hr. rel_facts R. unfold in_range in Hr. rewrite <- L in Hr.
  unfold Gen.futures_Swap.
  destruct (Z.leb_spec 0 i); destruct (Z.ltb_spec i (s_len fs)); destruct (Z.leb_spec 0 j);
    destruct (Z.ltb_spec j (s_len fs)); cbn [andb] in Hr; try discriminate Hr; panic_run; reflexivity.
Qed.

Print Assumptions gen_swap.
Print Assumptions gen_swap_panic.
