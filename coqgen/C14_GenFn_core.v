(** C14, translator tie, the loop-free operations of container/ringbuffer.go as
    translated from the Go source on this run (Gen_ringbuffer.v; V := Z):
    the representation relation [rel] between the generated record in a heap
    and the model state, and NewRingBuffer, Len, Cap, Write, Read, At against
    coq/model/RingBuf.v. *)
From Coq Require Import List ZArith Arith Lia Bool.
From Coq Require Import ZifyBool ZifyNat.
From GL Require Import lib.GoLite model.RingBuf spec.Queue proofs.C14_RingBuf.
From GLGEN Require Import RB_GenVocab Gen_ringbuffer.
Import ListNotations.
Open Scope Z_scope.
Ltac Zify.zify_post_hook ::= Z.div_mod_to_equations.

Record rel (h : heap) (g : Gen.ringBuffer) (b : rb) : Prop := mkRel {
  rel_wf : wf_slice h (Gen.ringBuffer_buf g);
  rel_buf : sl_get h (Gen.ringBuffer_buf g) = buf b;
  rel_r : Gen.ringBuffer_r g = Z.of_nat (rd b);
  rel_w : Gen.ringBuffer_w g = Z.of_nat (wr b);
  rel_rd : (rd b < blen b)%nat;        (* part of the model's invariant Inv *)
  rel_wr : (wr b < blen b)%nat;
  rel_small : 4 * s_len (Gen.ringBuffer_buf g) < 9223372036854775808 }.

Lemma rel_len h g b : rel h g b -> s_len (Gen.ringBuffer_buf g) = Z.of_nat (blen b).
Proof.
  intros R. pose proof (sl_get_len h _ (rel_wf _ _ _ R)) as L.
  rewrite (rel_buf _ _ _ R) in L. unfold zlen, blen in *. lia.
Qed.

(* destructure a rel hypothesis into arithmetic facts *)

Ltac rel_facts R :=
  pose proof (rel_len _ _ _ R) as L;
  pose proof (rel_r _ _ _ R) as Hr; pose proof (rel_w _ _ _ R) as Hw;
  pose proof (rel_rd _ _ _ R) as Hrd; pose proof (rel_wr _ _ _ R) as Hwr;
  pose proof (rel_small _ _ _ R) as Hsm; pose proof (rel_buf _ _ _ R) as Hbuf;
  pose proof (rel_wf _ _ _ R) as W; pose proof W as (Wa & Wo & Wl & Wc & Wm).

Theorem gen_Len_refines : forall h g b, rel h g b ->
  Gen.ringBuffer_Len g = Z.of_nat (rb_len b).
Proof.
  intros h g b R. rel_facts R. unfold Gen.ringBuffer_Len, rb_len.
  repeat (go_if; try lia); go_unwrap; lia.
Qed.

Theorem gen_Cap_refines : forall h g b, rel h g b ->
  Gen.ringBuffer_Cap g = Z.of_nat (rb_cap b).
Proof.
  intros h g b R. rel_facts R. unfold Gen.ringBuffer_Cap, rb_cap. go_unwrap. lia.
Qed.

Ltac rel_cbn := cbn [Gen.ringBuffer_buf Gen.ringBuffer_r Gen.ringBuffer_w Gen.ringBuffer_size
  Gen.set_ringBuffer_r Gen.set_ringBuffer_w buf rd wr] in *.

Ltac rel_split := rel_cbn; constructor; rel_cbn.

Theorem gen_Write_refines : forall h g b v, rel h g b ->
  exists g' h',
    Gen.ringBuffer_Write g v h = Ok ((g', if snd (rb_write b v) then ENil else Err), h') /\
    rel h' g' (fst (rb_write b v)) /\ length h' = length h.
Proof.
  intros h g b v R. rel_facts R.
  unfold Gen.ringBuffer_Write, rb_write.
  rewrite (gen_Len_refines h g b R), (gen_Cap_refines h g b R).
  destruct (rb_len b =? rb_cap b)%nat eqn:E; cbn [fst snd];
  go_run; unfold ret; do 2 eexists; (split; [reflexivity|]).
  all: try (split; [exact R|reflexivity]).
  all: split; [|apply sl_put_length; assumption].
  all: unfold wrap; rel_split; unfold blen; cbn [buf]; rewrite ?set_nth_length;
    try (apply wf_slice_put; [assumption|lia|unfold zlen; cbn [length]; lia|assumption]);
    try (rewrite sl_get_put_same by (try assumption; unfold zlen; cbn [length]; lia);
         rewrite (rel_buf _ _ _ R); symmetry; rewrite set_nth_zsplice by (unfold blen in *; lia);
         f_equal; lia);
    try assumption; unfold blen in *; repeat (go_if; try lia); try lia.
Qed.

Theorem gen_Read_refines : forall h g b, rel h g b ->
  exists g' h',
    Gen.ringBuffer_Read g h =
      Ok ((g', match snd (rb_read b) with Some v => v | None => 0 end,
               match snd (rb_read b) with Some _ => ENil | None => Err end), h') /\
    rel h' g' (fst (rb_read b)) /\ length h' = length h.
Proof.
  intros h g b R. rel_facts R.
  unfold Gen.ringBuffer_Read, rb_read.
  rewrite (gen_Len_refines h g b R).
  destruct (rb_len b =? 0)%nat eqn:E; cbn [fst snd];
  go_run; unfold ret, znth; rewrite ?Hbuf, ?Hr, ?Nat2Z.id; do 2 eexists; (split; [reflexivity|]).
  all: try (split; [exact R|reflexivity]).
  all: split; [|apply sl_put_length; assumption].
  all: unfold wrap; rel_split; unfold blen; cbn [buf]; rewrite ?set_nth_length;
    try (apply wf_slice_put; [assumption|lia|unfold zlen; cbn [length]; lia|assumption]);
    try (rewrite sl_get_put_same by (try assumption; unfold zlen; cbn [length]; lia);
         rewrite Hbuf; symmetry; rewrite set_nth_zsplice by (unfold blen in *; lia);
         f_equal; lia);
    try assumption; unfold blen in *; repeat (go_if; try lia); try lia.
Qed.

Theorem gen_At_refines : forall h g b i, rel h g b ->
  -9223372036854775808 <= i < 9223372036854775808 ->
  Gen.ringBuffer_At g i h = match rb_at b i with Some v => Ok (v, h) | None => GoPanic end.
Proof.
  intros h g b i R Hi. rel_facts R.
  assert (Hl : (rb_len b <= blen b)%nat) by (unfold rb_len; repeat (go_if; try lia); lia).
  unfold Gen.ringBuffer_At, rb_at.
  rewrite (gen_Len_refines h g b R).
  go_run; try reflexivity; unfold ret, znth; rewrite Hbuf; repeat f_equal; unfold blen in *; lia.
Qed.

Theorem gen_New_refines : forall h size, 4 * (Z.of_nat size + 1) < 9223372036854775808 ->
  exists g,
    Gen.NewRingBuffer (Z.of_nat size) h = Ok (g, h ++ [repeat 0 (S size)]) /\
    rel (h ++ [repeat 0 (S size)]) g (new_rb size).
Proof.
  intros h size Hs. unfold Gen.NewRingBuffer. go_run. unfold ret.
  replace (Z.to_nat (Z.of_nat size + 1)) with (S size) by lia.
  eexists. split; [reflexivity|].
  pose proof (wf_slice_new h (Z.of_nat size + 1) ltac:(lia)) as Wn.
  replace (Z.to_nat (Z.of_nat size + 1)) with (S size) in Wn by lia.
  unfold new_rb. rel_split; unfold blen; cbn [buf s_arr s_off s_len s_cap]; rewrite ?repeat_length; try lia; try reflexivity.
  - exact Wn.
  - unfold sl_get. cbn [s_arr s_off s_len]. rewrite arr_get_new.
    replace (Z.of_nat size + 1) with (zlen (repeat 0 (S size))) by (rewrite zlen_repeat; lia).
    apply zsub_all.
Qed.

Lemma rel_grow h g b l : rel h g b -> rel (h ++ [l]) g b.
Proof.
  intros R. destruct R as [W Hb Hr Hw Hrd Hwr Hs]. constructor; try assumption.
  - apply wf_slice_grow. exact W.
  - rewrite sl_get_grow by exact W. exact Hb.
Qed.
