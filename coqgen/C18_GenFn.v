(** C18, translator tie: container/iterable/mixer.go as translated from the Go
    source on this run (Gen_mixer.v, harness/cmd/go2coq; E := Z) against the
    hand-written model coq/model/Mixer.v.

    The two source iterators, the selector and the Reseter are interface / func
    values: in the generated code they are opaque handles (Z) and their methods
    are function parameters ([it_HasNext], [it_Next], [it_Close],
    [it_asReseter], [rs_Reset], [sf_call]).  The theorems are stated for every
    implementation of these parameters that behaves like a list-backed source
    of the model ([Rsrc h a s]: in heap [h] the handle [a] stands for the model
    source [s]; hypotheses [has_spec], [next_spec], [reset_spec] of the section)
    and for every pure selector [sf].  [lit_*] at the end is such an
    implementation (sources encoded in heap arrays), so the hypotheses are
    satisfiable, and [gen_mixer_refines_merge_lit] is the closed statement. *)
From Coq Require Import List ZArith Arith Lia Bool.
From Coq Require Import ZifyBool.
From GL Require Import lib.GoLite model.Mixer spec.Merge proofs.C18_Mixer.
From GLGEN Require Import Gen_mixer.
Import ListNotations.
Open Scope Z_scope.

Definition st_code (s : mst) : Z := match s with St0 => 0 | St1 => 1 | St2 => 2 | St3 => 3 end.

Ltac mx_cbn :=
  unfold Gen.set_Mixer_sf, Gen.set_Mixer_src1, Gen.set_Mixer_src2, Gen.set_Mixer_st, Gen.set_srcDesc_it,
    Gen.set_srcDesc_load, Gen.set_srcDesc_e in *;
  cbn [Gen.Mixer_sf Gen.Mixer_src1 Gen.Mixer_src2 Gen.Mixer_st Gen.srcDesc_it Gen.srcDesc_load
  Gen.srcDesc_e m_src1 m_src2 m_st d_it d_load d_e negb andb orb fst snd st_code] in *.

Section MixerTie.

Variable it_HasNext : Z -> M bool.
Variable it_Next : Z -> M (Z * bool).
Variable it_Close : Z -> M error.
Variable it_asReseter : Z -> M (Z * bool).
Variable rs_Reset : Z -> M error.
Variable sf : Z -> Z -> bool.

(* the selector of the generated code: the pure function [sf], whatever the handle *)
Definition sf_call (_ x y : Z) : M bool := ret (sf x y).

(* in heap h the handle a stands for the model source s *)
Variable Rsrc : heap -> Z -> src -> Prop.

Hypothesis has_spec : forall h a s, Rsrc h a s -> it_HasNext a h = Ok (src_has_next s, h).

Hypothesis next_spec : forall h a s, Rsrc h a s ->
  exists h', it_Next a h = Ok (snd (src_next s), h') /\ Rsrc h' a (fst (src_next s)) /\
             forall b s', b <> a -> Rsrc h b s' -> Rsrc h' b s'.

Hypothesis reset_spec : forall h a s, Rsrc h a s ->
  exists rs, it_asReseter a h = Ok ((rs, s_rst s), h) /\
    (s_rst s = true ->
       exists h', rs_Reset rs h = Ok (ENil, h') /\ Rsrc h' a (fst (src_reset s)) /\
                  forall b s', b <> a -> Rsrc h b s' -> Rsrc h' b s').

(* representation: generated record in heap h vs. model mixer *)
Definition drel (h : heap) (gd : Gen.srcDesc) (d : desc) : Prop :=
  Rsrc h (Gen.srcDesc_it gd) (d_it d) /\ Gen.srcDesc_load gd = d_load d /\ Gen.srcDesc_e gd = d_e d.

Definition mrel (h : heap) (g : Gen.Mixer) (m : mixer) : Prop :=
  Gen.srcDesc_it (Gen.Mixer_src1 g) <> Gen.srcDesc_it (Gen.Mixer_src2 g) /\
  drel h (Gen.Mixer_src1 g) (m_src1 m) /\ drel h (Gen.Mixer_src2 g) (m_src2 m) /\
  Gen.Mixer_st g = st_code (m_st m).

(* one step of the generated code that calls a source *)
Ltac mx_src :=
  match goal with
  | H : Rsrc ?h ?a ?s |- context [bind (it_HasNext ?a) ?k ?h] =>
      rewrite (bind_ok (it_HasNext a) k h _ _ (has_spec h a s H))
  | H : Rsrc ?h ?a ?s |- context [bind (it_Next ?a) ?k ?h] =>
      let h' := fresh "h" in let E := fresh "E" in let R := fresh "R" in let F := fresh "F" in
      destruct (next_spec h a s H) as (h' & E & R & F);
      rewrite (bind_ok (it_Next a) k h _ _ E);
      (* the other sources are untouched *)
      repeat match goal with
             | H2 : Rsrc h ?b ?s2 |- _ =>
                 lazymatch b with
                 | a => fail
                 | _ => let N := fresh "R" in
                        assert (N : Rsrc h' b s2) by (apply F; [congruence|exact H2]); clear H2
                 end
             end;
      clear H
  end.

Ltac mx_run := repeat first [ go_step | mx_src | progress cbv beta iota zeta | progress mx_cbn ].

Theorem gen_Init_refines : forall h g0 sfh a1 a2 s1 s2,
  a1 <> a2 -> Rsrc h a1 s1 -> Rsrc h a2 s2 ->
  mrel h (Gen.Mixer_Init g0 sfh a1 a2) (mx_init s1 s2).
Proof.
  intros h g0 sfh a1 a2 s1 s2 Hne R1 R2. unfold Gen.Mixer_Init, mx_init, mrel, drel. mx_cbn.
  repeat split; assumption.
Qed.

Theorem gen_selectState_refines : forall h g m, mrel h g m ->
  exists g' h', Gen.Mixer_selectState it_HasNext it_Next sf_call g h = Ok (g', h') /\
                mrel h' g' (select_state sf m).
Proof.
  intros h [sfh [i1 l1 e1] [i2 l2 e2] st] [[s1 ml1 me1] [s2 ml2 me2] ms] H.
  unfold mrel, drel in H. mx_cbn. destruct H as (Hne & (R1 & -> & ->) & (R2 & -> & ->) & ->).
  unfold Gen.Mixer_selectState, select_state, desc_load, Gen.Mixer_testFunc, sf_call. mx_cbn.
  destruct ms; mx_cbn; try (do 2 eexists; split; [reflexivity|]; unfold mrel, drel; mx_cbn; repeat split; assumption).
  destruct ml1, ml2; mx_cbn; mx_run;
    repeat match goal with
    | |- context [src_has_next ?s] => destruct (src_has_next s) eqn:?; mx_cbn; mx_run
    | |- context [src_next ?s] => destruct (src_next s) as [? [? ?]] eqn:?; mx_cbn; mx_run
    | H : (_, (_, _)) = (_, (_, _)) |- _ => injection H as <- <- <-; mx_cbn; mx_run
    | |- context [if ?c then _ else _] => destruct c eqn:?; try lia; mx_cbn; mx_run
    end;
    try lia; unfold ret; do 2 eexists; (split; [reflexivity|]); unfold mrel, drel; mx_cbn;
    repeat split; try assumption; try reflexivity; try lia;
    repeat match goal with
    | F : forall b s', b <> ?a -> Rsrc ?h b s' -> Rsrc ?h' b s' |- Rsrc ?h' ?b ?s => apply F; [congruence|]
    end; try assumption.
Qed.

Theorem gen_HasNext_refines : forall h g m, mrel h g m ->
  exists g' h', Gen.Mixer_HasNext it_HasNext it_Next sf_call g h = Ok ((g', snd (mx_has_next sf m)), h') /\
                mrel h' g' (fst (mx_has_next sf m)).
Proof.
  intros h g m R. destruct (gen_selectState_refines h g m R) as (g' & h' & E & R').
  unfold Gen.Mixer_HasNext, mx_has_next. go_call E. cbv beta iota zeta. unfold ret. cbn [fst snd].
  exists g', h'. split; [|exact R']. destruct R' as (_ & _ & _ & ->).
  destruct (m_st (select_state sf m)); reflexivity.
Qed.

Theorem gen_Next_refines : forall h g m, mrel h g m ->
  exists g' h',
    Gen.Mixer_Next it_HasNext it_Next sf_call g h =
      Ok ((g', fst (snd (mx_next sf m)), snd (snd (mx_next sf m))), h') /\
    mrel h' g' (fst (mx_next sf m)).
Proof.
  intros h g m R. destruct (gen_selectState_refines h g m R) as (g' & h' & E & R').
  unfold Gen.Mixer_Next, mx_next. go_call E. cbv beta iota zeta.
  destruct g' as [sfh [i1 l1 e1] [i2 l2 e2] st].
  destruct (select_state sf m) as [[s1 ml1 me1] [s2 ml2 me2] ms].
  unfold mrel, drel in R'. mx_cbn. destruct R' as (Hne & (R1 & -> & ->) & (R2 & -> & ->) & ->).
  destruct ms; mx_cbn; unfold ret; cbv beta iota zeta; mx_cbn;
    do 2 eexists; (split; [reflexivity|]); unfold mrel, drel; mx_cbn; repeat split; assumption.
Qed.

(* srcDesc.reset *)
Lemma gen_desc_reset_refines : forall h gd d, drel h gd d ->
  exists gd' h' e,
    Gen.srcDesc_reset it_asReseter rs_Reset gd h = Ok ((gd', e), h') /\
    is_nil e = snd (desc_reset d) /\ Gen.srcDesc_it gd' = Gen.srcDesc_it gd /\
    (snd (desc_reset d) = true -> drel h' gd' (fst (desc_reset d))) /\
    (snd (desc_reset d) = false -> h' = h /\ drel h gd' (fst (desc_reset d))) /\
    (forall b s', b <> Gen.srcDesc_it gd -> Rsrc h b s' -> Rsrc h' b s').
Proof.
  intros h [i l e] [s ml me] (R & _ & _). mx_cbn.
  unfold Gen.srcDesc_reset, desc_reset, src_reset. mx_cbn.
  destruct (reset_spec h i s R) as (rs & E & Hok).
  go_call E. cbv beta iota zeta. destruct (s_rst s) eqn:Er.
  - destruct (Hok eq_refl) as (h' & E2 & R' & F). go_call E2. unfold ret. cbn [fst snd].
    exists (Gen.mk_srcDesc i false 0), h', ENil. unfold drel. mx_cbn.
    unfold src_reset in R'. rewrite Er in R'. cbn [fst] in R'.
    repeat split; try reflexivity; try assumption; try discriminate; try (intros _; repeat split; assumption).
  - unfold ret. cbn [fst snd]. exists (Gen.mk_srcDesc i false 0), h, Err. unfold drel. mx_cbn.
    repeat split; try reflexivity; try assumption; try discriminate; intros; assumption.
Qed.

Theorem gen_Reset_refines : forall h g m, mrel h g m ->
  exists g' h' e,
    Gen.Mixer_Reset it_asReseter rs_Reset g h = Ok ((g', e), h') /\
    mrel h' g' (fst (mx_reset m)) /\
    (is_nil e = true <-> snd (mx_reset m) = ROk).
Proof.
  intros h [sfh d1 d2 st] [m1 m2 ms] R. unfold mrel in R. mx_cbn. destruct R as (Hne & D1 & D2 & ->).
  unfold Gen.Mixer_Reset, mx_reset. mx_cbn.
  destruct (gen_desc_reset_refines h d1 m1 D1) as (d1' & h1 & e1 & E1 & N1 & I1 & Ok1 & Ko1 & F1).
  go_call E1. cbv beta iota zeta. mx_cbn.
  destruct (desc_reset m1) as [m1' ok1]. cbn [fst snd] in *. destruct ok1.
  - destruct e1; [|discriminate]. cbn [is_nil negb].
    assert (D2' : drel h1 d2 m2).
    { destruct D2 as (R2 & L2 & V2). split; [|split; assumption]. apply F1; [congruence|exact R2]. }
    destruct (gen_desc_reset_refines h1 d2 m2 D2') as (d2' & h2 & e2 & E2 & N2 & I2 & Ok2 & Ko2 & F2).
    go_call E2. cbv beta iota zeta. mx_cbn.
    destruct (desc_reset m2) as [m2' ok2]. cbn [fst snd] in *. destruct ok2.
    + destruct e2; [|discriminate]. cbn [is_nil negb]. unfold ret.
      exists (Gen.mk_Mixer sfh d1' d2' 0), h2, ENil. split; [reflexivity|]. split; [|split; reflexivity].
      unfold mrel. mx_cbn. split; [congruence|]. split; [|split; [apply Ok2; reflexivity|reflexivity]].
      destruct (Ok1 eq_refl) as (R1 & L1 & V1). split; [|split; assumption]. apply F2; [congruence|exact R1].
    + destruct e2; [discriminate|]. cbn [is_nil negb]. unfold ret.
      destruct (Ko2 eq_refl) as (-> & D2k).
      exists (Gen.mk_Mixer sfh d1' d2' (st_code ms)), h1, Err. split; [reflexivity|]. split; [|split; discriminate].
      unfold mrel. mx_cbn. split; [congruence|]. split; [apply Ok1; reflexivity|]. split; [exact D2k|reflexivity].
  - destruct e1; [discriminate|]. cbn [is_nil negb]. unfold ret.
    destruct (Ko1 eq_refl) as (-> & D1k).
    exists (Gen.mk_Mixer sfh d1' d2 (st_code ms)), h, Err. split; [reflexivity|]. split; [|split; discriminate].
    unfold mrel. mx_cbn. split; [congruence|]. split; [exact D1k|]. split; [exact D2|reflexivity].
Qed.

(** * The generated step function and the headline theorem of C18 over it *)

(* one call of the Go mixer, as the correspondence harness does it; a panic or
   fuel exhaustion of the generated code is the observation OPanic *)
Definition gen_step (g : Gen.Mixer) (c : call) (h : heap) : Gen.Mixer * out * heap :=
  match c with
  | CHasNext => match Gen.Mixer_HasNext it_HasNext it_Next sf_call g h with
                | Ok ((g', b), h') => (g', OHas b, h') | _ => (g, OPanic, h) end
  | CNext => match Gen.Mixer_Next it_HasNext it_Next sf_call g h with
             | Ok ((g', v, ok), h') => (g', ONext v ok, h') | _ => (g, OPanic, h) end
  | CReset => match Gen.Mixer_Reset it_asReseter rs_Reset g h with
              | Ok ((g', e), h') => (g', OReset (if is_nil e then ROk else ROther), h') | _ => (g, OPanic, h) end
  end.

Fixpoint gen_run (g : Gen.Mixer) (cs : list call) (h : heap) : list out * Gen.Mixer * heap :=
  match cs with
  | [] => ([], g, h)
  | c :: t => let '(g', o, h') := gen_step g c h in
              let '(os, gf, hf) := gen_run g' t h' in (o :: os, gf, hf)
  end.

(* both sources implement Reset (as WrapIntSlice does) *)
Definition both_rst (m : mixer) : Prop :=
  s_rst (d_it (m_src1 m)) = true /\ s_rst (d_it (m_src2 m)) = true.

Lemma desc_load_rst d : s_rst (d_it (desc_load d)) = s_rst (d_it d).
Proof.
  unfold desc_load. destruct (negb (d_load d) && src_has_next (d_it d)); [|reflexivity].
  unfold src_next. destruct (s_rest (d_it d)) as [|[v ok] t]; reflexivity.
Qed.

Lemma select_state_rst m : both_rst m -> both_rst (select_state sf m).
Proof.
  unfold both_rst, select_state. intros (A & B). destruct (m_st m); cbn [m_src1 m_src2]; try (split; assumption).
  rewrite !desc_load_rst. split; assumption.
Qed.

Lemma mx_step_rst m c : both_rst m -> both_rst (fst (mx_step sf m c)) /\
  (c = CReset -> snd (mx_step sf m c) = OReset ROk).
Proof.
  intros B. destruct c; cbn [mx_step].
  - unfold mx_has_next. cbn [fst snd]. split; [apply select_state_rst; exact B|discriminate].
  - unfold mx_next. pose proof (select_state_rst m B) as (A1 & A2).
    destruct (m_st (select_state sf m)); cbn [fst snd]; (split; [|discriminate]);
      unfold both_rst; cbn [m_src1 m_src2 d_it]; split; assumption.
  - destruct B as (A & B). unfold mx_reset, desc_reset, src_reset. rewrite A, B. cbn [fst snd].
    split; [unfold both_rst; cbn; split; reflexivity|reflexivity].
Qed.

Theorem gen_step_refines : forall h g m c, mrel h g m -> both_rst m ->
  exists g' h', gen_step g c h = (g', snd (mx_step sf m c), h') /\ mrel h' g' (fst (mx_step sf m c)).
Proof.
  intros h g m c R B. destruct c; cbn [gen_step mx_step].
  - destruct (gen_HasNext_refines h g m R) as (g' & h' & E & R'). rewrite E.
    destruct (mx_has_next sf m) as [m' b]. exists g', h'. split; [reflexivity|exact R'].
  - destruct (gen_Next_refines h g m R) as (g' & h' & E & R'). rewrite E.
    destruct (mx_next sf m) as [m' [v ok]]. exists g', h'. split; [reflexivity|exact R'].
  - destruct (gen_Reset_refines h g m R) as (g' & h' & e & E & R' & He). rewrite E.
    destruct (mx_step_rst m CReset B) as (_ & Hr). specialize (Hr eq_refl). cbn [mx_step] in Hr.
    destruct (mx_reset m) as [m' r]. cbn [fst snd] in *. injection Hr as ->.
    destruct He as [_ He]. rewrite (He eq_refl). exists g', h'. split; [reflexivity|exact R'].
Qed.

Lemma gen_run_refines : forall cs h g m, mrel h g m -> both_rst m ->
  fst (fst (gen_run g cs h)) = fst (mx_run sf m cs).
Proof.
  induction cs as [|c t IH]; intros h g m R B; [reflexivity|].
  cbn [gen_run mx_run]. destruct (gen_step_refines h g m c R B) as (g' & h' & E & R'). rewrite E.
  destruct (mx_step_rst m c B) as (B' & _).
  destruct (mx_step sf m c) as [m' o]. cbn [fst snd] in *.
  specialize (IH h' g' m' R' B'). destruct (gen_run g' t h') as [[os gf] hf].
  destruct (mx_run sf m' t) as [os' mf]. cbn [fst snd] in *. subst. reflexivity.
Qed.

(** Headline: the mixer as translated from the Go source is the two-pointer
    merge: over two sources that behave like WrapIntSlice l1 / l2, for every
    pure selector and every sequence of HasNext/Next/Reset calls, the outputs
    of the generated code are the outputs of the specification. *)
Theorem gen_mixer_refines_merge : forall (l1 l2 : list Z) (cs : list call) h g0 sfh a1 a2,
  a1 <> a2 -> Rsrc h a1 (wrap_ints l1) -> Rsrc h a2 (wrap_ints l2) ->
  fst (fst (gen_run (Gen.Mixer_Init g0 sfh a1 a2) cs h)) = fst (spec_run sf (spec_init l1 l2) cs).
Proof.
  intros l1 l2 cs h g0 sfh a1 a2 Hne R1 R2.
  rewrite (gen_run_refines cs h _ (mx_init (wrap_ints l1) (wrap_ints l2))).
  - apply mixer_refines_merge.
  - apply gen_Init_refines; assumption.
  - split; reflexivity.
Qed.

End MixerTie.

(** * An implementation of the parameters: list-backed sources in heap arrays

    The handle [a] is the index of a heap array holding the model source
    ([enc_src]: length of the slice, the Reseter flag, the whole slice, what is
    left of it).  This shows that the hypotheses of the section are
    satisfiable and gives the closed form of the headline theorem. *)

Definition b2z (b : bool) : Z := if b then 1 else 0.

Fixpoint flat (its : list (Z * bool)) : list Z :=
  match its with [] => [] | (v, ok) :: t => v :: b2z ok :: flat t end.

Fixpoint unflat (fuel : nat) (l : list Z) : list (Z * bool) :=
  match fuel, l with
  | S f, v :: o :: t => (v, o =? 1) :: unflat f t
  | _, _ => []
  end.

Definition enc_src (s : src) : list Z :=
  Z.of_nat (length (s_orig s)) :: b2z (s_rst s) :: flat (s_orig s) ++ flat (s_rest s).

Definition dec_src (arr : list Z) : src :=
  match arr with
  | n :: r :: body =>
      let k := (2 * Z.to_nat n)%nat in
      mkSrc (unflat (length body) (firstn k body)) (unflat (length body) (skipn k body)) (r =? 1)
  | _ => mkSrc [] [] false
  end.

Lemma flat_length its : length (flat its) = (2 * length its)%nat.
Proof. induction its as [|[v ok] t IH]; cbn [flat length]; lia. Qed.

Lemma unflat_flat its : forall fuel, (length its <= fuel)%nat -> unflat fuel (flat its) = its.
Proof.
  induction its as [|[v ok] t IH]; intros fuel Hf; [destruct fuel; reflexivity|].
  destruct fuel as [|f]; [cbn in Hf; lia|]. cbn [flat unflat]. rewrite IH by (cbn [length] in Hf; lia).
  destruct ok; reflexivity.
Qed.

Lemma dec_enc s : dec_src (enc_src s) = s.
Proof.
  destruct s as [orig rest rst]. unfold enc_src, dec_src. cbn [s_orig s_rest s_rst].
  rewrite Nat2Z.id, <- flat_length.
  rewrite firstn_app, Nat.sub_diag, firstn_all. cbn [firstn]. rewrite app_nil_r.
  rewrite skipn_app, Nat.sub_diag, skipn_all. cbn [skipn app].
  rewrite !unflat_flat by (rewrite app_length, !flat_length; lia).
  destruct rst; reflexivity.
Qed.

Definition lit_get (a : Z) (h : heap) : src := dec_src (arr_get h (Z.to_nat a)).
Definition lit_put (a : Z) (s : src) (h : heap) : heap := arr_set h (Z.to_nat a) (enc_src s).

Definition lit_HasNext (a : Z) : M bool := fun h => Ok (src_has_next (lit_get a h), h).
Definition lit_Next (a : Z) : M (Z * bool) := fun h =>
  Ok (snd (src_next (lit_get a h)), lit_put a (fst (src_next (lit_get a h))) h).
Definition lit_Close (_ : Z) : M error := ret ENil.
Definition lit_asReseter (a : Z) : M (Z * bool) := fun h => Ok ((a, s_rst (lit_get a h)), h).
Definition lit_Reset (a : Z) : M error := fun h => Ok (ENil, lit_put a (fst (src_reset (lit_get a h))) h).

Definition Rlit (h : heap) (a : Z) (s : src) : Prop :=
  0 <= a /\ (Z.to_nat a < length h)%nat /\ arr_get h (Z.to_nat a) = enc_src s.

Lemma Rlit_get h a s : Rlit h a s -> lit_get a h = s.
Proof. intros (_ & _ & E). unfold lit_get. rewrite E. apply dec_enc. Qed.

Lemma Rlit_put_same h a s s' : Rlit h a s -> Rlit (lit_put a s' h) a s'.
Proof.
  intros (A & L & _). unfold Rlit, lit_put. rewrite length_arr_set by exact L.
  rewrite arr_get_set_same by exact L. repeat split; assumption.
Qed.

Lemma Rlit_put_other h a s b s' sb : Rlit h a s -> b <> a -> Rlit h b sb -> Rlit (lit_put a s' h) b sb.
Proof.
  intros (A & L & _) Hne (B & Lb & Eb). unfold Rlit, lit_put. rewrite length_arr_set by exact L.
  rewrite arr_get_set_other by (try exact L; lia). repeat split; assumption.
Qed.

Lemma lit_has_spec : forall h a s, Rlit h a s -> lit_HasNext a h = Ok (src_has_next s, h).
Proof. intros h a s R. unfold lit_HasNext. rewrite (Rlit_get h a s R). reflexivity. Qed.

Lemma lit_next_spec : forall h a s, Rlit h a s ->
  exists h', lit_Next a h = Ok (snd (src_next s), h') /\ Rlit h' a (fst (src_next s)) /\
             forall b s', b <> a -> Rlit h b s' -> Rlit h' b s'.
Proof.
  intros h a s R. unfold lit_Next. rewrite (Rlit_get h a s R). eexists. split; [reflexivity|].
  split; [eapply Rlit_put_same; exact R|]. intros b s' Hne Rb. eapply Rlit_put_other; eassumption.
Qed.

Lemma lit_reset_spec : forall h a s, Rlit h a s ->
  exists rs, lit_asReseter a h = Ok ((rs, s_rst s), h) /\
    (s_rst s = true ->
       exists h', lit_Reset rs h = Ok (ENil, h') /\ Rlit h' a (fst (src_reset s)) /\
                  forall b s', b <> a -> Rlit h b s' -> Rlit h' b s').
Proof.
  intros h a s R. exists a. unfold lit_asReseter, lit_Reset. rewrite (Rlit_get h a s R).
  split; [reflexivity|]. intros _. eexists. split; [reflexivity|].
  split; [eapply Rlit_put_same; exact R|]. intros b s' Hne Rb. eapply Rlit_put_other; eassumption.
Qed.

(** The closed headline: the translated mixer over two heap-encoded
    WrapIntSlice sources is the two-pointer merge. *)
Theorem gen_mixer_refines_merge_lit :
  forall (sf : Z -> Z -> bool) (l1 l2 : list Z) (cs : list call) (g0 : Gen.Mixer) (sfh : Z),
  fst (fst (gen_run lit_HasNext lit_Next lit_asReseter lit_Reset sf
              (Gen.Mixer_Init g0 sfh 0 1) cs [enc_src (wrap_ints l1); enc_src (wrap_ints l2)]))
  = fst (spec_run sf (spec_init l1 l2) cs).
Proof.
  intros sf l1 l2 cs g0 sfh.
  apply (gen_mixer_refines_merge lit_HasNext lit_Next lit_asReseter lit_Reset sf Rlit
           lit_has_spec lit_next_spec lit_reset_spec); [lia| |];
    unfold Rlit, arr_get; cbn [Z.to_nat length nth]; repeat split; lia.
Qed.
Print Assumptions gen_mixer_refines_merge_lit.

(* non-vacuity: the generated code runs; a merge by <, a Reset in the middle *)
Example gen_ex_mixer :
  let g0 := Gen.mk_Mixer 0 (Gen.mk_srcDesc 0 false 0) (Gen.mk_srcDesc 0 false 0) 0 in
  fst (fst (gen_run lit_HasNext lit_Next lit_asReseter lit_Reset Z.ltb
              (Gen.Mixer_Init g0 7 0 1)
              [CHasNext; CNext; CNext; CReset; CNext; CNext; CNext; CNext; CNext; CNext; CHasNext]
              [enc_src (wrap_ints [1; 4; 6]); enc_src (wrap_ints [2; 3])]))
  = [OHas true; ONext 1 true; ONext 2 true; OReset ROk; ONext 1 true; ONext 2 true; ONext 3 true;
     ONext 4 true; ONext 6 true; ONext 0 false; OHas false].
Proof. vm_compute. reflexivity. Qed.
